import WV.Model.Observer

/-!
Helper definitions and lemmas for `WV.Props.C18obs` (the Deferred façade's observers).

Vocabulary (all derived from the state the driver executes, no ghost state):
* `sched w rest` — every call ever handed to `EventualQueue.eventually`, in the order it was handed
  over: the executed ones (`w.log`), then `rest` (the remainder of `to_call` while `_turn` is in its
  loop; `[]` between operations), then `w.eq.calls`.
* `occ w rest d` — how often Deferred `d` occurs in an observer's waiting list or in `sched`.
* `WF` — the well-formedness invariant: every Deferred ever handed out occurs exactly once.
-/
namespace WV.Observer

/-! ## counting -/

def dcount (cs : List Call) (d : Nat) : Nat := (cs.map (·.d)).count d

@[simp] theorem dcount_nil (d : Nat) : dcount [] d = 0 := rfl
@[simp] theorem dcount_append (a b : List Call) (d : Nat) : dcount (a ++ b) d = dcount a d + dcount b d := by
  simp [dcount, List.count_append]
@[simp] theorem dcount_cons (c : Call) (cs : List Call) (d : Nat) :
    dcount (c :: cs) d = (if c.d = d then 1 else 0) + dcount cs d := by
  simp only [dcount, List.map_cons, List.count_cons]
  split <;> simp_all <;> omega
@[simp] theorem dcount_mk (r : Res) (ds : List Nat) (x : Nat) :
    dcount (ds.map (fun d => (⟨d, r⟩ : Call))) x = ds.count x := by
  simp [dcount, List.map_map, Function.comp_def]

theorem dcount_pos_of_mem {cs : List Call} {c : Call} (h : c ∈ cs) : 0 < dcount cs c.d := by
  unfold dcount
  exact List.count_pos_iff.mpr (List.mem_map.mpr ⟨c, h, rfl⟩)

theorem mem_of_dcount_pos {cs : List Call} {d : Nat} (h : 0 < dcount cs d) : ∃ c ∈ cs, c.d = d := by
  unfold dcount at h
  have := List.count_pos_iff.mp h
  simpa using this

def W.logCalls (w : W) : List Call := w.log.map (·.call)

/-- everything ever scheduled, in scheduling order -/
def sched (w : W) (rest : List Call) : List Call := w.logCalls ++ rest ++ w.eq.calls

def pendCnt (w : W) (d : Nat) : Nat :=
  (w.os .welcome).observers.count d + (w.os .code).observers.count d + (w.os .key).observers.count d +
  (w.os .verifier).observers.count d + (w.os .versions).observers.count d + (w.os .closed).observers.count d +
  w.received.observers.count d

def occ (w : W) (rest : List Call) (d : Nat) : Nat := pendCnt w d + dcount (sched w rest) d

/-- well-formedness: every Deferred handed out (`d < regs.length`) is in exactly one place — waiting
    in one observer, or scheduled/executed exactly once; results drain the waiting lists -/
structure WF (w : W) (rest : List Call) : Prop where
  once : ∀ d, occ w rest d = if d < w.regs.length then 1 else 0
  osDrained : ∀ o r, (w.os o).result = some r → (w.os o).observers = []
  seqErr : ∀ e, w.received.error = some e → w.received.observers = []
  seqRes : w.received.observers ≠ [] → w.received.results = []

/-! ## eventual.py -/

@[simp] theorem eventually_calls (q : EQ) (c : Call) : (q.eventually c).calls = q.calls ++ [c] := rfl
@[simp] theorem eventually_timer (q : EQ) (c : Call) : (q.eventually c).timer = true := by
  simp [EQ.eventually]

@[simp] theorem scheduleAll_calls (r : Res) (ds : List Nat) (q : EQ) :
    (scheduleAll r ds q).calls = q.calls ++ ds.map (fun d => (⟨d, r⟩ : Call)) := by
  induction ds generalizing q with
  | nil => simp [scheduleAll]
  | cons d ds ih => simp [scheduleAll, ih]

theorem scheduleAll_timer (r : Res) (ds : List Nat) (q : EQ) :
    (scheduleAll r ds q).timer = (q.timer || !ds.isEmpty) := by
  induction ds generalizing q with
  | nil => simp [scheduleAll]
  | cons d ds ih => simp [scheduleAll, ih]

/-! ## OneShotObserver -/

theorem maybeCall_result (o : OneShot) (q : EQ) : (o.maybeCallObservers q).1.result = o.result := by
  unfold OneShot.maybeCallObservers; split <;> simp_all

theorem maybeCall_none (o : OneShot) (q : EQ) (h : o.result = none) : o.maybeCallObservers q = (o, q) := by
  unfold OneShot.maybeCallObservers; simp [h]

theorem maybeCall_some (o : OneShot) (q : EQ) (r : Res) (h : o.result = some r) :
    o.maybeCallObservers q = ({ o with observers := [] }, scheduleAll r o.observers q) := by
  unfold OneShot.maybeCallObservers; simp [h]

/-- the calls a one-shot hands over when it notifies -/
def OneShot.newCalls (o : OneShot) : List Call :=
  match o.result with
  | none => []
  | some r => o.observers.map (fun d => (⟨d, r⟩ : Call))

theorem maybeCall_calls (o : OneShot) (q : EQ) : (o.maybeCallObservers q).2.calls = q.calls ++ o.newCalls := by
  unfold OneShot.maybeCallObservers OneShot.newCalls; split <;> simp_all

theorem maybeCall_observers (o : OneShot) (q : EQ) :
    (o.maybeCallObservers q).1.observers = if o.result = none then o.observers else [] := by
  unfold OneShot.maybeCallObservers; split <;> simp_all

theorem maybeCall_cnt (o : OneShot) (q : EQ) (x : Nat) :
    (o.maybeCallObservers q).1.observers.count x + dcount (o.maybeCallObservers q).2.calls x =
      o.observers.count x + dcount q.calls x := by
  rw [maybeCall_calls, maybeCall_observers]
  unfold OneShot.newCalls
  cases h : o.result <;> simp <;> omega

theorem maybeCall_drained (o : OneShot) (q : EQ) (r : Res) (h : (o.maybeCallObservers q).1.result = some r) :
    (o.maybeCallObservers q).1.observers = [] := by
  rw [maybeCall_result] at h
  rw [maybeCall_observers]; simp [h]

/-! ## façade plumbing -/

@[simp] theorem setOS_os_same (w : W) (o : OS) (p : OneShot × EQ) : (w.setOS o p).os o = p.1 := by simp [W.setOS]
theorem setOS_os (w : W) (o o' : OS) (p : OneShot × EQ) : (w.setOS o p).os o' = if o' = o then p.1 else w.os o' := rfl
@[simp] theorem setOS_os_ne (w : W) (o o' : OS) (p : OneShot × EQ) (h : o' ≠ o) : (w.setOS o p).os o' = w.os o' := by
  simp [W.setOS, h]
@[simp] theorem setOS_eq (w : W) (o : OS) (p : OneShot × EQ) : (w.setOS o p).eq = p.2 := rfl
@[simp] theorem setOS_received (w : W) (o : OS) (p : OneShot × EQ) : (w.setOS o p).received = w.received := rfl
@[simp] theorem setOS_closed (w : W) (o : OS) (p : OneShot × EQ) : (w.setOS o p).closed = w.closed := rfl
@[simp] theorem setOS_regs (w : W) (o : OS) (p : OneShot × EQ) : (w.setOS o p).regs = w.regs := rfl
@[simp] theorem setOS_log (w : W) (o : OS) (p : OneShot × EQ) : (w.setOS o p).log = w.log := rfl
@[simp] theorem setOS_bossClose (w : W) (o : OS) (p : OneShot × EQ) : (w.setOS o p).bossClose = w.bossClose := rfl
@[simp] theorem setRecv_os (w : W) (p : SeqObs × EQ) : (w.setRecv p).os = w.os := rfl
@[simp] theorem setRecv_eq (w : W) (p : SeqObs × EQ) : (w.setRecv p).eq = p.2 := rfl
@[simp] theorem setRecv_received (w : W) (p : SeqObs × EQ) : (w.setRecv p).received = p.1 := rfl
@[simp] theorem setRecv_closed (w : W) (p : SeqObs × EQ) : (w.setRecv p).closed = w.closed := rfl
@[simp] theorem setRecv_regs (w : W) (p : SeqObs × EQ) : (w.setRecv p).regs = w.regs := rfl
@[simp] theorem setRecv_log (w : W) (p : SeqObs × EQ) : (w.setRecv p).log = w.log := rfl

theorem pendCnt_setOS (w : W) (o : OS) (p : OneShot × EQ) (x : Nat) :
    pendCnt (w.setOS o p) x + (w.os o).observers.count x = pendCnt w x + p.1.observers.count x := by
  cases o <;> simp [pendCnt, W.setOS] <;> omega

theorem pendCnt_setRecv (w : W) (p : SeqObs × EQ) (x : Nat) :
    pendCnt (w.setRecv p) x + w.received.observers.count x = pendCnt w x + p.1.observers.count x := by
  simp [pendCnt, W.setRecv]; omega

@[simp] theorem logCalls_setOS (w : W) (o : OS) (p : OneShot × EQ) : (w.setOS o p).logCalls = w.logCalls := rfl
@[simp] theorem logCalls_setRecv (w : W) (p : SeqObs × EQ) : (w.setRecv p).logCalls = w.logCalls := rfl

/-- replacing one-shot `o` by `o'` (whose waiting list has `add` more entries) and notifying -/
theorem occ_setOS_maybeCall (w : W) (o : OS) (rest : List Call) (o' : OneShot) (add : Nat → Nat)
    (hc : ∀ x, o'.observers.count x = (w.os o).observers.count x + add x) (x : Nat) :
    occ (w.setOS o (o'.maybeCallObservers w.eq)) rest x = occ w rest x + add x := by
  have h1 := pendCnt_setOS w o (o'.maybeCallObservers w.eq) x
  have h2 := maybeCall_cnt o' w.eq x
  have h3 := hc x
  simp only [occ, sched, dcount_append, setOS_eq, logCalls_setOS]
  omega

/-! ## SequenceObserver -/

/-- the call `when_next_event` hands over -/
def SeqObs.nextCall (s : SeqObs) (d : Nat) : List Call :=
  match s.error with
  | some e => [⟨d, e⟩]
  | none => match s.results with
    | r :: _ => [⟨d, .val r⟩]
    | [] => []

theorem whenNext_calls (s : SeqObs) (d : Nat) (q : EQ) :
    (s.whenNextEvent d q).2.calls = q.calls ++ s.nextCall d := by
  unfold SeqObs.whenNextEvent SeqObs.nextCall
  cases he : s.error <;> cases hr : s.results <;> simp

theorem whenNext_observers (s : SeqObs) (d : Nat) (q : EQ) :
    (s.whenNextEvent d q).1.observers = if s.error = none ∧ s.results = [] then s.observers ++ [d] else s.observers := by
  unfold SeqObs.whenNextEvent
  split
  · simp_all
  · split <;> simp_all

theorem whenNext_error (s : SeqObs) (d : Nat) (q : EQ) : (s.whenNextEvent d q).1.error = s.error := by
  unfold SeqObs.whenNextEvent
  split
  · rfl
  · split <;> rfl

theorem whenNext_results (s : SeqObs) (d : Nat) (q : EQ) :
    (s.whenNextEvent d q).1.results = if s.error = none then s.results.tail else s.results := by
  unfold SeqObs.whenNextEvent
  split
  · simp_all
  · split <;> simp_all

theorem whenNext_cnt (s : SeqObs) (d : Nat) (q : EQ) (x : Nat) :
    (s.whenNextEvent d q).1.observers.count x + dcount (s.whenNextEvent d q).2.calls x =
      s.observers.count x + dcount q.calls x + (if d = x then 1 else 0) := by
  rw [whenNext_calls, whenNext_observers]
  unfold SeqObs.nextCall
  cases he : s.error <;> cases hr : s.results <;> simp [List.count_append, List.count_cons] <;> omega

/-- the calls `fire` hands over -/
def SeqObs.fireCalls (s : SeqObs) (result : Res) : List Call :=
  match result with
  | .val v =>
    match s.observers with
    | d :: _ => [⟨d, .val ((s.results ++ [v]).head (by simp))⟩]
    | [] => []
  | f => s.observers.map (fun d => (⟨d, f⟩ : Call))

theorem seqFire_calls (s : SeqObs) (r : Res) (q : EQ) : (s.fire r q).2.calls = q.calls ++ s.fireCalls r := by
  unfold SeqObs.fire SeqObs.fireCalls
  cases r with
  | val v => cases s.observers <;> simp
  | exc e => simp
  | wclosed e => simp

theorem seqFire_observers (s : SeqObs) (r : Res) (q : EQ) :
    (s.fire r q).1.observers = if r.isFailure then [] else s.observers.tail := by
  unfold SeqObs.fire
  cases r with
  | val v => cases s.observers <;> simp [Res.isFailure]
  | exc e => simp [Res.isFailure]
  | wclosed e => simp [Res.isFailure]

theorem seqFire_error (s : SeqObs) (r : Res) (q : EQ) :
    (s.fire r q).1.error = if r.isFailure then some r else s.error := by
  unfold SeqObs.fire
  cases r with
  | val v => cases s.observers <;> simp [Res.isFailure]
  | exc e => simp [Res.isFailure]
  | wclosed e => simp [Res.isFailure]

theorem seqFire_results_val (s : SeqObs) (v : Nat) (q : EQ) :
    (s.fire (.val v) q).1.results = if s.observers = [] then s.results ++ [v] else (s.results ++ [v]).tail := by
  unfold SeqObs.fire
  cases s.observers <;> simp

theorem seqFire_results_fail (s : SeqObs) (r : Res) (q : EQ) (h : r.isFailure = true) :
    (s.fire r q).1.results = s.results := by
  unfold SeqObs.fire
  cases r with
  | val v => simp [Res.isFailure] at h
  | exc e => simp
  | wclosed e => simp

theorem seqFire_cnt (s : SeqObs) (r : Res) (q : EQ) (x : Nat) :
    (s.fire r q).1.observers.count x + dcount (s.fire r q).2.calls x = s.observers.count x + dcount q.calls x := by
  rw [seqFire_calls, seqFire_observers]
  unfold SeqObs.fireCalls
  cases r with
  | val v => cases ho : s.observers <;> simp [Res.isFailure, List.count_cons] <;> omega
  | exc e => simp [Res.isFailure]; omega
  | wclosed e => simp [Res.isFailure]; omega

theorem occ_setRecv (w : W) (rest : List Call) (p : SeqObs × EQ) (add : Nat → Nat)
    (hc : ∀ x, p.1.observers.count x + dcount p.2.calls x = w.received.observers.count x + dcount w.eq.calls x + add x)
    (x : Nat) : occ (w.setRecv p) rest x = occ w rest x + add x := by
  have h1 := pendCnt_setRecv w p x
  have h3 := hc x
  simp only [occ, sched, dcount_append, setRecv_eq, logCalls_setRecv]
  omega

/-! ## `WF` is preserved by every façade operation -/

theorem WF_congr {w w' : W} {rest : List Call} (hos : ∀ o, w'.os o = w.os o) (hr : w'.received = w.received)
    (he : w'.eq.calls = w.eq.calls) (hl : w'.log = w.log) (hregs : w'.regs = w.regs) (hw : WF w rest) : WF w' rest := by
  have hocc : ∀ x, occ w' rest x = occ w rest x := by
    intro x; simp [occ, pendCnt, sched, W.logCalls, hos, hr, he, hl]
  exact ⟨by intro d; rw [hocc, hregs]; exact hw.once d,
         by intro o r h; rw [hos] at h ⊢; exact hw.osDrained o r h,
         by intro e h; rw [hr] at h ⊢; exact hw.seqErr e h,
         by intro h; rw [hr] at h ⊢; exact hw.seqRes h⟩

/-- setting the result of one-shot `o` and notifying (`fire`, `error`) -/
theorem WF_setResult {w : W} {rest : List Call} (o : OS) (r : Res) (hw : WF w rest) :
    WF (w.setOS o (({ (w.os o) with result := some r }).maybeCallObservers w.eq)) rest := by
  refine ⟨?_, ?_, hw.seqErr, hw.seqRes⟩
  · intro d
    rw [occ_setOS_maybeCall w o rest _ (fun _ => 0) (by intro x; simp)]
    exact hw.once d
  · intro o' r' h
    by_cases ho : o' = o
    · subst ho
      rw [setOS_os_same] at h ⊢
      exact maybeCall_drained _ _ r' h
    · rw [setOS_os_ne _ _ _ _ ho] at h ⊢
      exact hw.osDrained o' r' h

theorem WF_setOS_id {w : W} {rest : List Call} (o : OS) (hw : WF w rest) : WF (w.setOS o (w.os o, w.eq)) rest := by
  refine WF_congr (w := w) (w' := w.setOS o (w.os o, w.eq)) ?_ rfl rfl rfl rfl hw
  intro o'; simp only [setOS_os]; split <;> simp_all

theorem WF_fireIfNotFired {w : W} {rest : List Call} (o : OS) (r : Res) (hw : WF w rest) :
    WF (w.setOS o ((w.os o).fireIfNotFired r w.eq)) rest := by
  unfold OneShot.fireIfNotFired
  split
  · exact WF_setResult o r hw
  · exact WF_setOS_id o hw

theorem WF_got {w : W} {rest : List Call} (e : Ev) (v : Nat) (hw : WF w rest) : WF (w.got e v) rest :=
  WF_fireIfNotFired e.os (.val v) hw

theorem WF_errorOS {w : W} {rest : List Call} (o : OS) (f : Res) (h : f.isFailure = true) (hw : WF w rest) :
    WF (w.errorOS o f h) rest := WF_setResult o f hw

theorem WF_setRecvFire {w : W} {rest : List Call} (r : Res) (hw : WF w rest) :
    WF (w.setRecv (w.received.fire r w.eq)) rest := by
  refine ⟨?_, hw.osDrained, ?_, ?_⟩
  · intro d
    rw [occ_setRecv w rest _ (fun _ => 0) (by intro x; simpa using seqFire_cnt w.received r w.eq x)]
    exact hw.once d
  · intro e h
    simp only [setRecv_received, seqFire_error, seqFire_observers] at h ⊢
    cases hf : r.isFailure
    · simp [hf] at h; simp [hw.seqErr e h]
    · simp
  · intro h
    simp only [setRecv_received, seqFire_observers] at h ⊢
    cases r with
    | val v =>
      simp only [Res.isFailure, Bool.false_eq_true, if_false] at h
      have hne : w.received.observers ≠ [] := by intro h0; simp [h0] at h
      rw [seqFire_results_val, hw.seqRes hne]; simp [hne]
    | exc e => simp [Res.isFailure] at h
    | wclosed e => simp [Res.isFailure] at h

theorem WF_recv {w : W} {rest : List Call} (v : Nat) (hw : WF w rest) : WF (w.recv v) rest := WF_setRecvFire (.val v) hw

theorem WF_closedTail {w : W} {rest : List Call} (f : Res) (h : f.isFailure = true) (hw : WF w rest) :
    WF (w.closedTail f h) rest := by
  unfold W.closedTail
  exact WF_setRecvFire f (WF_errorOS _ f h (WF_errorOS _ f h (WF_errorOS _ f h (WF_errorOS _ f h (WF_errorOS _ f h hw)))))

theorem WF_closedFlag {w : W} {rest : List Call} (hw : WF w rest) : WF { w with closed := true } rest :=
  WF_congr (w := w) (fun _ => rfl) rfl rfl rfl rfl hw

theorem WF_closedExc {w : W} {rest : List Call} (e : Nat) (hw : WF w rest) : WF (w.closedExc e) rest := by
  unfold W.closedExc
  exact WF_closedTail _ _ (WF_errorOS _ _ _ (WF_closedFlag hw))

theorem WF_closedOk {w : W} {rest : List Call} (r : Nat) (hw : WF w rest) : WF (w.closedOk r) rest := by
  unfold W.closedOk
  exact WF_closedTail _ _ (WF_fireIfNotFired _ _ (WF_closedFlag hw))

theorem once_grow {n d a : Nat} (h : a = if d < n then 1 else 0) :
    a + (if n = d then 1 else 0) = if d < n + 1 then 1 else 0 := by
  split at h <;> split <;> split <;> omega

theorem WF_ite_boss {w : W} {rest : List Call} (c : Bool) (n : Nat) (hw : WF w rest) :
    WF (if c then { w with bossClose := n } else w) rest := by
  cases c
  · exact hw
  · exact WF_congr (w := w) (fun _ => rfl) rfl rfl rfl rfl hw

theorem occ_regs (w : W) (rest : List Call) (rg : List Reg) (x : Nat) : occ { w with regs := rg } rest x = occ w rest x := rfl

theorem WF_call {w : W} {rest : List Call} (k : Kind) (react : List Kind) (hw : WF w rest) : WF (w.call k react) rest := by
  unfold W.call
  cases k with
  | message =>
    simp only
    refine ⟨?_, hw.osDrained, ?_, ?_⟩
    · intro d
      rw [occ_setRecv _ rest _ (fun x => if w.regs.length = x then 1 else 0)
        (by intro x; simpa using whenNext_cnt w.received w.regs.length w.eq x), occ_regs]
      simp only [setRecv_regs, List.length_append, List.length_singleton]
      exact once_grow (hw.once d)
    · intro e h
      simp only [setRecv_received, whenNext_error, whenNext_observers] at h ⊢
      simp [h, hw.seqErr e h]
    · intro h
      simp only [setRecv_received, whenNext_observers, whenNext_results] at h ⊢
      cases he : w.received.error with
      | some e => simp [he] at h ⊢; exact hw.seqRes h
      | none =>
        cases hr : w.received.results with
        | nil => simp
        | cons r rs =>
          simp [he, hr] at h
          have := hw.seqRes h
          simp [hr] at this
  | os o =>
    have hwf : WF ({ w with regs := w.regs ++ [Reg.mk (.os o) react] }.setOS o
        ((w.os o).whenFired w.regs.length w.eq)) rest := by
      refine ⟨?_, ?_, hw.seqErr, hw.seqRes⟩
      · intro d
        unfold OneShot.whenFired
        rw [occ_setOS_maybeCall _ o rest _ (fun x => if w.regs.length = x then 1 else 0)
          (by intro x; simp [List.count_append, List.count_cons]), occ_regs]
        simp only [setOS_regs, List.length_append, List.length_singleton]
        exact once_grow (hw.once d)
      · intro o' r' h
        by_cases ho : o' = o
        · subst ho
          rw [setOS_os_same] at h ⊢
          exact maybeCall_drained _ _ r' h
        · rw [setOS_os_ne _ _ _ _ ho] at h ⊢
          exact hw.osDrained o' r' h
    exact WF_ite_boss _ _ hwf

theorem WF_bstep {w : W} {rest : List Call} (o : BOp) (hw : WF w rest) : WF (bstep w o) rest := by
  cases o with
  | call k react => exact WF_call k react hw
  | got e v => exact WF_got e v hw
  | received v => exact WF_recv v hw
  | closedOk r => exact WF_closedOk r hw
  | closedExc e => exact WF_closedExc e hw

/-! ## turns -/

/-- `WF` only looks at the observers, the registry and `sched` -/
theorem WF_view {w w' : W} {rest rest' : List Call} (hos : w'.os = w.os) (hr : w'.received = w.received)
    (hregs : w'.regs = w.regs) (hs : sched w' rest' = sched w rest) (hw : WF w rest) : WF w' rest' := by
  have hocc : ∀ x, occ w' rest' x = occ w rest x := by
    intro x; simp [occ, pendCnt, hos, hr, hs]
  exact ⟨by intro d; rw [hocc, hregs]; exact hw.once d,
         by intro o r h; rw [hos] at h ⊢; exact hw.osDrained o r h,
         by intro e h; rw [hr] at h ⊢; exact hw.seqErr e h,
         by intro h; rw [hr] at h ⊢; exact hw.seqRes h⟩

theorem sched_logAppend (w : W) (c : Call) (b : Bool) (rest : List Call) :
    sched { w with log := w.log ++ [⟨c, b⟩] } rest = sched w (c :: rest) := by
  simp [sched, W.logCalls]

theorem WF_runReact {rest : List Call} (ks : List Kind) : ∀ {w : W}, WF w rest → WF (runReact w ks) rest := by
  induction ks with
  | nil => intro w hw; exact hw
  | cons k ks ih => intro w hw; exact ih (WF_call k [] hw)

theorem WF_runCall {w : W} {c : Call} {rest : List Call} (hw : WF w (c :: rest)) : WF (w.runCall c) rest := by
  unfold W.runCall
  split
  · exact WF_view (w := w) rfl rfl rfl (sched_logAppend w c true rest) hw
  · exact WF_runReact _ (WF_view (w := w) rfl rfl rfl (sched_logAppend w c false rest) hw)

theorem WF_runCalls {rest : List Call} (cs : List Call) : ∀ {w : W}, WF w (cs ++ rest) → WF (runCalls w cs) rest := by
  induction cs with
  | nil => intro w hw; exact hw
  | cons c cs ih => intro w hw; exact ih (WF_runCall hw)

theorem sched_turnStart (w : W) : sched w.takeCalls w.eq.calls = sched w [] := by
  simp [sched, W.logCalls, W.takeCalls]

theorem sched_setTimer (w : W) (b : Bool) (rest : List Call) : sched (w.setTimer b) rest = sched w rest := rfl

theorem WF_setTimer {w : W} {rest : List Call} (b : Bool) (hw : WF w rest) : WF (w.setTimer b) rest :=
  WF_view (w := w) rfl rfl rfl rfl hw

theorem WF_turn {w : W} (hw : WF w []) : WF w.turn [] := by
  unfold W.turn
  split
  · exact hw
  · have h1 : WF (runCalls w.takeCalls w.eq.calls) [] :=
      WF_runCalls _ (by rw [List.append_nil]; exact WF_view (w := w) rfl rfl rfl (sched_turnStart w) hw)
    simp only
    split
    · exact WF_setTimer _ (WF_setTimer _ h1)
    · exact WF_setTimer _ h1

theorem WF_step {w : W} (o : Op) (hw : WF w []) : WF (step w o) [] := by
  cases o with
  | b o => exact WF_bstep o hw
  | turn => exact WF_turn hw

theorem WF_init : WF W.init [] :=
  ⟨by intro d; simp [occ, pendCnt, sched, W.logCalls, W.init], by intro o r h; simp [W.init] at h,
   by intro e h; simp [W.init] at h, by intro h; simp [W.init] at h⟩

theorem WF_run (os : List Op) : ∀ {w : W}, WF w [] → WF (run w os) [] := by
  induction os with
  | nil => intro w hw; exact hw
  | cons o os ih => intro w hw; exact ih (WF_step o hw)

/-! ## `sched` is append-only: exact increments of every façade operation -/

theorem sched_setOS_maybeCall (w : W) (o : OS) (o' : OneShot) (rest : List Call) :
    sched (w.setOS o (o'.maybeCallObservers w.eq)) rest = sched w rest ++ o'.newCalls := by
  simp [sched, maybeCall_calls]

theorem sched_whenNext (w : W) (d : Nat) (rest : List Call) :
    sched (w.setRecv (w.received.whenNextEvent d w.eq)) rest = sched w rest ++ w.received.nextCall d := by
  simp [sched, whenNext_calls]

theorem sched_seqFire (w : W) (r : Res) (rest : List Call) :
    sched (w.setRecv (w.received.fire r w.eq)) rest = sched w rest ++ w.received.fireCalls r := by
  simp [sched, seqFire_calls]

theorem sched_fireIfNotFired (w : W) (o : OS) (r : Res) (rest : List Call) :
    sched (w.setOS o ((w.os o).fireIfNotFired r w.eq)) rest =
      sched w rest ++ (if (w.os o).result = none then (w.os o).observers.map (fun d => (⟨d, r⟩ : Call)) else []) := by
  unfold OneShot.fireIfNotFired
  split
  · unfold OneShot.fire; rw [sched_setOS_maybeCall]; simp [OneShot.newCalls]
  · simp [sched]

theorem sched_errorOS (w : W) (o : OS) (f : Res) (h : f.isFailure = true) (rest : List Call) :
    sched (w.errorOS o f h) rest = sched w rest ++ (w.os o).observers.map (fun d => (⟨d, f⟩ : Call)) := by
  unfold W.errorOS OneShot.error; rw [sched_setOS_maybeCall]; simp [OneShot.newCalls]

theorem errorOS_os_ne (w : W) (o o' : OS) (f : Res) (h : f.isFailure = true) (hne : o' ≠ o) :
    (w.errorOS o f h).os o' = w.os o' := by
  unfold W.errorOS; exact setOS_os_ne _ _ _ _ hne

theorem errorOS_result (w : W) (o : OS) (f : Res) (h : f.isFailure = true) :
    ((w.errorOS o f h).os o).result = some f := by
  unfold W.errorOS OneShot.error; rw [setOS_os_same, maybeCall_result]

@[simp] theorem errorOS_received (w : W) (o : OS) (f : Res) (h : f.isFailure = true) :
    (w.errorOS o f h).received = w.received := rfl
@[simp] theorem errorOS_closed (w : W) (o : OS) (f : Res) (h : f.isFailure = true) :
    (w.errorOS o f h).closed = w.closed := rfl
@[simp] theorem errorOS_regs (w : W) (o : OS) (f : Res) (h : f.isFailure = true) :
    (w.errorOS o f h).regs = w.regs := rfl
@[simp] theorem errorOS_log (w : W) (o : OS) (f : Res) (h : f.isFailure = true) :
    (w.errorOS o f h).log = w.log := rfl

/-- everything `closed` hands to the eventual queue after its first statement, in order -/
theorem sched_closedTail (w : W) (f : Res) (h : f.isFailure = true) (rest : List Call) :
    sched (w.closedTail f h) rest = sched w rest ++
      ((w.os .welcome).observers ++ (w.os .code).observers ++ (w.os .key).observers ++ (w.os .verifier).observers ++
        (w.os .versions).observers ++ w.received.observers).map (fun d => (⟨d, f⟩ : Call)) := by
  unfold W.closedTail
  rw [sched_seqFire]
  simp only [sched_errorOS, errorOS_received]
  rw [errorOS_os_ne _ .welcome .code _ _ (by decide)]
  rw [errorOS_os_ne _ .code .key _ _ (by decide), errorOS_os_ne _ .welcome .key _ _ (by decide)]
  rw [errorOS_os_ne _ .key .verifier _ _ (by decide), errorOS_os_ne _ .code .verifier _ _ (by decide),
    errorOS_os_ne _ .welcome .verifier _ _ (by decide)]
  rw [errorOS_os_ne _ .verifier .versions _ _ (by decide), errorOS_os_ne _ .key .versions _ _ (by decide),
    errorOS_os_ne _ .code .versions _ _ (by decide), errorOS_os_ne _ .welcome .versions _ _ (by decide)]
  cases f with
  | val v => simp [Res.isFailure] at h
  | exc e => simp [SeqObs.fireCalls, List.append_assoc]
  | wclosed e => simp [SeqObs.fireCalls, List.append_assoc]

theorem call_log (w : W) (k : Kind) (react : List Kind) : (w.call k react).log = w.log := by
  unfold W.call
  cases k with
  | message => rfl
  | os o => simp only; split <;> rfl

theorem closedTail_log (w : W) (f : Res) (h : f.isFailure = true) : (w.closedTail f h).log = w.log := rfl

theorem bstep_log (w : W) (o : BOp) : (bstep w o).log = w.log := by
  cases o with
  | call k react => exact call_log w k react
  | got e v => rfl
  | received v => rfl
  | closedOk r => rfl
  | closedExc e => rfl

theorem Ext_call (w : W) (k : Kind) (react : List Kind) (rest : List Call) :
    sched w rest <+: sched (w.call k react) rest := by
  unfold W.call
  cases k with
  | message => simp only; rw [sched_whenNext]; exact List.prefix_append _ _
  | os o =>
    simp only
    have : sched w rest <+: sched ({ w with regs := w.regs ++ [Reg.mk (.os o) react] }.setOS o
        ((w.os o).whenFired w.regs.length w.eq)) rest := by
      unfold OneShot.whenFired
      rw [sched_setOS_maybeCall]; exact List.prefix_append _ _
    split
    · exact this
    · exact this

theorem Ext_closedTail (w : W) (f : Res) (h : f.isFailure = true) (rest : List Call) :
    sched w rest <+: sched (w.closedTail f h) rest := by
  rw [sched_closedTail]; exact List.prefix_append _ _

theorem Ext_bstep (w : W) (o : BOp) (rest : List Call) : sched w rest <+: sched (bstep w o) rest := by
  cases o with
  | call k react => exact Ext_call w k react rest
  | got e v => unfold bstep W.got; rw [sched_fireIfNotFired]; exact List.prefix_append _ _
  | received v => unfold bstep W.recv; rw [sched_seqFire]; exact List.prefix_append _ _
  | closedOk r =>
    unfold bstep W.closedOk
    refine List.IsPrefix.trans ?_ (Ext_closedTail _ _ _ _)
    rw [sched_fireIfNotFired]; exact List.prefix_append _ _
  | closedExc e =>
    unfold bstep W.closedExc
    refine List.IsPrefix.trans ?_ (Ext_closedTail _ _ _ _)
    rw [sched_errorOS]; exact List.prefix_append _ _

theorem Ext_runReact (rest : List Call) (ks : List Kind) : ∀ (w : W), sched w rest <+: sched (runReact w ks) rest := by
  induction ks with
  | nil => intro w; exact List.prefix_refl _
  | cons k ks ih => intro w; exact (Ext_call w k [] rest).trans (ih _)

theorem Ext_runCall (w : W) (c : Call) (rest : List Call) : sched w (c :: rest) <+: sched (w.runCall c) rest := by
  unfold W.runCall
  split
  · rw [sched_logAppend]; exact List.prefix_refl _
  · refine List.IsPrefix.trans ?_ (Ext_runReact rest _ _)
    rw [sched_logAppend]; exact List.prefix_refl _

theorem Ext_runCalls (rest : List Call) (cs : List Call) :
    ∀ (w : W), sched w (cs ++ rest) <+: sched (runCalls w cs) rest := by
  induction cs with
  | nil => intro w; exact List.prefix_refl _
  | cons c cs ih => intro w; exact (Ext_runCall w c (cs ++ rest)).trans (ih _)

theorem Ext_turn (w : W) : sched w [] <+: sched w.turn [] := by
  unfold W.turn
  split
  · exact List.prefix_refl _
  · have h1 : sched w [] <+: sched (runCalls w.takeCalls w.eq.calls) [] := by
      have := Ext_runCalls [] w.eq.calls w.takeCalls
      rwa [List.append_nil, sched_turnStart] at this
    simp only
    split
    · exact h1
    · exact h1

theorem Ext_step (w : W) (o : Op) : sched w [] <+: sched (step w o) [] := by
  cases o with
  | b o => exact Ext_bstep w o []
  | turn => exact Ext_turn w

theorem Ext_run (os : List Op) : ∀ (w : W), sched w [] <+: sched (run w os) [] := by
  induction os with
  | nil => intro w; exact List.prefix_refl _
  | cons o os ih => intro w; exact (Ext_step w o).trans (ih _)

/-! ## what a turn executes -/

theorem any_false_of_count (l : List Fire) (d : Nat) (h : dcount (l.map (·.call)) d = 0) :
    l.any (fun f => f.call.d == d) = false := by
  induction l with
  | nil => rfl
  | cons f fs ih =>
    simp only [List.map_cons, dcount_cons] at h
    have h1 : ¬ f.call.d = d := by intro he; simp [he] at h
    have h2 : dcount (fs.map (·.call)) d = 0 := by omega
    simp [List.any_cons, ih h2, h1]

theorem dcount_sched_le_one {w : W} {rest : List Call} (hw : WF w rest) (d : Nat) : dcount (sched w rest) d ≤ 1 := by
  have := hw.once d
  unfold occ at this
  split at this <;> omega

theorem fired_false {w : W} {c : Call} {rest : List Call} (hw : WF w (c :: rest)) : w.fired c.d = false := by
  have h := dcount_sched_le_one hw c.d
  simp only [sched, dcount_append, dcount_cons, if_true] at h
  exact any_false_of_count w.log c.d (by unfold W.logCalls at h; omega)

theorem runReact_log (ks : List Kind) : ∀ (w : W), (runReact w ks).log = w.log := by
  induction ks with
  | nil => intro w; rfl
  | cons k ks ih => intro w; simp only [runReact]; rw [ih, call_log]

/-- a scheduled call is executed for real: never an `AlreadyCalledError` -/
theorem runCall_log {w : W} {c : Call} {rest : List Call} (hw : WF w (c :: rest)) :
    (w.runCall c).log = w.log ++ [⟨c, false⟩] := by
  unfold W.runCall
  rw [fired_false hw]
  simp [runReact_log]

theorem runCalls_log {rest : List Call} (cs : List Call) :
    ∀ {w : W}, WF w (cs ++ rest) → (runCalls w cs).log = w.log ++ cs.map (fun c => (⟨c, false⟩ : Fire)) := by
  induction cs with
  | nil => intro w _; simp [runCalls]
  | cons c cs ih =>
    intro w hw
    simp only [runCalls]
    rw [ih (WF_runCall hw), runCall_log hw]
    simp

theorem setTimer_log (w : W) (b : Bool) : (w.setTimer b).log = w.log := rfl
theorem takeCalls_log (w : W) : w.takeCalls.log = w.log := rfl

theorem turn_idle (w : W) (h : w.eq.timer = false) : w.turn = w := by
  unfold W.turn; simp [h]

theorem turn_log {w : W} (hw : WF w []) (ht : w.eq.timer = true) :
    w.turn.log = w.log ++ w.eq.calls.map (fun c => (⟨c, false⟩ : Fire)) := by
  have h1 : (runCalls w.takeCalls w.eq.calls).log = w.log ++ w.eq.calls.map (fun c => (⟨c, false⟩ : Fire)) := by
    rw [runCalls_log (rest := []) w.eq.calls
      (by rw [List.append_nil]; exact WF_view (w := w) rfl rfl rfl (sched_turnStart w) hw), takeCalls_log]
  unfold W.turn
  simp only [ht, Bool.not_true, Bool.false_eq_true, if_false]
  split
  · rw [setTimer_log, setTimer_log, h1]
  · rw [setTimer_log, h1]

/-- the timer is outstanding exactly when calls are queued -/
def TI (w : W) : Prop := w.eq.timer = true ↔ w.eq.calls ≠ []

theorem TI_turn (w : W) (hw : TI w) : TI w.turn := by
  unfold W.turn
  split
  · exact hw
  · simp only
    split
    · rename_i h
      simp only [W.setTimer, TI]
      simp only [W.setTimer, bne_iff_ne, ne_eq, List.length_eq_zero_iff] at h
      simp [h]
    · rename_i h
      simp only [W.setTimer, TI]
      simp only [W.setTimer, bne_iff_ne, ne_eq, List.length_eq_zero_iff, Decidable.not_not] at h
      simp [h]

theorem maybeCall_timer (o : OneShot) (q : EQ) :
    (o.maybeCallObservers q).2.timer = (q.timer || !o.newCalls.isEmpty) := by
  unfold OneShot.maybeCallObservers OneShot.newCalls
  cases h : o.result <;> simp [scheduleAll_timer]

theorem whenNext_timer (s : SeqObs) (d : Nat) (q : EQ) :
    (s.whenNextEvent d q).2.timer = (q.timer || !(s.nextCall d).isEmpty) := by
  unfold SeqObs.whenNextEvent SeqObs.nextCall
  cases he : s.error <;> cases hr : s.results <;> simp

theorem seqFire_timer (s : SeqObs) (r : Res) (q : EQ) :
    (s.fire r q).2.timer = (q.timer || !(s.fireCalls r).isEmpty) := by
  unfold SeqObs.fire SeqObs.fireCalls
  cases r with
  | val v => cases s.observers <;> simp
  | exc e => simp [scheduleAll_timer]
  | wclosed e => simp [scheduleAll_timer]

theorem TI_ext {w w' : W} {new : List Call} (hc : w'.eq.calls = w.eq.calls ++ new)
    (ht : w'.eq.timer = (w.eq.timer || !new.isEmpty)) (hw : TI w) : TI w' := by
  unfold TI at *
  rw [hc, ht]
  cases new with
  | nil => simpa using hw
  | cons c cs => simp

theorem TI_setOS_maybeCall {w : W} (o : OS) (o' : OneShot) (hw : TI w) : TI (w.setOS o (o'.maybeCallObservers w.eq)) :=
  TI_ext (w := w) (maybeCall_calls o' w.eq) (maybeCall_timer o' w.eq) hw

theorem TI_same {w w' : W} (h : w'.eq = w.eq) (hw : TI w) : TI w' := by unfold TI at *; rw [h]; exact hw

theorem TI_fireIfNotFired {w : W} (o : OS) (r : Res) (hw : TI w) : TI (w.setOS o ((w.os o).fireIfNotFired r w.eq)) := by
  unfold OneShot.fireIfNotFired
  split
  · exact TI_setOS_maybeCall o _ hw
  · exact TI_same (w := w) rfl hw

theorem TI_seqFire {w : W} (r : Res) (hw : TI w) : TI (w.setRecv (w.received.fire r w.eq)) :=
  TI_ext (w := w) (seqFire_calls _ r w.eq) (seqFire_timer _ r w.eq) hw

theorem TI_errorOS {w : W} (o : OS) (f : Res) (h : f.isFailure = true) (hw : TI w) : TI (w.errorOS o f h) :=
  TI_setOS_maybeCall o _ hw

theorem TI_closedTail {w : W} (f : Res) (h : f.isFailure = true) (hw : TI w) : TI (w.closedTail f h) := by
  unfold W.closedTail
  exact TI_seqFire f (TI_errorOS _ f h (TI_errorOS _ f h (TI_errorOS _ f h (TI_errorOS _ f h (TI_errorOS _ f h hw)))))

theorem TI_call {w : W} (k : Kind) (react : List Kind) (hw : TI w) : TI (w.call k react) := by
  unfold W.call
  cases k with
  | message =>
    exact TI_ext (w := w) (whenNext_calls _ _ w.eq) (whenNext_timer _ _ w.eq) hw
  | os o =>
    have h1 : TI ({ w with regs := w.regs ++ [Reg.mk (.os o) react] }.setOS o ((w.os o).whenFired w.regs.length w.eq)) :=
      TI_setOS_maybeCall (w := { w with regs := w.regs ++ [Reg.mk (.os o) react] }) o _ (TI_same (w := w) rfl hw)
    simp only
    split
    · exact TI_same (w := _) rfl h1
    · exact h1

theorem TI_bstep {w : W} (o : BOp) (hw : TI w) : TI (bstep w o) := by
  cases o with
  | call k react => exact TI_call k react hw
  | got e v => exact TI_fireIfNotFired _ _ hw
  | received v => exact TI_seqFire _ hw
  | closedOk r => exact TI_closedTail _ _ (TI_fireIfNotFired _ _ (TI_same (w := w) rfl hw))
  | closedExc e => exact TI_closedTail _ _ (TI_errorOS _ _ _ (TI_same (w := w) rfl hw))

theorem TI_step {w : W} (o : Op) (hw : TI w) : TI (step w o) := by
  cases o with
  | b o => exact TI_bstep o hw
  | turn => exact TI_turn w hw

theorem TI_run (os : List Op) : ∀ {w : W}, TI w → TI (run w os) := by
  induction os with
  | nil => intro w hw; exact hw
  | cons o os ih => intro w hw; exact ih (TI_step o hw)

theorem TI_init : TI W.init := by simp [TI, W.init]

/-! ## outcomes of a Deferred -/

/-- everything ever scheduled for Deferred `d` (executed or still queued) -/
def outcomes (w : W) (d : Nat) : List Call := (sched w []).filter (fun c => c.d == d)

theorem filter_unique {cs : List Call} {c : Call} (hm : c ∈ cs) (h1 : dcount cs c.d ≤ 1) :
    cs.filter (fun x => x.d == c.d) = [c] := by
  induction cs with
  | nil => simp at hm
  | cons a as ih =>
    simp only [dcount_cons] at h1
    rcases List.mem_cons.mp hm with rfl | hin
    · have h0 : dcount as c.d = 0 := by simp at h1; omega
      have : as.filter (fun x => x.d == c.d) = [] := by
        apply List.filter_eq_nil_iff.mpr
        intro x hx hxd
        have := dcount_pos_of_mem hx
        simp at hxd; rw [hxd] at this; omega
      simp [this]
    · have hpos := dcount_pos_of_mem hin
      have hne : ¬ a.d = c.d := by intro he; simp [he] at h1; omega
      simp only [hne, if_false, Nat.zero_add] at h1
      simp [hne, ih hin h1]

theorem filter_none {cs : List Call} {d : Nat} (h0 : dcount cs d = 0) : cs.filter (fun x => x.d == d) = [] := by
  apply List.filter_eq_nil_iff.mpr
  intro x hx hxd
  have := dcount_pos_of_mem hx
  simp at hxd; rw [hxd] at this; omega

theorem outcomes_of_mem {w : W} (hw : WF w []) {c : Call} (hm : c ∈ sched w []) : outcomes w c.d = [c] :=
  filter_unique hm (dcount_sched_le_one hw c.d)

theorem pendCnt_pos_os {w : W} {o : OS} {d : Nat} (h : d ∈ (w.os o).observers) : 0 < pendCnt w d := by
  have := List.count_pos_iff.mpr h
  cases o <;> simp only [pendCnt] <;> omega

theorem pendCnt_pos_recv {w : W} {d : Nat} (h : d ∈ w.received.observers) : 0 < pendCnt w d := by
  have := List.count_pos_iff.mpr h
  simp only [pendCnt]; omega

theorem outcomes_of_pending {w : W} (hw : WF w []) {d : Nat} (h : 0 < pendCnt w d) : outcomes w d = [] := by
  apply filter_none
  have := hw.once d
  unfold occ at this
  split at this <;> omega

/-! ## results of the observers under each operation -/

theorem errorOS_result' (w : W) (o o' : OS) (f : Res) (h : f.isFailure = true) :
    ((w.errorOS o f h).os o').result = if o' = o then some f else (w.os o').result := by
  by_cases ho : o' = o
  · subst ho; simp [errorOS_result]
  · simp [ho, errorOS_os_ne _ _ _ _ _ ho]

theorem fireIfNotFired_result (w : W) (o o' : OS) (r : Res) :
    ((w.setOS o ((w.os o).fireIfNotFired r w.eq)).os o').result =
      if o' = o ∧ (w.os o).result = none then some r else (w.os o').result := by
  unfold OneShot.fireIfNotFired
  by_cases ho : o' = o
  · subst ho
    rw [setOS_os_same]
    split
    · rename_i hn; unfold OneShot.fire; rw [maybeCall_result]; simp [hn]
    · rename_i hn; simp [hn]
  · rw [setOS_os_ne _ _ _ _ ho]; simp [ho]

theorem call_os_result (w : W) (k : Kind) (react : List Kind) (o : OS) :
    ((w.call k react).os o).result = (w.os o).result := by
  unfold W.call
  cases k with
  | message => rfl
  | os o1 =>
    have h1 : (({ w with regs := w.regs ++ [Reg.mk (.os o1) react] }.setOS o1
        ((w.os o1).whenFired w.regs.length w.eq)).os o).result = (w.os o).result := by
      by_cases ho : o = o1
      · subst ho; rw [setOS_os_same]; unfold OneShot.whenFired; rw [maybeCall_result]
      · rw [setOS_os_ne _ _ _ _ ho]
    simp only
    split
    · exact h1
    · exact h1

theorem call_error (w : W) (k : Kind) (react : List Kind) : (w.call k react).received.error = w.received.error := by
  unfold W.call
  cases k with
  | message => simp only; rw [setRecv_received, whenNext_error]
  | os o1 => simp only; split <;> rfl

theorem call_closed (w : W) (k : Kind) (react : List Kind) : (w.call k react).closed = w.closed := by
  unfold W.call
  cases k with
  | message => rfl
  | os o1 => simp only; split <;> rfl

theorem call_regs (w : W) (k : Kind) (react : List Kind) : (w.call k react).regs = w.regs ++ [Reg.mk k react] := by
  unfold W.call
  cases k with
  | message => rfl
  | os o1 => simp only; split <;> rfl

theorem closedTail_result (w : W) (f : Res) (h : f.isFailure = true) (o : OS) :
    ((w.closedTail f h).os o).result = if o = .closed then (w.os .closed).result else some f := by
  unfold W.closedTail
  simp only [setRecv_os, errorOS_result']
  cases o <;> simp

theorem closedTail_error (w : W) (f : Res) (h : f.isFailure = true) : (w.closedTail f h).received.error = some f := by
  unfold W.closedTail
  rw [setRecv_received, seqFire_error]; simp [h]

theorem closedTail_closed (w : W) (f : Res) (h : f.isFailure = true) : (w.closedTail f h).closed = w.closed := rfl
theorem closedTail_regs (w : W) (f : Res) (h : f.isFailure = true) : (w.closedTail f h).regs = w.regs := rfl

/-! ## after `closed` -/

/-- every `get_*` observer holds a Failure -/
def AllFailed (w : W) : Prop :=
  (∀ o, o ≠ .closed → ∃ f, (w.os o).result = some f ∧ f.isFailure = true) ∧
  (∃ f, w.received.error = some f ∧ f.isFailure = true)

def BOp.isClosed : BOp → Bool
  | .closedOk _ => true
  | .closedExc _ => true
  | _ => false

theorem AllFailed_closedTail (w : W) (f : Res) (h : f.isFailure = true) : AllFailed (w.closedTail f h) :=
  ⟨fun o ho => ⟨f, by rw [closedTail_result]; simp [ho], h⟩, ⟨f, closedTail_error w f h, h⟩⟩

theorem AllFailed_congr {w w' : W} (hos : ∀ o, (w'.os o).result = (w.os o).result)
    (he : w'.received.error = w.received.error) (hw : AllFailed w) : AllFailed w' :=
  ⟨fun o ho => by rw [hos]; exact hw.1 o ho, by rw [he]; exact hw.2⟩

theorem AllFailed_bstep {w : W} (o : BOp) (hw : AllFailed w) : AllFailed (bstep w o) := by
  cases o with
  | call k react => exact AllFailed_congr (call_os_result w k react) (call_error w k react) hw
  | got e v =>
    refine AllFailed_congr (w := w) ?_ rfl hw
    intro o
    show ((w.setOS e.os ((w.os e.os).fireIfNotFired (.val v) w.eq)).os o).result = _
    rw [fireIfNotFired_result]
    split
    · rename_i hc
      obtain ⟨rfl, hn⟩ := hc
      rw [hn]
      by_cases hcl : e.os = .closed
      · cases e <;> simp [Ev.os] at hcl
      · obtain ⟨f, hf, _⟩ := hw.1 _ hcl
        rw [hn] at hf; cases hf
    · rfl
  | received v =>
    refine AllFailed_congr (w := w) (fun _ => rfl) ?_ hw
    show (w.setRecv (w.received.fire (.val v) w.eq)).received.error = _
    rw [setRecv_received, seqFire_error]; simp [Res.isFailure]
  | closedOk r => exact AllFailed_closedTail _ _ _
  | closedExc e => exact AllFailed_closedTail _ _ _

theorem bstep_closed_mono {w : W} (o : BOp) (h : w.closed = true) : (bstep w o).closed = true := by
  cases o with
  | call k react => show (w.call k react).closed = true; rw [call_closed]; exact h
  | got e v => exact h
  | received v => exact h
  | closedOk r => rfl
  | closedExc e => rfl

theorem bstep_isClosed_closed (w : W) (o : BOp) (h : o.isClosed = true) : (bstep w o).closed = true := by
  cases o <;> first | rfl | simp [BOp.isClosed] at h

theorem bstep_isClosed_allFailed (w : W) (o : BOp) (h : o.isClosed = true) : AllFailed (bstep w o) := by
  cases o with
  | closedOk r => exact AllFailed_closedTail _ _ _
  | closedExc e => exact AllFailed_closedTail _ _ _
  | call k react => simp [BOp.isClosed] at h
  | got e v => simp [BOp.isClosed] at h
  | received v => simp [BOp.isClosed] at h

theorem bstep_regs_of_not_call (w : W) (o : BOp) : (∃ k react, o = .call k react) ∨ (bstep w o).regs = w.regs := by
  cases o with
  | call k react => exact Or.inl ⟨k, react, rfl⟩
  | got e v => exact Or.inr rfl
  | received v => exact Or.inr rfl
  | closedOk r => exact Or.inr rfl
  | closedExc e => exact Or.inr rfl

/-- a `get_*` Deferred waiting in an observer -/
def PendingGet (w : W) (d : Nat) : Prop :=
  (∃ o, o ≠ .closed ∧ d ∈ (w.os o).observers) ∨ d ∈ w.received.observers

theorem mem_five {w : W} {o : OS} (ho : o ≠ .closed) {d : Nat} (h : d ∈ (w.os o).observers) :
    d ∈ (w.os .welcome).observers ++ (w.os .code).observers ++ (w.os .key).observers ++ (w.os .verifier).observers ++
        (w.os .versions).observers ++ w.received.observers := by
  cases o <;> simp_all

/-- `closed(result)` hands an errback for every waiting `get_*` Deferred to the eventual queue -/
theorem closed_schedules_pending (w : W) (o : BOp) (rest : List Call) (h : o.isClosed = true) (d : Nat)
    (hp : PendingGet w d) : ∃ f, f.isFailure = true ∧ (⟨d, f⟩ : Call) ∈ sched (bstep w o) rest := by
  cases o with
  | call k react => simp [BOp.isClosed] at h
  | got e v => simp [BOp.isClosed] at h
  | received v => simp [BOp.isClosed] at h
  | closedOk r =>
    refine ⟨.wclosed r, rfl, ?_⟩
    show _ ∈ sched (W.closedTail _ _ _) rest
    rw [sched_closedTail]
    apply List.mem_append_right
    apply List.mem_map.mpr
    refine ⟨d, ?_, rfl⟩
    rcases hp with ⟨o, ho, hd⟩ | hd
    · have := mem_five (w := w) ho hd
      simpa [setOS_os_ne] using this
    · simp [hd]
  | closedExc e =>
    refine ⟨.exc e, rfl, ?_⟩
    show _ ∈ sched (W.closedTail _ _ _) rest
    rw [sched_closedTail]
    apply List.mem_append_right
    apply List.mem_map.mpr
    refine ⟨d, ?_, rfl⟩
    rcases hp with ⟨o, ho, hd⟩ | hd
    · have := mem_five (w := w) ho hd
      simpa [errorOS_os_ne] using this
    · simp [hd]

theorem sched_call_message (w : W) (react : List Kind) (rest : List Call) :
    sched (w.call .message react) rest = sched w rest ++ w.received.nextCall w.regs.length := by
  unfold W.call; simp only; rw [sched_whenNext]; rfl

theorem sched_call_os (w : W) (o : OS) (react : List Kind) (rest : List Call) :
    sched (w.call (.os o) react) rest =
      sched w rest ++ ({ (w.os o) with observers := (w.os o).observers ++ [w.regs.length] } : OneShot).newCalls := by
  have h1 : sched ({ w with regs := w.regs ++ [Reg.mk (.os o) react] }.setOS o
      ((w.os o).whenFired w.regs.length w.eq)) rest =
      sched w rest ++ ({ (w.os o) with observers := (w.os o).observers ++ [w.regs.length] } : OneShot).newCalls := by
    unfold OneShot.whenFired; rw [sched_setOS_maybeCall]; rfl
  unfold W.call
  simp only
  split
  · exact h1
  · exact h1

/-- Deferreds numbered `n0` and up (except `close()`'s) have an errback scheduled -/
def LateFail (w : W) (rest : List Call) (n0 : Nat) : Prop :=
  ∀ d reg, n0 ≤ d → w.regs[d]? = some reg → reg.kind ≠ .os .closed →
    ∃ c ∈ sched w rest, c.d = d ∧ c.res.isFailure = true

theorem LateFail_ext {w w' : W} {rest rest' : List Call} {n0 : Nat} (hregs : w'.regs = w.regs)
    (hs : sched w rest <+: sched w' rest') (h : LateFail w rest n0) : LateFail w' rest' n0 := by
  intro d reg hn hreg hk
  rw [hregs] at hreg
  obtain ⟨c, hc, hd, hf⟩ := h d reg hn hreg hk
  exact ⟨c, hs.subset hc, hd, hf⟩

/-- the state of affairs after `closed` -/
structure Inv1 (w : W) (rest : List Call) (n0 : Nat) : Prop where
  wf : WF w rest
  closed : w.closed = true
  failed : AllFailed w
  late : LateFail w rest n0

theorem Inv1_call {w : W} {rest : List Call} {n0 : Nat} (k : Kind) (react : List Kind) (h : Inv1 w rest n0) :
    Inv1 (w.call k react) rest n0 := by
  refine ⟨WF_call k react h.wf, by rw [call_closed]; exact h.closed, AllFailed_bstep (.call k react) h.failed, ?_⟩
  intro d reg hn hreg hk
  rw [call_regs] at hreg
  by_cases hd : d < w.regs.length
  · rw [List.getElem?_append_left hd] at hreg
    obtain ⟨c, hc, hcd, hf⟩ := h.late d reg hn hreg hk
    exact ⟨c, (Ext_call w k react rest).subset hc, hcd, hf⟩
  · by_cases hd2 : d = w.regs.length
    · subst hd2
      simp at hreg
      subst hreg
      cases k with
      | message =>
        obtain ⟨f, hf, hff⟩ := h.failed.2
        refine ⟨⟨w.regs.length, f⟩, ?_, rfl, hff⟩
        rw [sched_call_message]
        apply List.mem_append_right
        simp [SeqObs.nextCall, hf]
      | os o =>
        have ho : o ≠ .closed := by intro he; exact hk (by rw [he])
        obtain ⟨f, hf, hff⟩ := h.failed.1 o ho
        refine ⟨⟨w.regs.length, f⟩, ?_, rfl, hff⟩
        rw [sched_call_os]
        apply List.mem_append_right
        simp [OneShot.newCalls, hf]
    · have : (w.regs ++ [Reg.mk k react]).length ≤ d := by simp; omega
      rw [List.getElem?_eq_none this] at hreg
      cases hreg

theorem Inv1_bstep {w : W} {rest : List Call} {n0 : Nat} (o : BOp) (h : Inv1 w rest n0) : Inv1 (bstep w o) rest n0 := by
  rcases bstep_regs_of_not_call w o with ⟨k, react, rfl⟩ | hregs
  · exact Inv1_call k react h
  · exact ⟨WF_bstep o h.wf, bstep_closed_mono o h.closed, AllFailed_bstep o h.failed,
      LateFail_ext hregs (Ext_bstep w o rest) h.late⟩

theorem Inv1_view {w w' : W} {rest rest' : List Call} {n0 : Nat} (hos : w'.os = w.os) (hr : w'.received = w.received)
    (hregs : w'.regs = w.regs) (hc : w'.closed = w.closed) (hs : sched w' rest' = sched w rest) (h : Inv1 w rest n0) :
    Inv1 w' rest' n0 :=
  ⟨WF_view hos hr hregs hs h.wf, by rw [hc]; exact h.closed,
   AllFailed_congr (by intro o; rw [hos]) (by rw [hr]) h.failed,
   LateFail_ext hregs (by rw [hs]; exact List.prefix_refl _) h.late⟩

theorem Inv1_runReact {rest : List Call} {n0 : Nat} (ks : List Kind) :
    ∀ {w : W}, Inv1 w rest n0 → Inv1 (runReact w ks) rest n0 := by
  induction ks with
  | nil => intro w hw; exact hw
  | cons k ks ih => intro w hw; exact ih (Inv1_call k [] hw)

theorem Inv1_runCall {w : W} {c : Call} {rest : List Call} {n0 : Nat} (h : Inv1 w (c :: rest) n0) :
    Inv1 (w.runCall c) rest n0 := by
  unfold W.runCall
  split
  · exact Inv1_view (w := w) rfl rfl rfl rfl (sched_logAppend w c true rest) h
  · exact Inv1_runReact _ (Inv1_view (w := w) rfl rfl rfl rfl (sched_logAppend w c false rest) h)

theorem Inv1_runCalls {rest : List Call} {n0 : Nat} (cs : List Call) :
    ∀ {w : W}, Inv1 w (cs ++ rest) n0 → Inv1 (runCalls w cs) rest n0 := by
  induction cs with
  | nil => intro w hw; exact hw
  | cons c cs ih => intro w hw; exact ih (Inv1_runCall hw)

theorem Inv1_setTimer {w : W} {rest : List Call} {n0 : Nat} (b : Bool) (h : Inv1 w rest n0) : Inv1 (w.setTimer b) rest n0 :=
  Inv1_view (w := w) rfl rfl rfl rfl rfl h

theorem Inv1_turn {w : W} {n0 : Nat} (h : Inv1 w [] n0) : Inv1 w.turn [] n0 := by
  unfold W.turn
  split
  · exact h
  · have h1 : Inv1 (runCalls w.takeCalls w.eq.calls) [] n0 :=
      Inv1_runCalls _ (by rw [List.append_nil]; exact Inv1_view (w := w) rfl rfl rfl rfl (sched_turnStart w) h)
    simp only
    split
    · exact Inv1_setTimer _ (Inv1_setTimer _ h1)
    · exact Inv1_setTimer _ h1

theorem Inv1_step {w : W} {n0 : Nat} (o : Op) (h : Inv1 w [] n0) : Inv1 (step w o) [] n0 := by
  cases o with
  | b o => exact Inv1_bstep o h
  | turn => exact Inv1_turn h

theorem Inv1_run {n0 : Nat} (os : List Op) : ∀ {w : W}, Inv1 w [] n0 → Inv1 (run w os) [] n0 := by
  induction os with
  | nil => intro w hw; exact hw
  | cons o os ih => intro w hw; exact ih (Inv1_step o hw)

theorem run_append (a b : List Op) : ∀ (w : W), run w (a ++ b) = run (run w a) b := by
  induction a with
  | nil => intro w; rfl
  | cons o os ih => intro w; simp only [List.cons_append, run]; exact ih _

theorem bstep_regs_length (w : W) (o : BOp) : w.regs.length ≤ (bstep w o).regs.length := by
  rcases bstep_regs_of_not_call w o with ⟨k, react, rfl⟩ | hregs
  · show _ ≤ (w.call k react).regs.length; rw [call_regs]; simp
  · rw [hregs]; exact Nat.le_refl _

/-- right after `closed`: `Inv1` with nothing "late" yet -/
theorem Inv1_after_closed {w : W} (o : BOp) (hc : o.isClosed = true) (hw : WF w []) :
    Inv1 (bstep w o) [] (bstep w o).regs.length := by
  refine ⟨WF_bstep o hw, bstep_isClosed_closed w o hc, bstep_isClosed_allFailed w o hc, ?_⟩
  intro d reg hn hreg _
  rw [List.getElem?_eq_none hn] at hreg
  cases hreg

/-! ## a generic principle: what `call` preserves, a turn preserves -/

theorem turn_preserves (P : W → List Call → Prop)
    (hcall : ∀ w rest k react, P w rest → P (w.call k react) rest)
    (hview : ∀ (w w' : W) (rest rest' : List Call), w'.os = w.os → w'.received = w.received → w'.regs = w.regs →
      w'.closed = w.closed → sched w' rest' = sched w rest → P w rest → P w' rest')
    (w : W) (h : P w []) : P w.turn [] := by
  have hReact : ∀ (rest : List Call) (ks : List Kind) (w : W), P w rest → P (runReact w ks) rest := by
    intro rest ks
    induction ks with
    | nil => intro w hw; exact hw
    | cons k ks ih => intro w hw; exact ih _ (hcall w rest k [] hw)
  have hCall : ∀ (rest : List Call) (c : Call) (w : W), P w (c :: rest) → P (w.runCall c) rest := by
    intro rest c w hw
    unfold W.runCall
    split
    · exact hview w _ _ _ rfl rfl rfl rfl (sched_logAppend w c true rest) hw
    · exact hReact _ _ _ (hview w _ _ _ rfl rfl rfl rfl (sched_logAppend w c false rest) hw)
  have hCalls : ∀ (rest : List Call) (cs : List Call) (w : W), P w (cs ++ rest) → P (runCalls w cs) rest := by
    intro rest cs
    induction cs with
    | nil => intro w hw; exact hw
    | cons c cs ih => intro w hw; exact ih _ (hCall _ c w hw)
  unfold W.turn
  split
  · exact h
  · have h1 : P (runCalls w.takeCalls w.eq.calls) [] :=
      hCalls [] _ _ (by rw [List.append_nil]; exact hview w _ _ _ rfl rfl rfl rfl (sched_turnStart w) h)
    simp only
    split
    · exact hview (runCalls w.takeCalls w.eq.calls) _ [] [] rfl rfl rfl rfl rfl h1
    · exact hview (runCalls w.takeCalls w.eq.calls) _ [] [] rfl rfl rfl rfl rfl h1

/-! ## before `closed`: the one-shot observers -/

/-- a `get_*` Deferred of a one-shot observer waits while there is no result, and is scheduled with
    the observer's result otherwise -/
def OneShotRel (w : W) (rest : List Call) : Prop :=
  ∀ d reg o, w.regs[d]? = some reg → reg.kind = .os o →
    match (w.os o).result with
    | none => d ∈ (w.os o).observers
    | some r => (⟨d, r⟩ : Call) ∈ sched w rest

theorem call_message_os (w : W) (react : List Kind) : (w.call .message react).os = w.os := rfl

theorem call_os_observers (w : W) (o1 o : OS) (react : List Kind) :
    ((w.call (.os o1) react).os o).observers =
      if o = o1 then (if (w.os o).result = none then (w.os o).observers ++ [w.regs.length] else []) else (w.os o).observers := by
  have h1 : (({ w with regs := w.regs ++ [Reg.mk (.os o1) react] }.setOS o1
      ((w.os o1).whenFired w.regs.length w.eq)).os o).observers =
      if o = o1 then (if (w.os o).result = none then (w.os o).observers ++ [w.regs.length] else []) else (w.os o).observers := by
    by_cases ho : o = o1
    · subst ho; rw [setOS_os_same]; unfold OneShot.whenFired; rw [maybeCall_observers]; simp
    · rw [setOS_os_ne _ _ _ _ ho]; simp [ho]
  unfold W.call
  simp only
  split
  · exact h1
  · exact h1

theorem OneShotRel_call {w : W} {rest : List Call} (k : Kind) (react : List Kind) (h : OneShotRel w rest) :
    OneShotRel (w.call k react) rest := by
  intro d reg o hreg hk
  rw [call_regs] at hreg
  rw [call_os_result]
  by_cases hd : d < w.regs.length
  · rw [List.getElem?_append_left hd] at hreg
    have := h d reg o hreg hk
    cases hres : (w.os o).result with
    | none =>
      rw [hres] at this
      simp only
      cases k with
      | message => rw [call_message_os]; exact this
      | os o1 => rw [call_os_observers]; split <;> simp [this]
    | some r =>
      rw [hres] at this
      exact (Ext_call w k react rest).subset this
  · by_cases hd2 : d = w.regs.length
    · subst hd2
      simp at hreg
      subst hreg
      simp only at hk
      subst hk
      cases hres : (w.os o).result with
      | none => simp only; rw [call_os_observers]; simp [hres]
      | some r =>
        simp only
        rw [sched_call_os]
        apply List.mem_append_right
        simp [OneShot.newCalls, hres]
    · have : (w.regs ++ [Reg.mk k react]).length ≤ d := by simp; omega
      rw [List.getElem?_eq_none this] at hreg
      cases hreg

theorem OneShotRel_view {w w' : W} {rest rest' : List Call} (hos : w'.os = w.os) (hregs : w'.regs = w.regs)
    (hs : sched w' rest' = sched w rest) (h : OneShotRel w rest) : OneShotRel w' rest' := by
  intro d reg o hreg hk
  rw [hregs] at hreg
  have := h d reg o hreg hk
  rw [hos, hs]; exact this

theorem OneShotRel_got {w : W} {rest : List Call} (e : Ev) (v : Nat) (h : OneShotRel w rest) :
    OneShotRel (w.got e v) rest := by
  intro d reg o hreg hk
  have hold := h d reg o hreg hk
  unfold W.got
  rw [fireIfNotFired_result]
  by_cases hc : o = e.os ∧ (w.os e.os).result = none
  · obtain ⟨rfl, hn⟩ := hc
    rw [hn] at hold
    simp only [hn, and_self, if_true]
    rw [sched_fireIfNotFired]
    apply List.mem_append_right
    simp only [hn, if_true]
    exact List.mem_map.mpr ⟨d, hold, rfl⟩
  · rw [if_neg hc]
    cases hres : (w.os o).result with
    | none =>
      rw [hres] at hold
      simp only
      have hne : o ≠ e.os := by intro he; subst he; exact hc ⟨rfl, hres⟩
      rw [setOS_os_ne _ _ _ _ hne]; exact hold
    | some r =>
      rw [hres] at hold
      simp only
      have : sched w rest <+: sched (w.setOS e.os ((w.os e.os).fireIfNotFired (.val v) w.eq)) rest := by
        rw [sched_fireIfNotFired]; exact List.prefix_append _ _
      exact this.subset hold

theorem OneShotRel_recv {w : W} {rest : List Call} (v : Nat) (h : OneShotRel w rest) : OneShotRel (w.recv v) rest := by
  intro d reg o hreg hk
  have hold := h d reg o hreg hk
  have hext : sched w rest <+: sched (w.recv v) rest := Ext_bstep w (.received v) rest
  show match ((w.recv v).os o).result with
    | none => d ∈ ((w.recv v).os o).observers
    | some r => (⟨d, r⟩ : Call) ∈ sched (w.recv v) rest
  have hos : (w.recv v).os = w.os := rfl
  rw [hos]
  cases hres : (w.os o).result with
  | none => rw [hres] at hold; exact hold
  | some r => rw [hres] at hold; exact hext.subset hold

theorem OneShotRel_bstep {w : W} {rest : List Call} (o : BOp) (hnc : o.isClosed = false) (h : OneShotRel w rest) :
    OneShotRel (bstep w o) rest := by
  cases o with
  | call k react => exact OneShotRel_call k react h
  | got e v => exact OneShotRel_got e v h
  | received v => exact OneShotRel_recv v h
  | closedOk r => simp [BOp.isClosed] at hnc
  | closedExc e => simp [BOp.isClosed] at hnc

def Op.isClosed : Op → Bool
  | .b o => o.isClosed
  | .turn => false

theorem OneShotRel_step {w : W} (o : Op) (hnc : o.isClosed = false) (h : OneShotRel w []) : OneShotRel (step w o) [] := by
  cases o with
  | b o => exact OneShotRel_bstep o hnc h
  | turn =>
    exact turn_preserves OneShotRel (fun w rest k react hw => OneShotRel_call k react hw)
      (fun w w' rest rest' hos _ hregs _ hs hw => OneShotRel_view hos hregs hs hw) w h

theorem OneShotRel_init : OneShotRel W.init [] := by
  intro d reg o hreg _; simp [W.init] at hreg

theorem OneShotRel_run (os : List Op) : ∀ {w : W}, (∀ o ∈ os, o.isClosed = false) → OneShotRel w [] → OneShotRel (run w os) [] := by
  induction os with
  | nil => intro w _ hw; exact hw
  | cons o os ih =>
    intro w hnc hw
    exact ih (fun o' ho' => hnc o' (List.mem_cons_of_mem _ ho')) (OneShotRel_step o (hnc o (List.mem_cons_self)) hw)

/-! ## the latch: the result is the first value -/

/-- the value of the first `got_<e>` in an operation list -/
def firstGot (e : Ev) : List Op → Option Nat
  | [] => none
  | .b (.got e' v) :: os => if e' = e then some v else firstGot e os
  | _ :: os => firstGot e os

theorem Ev.os_inj {e e' : Ev} (h : e'.os = e.os) : e' = e := by
  cases e <;> cases e' <;> first | rfl | simp [Ev.os] at h

theorem turn_os_result (w : W) (o : OS) : (w.turn.os o).result = (w.os o).result := by
  refine turn_preserves (fun w' _ => (w'.os o).result = (w.os o).result) ?_ ?_ w rfl
  · intro w' rest k react h; show ((w'.call k react).os o).result = _; rw [call_os_result]; exact h
  · intro w1 w2 _ _ hos _ _ _ _ h; show (w2.os o).result = _; rw [hos]; exact h

theorem turn_closed (w : W) : w.turn.closed = w.closed := by
  refine turn_preserves (fun w' _ => w'.closed = w.closed) ?_ ?_ w rfl
  · intro w' rest k react h; show (w'.call k react).closed = _; rw [call_closed]; exact h
  · intro w1 w2 _ _ _ _ _ hc _ h; show w2.closed = _; rw [hc]; exact h

theorem step_closed_of_not (w : W) (o : Op) (hnc : o.isClosed = false) : (step w o).closed = w.closed := by
  cases o with
  | turn => exact turn_closed w
  | b o =>
    cases o with
    | call k react => exact call_closed w k react
    | got e v => rfl
    | received v => rfl
    | closedOk r => simp [Op.isClosed, BOp.isClosed] at hnc
    | closedExc e => simp [Op.isClosed, BOp.isClosed] at hnc

theorem run_closed_of_not (os : List Op) : ∀ (w : W), (∀ o ∈ os, o.isClosed = false) → (run w os).closed = w.closed := by
  induction os with
  | nil => intro w _; rfl
  | cons o os ih =>
    intro w hnc
    simp only [run]
    rw [ih _ (fun o' ho' => hnc o' (List.mem_cons_of_mem _ ho')), step_closed_of_not w o (hnc o List.mem_cons_self)]

/-- before `closed`, a one-shot's result is latched: it never changes once set, and it is set by the
    first `got_*` (`fire_if_not_fired`) -/
theorem result_run (e : Ev) (os : List Op) : ∀ (w : W), (∀ o ∈ os, o.isClosed = false) →
    ((run w os).os e.os).result =
      match (w.os e.os).result with
      | some r => some r
      | none => (firstGot e os).map Res.val := by
  induction os with
  | nil => intro w _; simp only [run, firstGot]; cases (w.os e.os).result <;> rfl
  | cons o os ih =>
    intro w hnc
    have hnc' : ∀ o' ∈ os, o'.isClosed = false := fun o' ho' => hnc o' (List.mem_cons_of_mem _ ho')
    have hno := hnc o List.mem_cons_self
    simp only [run]
    rw [ih _ hnc']
    cases o with
    | turn => simp only [step, firstGot]; rw [turn_os_result]
    | b o =>
      cases o with
      | call k react => simp only [step, bstep, firstGot]; rw [call_os_result]
      | received v => simp only [step, bstep, firstGot]; rfl
      | closedOk r => simp [Op.isClosed, BOp.isClosed] at hno
      | closedExc x => simp [Op.isClosed, BOp.isClosed] at hno
      | got e' v =>
        simp only [step, bstep, firstGot, W.got]
        rw [fireIfNotFired_result]
        by_cases he : e' = e
        · subst he
          cases (w.os e'.os).result <;> simp
        · have hne : ¬ e.os = e'.os := fun h => he (Ev.os_inj h).symm
          simp [hne, he]

/-! ## before `closed`: the sequence observer -/

theorem zip_append_left_of_le {α β} : ∀ (ds x : List α) (vs : List β), vs.length ≤ ds.length → (ds ++ x).zip vs = ds.zip vs := by
  intro ds
  induction ds with
  | nil => intro x vs h; cases vs <;> simp_all
  | cons a ds ih => intro x vs h; cases vs with
    | nil => simp
    | cons v vs => simp at h; simp [ih x vs h]

theorem zip_append_right_of_le {α β} : ∀ (ds : List α) (vs y : List β), ds.length ≤ vs.length → ds.zip (vs ++ y) = ds.zip vs := by
  intro ds
  induction ds with
  | nil => intro vs y h; simp
  | cons a ds ih => intro vs y h; cases vs with
    | nil => simp at h
    | cons v vs => simp at h; simp [ih vs y h]

theorem zip_snoc_left {α β} : ∀ (ds : List α) (d : α) (vs : List β) (r : β) (rs : List β),
    vs.drop ds.length = r :: rs → (ds ++ [d]).zip vs = ds.zip vs ++ [(d, r)] := by
  intro ds
  induction ds with
  | nil => intro d vs r rs h; simp at h; subst h; simp
  | cons a ds ih => intro d vs r rs h; cases vs with
    | nil => simp at h
    | cons v vs => simp at h; simp [ih d vs r rs h]

theorem zip_snoc_right {α β} : ∀ (ds : List α) (vs : List β) (v : β) (d : α) (dss : List α),
    ds.drop vs.length = d :: dss → ds.zip (vs ++ [v]) = ds.zip vs ++ [(d, v)] := by
  intro ds vs
  induction vs generalizing ds with
  | nil => intro v d dss h; simp at h; subst h; simp
  | cons a vs ih => intro v d dss h; cases ds with
    | nil => simp at h
    | cons x ds => simp at h; simp [ih ds v d dss h]


/-- the `get_message()` Deferreds in the order they were handed out -/
def msgIdsFrom (i : Nat) : List Reg → List Nat
  | [] => []
  | r :: rs => (if r.kind = .message then [i] else []) ++ msgIdsFrom (i + 1) rs

def msgIds (regs : List Reg) : List Nat := msgIdsFrom 0 regs

theorem msgIdsFrom_append (a b : List Reg) : ∀ (i : Nat), msgIdsFrom i (a ++ b) = msgIdsFrom i a ++ msgIdsFrom (i + a.length) b := by
  induction a with
  | nil => intro i; simp [msgIdsFrom]
  | cons r rs ih => intro i; simp [msgIdsFrom, ih, Nat.add_assoc, Nat.add_comm 1]

theorem msgIds_snoc (regs : List Reg) (r : Reg) :
    msgIds (regs ++ [r]) = msgIds regs ++ (if r.kind = .message then [regs.length] else []) := by
  simp [msgIds, msgIdsFrom_append, msgIdsFrom]

/-- the values received so far (`vs`) are matched with the `get_message()` Deferreds in order -/
structure Fifo (w : W) (rest : List Call) (vs : List Nat) : Prop where
  noErr : w.received.error = none
  results : w.received.results = vs.drop (msgIds w.regs).length
  observers : w.received.observers = (msgIds w.regs).drop vs.length
  delivered : ∀ p ∈ (msgIds w.regs).zip vs, (⟨p.1, .val p.2⟩ : Call) ∈ sched w rest

theorem Fifo_view {w w' : W} {rest rest' : List Call} {vs : List Nat} (hr : w'.received = w.received)
    (hregs : w'.regs = w.regs) (hs : sched w' rest' = sched w rest) (h : Fifo w rest vs) : Fifo w' rest' vs :=
  ⟨by rw [hr]; exact h.noErr, by rw [hr, hregs]; exact h.results, by rw [hr, hregs]; exact h.observers,
   by rw [hregs, hs]; exact h.delivered⟩

theorem call_os_received (w : W) (o : OS) (react : List Kind) : (w.call (.os o) react).received = w.received := by
  unfold W.call; simp only; split <;> rfl

theorem Fifo_call {w : W} {rest : List Call} {vs : List Nat} (k : Kind) (react : List Kind) (h : Fifo w rest vs) :
    Fifo (w.call k react) rest vs := by
  have hext := Ext_call w k react rest
  cases k with
  | os o =>
    have hm : msgIds (w.call (.os o) react).regs = msgIds w.regs := by rw [call_regs, msgIds_snoc]; simp
    exact ⟨by rw [call_os_received]; exact h.noErr, by rw [call_os_received, hm]; exact h.results,
      by rw [call_os_received, hm]; exact h.observers,
      by rw [hm]; intro p hp; exact hext.subset (h.delivered p hp)⟩
  | message =>
    have hm : msgIds (w.call .message react).regs = msgIds w.regs ++ [w.regs.length] := by
      rw [call_regs, msgIds_snoc]; simp
    have hrecv : (w.call .message react).received = (w.received.whenNextEvent w.regs.length w.eq).1 := rfl
    have hne := h.noErr
    cases hres : w.received.results with
    | nil =>
      have hle : vs.length ≤ (msgIds w.regs).length := by
        have := h.results; rw [hres] at this; exact List.drop_eq_nil_iff.mp this.symm
      refine ⟨by rw [hrecv, whenNext_error]; exact hne, ?_, ?_, ?_⟩
      · rw [hrecv, whenNext_results, hm]; simp only [hne, if_true, hres, List.tail_nil]
        symm; apply List.drop_eq_nil_iff.mpr; simp; omega
      · rw [hrecv, whenNext_observers, hm]; simp only [hne, hres, and_self, if_true]
        rw [List.drop_append_of_le_length hle, h.observers]
      · rw [hm, zip_append_left_of_le _ _ _ hle]
        intro p hp; exact hext.subset (h.delivered p hp)
    | cons r rs =>
      have hdrop : vs.drop (msgIds w.regs).length = r :: rs := by rw [← h.results, hres]
      have hlt : (msgIds w.regs).length < vs.length := by
        apply Nat.lt_of_not_le; intro hle
        rw [List.drop_eq_nil_iff.mpr hle] at hdrop; cases hdrop
      refine ⟨by rw [hrecv, whenNext_error]; exact hne, ?_, ?_, ?_⟩
      · rw [hrecv, whenNext_results, hm]; simp only [hne, if_true, hres, List.tail_cons]
        have : (vs.drop (msgIds w.regs).length).tail = rs := by rw [hdrop]; rfl
        rw [← this]; simp
      · rw [hrecv, whenNext_observers, hm]; simp only [hres, reduceCtorEq, and_false, if_false]
        rw [h.observers]
        rw [List.drop_eq_nil_iff.mpr (Nat.le_of_lt hlt)]
        symm; apply List.drop_eq_nil_iff.mpr; simp; omega
      · rw [hm, zip_snoc_left _ _ _ r rs hdrop]
        intro p hp
        rcases List.mem_append.mp hp with hp | hp
        · exact hext.subset (h.delivered p hp)
        · simp at hp; subst hp
          rw [sched_call_message]
          apply List.mem_append_right
          simp [SeqObs.nextCall, hne, hres]

theorem Fifo_got {w : W} {rest : List Call} {vs : List Nat} (e : Ev) (v : Nat) (h : Fifo w rest vs) :
    Fifo (w.got e v) rest vs :=
  have hext := Ext_bstep w (.got e v) rest
  ⟨h.noErr, h.results, h.observers, fun p hp => hext.subset (h.delivered p hp)⟩

theorem Fifo_recv {w : W} {rest : List Call} {vs : List Nat} (v : Nat) (h : Fifo w rest vs) :
    Fifo (w.recv v) rest (vs ++ [v]) := by
  have hext := Ext_bstep w (.received v) rest
  have hrecv : (w.recv v).received = (w.received.fire (.val v) w.eq).1 := rfl
  have hregs : (w.recv v).regs = w.regs := rfl
  cases hobs : w.received.observers with
  | nil =>
    have hle : (msgIds w.regs).length ≤ vs.length := by
      have := h.observers; rw [hobs] at this; exact List.drop_eq_nil_iff.mp this.symm
    refine ⟨by rw [hrecv, seqFire_error]; simpa [Res.isFailure] using h.noErr, ?_, ?_, ?_⟩
    · rw [hrecv, seqFire_results_val, hregs]; simp only [hobs, if_true]
      rw [List.drop_append_of_le_length hle, h.results]
    · rw [hrecv, seqFire_observers, hregs]; simp only [Res.isFailure, Bool.false_eq_true, if_false, hobs, List.tail_nil]
      symm; apply List.drop_eq_nil_iff.mpr; simp; omega
    · rw [hregs, zip_append_right_of_le _ _ _ hle]
      intro p hp; exact hext.subset (h.delivered p hp)
  | cons d dss =>
    have hdrop : (msgIds w.regs).drop vs.length = d :: dss := by rw [← h.observers, hobs]
    have hlt : vs.length < (msgIds w.regs).length := by
      apply Nat.lt_of_not_le; intro hle
      rw [List.drop_eq_nil_iff.mpr hle] at hdrop; cases hdrop
    have hres : w.received.results = [] := by
      rw [h.results]; exact List.drop_eq_nil_iff.mpr (Nat.le_of_lt hlt)
    refine ⟨by rw [hrecv, seqFire_error]; simpa [Res.isFailure] using h.noErr, ?_, ?_, ?_⟩
    · rw [hrecv, seqFire_results_val, hregs]; simp only [hobs, reduceCtorEq, if_false, hres, List.nil_append, List.tail_cons]
      symm; apply List.drop_eq_nil_iff.mpr; simp; omega
    · rw [hrecv, seqFire_observers, hregs]; simp only [Res.isFailure, Bool.false_eq_true, if_false, hobs, List.tail_cons]
      have : ((msgIds w.regs).drop vs.length).tail = dss := by rw [hdrop]; rfl
      rw [← this]; simp
    · rw [hregs, zip_snoc_right _ _ v d dss hdrop]
      intro p hp
      rcases List.mem_append.mp hp with hp | hp
      · exact hext.subset (h.delivered p hp)
      · simp at hp; subst hp
        show _ ∈ sched (w.setRecv (w.received.fire (.val v) w.eq)) rest
        rw [sched_seqFire]
        apply List.mem_append_right
        simp [SeqObs.fireCalls, hobs, hres]

/-- the values given to `received` in an operation list -/
def receivedOf : List Op → List Nat
  | [] => []
  | .b (.received v) :: os => v :: receivedOf os
  | _ :: os => receivedOf os

theorem Fifo_init : Fifo W.init [] [] := ⟨rfl, rfl, rfl, by intro p hp; simp [W.init, msgIds, msgIdsFrom] at hp⟩

theorem Fifo_run (os : List Op) : ∀ {w : W} {vs : List Nat}, (∀ o ∈ os, o.isClosed = false) → Fifo w [] vs →
    Fifo (run w os) [] (vs ++ receivedOf os) := by
  induction os with
  | nil => intro w vs _ h; simpa [receivedOf, run] using h
  | cons o os ih =>
    intro w vs hnc h
    have hnc' : ∀ o' ∈ os, o'.isClosed = false := fun o' ho' => hnc o' (List.mem_cons_of_mem _ ho')
    have hno := hnc o List.mem_cons_self
    cases o with
    | turn =>
      simp only [run, receivedOf]
      apply ih hnc'
      exact turn_preserves (fun w rest => Fifo w rest vs) (fun w rest k react hw => Fifo_call k react hw)
        (fun w w' rest rest' _ hr hregs _ hs hw => Fifo_view hr hregs hs hw) w h
    | b o =>
      cases o with
      | call k react => simp only [run, receivedOf]; exact ih hnc' (Fifo_call k react h)
      | got e v => simp only [run, receivedOf]; exact ih hnc' (Fifo_got e v h)
      | received v =>
        simp only [run, receivedOf]
        have := ih hnc' (Fifo_recv v h)
        rw [List.append_assoc] at this
        exact this
      | closedOk r => simp [Op.isClosed, BOp.isClosed] at hno
      | closedExc x => simp [Op.isClosed, BOp.isClosed] at hno

/-! ## from a fresh façade -/

theorem WF_after (ops : List Op) : WF (run W.init ops) [] := WF_run ops WF_init

theorem length_outcomes (w : W) (d : Nat) : (outcomes w d).length = dcount (sched w []) d := by
  unfold outcomes
  induction sched w [] with
  | nil => rfl
  | cons a as ih => simp only [List.filter_cons, dcount_cons]; by_cases h : a.d = d <;> simp [h, ih] <;> omega

theorem no_dup_log (ops : List Op) : ∀ (w : W), WF w [] → (∀ f ∈ w.log, f.dup = false) →
    ∀ f ∈ (run w ops).log, f.dup = false := by
  induction ops with
  | nil => intro w _ h; exact h
  | cons o os ih =>
    intro w hw h
    apply ih _ (WF_step o hw)
    cases o with
    | b o => simp only [step]; rw [bstep_log]; exact h
    | turn =>
      simp only [step]
      cases ht : w.eq.timer with
      | false => rw [turn_idle w ht]; exact h
      | true =>
        rw [turn_log hw ht]
        intro f hf
        rcases List.mem_append.mp hf with hf | hf
        · exact h f hf
        · obtain ⟨c, _, rfl⟩ := List.mem_map.mp hf; rfl


end WV.Observer
