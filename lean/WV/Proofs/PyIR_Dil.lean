import WV.Model.C10
import WV.Model.C15
import WV.Gen.PyIRDil
import WV.Proofs.PyIR_C03

set_option linter.unusedSimpArgs false
set_option linter.unusedVariables false

/-!
Translation validation of the Dilation data path (PyIR, `WV.Gen.PyIRDil`) against the C10 and C15 models: lemmas.

* encoders: a record of the C10 model is the namedtuple object `Val.obj "Open"|"Data"|"Close" (seqnum :: …)`; a producer /
  subchannel of the C15 model is an object with identity `Val.ref cls id`; Python sets are compared through membership
  only (`SetRel`), exactly as the C15 model uses its lists;
* `RelOut` / `RelInb` (C10) and `RelProd` / `RelPause` (C15): heap ⟷ model-state relations;
* loop lemmas: `pop while head ≤ ack` (`handle_ack`), the `_queued_unsent` drain of `resumeProducing` with the transport
  calling `pauseProducing()` back from inside `send_record` (`Env.reenter`), the `for p in _all_producers` loop of
  `pauseProducing`.
-/
namespace WV.Proofs.PyIRDil
open WV WV.PyIR WV.Gen.PyIRDil WV.Proofs.PyIRC03

/-! ## evaluation -/

theorem truthy_ref (c : String) (i : Nat) : (Val.ref c i).truthy = true := rfl
theorem truthy_nint (n : Nat) : (Val.nint n).truthy = true := rfl

macro "dil_eval" "[" ts:Lean.Parser.Tactic.simpLemma,* "]" : tactic =>
  `(tactic| simp [exec, callM, execB, execS, andThen, withVal, evalE, evalEs, readAttr, readVar, bindParams, doEmit,
      forLoop, bindPat, iterElems, valIn, valAdd, valLen, valIndex, valItems, isInstance, pyEq, scalarEq,
      Val.hashable, truthy_none, truthy_bool, truthy_int, truthy_str, truthy_bytes, truthy_tuple, truthy_list,
      truthy_dict, truthy_set, truthy_obj, truthy_ref, truthy_nint, St.setAttr, St.setLocal, St.bindOpt, Store.get,
      Store.set, Store.del, get_set, bind, Res.bind, pure, unsupported,
      valLe, valMax, valField, isInstanceAny, setElems, valGetD, starElems, doEmitR, runReenter, Val.toInt?, Val.ofInt,
      $ts,*])

/-- the same without unfolding sibling calls (`callM`): they are rewritten with a lemma about the callee -/
macro "dil_eval_nc" "[" ts:Lean.Parser.Tactic.simpLemma,* "]" : tactic =>
  `(tactic| simp [execB, execS, andThen, withVal, evalE, evalEs, readAttr, readVar, bindParams, doEmit,
      forLoop, bindPat, iterElems, valIn, valAdd, valLen, valIndex, valItems, isInstance, pyEq, scalarEq,
      Val.hashable, truthy_none, truthy_bool, truthy_int, truthy_str, truthy_bytes, truthy_tuple, truthy_list,
      truthy_dict, truthy_set, truthy_obj, truthy_ref, truthy_nint, St.setAttr, St.setLocal, St.bindOpt, Store.get,
      Store.set, Store.del, get_set, bind, Res.bind, pure, unsupported,
      valLe, valMax, valField, isInstanceAny, setElems, valGetD, starElems, doEmitR, runReenter, Val.toInt?, Val.ofInt,
      $ts,*])

theorem hashable_none : Val.none.hashable = true := rfl
theorem hashable_bool (b : Bool) : (Val.bool b).hashable = true := rfl
theorem hashable_int (n : Nat) : (Val.int n).hashable = true := rfl
theorem hashable_str (s : String) : (Val.str s).hashable = true := rfl
theorem hashable_ref (c : String) (i : Nat) : (Val.ref c i).hashable = true := rfl

/-- for heaps whose elements are opaque encoders (`encSc`, `encP`): `hashable`/`truthy` only through lemmas -/
macro "dil_eval15" "[" ts:Lean.Parser.Tactic.simpLemma,* "]" : tactic =>
  `(tactic| simp [exec, callM, execB, execS, andThen, withVal, evalE, evalEs, readAttr, readVar, bindParams, doEmit,
      forLoop, bindPat, iterElems, valIn, valAdd, valLen, valIndex, valItems, isInstance, pyEq, scalarEq,
      hashable_none, hashable_bool, hashable_int, hashable_str, hashable_ref,
      truthy_none, truthy_bool, truthy_int, truthy_str, truthy_bytes, truthy_tuple, truthy_list,
      truthy_dict, truthy_set, truthy_obj, truthy_ref, truthy_nint, St.setAttr, St.setLocal, St.bindOpt, Store.get,
      Store.set, Store.del, get_set, bind, Res.bind, pure, unsupported,
      valLe, valMax, valField, isInstanceAny, setElems, valGetD, starElems, doEmitR, runReenter,
      $ts,*])

theorem keyEnc_ref (cls : Nat → String) : KeyEnc (fun n => Val.ref (cls n) n) :=
  ⟨fun a b => by by_cases h : a = b <;> simp [pyEq, scalarEq, h], fun _ => rfl⟩

/-! ## C10: records -/

def bodyCls : C10.Body → String
  | .opn _ _ => "Open" | .data _ _ => "Data" | .close _ => "Close"

def bodyRest : C10.Body → List Val
  | .opn c sub => [.int c, .bytes sub]
  | .data c d => [.int c, .bytes d]
  | .close c => [.int c]

/-- an `Open`/`Data`/`Close` namedtuple of connection.py; field 0 is the seqnum (`WV.Gen.PyIRDil.recordFields`) -/
def encRec (r : C10.Rec) : Val := .obj (bodyCls r.body) (.int r.seqnum :: bodyRest r.body)

def encWire : C10.Wire → Val
  | .msg r => encRec r
  | .ack n => .obj "Ack" [.int n]

/-- what a value handed to `send_record` is, as a wire item of the model -/
def decWire : Val → Option C10.Wire
  | .obj "Open" [.int n, .int c, .bytes sub] => some (.msg ⟨n, .opn c sub⟩)
  | .obj "Data" [.int n, .int c, .bytes d] => some (.msg ⟨n, .data c d⟩)
  | .obj "Close" [.int n, .int c] => some (.msg ⟨n, .close c⟩)
  | .obj "Ack" [.int n] => some (.ack n)
  | _ => none

theorem decWire_encRec (r : C10.Rec) : decWire (encRec r) = some (.msg r) := by
  obtain ⟨n, b⟩ := r
  cases b <;> simp [encRec, decWire, bodyCls, bodyRest]

theorem decWire_encWire (w : C10.Wire) : decWire (encWire w) = some w := by
  cases w with
  | msg r => exact decWire_encRec r
  | ack n => simp [encWire, decWire]

theorem encRec_truthy (r : C10.Rec) : (encRec r).truthy = true := by
  obtain ⟨n, b⟩ := r
  cases b <;> rfl

theorem valField_encRec (r : C10.Rec) : valField (encRec r) 0 = .ok (.int r.seqnum) := by
  simp [encRec, valField]

theorem bodyCls_numbered (b : C10.Body) : ["Open", "Data", "Close"].contains (bodyCls b) = true := by
  cases b <;> simp [bodyCls]

theorem bodyCls_numbered' (b : C10.Body) : bodyCls b = "Open" ∨ bodyCls b = "Data" ∨ bodyCls b = "Close" := by
  cases b <;> simp [bodyCls]

theorem bodyCls_not_control' (b : C10.Body) :
    ¬ (bodyCls b = "KCM" ∨ bodyCls b = "Ping" ∨ bodyCls b = "Pong" ∨ bodyCls b = "Ack") := by
  cases b <;> simp [bodyCls]

theorem bodyCls_not_control (b : C10.Body) : ["KCM", "Ping", "Pong", "Ack"].contains (bodyCls b) = false := by
  cases b <;> simp [bodyCls]

theorem isInstanceAny_encRec (r : C10.Rec) :
    isInstanceAny (encRec r) ["KCM", "Ping", "Pong", "Ack"] = .ok false := by
  obtain ⟨n, b⟩ := r
  cases b <;> simp [encRec, isInstanceAny, bodyCls]

/-- the calls of `Outbound` the C10/C15 models keep -/
inductive DCall where
  | send (w : C10.Wire)
  | tReg
  | tUnreg
  deriving DecidableEq, Repr

def absDCall : Call → Option DCall
  | ⟨"_connection", "send_record", [v]⟩ => (decWire v).map .send
  | ⟨"$v", "transport.registerProducer", [_, .obj "self" [], .bool true]⟩ => some .tReg
  | ⟨"_connection", "transport.unregisterProducer", []⟩ => some .tUnreg
  | _ => none

theorem absDCall_send (r : C10.Rec) :
    absDCall ⟨"_connection", "send_record", [encRec r]⟩ = some (.send (.msg r)) := by
  simp [absDCall, decWire_encRec]

theorem absDCall_sendW (w : C10.Wire) :
    absDCall ⟨"_connection", "send_record", [encWire w]⟩ = some (.send w) := by
  simp [absDCall, decWire_encWire]

/-- heap of an `Outbound` with no registered producer ⟷ the Outbound fields of a C10 `Side` -/
structure RelOut (h : Store) (s : C10.Side) : Prop where
  queue : h.get "_outbound_queue" = some (.list (s.queue.map encRec))
  unsent : h.get "_queued_unsent" = some (.list (s.unsent.map encRec))
  next : h.get "_next_outbound_seqnum" = some (.int s.next)
  conn : ∃ v, h.get "_connection" = some v ∧ ((v = .none ∧ s.conn = false) ∨ (∃ c i, v = .ref c i ∧ s.conn = true))
  paused : h.get "_paused" = some (.bool s.paused)
  allp : h.get "_all_producers" = some (.list [])
  pausedP : h.get "_paused_producers" = some (.set [])
  unpausedP : h.get "_unpaused_producers" = some (.set [])

/-- heap of an `Inbound` ⟷ the watermark of a C10 `Side` -/
def encInt : Int → Val := Val.ofInt

structure RelInb (h : Store) (s : C10.Side) : Prop where
  high : h.get "_highest_inbound_acked" = some (Val.ofInt s.high)

theorem toInt_int (n : Nat) : (Val.int n).toInt? = some (n : Int) := rfl

theorem toInt_ofInt (i : Int) : (Val.ofInt i).toInt? = some i := by
  cases i <;> rfl

/-- the environment of the Dilation models: `hasattr(r, "seqnum")` holds for the three numbered record classes;
    the k-th recorded call calls back the sibling methods `re k` -/
def envD (re : Nat → List (String × List Val)) : Env where
  fmtD := fun n => toString n
  raises := fun _ => none
  reenter := re
  ext := fun f args =>
    match f, args with
    | "hasattr", [.obj c _, .str "seqnum"] => .ok (.bool (["Open", "Data", "Close"].contains c))
    | "is", [.ref _ a, .ref _ b] => .ok (.bool (a == b))
    | _, _ => unsupported

theorem envD_reenter (re : Nat → List (String × List Val)) : (envD re).reenter = re := rfl
theorem envD_raises (re : Nat → List (String × List Val)) : (envD re).raises = fun _ => none := rfl

def noRe : Nat → List (String × List Val) := fun _ => []

/-! ## while loops -/

/-- `while q and P(q[0]): q.popleft()` — for every length: what is left is `dropWhile P`.  `Inv h q` says that the heap
    holds the deque `q`; locals and calls are not touched. -/
theorem whileLoop_dropWhile {α : Type} {G : Prop} (Inv : Store → List α → Prop) (P : α → Bool)
    {cond : St → Res Val} {body : St → St × Flow} {F : Nat} {σ : St} {w : St × Flow}
    (hw : whileLoop cond body F σ = w) (q : List α)
    (hcond : ∀ h q cs, Inv h q → ∃ v, cond ⟨h, σ.locals, cs⟩ = .ok v ∧
      v.truthy = (match q with | [] => false | x :: _ => P x))
    (hbody : ∀ h x r cs, Inv h (x :: r) → P x = true →
      ∃ h', body ⟨h, σ.locals, cs⟩ = (⟨h', σ.locals, cs⟩, .norm) ∧ Inv h' r)
    (hI : Inv σ.heap q) (hF : q.length < F)
    (cont : ∀ h', Inv h' (q.dropWhile P) → w = (⟨h', σ.locals, σ.calls⟩, .norm) → G) : G := by
  suffices key : ∀ (q : List α) (F : Nat) (h : Store), Inv h q → q.length < F →
      ∃ h', whileLoop cond body F ⟨h, σ.locals, σ.calls⟩ = (⟨h', σ.locals, σ.calls⟩, .norm) ∧ Inv h' (q.dropWhile P) by
    obtain ⟨h', e, hI'⟩ := key q F σ.heap hI hF
    exact cont h' hI' (hw ▸ e)
  intro q
  induction q with
  | nil =>
    intro F h hI hF
    obtain ⟨F, rfl⟩ : ∃ F', F = F' + 1 := ⟨F - 1, by omega⟩
    obtain ⟨v, hc, hv⟩ := hcond h [] σ.calls hI
    exact ⟨h, by simp [whileLoop, hc, withVal, hv], by simpa using hI⟩
  | cons x r ih =>
    intro F h hI hF
    obtain ⟨F, rfl⟩ : ∃ F', F = F' + 1 := ⟨F - 1, by omega⟩
    obtain ⟨v, hc, hv⟩ := hcond h (x :: r) σ.calls hI
    simp only at hv
    cases hp : P x with
    | false =>
      rw [hp] at hv
      exact ⟨h, by simp [whileLoop, hc, withVal, hv], by simpa [List.dropWhile, hp] using hI⟩
    | true =>
      rw [hp] at hv
      obtain ⟨h1, hb, hI1⟩ := hbody h x r σ.calls hI hp
      obtain ⟨h', e, hI'⟩ := ih F h1 hI1 (by simp at hF; omega)
      exact ⟨h', by simp [whileLoop, hc, withVal, hv, hb, andThen, e], by simpa [List.dropWhile, hp] using hI'⟩

/-- the callback of the fake transport: `pauseProducing()` from inside the `budget`-th `send_record` -/
def ppCall : List (String × List Val) := [("pauseProducing", [])]

/-- the environment's callbacks agree with the model's `budget`, seen from a call list of length `n` -/
def EnvOk (re : Nat → List (String × List Val)) (n budget : Nat) : Prop :=
  ∀ k, n ≤ k → re k = if budget ≠ 0 ∧ k + 1 = n + budget then ppCall else []

theorem EnvOk.here {re n budget} (h : EnvOk re n budget) : re n = if budget = 1 then ppCall else [] := by
  rw [h n (Nat.le_refl _)]
  by_cases hb : budget = 1
  · rw [if_pos hb, if_pos (by omega)]
  · rw [if_neg hb, if_neg (by omega)]

theorem EnvOk.next {re n budget} (h : EnvOk re n budget) : EnvOk re (n + 1) (budget - 1) := by
  intro k hk
  rw [h k (by omega)]
  by_cases hc : budget ≠ 0 ∧ k + 1 = n + budget
  · rw [if_pos hc, if_pos (by omega)]
  · rw [if_neg hc, if_neg (by omega)]

open WV.C10 in
/-- the budget after one `connSend` -/
theorem connSend_budget (s : Side) (w : Wire) : (connSend s w).budget = s.budget - 1 := by
  unfold connSend
  by_cases hb : s.budget = 1
  · simp [hb, pauseProducing]; split <;> simp
  · simp [hb]

open WV.C10 in
theorem connSend_conn (s : Side) (w : Wire) : (connSend s w).conn = s.conn := by
  unfold connSend
  by_cases hb : s.budget = 1
  · simp [hb, pauseProducing]; split <;> simp
  · simp [hb]

open WV.C10 in
theorem connSend_out (s : Side) (w : Wire) : (connSend s w).out = s.out ++ [w] := by
  unfold connSend
  by_cases hb : s.budget = 1
  · simp [hb, pauseProducing]; split <;> simp
  · simp [hb]

open WV.C10 in
theorem drain_out (rest : List Rec) : ∀ (s : Side), ∃ ws : List Rec, ws <+: rest ∧ (drain s rest).out = s.out ++ ws.map Wire.msg := by
  induction rest with
  | nil => intro s; exact ⟨[], by simp, by simp [drain]⟩
  | cons r rest ih =>
    intro s
    by_cases hp : s.paused
    · exact ⟨[], by simp, by simp [drain, hp]⟩
    · obtain ⟨ws, hpre, ho⟩ := ih (connSend s (.msg r))
      refine ⟨r :: ws, by simpa using hpre, ?_⟩
      simp [drain, hp, ho, connSend_out]

open WV.C10 in
/-- the `while not self._paused:` loop of `resumeProducing` with no registered producer, against `drain`, for every
    length of `_queued_unsent` and every `budget`: `Inv h s rest` = the heap holds `s` with `_queued_unsent = rest`.
    `hsend` / `hend` are discharged by symbolic evaluation of the generated loop body. -/
theorem whileLoopBC_drain {G : Prop} (re : Nat → List (String × List Val))
    {cond : St → Res Val} {body : St → St × Flow} {F : Nat} {σ : St} {w : St × Flow}
    (hw : whileLoopBC cond body F σ = w) (s : Side) (rest : List Rec)
    (hcond : ∀ h (s : Side) (rest : List Rec) L cs, RelOut h { s with unsent := rest } → cond ⟨h, L, cs⟩ = .ok (.bool (!s.paused)))
    (hsend : ∀ h (s : Side) (r : Rec) (rest : List Rec) L cs, RelOut h { s with unsent := r :: rest } → s.paused = false →
      s.conn = true → re cs.length = (if s.budget = 1 then ppCall else []) →
      ∃ h' L', body ⟨h, L, cs⟩ = (⟨h', L', cs ++ [⟨"_connection", "send_record", [encRec r]⟩]⟩, .exc "$continue") ∧
        RelOut h' { connSend s (.msg r) with unsent := rest })
    (hend : ∀ h (s : Side) L cs, RelOut h { s with unsent := [] } → s.paused = false →
      ∃ L', body ⟨h, L, cs⟩ = (⟨h, L', cs⟩, .exc "$break"))
    (hI : RelOut σ.heap { s with unsent := rest }) (hconn : rest ≠ [] → s.conn = true)
    (hE : EnvOk re σ.calls.length s.budget) (hF : rest.length + 1 < F)
    (cont : ∀ h' L' (sent : List Rec), RelOut h' (drain s rest) → (drain s rest).out = s.out ++ sent.map Wire.msg →
      w = (⟨h', L', σ.calls ++ sent.map fun r => ⟨"_connection", "send_record", [encRec r]⟩⟩, .norm) → G) : G := by
  suffices key : ∀ (rest : List Rec) (s : Side) (F : Nat) (h L : Store) (cs : List Call),
      RelOut h { s with unsent := rest } → (rest ≠ [] → s.conn = true) → EnvOk re cs.length s.budget → rest.length + 1 < F →
      ∃ (h' : Store) (L' : Store) (sent : List Rec), whileLoopBC cond body F ⟨h, L, cs⟩ =
          (⟨h', L', cs ++ sent.map fun r => ⟨"_connection", "send_record", [encRec r]⟩⟩, .norm) ∧
        RelOut h' (drain s rest) ∧ (drain s rest).out = s.out ++ sent.map Wire.msg by
    obtain ⟨h', L', sent, e, hR, ho⟩ := key rest s F σ.heap σ.locals σ.calls hI hconn hE hF
    exact cont h' L' sent hR ho (hw ▸ e)
  intro rest
  induction rest with
  | nil =>
    intro s F h L cs hI hconn hE hF
    obtain ⟨F, rfl⟩ : ∃ F', F = F' + 1 := ⟨F - 1, by omega⟩
    have hc := hcond h s [] L cs hI
    cases hp : s.paused with
    | true =>
      refine ⟨h, L, [], ?_, by simpa [drain] using hI, by simp [drain]⟩
      simp [whileLoopBC, hc, hp, withVal, truthy_bool]
    | false =>
      obtain ⟨L', hb⟩ := hend h s L cs hI hp
      refine ⟨h, L', [], ?_, by simpa [drain] using hI, by simp [drain]⟩
      simp [whileLoopBC, hc, hp, withVal, truthy_bool, hb]
  | cons r rest ih =>
    intro s F h L cs hI hconn hE hF
    obtain ⟨F, rfl⟩ : ∃ F', F = F' + 1 := ⟨F - 1, by omega⟩
    have hc := hcond h s (r :: rest) L cs hI
    cases hp : s.paused with
    | true =>
      refine ⟨h, L, [], ?_, by simpa [drain, hp] using hI, by simp [drain, hp]⟩
      simp [whileLoopBC, hc, hp, withVal, truthy_bool]
    | false =>
      obtain ⟨h1, L1, hb, hI1⟩ := hsend h s r rest L cs hI hp (hconn (by simp)) hE.here
      have hE1 : EnvOk re (cs ++ [(⟨"_connection", "send_record", [encRec r]⟩ : Call)]).length (connSend s (.msg r)).budget := by
        rw [connSend_budget]; simpa using hE.next
      obtain ⟨h', L', sent, e, hR, ho⟩ := ih (connSend s (.msg r)) F h1 L1 _ hI1 (fun _ => by rw [connSend_conn]; exact hconn (by simp)) hE1 (by simp at hF; omega)
      refine ⟨h', L', r :: sent, ?_, by simpa [drain, hp] using hR, ?_⟩
      · simp [whileLoopBC, hc, hp, withVal, truthy_bool, hb, e]
      · simp [drain, hp, ho, connSend_out]

/-! ## C15: producers, sets through membership -/

/-- a Python set of objects ⟷ a list of the C15 model, compared through membership only -/
def SetRel (enc : Nat → Val) (v : Val) (l : List Nat) : Prop :=
  ∃ l' : List Nat, v = .set (l'.map enc) ∧ ∀ x, x ∈ l' ↔ x ∈ l

theorem SetRel.refl (enc : Nat → Val) (l : List Nat) : SetRel enc (.set (l.map enc)) l := ⟨l, rfl, fun _ => Iff.rfl⟩

theorem setDel_enc {kf : Nat → Val} (K : KeyEnc kf) (l : List Nat) (k : Nat) :
    setDel (kf k) (l.map kf) = .ok ((C15.sDel k l).map kf) := by
  induction l with
  | nil => simp [setDel, C15.sDel]
  | cons a r ih =>
    by_cases h : a = k
    · subst h; simp [setDel, K.eq, bind, Res.bind, pure, ih, C15.sDel] at ih ⊢
    · simp [setDel, K.eq, bind, Res.bind, pure, h, ih, C15.sDel] at ih ⊢

theorem listRemove1_enc {kf : Nat → Val} (K : KeyEnc kf) (l : List Nat) (k : Nat) :
    listRemove1 (kf k) (l.map kf) = .ok (if k ∈ l then some ((l.erase k).map kf) else none) := by
  induction l with
  | nil => simp [listRemove1]
  | cons a r ih =>
    by_cases h : a = k
    · subst h; simp [listRemove1, K.eq, bind, Res.bind, pure]
    · have h' : ¬ k = a := fun e => h e.symm
      have h'' : (a == k) = false := by simp [h]
      by_cases hm : k ∈ r <;>
        simp [listRemove1, K.eq, bind, Res.bind, pure, h, h', ih, hm, List.erase_cons, h'']

theorem allNotIn_enc {kf : Nat → Val} (K : KeyEnc kf) (a b : List Nat) :
    allNotIn (b.map kf) (a.map kf) = .ok (a.all fun x => !b.contains x) := by
  induction a with
  | nil => simp [allNotIn]
  | cons x r ih =>
    by_cases hm : x ∈ b <;> simp [allNotIn, memKeys_enc K, bind, Res.bind, pure, hm, ih]

theorem allIn_enc {kf : Nat → Val} (K : KeyEnc kf) (a b : List Nat) :
    allIn (b.map kf) (a.map kf) = .ok (a.all fun x => b.contains x) := by
  induction a with
  | nil => simp [allIn]
  | cons x r ih =>
    by_cases hm : x ∈ b <;> simp [allIn, memKeys_enc K, bind, Res.bind, pure, hm, ih]

theorem notInOf_enc {kf : Nat → Val} (K : KeyEnc kf) (a b : List Nat) :
    notInOf (a.map kf) (b.map kf) = .ok ((b.filter fun x => !a.contains x).map kf) := by
  induction b with
  | nil => simp [notInOf]
  | cons x r ih =>
    by_cases hm : x ∈ a <;> simp [notInOf, memKeys_enc K, bind, Res.bind, pure, hm, ih]

theorem allHashable_enc {kf : Nat → Val} (K : KeyEnc kf) (l : List Nat) : allHashable (l.map kf) = true := by
  simp [allHashable, K.hashable]

theorem SetRel.isEmpty {enc : Nat → Val} {v : Val} {l : List Nat} (h : SetRel enc v l) : v.truthy = !l.isEmpty := by
  obtain ⟨l', rfl, hm⟩ := h
  cases l' with
  | nil =>
    cases l with
    | nil => rfl
    | cons a r => exact absurd ((hm a).2 (by simp)) (by simp)
  | cons a r =>
    cases l with
    | nil => exact absurd ((hm a).1 (by simp)) (by simp)
    | cons b r' => rfl

theorem sDel_mem (x y : Nat) (l : List Nat) : y ∈ C15.sDel x l ↔ y ∈ l ∧ y ≠ x := by
  simp [C15.sDel]

theorem sAdd_mem (x y : Nat) (l : List Nat) : y ∈ C15.sAdd x l ↔ y = x ∨ y ∈ l := by
  unfold C15.sAdd
  by_cases h : x ∈ l
  · simp [h]; intro e; subst e; exact h
  · simp [h]

/-- `set.add` on the heap ⟷ `sAdd` in the model -/
theorem SetRel.add {kf : Nat → Val} (K : KeyEnc kf) {l' l : List Nat} (hm : ∀ x, x ∈ l' ↔ x ∈ l) (p : Nat) :
    SetRel kf (.set (if p ∈ l' then l'.map kf else l'.map kf ++ [kf p])) (C15.sAdd p l) := by
  by_cases h : p ∈ l'
  · refine ⟨l', by simp [h], fun x => ?_⟩
    rw [sAdd_mem, hm]
    constructor
    · exact Or.inr
    · rintro (rfl | h')
      · exact (hm _).1 h
      · exact h'
  · refine ⟨l' ++ [p], by simp [h], fun x => ?_⟩
    rw [sAdd_mem, List.mem_append, hm]
    simp [or_comm]

/-- `set.discard` / `set.remove` on the heap ⟷ `sDel` in the model -/
theorem SetRel.del {kf : Nat → Val} {l' l : List Nat} (hm : ∀ x, x ∈ l' ↔ x ∈ l) (p : Nat) :
    SetRel kf (.set ((C15.sDel p l').map kf)) (C15.sDel p l) :=
  ⟨C15.sDel p l', rfl, fun x => by rw [sDel_mem, sDel_mem, hm]⟩

/-! ## C15: Inbound's pause set -/

def encSc (sc : Nat) : Val := .ref "SubChannel" sc

theorem keyEnc_sc : KeyEnc encSc := keyEnc_ref (fun _ => "SubChannel")
@[simp high] theorem encSc_hashable (a : Nat) : (encSc a).hashable = true := rfl
@[simp high] theorem encSc_truthy (a : Nat) : (encSc a).truthy = true := rfl

/-- heap of an `Inbound` ⟷ the pause bookkeeping of the C15 `Inb` -/
structure RelPause (h : Store) (s : C15.Inb) : Prop where
  paused : ∃ v, h.get "_paused_subchannels" = some v ∧ SetRel encSc v s.pausedSc
  conn : h.get "_connection" = some (match s.conn with | none => .none | some g => .ref "Connection" g)

/-- the calls on the connection the C15 model logs (`g` = the connection currently held) -/
def absICall (g : Nat) : Call → Option C15.IEv
  | ⟨"_connection", "pauseProducing", []⟩ => some (.tPause g)
  | ⟨"_connection", "resumeProducing", []⟩ => some (.tResume g)
  | _ => none

def isT : C15.IEv → Bool
  | .tPause _ | .tResume _ => true
  | _ => false

/-- what an `Inb` operation added to the log, oldest first, transport calls only -/
def tNew (s s' : C15.Inb) : List C15.IEv := ((s'.log.take (s'.log.length - s.log.length)).reverse).filter isT

/-! ## C15: Outbound's producers -/

/-- a producer object: identity `p`, class `cls p` (`"PullToPush"` for the adapters) -/
def encP (cls : Nat → String) (p : Nat) : Val := .ref (cls p) p

theorem keyEnc_P (cls : Nat → String) : KeyEnc (encP cls) := keyEnc_ref cls
@[simp high] theorem encP_hashable (cls : Nat → String) (a : Nat) : (encP cls a).hashable = true := rfl
@[simp high] theorem encP_truthy (cls : Nat → String) (a : Nat) : (encP cls a).truthy = true := rfl

structure RelProd (cls : Nat → String) (h : Store) (o : C15.Out) : Prop where
  paused : h.get "_paused" = some (.bool o.paused)
  allp : h.get "_all_producers" = some (.list (o.allp.map (encP cls)))
  pausedSet : ∃ v, h.get "_paused_producers" = some v ∧ SetRel (encP cls) v o.pausedSet
  unpausedSet : ∃ v, h.get "_unpaused_producers" = some v ∧ SetRel (encP cls) v o.unpausedSet
  scp : h.get "_subchannel_producers" = some (.dict (o.scp.map fun e => (encSc e.1, encP cls e.2)))

/-- the calls on producers the C15 model logs -/
def absPCall : Call → Option C15.Ev
  | ⟨"$v", "pauseProducing", [.ref _ p]⟩ => some (.pause p)
  | ⟨"$v", "resumeProducing", [.ref _ p]⟩ => some (.resume p)
  | ⟨"$v", "stopStreaming", [.ref _ p]⟩ => some (.stop p)
  | _ => none

theorem all_congr_mem {l l' : List Nat} (hm : ∀ x, x ∈ l' ↔ x ∈ l) (f : Nat → Bool) : l'.all f = l.all f := by
  rw [Bool.eq_iff_iff]
  simp only [List.all_eq_true]
  exact ⟨fun h x hx => h x ((hm x).2 hx), fun h x hx => h x ((hm x).1 hx)⟩

theorem contains_congr_mem {l l' : List Nat} (hm : ∀ x, x ∈ l' ↔ x ∈ l) (x : Nat) : l'.contains x = l.contains x := by
  rw [Bool.eq_iff_iff]
  simp [hm]


theorem len_sub1 (n : Nat) : n + 1 - n = 1 := by omega
theorem len_sub2 (n : Nat) : n + 1 + 1 - n = 2 := by omega
theorem len_sub0 (n : Nat) : n - n = 0 := by omega


def mkPause (cls : Nat → String) (p : Nat) : Call := ⟨"$v", "pauseProducing", [encP cls p]⟩

/-- the `for p in self._all_producers:` loop of `pauseProducing` against `C15.pauseLoop`, every number of producers -/
theorem forLoop_pause {G : Prop} (cls : Nat → String) {body : St → St × Flow} {σ : St} {w : St × Flow}
    (ps : List Nat) (hw : forLoop (.one "p") body (ps.map (encP cls)) σ = w) (c : C15.Cfg)
    (hstep : ∀ (p : Nat) (h : Store) (o : C15.Out) (L : Store) (cs : List Call), RelProd cls h o →
      (p ∈ o.unpausedSet → ∃ h', body ⟨h, L.set "p" (encP cls p), cs⟩ =
          (⟨h', L.set "p" (encP cls p), cs ++ [mkPause cls p]⟩, .norm) ∧
        RelProd cls h' { o with unpausedSet := C15.sDel p o.unpausedSet, pausedSet := C15.sAdd p o.pausedSet }) ∧
      (p ∉ o.unpausedSet → body ⟨h, L.set "p" (encP cls p), cs⟩ = (⟨h, L.set "p" (encP cls p), cs⟩, .norm)))
    (hI : RelProd cls σ.heap c.o)
    (cont : ∀ h' L' (evs : List Nat), RelProd cls h' (C15.pauseLoop ps c).o →
      (C15.pauseLoop ps c).log = (evs.map C15.Ev.pause).reverse ++ c.log →
      w = (⟨h', L', σ.calls ++ evs.map (mkPause cls)⟩, .norm) → G) : G := by
  suffices key : ∀ (ps : List Nat) (c : C15.Cfg) (h L : Store) (cs : List Call), RelProd cls h c.o →
      ∃ (h' : Store) (L' : Store) (evs : List Nat),
        forLoop (.one "p") body (ps.map (encP cls)) ⟨h, L, cs⟩ = (⟨h', L', cs ++ evs.map (mkPause cls)⟩, .norm) ∧
        RelProd cls h' (C15.pauseLoop ps c).o ∧ (C15.pauseLoop ps c).log = (evs.map C15.Ev.pause).reverse ++ c.log by
    obtain ⟨h', L', evs, e, hR, hl⟩ := key ps c σ.heap σ.locals σ.calls hI
    exact cont h' L' evs hR hl (hw ▸ e)
  intro ps
  induction ps with
  | nil => intro c h L cs hI; exact ⟨h, L, [], by simp [forLoop], by simpa [C15.pauseLoop] using hI, by simp [C15.pauseLoop]⟩
  | cons p ps ih =>
    intro c h L cs hI
    obtain ⟨hyes, hno⟩ := hstep p h c.o L cs hI
    by_cases hp : p ∈ c.o.unpausedSet
    · obtain ⟨h1, hb, hI1⟩ := hyes hp
      obtain ⟨h', L', evs, e, hR, hl⟩ := ih
        { c with o := { c.o with unpausedSet := C15.sDel p c.o.unpausedSet, pausedSet := C15.sAdd p c.o.pausedSet },
                 log := .pause p :: c.log } h1 (L.set "p" (encP cls p)) (cs ++ [mkPause cls p]) hI1
      refine ⟨h', L', p :: evs, ?_, by simpa [C15.pauseLoop, hp] using hR, by simp [C15.pauseLoop, hp, hl]⟩
      simp [forLoop, bindPat, withVal, St.setLocal, hb, andThen, e]
    · obtain ⟨h', L', evs, e, hR, hl⟩ := ih c h (L.set "p" (encP cls p)) cs hI
      refine ⟨h', L', evs, ?_, by simpa [C15.pauseLoop, hp] using hR, by simp [C15.pauseLoop, hp, hl]⟩
      simp [forLoop, bindPat, withVal, St.setLocal, hno hp, andThen, e]


end WV.Proofs.PyIRDil
