import WV.Proofs.C16

namespace WV.Proofs.C16
open WV WV.Gen WV.C16

@[simp] theorem sendPingResetTimer_mgr (cfg : Cfg) (s : St) : (sendPingResetTimer cfg s).1.mgr = s.mgr := by
  simp only [sendPingResetTimer, sendPing_eq]
  split
  · simp only [andThen_ok]
    split
    · rfl
    · split
      · rfl
      · split <;> rfl
  · rfl

@[simp] theorem signalReconnect_mgr (s : St) : (signalReconnect s).mgr = s.mgr := by
  simp only [signalReconnect]; split <;> rfl

@[simp] theorem ttOutputs_mgr (cfg : Cfg) (outs : List TrafficTimer.Output) (s : St) :
    (ttOutputs cfg outs s).1.mgr = s.mgr := by
  induction outs generalizing s with
  | nil => rfl
  | cons o r ih =>
    cases o
    · simp only [ttOutputs]
      have h1 := sendPingResetTimer_mgr cfg s
      generalize sendPingResetTimer cfg s = r1 at h1
      obtain ⟨s1, e⟩ := r1
      cases e with
      | none => simp only [andThen_ok]; rw [ih]; exact h1
      | some e => exact h1
    · simp [ttOutputs, ih]

theorem ttInput_mgr (cfg : Cfg) (i : TrafficTimer.Input) (s : St) : (ttInput cfg i s).1.mgr = s.mgr := by
  simp only [ttInput]
  split
  · rfl
  · split
    · rfl
    · simp

/-- what a successful `connector_connection_made` does on the Leader -/
theorem made_leader {T : Nat} {s s' : St} (hi : Inv T s) (hl : s.role = some true)
    (h : step (Cfg.real T) s .made = (s', none)) :
    s.mgr = .CONNECTING ∧ s.timer = none ∧ s.conn = none ∧
    s' = { s with mgr := .CONNECTED, traffic := some .connected, timer := some (s.now + T),
                  conn := some s.nextConn, outConn := some s.nextConn, outPaused := false, readPaused := !s.inPaused.isEmpty, nextConn := s.nextConn + 1,
                  pings := s.pings ++ [{ id := pingId s, sent := s.now, wire := none }],
                  nextPing := max s.nextPing (pingId s + 1), draws := s.draws.tail,
                  lastPing := s.now, madeAt := s.now, dropped := false } ∧
    freshNext s = true := by
  obtain ⟨h1, h2, h3, h4, h5, h6, h7, h8, h9, h10, h11, h12, h13⟩ := hi
  simp only [step, connMade] at h
  simp only [hl, if_true] at h
  -- the Manager must be CONNECTING
  have hm : s.mgr = .CONNECTING := by
    generalize hx : (if s.traffic.isNone = true then _ else _ : St) = x at h
    have hxm : x.mgr = s.mgr := by rw [← hx]; split <;> rfl
    have hmg := ttInput_mgr (Cfg.real T) .got_connection x
    generalize hr : ttInput (Cfg.real T) TrafficTimer.Input.got_connection x = r at h hmg
    obtain ⟨s2, e⟩ := r
    cases e with
    | some e => simp at h
    | none =>
      simp only [andThen_ok, mgrInput] at h
      simp at hmg
      cases hm2 : s2.mgr <;> simp [hm2, Manager.table] at h
      rw [← hxm, ← hmg, hm2]
  have hu := h5 (by simp [hm, inUse])
  obtain ⟨hc, ho, htm, htr⟩ := hu
  refine ⟨hm, htm, hc, ?_⟩
  rcases htr with htr | htr
  · simp [htr, ttInput, TrafficTimer.table, TrafficTimer.init, ttOutputs] at h
    rw [sprt_none (by exact htm)] at h
    split at h
    · rename_i hf
      simp [pinged, mgrInput, hm, Manager.table, mgrOutputs, ho] at h hf
      subst h
      simp [hl, hf]
    · simp at h
  · simp [htr, ttInput, TrafficTimer.table, ttOutputs] at h
    rw [sprt_none (by exact htm)] at h
    split at h
    · rename_i hf
      simp [pinged, mgrInput, hm, Manager.table, mgrOutputs, ho] at h hf
      subst h
      simp [hl, hf]
    · simp at h

theorem inv_made {T : Nat} {s s' : St} (hT : 1 ≤ T) (hi : Inv T s)
    (h : step (Cfg.real T) s .made = (s', none)) : Inv T s' := by
  by_cases hl : s.role = some true
  · obtain ⟨hm, htm, hc, he, _⟩ := made_leader hi hl h
    obtain ⟨h1, h2, h3, h4, h5, h6, h7, h8, h9, h10, h11, h12, h13⟩ := hi
    subst he
    constructor <;> simp_all [inUse]
    all_goals grind
  · obtain ⟨h1, h2, h3, h4, h5, h6, h7, h8, h9, h10, h11, h12, h13⟩ := hi
    simp only [step, connMade] at h
    simp only [hl, if_false, andThen_ok, mgrInput] at h
    cases hm : s.mgr <;> simp [hm, Manager.table, mgrOutputs] at h
    subst h
    constructor <;> simp_all [inUse]
