import WV.Proofs.C19_RlLate
namespace WV.Proofs.C19
open WV WV.C19 WV.Gen

/-- whatever `get_word_completions(p)` returns through the helper extends `p` -/
theorem wordCompl_ret (isD : Nat → Bool) (s s' : St) (p : Str) (l : List Str)
    (h : step isD s (.hWordCompl p) = (s', none)) (hl : s'.ret = some l) : ∀ c ∈ l, p <+: c := by
  cases hi : s.inp <;> cases hw : s.wordlist <;>
    simp [step, fireInput, hi, hw, Input.table, runOuts, inputOut1] at h
  all_goals
    obtain rfl := h
    simp at hl
    subst hl
    first
    | (intro c hc; simp at hc)
    | (intro c hc; exact prefix_of_mem_getCompletions hc)

/-- whatever `get_nameplate_completions(p)` returns through the helper extends `p` -/
theorem npCompl_ret (isD : Nat → Bool) (s s' : St) (p : Str) (l : List Str)
    (h : step isD s (.hNpCompl p) = (s', none)) (hl : s'.ret = some l) : ∀ c ∈ l, p <+: c := by
  cases hi : s.inp <;> simp [step, fireInput, hi, Input.table, runOuts, inputOut1] at h
  obtain rfl := h
  simp at hl
  subst hl
  intro c hc
  simp only [npCompletions, List.mem_filterMap] at hc
  obtain ⟨np, _, hnp⟩ := hc
  split at hnp
  · next hp =>
    simp at hnp
    subst hnp
    exact (List.isPrefixOf_iff_prefix.mp hp).trans (List.prefix_append _ _)
  · simp at hnp

/-- `choose_nameplate(np)` returned normally: `np` is well-formed, it is now Input's nameplate, Input
    has left the nameplate phase, and Nameplate was told — nothing else -/
theorem chooseNp_ok (isD : Nat → Bool) (s s' : St) (np : Str) (h : step isD s (.hChooseNp np) = (s', none)) :
    np ≠ [] ∧ s'.nameplate = some np ∧ late s'.inp = true ∧ s'.out = s.out ++ [.nSetNameplate np] := by
  rcases validateNameplate_cases isD np with hv | hv
  · have hne := (validateNameplate_ok_iff.mp hv).1
    cases hi : s.inp <;> cases hc : s.code <;>
      simp [step, hv, fireInput, hi, hc, Input.table, runOuts, inputOut1, codeGotNameplate, fireCode, Code.table,
        codeOut1, emit] at h
    obtain rfl := h
    exact ⟨hne, rfl, rfl, rfl⟩
  · simp [step, hv] at h

/-- `choose_words(w)` returned normally: the code is Input's stored nameplate, a hyphen, and `w` -/
theorem chooseWords_ok (isD : Nat → Bool) (s s' : St) (w : Str) (h : step isD s (.hChooseWords w) = (s', none)) :
    ∃ np, s.nameplate = some np ∧ s'.out = s.out ++ [.bGotCode (np ++ 45 :: w), .kGotCode (np ++ 45 :: w)] := by
  cases hi : s.inp <;> cases hn : s.nameplate <;> cases hc : s.code <;>
    simp [step, fireInput, hi, hn, hc, Input.table, runOuts, inputOut1, codeFinishedInput, fireCode, Code.table,
      codeOut1, emit] at h
  all_goals
    obtain rfl := h
    exact ⟨_, rfl, rfl⟩

/-- whatever state the objects are in (whatever was asked before): `get_word_completions(p)` through the helper
    returns nothing while the wordlist is not there yet, and exactly `get_completions(p)` once it is -/
theorem wordCompl_exact (isD : Nat → Bool) (s s' : St) (p : Str) (l : List Str)
    (h : step isD s (.hWordCompl p) = (s', none)) (hl : s'.ret = some l) :
    (s.inp = .S2_typing_code_no_wordlist ∧ l = []) ∨
    (s.inp = .S3_typing_code_yes_wordlist ∧ l = getCompletions p 2) := by
  cases hi : s.inp <;> cases hw : s.wordlist <;>
    simp [step, fireInput, hi, hw, Input.table, runOuts, inputOut1] at h
  all_goals
    obtain rfl := h
    simp at hl
    subst hl
    simp

end WV.Proofs.C19
