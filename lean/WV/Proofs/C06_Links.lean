import WV.Model.C06
import WV.Proofs.C06
import WV.Proofs.C06_App
import WV.Proofs.C06_Inv
import WV.Proofs.C06_Hold

/-! Several `Connection` objects in one process: the process model is the product of the per-connection models. -/
namespace WV.C06
open WV

/-! ## `updAt` touches one component -/

theorem updAt_length {α : Type} (f : α → α) : ∀ (p : List α) (i : Nat), (updAt p i f).length = p.length
  | [], _ => rfl
  | _ :: _, 0 => rfl
  | _ :: xs, i + 1 => by simp [updAt, updAt_length f xs i]

theorem updAt_other {α : Type} (f : α → α) : ∀ (p : List α) (i j : Nat), j ≠ i → (updAt p i f)[j]? = p[j]?
  | [], _, _, _ => rfl
  | _ :: _, 0, 0, h => absurd rfl h
  | _ :: _, 0, _ + 1, _ => rfl
  | _ :: _, _ + 1, 0, _ => rfl
  | _ :: xs, i + 1, j + 1, h => by
    simp only [updAt, List.getElem?_cons_succ]
    exact updAt_other f xs i j (fun e => h (by rw [e]))

theorem updAt_same {α : Type} (f : α → α) : ∀ (p : List α) (i : Nat), (updAt p i f)[i]? = p[i]?.map f
  | [], _ => rfl
  | _ :: _, 0 => rfl
  | _ :: xs, i + 1 => by
    simp only [updAt, List.getElem?_cons_succ]
    exact updAt_same f xs i

/-! ## one step of the process -/

theorem pstep_on_other (Es : Nat → Env) (p : List HConn) (i j : Nat) (o : HOp) (h : j ≠ i) :
    (pstep Es p (.on i o))[j]? = p[j]? := updAt_other _ p i j h

theorem pstep_on_same (Es : Nat → Env) (p : List HConn) (i : Nat) (o : HOp) :
    (pstep Es p (.on i o))[i]? = p[i]?.map (fun h => hstep (Es i) h o) := updAt_same _ p i

theorem pstep_start_old (Es : Nat → Env) (p : List HConn) (b : Bool) (left : Bytes) (j : Nat) (h : j < p.length) :
    (pstep Es p (.start b left))[j]? = p[j]? := by
  simp only [pstep]
  exact List.getElem?_append_left h

theorem pstep_start_new (Es : Nat → Env) (p : List HConn) (b : Bool) (left : Bytes) :
    (pstep Es p (.start b left))[p.length]? =
      some { c := (dataReceived (Es p.length) (Conn.init b) left).1, held := [] } := by
  simp [pstep]

theorem pstep_length_ge (Es : Nat → Env) (p : List HConn) (op : POp) : p.length ≤ (pstep Es p op).length := by
  cases op with
  | start b left => simp [pstep]
  | on i o => simp [pstep, updAt_length]

theorem prun_append (Es : Nat → Env) (p : List HConn) (xs ys : List POp) :
    prun Es p (xs ++ ys) = prun Es (prun Es p xs) ys := by
  simp [prun, List.foldl_append]

/-! ## projection: a connection's state after a process schedule is its own run on its own events -/

theorem link_projection_core (Es : Nat → Env) : ∀ (ops : List POp) (p : List HConn) (i : Nat) (h0 : HConn),
    p[i]? = some h0 → (prun Es p ops)[i]? = some (hrun (Es i) h0 (opsOf i ops)) := by
  intro ops
  induction ops with
  | nil => intro p i h0 h; exact h
  | cons op ops ih =>
    intro p i h0 h
    have hlt : i < p.length := by
      rcases Nat.lt_or_ge i p.length with hl | hl
      · exact hl
      · rw [List.getElem?_eq_none hl] at h; cases h
    cases op with
    | start b left =>
      show (prun Es (pstep Es p (.start b left)) ops)[i]? = _
      have h1 : (pstep Es p (.start b left))[i]? = some h0 := by rw [pstep_start_old Es p b left i hlt]; exact h
      exact ih _ i h0 h1
    | on j o =>
      show (prun Es (pstep Es p (.on j o)) ops)[i]? = _
      by_cases hji : j = i
      · subst hji
        have h1 : (pstep Es p (.on j o))[j]? = some (hstep (Es j) h0 o) := by rw [pstep_on_same, h]; rfl
        have := ih _ j _ h1
        rw [this]
        simp [opsOf, hrun]
      · have h1 : (pstep Es p (.on j o))[i]? = some h0 := by
          rw [pstep_on_other Es p j i o (fun e => hji e.symm)]; exact h
        have := ih _ i h0 h1
        rw [this]
        simp [opsOf, hji]

/-! ## plain runs inside the holding world -/

theorem hrun_ops (E : Env) : ∀ (ops : List Op) (h : HConn),
    hrun E h (ops.map HOp.op) = { c := run E h.c ops, held := h.held } := by
  intro ops
  induction ops with
  | nil => intro h; rfl
  | cons o ops ih =>
    intro h
    simp only [List.map_cons, hrun, List.foldl_cons]
    have := ih (hstep E h (.op o))
    simp only [hrun] at this
    rw [this]
    simp [hstep, run]

/-! ## `is_sender` never changes -/

theorem deliverHeld_isSender (E : Env) : ∀ (held : List Bytes) (c : Conn), (deliverHeld E c held).isSender = c.isSender := by
  intro held
  induction held with
  | nil => intro c; rfl
  | cons x xs ih =>
    intro c
    simp only [deliverHeld, List.foldl_cons]
    have h2 := dataReceived_isSender E c x
    cases hd : dataReceived E c x with
    | mk c' e =>
      rw [hd] at h2
      cases e with
      | none => exact (ih c').trans h2
      | some err => exact (ih _).trans h2

theorem hstep_isSender (E : Env) (h : HConn) (op : HOp) : (hstep E h op).c.isSender = h.c.isSender := by
  cases op with
  | op o => exact step_isSender E h.c o
  | hold x => rfl
  | resume => exact deliverHeld_isSender E h.held _
  | attachReady ex s =>
    simp only [hstep]
    split
    · rfl
    · exact deliverHeld_isSender E h.held _

/-! ## the prefix invariant, link by link, in every process schedule -/

theorem prun_inv (Es : Nat → Env) (i : Nat) (b : Bool) (rs : List Bytes) (hcount : rs.length ≤ 256 ^ 24)
    (honly : OnlyHonest (Es i) (receiverRecordKey (Es i) b) rs) : ∀ (ops : List POp) (p : List HConn),
    (∀ h, p[i]? = some h → h.c.isSender = b → Inv rs h.c) →
    ∀ h, (prun Es p ops)[i]? = some h → h.c.isSender = b → Inv rs h.c := by
  intro ops
  induction ops with
  | nil => intro p hp; exact hp
  | cons op ops ih =>
    intro p hp
    apply ih (pstep Es p op)
    intro h hget hb
    cases op with
    | start b' left =>
      rcases Nat.lt_or_ge i p.length with hl | hl
      · rw [pstep_start_old Es p b' left i hl] at hget
        exact hp h hget hb
      · rcases Nat.eq_or_lt_of_le hl with he | hgt
        · rw [← he, pstep_start_new] at hget
          cases hget
          have hbb : b' = b := by
            have := dataReceived_isSender (Es p.length) (Conn.init b') left
            simp only at hb
            rw [this] at hb
            exact hb
          subst hbb
          rw [he]
          exact dataReceived_inv (Es i) rs b' hcount honly (Conn.init b') left rfl (init_inv rs b' [])
        · have : (pstep Es p (.start b' left)).length = p.length + 1 := by simp [pstep]
          rw [List.getElem?_eq_none (by omega)] at hget
          cases hget
    | on j o =>
      by_cases hji : j = i
      · subst hji
        rw [pstep_on_same] at hget
        cases hp0 : p[j]? with
        | none => rw [hp0] at hget; cases hget
        | some h0 =>
          rw [hp0] at hget
          cases hget
          have hb0 : h0.c.isSender = b := (hstep_isSender (Es j) h0 o).symm.trans hb
          exact (hstep_inv (Es j) rs b hcount honly h0 o hb0 (hp h0 hp0 hb0)).1
      · rw [pstep_on_other Es p j i o (fun e => hji e.symm)] at hget
        exact hp h hget hb

end WV.C06
