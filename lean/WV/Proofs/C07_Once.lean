import WV.Model.C07
import WV.Proofs.C07_Connect

/-! `_ThereCanBeOnlyOne` fires its summary Deferred at most once: `firedCount` (history variable,
incremented at every `callback`/`errback` of `_winner_d`) is 1 if `_fired` and 0 otherwise, in
every world reachable by any event sequence, through all re-entrant cancel cascades. -/
namespace WV.Proofs.C07
open WV WV.C07

def FOK (w : World) : Prop := w.firedCount = (if w.fired then 1 else 0)

theorem FOK.of_eq {w w' : World} (h : FOK w) (e1 : w'.fired = w.fired) (e2 : w'.firedCount = w.firedCount) :
    FOK w' := by
  unfold FOK at *; rw [e1, e2]; exact h

theorem foldl_FOK {α : Type} (f : World → α → World) (hf : ∀ w a, FOK w → FOK (f w a)) (l : List α)
    (w : World) (h : FOK w) : FOK (l.foldl f w) := by
  induction l generalizing w with
  | nil => exact h
  | cons a rest ih => exact ih _ (hf w a h)

theorem maybeDone_FOK (w : World) (h : FOK w) : FOK (maybeDone w) := by
  unfold maybeDone
  split
  · exact h
  · split
    · exact h
    · rename_i hf
      unfold FOK at *
      simp at hf
      simp [hf] at h
      simp [h]

theorem failCallbacks_FOK (w : World) (k : Nat) (e : Err) (h : FOK w) : FOK (failCallbacks w k e) := by
  unfold failCallbacks
  exact maybeDone_FOK _ (h.of_eq rfl rfl)

theorem fireFail_FOK (w : World) (k : Nat) (e : Err) (h : FOK w) : FOK (fireFail w k e) := by
  unfold fireFail
  simp only []
  repeat' split
  all_goals first
    | exact failCallbacks_FOK _ k e (h.of_eq rfl rfl)
    | exact h.of_eq rfl rfl

theorem cancelConnAt_FOK (w : World) (i : Nat) (h : FOK w) : FOK (cancelConnAt w i) := by
  unfold cancelConnAt
  repeat' split
  all_goals first
    | exact h
    | exact h.of_eq rfl rfl

theorem shutdown_FOK (w : World) (h : FOK w) : FOK (shutdown w) := by
  unfold shutdown
  exact (foldl_FOK cancelConnAt cancelConnAt_FOK _ w h).of_eq rfl rfl

theorem cancelContender_FOK (w : World) (k : Nat) (h : FOK w) : FOK (cancelContender w k) := by
  unfold cancelContender
  split
  · exact fireFail_FOK _ k _ (shutdown_FOK w h)
  · exact fireFail_FOK _ k _ h
  · exact fireFail_FOK _ k _ h
  · exact fireFail_FOK _ k _ (cancelConnAt_FOK w _ h)
  · exact h

theorem okCallbacks_FOK (w : World) (k i : Nat) (h : FOK w) : FOK (okCallbacks w k i) := by
  unfold okCallbacks
  exact maybeDone_FOK _ (foldl_FOK cancelContender cancelContender_FOK _ _ (h.of_eq rfl rfl))

theorem fireOk_FOK (w : World) (k i : Nat) (h : FOK w) : FOK (fireOk w k i) := by
  unfold fireOk
  simp only []
  repeat' split
  all_goals first
    | exact okCallbacks_FOK _ k i (h.of_eq rfl rfl)
    | exact h.of_eq rfl rfl

theorem negFired_FOK (w : World) (i : Nat) (r : Option Err) (h : FOK w) : FOK (negFired w i r) := by
  unfold negFired
  split
  · exact h
  · split
    · split
      · exact h.of_eq rfl rfl
      · simp only []
        have h1 : FOK (shutdown { w with fPending := w.fPending.erase i }) := shutdown_FOK _ (h.of_eq rfl rfl)
        split
        · split
          · exact fireOk_FOK _ _ _ h1
          · exact h1
        · exact h1
    · split
      · exact fireOk_FOK _ _ _ h
      · exact fireFail_FOK _ _ _ h

theorem applyCtx_FOK (w : World) (i : Nat) (x : Ctx) (h : FOK w) : FOK (applyCtx w i x) := by
  unfold applyCtx
  simp only []
  split
  · exact negFired_FOK _ _ _ (h.of_eq rfl rfl)
  · exact h.of_eq rfl rfl

theorem addConn_FOK (w : World) (rh : Option Bytes) (ow : Option Nat) (h : FOK w) : FOK (addConn w rh ow).1 := by
  unfold addConn
  simp only []
  cases ow <;> exact applyCtx_FOK _ _ _ (h.of_eq rfl rfl)

theorem attach_FOK (w : World) (k : Nat) (h : FOK w) : FOK (attach w k) := by
  unfold attach
  split
  · exact h
  · simp only []
    split
    · exact okCallbacks_FOK _ _ _ (h.of_eq rfl rfl)
    · exact failCallbacks_FOK _ _ _ (h.of_eq rfl rfl)
    · exact h.of_eq rfl rfl

theorem evConnect_FOK {w w' : World} (h : FOK w) (he : evConnect w = some w') : FOK w' := by
  rw [evConnect_eq] at he
  unfold evConnectHead at he
  split at he
  · cases he
  · simp only [] at he
    split at he
    · cases he; exact h.of_eq rfl rfl
    · split at he <;> cases he
      all_goals
        refine FOK.of_eq (w := List.foldl attach _ _) ?_ rfl rfl
        exact foldl_FOK attach attach_FOK _ _ (h.of_eq rfl rfl)

theorem fireDeadline_FOK (w : World) (h : FOK w) : FOK (fireDeadline w) := by
  unfold fireDeadline
  simp only []
  split
  · exact h.of_eq rfl rfl
  · have h1 : FOK (List.foldl cancelContender { w with deadline := none } w.remaining) :=
      foldl_FOK cancelContender cancelContender_FOK _ _ (h.of_eq rfl rfl)
    split
    · exact h1
    · rename_i hf
      unfold FOK at *
      simp at hf
      simp [hf] at h1
      simp [h1]

theorem fireTimer_FOK (w : World) (t : Timer × TimerId) (h : FOK w) : FOK (fireTimer w t) := by
  unfold fireTimer
  repeat' split
  all_goals first
    | exact h
    | exact fireDeadline_FOK w h
    | exact h.of_eq rfl rfl

theorem evInbound_FOK {w : World} {p : World × Option Err} (h : FOK w) (hE : evInbound w = some p) : FOK p.1 := by
  unfold evInbound at hE
  split at hE
  · split at hE
    · cases hE; exact addConn_FOK _ _ _ h
    · cases hE; exact h.of_eq rfl rfl
  · cases hE

theorem evConnected_FOK {w : World} {k : Nat} {p : World × Option Err} (h : FOK w)
    (hE : evConnected w k = some p) : FOK p.1 := by
  unfold evConnected at hE
  split at hE
  · split at hE
    · cases hE; exact addConn_FOK _ _ _ h
    · cases hE
  · cases hE

theorem evLost_FOK (w : World) (i : Nat) (h : FOK w) : FOK (evLost w i) := by
  unfold evLost
  split
  · exact h
  · simp only []
    split
    · exact negFired_FOK _ _ _ (h.of_eq rfl rfl)
    · exact h.of_eq rfl rfl

theorem step_FOK (w : World) (e : Event) (h : FOK w) : FOK (step w e) := by
  cases e with
  | inbound =>
    simp only [step]
    cases hE : evInbound w with
    | none => exact h
    | some p => exact evInbound_FOK h hE
  | connect =>
    simp only [step]
    split
    · cases hE : evConnect w with
      | none => exact h
      | some w' => exact evConnect_FOK h hE
    · exact h
  | connected k =>
    simp only [step]
    cases hE : evConnected w k with
    | none => exact h
    | some p => exact evConnected_FOK h hE
  | connFail k e =>
    simp only [step]
    cases hE : evConnFail w k e with
    | none => exact h
    | some w' =>
      unfold evConnFail at hE
      split at hE
      · cases hE; exact fireFail_FOK _ _ _ h
      · cases hE
  | data i d =>
    simp only [step, evData]
    split
    · exact h
    · exact applyCtx_FOK _ _ _ h
  | lost i => exact evLost_FOK w i h
  | advance dt =>
    simp only [step, evAdvance]
    exact foldl_FOK fireTimer fireTimer_FOK _ _ (h.of_eq rfl rfl)
  | setKey => exact h.of_eq rfl rfl

theorem run_FOK (w : World) (evs : List Event) (h : FOK w) : FOK (run w evs) := by
  induction evs generalizing w with
  | nil => exact h
  | cons e rest ih => exact ih _ (step_FOK w e h)

end WV.Proofs.C07
