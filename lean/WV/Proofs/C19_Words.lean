import WV.Proofs.C19_Str
import WV.Proofs.C19_TablesOdd
import WV.Proofs.C19_TablesEven
import WV.Proofs.C19_TablesSetOdd
import WV.Proofs.C19_TablesSetEven
namespace WV.Proofs.C19
open WV WV.C19 WV.Gen

theorem joinHy_snoc (ws : List Str) (q : Str) :
    joinHy (ws ++ [q]) = if ws = [] then q else joinHy ws ++ 45 :: q := by
  induction ws with
  | nil => simp [joinHy]
  | cons w ws ih =>
    cases ws with
    | nil => simp [joinHy]
    | cons v vs =>
      simp only [List.cons_append] at ih ⊢
      rw [joinHy_cons_cons, joinHy_cons_cons, ih]
      simp

theorem lastPart_noHy (p : Str) : 45 ∉ lastPart p :=
  splitHy_noHy p _ (List.getLast_mem _)

/-- what `prefix[:-lp]` is (`prefix` itself when `lp = 0`) -/
def stemOf (p : Str) : Str := p.take (p.length - (lastPart p).length)

theorem exists_stem (p : Str) : ∃ x, p = x ++ lastPart p ∧ (x = [] ∨ ∃ ws, ws ≠ [] ∧ x = joinHy ws ++ [45] ∧ splitHy p = ws ++ [lastPart p]) := by
  have h1 : splitHy p = (splitHy p).dropLast ++ [lastPart p] :=
    (List.dropLast_concat_getLast (splitHy_ne_nil p)).symm
  have h2 := joinHy_splitHy p
  rw [h1, joinHy_snoc] at h2
  by_cases h : (splitHy p).dropLast = []
  · rw [if_pos h] at h2
    exact ⟨[], by simpa using h2.symm, Or.inl rfl⟩
  · rw [if_neg h] at h2
    exact ⟨joinHy (splitHy p).dropLast ++ [45], by simpa using h2.symm, Or.inr ⟨_, h, rfl, h1⟩⟩

theorem stem_append_last (p : Str) : stemOf p ++ lastPart p = p := by
  obtain ⟨x, hx, _⟩ := exists_stem p
  have : stemOf p = x := by
    have e : (lastPart p).length ≤ p.length := by
      have := congrArg List.length hx; simp at this; omega
    have e2 : p.length - (lastPart p).length = x.length := by
      have := congrArg List.length hx; simp at this; omega
    unfold stemOf
    rw [e2]
    conv => lhs; rw [hx]
    simp
  rw [this, ← hx]

theorem stem_unique {p x : Str} (h : p = x ++ lastPart p) : stemOf p = x := by
  have := stem_append_last p
  have e : stemOf p ++ lastPart p = x ++ lastPart p := this.trans h
  exact List.append_cancel_right e

theorem count_stem (p : Str) : (stemOf p).count 45 = p.count 45 := by
  have h := congrArg (List.count 45) (stem_append_last p)
  rw [List.count_append, List.count_eq_zero_of_not_mem (lastPart_noHy p)] at h
  simpa using h

/-! ### choose_words -/

theorem wordAt_mem {i b : Nat} {w : Str} (h : wordAt i b = some w) :
    (i % 2 = 0 ∧ w ∈ Words.oddCP) ∨ (i % 2 = 1 ∧ w ∈ Words.evenCP) := by
  unfold wordAt at h
  split at h
  · next hi => exact Or.inl ⟨hi, List.mem_of_getElem? h⟩
  · next hi => exact Or.inr ⟨by omega, List.mem_of_getElem? h⟩

theorem wordAt_clean {i b : Nat} {w : Str} (h : wordAt i b = some w) : w ≠ [] ∧ 45 ∉ w ∧ 32 ∉ w := by
  rcases wordAt_mem h with ⟨_, hm⟩ | ⟨_, hm⟩
  · exact odd_clean w hm
  · exact even_clean w hm

theorem wordAt_isSome (i : Nat) {b : Nat} (hb : b < 256) : ∃ w, wordAt i b = some w := by
  unfold wordAt
  split
  · exact ⟨Words.oddCP[b]'(by rw [odd_len]; exact hb), by simp [odd_len, hb]⟩
  · exact ⟨Words.evenCP[b]'(by rw [even_len]; exact hb), by simp [even_len, hb]⟩

theorem wordAt_lt {i b : Nat} {w : Str} (h : wordAt i b = some w) : b < 256 := by
  unfold wordAt at h
  split at h
  · have := (List.getElem?_eq_some_iff.mp h).1; rwa [odd_len] at this
  · have := (List.getElem?_eq_some_iff.mp h).1; rwa [even_len] at this

theorem nodup_getElem?_inj {l : List Str} (hn : l.Nodup) {a b : Nat} {w : Str}
    (ha : l[a]? = some w) (hb : l[b]? = some w) : a = b := by
  obtain ⟨ha1, _⟩ := List.getElem?_eq_some_iff.mp ha
  exact (List.getElem?_inj ha1 hn).mp (ha.trans hb.symm)

/-- byte ↦ word is injective at every position -/
theorem wordAt_inj {i b b' : Nat} {w : Str} (h : wordAt i b = some w) (h' : wordAt i b' = some w) : b = b' := by
  unfold wordAt at h h'
  split at h
  · next hi => rw [if_pos hi] at h'; exact nodup_getElem?_inj odd_nodup h h'
  · next hi => rw [if_neg hi] at h'; exact nodup_getElem?_inj even_nodup h h'

theorem chooseListFrom_cons {i b : Nat} {bs : List Nat} {ws : List Str} (h : chooseListFrom i (b :: bs) = some ws) :
    ∃ w r, wordAt i b = some w ∧ chooseListFrom (i + 1) bs = some r ∧ ws = w :: r := by
  rw [chooseListFrom] at h
  split at h
  · next w r hw hr => exact ⟨w, r, hw, hr, by simpa using h.symm⟩
  · simp at h

theorem chooseListFrom_isSome : ∀ (i : Nat) (rs : List Nat), (∀ b ∈ rs, b < 256) → ∃ ws, chooseListFrom i rs = some ws
  | _, [], _ => ⟨[], rfl⟩
  | i, b :: bs, h => by
    obtain ⟨w, hw⟩ := wordAt_isSome i (h b (by simp))
    obtain ⟨r, hr⟩ := chooseListFrom_isSome (i + 1) bs (fun x hx => h x (by simp [hx]))
    exact ⟨w :: r, by rw [chooseListFrom, hw, hr]⟩

theorem chooseListFrom_lt : ∀ (i : Nat) (rs : List Nat) (ws : List Str), chooseListFrom i rs = some ws → ∀ b ∈ rs, b < 256
  | _, [], _, _ => by simp
  | i, b :: bs, ws, h => by
    obtain ⟨w, r, hw, hr, rfl⟩ := chooseListFrom_cons h
    intro x hx
    simp at hx
    rcases hx with rfl | hx
    · exact wordAt_lt hw
    · exact chooseListFrom_lt (i + 1) bs r hr x hx

/-- exactly one word per random byte, word `k` taken from the list of parity `i + k` at index `rs[k]` -/
theorem chooseListFrom_spec : ∀ (i : Nat) (rs : List Nat) (ws : List Str), chooseListFrom i rs = some ws →
    ws.length = rs.length ∧ ∀ k (hk : k < rs.length), wordAt (i + k) rs[k] = ws[k]?
  | _, [], ws, h => by
    simp [chooseListFrom] at h
    subst h
    simp
  | i, b :: bs, ws, h => by
    obtain ⟨w, r, hw, hr, rfl⟩ := chooseListFrom_cons h
    obtain ⟨h1, h2⟩ := chooseListFrom_spec (i + 1) bs r hr
    refine ⟨by simp [h1], ?_⟩
    intro k hk
    cases k with
    | zero => simpa using hw
    | succ k =>
      have := h2 k (by simpa using hk)
      simp only [List.getElem_cons_succ, List.getElem?_cons_succ]
      rw [← this]
      congr 1
      omega

theorem chooseListFrom_clean : ∀ (i : Nat) (rs : List Nat) (ws : List Str), chooseListFrom i rs = some ws →
    ∀ w ∈ ws, w ≠ [] ∧ 45 ∉ w ∧ 32 ∉ w
  | _, [], ws, h => by simp [chooseListFrom] at h; subst h; simp
  | i, b :: bs, ws, h => by
    obtain ⟨w, r, hw, hr, rfl⟩ := chooseListFrom_cons h
    intro x hx
    simp at hx
    rcases hx with rfl | hx
    · exact wordAt_clean hw
    · exact chooseListFrom_clean (i + 1) bs r hr x hx

theorem chooseListFrom_snoc : ∀ (i : Nat) (rs : List Nat) (ws : List Str) (b : Nat) (w : Str),
    chooseListFrom i rs = some ws → wordAt (i + rs.length) b = some w →
    chooseListFrom i (rs ++ [b]) = some (ws ++ [w])
  | i, [], ws, b, w, h, hw => by
    simp [chooseListFrom] at h
    subst h
    simp at hw
    simp [chooseListFrom, hw]
  | i, c :: cs, ws, b, w, h, hw => by
    obtain ⟨v, r, hv, hr, rfl⟩ := chooseListFrom_cons h
    have := chooseListFrom_snoc (i + 1) cs r b w hr (by rw [← hw]; congr 1; simp; omega)
    simp only [List.cons_append]
    rw [chooseListFrom, hv, this]

theorem chooseListFrom_inj : ∀ (i : Nat) (rs rs' : List Nat) (ws : List Str),
    chooseListFrom i rs = some ws → chooseListFrom i rs' = some ws → rs = rs'
  | _, [], [], _, _, _ => rfl
  | i, [], b :: bs, ws, h, h' => by
    simp [chooseListFrom] at h
    obtain ⟨w, r, _, _, rfl⟩ := chooseListFrom_cons h'
    simp at h
  | i, b :: bs, [], ws, h, h' => by
    simp [chooseListFrom] at h'
    obtain ⟨w, r, _, _, rfl⟩ := chooseListFrom_cons h
    simp at h'
  | i, b :: bs, b' :: bs', ws, h, h' => by
    obtain ⟨w, r, hw, hr, rfl⟩ := chooseListFrom_cons h
    obtain ⟨w', r', hw', hr', e⟩ := chooseListFrom_cons h'
    simp at e
    obtain ⟨rfl, rfl⟩ := e
    rw [wordAt_inj hw hw', chooseListFrom_inj (i + 1) bs bs' r hr hr']

/-- words are non-empty and hyphen-free, so the joined string determines the word list -/
theorem joinHy_inj_clean {ws ws' : List Str} (h : ∀ w ∈ ws, w ≠ [] ∧ 45 ∉ w) (h' : ∀ w ∈ ws', w ≠ [] ∧ 45 ∉ w)
    (e : joinHy ws = joinHy ws') : ws = ws' := by
  by_cases hn : ws = []
  · subst hn
    cases ws' with
    | nil => rfl
    | cons v vs =>
      exfalso
      have hv := (h' v (by simp)).1
      cases vs with
      | nil => simp [joinHy] at e; exact hv e
      | cons u us => rw [joinHy_cons_cons] at e; simp [joinHy] at e
  · by_cases hn' : ws' = []
    · subst hn'
      exfalso
      cases ws with
      | nil => exact hn rfl
      | cons v vs =>
        have hv := (h v (by simp)).1
        cases vs with
        | nil => simp [joinHy] at e; exact hv e
        | cons u us => rw [joinHy_cons_cons] at e; simp [joinHy] at e
    · have a := splitHy_joinHy ws hn (fun w hw => (h w hw).2)
      have b := splitHy_joinHy ws' hn' (fun w hw => (h' w hw).2)
      rw [← a, ← b, e]

end WV.Proofs.C19
