import WV.Proofs.C17_Run
import WV.Proofs.C17_Mono

/-!
C17 helper lemmas, part 10: an incapable peer.  Once `Manager.fail(OldPeerCannotDilateError)` has
set `_main_channel` to the Failure, nothing ever replaces it (`fire` asserts NoResult), whatever
happens next.
-/
namespace WV.Proofs.C17
open WV WV.Gen WV.C17

/-- the Failure in `_main_channel` survives every later event -/
theorem failed_sticky (es : List Ev) (w : World) (h : w.main = .failed) : (run w es).main = .failed := by
  induction es generalizing w with
  | nil => exact h
  | cons e es ih => exact ih _ ((mm_step w e).1 h)

/-- `Manager.got_wormhole_versions` with nothing in common: the Failure is stored and every
    waiting connect() gets it -/
theorem incapable_fails (v : Vers) (w : World) (dv : Option String) (hs : sharedVersion v = .ok dv)
    (hv : falsy dv = true) :
    (mgrGotVersions v w).1.main = .failed ∧ (mgrGotVersions v w).1.mainObs = [] ∧
    ∀ id ∈ w.mainObs, Thunk.waiter id false ∈ (mgrGotVersions v w).1.queue := by
  unfold mgrGotVersions
  rw [hs]
  simp only [mgrGotVersionsWith, hv, ↓reduceIte]
  -- `self.start()` afterwards: the Automat input does not touch `_main_channel` and only adds to the queue
  have hstart : ∀ u : World, (mInput .start "" 0 u).1.main = u.main ∧ (mInput .start "" 0 u).1.mainObs = u.mainObs ∧
      ∀ t ∈ u.queue, t ∈ (mInput .start "" 0 u).1.queue := by
    intro u
    unfold mInput
    cases hms : u.ms <;> simp [Manager.table, mOuts, mOut, andThen, sendGen, emit]
  obtain ⟨a, b, c⟩ := hstart (mainError { w with dver := dv })
  refine ⟨a.trans rfl, b.trans rfl, ?_⟩
  intro id hid
  apply c
  simp only [mainError]
  apply List.mem_append.mpr
  right
  exact List.mem_map.mpr ⟨id, hid, rfl⟩

end WV.Proofs.C17
