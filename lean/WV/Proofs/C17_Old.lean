import WV.Proofs.C17_Run

/-!
C17 helper lemmas, part 10: an incapable peer.  Once `Manager.fail(OldPeerCannotDilateError)` has
set `_main_channel` to the Failure, nothing ever replaces it (`fire` asserts NoResult), whatever
happens next.
-/
namespace WV.Proofs.C17
open WV WV.Gen WV.C17

/-- `_main_channel` holds the Failure for good -/
def MainMono (w w' : World) : Prop := w.main = .failed → w'.main = .failed

theorem MainMono.refl (w : World) : MainMono w w := fun h => h
theorem MainMono.trans {a b c : World} (h1 : MainMono a b) (h2 : MainMono b c) : MainMono a c := fun h => h2 (h1 h)

theorem mm_andThen {w : World} {r : Res} {f : World → Res} (h1 : MainMono w r.1) (h2 : ∀ v, MainMono v (f v).1) :
    MainMono w (andThen r f).1 := by
  obtain ⟨v, e⟩ := r
  cases e
  · exact h1.trans (h2 v)
  · exact h1

theorem mm_tOuts (k : Terminator.Output → World → Res) (hk : ∀ o v, MainMono v (k o v).1)
    (os : List Terminator.Output) (v : World) : MainMono v (tOuts k os v).1 := by
  induction os generalizing v with
  | nil => exact MainMono.refl _
  | cons o os ih => exact mm_andThen (hk o v) (fun u => ih u)

theorem mm_tInput (fuel : Nat) : ∀ (i : Terminator.Input) (v : World), MainMono v (tInput fuel i v).1 := by
  induction fuel with
  | zero => intro i v; exact MainMono.refl _
  | succ f ih =>
    intro i v
    simp only [tInput]
    split
    · exact MainMono.refl _
    · refine MainMono.trans ?_ (mm_tOuts _ ?hk _ _)
      case hk =>
        intro o u
        cases o
        · exact fun h => h
        · exact fun h => h
        · exact fun h => h
        · exact fun h => h
        · exact fun h => h
        · show MainMono u (if u.hasMgr = true then andThen (mInput .k_stop "" 0 u) (fun w1 => (whenStopped w1, none))
                  else tInput f .stoppedD u).1
          split
          · refine mm_andThen (keep_mInput _ _ _ _).mainMono ?_
            intro x
            unfold whenStopped
            split <;> exact fun h => h
          · exact ih _ _
      exact fun h => h

theorem mm_runThunk (t : Thunk) (v : World) : MainMono v (runThunk t v) := by
  cases t with
  | accept g c => exact (keep_logged (keep_cInput connectionMade keep_connectionMade g .accept c v)).mainMono
  | discard c => exact fun h => h
  | mgrLost => exact (keep_connectionLost v).mainMono
  | stoppedD => exact mm_tInput _ _ _
  | waiter i ok =>
    obtain ⟨ws, rg, e⟩ := resolveWaiter_same i ok v
    show MainMono v (resolveWaiter i ok v)
    rw [e]; exact fun h => h

theorem mm_runThunks (l : List Thunk) (v : World) : MainMono v (runThunks l v) := by
  induction l generalizing v with
  | nil => exact MainMono.refl _
  | cons t rest ih => exact (mm_runThunk t v).trans (ih _)

theorem mm_drainMsgs (l : List Msg) : ∀ x : World, MainMono x (drainMsgs l x).1 := by
  induction l with
  | nil => intro x; exact fun h => h
  | cons m rest ih =>
    intro x
    simp only [drainMsgs]
    refine mm_andThen (MainMono.trans ?_ (keep_receivedMsg m _).mainMono) (fun u => ih u)
    exact fun h => h

theorem mm_replayVersions (u : World) : MainMono u (replayVersions u).1 := by
  unfold replayVersions
  split
  · exact (keep_mgrGotVersions _ _).mainMono
  · exact fun h => h

theorem mm_connectAs (nm : Option String) (v : World) : MainMono v (connectAs nm v) := by
  obtain ⟨ws, wn, q, mo, e, _⟩ := connectAs_same nm v
  rw [e]; exact fun h => h

theorem mm_step (v : World) (e : Ev) : MainMono v (step v e).1 := by
  have ofres : ∀ r : Res, (ofRes r).1 = r.1 := by
    intro r; obtain ⟨a, b⟩ := r; cases b <;> rfl
  cases e with
  | dilate =>
    simp only [step, ofres, dilate]
    split
    · exact fun h => h
    · split
      · exact fun h => h
      · refine mm_andThen (MainMono.trans ?_ (mm_replayVersions _)) (fun u => mm_drainMsgs _ u)
        unfold replayKey; split <;> exact fun h => h
  | key => simp only [step, gotKey]; split <;> exact fun h => h
  | versions vv =>
    simp only [step, ofres, gotVersions]
    split
    · exact (keep_mgrGotVersions vv v).mainMono
    · exact fun h => h
  | msg m =>
    simp only [step, ofres, receivedDilate]
    split
    · exact (keep_receivedMsg m v).mainMono
    · exact fun h => h
  | connect =>
    simp only [step]
    split
    · exact mm_connectAs none v
    · exact fun h => h
  | ep l name => simp only [step]; split <;> exact fun h => h
  | econnect k =>
    simp only [step]
    split
    · exact fun h => h
    · split
      · exact fun h => h
      · exact mm_connectAs none v
  | elisten k =>
    simp only [step]
    split
    · exact fun h => h
    · split
      · exact mm_connectAs _ v
      · exact fun h => h
  | term i => simp only [step, ofres]; exact mm_tInput _ _ _
  | turn =>
    simp only [step, turn]
    intro h
    exact mm_runThunks _ _ h
  | lready k =>
    simp only [step]
    split
    · exact fun h => h
    · split
      · exact fun h => h
      · intro h
        exact (keep_logged (keep_cInput noMade keep_noMade _ _ _ _)).mainMono h
  | inbound k => simp only [step]; split <;> (try split) <;> exact fun h => h
  | dial j => simp only [step]; split <;> (try split) <;> exact fun h => h
  | dialok j => simp only [step]; split <;> (try split) <;> exact fun h => h
  | dialfail j => simp only [step]; split <;> (try split) <;> exact fun h => h
  | kcm c =>
    simp only [step]
    split
    · exact fun h => h
    · split
      · exact fun h => h
      · split
        · exact fun h => h
        · split
          · exact fun h => h
          · split
            · rw [ofres]
              intro h
              exact (keep_cInput connectionMade keep_connectionMade _ _ _ _).mainMono h
            · exact fun h => h
  | lost c => simp only [step]; split <;> (try split) <;> exact fun h => h

/-- the Failure in `_main_channel` survives every later event -/
theorem failed_sticky (es : List Ev) (w : World) (h : w.main = .failed) : (run w es).main = .failed := by
  induction es generalizing w with
  | nil => exact h
  | cons e es ih => exact ih _ (mm_step w e h)

/-- `Manager.got_wormhole_versions` with nothing in common: the Failure is stored and every
    waiting connect() gets it -/
theorem incapable_fails (v : Vers) (w : World) (hv : falsy (findShared Consts.DILATION_VERSIONS v.can) = true) :
    (mgrGotVersions v w).1.main = .failed ∧ (mgrGotVersions v w).1.mainObs = [] ∧
    ∀ id ∈ w.mainObs, Thunk.waiter id false ∈ (mgrGotVersions v w).1.queue := by
  unfold mgrGotVersions
  simp only [hv, ↓reduceIte]
  -- `self.start()` afterwards: the Automat input does not touch `_main_channel` and only adds to the queue
  have hstart : ∀ u : World, (mInput .start "" 0 u).1.main = u.main ∧ (mInput .start "" 0 u).1.mainObs = u.mainObs ∧
      ∀ t ∈ u.queue, t ∈ (mInput .start "" 0 u).1.queue := by
    intro u
    unfold mInput
    cases hms : u.ms <;> simp [Manager.table, mOuts, mOut, andThen, sendGen, emit]
  obtain ⟨a, b, c⟩ := hstart (mainError { w with dver := findShared Consts.DILATION_VERSIONS v.can })
  refine ⟨a.trans rfl, b.trans rfl, ?_⟩
  intro id hid
  apply c
  simp only [mainError]
  apply List.mem_append.mpr
  right
  exact List.mem_map.mpr ⟨id, hid, rfl⟩

end WV.Proofs.C17
