import WV.Proofs.C07_Inv
import WV.Proofs.C07_Deadline
import WV.Proofs.C07_Port
import WV.Proofs.C07_Connect

/-! "Cancels the rest": every connection whose negotiation is pending is tracked by the
supervisor (by `InboundConnectionFactory._pending_connections` or by the outbound contender chained
to it); a contender leaves `_ThereCanBeOnlyOne._remaining` only when it has fired; so when
`connect()` has succeeded nothing is pending any more. -/
namespace WV.Proofs.C07
open WV WV.C07

structure TR (w : World) : Prop where
  t0 : w.started = false → ∀ k, attC w.cont k ≠ some true
  t3 : w.started = true → ∀ k, k < w.cont.length →
        k ∈ w.remaining ∨ (attC w.cont k = some true ∧ ∃ p, phC w.cont k = some p ∧ isDone p = true)
  t4 : w.fPending = [] ∨ phC w.cont 0 = some .listening
  t5a : ∀ i c, w.conns i = some c → c.negD = .pending → c.owner = none → i ∈ w.fPending
  t5b : ∀ i c k, w.conns i = some c → c.negD = .pending → c.owner = some k →
        phC w.cont k = some (.negotiating i)
  t5d : ∀ i c k, w.conns i = some c → c.owner = some k →
        phC w.cont k = some (.negotiating i) ∨ ∃ p, phC w.cont k = some p ∧ isDone p = true
  t6 : ∀ i, w.result = .ok i → w.remaining = [] ∧ w.started = true
  /-- once `connect()` has fired — with a connection or with a failure — `_listener_d` has fired too -/
  t8 : w.result ≠ .pending → phC w.cont 0 ≠ some .listening
  t9 : w.started = false → w.result = .pending
  /-- once `connect()` has fired, every contender has fired or was never started: nothing that
      `_connect` started outlives `connect()` -/
  t11 : w.result ≠ .pending → ∀ k q, phC w.cont k = some q → isDone q = true ∨ q = .idle

theorem T11_setDone {w : World} (k : Nat) (r : Option Err) (x : Nat)
    (h : w.result ≠ .pending → ∀ k q, phC w.cont k = some q → isDone q = true ∨ q = .idle) :
    w.result ≠ .pending → ∀ k' q, phC (setPhase w.cont k (.done r x)) k' = some q → isDone q = true ∨ q = .idle := by
  intro hr k' q hq
  simp only [phC_setPhase] at hq
  by_cases hkk : k = k'
  · subst hkk
    simp only [if_true] at hq
    cases hc : w.cont[k]? with
    | none => rw [hc] at hq; cases hq
    | some c => rw [hc] at hq; simp at hq; subst hq; exact Or.inl rfl
  · simp only [hkk, if_false] at hq; exact h hr k' q hq

theorem T11_setInactive {w : World} {k : Nat} {q0 : Phase} (p : Phase)
    (h : w.result ≠ .pending → ∀ k q, phC w.cont k = some q → isDone q = true ∨ q = .idle)
    (hq : phC w.cont k = some q0) (hq2 : isDone q0 = false) (hq4 : q0 ≠ .idle) :
    w.result ≠ .pending → ∀ k' q, phC (setPhase w.cont k p) k' = some q → isDone q = true ∨ q = .idle := by
  intro hr k' q hq'
  exfalso
  rcases h hr k q0 hq with h1 | h1
  · rw [hq2] at h1; cases h1
  · exact hq4 h1

theorem maybeDone_TR {w : World} (h : TR w) (hs : w.started = true) : TR (maybeDone w) := by
  unfold maybeDone
  split
  · exact h
  · rename_i hrem
    split
    · exact h
    · have hrem' : w.remaining = [] := by simpa using hrem
      refine ⟨h.t0, h.t3, h.t4, h.t5a, h.t5b, h.t5d, ?_, ?_, (fun hs' => by rw [hs] at hs'; cases hs'), ?_⟩
      rotate_right
      · intro _ k q hq
        have hk : k < w.cont.length := by
          unfold phC at hq
          cases hck : w.cont[k]? with
          | none => rw [hck] at hq; cases hq
          | some _ => exact (List.getElem?_eq_some_iff.mp hck).1
        rcases h.t3 hs k hk with h' | ⟨_, p, h2, h3⟩
        · rw [hrem'] at h'; cases h'
        · rw [hq] at h2; cases h2; exact Or.inl h3
      · intro i _
        exact ⟨hrem', hs⟩
      · intro _ hl
        have hk : 0 < w.cont.length := by
          unfold phC at hl
          cases hck : w.cont[0]? with
          | none => rw [hck] at hl; cases hl
          | some _ => exact (List.getElem?_eq_some_iff.mp hck).1
        rcases h.t3 hs 0 hk with h' | ⟨_, p, h2, h3⟩
        · rw [hrem'] at h'; cases h'
        · rw [hl] at h2; cases h2; simp [isDone] at h3

theorem failCallbacks_TR {w : World} {k : Nat} (e : Err) (h : TR w) (hs : w.started = true)
    (hk : attC w.cont k = some true ∧ ∃ p, phC w.cont k = some p ∧ isDone p = true) :
    TR (failCallbacks w k e) := by
  unfold failCallbacks
  refine maybeDone_TR ?_ ?_
  rotate_left
  · exact hs
  refine ⟨h.t0, ?_, h.t4, h.t5a, h.t5b, h.t5d, ?_, h.t8, h.t9, h.t11⟩
  · intro _ j hj
    by_cases hjk : j = k
    · subst hjk; exact Or.inr hk
    · rcases h.t3 hs j hj with h' | h'
      · exact Or.inl ((List.mem_erase_of_ne hjk).mpr h')
      · exact Or.inr h'
  · intro i hi
    obtain ⟨h1, h2⟩ := h.t6 i hi
    exact ⟨by simp [h1], h2⟩

/-- what must hold before contender `k`'s Deferred may fire: nothing still depends on it -/
structure CanFire (w : World) (k : Nat) : Prop where
  noPend : ∀ i c, w.conns i = some c → c.owner = some k → c.negD ≠ .pending
  noList : phC w.cont k = some .listening → w.fPending = []

theorem setDone_TR {w : World} {k : Nat} (r : Option Err) (x : Nat) (po : Bool) (h : TR w) (hc : CanFire w k) :
    TR { w with cont := setPhase w.cont k (.done r x), portOpen := po } := by
  refine ⟨?_, ?_, ?_, h.t5a, ?_, ?_, h.t6, ?_, h.t9, T11_setDone k r x h.t11⟩
  rotate_right
  · intro hr
    simp only [phC_setPhase]
    by_cases hk0 : k = 0
    · subst hk0; simp only [if_true]; cases w.cont[0]? <;> simp
    · simp only [hk0, if_false]; exact h.t8 hr
  · intro hs j; simp only [attC_setPhase]; exact h.t0 hs j
  · intro hs j hj
    simp only [length_setPhase] at hj
    rcases h.t3 hs j hj with h' | ⟨h1, p, h2, h3⟩
    · exact Or.inl h'
    · refine Or.inr ⟨by simpa only [attC_setPhase] using h1, ?_⟩
      simp only [phC_setPhase]
      by_cases hkj : k = j
      · subst hkj
        simp only [if_true]
        unfold phC at h2
        cases hcj : w.cont[k]? with
        | none => rw [hcj] at h2; cases h2
        | some c => exact ⟨_, rfl, rfl⟩
      · simp only [hkj, if_false]; exact ⟨p, h2, h3⟩
  · rcases h.t4 with h' | h'
    · exact Or.inl h'
    · by_cases hk0 : k = 0
      · subst hk0; exact Or.inl (hc.noList h')
      · refine Or.inr ?_
        simp only [phC_setPhase, hk0, if_false]; exact h'
  · intro i c k' hi hp ho
    simp only [phC_setPhase]
    by_cases hkk : k = k'
    · subst hkk; exact absurd hp (hc.noPend i c hi ho)
    · simp only [hkk, if_false]; exact h.t5b i c k' hi hp ho
  · intro i c k' hi ho
    simp only [phC_setPhase]
    by_cases hkk : k = k'
    · subst hkk
      simp only [if_true]
      rcases h.t5d i c k hi ho with h' | ⟨p, h', _⟩
      all_goals
        unfold phC at h'
        cases hcj : w.cont[k]? with
        | none => rw [hcj] at h'; cases h'
        | some c' => exact Or.inr ⟨_, rfl, rfl⟩
    · simp only [hkk, if_false]; exact h.t5d i c k' hi ho

theorem fireFail_TR {w : World} {k : Nat} (e : Err) (h : TR w) (hc : CanFire w k) : TR (fireFail w k e) := by
  unfold fireFail
  simp only []
  have h1 := setDone_TR (some e) 0 (w.portOpen && !(isListener w.cont k && Gen.Transit.listener_stop_on_errback)) h hc
  cases hk : w.cont[k]? with
  | none => simpa using h1
  | some c =>
    simp only []
    by_cases ha : c.attached = true
    case neg => simpa [ha] using h1
    case pos =>
      simp only [ha, if_true]
      have hatt : attC w.cont k = some true := by unfold attC; rw [hk]; simp [ha]
      have hs : w.started = true := by
        cases hst : w.started with
        | true => rfl
        | false => exact absurd hatt (h.t0 hst k)
      apply failCallbacks_TR e h1 hs
      refine ⟨by simpa only [attC_setPhase] using hatt, ?_⟩
      simp only [phC_setPhase, if_true, hk]
      exact ⟨_, rfl, rfl⟩


/-! ### connection updates that can only make a pending negotiation non-pending -/

structure ConnShrink (w w' : World) : Prop where
  cont : w'.cont = w.cont
  fPending : w'.fPending = w.fPending
  remaining : w'.remaining = w.remaining
  started : w'.started = w.started
  result : w'.result = w.result
  conns : ∀ i c', w'.conns i = some c' →
    ∃ c, w.conns i = some c ∧ c'.owner = c.owner ∧ (c'.negD = .pending → c.negD = .pending)

theorem ConnShrink.refl (w : World) : ConnShrink w w :=
  ⟨rfl, rfl, rfl, rfl, rfl, fun _ c' h => ⟨c', h, rfl, id⟩⟩

theorem ConnShrink.trans {a b c : World} (h1 : ConnShrink a b) (h2 : ConnShrink b c) : ConnShrink a c :=
  ⟨h2.cont.trans h1.cont, h2.fPending.trans h1.fPending, h2.remaining.trans h1.remaining,
   h2.started.trans h1.started, h2.result.trans h1.result, fun i c' h => by
    obtain ⟨cb, hb, o1, p1⟩ := h2.conns i c' h
    obtain ⟨ca, ha, o2, p2⟩ := h1.conns i cb hb
    exact ⟨ca, ha, o1.trans o2, fun hp => p2 (p1 hp)⟩⟩

theorem ConnShrink.notPend {w w' : World} (h : ConnShrink w w') {i : Nat} (hn : ¬ pend w i) : ¬ pend w' i := by
  intro ⟨c', hc', hp⟩
  obtain ⟨c, hc, _, hp'⟩ := h.conns i c' hc'
  exact hn ⟨c, hc, hp' hp⟩

theorem TR_shrink {w w' : World} (h : TR w) (s : ConnShrink w w') : TR w' := by
  refine ⟨?_, ?_, ?_, ?_, ?_, ?_, ?_, by rw [s.result, s.cont]; exact h.t8,
    by rw [s.started, s.result]; exact h.t9, by rw [s.result, s.cont]; exact h.t11⟩
  · rw [s.started, s.cont]; exact h.t0
  · rw [s.started, s.cont, s.remaining]; exact h.t3
  · rw [s.fPending, s.cont]; exact h.t4
  · intro i c' hc' hp ho
    obtain ⟨c, hc, o, p⟩ := s.conns i c' hc'
    rw [s.fPending]; exact h.t5a i c hc (p hp) (o ▸ ho)
  · intro i c' k hc' hp ho
    obtain ⟨c, hc, o, p⟩ := s.conns i c' hc'
    rw [s.cont]; exact h.t5b i c k hc (p hp) (o ▸ ho)
  · intro i c' k hc' ho
    obtain ⟨c, hc, o, _⟩ := s.conns i c' hc'
    rw [s.cont]; exact h.t5d i c k hc (o ▸ ho)
  · rw [s.result, s.remaining, s.started]; exact h.t6

theorem CanFire_shrink {w w' : World} {k : Nat} (h : CanFire w k) (s : ConnShrink w w') : CanFire w' k :=
  ⟨fun i c' hc' ho hp => by
      obtain ⟨c, hc, o, p⟩ := s.conns i c' hc'
      exact h.noPend i c hc (o ▸ ho) (p hp),
   by rw [s.cont, s.fPending]; exact h.noList⟩

theorem cancelConnAt_shrink (w : World) (i : Nat) :
    ConnShrink w (cancelConnAt w i) ∧ ¬ pend (cancelConnAt w i) i := by
  unfold cancelConnAt
  split
  · rename_i c hc
    split
    · rename_i hp
      refine ⟨⟨rfl, rfl, rfl, rfl, rfl, ?_⟩, ?_⟩
      · intro j c' hj
        simp only [World.setConn] at hj
        by_cases hji : j = i
        · subst hji; simp at hj; subst hj
          exact ⟨c, hc, rfl, by simp [cancelConn]⟩
        · simp [hji] at hj; exact ⟨c', hj, rfl, id⟩
      · intro ⟨c', hc', hp'⟩
        simp [World.setConn] at hc'
        subst hc'
        simp [cancelConn] at hp'
    · rename_i hp
      exact ⟨ConnShrink.refl w, fun ⟨c', hc', hp'⟩ => by rw [hc] at hc'; cases hc'; exact hp hp'⟩
  · rename_i hc
    exact ⟨ConnShrink.refl w, fun ⟨c', hc', _⟩ => by rw [hc] at hc'; cases hc'⟩

theorem foldl_cancel (l : List Nat) : ∀ (w : World),
    ConnShrink w (l.foldl cancelConnAt w) ∧ ∀ i, i ∈ l → ¬ pend (l.foldl cancelConnAt w) i := by
  induction l with
  | nil => intro w; exact ⟨ConnShrink.refl w, fun _ h => by cases h⟩
  | cons a rest ih =>
    intro w
    simp only [List.foldl_cons]
    obtain ⟨s1, n1⟩ := cancelConnAt_shrink w a
    obtain ⟨s2, n2⟩ := ih (cancelConnAt w a)
    refine ⟨s1.trans s2, ?_⟩
    intro i hi
    rcases List.mem_cons.mp hi with h | h
    · subst h; exact s2.notPend n1
    · exact n2 i h

theorem shutdown_TR {w : World} (h : TR w) :
    TR (shutdown w) ∧ (shutdown w).fPending = [] ∧ (shutdown w).cont = w.cont ∧
    (shutdown w).started = w.started ∧
    (∀ i c', (shutdown w).conns i = some c' →
      ∃ c, w.conns i = some c ∧ c'.owner = c.owner ∧ (c'.negD = .pending → c.negD = .pending)) := by
  unfold shutdown
  obtain ⟨s, n⟩ := foldl_cancel w.fPending w
  have h1 := TR_shrink h s
  refine ⟨?_, rfl, s.cont, s.started, s.conns⟩
  refine ⟨h1.t0, h1.t3, Or.inl rfl, ?_, h1.t5b, h1.t5d, h1.t6, h1.t8, h1.t9, h1.t11⟩
  intro i c hc hp ho
  exfalso
  have := h1.t5a i c hc hp ho
  rw [s.fPending] at this
  exact n i this ⟨c, hc, hp⟩

theorem foldl_TR {α : Type} (f : World → α → World)
    (hf : ∀ w a, TR w → w.started = true → TR (f w a) ∧ (f w a).started = true) (l : List α)
    (w : World) (h : TR w) (hs : w.started = true) : TR (l.foldl f w) ∧ (l.foldl f w).started = true := by
  induction l generalizing w with
  | nil => exact ⟨h, hs⟩
  | cons a rest ih => exact ih _ (hf w a h hs).1 (hf w a h hs).2

theorem cancelContender_TR {w : World} (k : Nat) (h : TR w) : TR (cancelContender w k) := by
  unfold cancelContender
  split
  · rename_i hph
    obtain ⟨h1, hf, hcont, _, hconns⟩ := shutdown_TR h
    apply fireFail_TR _ h1
    refine ⟨?_, fun _ => hf⟩
    intro i c' hc' ho hp
    obtain ⟨c, hc, o, p⟩ := hconns i c' hc'
    have := h.t5b i c k hc (p hp) (o ▸ ho)
    unfold phaseOf at hph; unfold phC at this
    rw [hph] at this; cases this
  · rename_i t hph
    apply fireFail_TR _ h
    refine ⟨?_, ?_⟩
    · intro i c hc ho hp
      have := h.t5b i c k hc hp ho
      unfold phaseOf at hph; unfold phC at this
      rw [hph] at this; cases this
    · intro hl; unfold phaseOf at hph; unfold phC at hl; rw [hph] at hl; cases hl
  · rename_i hph
    apply fireFail_TR _ h
    refine ⟨?_, ?_⟩
    · intro i c hc ho hp
      have := h.t5b i c k hc hp ho
      unfold phaseOf at hph; unfold phC at this
      rw [hph] at this; cases this
    · intro hl; unfold phaseOf at hph; unfold phC at hl; rw [hph] at hl; cases hl
  · rename_i i hph
    obtain ⟨s, n⟩ := cancelConnAt_shrink w i
    apply fireFail_TR _ (TR_shrink h s)
    refine ⟨?_, ?_⟩
    · intro j c' hc' ho hp
      obtain ⟨c, hc, o, p⟩ := s.conns j c' hc'
      have := h.t5b j c k hc (p hp) (o ▸ ho)
      unfold phaseOf at hph; unfold phC at this
      rw [hph] at this
      simp at this
      subst this
      exact n ⟨c', hc', hp⟩
    · intro hl; rw [s.cont] at hl; unfold phaseOf at hph; unfold phC at hl; rw [hph] at hl; cases hl
  · exact h

theorem cancelContender_TR' (w : World) (k : Nat) (h : TR w) (hs : w.started = true) :
    TR (cancelContender w k) ∧ (cancelContender w k).started = true :=
  ⟨cancelContender_TR k h, by rw [(cancelContender_good w k).shr.started]; exact hs⟩

theorem okCallbacks_TR {w : World} {k : Nat} (i : Nat) (h : TR w) (hs : w.started = true)
    (hk : attC w.cont k = some true ∧ ∃ p, phC w.cont k = some p ∧ isDone p = true) :
    TR (okCallbacks w k i) := by
  unfold okCallbacks
  have h1 : TR { w with remaining := w.remaining.erase k, haveWinner := true, firstSuccess := some i } := by
    refine ⟨h.t0, ?_, h.t4, h.t5a, h.t5b, h.t5d, ?_, h.t8, h.t9, h.t11⟩
    · intro _ j hj
      by_cases hjk : j = k
      · subst hjk; exact Or.inr hk
      · rcases h.t3 hs j hj with h' | h'
        · exact Or.inl ((List.mem_erase_of_ne hjk).mpr h')
        · exact Or.inr h'
    · intro i' hi
      obtain ⟨h1, h2⟩ := h.t6 i' hi
      exact ⟨by simp [h1], h2⟩
  obtain ⟨h2, hs2⟩ := foldl_TR cancelContender cancelContender_TR' (w.remaining.erase k) _ h1 hs
  exact maybeDone_TR h2 hs2

theorem fireOk_TR {w : World} {k : Nat} (i : Nat) (h : TR w) (hc : CanFire w k) : TR (fireOk w k i) := by
  unfold fireOk
  simp only []
  have h1 := setDone_TR none i (w.portOpen && !(isListener w.cont k && Gen.Transit.listener_stop_on_callback)) h hc
  cases hk : w.cont[k]? with
  | none => simpa using h1
  | some c =>
    simp only []
    by_cases ha : c.attached = true
    case neg => simpa [ha] using h1
    case pos =>
      simp only [ha, if_true]
      have hatt : attC w.cont k = some true := by unfold attC; rw [hk]; simp [ha]
      have hs : w.started = true := by
        cases hst : w.started with
        | true => rfl
        | false => exact absurd hatt (h.t0 hst k)
      apply okCallbacks_TR i h1 hs
      refine ⟨by simpa only [attC_setPhase] using hatt, ?_⟩
      simp only [phC_setPhase, if_true, hk]
      exact ⟨_, rfl, rfl⟩


theorem ConnShrink.of_eq {w w' : World} (e1 : w'.cont = w.cont) (e2 : w'.fPending = w.fPending)
    (e3 : w'.remaining = w.remaining) (e4 : w'.started = w.started) (e5 : w'.result = w.result)
    (e6 : w'.conns = w.conns) : ConnShrink w w' :=
  ⟨e1, e2, e3, e4, e5, fun i c' h => ⟨c', by rw [← e6]; exact h, rfl, id⟩⟩

/-- replace connection `i` by one with the same owner that is pending only if the old one was -/
theorem ConnShrink.setConn {w : World} {i : Nat} {c c' : Conn} (hc : w.conns i = some c)
    (ho : c'.owner = c.owner) (hp : c'.negD = .pending → c.negD = .pending) (wn : Option Nat) :
    ConnShrink w { (w.setConn i c') with winner := wn } :=
  ⟨rfl, rfl, rfl, rfl, rfl, fun j cj hj => by
    simp only [World.setConn] at hj
    by_cases hji : j = i
    · subst hji; simp at hj; subst hj; exact ⟨c, hc, ho, hp⟩
    · simp [hji] at hj; exact ⟨cj, hj, rfl, id⟩⟩

theorem negFired_TR {w : World} {i : Nat} (r : Option Err) (h : TR w) (hn : ¬ pend w i) :
    TR (negFired w i r) := by
  unfold negFired
  split
  · exact h
  · rename_i c hc
    split
    · rename_i ho
      have h1 : TR { w with fPending := w.fPending.erase i } := by
        refine ⟨h.t0, h.t3, ?_, ?_, h.t5b, h.t5d, h.t6, h.t8, h.t9, h.t11⟩
        · rcases h.t4 with h' | h'
          · exact Or.inl (by simp [h'])
          · exact Or.inr h'
        · intro j cj hj hp hoj
          have hji : j ≠ i := by
            intro e; subst e; exact hn ⟨cj, hj, hp⟩
          exact (List.mem_erase_of_ne hji).mpr (h.t5a j cj hj hp hoj)
      split
      · exact h1
      · simp only []
        obtain ⟨h2, hf, hcont, _, hconns⟩ := shutdown_TR h1
        split
        · rename_i k hk
          split
          · rename_i hph
            apply fireOk_TR _ h2
            refine ⟨?_, fun _ => hf⟩
            intro j c' hc' hoj hp
            have := h2.t5b j c' k hc' hp hoj
            unfold phaseOf at hph; unfold phC at this
            rw [hph] at this; cases this
          · exact h2
        · exact h2
    · rename_i k ho
      have hcf : CanFire w k := by
        refine ⟨?_, ?_⟩
        · intro j cj hj hoj hp
          have hb := h.t5b j cj k hj hp hoj
          rcases h.t5d i c k hc ho with hd | ⟨p, hd, hdone⟩
          · rw [hd] at hb; simp at hb; subst hb
            exact hn ⟨cj, hj, hp⟩
          · rw [hd] at hb; simp at hb; subst hb; simp [isDone] at hdone
        · intro hl
          rcases h.t5d i c k hc ho with hd | ⟨p, hd, hdone⟩
          · rw [hd] at hl; cases hl
          · rw [hd] at hl; simp at hl; subst hl; simp [isDone] at hdone
      split
      · exact fireOk_TR _ h hcf
      · exact fireFail_TR _ h hcf

/-- install the outcome `x` of a `dataReceived` on the existing connection `i` -/
theorem applyCtx_TR_existing {w : World} {i : Nat} {c : Conn} {x : Ctx} (h : TR w) (hc : w.conns i = some c)
    (ho : x.c.owner = c.owner)
    (hkeep : x.fired = none → x.c.negD = c.negD)
    (hok : x.fired = some none → x.c.negD = .ok)
    (hno : ∀ e, x.fired ≠ some (some e)) : TR (applyCtx w i x) := by
  have hp : x.c.negD = .pending → c.negD = .pending := by
    intro hp
    cases hf : x.fired with
    | none => rw [← hkeep hf]; exact hp
    | some r =>
      cases r with
      | none => rw [hok hf] at hp; cases hp
      | some e => exact absurd hf (hno e)
  have h1 := TR_shrink h (ConnShrink.setConn hc ho hp x.winner)
  unfold applyCtx
  simp only []
  split
  · rename_i r hf
    apply negFired_TR r h1
    intro ⟨c', hc', hp'⟩
    simp [World.setConn] at hc'
    subst hc'
    cases r with
    | none => rw [hok hf] at hp'; cases hp'
    | some e => exact hno e hf
  · exact h1

theorem evData_TR {w : World} (hI : WInv w) (h : TR w) (i : Nat) (d : Bytes) : TR (evData w i d).1 := by
  unfold evData
  split
  · exact h
  · rename_i c hc
    have ht := dataRecv_ok (cfg := w.cfg) (w0 := w.winner) (i := i) d (hI.conns i c hc)
    exact applyCtx_TR_existing h hc ht.own ht.keep (fun hf => (ht.firedOk hf).1) ht.firedNo

theorem evLost_TR {w : World} (h : TR w) (i : Nat) : TR (evLost w i) := by
  unfold evLost
  split
  · exact h
  · rename_i c hc
    obtain ⟨_, _, _, _, _, _, hown, hneg⟩ := connLost_fields c
    have hp : (connLost c).1.negD = .pending → c.negD = .pending := by
      intro hp
      rcases hneg with e | ⟨_, e', e⟩
      · rw [← e]; exact hp
      · rw [e] at hp; cases hp
    have hs : ConnShrink w (w.setConn i (connLost c).1) :=
      (ConnShrink.setConn hc hown hp w.winner).trans (ConnShrink.of_eq rfl rfl rfl rfl rfl rfl)
    have h1 := TR_shrink h hs
    simp only []
    split
    · rename_i e he
      apply negFired_TR _ h1
      intro ⟨c', hc', hp'⟩
      simp [World.setConn] at hc'
      subst hc'
      unfold connLost at he hp'
      cases hn : c.negD <;> simp [hn] at he hp'
    · exact h1

/-- a contender that nothing depends on (not listening, not negotiating, not done) may move on -/
theorem TR_setPhase_inactive {w : World} {k : Nat} {q : Phase} (p : Phase) (h : TR w)
    (hq : phC w.cont k = some q) (hq1 : ∀ i, q ≠ .negotiating i) (hq2 : isDone q = false) (hq3 : q ≠ .listening)
    (hp : p ≠ .listening) (hq4 : q ≠ .idle) :
    TR { w with cont := setPhase w.cont k p } := by
  have hno : ∀ i c, w.conns i = some c → c.owner = some k → False := by
    intro i c hc ho
    rcases h.t5d i c k hc ho with hd | ⟨p', hd, hdone⟩
    · rw [hq] at hd; simp at hd; exact hq1 i hd
    · rw [hq] at hd; simp at hd; subst hd; rw [hq2] at hdone; cases hdone
  refine ⟨?_, ?_, ?_, h.t5a, ?_, ?_, h.t6, ?_, h.t9, T11_setInactive p h.t11 hq hq2 hq4⟩
  rotate_right
  · intro hr
    simp only [phC_setPhase]
    by_cases hk0 : k = 0
    · subst hk0; simp only [if_true]; cases w.cont[0]? <;> simp [hp]
    · simp only [hk0, if_false]; exact h.t8 hr
  · intro hs j; simp only [attC_setPhase]; exact h.t0 hs j
  · intro hs j hj
    simp only [length_setPhase] at hj
    by_cases hkj : k = j
    · subst hkj
      rcases h.t3 hs k hj with h' | ⟨_, p', h2, h3⟩
      · exact Or.inl h'
      · rw [hq] at h2; simp at h2; subst h2; rw [hq2] at h3; cases h3
    · rcases h.t3 hs j hj with h' | ⟨h1, p', h2, h3⟩
      · exact Or.inl h'
      · refine Or.inr ⟨by simpa only [attC_setPhase] using h1, p', ?_, h3⟩
        simp only [phC_setPhase, hkj, if_false]; exact h2
  · rcases h.t4 with h' | h'
    · exact Or.inl h'
    · by_cases hk0 : k = 0
      · subst hk0; rw [hq] at h'; simp at h'; exact absurd h' hq3
      · refine Or.inr ?_
        simp only [phC_setPhase, hk0, if_false]; exact h'
  · intro i c k' hi hp ho
    by_cases hkk : k = k'
    · subst hkk; exact (hno i c hi ho).elim
    · simp only [phC_setPhase, hkk, if_false]; exact h.t5b i c k' hi hp ho
  · intro i c k' hi ho
    by_cases hkk : k = k'
    · subst hkk; exact (hno i c hi ho).elim
    · simp only [phC_setPhase, hkk, if_false]; exact h.t5d i c k' hi ho


theorem startNeg_track {cfg : Cfg} {w0 : Option Nat} {i : Nat} (rh : Option Bytes) (ow : Option Nat) (t : Timer)
    (hw : w0 ≠ some i) :
    (startNegotiation cfg w0 i (newConn rh ow t)).1.c.owner = ow ∧
    ((startNegotiation cfg w0 i (newConn rh ow t)).1.fired = none →
      (startNegotiation cfg w0 i (newConn rh ow t)).1.c.negD = .pending) ∧
    ((startNegotiation cfg w0 i (newConn rh ow t)).1.fired = some none →
      (startNegotiation cfg w0 i (newConn rh ow t)).1.c.negD = .ok) ∧
    ∀ e, (startNegotiation cfg w0 i (newConn rh ow t)).1.fired ≠ some (some e) := by
  unfold startNegotiation
  cases rh with
  | some y =>
    have hc : CInv cfg w0 i { newConn (some y) ow t with out := (newConn (some y) ow t).out ++ [y], state := CState.relay } :=
      CInv_Y (by simp [hsOut, newConn]) hw (by simp [newConn]) (by simp)
        (by intro _; simp [relay_ok_len, newConn])
    have ht := dataRecv_ok (cfg := cfg) (w0 := w0) (i := i) [] hc
    exact ⟨ht.own, ht.keep, fun hf => (ht.firedOk hf).1, ht.firedNo⟩
  | none =>
    have ht := dataRecv_start (cfg := cfg) (w0 := w0) (i := i)
      (c := { newConn none ow t with state := CState.start }) []
      rfl (by simp [hsOut, newConn]) hw (by simp [pre, newConn]) (by simp [newConn])
    exact ⟨ht.own, ht.keep, fun hf => (ht.firedOk hf).1, ht.firedNo⟩

/-- install a brand-new connection `i` whose negotiation is tracked -/
theorem applyCtx_TR_new {w2 : World} {i : Nat} {x : Ctx} (h : TR w2) (hfree : w2.conns i = none)
    (ha : x.c.owner = none → i ∈ w2.fPending)
    (hb : ∀ k, x.c.owner = some k → phC w2.cont k = some (.negotiating i))
    (hok : x.fired = some none → x.c.negD = .ok)
    (hno : ∀ e, x.fired ≠ some (some e)) : TR (applyCtx w2 i x) := by
  have h1 : TR { (w2.setConn i x.c) with winner := x.winner } := by
    refine ⟨h.t0, h.t3, h.t4, ?_, ?_, ?_, h.t6, h.t8, h.t9, h.t11⟩
    · intro j cj hj hp ho
      simp only [World.setConn] at hj
      by_cases hji : j = i
      · subst hji; simp at hj; subst hj; exact ha ho
      · simp [hji] at hj; exact h.t5a j cj hj hp ho
    · intro j cj k hj hp ho
      simp only [World.setConn] at hj
      by_cases hji : j = i
      · subst hji; simp at hj; subst hj; exact hb k ho
      · simp [hji] at hj; exact h.t5b j cj k hj hp ho
    · intro j cj k hj ho
      simp only [World.setConn] at hj
      by_cases hji : j = i
      · subst hji; simp at hj; subst hj; exact Or.inl (hb k ho)
      · simp [hji] at hj; exact h.t5d j cj k hj ho
  unfold applyCtx
  simp only []
  split
  · rename_i r hf
    apply negFired_TR r h1
    intro ⟨c', hc', hp'⟩
    simp [World.setConn] at hc'
    subst hc'
    cases r with
    | none => rw [hok hf] at hp'; cases hp'
    | some e => exact hno e hf
  · exact h1

theorem addOrphan_TR {w : World} (h : TR w) : TR (addOrphan w).1 := by
  unfold addOrphan
  refine ⟨h.t0, h.t3, h.t4, ?_, ?_, ?_, h.t6, h.t8, h.t9, h.t11⟩
  · intro j cj hj hp ho
    simp only [World.setConn] at hj
    by_cases hjn : j = w.n
    · subst hjn; simp at hj; subst hj; simp [newConn] at hp
    · simp [hjn] at hj; exact h.t5a j cj hj hp ho
  · intro j cj k hj hp ho
    simp only [World.setConn] at hj
    by_cases hjn : j = w.n
    · subst hjn; simp at hj; subst hj; simp [newConn] at hp
    · simp [hjn] at hj; exact h.t5b j cj k hj hp ho
  · intro j cj k hj ho
    simp only [World.setConn] at hj
    by_cases hjn : j = w.n
    · subst hjn; simp at hj; subst hj; simp [newConn] at ho
    · simp [hjn] at hj; exact h.t5d j cj k hj ho

theorem evInbound_TR {w : World} (hI : WInv w) (hP : PortInv w) (h : TR w) {p : World × Option Err}
    (hp : evInbound w = some p) : TR p.1 := by
  unfold evInbound at hp
  split at hp
  · rename_i hopen
    split at hp
    rotate_left
    · cases hp; exact addOrphan_TR h
    cases hp
    have hph : phC w.cont 0 = some .listening := hP.pl hopen
    unfold addConn
    simp only []
    have hw : w.winner ≠ some w.n := by
      intro hh; have := hI.winner _ hh; omega
    obtain ⟨ho, _, hok, hno⟩ := startNeg_track (cfg := w.cfg) (w0 := w.winner) (i := w.n) none none
      (w.now + Gen.Transit.TIMEOUT_s, w.seq) hw
    refine applyCtx_TR_new ?_ ?_ ?_ ?_ hok hno
    rotate_left
    · exact hI.bound w.n (Nat.le_refl _)
    · intro _; simp
    · intro k hk'; rw [ho] at hk'; cases hk'
    · refine ⟨h.t0, h.t3, Or.inr hph, ?_, h.t5b, h.t5d, h.t6, h.t8, h.t9, h.t11⟩
      intro j cj hj hp' hoj
      exact List.mem_append_left _ (h.t5a j cj hj hp' hoj)
  · cases hp

theorem addConn_TR_out {w : World} (hI : WInv w) (h : TR w) (rh : Option Bytes) {k : Nat}
    (hq : phC w.cont k = some .connecting) : TR (addConn w rh (some k)).1 := by
  unfold addConn
  simp only []
  have hw : w.winner ≠ some w.n := by
    intro hh; have := hI.winner _ hh; omega
  obtain ⟨ho, _, hok, hno⟩ := startNeg_track (cfg := w.cfg) (w0 := w.winner) (i := w.n) rh (some k)
    (w.now + Gen.Transit.TIMEOUT_s, w.seq) hw
  refine applyCtx_TR_new ?_ ?_ ?_ ?_ hok hno
  · exact TR_shrink (TR_setPhase_inactive (.negotiating w.n) h hq (by intro i; simp) rfl (by simp) (by simp) (by simp))
      (ConnShrink.of_eq rfl rfl rfl rfl rfl rfl)
  · exact hI.bound w.n (Nat.le_refl _)
  · intro hn; rw [ho] at hn; cases hn
  · intro k' hk'
    rw [ho] at hk'; cases hk'
    simp only [phC_setPhase, if_true]
    unfold phC at hq
    cases hc : w.cont[k]? with
    | none => rw [hc] at hq; cases hq
    | some c => rfl

theorem evConnected_TR {w : World} (hI : WInv w) (h : TR w) {k : Nat} {p : World × Option Err}
    (hp : evConnected w k = some p) : TR p.1 := by
  unfold evConnected at hp
  split at hp
  · rename_i c hc
    split at hp
    · rename_i hph
      cases hp
      exact addConn_TR_out hI h _ (by unfold phC; rw [hc]; simp [hph])
    · cases hp
  · cases hp

theorem evConnFail_TR {w w' : World} {k : Nat} (h : TR w) (he : evConnFail w k e = some w') : TR w' := by
  unfold evConnFail at he
  split at he
  · rename_i hph
    cases he
    apply fireFail_TR _ h
    refine ⟨?_, ?_⟩
    · intro i c hc ho hp
      have := h.t5b i c k hc hp ho
      unfold phaseOf at hph; unfold phC at this
      rw [hph] at this; cases this
    · intro hl; unfold phaseOf at hph; unfold phC at hl; rw [hph] at hl; cases hl
  · cases he


/-! ### `connect()`, the clock -/

theorem attach_TR (w : World) (k : Nat) (h : TR w) (hs : w.started = true) :
    TR (attach w k) ∧ (attach w k).started = true := by
  refine ⟨?_, by rw [(attach_good w k).shr.started]; exact hs⟩
  unfold attach
  split
  · exact h
  · rename_i c hc
    have h1 : TR { w with cont := w.cont.modify k fun c => { c with attached := true } } := by
      refine ⟨?_, ?_, ?_, h.t5a, ?_, ?_, h.t6, by simpa only [phC_attach] using h.t8, h.t9,
        by simpa only [phC_attach] using h.t11⟩
      · intro hs'; rw [hs] at hs'; cases hs'
      · intro _ j hj
        simp only [List.length_modify] at hj
        rcases h.t3 hs j hj with h' | ⟨h1, p, h2, h3⟩
        · exact Or.inl h'
        · refine Or.inr ⟨?_, p, by simpa only [phC_attach] using h2, h3⟩
          simp only [attC_attach]
          by_cases hkj : k = j
          · subst hkj; simp [hc]
          · simp only [hkj, if_false]; exact h1
      · simpa only [phC_attach] using h.t4
      · simpa only [phC_attach] using h.t5b
      · simpa only [phC_attach] using h.t5d
    have hatt : attC (w.cont.modify k fun c => { c with attached := true }) k = some true := by
      simp [attC_attach, hc]
    have hph : phC (w.cont.modify k fun c => { c with attached := true }) k = some c.phase := by
      simp [phC_attach, phC, hc]
    simp only []
    split
    · rename_i i hp
      exact okCallbacks_TR i h1 hs ⟨hatt, c.phase, hph, by rw [hp]; rfl⟩
    · rename_i e x hp
      exact failCallbacks_TR e h1 hs ⟨hatt, c.phase, hph, by rw [hp]; rfl⟩
    · exact h1

theorem evConnect_TR {w w' : World} (h : TR w) (he : evConnect w = some w') : TR w' := by
  rw [evConnect_eq] at he
  unfold evConnectHead at he
  split at he
  · cases he
  · rename_i hst
    have hns : w.started = false := by simpa using hst
    simp only [] at he
    have hC := startContenders_phC w.now (w.cont.any fun c => decide (c.kind = Kind.direct)) w.cont w.cont w.seq
    -- the world right after the connectors were started, with any `remaining`
    have hrev : phC (startContenders w.now w.seq (w.cont.any fun c => decide (c.kind = Kind.direct)) w.cont w.cont).1 0 = some .listening →
        phC w.cont 0 = some .listening := by
      intro hl
      unfold phC at hl ⊢
      cases hc' : (startContenders w.now w.seq (w.cont.any fun c => decide (c.kind = Kind.direct)) w.cont w.cont).1[0]? with
      | none => rw [hc'] at hl; cases hl
      | some c' =>
        rw [hc'] at hl
        simp at hl
        obtain ⟨c, hc, _, hp⟩ := startContenders_get _ _ _ _ _ 0 c' hc'
        rw [hc]
        rcases hp with hp | hp
        · simp [← hp, hl]
        · exact absurd hl hp
    have hbase : ∀ (rem : List Nat) (res : Res), (∀ i, res ≠ .ok i) ∨ res = w.result →
        (res = w.result ∨ (startContenders w.now w.seq (w.cont.any fun c => decide (c.kind = Kind.direct)) w.cont w.cont).1.length = 0) →
        (∀ k, k < (startContenders w.now w.seq (w.cont.any fun c => decide (c.kind = Kind.direct)) w.cont w.cont).1.length → k ∈ rem) →
        TR { w with cont := (startContenders w.now w.seq (w.cont.any fun c => decide (c.kind = Kind.direct)) w.cont w.cont).1,
                    seq := (startContenders w.now w.seq (w.cont.any fun c => decide (c.kind = Kind.direct)) w.cont w.cont).2,
                    started := true, t0 := w.now, remaining := rem, result := res } := by
      intro rem res hres hres8 hrem
      have ht11 : res ≠ .pending → ∀ k q,
          phC (startContenders w.now w.seq (w.cont.any fun c => decide (c.kind = Kind.direct)) w.cont w.cont).1 k = some q →
          isDone q = true ∨ q = .idle := by
        intro hr k q hq
        exfalso
        rcases hres8 with e | e
        · rw [e] at hr; exact hr (h.t9 hns)
        · unfold phC at hq
          cases hc' : (startContenders w.now w.seq (w.cont.any fun c => decide (c.kind = Kind.direct)) w.cont w.cont).1[k]? with
          | none => rw [hc'] at hq; cases hq
          | some _ => have := (List.getElem?_eq_some_iff.mp hc').1; omega
      refine ⟨?_, ?_, ?_, h.t5a, ?_, ?_, ?_, ?_, (fun hs' => by cases hs'), ht11⟩
      rotate_right
      · intro hr hl
        rcases hres8 with e | e
        · rw [e] at hr; exact h.t8 hr (hrev hl)
        · unfold phC at hl
          cases hc' : (startContenders w.now w.seq (w.cont.any fun c => decide (c.kind = Kind.direct)) w.cont w.cont).1[0]? with
          | none => rw [hc'] at hl; cases hl
          | some _ => have := (List.getElem?_eq_some_iff.mp hc').1; omega
      · intro hs'; cases hs'
      · intro _ k hk; exact Or.inl (hrem k hk)
      · rcases h.t4 with h' | h'
        · exact Or.inl h'
        · exact Or.inr (hC 0 _ h' (by simp))
      · intro i c k hi hp ho; exact hC k _ (h.t5b i c k hi hp ho) (by simp)
      · intro i c k hi ho
        rcases h.t5d i c k hi ho with h' | ⟨p, h', hdone⟩
        · exact Or.inl (hC k _ h' (by simp))
        · exact Or.inr ⟨p, hC k _ h' (by intro e; subst e; simp [isDone] at hdone), hdone⟩
      · intro i hi
        rcases hres with h' | h'
        · exact absurd hi (h' i)
        · rw [h'] at hi
          have := (h.t6 i hi).2; rw [hns] at this; cases this
    split at he
    · rename_i hemp
      cases he
      have hlen0 : (startContenders w.now w.seq (w.cont.any fun c => decide (c.kind = Kind.direct)) w.cont w.cont).1.length = 0 := by
        simpa using hemp
      have := hbase w.remaining (.fail .transitError) (Or.inl (by intro i; simp)) (Or.inr hlen0) (by
        intro k hk
        have : (startContenders w.now w.seq (w.cont.any fun c => decide (c.kind = Kind.direct)) w.cont w.cont).1.length = 0 := by
          simpa using hemp
        omega)
      exact this
    · split at he <;> cases he
      all_goals
        refine TR_shrink (w := List.foldl attach _ _) ?_ (ConnShrink.of_eq rfl rfl rfl rfl rfl rfl)
        refine (foldl_TR attach attach_TR _ _ ?_ rfl).1
        exact hbase _ w.result (Or.inr rfl) (Or.inl rfl) (fun k hk => List.mem_range.mpr hk)

theorem foldl_TR0 {α : Type} (f : World → α → World) (hf : ∀ w a, TR w → TR (f w a)) (l : List α)
    (w : World) (h : TR w) : TR (l.foldl f w) := by
  induction l generalizing w with
  | nil => exact h
  | cons a rest ih => exact ih _ (hf w a h)

theorem maybeDone_cont (w : World) : (maybeDone w).cont = w.cont := by
  unfold maybeDone; repeat' split
  all_goals rfl

theorem fireFail_cont (w : World) (k : Nat) (e : Err) :
    (fireFail w k e).cont = setPhase w.cont k (.done (some e) 0) := by
  unfold fireFail
  simp only []
  repeat' split
  all_goals first
    | rfl
    | (unfold failCallbacks; rw [maybeDone_cont])

theorem cancelConnAt_cont (w : World) (i : Nat) : (cancelConnAt w i).cont = w.cont := by
  unfold cancelConnAt; repeat' split
  all_goals rfl

theorem shutdown_cont (w : World) : (shutdown w).cont = w.cont := by
  unfold shutdown
  exact (foldl_cancel w.fPending w).1.cont

theorem phC_done_ne (cont : List Contender) (k : Nat) (r : Option Err) (x : Nat) :
    phC cont 0 ≠ some .listening → phC (setPhase cont k (.done r x)) 0 ≠ some .listening := by
  intro h
  simp only [phC_setPhase]
  by_cases hk : k = 0
  · subst hk; simp only [if_true]; cases cont[0]? <;> simp
  · simp only [hk, if_false]; exact h

/-- cancelling contender `k` never puts `_listener_d` back to "not fired", and cancelling the
    listener itself fires it -/
theorem cancelContender_listener (w : World) (k : Nat) :
    (phC w.cont 0 ≠ some .listening → phC (cancelContender w k).cont 0 ≠ some .listening) ∧
    (k = 0 → phC (cancelContender w k).cont 0 ≠ some .listening) := by
  unfold cancelContender
  split
  · rw [fireFail_cont, shutdown_cont]
    refine ⟨phC_done_ne _ _ _ _, ?_⟩
    intro hk; subst hk
    simp only [phC_setPhase, if_true]; cases w.cont[0]? <;> simp
  · rw [fireFail_cont]
    refine ⟨phC_done_ne _ _ _ _, ?_⟩
    intro hk; subst hk
    simp only [phC_setPhase, if_true]; cases w.cont[0]? <;> simp
  · rw [fireFail_cont]
    refine ⟨phC_done_ne _ _ _ _, ?_⟩
    intro hk; subst hk
    simp only [phC_setPhase, if_true]; cases w.cont[0]? <;> simp
  · rw [fireFail_cont, cancelConnAt_cont]
    refine ⟨phC_done_ne _ _ _ _, ?_⟩
    intro hk; subst hk
    simp only [phC_setPhase, if_true]; cases w.cont[0]? <;> simp
  · rename_i h1 _ _ _
    refine ⟨id, ?_⟩
    intro hk; subst hk
    intro hl
    exact h1 (by unfold phaseOf; unfold phC at hl; exact hl)

theorem fold_cancel_listener (l : List Nat) : ∀ (w : World),
    (0 ∈ l ∨ phC w.cont 0 ≠ some .listening) → phC (l.foldl cancelContender w).cont 0 ≠ some .listening := by
  induction l with
  | nil =>
    intro w h
    rcases h with h | h
    · cases h
    · exact h
  | cons a rest ih =>
    intro w h
    simp only [List.foldl_cons]
    apply ih
    rcases h with h | h
    · rcases List.mem_cons.mp h with h' | h'
      · exact Or.inr ((cancelContender_listener w a).2 h'.symm)
      · exact Or.inl h'
    · exact Or.inr ((cancelContender_listener w a).1 h)

/-- "fired, or never started" -/
def DIat (w : World) (k : Nat) : Prop := ∀ q, phC w.cont k = some q → isDone q = true ∨ q = .idle

theorem DIat_setDone (w : World) (k k' : Nat) (r : Option Err) (x : Nat) (cont : List Contender)
    (hc : cont = w.cont) :
    (k' = k ∨ DIat w k') → ∀ q, phC (setPhase cont k (.done r x)) k' = some q → isDone q = true ∨ q = .idle := by
  intro h q hq
  subst hc
  simp only [phC_setPhase] at hq
  by_cases hkk : k = k'
  · subst hkk
    simp only [if_true] at hq
    cases hc : w.cont[k]? with
    | none => rw [hc] at hq; cases hq
    | some c => rw [hc] at hq; simp at hq; subst hq; exact Or.inl rfl
  · simp only [hkk, if_false] at hq
    rcases h with h | h
    · exact absurd h.symm hkk
    · exact h q hq

/-- cancelling contender `k` fires it (unless it was never started), and un-fires nobody -/
theorem cancelContender_DI (w : World) (k k' : Nat) (h : k' = k ∨ DIat w k') : DIat (cancelContender w k) k' := by
  unfold DIat cancelContender
  split
  · rw [fireFail_cont]; exact DIat_setDone w k k' _ _ _ (shutdown_cont w) h
  · rw [fireFail_cont]; exact DIat_setDone w k k' _ _ _ rfl h
  · rw [fireFail_cont]; exact DIat_setDone w k k' _ _ _ rfl h
  · rw [fireFail_cont]; exact DIat_setDone w k k' _ _ _ (cancelConnAt_cont w _) h
  · rename_i h1 h2 h3 h4
    rcases h with h | h
    · subst h
      intro q hq
      have hq' : phaseOf w k' = some q := hq
      cases q with
      | idle => exact Or.inr rfl
      | listening => exact absurd hq' h1
      | delayed t => exact absurd hq' (h2 t)
      | connecting => exact absurd hq' h3
      | negotiating i => exact absurd hq' (h4 i)
      | done r x => exact Or.inl rfl
    · exact h

theorem fold_cancel_DI (l : List Nat) : ∀ (w : World),
    (∀ k', k' ∈ l ∨ DIat w k') → ∀ k' q, phC (l.foldl cancelContender w).cont k' = some q → isDone q = true ∨ q = .idle := by
  induction l with
  | nil =>
    intro w h k' q hq
    rcases h k' with h' | h'
    · cases h'
    · exact h' q hq
  | cons a rest ih =>
    intro w h
    simp only [List.foldl_cons]
    apply ih
    intro k'
    rcases h k' with h' | h'
    · rcases List.mem_cons.mp h' with e | e
      · exact Or.inr (cancelContender_DI w a k' (Or.inl e))
      · exact Or.inl e
    · exact Or.inr (cancelContender_DI w a k' (Or.inr h'))

theorem fireDeadline_TR (w : World) (h : TR w) (hs : w.started = true) : TR (fireDeadline w) := by
  unfold fireDeadline
  simp only []
  have h1 : TR { w with deadline := none } := TR_shrink h (ConnShrink.of_eq rfl rfl rfl rfl rfl rfl)
  split
  · exact h1
  · have h2 := foldl_TR0 cancelContender (fun w k h => cancelContender_TR k h) w.remaining _ h1
    split
    · exact h2
    · have hst2 : (List.foldl cancelContender { w with deadline := none } w.remaining).started = true := by
        rw [(foldl_good cancelContender cancelContender_good w.remaining { w with deadline := none }).shr.started]
        exact hs
      refine ⟨h2.t0, h2.t3, h2.t4, h2.t5a, h2.t5b, h2.t5d, ?_, ?_,
        (fun hs' => by rw [hst2] at hs'; cases hs'), ?_⟩
      rotate_right
      · intro _ k0 q0 hq0
        refine fold_cancel_DI w.remaining _ ?_ k0 q0 hq0
        intro k'
        by_cases hk : k' < w.cont.length
        · rcases h.t3 hs k' hk with h' | ⟨_, p, hp, hd⟩
          · exact Or.inl h'
          · refine Or.inr ?_
            intro q hq
            have hq' : phC w.cont k' = some q := hq
            rw [hp] at hq'; cases hq'; exact Or.inl hd
        · refine Or.inr ?_
          intro q hq
          have hq' : phC w.cont k' = some q := hq
          unfold phC at hq'
          cases hc : w.cont[k']? with
          | none => rw [hc] at hq'; cases hq'
          | some _ => exact absurd (List.getElem?_eq_some_iff.mp hc).1 hk
      · intro i hi; simp at hi
      · intro _
        apply fold_cancel_listener
        by_cases hk : 0 < w.cont.length
        · rcases h.t3 hs 0 hk with h' | ⟨_, p, hp, hd⟩
          · exact Or.inl h'
          · refine Or.inr ?_
            show phC w.cont 0 ≠ some .listening
            rw [hp]; intro e; cases e; simp [isDone] at hd
        · refine Or.inr ?_
          show phC w.cont 0 ≠ some .listening
          unfold phC
          have : w.cont[0]? = none := by
            cases hc : w.cont[0]? with
            | none => rfl
            | some _ => exact absurd (List.getElem?_eq_some_iff.mp hc).1 hk
          rw [this]; simp

theorem fireTimer_TR (w : World) (t : Timer × TimerId) (h : TR w)
    (hd : ∀ t', w.deadline = some t' → w.started = true) : TR (fireTimer w t) := by
  unfold fireTimer
  split
  · split
    · rename_i c hc
      split
      · exact TR_shrink h ((ConnShrink.setConn hc (c' := timeoutConn c) rfl id w.winner).trans
          (ConnShrink.of_eq rfl rfl rfl rfl rfl rfl))
      · exact h
    · exact h
  · rename_i k
    split
    · rename_i hph
      exact TR_setPhase_inactive .connecting h (q := .delayed t.1) hph (by intro i; simp) rfl (by simp) (by simp) (by simp)
    · exact h
  · split
    · rename_i hdl
      exact fireDeadline_TR w h (hd _ hdl)
    · exact h

theorem foldl_fireTimer_TR (l : List (Timer × TimerId)) : ∀ (w : World), TR w →
    (∀ t', w.deadline = some t' → w.started = true) → TR (l.foldl fireTimer w) := by
  induction l with
  | nil => intro w h _; exact h
  | cons a rest ih =>
    intro w h hd
    simp only [List.foldl_cons]
    apply ih _ (fireTimer_TR w a h hd)
    intro t' ht'
    have g := (fireTimer_good w a).shr
    rw [g.started]
    rcases g.dl with e | e
    · rw [e] at ht'; exact hd t' ht'
    · rw [e] at ht'; cases ht'

theorem evAdvance_TR (w : World) (dt : Nat) (h : TR w) (hK : K w) : TR (evAdvance w dt) := by
  unfold evAdvance
  simp only []
  exact foldl_fireTimer_TR _ _ (TR_shrink h (ConnShrink.of_eq rfl rfl rfl rfl rfl rfl))
    (fun t' ht' => (hK.p1.2 t' ht').1)

theorem TR_step {w : World} (hI : WInv w) (hP : PortInv w) (hK : K w) (h : TR w) (e : Event) : TR (step w e) := by
  cases e with
  | inbound =>
    simp only [step]
    cases hE : evInbound w with
    | none => exact h
    | some p => exact evInbound_TR hI hP h hE
  | connect =>
    simp only [step]
    split
    · cases hE : evConnect w with
      | none => exact h
      | some w' => exact evConnect_TR h hE
    · exact h
  | connected k =>
    simp only [step]
    cases hE : evConnected w k with
    | none => exact h
    | some p => exact evConnected_TR hI h hE
  | connFail k e =>
    simp only [step]
    cases hE : evConnFail w k e with
    | none => exact h
    | some w' => exact evConnFail_TR h hE
  | data i d => exact evData_TR hI h i d
  | lost i => exact evLost_TR h i
  | advance dt => exact evAdvance_TR w dt h hK
  | setKey => exact TR_shrink h (ConnShrink.of_eq rfl rfl rfl rfl rfl rfl)

theorem TR_init (cfg : Cfg) (l : Bool) (d : Nat) (r : List Nat) : TR (initWorld cfg l d r) := by
  refine ⟨?_, by intro h; simp [initWorld] at h, Or.inl rfl, by intro i c h; simp [initWorld] at h,
    by intro i c k h; simp [initWorld] at h, by intro i c k h; simp [initWorld] at h,
    by intro i h; simp [initWorld] at h, by intro h; simp [initWorld] at h, by intro _; rfl,
    by intro h; simp [initWorld] at h⟩
  intro _ k
  unfold attC
  simp only [initWorld]
  cases hk : ((if l = true then [({ kind := Kind.listener, phase := Phase.listening, attached := false } : Contender)] else []) ++
      List.replicate d { kind := Kind.direct, phase := Phase.idle, attached := false } ++
      List.map (fun p => { kind := Kind.relay p, phase := Phase.idle, attached := false }) r)[k]? with
  | none => simp
  | some c =>
    have hm := List.mem_of_getElem? hk
    simp only [List.mem_append, List.mem_replicate, List.mem_map] at hm
    rcases hm with (hm | ⟨_, hm⟩) | ⟨p, _, hm⟩
    · cases l <;> simp at hm; subst hm; simp
    · subst hm; simp
    · subst hm; simp

theorem TR_run {w : World} (hI : WInv w) (hP : PortInv w) (hK : K w) (h : TR w) (evs : List Event) : TR (run w evs) := by
  induction evs generalizing w with
  | nil => exact h
  | cons e rest ih => exact ih (WInv_step hI e) (step_Port w e hP) (K_step hK e) (TR_step hI hP hK h e)


/-! ### a failed negotiation means a closed connection -/

def Closed (c : Conn) : Prop := ∀ e, c.negD = .fail e → 1 ≤ c.lost ∨ c.gone = true

theorem Closed_benign {a b : Conn} (hb : Benign a b) (h : Closed a) : Closed b := by
  induction hb with
  | refl => exact h
  | cancel _ _ _ => intro e _; left; simp [cancelConn]
  | timeout _ ih =>
    intro e he
    simp only [timeoutConn] at he ⊢
    rcases ih e he with h' | h'
    · left; omega
    · right; exact h'
  | @lost b _ _ =>
    intro e _; right
    unfold connLost
    cases b.negD <;> simp

def W8 (w : World) : Prop := ∀ i c, w.conns i = some c → Closed c

theorem W8_quiet {w w' : World} (h : W8 w) (q : Quiet w w') : W8 w' := by
  intro i c' hc'
  rcases q.conns i with ⟨_, hn⟩ | ⟨a, b, ha, hb, hab⟩
  · rw [hn] at hc'; cases hc'
  · rw [hb] at hc'; cases hc'; exact Closed_benign hab (h i a ha)

theorem W8_applyCtx {w : World} {i : Nat} {x : Ctx} (h : W8 w) (hx : Closed x.c) : W8 (applyCtx w i x) := by
  have h1 : W8 { (w.setConn i x.c) with winner := x.winner } := by
    intro j c hc
    simp only [World.setConn] at hc
    by_cases hj : j = i
    · subst hj; simp at hc; subst hc; exact hx
    · simp [hj] at hc; exact h j c hc
  unfold applyCtx
  simp only []
  split
  · exact W8_quiet h1 (negFired_quiet _ _ _)
  · exact h1

theorem W8_evData {w : World} (hI : WInv w) (h : W8 w) (i : Nat) (d : Bytes) : W8 (evData w i d).1 := by
  unfold evData
  split
  · exact h
  · rename_i c hc
    have ht := dataRecv_ok (cfg := w.cfg) (w0 := w.winner) (i := i) d (hI.conns i c hc)
    apply W8_applyCtx h
    intro e he
    cases hf : (dataRecv w.cfg w.winner i c d).1.fired with
    | none =>
      have hk := ht.keep hf
      rw [hk] at he
      rcases h i c hc e he with h' | h'
      · left; have := ht.lost; simp only [] at this; omega
      · right; rw [ht.gone]; exact h'
    | some r =>
      cases r with
      | none => rw [(ht.firedOk hf).1] at he; cases he
      | some e' => exact absurd hf (ht.firedNo e')

theorem W8_addConn {w : World} (hI : WInv w) (h : W8 w) (rh : Option Bytes) (ow : Option Nat) :
    W8 (addConn w rh ow).1 := by
  unfold addConn
  simp only []
  have hw : w.winner ≠ some w.n := by
    intro hh; have := hI.winner _ hh; omega
  obtain ⟨_, hpend, hok, hno⟩ := startNeg_track (cfg := w.cfg) (w0 := w.winner) (i := w.n) rh ow
    (w.now + Gen.Transit.TIMEOUT_s, w.seq) hw
  have hx : Closed (startNegotiation w.cfg w.winner w.n (newConn rh ow (w.now + Gen.Transit.TIMEOUT_s, w.seq))).1.c := by
    intro e he
    cases hf : (startNegotiation w.cfg w.winner w.n (newConn rh ow (w.now + Gen.Transit.TIMEOUT_s, w.seq))).1.fired with
    | none => rw [hpend hf] at he; cases he
    | some r =>
      cases r with
      | none => rw [hok hf] at he; cases he
      | some e' => exact absurd hf (hno e')
  cases ow <;> exact W8_applyCtx (w := _) (fun j c hc => h j c hc) hx

theorem W8_evInbound {w : World} (hI : WInv w) (h : W8 w) {p : World × Option Err}
    (hE : evInbound w = some p) : W8 p.1 := by
  unfold evInbound at hE
  split at hE
  · split at hE
    · cases hE; exact W8_addConn hI h _ _
    · cases hE
      unfold addOrphan
      intro j c hc
      simp only [World.setConn] at hc
      by_cases hj : j = w.n
      · subst hj; simp at hc; subst hc; intro e _; left; simp
      · simp [hj] at hc; exact h j c hc
  · cases hE

theorem W8_evConnected {w : World} (hI : WInv w) (h : W8 w) {k : Nat} {p : World × Option Err}
    (hE : evConnected w k = some p) : W8 p.1 := by
  unfold evConnected at hE
  split at hE
  · split at hE
    · cases hE; exact W8_addConn hI h _ _
    · cases hE
  · cases hE

theorem W8_step {w : World} (hI : WInv w) (h : W8 w) (e : Event) : W8 (step w e) := by
  cases e with
  | inbound =>
    simp only [step]
    cases hE : evInbound w with
    | none => exact h
    | some p => exact W8_evInbound hI h hE
  | connect =>
    simp only [step]
    split
    · cases hE : evConnect w with
      | none => exact h
      | some w' => exact W8_quiet h (evConnect_quiet hE)
    · exact h
  | connected k =>
    simp only [step]
    cases hE : evConnected w k with
    | none => exact h
    | some p => exact W8_evConnected hI h hE
  | connFail k e =>
    simp only [step]
    cases hE : evConnFail w k e with
    | none => exact h
    | some w' => exact W8_quiet h (evConnFail_quiet hE)
  | data i d => exact W8_evData hI h i d
  | lost i => exact W8_quiet h (evLost_quiet w i)
  | advance dt => exact W8_quiet h (evAdvance_quiet w dt)
  | setKey => exact W8_quiet h (Quiet.of_eq rfl rfl rfl rfl)

theorem W8_run {w : World} (hI : WInv w) (h : W8 w) (evs : List Event) : W8 (run w evs) := by
  induction evs generalizing w with
  | nil => exact h
  | cons e rest ih => exact ih (WInv_step hI e) (W8_step hI h e)

/-- when `connect()` has fired — either way — no negotiation is pending any more -/
theorem TR_no_pending_any {w : World} (h : TR w) (hres : w.result ≠ .pending) (j : Nat) (c : Conn)
    (hc : w.conns j = some c) : c.negD ≠ .pending := by
  intro hp
  cases ho : c.owner with
  | none =>
    have hm := h.t5a j c hc hp ho
    rcases h.t4 with h' | h'
    · rw [h'] at hm; cases hm
    · rcases h.t11 hres 0 _ h' with h1 | h1 <;> simp [isDone] at h1
  | some k =>
    rcases h.t11 hres k _ (h.t5b j c k hc hp ho) with h1 | h1 <;> simp [isDone] at h1

/-- when `connect()` has succeeded no negotiation is pending any more -/
theorem TR_no_pending {w : World} (h : TR w) {i : Nat} (hres : w.result = .ok i) (j : Nat) (c : Conn)
    (hc : w.conns j = some c) : c.negD ≠ .pending := by
  obtain ⟨hrem, hs⟩ := h.t6 i hres
  intro hp
  have hdone : ∀ k q, phC w.cont k = some q → isDone q = true := by
    intro k q hq
    have hk : k < w.cont.length := by
      unfold phC at hq
      cases hck : w.cont[k]? with
      | none => rw [hck] at hq; cases hq
      | some _ => exact (List.getElem?_eq_some_iff.mp hck).1
    rcases h.t3 hs k hk with h' | ⟨_, p, h2, h3⟩
    · rw [hrem] at h'; cases h'
    · rw [hq] at h2; cases h2; exact h3
  cases ho : c.owner with
  | none =>
    have hm := h.t5a j c hc hp ho
    rcases h.t4 with h' | h'
    · rw [h'] at hm; cases hm
    · have := hdone 0 _ h'; simp [isDone] at this
  | some k =>
    have := hdone k _ (h.t5b j c k hc hp ho)
    simp [isDone] at this

end WV.Proofs.C07
