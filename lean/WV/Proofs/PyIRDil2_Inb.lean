import WV.Proofs.PyIRDil2

set_option linter.unusedSimpArgs false
set_option linter.unusedVariables false

/-!
`Inbound`'s open-subchannel map (`handle_open` / `handle_data` / `handle_close`, `subchannel_local_open`,
`subchannel_closed`) and `PullToPush`: relations and lemmas.  The SubChannel object of subchannel id `c` is the object with
identity `encSc c` (one object per scid, as in the C15 model's `Inb.openSc`).
-/
namespace WV.Proofs.PyIRDil2
open WV WV.PyIR WV.Gen.PyIRDil WV.Proofs.PyIRC03 WV.Proofs.PyIRDil

/-- the environment of `Inbound`: `SubChannel(scid, …)` is the object of that scid, `SubchannelAddress(subprotocol)` a
    record, f-strings format anything, `ISubChannel.providedBy` holds for SubChannel objects, `is` compares identities -/
def envI : Env :=
  { envD noRe with
    ext := fun f args =>
      match f, args with
      | "SubChannel", [.int c, _, _, _] => .ok (encSc c)
      | "SubchannelAddress", [x] => .ok (.obj "SubchannelAddress" [x])
      | "ISubChannel.providedBy", [.ref c _] => .ok (.bool (c == "SubChannel"))
      | "is", [.ref _ a, .ref _ b] => .ok (.bool (a == b))
      | "f\"received DATA for non-existent subchannel {}\"", [_] => .ok (.str "")
      | "f\"received CLOSE for non-existent subchannel {}\"", [_] => .ok (.str "")
      | "f\"received duplicate OPEN for {}\"", [_] => .ok (.str "")
      | _, _ => unsupported }

/-- `_open_subchannels` ⟷ the subchannels of the C10 model's `L4`, in insertion order -/
def RelOpen (h : Store) (t : C10.L4) : Prop :=
  h.get "_open_subchannels" = some (.dict (encDict Val.int encSc (t.subs.map fun s => (s.scid, s.scid))))

theorem dget_subs (subs : List C10.Sub) (c : Nat) :
    (C03.dget (subs.map fun s => (s.scid, s.scid)) c).isSome = (C10.findSub c subs).isSome ∧
    (∀ x, C03.dget (subs.map fun s => (s.scid, s.scid)) c = some x → x = c) := by
  induction subs with
  | nil => simp [C03.dget, C10.findSub]
  | cons s r ih =>
    by_cases h : s.scid = c
    · simp [C03.dget, C10.findSub, h]
    · simp only [List.map_cons, C03.dget, C10.findSub, h, if_false]
      exact ih

theorem dget_none_of_findSub {subs : List C10.Sub} {c : Nat} (hf : C10.findSub c subs = none) :
    C03.dget (subs.map fun s => (s.scid, s.scid)) c = none := by
  have hs := (dget_subs subs c).1
  rw [hf] at hs
  cases hh : C03.dget (subs.map fun s => (s.scid, s.scid)) c with
  | none => rfl
  | some x => rw [hh] at hs; cases hs

theorem dget_some_of_findSub {subs : List C10.Sub} {c : Nat} {s : C10.Sub} (hf : C10.findSub c subs = some s) :
    C03.dget (subs.map fun s => (s.scid, s.scid)) c = some c := by
  obtain ⟨hs, hx⟩ := dget_subs subs c
  rw [hf] at hs
  cases hh : C03.dget (subs.map fun s => (s.scid, s.scid)) c with
  | none => rw [hh] at hs; cases hs
  | some x => rw [hx x hh]

theorem dpop_appended {subs : List C10.Sub} {c : Nat} (hf : C10.findSub c subs = none) :
    C03.dpop ((subs.map fun s => (s.scid, s.scid)) ++ [(c, c)]) c = subs.map fun s => (s.scid, s.scid) := by
  induction subs with
  | nil => simp [C03.dpop]
  | cons s r ih =>
    by_cases h : s.scid = c
    · simp [C10.findSub, h] at hf
    · simp only [C10.findSub, h, if_false] at hf
      have := ih hf
      simp only [C03.dpop, List.map_cons, List.cons_append, List.filter_cons, h, decide_false, Bool.not_false, if_true] at this ⊢
      rw [this]

theorem dget_appended (l : List (Nat × Nat)) (c : Nat) (h : C03.dget l c = none) : C03.dget (l ++ [(c, c)]) c = some c := by
  induction l with
  | nil => simp [C03.dget]
  | cons e r ih =>
    obtain ⟨a, b⟩ := e
    by_cases hk : a = c
    · simp [C03.dget, hk] at h
    · simp only [C03.dget, hk, if_false] at h
      simp only [List.cons_append, C03.dget, hk, if_false]
      exact ih h

/-- the inputs of SubChannel machines among the recorded calls -/
def absL4 : Call → Option (Nat × Gen.SubChannel.Input × Bytes)
  | ⟨"$v", "remote_data", [.ref "SubChannel" c, .bytes d]⟩ => some (c, .remote_data, d)
  | ⟨"$v", "remote_close", [.ref "SubChannel" c]⟩ => some (c, .remote_close, [])
  | _ => none

/-- apply recorded inputs to the model -/
def applyL4 (t : C10.L4) (ins : List (Nat × Gen.SubChannel.Input × Bytes)) : C10.L4 :=
  ins.foldl (fun t e => t.upd e.1 (fun s => C10.subInput s e.2.1 e.2.2)) t

/-! ## the C15 model's `Inb.openSc` -/

/-- `_open_subchannels` ⟷ `Inb.openSc` (keys through membership; the object under key `n` is `encSc n`) -/
def RelOpenSc (h : Store) (s : C15.Inb) : Prop :=
  ∃ l' : List Nat, h.get "_open_subchannels" = some (.dict (encDict Val.int encSc (l'.map fun n => (n, n)))) ∧
    ∀ x, x ∈ l' ↔ x ∈ s.openSc

theorem dget_diag (l : List Nat) (c : Nat) : C03.dget (l.map fun n => (n, n)) c = if c ∈ l then some c else none := by
  induction l with
  | nil => simp [C03.dget]
  | cons a r ih =>
    by_cases h : a = c
    · simp [C03.dget, h]
    · have h' : ¬ c = a := fun e => h e.symm
      simp [C03.dget, h, h', ih]

theorem dpop_diag (l : List Nat) (c : Nat) : C03.dpop (l.map fun n => (n, n)) c = (C15.sDel c l).map fun n => (n, n) := by
  induction l with
  | nil => simp [C03.dpop, C15.sDel]
  | cons a r ih =>
    simp only [C03.dpop, C15.sDel] at ih ⊢
    by_cases h : a = c <;> simp [h, ih]

/-- what `Inb.discard` adds to the log: the `resumeProducing()` of the connection when the last pauser leaves -/
def discT (s : C15.Inb) (sc : Nat) : List C15.IEv :=
  match s.conn with
  | some g => if !s.pausedSc.isEmpty && (C15.sDel sc s.pausedSc).isEmpty then [.tResume g] else []
  | none => []

theorem discard_eq (hfw : C15.dcpForwardsResume = true) (s : C15.Inb) (sc : Nat) :
    C15.Inb.discard s sc = { s with pausedSc := C15.sDel sc s.pausedSc, log := discT s sc ++ s.log } := by
  unfold C15.Inb.discard discT
  cases s.conn with
  | none => simp
  | some g =>
    simp only
    split <;> simp [C15.Inb.connResume, hfw]

theorem take_new {α : Type} (A L : List α) : (A ++ L).take ((A ++ L).length - L.length) = A := by
  simp

end WV.Proofs.PyIRDil2
