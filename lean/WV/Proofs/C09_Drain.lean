import WV.Proofs.C09_Complete

/-! C09 — data half of the liveness clause: the explicit continuation (reconnect, store everything pending,
    deliver every stored numbered message) and what it does to the two-client system. -/
set_option linter.unusedSimpArgs false
set_option linter.unusedVariables false

namespace WV.Proofs.C09
open WV WV.C03 WV.Gen WV.Proofs.C03

/-! ## a client that has the verified key, is connected, and has not closed -/

structure Steady (c : Client) : Prop where
  boss : c.boss.st = .S2_happy
  recv : c.recv = ⟨.S2_verified_key, true⟩
  send : c.send.st = .S1_verified_key ∧ c.send.queue = []
  order : c.order = ⟨.S1_yes_pake, []⟩
  mbox : c.mbox.st = .S2B

theorem runEffs_wReceived (C : Crypto) (ds : List Bytes) (c : Client) :
    (runEffs (bEff C) c (ds.map .wReceived)).1.mbox = c.mbox ∧ (runEffs (bEff C) c (ds.map .wReceived)).1.send = c.send ∧
    (runEffs (bEff C) c (ds.map .wReceived)).1.recv = c.recv ∧ (runEffs (bEff C) c (ds.map .wReceived)).1.order = c.order ∧
    (runEffs (bEff C) c (ds.map .wReceived)).1.side = c.side ∧ (runEffs (bEff C) c (ds.map .wReceived)).1.boss = c.boss := by
  induction ds generalizing c with
  | nil => exact ⟨rfl, rfl, rfl, rfl, rfl, rfl⟩
  | cons d r ih =>
    simp only [List.map_cons]
    have e : bEff C c (.wReceived d) = ({ c.emit (.received d) with obs := c.obs.fire d }, none) := rfl
    rw [runEffs_cons_ok (bEff C) c _ _ _ e]
    obtain ⟨h1, h2, h3, h4, h5, h6⟩ := ih { c.emit (.received d) with obs := c.obs.fire d }
    exact ⟨h1, h2, h3, h4, h5, h6⟩

/-- `Boss.got_message("<i>", pt)` while happy: only the reorder buffer, the log and the observer change -/
theorem gotPhase_steady (C : Crypto) (c : Client) (i : Nat) (pt : Bytes) (hb : c.boss.st = .S2_happy) :
    (cBossGotMessage C c (showPhase i) pt).1.mbox = c.mbox ∧ (cBossGotMessage C c (showPhase i) pt).1.send = c.send ∧
    (cBossGotMessage C c (showPhase i) pt).1.recv = c.recv ∧ (cBossGotMessage C c (showPhase i) pt).1.order = c.order ∧
    (cBossGotMessage C c (showPhase i) pt).1.side = c.side ∧
    (cBossGotMessage C c (showPhase i) pt).1.boss.st = .S2_happy := by
  rcases c with ⟨side, ⟨st, ntx, rx, drx⟩, send, mbox, order, recv, obs, log⟩
  simp only at hb
  subst hb
  unfold cBossGotMessage bossGotMessage
  simp only [classify_showPhase, bossStep, Boss.table, bossOuts, bossOut, List.nil_append, cBossRes, thenErr_fst]
  obtain ⟨h1, h2, h3, h4, h5, h6⟩ := runEffs_wReceived C (wReceived rx i pt).2
    ⟨side, ⟨.S2_happy, ntx, (wReceived rx i pt).1, drx⟩, send, mbox, order, recv, obs, log⟩
  exact ⟨h1, h2, h3, h4, h5, by rw [h6]⟩


/-- the server hands an honest numbered message of the peer to a steady client: it stays steady, the phase is
    accepted (or was already), nothing of the sending side of this client changes -/
theorem deliver_steady (C : Crypto) (hC : C.Ideal) (c : Client) (sd : String) (i : Nat) (pt : Bytes)
    (hs : Steady c) (hne : sd ≠ c.side) :
    Steady (cMboxRx C c sd (showPhase i) (C.enc sd (showPhase i) pt)).1 ∧
    (cMboxRx C c sd (showPhase i) (C.enc sd (showPhase i) pt)).1.side = c.side ∧
    (cMboxRx C c sd (showPhase i) (C.enc sd (showPhase i) pt)).1.send = c.send ∧
    (cMboxRx C c sd (showPhase i) (C.enc sd (showPhase i) pt)).1.mbox.pending = c.mbox.pending ∧
    showPhase i ∈ (cMboxRx C c sd (showPhase i) (C.enc sd (showPhase i) pt)).1.mbox.processed ∧
    (∀ p ∈ c.mbox.processed, p ∈ (cMboxRx C c sd (showPhase i) (C.enc sd (showPhase i) pt)).1.mbox.processed) := by
  obtain ⟨hb, hr, ⟨hs1, hs2⟩, ho, hm⟩ := hs
  rcases c with ⟨side, boss, send, ⟨mst, mb, mood, pend, proc⟩, order, recv, obs, log⟩
  simp only at hb hr hs1 hs2 ho hm hne
  subst hr ho hm
  unfold cMboxRx mboxRx
  simp only [hne, if_false, mboxStep, Mailbox.table, mboxOuts, mboxOut, acceptPhase, List.nil_append]
  have e1 : ∀ c1 : Client, mEffRx C c1 .release = (c1.emit .release, none) := fun _ => rfl
  by_cases hp : showPhase i ∈ proc
  · simp only [hp, if_true, List.nil_append, runEffs_single, e1, thenErr_none]
    exact ⟨⟨hb, rfl, ⟨hs1, hs2⟩, rfl, rfl⟩, rfl, rfl, rfl, hp, fun _ h => h⟩
  · simp only [hp, if_false, List.nil_append]
    rw [runEffs_cons_ok (mEffRx C) _ _ _ _ (e1 _), runEffs_single]
    simp only [mEffRx, thenErr_none, cOrder, orderStep, showPhase_ne_pake, if_false, Order.table, orderOuts, orderOut,
      List.nil_append, runEffs_single, oEff, recvGotMessage, Client.emit, Bool.not_true, Bool.false_eq_true,
      hC.open_seal, recvStep, Receive.table, recvOuts, recvOut, cRecvRes, rEff]
    generalize hc3 : (⟨side, boss, send, ⟨.S2B, mb, mood, pend, proc ++ [showPhase i]⟩, ⟨.S1_yes_pake, []⟩,
      ⟨.S2_verified_key, true⟩, obs, log ++ [Ev.release]⟩ : Client) = c3
    have hb3 : c3.boss.st = .S2_happy := by rw [← hc3]; exact hb
    obtain ⟨g1, g2, g3, g4, g5, g6⟩ := gotPhase_steady C c3 i pt hb3
    rcases hres : cBossGotMessage C c3 (showPhase i) pt with ⟨c', err⟩
    rw [hres] at g1 g2 g3 g4 g5 g6
    simp only at g1 g2 g3 g4 g5 g6
    cases err <;> simp only [thenErr_none, thenErr] <;>
      (refine ⟨⟨g6, by rw [g3, ← hc3], by rw [g2, ← hc3]; exact ⟨hs1, hs2⟩, by rw [g4, ← hc3], by rw [g1, ← hc3]⟩,
        by rw [g5, ← hc3], by rw [g2, ← hc3], by rw [g1, ← hc3], by rw [g1, ← hc3]; simp, ?_⟩
       intro p hp'; rw [g1, ← hc3]; exact List.mem_append_left _ hp')


/-! ## delivering a list of stored messages -/

def deliverList (C : Crypto) (c : Client) (bag : List (String × String × Bytes)) (ks : List Nat) : Client :=
  ks.foldl (fun c k => deliverTo C c k bag) c

/-- a numbered message of `src` -/
def wanted (src : String) (e : String × String × Bytes) : Bool := decide (e.1 = src) && isNumeric e.2.1

/-- the positions of the numbered messages of `src` in the server's store, in the order they were stored -/
def deliverIdx (src : String) (bag : List (String × String × Bytes)) : List Nat :=
  (List.range bag.length).filter (fun k => match bag[k]? with | some e => wanted src e | none => false)

theorem deliverList_spec (C : Crypto) (hC : C.Ideal) (src : String) (bag : List (String × String × Bytes))
    (hbag : ∀ e ∈ bag, wanted src e = true → ∃ i pt, e.2.1 = showPhase i ∧ e.2.2 = C.enc e.1 e.2.1 pt)
    (ks : List Nat) (hks : ∀ k ∈ ks, ∃ e, bag[k]? = some e ∧ wanted src e = true)
    (y : Client) (hs : Steady y) (hne : src ≠ y.side) :
    Steady (deliverList C y bag ks) ∧ (deliverList C y bag ks).side = y.side ∧ (deliverList C y bag ks).send = y.send ∧
    (deliverList C y bag ks).mbox.pending = y.mbox.pending ∧
    (∀ p ∈ y.mbox.processed, p ∈ (deliverList C y bag ks).mbox.processed) ∧
    (∀ k ∈ ks, ∀ e, bag[k]? = some e → e.2.1 ∈ (deliverList C y bag ks).mbox.processed) := by
  induction ks generalizing y with
  | nil => exact ⟨hs, rfl, rfl, rfl, fun _ h => h, fun k hk => by cases hk⟩
  | cons k r ih =>
    obtain ⟨e, hk, hw⟩ := hks k (by simp)
    obtain ⟨sd, p, b⟩ := e
    obtain ⟨i, pt, hp, hb⟩ := hbag _ (List.mem_of_getElem? hk) hw
    simp only at hp hb
    have hsd : sd = src := by simp [wanted] at hw; exact hw.1
    subst hp hb
    have hstep : deliverTo C y k bag = (cMboxRx C y sd (showPhase i) (C.enc sd (showPhase i) pt)).1 := by
      unfold deliverTo; rw [hk]
    obtain ⟨d1, d2, d3, d4, d5, d6⟩ := deliver_steady C hC y sd i pt hs (by rw [hsd]; exact hne)
    rw [← hstep] at d1 d2 d3 d4 d5 d6
    obtain ⟨g1, g2, g3, g4, g5, g6⟩ := ih (fun k' hk' => hks k' (by simp [hk'])) (deliverTo C y k bag) d1 (by rw [d2]; exact hne)
    have hfold : deliverList C y bag (k :: r) = deliverList C (deliverTo C y k bag) bag r := rfl
    rw [hfold]
    refine ⟨g1, g2.trans d2, g3.trans d3, g4.trans d4, fun p hp => g5 p (d6 p hp), ?_⟩
    intro k' hk' e' he'
    rcases List.mem_cons.mp hk' with hk' | hk'
    · subst hk'
      rw [hk] at he'
      injection he' with he'
      subst he'
      exact g5 _ d5
    · exact g6 k' hk' e' he'

theorem deliverIdx_spec (src : String) (bag : List (String × String × Bytes)) :
    (∀ k ∈ deliverIdx src bag, ∃ e, bag[k]? = some e ∧ wanted src e = true) ∧
    (∀ e ∈ bag, wanted src e = true → ∃ k ∈ deliverIdx src bag, bag[k]? = some e) := by
  constructor
  · intro k hk
    have := (List.mem_filter.mp hk).2
    cases hb : bag[k]? with
    | none => rw [hb] at this; cases this
    | some e => rw [hb] at this; exact ⟨e, rfl, this⟩
  · intro e he hw
    obtain ⟨k, hlt, hk⟩ := List.getElem_of_mem he
    have hk' : bag[k]? = some e := by rw [List.getElem?_eq_getElem hlt, hk]
    refine ⟨k, List.mem_filter.mpr ⟨List.mem_range.mpr hlt, ?_⟩, hk'⟩
    rw [hk']; exact hw

theorem run_delivers_b (C : Crypto) (ks : List Nat) (s : Sys) :
    Sys.run C s (ks.map (.deliver true)) = { s with b := deliverList C s.b s.bag ks } := by
  induction ks generalizing s with
  | nil => rfl
  | cons k r ih =>
    show Sys.run C (Sys.step C s (.deliver true k)) (r.map (.deliver true)) = _
    rw [ih]; rfl

theorem run_delivers_a (C : Crypto) (ks : List Nat) (s : Sys) :
    Sys.run C s (ks.map (.deliver false)) = { s with a := deliverList C s.a s.bag ks } := by
  induction ks generalizing s with
  | nil => rfl
  | cons k r ih =>
    show Sys.run C (Sys.step C s (.deliver false k)) (r.map (.deliver false)) = _
    rw [ih]; rfl

/-! ## storing everything pending -/

def evIdx (a : Ev) : List Ev → Nat
  | [] => 0
  | x :: r => if x = a then 0 else evIdx a r + 1

theorem evIdx_get (a : Ev) (l : List Ev) (h : a ∈ l) : l[evIdx a l]? = some a := by
  induction l with
  | nil => cases h
  | cons x r ih =>
    unfold evIdx
    by_cases hx : x = a
    · simp [hx]
    · simp only [hx, if_false, List.getElem?_cons_succ]
      rcases List.mem_cons.mp h with h | h
      · exact absurd h.symm hx
      · exact ih h

theorem evIdx_lt (a : Ev) (l : List Ev) (h : a ∈ l) : evIdx a l < l.length := by
  induction l with
  | nil => cases h
  | cons x r ih =>
    unfold evIdx
    by_cases hx : x = a
    · simp [hx]
    · simp only [hx, if_false, List.length_cons]
      rcases List.mem_cons.mp h with h | h
      · exact absurd h.symm hx
      · have := ih h; omega

/-- position of the LAST occurrence of `a` in the log -/
def lastIdx (a : Ev) (l : List Ev) : Nat := l.length - 1 - evIdx a l.reverse

theorem lastIdx_get (a : Ev) (l : List Ev) (h : a ∈ l) : l[lastIdx a l]? = some a := by
  have hr : a ∈ l.reverse := List.mem_reverse.mpr h
  have h1 := evIdx_get a l.reverse hr
  have h2 := evIdx_lt a l.reverse hr
  rw [List.length_reverse] at h2
  rw [List.getElem?_reverse h2] at h1
  exact h1

/-- where the client wrote the `add` of each pending message last (i.e. on its latest connection) -/
def storeIdx (c : Client) : List Nat := c.mbox.pending.map (fun e => lastIdx (.txAdd e.1 e.2) c.log)

def storeList (c : Client) (bag : List (String × String × Bytes)) (js : List Nat) : List (String × String × Bytes) :=
  js.foldl (fun bag j => storeFrom c j bag) bag

theorem storeList_mono (c : Client) (js : List Nat) (bag : List (String × String × Bytes)) :
    ∀ x ∈ bag, x ∈ storeList c bag js := by
  induction js generalizing bag with
  | nil => exact fun _ h => h
  | cons j r ih => intro x hx; exact ih _ x (storeFrom_sub c j bag x hx)

theorem storeList_spec (c : Client) (l : List (String × Bytes)) (hl : ∀ e ∈ l, Ev.txAdd e.1 e.2 ∈ c.log)
    (bag : List (String × String × Bytes)) :
    ∀ e ∈ l, (c.side, e.1, e.2) ∈ storeList c bag (l.map (fun e => lastIdx (.txAdd e.1 e.2) c.log)) := by
  induction l generalizing bag with
  | nil => intro e he; cases he
  | cons x r ih =>
    intro e he
    have hx : storeFrom c (lastIdx (.txAdd x.1 x.2) c.log) bag = bag ++ [(c.side, x.1, x.2)] := by
      unfold storeFrom; rw [lastIdx_get _ _ (hl x (by simp))]
    have hfold : storeList c bag ((x :: r).map (fun e => lastIdx (.txAdd e.1 e.2) c.log)) =
        storeList c (bag ++ [(c.side, x.1, x.2)]) (r.map (fun e => lastIdx (.txAdd e.1 e.2) c.log)) := by
      simp only [List.map_cons, storeList, List.foldl_cons, hx]
    rw [hfold]
    rcases List.mem_cons.mp he with he | he
    · subst he; exact storeList_mono c _ _ _ (by simp)
    · exact ih (fun e he => hl e (by simp [he])) _ e he

theorem run_stores_a (C : Crypto) (js : List Nat) (s : Sys) :
    Sys.run C s (js.map (.store false)) = { s with bag := storeList s.a s.bag js } := by
  induction js generalizing s with
  | nil => rfl
  | cons k r ih =>
    show Sys.run C (Sys.step C s (.store false k)) (r.map (.store false)) = _
    rw [ih]; rfl

theorem run_stores_b (C : Crypto) (js : List Nat) (s : Sys) :
    Sys.run C s (js.map (.store true)) = { s with bag := storeList s.b s.bag js } := by
  induction js generalizing s with
  | nil => rfl
  | cons k r ih =>
    show Sys.run C (Sys.step C s (.store true k)) (r.map (.store true)) = _
    rw [ih]; rfl


/-! ## reconnecting -/

/-- both have the verified key and neither has closed -/
def HasKey (c : Client) : Prop :=
  bossLive c.boss.st = true ∧ isOpen c.mbox.st = true ∧ c.recv.st = .S2_verified_key

instance (c : Client) : Decidable (HasKey c) := by unfold HasKey; infer_instance

/-- `connected` if the Mailbox waits for a connection -/
def reconnect (w : Bool) (c : Client) : List SAct :=
  if c.mbox.st = .S2A then [.op w (.mbox .connected .none)] else []

def recon (c : Client) : Client :=
  if c.mbox.st = .S2A then (cMbox c .connected MArg.none).1 else c

theorem mboxStep_connected (m : MboxD) (h : m.st = .S2A) (hk : m.mailbox = true) :
    (mboxStep m .connected MArg.none).1.st = .S2B := by
  obtain ⟨st, mb, mood, pend, proc⟩ := m
  simp only at h hk
  subst h hk
  rfl

theorem haskey_facts (c : Client) (hk : KInv c) (h : HasKey c) :
    c.boss.st = .S2_happy ∧ c.recv = ⟨.S2_verified_key, true⟩ ∧ (c.send.st = .S1_verified_key ∧ c.send.queue = []) ∧
    c.order = ⟨.S1_yes_pake, []⟩ ∧ (c.mbox.st = .S2A ∨ c.mbox.st = .S2B) := by
  obtain ⟨h1, h2, h3⟩ := h
  obtain ⟨k1, k2, k3, k4⟩ := hk.r2 h3
  have hb : c.boss.st = .S2_happy := by
    rcases boss_cases c.boss.st k3 k4 with hb | hb | hb
    · exact hb
    · rw [hb] at h1; cases h1
    · rw [hb] at h1; cases h1
  have ho : c.order.st = .S1_yes_pake := by
    cases hst : c.order.st with
    | S0_no_pake => rcases hk.o0 hst with hx | hx <;> (rw [h3] at hx; cases hx)
    | S1_yes_pake => rfl
  refine ⟨hb, ?_, ⟨k2, (hk.sk k2).2⟩, ?_, ?_⟩
  · rcases hr : c.recv with ⟨rst, rkey⟩
    rw [hr] at h3 k1; simp only at h3 k1; rw [h3, k1]
  · rcases hq : c.order with ⟨ost, oq⟩
    have := hk.o1 ho
    rw [hq] at ho this; simp only at ho this; rw [ho, this]
  · cases hm : c.mbox.st with
    | S2A => exact Or.inl rfl
    | S2B => exact Or.inr rfl
    | S0A => have := (hk.m0 (Or.inl hm)).1; rw [ho] at this; cases this
    | S0B => have := (hk.m0 (Or.inr (Or.inl hm))).1; rw [ho] at this; cases this
    | S1A => have := (hk.m0 (Or.inr (Or.inr hm))).1; rw [ho] at this; cases this
    | S3A => rw [hm] at h2; cases h2
    | S3B => rw [hm] at h2; cases h2
    | S4 => rw [hm] at h2; cases h2

/-- after the reconnect the client is steady and everything pending has been written on the connection -/
theorem recon_spec (c : Client) (E : String → Prop) (hacc : CAcc c E) (h : HasKey c) :
    Steady (recon c) ∧ CAcc (recon c) E ∧ (recon c).side = c.side ∧ (recon c).mbox.pending = c.mbox.pending := by
  obtain ⟨f1, f2, f3, f4, f5⟩ := haskey_facts c hacc.k h
  unfold recon
  by_cases hm : c.mbox.st = .S2A
  · simp only [hm, if_true]
    have hl : mboxArgOK .connected MCtl.none = true := rfl
    have hacc' := acc_mbox c E .connected .none hl hacc
    have hcl := cMbox_ctl_closed c .connected .none hl
    simp only [MCtl.toM] at hacc' hcl
    have hst := mboxStep_connected c.mbox hm (hacc.known (Or.inr (Or.inl hm)))
    have hp := (mboxStep_ctl c.mbox .connected .none hl []).2.1
    simp only [MCtl.toM] at hp
    refine ⟨?_, hacc', by rw [hcl], by rw [hcl]; exact hp⟩
    rw [hcl]
    exact ⟨f1, f2, f3, f4, hst⟩
  · simp only [hm, if_false]
    rcases f5 with f5 | f5
    · exact absurd f5 hm
    · exact ⟨⟨f1, f2, f3, f4, f5⟩, hacc, by trivial, by trivial⟩

theorem run_reconnect (C : Crypto) (s : Sys) :
    Sys.run C s (reconnect false s.a ++ reconnect true s.b) = { s with a := recon s.a, b := recon s.b } := by
  unfold reconnect recon
  by_cases h1 : s.a.mbox.st = .S2A <;> by_cases h2 : s.b.mbox.st = .S2A <;>
    simp [h1, h2, Sys.run, Sys.step, clientOp, MCtl.toM]

/-! ## the continuation -/

def drainS1 (C : Crypto) (s : Sys) : Sys := Sys.run C s (reconnect false s.a ++ reconnect true s.b)

def storeActs (s : Sys) : List SAct := (storeIdx s.a).map (.store false) ++ (storeIdx s.b).map (.store true)

def drainS2 (C : Crypto) (s : Sys) : Sys := Sys.run C (drainS1 C s) (storeActs (drainS1 C s))

def deliverActs (s : Sys) : List SAct :=
  (deliverIdx s.a.side s.bag).map (.deliver true) ++ (deliverIdx s.b.side s.bag).map (.deliver false)

/-- reconnect both, let the server store everything pending (the frames written on the new connection), let it
    deliver every stored numbered message of the peer (in the order it stored them; any order does, the receiver's
    reorder buffer sorts) -/
def drainActs (C : Crypto) (s : Sys) : List SAct :=
  (reconnect false s.a ++ reconnect true s.b) ++ storeActs (drainS1 C s) ++ deliverActs (drainS2 C s)

/-- the continuation only reconnects, stores and delivers: no `lost`, no `send_message`, no other application or
    collaborator call -/
def coop : SAct → Bool
  | .op _ (.mbox .connected .none) => true
  | .store _ _ => true
  | .deliver _ _ => true
  | _ => false

theorem coop_legal (C : Crypto) (l : List SAct) (h : ∀ a ∈ l, coop a = true) (s : Sys) : legalRun C s l = true := by
  induction l generalizing s with
  | nil => rfl
  | cons a r ih =>
    simp only [legalRun, Bool.and_eq_true]
    refine ⟨?_, ih (fun x hx => h x (by simp [hx])) _⟩
    have := h a (by simp)
    rcases a with ⟨w, o⟩ | ⟨w, j⟩ | ⟨w, k⟩
    · cases o <;> simp [coop] at this
      rename_i i a
      cases i <;> cases a <;> simp [coop] at this
      cases w <;> rfl
    · rfl
    · rfl

theorem drainActs_coop (C : Crypto) (s : Sys) : ∀ a ∈ drainActs C s, coop a = true := by
  intro a ha
  simp only [drainActs, storeActs, deliverActs, List.mem_append, List.mem_map, reconnect] at ha
  rcases ha with ((ha | ha) | (⟨j, _, rfl⟩ | ⟨j, _, rfl⟩)) | (⟨k, _, rfl⟩ | ⟨k, _, rfl⟩) <;> try rfl
  · split at ha
    · simp at ha; subst ha; rfl
    · cases ha
  · split at ha
    · simp at ha; subst ha; rfl
    · cases ha

theorem run_append (C : Crypto) (s : Sys) (a b : List SAct) : Sys.run C s (a ++ b) = Sys.run C (Sys.run C s a) b := by
  simp [Sys.run, List.foldl_append]


theorem run_drainActs (C : Crypto) (s : Sys) :
    Sys.run C s (drainActs C s) = Sys.run C (drainS2 C s) (deliverActs (drainS2 C s)) := by
  unfold drainActs
  rw [run_append, run_append]
  rfl

theorem run_storeActs (C : Crypto) (s : Sys) :
    Sys.run C s (storeActs s) = { s with bag := storeList s.b (storeList s.a s.bag (storeIdx s.a)) (storeIdx s.b) } := by
  unfold storeActs
  rw [run_append, run_stores_a, run_stores_b]

theorem run_deliverActs (C : Crypto) (s : Sys) :
    Sys.run C s (deliverActs s) =
      { s with b := deliverList C s.b s.bag (deliverIdx s.a.side s.bag),
               a := deliverList C s.a s.bag (deliverIdx s.b.side s.bag) } := by
  unfold deliverActs
  rw [run_append, run_delivers_b, run_delivers_a]

theorem bagok_wanted (C : Crypto) (x y : String) (hne : x ≠ y) (mx my : List Bytes) (e : String × String × Bytes)
    (h : MsgOK C x mx e ∨ MsgOK C y my e) (hw : wanted x e = true) :
    ∃ i pt, e.2.1 = showPhase i ∧ e.2.2 = C.enc e.1 e.2.1 pt := by
  simp only [wanted, Bool.and_eq_true, decide_eq_true_eq] at hw
  obtain ⟨hs, hn⟩ := hw
  rcases h with ⟨_, htx⟩ | ⟨hs2, _⟩
  · rcases htx with htx | ⟨i, pt, e1, _, e3⟩
    · unfold isNumeric at hn
      cases hc : classifyPhase e.2.1 with
      | numeric n => exact absurd hc (htx n)
      | version => rw [hc] at hn; cases hn
      | dilate n => rw [hc] at hn; cases hn
      | unknown => rw [hc] at hn; cases hn
    · exact ⟨i, pt, e1, by rw [hs]; exact e3⟩
  · exact absurd (hs.symm.trans hs2) hne

/-- **the continuation drains the system** -/
theorem drainActs_spec (C : Crypto) (hC : C.Ideal) (sa sb : String) (hne : sa ≠ sb) (s : Sys)
    (hinv : SysInv C sa sb s) (hacc : SysAcc sa sb s) (ha : HasKey s.a) (hb : HasKey s.b) :
    DrainedDir (Sys.run C s (drainActs C s)).a (Sys.run C s (drainActs C s)).b (Sys.run C s (drainActs C s)).bag ∧
    DrainedDir (Sys.run C s (drainActs C s)).b (Sys.run C s (drainActs C s)).a (Sys.run C s (drainActs C s)).bag ∧
    (Sys.run C s (drainActs C s)).a.mbox.st = .S2B ∧ (Sys.run C s (drainActs C s)).b.mbox.st = .S2B ∧
    (Sys.run C s (drainActs C s)).sentA = s.sentA ∧ (Sys.run C s (drainActs C s)).sentB = s.sentB := by
  -- stage 1: reconnect
  obtain ⟨sta, acca, sidea, penda⟩ := recon_spec s.a _ hacc.a ha
  obtain ⟨stb, accb, sideb, pendb⟩ := recon_spec s.b _ hacc.b hb
  have h1 : drainS1 C s = { s with a := recon s.a, b := recon s.b } := run_reconnect C s
  have inv1 : SysInv C sa sb (drainS1 C s) := sysRun_inv C hC sa sb _ s hinv
  -- stage 2: store
  have h2 := run_storeActs C (drainS1 C s)
  change drainS2 C s = _ at h2
  have inv2 : SysInv C sa sb (drainS2 C s) := sysRun_inv C hC sa sb _ _ inv1
  rw [h1] at h2
  simp only at h2
  generalize hbag2 : storeList (recon s.b) (storeList (recon s.a) s.bag (storeIdx (recon s.a))) (storeIdx (recon s.b)) = bag2 at h2
  have sa_side : (recon s.a).side = sa := sidea.trans hinv.a.rest.side_eq
  have sb_side : (recon s.b).side = sb := sideb.trans hinv.b.rest.side_eq
  have stored_a : ∀ e ∈ (recon s.a).mbox.pending, ((recon s.a).side, e.1, e.2) ∈ bag2 := by
    intro e he
    rw [← hbag2]
    apply storeList_mono
    exact storeList_spec (recon s.a) _ (fun x hx => (afterOpen_suffix _).subset (acca.plog sta.mbox x hx)) s.bag e he
  have stored_b : ∀ e ∈ (recon s.b).mbox.pending, ((recon s.b).side, e.1, e.2) ∈ bag2 := by
    intro e he
    rw [← hbag2]
    exact storeList_spec (recon s.b) _ (fun x hx => (afterOpen_suffix _).subset (accb.plog stb.mbox x hx)) _ e he
  have bagok : ∀ e ∈ bag2, MsgOK C sa s.sentA e ∨ MsgOK C sb s.sentB e := by
    intro e he
    have := inv2.bag
    rw [h2] at this
    exact this e he
  -- stage 3: deliver
  rw [run_drainActs, run_deliverActs, h2]
  simp only []
  obtain ⟨i1, i2⟩ := deliverIdx_spec (recon s.a).side bag2
  obtain ⟨j1, j2⟩ := deliverIdx_spec (recon s.b).side bag2
  obtain ⟨b1, b2, b3, b4, b5, b6⟩ := deliverList_spec C hC (recon s.a).side bag2
    (fun e he hw => bagok_wanted C sa sb hne s.sentA s.sentB e (bagok e he) (by rw [← sa_side]; exact hw))
    (deliverIdx (recon s.a).side bag2) i1 (recon s.b) stb (by rw [sa_side, sb_side]; exact hne)
  obtain ⟨a1, a2, a3, a4, a5, a6⟩ := deliverList_spec C hC (recon s.b).side bag2
    (fun e he hw => bagok_wanted C sb sa (fun h => hne h.symm) s.sentB s.sentA e (bagok e he).symm (by rw [← sb_side]; exact hw))
    (deliverIdx (recon s.b).side bag2) j1 (recon s.a) sta (by rw [sa_side, sb_side]; exact fun h => hne h.symm)
  generalize deliverList C (recon s.b) bag2 (deliverIdx (recon s.a).side bag2) = b' at *
  generalize deliverList C (recon s.a) bag2 (deliverIdx (recon s.b).side bag2) = a' at *
  refine ⟨?_, ?_, a1.mbox, b1.mbox, by trivial, by trivial⟩
  · refine ⟨by rw [a1.boss]; rfl, by rw [a1.mbox]; rfl, a1.send.2, ?_, by rw [b1.boss]; rfl, by rw [b1.recv]; simp,
      by rw [b1.order], ?_⟩
    · intro e he; rw [a4] at he; rw [a2]; exact stored_a e he
    · intro e he hs hn
      obtain ⟨k, hk, hke⟩ := i2 e he (by simp [wanted, hn, hs, a2])
      exact b6 k hk e hke
  · refine ⟨by rw [b1.boss]; rfl, by rw [b1.mbox]; rfl, b1.send.2, ?_, by rw [a1.boss]; rfl, by rw [a1.recv]; simp,
      by rw [a1.order], ?_⟩
    · intro e he; rw [b4] at he; rw [b2]; exact stored_b e he
    · intro e he hs hn
      obtain ⟨k, hk, hke⟩ := j2 e he (by simp [wanted, hn, hs, b2])
      exact a6 k hk e hke


/-! ## every step of the continuation is one a real server / network can take

`Sys` lets the server store any frame a client EVER wrote and hand a message to a client at ANY time (right for the
safety theorem).  The continuation does not use that licence: each `connected` happens at a disconnected client, each
stored frame was written after the client's latest `open` (i.e. on its current connection) while it is connected, and
each delivery goes to a client that is connected with its mailbox open. -/

/-- number of log entries up to and including the last `open` frame -/
def lastOpen (l : List Ev) : Nat := l.length - (afterOpen l).length

def clientOf (s : Sys) (w : Bool) : Client := if w then s.b else s.a

def realistic (s : Sys) : SAct → Bool
  | .op w (.mbox .connected .none) => decide ((clientOf s w).mbox.st = .S2A)
  | .store w j => decide ((clientOf s w).mbox.st = .S2B) && decide (lastOpen (clientOf s w).log ≤ j)
  | .deliver w _ => decide ((clientOf s w).mbox.st = .S2B)
  | _ => false

def realisticRun (C : Crypto) (s : Sys) : List SAct → Bool
  | [] => true
  | a :: r => realistic s a && realisticRun C (Sys.step C s a) r

theorem realisticRun_append (C : Crypto) (s : Sys) (a b : List SAct) :
    realisticRun C s (a ++ b) = (realisticRun C s a && realisticRun C (Sys.run C s a) b) := by
  induction a generalizing s with
  | nil => simp [realisticRun, Sys.run]
  | cons x r ih =>
    simp only [List.cons_append, realisticRun, ih, Bool.and_assoc]
    rfl

theorem evIdx_append_left (a : Ev) (x y : List Ev) (h : a ∈ x) : evIdx a (x ++ y) = evIdx a x := by
  induction x with
  | nil => cases h
  | cons e r ih =>
    simp only [List.cons_append, evIdx]
    by_cases he : e = a
    · simp [he]
    · simp only [he, if_false]
      rcases List.mem_cons.mp h with h | h
      · exact absurd h.symm he
      · rw [ih h]

theorem lastIdx_ge (a : Ev) (l : List Ev) (h : a ∈ afterOpen l) : lastOpen l ≤ lastIdx a l := by
  obtain ⟨p, hp⟩ := afterOpen_suffix l
  have hr : l.reverse = (afterOpen l).reverse ++ p.reverse := by
    have := congrArg List.reverse hp
    rw [List.reverse_append] at this
    exact this.symm
  have hm : a ∈ (afterOpen l).reverse := List.mem_reverse.mpr h
  have h1 := evIdx_lt a _ hm
  rw [List.length_reverse] at h1
  unfold lastIdx lastOpen
  rw [hr, evIdx_append_left a _ _ hm]
  have hlen : l.length = p.length + (afterOpen l).length := by
    have := congrArg List.length hp
    simp at this; omega
  omega

theorem realistic_stores_a (C : Crypto) (l : List (String × Bytes)) (s : Sys) (hst : s.a.mbox.st = .S2B)
    (hl : ∀ e ∈ l, Ev.txAdd e.1 e.2 ∈ afterOpen s.a.log) :
    realisticRun C s ((l.map (fun e => lastIdx (.txAdd e.1 e.2) s.a.log)).map (.store false)) = true := by
  induction l generalizing s with
  | nil => rfl
  | cons x r ih =>
    simp only [List.map_cons, realisticRun, Bool.and_eq_true]
    constructor
    · simp only [realistic, clientOf, Bool.false_eq_true, if_false, Bool.and_eq_true, decide_eq_true_eq]
      exact ⟨hst, lastIdx_ge _ _ (hl x (by simp))⟩
    · exact ih (Sys.step C s (.store false _)) hst (fun e he => hl e (by simp [he]))

theorem realistic_stores_b (C : Crypto) (l : List (String × Bytes)) (s : Sys) (hst : s.b.mbox.st = .S2B)
    (hl : ∀ e ∈ l, Ev.txAdd e.1 e.2 ∈ afterOpen s.b.log) :
    realisticRun C s ((l.map (fun e => lastIdx (.txAdd e.1 e.2) s.b.log)).map (.store true)) = true := by
  induction l generalizing s with
  | nil => rfl
  | cons x r ih =>
    simp only [List.map_cons, realisticRun, Bool.and_eq_true]
    constructor
    · simp only [realistic, clientOf, if_true, Bool.and_eq_true, decide_eq_true_eq]
      exact ⟨hst, lastIdx_ge _ _ (hl x (by simp))⟩
    · exact ih (Sys.step C s (.store true _)) hst (fun e he => hl e (by simp [he]))

theorem realistic_delivers_b (C : Crypto) (hC : C.Ideal) (src : String) (ks : List Nat) (s : Sys)
    (hbag : ∀ e ∈ s.bag, wanted src e = true → ∃ i pt, e.2.1 = showPhase i ∧ e.2.2 = C.enc e.1 e.2.1 pt)
    (hks : ∀ k ∈ ks, ∃ e, s.bag[k]? = some e ∧ wanted src e = true)
    (hs : Steady s.b) (hne : src ≠ s.b.side) :
    realisticRun C s (ks.map (.deliver true)) = true := by
  induction ks generalizing s with
  | nil => rfl
  | cons k r ih =>
    simp only [List.map_cons, realisticRun, Bool.and_eq_true]
    constructor
    · simp only [realistic, clientOf, if_true, decide_eq_true_eq]; exact hs.mbox
    · obtain ⟨g1, g2, _⟩ := deliverList_spec C hC src s.bag hbag [k]
        (by intro k' hk'; rw [List.mem_singleton] at hk'; rw [hk']; exact hks k (by simp)) s.b hs hne
      refine ih (Sys.step C s (.deliver true k)) hbag (fun k' hk' => hks k' (by simp [hk'])) g1 ?_
      show src ≠ (deliverList C s.b s.bag [k]).side
      rw [g2]; exact hne

theorem realistic_delivers_a (C : Crypto) (hC : C.Ideal) (src : String) (ks : List Nat) (s : Sys)
    (hbag : ∀ e ∈ s.bag, wanted src e = true → ∃ i pt, e.2.1 = showPhase i ∧ e.2.2 = C.enc e.1 e.2.1 pt)
    (hks : ∀ k ∈ ks, ∃ e, s.bag[k]? = some e ∧ wanted src e = true)
    (hs : Steady s.a) (hne : src ≠ s.a.side) :
    realisticRun C s (ks.map (.deliver false)) = true := by
  induction ks generalizing s with
  | nil => rfl
  | cons k r ih =>
    simp only [List.map_cons, realisticRun, Bool.and_eq_true]
    constructor
    · simp only [realistic, clientOf, Bool.false_eq_true, if_false, decide_eq_true_eq]; exact hs.mbox
    · obtain ⟨g1, g2, _⟩ := deliverList_spec C hC src s.bag hbag [k]
        (by intro k' hk'; rw [List.mem_singleton] at hk'; rw [hk']; exact hks k (by simp)) s.a hs hne
      refine ih (Sys.step C s (.deliver false k)) hbag (fun k' hk' => hks k' (by simp [hk'])) g1 ?_
      show src ≠ (deliverList C s.a s.bag [k]).side
      rw [g2]; exact hne

theorem realistic_reconnect (C : Crypto) (s : Sys) :
    realisticRun C s (reconnect false s.a ++ reconnect true s.b) = true := by
  unfold reconnect
  by_cases h1 : s.a.mbox.st = .S2A <;> by_cases h2 : s.b.mbox.st = .S2A <;>
    simp [h1, h2, realisticRun, realistic, clientOf, Sys.step]

/-- **the continuation is realistic** -/
theorem drainActs_realistic (C : Crypto) (hC : C.Ideal) (sa sb : String) (hne : sa ≠ sb) (s : Sys)
    (hinv : SysInv C sa sb s) (hacc : SysAcc sa sb s) (ha : HasKey s.a) (hb : HasKey s.b) :
    realisticRun C s (drainActs C s) = true := by
  obtain ⟨sta, acca, sidea, penda⟩ := recon_spec s.a _ hacc.a ha
  obtain ⟨stb, accb, sideb, pendb⟩ := recon_spec s.b _ hacc.b hb
  have h1 : drainS1 C s = { s with a := recon s.a, b := recon s.b } := run_reconnect C s
  have inv1 : SysInv C sa sb (drainS1 C s) := sysRun_inv C hC sa sb _ s hinv
  have h2 := run_storeActs C (drainS1 C s)
  change drainS2 C s = _ at h2
  have inv2 : SysInv C sa sb (drainS2 C s) := sysRun_inv C hC sa sb _ _ inv1
  have sa_side : (recon s.a).side = sa := sidea.trans hinv.a.rest.side_eq
  have sb_side : (recon s.b).side = sb := sideb.trans hinv.b.rest.side_eq
  have e1 : Sys.run C s (reconnect false s.a ++ reconnect true s.b) = drainS1 C s := rfl
  have e2 : Sys.run C s ((reconnect false s.a ++ reconnect true s.b) ++ storeActs (drainS1 C s)) = drainS2 C s := by
    rw [run_append]; rfl
  unfold drainActs
  rw [realisticRun_append, realisticRun_append, e2, e1]
  simp only [Bool.and_eq_true]
  refine ⟨⟨realistic_reconnect C s, ?_⟩, ?_⟩
  · -- stores
    unfold storeActs
    rw [realisticRun_append, run_stores_a, Bool.and_eq_true]
    rw [h1]
    exact ⟨realistic_stores_a C _ _ sta.mbox (acca.plog sta.mbox), realistic_stores_b C _ _ stb.mbox (accb.plog stb.mbox)⟩
  · -- deliveries
    have bagok : ∀ e ∈ (drainS2 C s).bag, MsgOK C sa s.sentA e ∨ MsgOK C sb s.sentB e := by
      intro e he
      have := inv2.bag e he
      rw [h2, h1] at this
      exact this
    have e2a : (drainS2 C s).a = recon s.a := by rw [h2, h1]
    have e2b : (drainS2 C s).b = recon s.b := by rw [h2, h1]
    unfold deliverActs
    rw [realisticRun_append, run_delivers_b, Bool.and_eq_true]
    obtain ⟨i1, _⟩ := deliverIdx_spec (drainS2 C s).a.side (drainS2 C s).bag
    obtain ⟨j1, _⟩ := deliverIdx_spec (drainS2 C s).b.side (drainS2 C s).bag
    refine ⟨realistic_delivers_b C hC _ _ _ ?_ i1 (by rw [e2b]; exact stb) (by rw [e2a, e2b, sa_side, sb_side]; exact hne),
      realistic_delivers_a C hC _ _ _ ?_ j1 (by show Steady (drainS2 C s).a; rw [e2a]; exact sta)
        (by show (drainS2 C s).b.side ≠ (drainS2 C s).a.side; rw [e2a, e2b, sa_side, sb_side]; exact fun h => hne h.symm)⟩
    · intro e he hw
      exact bagok_wanted C sa sb hne s.sentA s.sentB e (bagok e he) (by rw [e2a, sa_side] at hw; exact hw)
    · intro e he hw
      exact bagok_wanted C sb sa (fun h => hne h.symm) s.sentB s.sentA e (bagok e he).symm (by rw [e2b, sb_side] at hw; exact hw)

end WV.Proofs.C09
