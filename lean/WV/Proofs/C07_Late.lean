import WV.Proofs.C07_Duo
import WV.Proofs.C07_Once
import WV.Proofs.C07_Live

/-! Late contenders (`WV.C07.evAccept`, `runL`, `drunL`): connections that reach the
`InboundConnectionFactory` after the selection was made.  The invariants of the one-sided and of the
two-sided world are preserved by them; a late key holder is answered `nevermind`, whatever the
chunking of its handshake. -/
namespace WV.Proofs.C07
open WV WV.C07

/-! ### what `dataReceived` does to a loser, exactly -/

theorem dr_hungUp {cfg : Cfg} {w : Option Nat} {i : Nat} {c : Conn} {d : Bytes} (hst : c.state = .hungUp) :
    dataRecv cfg w i c d =
      ({ winner := w, c := { c with buf := c.buf ++ d, rx := c.rx ++ d }, fired := none }, none) := by
  rw [dataRecv_eq]
  simp [arms_eq, runArms, runArm, hst, wrap]

/-- the last byte of the expected handshake arrives on a Sender's connection while `_winner` is set:
    `nevermind` is written, the connection hangs up, nothing fires, `_winner` stays -/
theorem dr_hs_done_loser {cfg : Cfg} {j i : Nat} {c : Conn} {d r : Bytes}
    (hst : c.state = .handshake) (hs : cfg.isSender = true)
    (hc : checkAndRemove (c.buf ++ d) cfg.expectThis = some (true, r)) :
    (dataRecv cfg (some j) i c d).1.winner = some j ∧ (dataRecv cfg (some j) i c d).1.fired = none ∧
    (dataRecv cfg (some j) i c d).2 = none ∧
    (dataRecv cfg (some j) i c d).1.c.out = c.out ++ [Gen.Transit.NEVERMIND] ∧
    (dataRecv cfg (some j) i c d).1.c.state = .hungUp ∧
    (dataRecv cfg (some j) i c d).1.c.lost = c.lost + 1 ∧
    (dataRecv cfg (some j) i c d).1.c.negD = c.negD := by
  rw [dataRecv_eq]
  simp [arms_eq, runArms, runArm, hst, hc, connectionReady, Gen.Transit.connection_ready_checks_winner, hs, wrap]

/-- in `hung up` every further chunk only grows the buffer -/
theorem feed_hungUp {cfg : Cfg} {i : Nat} (chunks : List Bytes) :
    ∀ (w : Option Nat) (c : Conn), c.state = .hungUp →
      (chunks.foldl (feedStep cfg i) (w, c)).1 = w ∧
      (chunks.foldl (feedStep cfg i) (w, c)).2.out = c.out ∧
      (chunks.foldl (feedStep cfg i) (w, c)).2.state = .hungUp ∧
      (chunks.foldl (feedStep cfg i) (w, c)).2.lost = c.lost ∧
      (chunks.foldl (feedStep cfg i) (w, c)).2.negD = c.negD := by
  induction chunks with
  | nil => intro w c h; exact ⟨rfl, rfl, h, rfl, rfl⟩
  | cons d rest ih =>
    intro w c hst
    simp only [List.foldl_cons]
    have hE : feedStep cfg i (w, c) d = (w, { c with buf := c.buf ++ d, rx := c.rx ++ d }) := by
      unfold feedStep; rw [dr_hungUp hst]
    rw [hE]
    exact ih w _ hst

/-- **a late key holder is refused, for every chunking.**  A Sender's connection that waits for the
    handshake while `_winner` is set (to whomever) and is fed — in any pieces — a stream that starts
    with the expected handshake: `nevermind` is written behind what it had written, it hangs up,
    `loseConnection()` is called, its negotiation does not succeed, `_winner` is untouched. -/
theorem feed_loser {cfg : Cfg} {i j : Nat} (hs : cfg.isSender = true) (chunks : List Bytes) :
    ∀ (c : Conn), CInv cfg (some j) i c → c.state = .handshake →
      cfg.expectThis <+: c.buf ++ chunks.flatten →
      (chunks.foldl (feedStep cfg i) (some j, c)).1 = some j ∧
      (chunks.foldl (feedStep cfg i) (some j, c)).2.out = c.out ++ [Gen.Transit.NEVERMIND] ∧
      (chunks.foldl (feedStep cfg i) (some j, c)).2.state = .hungUp ∧
      (chunks.foldl (feedStep cfg i) (some j, c)).2.lost = c.lost + 1 ∧
      (chunks.foldl (feedStep cfg i) (some j, c)).2.negD = c.negD := by
  induction chunks with
  | nil =>
    intro c hc hst hp
    exfalso
    have := (hc.hs hst).2.2.2
    have h2 := hp.length_le
    simp at h2; omega
  | cons d rest ih =>
    intro c hc hst hp
    simp only [List.foldl_cons]
    have ht := dataRecv_ok (cfg := cfg) (w0 := some j) (i := i) d hc
    have hp' : cfg.expectThis <+: (c.buf ++ d) ++ rest.flatten := by
      simpa [List.append_assoc] using hp
    rcases cmp_cases hp' with h1 | ⟨h1, h2⟩
    · have hcar := car_of_prefix h1
      obtain ⟨e1, _, _, e4, e5, e6, e7⟩ := dr_hs_done_loser (cfg := cfg) (j := j) (i := i) hst hs hcar
      have hfs : feedStep cfg i (some j, c) d = (some j, (dataRecv cfg (some j) i c d).1.c) := by
        unfold feedStep; simp only []; rw [e1]
      rw [hfs]
      obtain ⟨f1, f2, f3, f4, f5⟩ := feed_hungUp (cfg := cfg) (i := i) rest (some j) _ e5
      exact ⟨f1, by rw [f2, e4], f3, by rw [f4, e6], by rw [f5, e7]⟩
    · have hcar := car_of_strict h1 h2
      have hE := dr_hs_wait (cfg := cfg) (w := some j) (i := i) hst hcar
      have hinv := ht.inv
      unfold feedStep
      simp only []
      rw [hE] at hinv ⊢
      exact ih _ hinv hst hp'

/-! ### the one-sided world with late contenders -/

theorem WInv_evAccept {w : World} (h : WInv w) {p : World × Option Err} (hp : evAccept w = some p) :
    WInv p.1 := by
  unfold evAccept at hp
  split at hp
  · split at hp
    · cases hp; exact WInv_addConn h none none (Or.inl rfl)
    · cases hp; exact WInv_addOrphan h
  · cases hp

theorem WInv_stepL {w : World} (h : WInv w) (e : LEvent) : WInv (stepL w e) := by
  cases e with
  | ev e => exact WInv_step h e
  | accept =>
    simp only [stepL]
    cases hE : evAccept w with
    | none => exact h
    | some p => exact WInv_evAccept h hE

theorem WInv_runL {w : World} (h : WInv w) (evs : List LEvent) : WInv (runL w evs) := by
  induction evs generalizing w with
  | nil => exact h
  | cons e rest ih => exact ih (WInv_stepL h e)

theorem evAccept_cfg {w : World} {p : World × Option Err} (hE : evAccept w = some p) : p.1.cfg = w.cfg := by
  unfold evAccept at hE
  split at hE
  · split at hE
    · cases hE; exact addConn_cfg _ _ _
    · cases hE; rfl
  · cases hE

theorem stepL_cfg (w : World) (e : LEvent) : (stepL w e).cfg = w.cfg := by
  cases e with
  | ev e => exact step_cfg w e
  | accept =>
    simp only [stepL]
    cases hE : evAccept w with
    | none => rfl
    | some p => exact evAccept_cfg hE

theorem runL_cfg (w : World) (evs : List LEvent) : (runL w evs).cfg = w.cfg := by
  induction evs generalizing w with
  | nil => rfl
  | cons e rest ih =>
    show (runL (stepL w e) rest).cfg = w.cfg
    rw [ih, stepL_cfg]

theorem reachL (cfg : Cfg) (l : Bool) (d : Nat) (r : List Nat) (evs : List LEvent) :
    WInv (runL (initWorld cfg l d r) evs) ∧ (runL (initWorld cfg l d r) evs).cfg = cfg :=
  ⟨WInv_runL (WInv_init cfg l d r) evs, runL_cfg _ _⟩

theorem runL_map_ev (w : World) (l : List Event) : runL w (l.map LEvent.ev) = run w l := by
  induction l generalizing w with
  | nil => rfl
  | cons e rest ih => exact ih (step w e)

theorem runL_append (w : World) (a b : List LEvent) : runL (runL w a) b = runL w (a ++ b) := by
  unfold runL; rw [List.foldl_append]

/-! #### `connect()` still returns only a negotiated connection, and fires once -/

theorem evAccept_RS {w : World} (hI : WInv w) (h : RS w) {p : World × Option Err} (hE : evAccept w = some p) :
    RS p.1 := by
  unfold evAccept at hE
  split at hE
  · split at hE
    · cases hE; exact addConn_RS hI h _ _
    · cases hE
      unfold addOrphan
      refine h.of ?_ rfl rfl rfl
      intro j ⟨c, hc, ho⟩
      have hj : j ≠ w.n := by
        intro e; subst e; rw [hI.bound w.n (Nat.le_refl _)] at hc; cases hc
      exact ⟨c, by simp [World.setConn, hj, hc], ho⟩
  · cases hE

theorem stepL_RS {w : World} (hI : WInv w) (h : RS w) (e : LEvent) : RS (stepL w e) := by
  cases e with
  | ev e => exact step_RS hI h e
  | accept =>
    simp only [stepL]
    cases hE : evAccept w with
    | none => exact h
    | some p => exact evAccept_RS hI h hE

theorem runL_RS {w : World} (hI : WInv w) (h : RS w) (evs : List LEvent) : RS (runL w evs) := by
  induction evs generalizing w with
  | nil => exact h
  | cons e rest ih => exact ih (WInv_stepL hI e) (stepL_RS hI h e)

theorem evAccept_FOK {w : World} {p : World × Option Err} (h : FOK w) (hE : evAccept w = some p) : FOK p.1 := by
  unfold evAccept at hE
  split at hE
  · split at hE
    · cases hE; exact addConn_FOK _ _ _ h
    · cases hE; exact h.of_eq rfl rfl
  · cases hE

theorem stepL_FOK (w : World) (e : LEvent) (h : FOK w) : FOK (stepL w e) := by
  cases e with
  | ev e => exact step_FOK w e h
  | accept =>
    simp only [stepL]
    cases hE : evAccept w with
    | none => exact h
    | some p => exact evAccept_FOK h hE

theorem runL_FOK (w : World) (evs : List LEvent) (h : FOK w) : FOK (runL w evs) := by
  induction evs generalizing w with
  | nil => exact h
  | cons e rest ih => exact ih _ (stepL_FOK w e h)

/-! #### a failed negotiation still means a closed connection -/

theorem W8_evAccept {w : World} (hI : WInv w) (h : W8 w) {p : World × Option Err}
    (hE : evAccept w = some p) : W8 p.1 := by
  unfold evAccept at hE
  split at hE
  · split at hE
    · cases hE; exact W8_addConn hI h _ _
    · cases hE
      unfold addOrphan
      intro j c hc
      simp only [World.setConn] at hc
      by_cases hj : j = w.n
      · subst hj; simp at hc; subst hc; intro e _; left; simp
      · simp [hj] at hc; exact h j c hc
  · cases hE

theorem W8_stepL {w : World} (hI : WInv w) (h : W8 w) (e : LEvent) : W8 (stepL w e) := by
  cases e with
  | ev e => exact W8_step hI h e
  | accept =>
    simp only [stepL]
    cases hE : evAccept w with
    | none => exact h
    | some p => exact W8_evAccept hI h hE

theorem W8_runL {w : World} (hI : WInv w) (h : W8 w) (evs : List LEvent) : W8 (runL w evs) := by
  induction evs generalizing w with
  | nil => exact h
  | cons e rest ih => exact ih (WInv_stepL hI e) (W8_stepL hI h e)

/-! #### `_winner` is final -/

theorem applyCtx_winner (w : World) (i : Nat) (x : Ctx) : (applyCtx w i x).winner = x.winner := by
  unfold applyCtx
  simp only []
  split
  · exact (negFired_quiet _ _ _).winner
  · rfl

theorem addConn_winner {w : World} (hI : WInv w) (rh : Option Bytes) (ow : Option Nat) {j : Nat}
    (hj : w.winner = some j) : (addConn w rh ow).1.winner = some j := by
  have hw : w.winner ≠ some w.n := by
    intro hh; have := hI.winner _ hh; omega
  have h2 := (startNeg_ok (cfg := w.cfg) (w0 := w.winner) (i := w.n) rh ow
    (w.now + Gen.Transit.TIMEOUT_s, w.seq) hw).2.1
  unfold addConn
  simp only []
  cases ow <;> (simp only []; rw [applyCtx_winner]; rcases h2 with e | ⟨e, _⟩
                · rw [e]; exact hj
                · rw [hj] at e; cases e)

theorem evInbound_winner {w : World} (hI : WInv w) {j : Nat} (hj : w.winner = some j)
    {p : World × Option Err} (hE : evInbound w = some p) : p.1.winner = some j := by
  unfold evInbound at hE
  split at hE
  · split at hE
    · cases hE; exact addConn_winner hI _ _ hj
    · cases hE; simpa [addOrphan, World.setConn] using hj
  · cases hE

theorem evAccept_winner {w : World} (hI : WInv w) {j : Nat} (hj : w.winner = some j)
    {p : World × Option Err} (hE : evAccept w = some p) : p.1.winner = some j := by
  unfold evAccept at hE
  split at hE
  · split at hE
    · cases hE; exact addConn_winner hI _ _ hj
    · cases hE; simpa [addOrphan, World.setConn] using hj
  · cases hE

theorem evConnected_winner {w : World} (hI : WInv w) {j k : Nat} (hj : w.winner = some j)
    {p : World × Option Err} (hE : evConnected w k = some p) : p.1.winner = some j := by
  unfold evConnected at hE
  split at hE
  · split at hE
    · cases hE; exact addConn_winner hI _ _ hj
    · cases hE
  · cases hE

theorem step_winner {w : World} (hI : WInv w) (e : Event) {j : Nat} (hj : w.winner = some j) :
    (step w e).winner = some j := by
  have ofQ : ∀ w', Quiet w w' → w'.winner = some j := fun w' q => by rw [q.winner]; exact hj
  cases e with
  | inbound =>
    simp only [step]
    cases hE : evInbound w with
    | none => exact hj
    | some p => exact evInbound_winner hI hj hE
  | connect =>
    simp only [step]
    split
    · cases hE : evConnect w with
      | none => exact hj
      | some w' => exact ofQ _ (evConnect_quiet hE)
    · exact hj
  | connected k =>
    simp only [step]
    cases hE : evConnected w k with
    | none => exact hj
    | some p => exact evConnected_winner hI hj hE
  | connFail k e =>
    simp only [step]
    cases hE : evConnFail w k e with
    | none => exact hj
    | some w' => exact ofQ _ (evConnFail_quiet hE)
  | data i d =>
    simp only [step, evData]
    cases hci : w.conns i with
    | none => exact hj
    | some c =>
      simp only []
      rw [applyCtx_winner]
      have ht := dataRecv_ok (cfg := w.cfg) (w0 := w.winner) (i := i) d (hI.conns i c hci)
      rcases ht.win with e | ⟨e, _⟩
      · rw [e]; exact hj
      · simp only [] at e; rw [hj] at e; cases e
  | lost i => exact ofQ _ (evLost_quiet w i)
  | advance dt => exact ofQ _ (evAdvance_quiet w dt)
  | setKey => exact hj

theorem stepL_winner {w : World} (hI : WInv w) (e : LEvent) {j : Nat} (hj : w.winner = some j) :
    (stepL w e).winner = some j := by
  cases e with
  | ev e => exact step_winner hI e hj
  | accept =>
    simp only [stepL]
    cases hE : evAccept w with
    | none => exact hj
    | some p => exact evAccept_winner hI hj hE

theorem runL_winner {w : World} (hI : WInv w) (evs : List LEvent) {j : Nat} (hj : w.winner = some j) :
    (runL w evs).winner = some j := by
  induction evs generalizing w with
  | nil => exact hj
  | cons e rest ih => exact ih (WInv_stepL hI e) (stepL_winner hI e hj)

/-! #### what a late contender looks like when it arrives -/

theorem evAccept_keep {w : World} (hI : WInv w) {p : World × Option Err} (hE : evAccept w = some p) :
    Keep w p.1 := by
  unfold evAccept at hE
  split at hE
  · split at hE
    · cases hE; exact addConn_keep hI _ _
    · cases hE
      intro j c hc
      have hj : j ≠ w.n := by
        intro e; subst e; rw [hI.bound w.n (Nat.le_refl _)] at hc; cases hc
      exact ⟨c, by simp [addOrphan, World.setConn, hj, hc], rfl, rfl, rfl⟩
  · cases hE

theorem evAccept_new {w : World} (hI : WInv w) {p : World × Option Err} (hE : evAccept w = some p) :
    WInv p.1 ∧ Keep w p.1 ∧ ∃ c', p.1.conns w.n = some c' ∧ c'.rx = [] ∧ c'.relayHs.isSome = false := by
  refine ⟨WInv_evAccept hI hE, evAccept_keep hI hE, ?_⟩
  unfold evAccept at hE
  split at hE
  · split at hE
    · cases hE
      obtain ⟨c', h1, h2, h3, _⟩ := addConn_new hI none none
      exact ⟨c', h1, h2, by rw [h3]; rfl⟩
    · cases hE
      refine ⟨{ newConn none none (w.now + Gen.Transit.TIMEOUT_s, w.seq) with
          state := .hungUp, timer := none, err := some .assertion, lost := 1, negD := .fail .assertion }, ?_, rfl, rfl⟩
      simp [addOrphan, World.setConn]
      decide
  · cases hE

/-! ### the two-sided world with late contenders -/

theorem LInv_keepS {d : Duo} (h : LInv d) {s' : World} (hW : WInv s') (hK : Keep d.s s') :
    LInv { d with s := s' } := by
  refine ⟨hW, h.wr, ?_, h.injS, h.injR⟩
  intro L hL
  obtain ⟨a, b, ha, hb, h1, h2, h3, h4⟩ := (h.ok L hL).ex
  obtain ⟨a', ha', ho, hr, hx⟩ := hK L.sEnd a ha
  exact ⟨a', b, ha', hb, by rw [ho]; exact h1, by rw [hx]; exact h2, by rw [hr]; exact h3, h4⟩

theorem LInv_keepR {d : Duo} (h : LInv d) {r' : World} (hW : WInv r') (hK : Keep d.r r') :
    LInv { d with r := r' } := by
  refine ⟨h.ws, hW, ?_, h.injS, h.injR⟩
  intro L hL
  obtain ⟨a, b, ha, hb, h1, h2, h3, h4⟩ := (h.ok L hL).ex
  obtain ⟨b', hb', ho, hr, hx⟩ := hK L.rEnd b hb
  exact ⟨a, b', ha, hb', by rw [hx]; exact h1, by rw [ho]; exact h2, h3, by rw [hr]; exact h4⟩

theorem LInv_dstepL {d : Duo} (h : LInv d) (ev : LDEvent) : LInv (dstepL d ev) := by
  cases ev with
  | d e => exact LInv_dstep h e
  | sAccept =>
    simp only [dstepL]
    cases hE : evAccept d.s with
    | none => exact h
    | some p =>
      obtain ⟨s', x⟩ := p
      exact LInv_keepS h (WInv_evAccept h.ws hE) (evAccept_keep h.ws hE)
  | rAccept =>
    simp only [dstepL]
    cases hE : evAccept d.r with
    | none => exact h
    | some p =>
      obtain ⟨r', x⟩ := p
      exact LInv_keepR h (WInv_evAccept h.wr hE) (evAccept_keep h.wr hE)
  | lateLinkS k =>
    simp only [dstepL]
    split
    · rename_i hk
      apply LInv_mkLink h false
      · intro p hp; exact evAccept_new h.ws hp
      · intro p hp
        obtain ⟨h1, h2, c', h3, h4, h5⟩ := evConnected_new h.wr hp
        exact ⟨h1, h2, c', h3, h4, by rw [h5, hk]; rfl⟩
    · exact h

theorem LInv_drunL {d : Duo} (h : LInv d) (evs : List LDEvent) : LInv (drunL d evs) := by
  induction evs generalizing d with
  | nil => exact h
  | cons e rest ih => exact ih (LInv_dstepL h e)

theorem dstepL_sides (d : Duo) (ev : LDEvent) :
    (∃ l, (dstepL d ev).s = runL d.s l) ∧ (∃ l, (dstepL d ev).r = runL d.r l) := by
  cases ev with
  | d e =>
    obtain ⟨⟨l1, h1⟩, ⟨l2, h2⟩⟩ := dstep_sides d e
    exact ⟨⟨l1.map .ev, by rw [runL_map_ev]; exact h1⟩, ⟨l2.map .ev, by rw [runL_map_ev]; exact h2⟩⟩
  | sAccept =>
    simp only [dstepL]
    cases hE : evAccept d.s with
    | none => exact ⟨⟨[], rfl⟩, ⟨[], rfl⟩⟩
    | some p => exact ⟨⟨[.accept], by simp [runL, stepL, hE]⟩, ⟨[], rfl⟩⟩
  | rAccept =>
    simp only [dstepL]
    cases hE : evAccept d.r with
    | none => exact ⟨⟨[], rfl⟩, ⟨[], rfl⟩⟩
    | some p => exact ⟨⟨[], rfl⟩, ⟨[.accept], by simp [runL, stepL, hE]⟩⟩
  | lateLinkS k =>
    simp only [dstepL]
    split
    · unfold mkLink
      cases hps : evAccept d.s with
      | none => exact ⟨⟨[], rfl⟩, ⟨[], rfl⟩⟩
      | some p =>
        cases hpr : evConnected d.r k with
        | none => exact ⟨⟨[], rfl⟩, ⟨[], rfl⟩⟩
        | some q =>
          obtain ⟨s', x⟩ := p
          obtain ⟨r', y⟩ := q
          exact ⟨⟨[.accept], by simp [runL, stepL, hps]⟩,
                 ⟨[.ev (.connected k)], by simp [runL, stepL, step, hpr]⟩⟩
    · exact ⟨⟨[], rfl⟩, ⟨[], rfl⟩⟩

theorem drunL_sides (d : Duo) (evs : List LDEvent) :
    (∃ l, (drunL d evs).s = runL d.s l) ∧ (∃ l, (drunL d evs).r = runL d.r l) := by
  induction evs generalizing d with
  | nil => exact ⟨⟨[], rfl⟩, ⟨[], rfl⟩⟩
  | cons e rest ih =>
    obtain ⟨⟨l1, h1⟩, ⟨l2, h2⟩⟩ := dstepL_sides d e
    obtain ⟨⟨l3, h3⟩, ⟨l4, h4⟩⟩ := ih (dstepL d e)
    refine ⟨⟨l1 ++ l3, ?_⟩, ⟨l2 ++ l4, ?_⟩⟩
    · show (drunL (dstepL d e) rest).s = _
      rw [h3, h1, runL_append]
    · show (drunL (dstepL d e) rest).r = _
      rw [h4, h2, runL_append]

end WV.Proofs.C07
