import WV.Model.C17

/-!
C17 helper lemmas, part 1: the control-relevant projection of the world (`core`), the monotone
order on the connection table (`ConnsLe`) and what each building block of the model does to them.
-/
namespace WV.Proofs.C17
open WV WV.Gen WV.C17

/-- the fields the control invariant talks about -/
structure Core where
  hasMgr : Bool
  ms : Manager.State
  role : Option Bool
  key : Bool
  pKey : Bool
  pMsgs : List Msg
  ctors : List Connector.State
  conn : Option Nat
  conns : List Conn
  fired : Bool
  stoppedObs : Nat
  queue : List Thunk
  ts : Terminator.State
  closed : Nat
  mySide : String

def core (w : World) : Core :=
  { hasMgr := w.hasMgr, ms := w.ms, role := w.role, key := w.key, pKey := w.pKey, pMsgs := w.pMsgs, ctors := w.ctors,
    conn := w.conn, conns := w.conns, fired := w.fired, stoppedObs := w.stoppedObs, queue := w.queue, ts := w.ts,
    closed := w.closed, mySide := w.mySide }

theorem set_self {α} (l : List α) (g : Nat) (a : α) (h : l[g]? = some a) : l.set g a = l := by
  induction l generalizing g with
  | nil => simp
  | cons x xs ih =>
    cases g with
    | zero => simp at h; simp [h]
    | succ g => simp at h; simp [ih g h]

/-! ## monotone evolution of the connection table: nothing is un-lost, un-closed or un-armed -/

def ConnsLe (a b : List Conn) : Prop :=
  ∀ (c : Nat) (x : Conn), a[c]? = some x → ∃ y : Conn, b[c]? = some y ∧ y.lost = x.lost ∧ (x.obsMgr = true → y.obsMgr = true) ∧
    (x.closing = true → y.closing = true)

theorem ConnsLe.refl (a : List Conn) : ConnsLe a a := fun _ x h => ⟨x, h, rfl, id, id⟩

theorem ConnsLe.trans {a b c : List Conn} (h1 : ConnsLe a b) (h2 : ConnsLe b c) : ConnsLe a c := by
  intro i x hx
  obtain ⟨y, hy, e1, o1, c1⟩ := h1 i x hx
  obtain ⟨z, hz, e2, o2, c2⟩ := h2 i y hy
  exact ⟨z, hz, e2.trans e1, fun h => o2 (o1 h), fun h => c2 (c1 h)⟩

theorem ConnsLe.map (a : List Conn) (f : Conn → Conn)
    (hf : ∀ x, (f x).lost = x.lost ∧ (x.obsMgr = true → (f x).obsMgr = true) ∧ (x.closing = true → (f x).closing = true)) :
    ConnsLe a (a.map f) := by
  intro i x hx
  exact ⟨f x, by simp [hx], (hf x).1, (hf x).2.1, (hf x).2.2⟩

theorem ConnsLe.modify (a : List Conn) (k : Nat) (f : Conn → Conn)
    (hf : ∀ x, (f x).lost = x.lost ∧ (x.obsMgr = true → (f x).obsMgr = true) ∧ (x.closing = true → (f x).closing = true)) :
    ConnsLe a (a.modify k f) := by
  intro i x hx
  by_cases h : k = i
  · exact ⟨f x, by simp [List.getElem?_modify, hx, h], (hf x).1, (hf x).2.1, (hf x).2.2⟩
  · exact ⟨x, by simp [List.getElem?_modify, hx, h], rfl, id, id⟩

theorem ConnsLe.append (a b : List Conn) : ConnsLe a (a ++ b) := by
  intro i x hx
  obtain ⟨hlt, _⟩ := List.getElem?_eq_some_iff.mp hx
  exact ⟨x, by rw [List.getElem?_append_left hlt]; exact hx, rfl, id, id⟩

/-! ## Connector building blocks -/

theorem stopEverything_core (g : Nat) (w : World) :
    ∃ cs, ConnsLe w.conns cs ∧ core (stopEverything g w) = { core w with conns := cs } := by
  refine ⟨_, ?_, rfl⟩
  simp only [stopEverything, breakCycles, stopPendingConnections, stopPendingConnectors, stopListeners]
  refine ConnsLe.trans (ConnsLe.map _ _ ?_) (ConnsLe.map _ _ ?_)
  · intro x; split <;> simp
  · intro x; split <;> simp

theorem selectStops_core (g c : Nat) (w : World) :
    ∃ cs, ConnsLe w.conns cs ∧
      core (stopPendingConnections g (stopPendingConnectors g (stopListeners g
        { w with conns := w.conns.modify c fun x => { x with tracked := false } }))) = { core w with conns := cs } := by
  refine ⟨_, ?_, rfl⟩
  simp only [stopPendingConnections, stopPendingConnectors, stopListeners]
  refine ConnsLe.trans (ConnsLe.modify _ _ _ ?_) (ConnsLe.map _ _ ?_)
  · intro x; simp
  · intro x; split <;> simp

theorem disconnect_core (c : Nat) (w : World) :
    ConnsLe w.conns (disconnect c w).conns ∧ core (disconnect c w) = { core w with conns := (disconnect c w).conns } := by
  refine ⟨?_, rfl⟩
  simp only [disconnect]
  exact ConnsLe.modify _ _ _ (by intro x; simp)

theorem disconnect_closing (c : Nat) (w : World) (x : Conn) (h : w.conns[c]? = some x) :
    ∃ y, (disconnect c w).conns[c]? = some y ∧ y.closing = true ∧ y.lost = x.lost ∧ y.obsMgr = x.obsMgr := by
  refine ⟨{ x with closing := true }, ?_, rfl, rfl, rfl⟩
  simp [disconnect, List.getElem?_modify, h]

theorem sendGen_core (s : String) (w : World) : core (sendGen s w) = core w := rfl
theorem emit_core (s : String) (w : World) : core (emit s w) = core w := rfl

theorem logged_core (r : Res) : core (logged r) = core r.1 := by
  obtain ⟨w, e⟩ := r
  cases e <;> rfl

/-- the Manager's three inputs to its Connector, by Connector state -/
theorem cInput_none (made) (g : Nat) (i : Connector.Input) (a : Nat) (w : World) (h : w.ctors[g]? = none) :
    cInput made g i a w = (w, some .attribute) := by
  simp [cInput, h]

theorem listenerReady_connecting (g : Nat) (w : World) (h : w.ctors[g]? = some .connecting) :
    cInput noMade g .listener_ready 0 w = (sendGen "connection-hints" w, none) := by
  simp [cInput, h, Connector.table, cOuts, cOut, andThen, set_self _ _ _ h]

theorem listenerReady_connected (g : Nat) (w : World) (h : w.ctors[g]? = some .connected) :
    cInput noMade g .listener_ready 0 w = (w, none) := by
  simp [cInput, h, Connector.table, cOuts, set_self _ _ _ h]

theorem listenerReady_stopped (g : Nat) (w : World) (h : w.ctors[g]? = some .stopped) :
    cInput noMade g .listener_ready 0 w = (w, some .noTransition) := by
  simp [cInput, h, Connector.table]

theorem listenerReady_core (g : Nat) (w : World) : core (logged (cInput noMade g .listener_ready 0 w)) = core w := by
  cases h : w.ctors[g]? with
  | none => rw [cInput_none _ _ _ _ _ h]; rfl
  | some st =>
    cases st
    · rw [listenerReady_connected _ _ h]; rfl
    · rw [listenerReady_connecting _ _ h]; rfl
    · rw [listenerReady_stopped _ _ h]; rfl

theorem gotHints_core (g n : Nat) (w : World) : core (cInput noMade g .got_hints n w).1 = core w := by
  cases h : w.ctors[g]? with
  | none => rw [cInput_none _ _ _ _ _ h]
  | some st =>
    cases st <;> simp [cInput, h, Connector.table, cOuts, cOut, andThen, set_self _ _ _ h, core]

theorem gotHints_ok (g n : Nat) (w : World) (st : Connector.State) (h : w.ctors[g]? = some st) (hs : st ≠ .stopped) :
    (cInput noMade g .got_hints n w).2 = none := by
  cases st <;> simp_all [cInput, Connector.table, cOuts, cOut, andThen]

theorem stop_core (g : Nat) (w : World) (st : Connector.State) (h : w.ctors[g]? = some st) (hs : st ≠ .stopped) :
    (cInput noMade g .k_stop 0 w).2 = none ∧
    ∃ cs, ConnsLe w.conns cs ∧ core (cInput noMade g .k_stop 0 w).1 = { core w with ctors := w.ctors.set g .stopped, conns := cs } := by
  cases st
  · refine ⟨by simp [cInput, h, Connector.table, cOuts, cOut, andThen], ?_⟩
    simp only [cInput, h, Connector.table, cOuts, cOut, andThen]
    obtain ⟨cs, h1, h2⟩ := stopEverything_core g { w with ctors := w.ctors.set g .stopped }
    exact ⟨cs, h1, h2⟩
  · refine ⟨by simp [cInput, h, Connector.table, cOuts, cOut, andThen], ?_⟩
    simp only [cInput, h, Connector.table, cOuts, cOut, andThen]
    obtain ⟨cs, h1, h2⟩ := stopEverything_core g { w with ctors := w.ctors.set g .stopped }
    exact ⟨cs, h1, h2⟩
  · exact absurd rfl hs

theorem connectorStart_core (g : Nat) (w : World) : core (connectorStart g w) = core w := by
  cases hn : w.noListen
  · cases ha : w.asyncListen
    · simp only [connectorStart, hn, ha, Bool.false_eq_true, ↓reduceIte, Bool.not_false]
      rw [listenerReady_core]
      rfl
    · simp [connectorStart, hn, ha, core]
  · simp [connectorStart, hn]

/-- `Manager._start_connecting` when role and key are known -/
theorem startConnecting_core (w : World) (hr : w.role.isSome = true) (hk : w.key = true) :
    (startConnecting w).2 = none ∧ core (startConnecting w).1 = { core w with ctors := w.ctors ++ [.connecting] } := by
  unfold startConnecting
  have hn : w.role.isNone = false := by cases h : w.role <;> simp_all
  simp only [hn, hk, Bool.false_eq_true, Bool.not_true, ↓reduceIte, true_and]
  rw [connectorStart_core]
  simp [core, Connector.init, hk]

theorem startConnecting_fail (w : World) (h : w.role.isSome = false ∨ w.key = false) :
    startConnecting w = (w, some .assertion) := by
  unfold startConnecting
  cases hr : w.role <;> cases hk : w.key <;> simp_all

end WV.Proofs.C17
