import WV.Model.C11

/-! The Boss' strict-order buffer for `dilate-N` (`Boss.D_received_dilate`): invariant of the drain loop. -/
namespace WV.C11.Buf
open WV.C11

theorem range'_snoc (s m : Nat) : List.range' s m ++ [s + m] = List.range' s (m + 1) := by
  induction m generalizing s with
  | zero => simp
  | succ m ih =>
    have := ih (s + 1)
    simp only [List.range'_succ, List.cons_append] at this ⊢
    rw [show s + (m + 1) = s + 1 + m by omega, this]

/-- the loop: from a duplicate-free dict whose keys are all ≥ next, with enough fuel, it delivers
    exactly the run of consecutive keys starting at `next`, keeps the others, and stops only when
    `next` is not a key -/
theorem drain_spec (fuel : Nat) : ∀ (b : Boss) (out : List Nat),
    b.held.Nodup → (∀ k ∈ b.held, b.next ≤ k) → b.held.length < fuel →
    ∃ m, (Boss.drain fuel b out).1.next = b.next + m ∧
      (Boss.drain fuel b out).2 = out ++ List.range' b.next m ∧
      (Boss.drain fuel b out).1.held.Nodup ∧
      (∀ k ∈ (Boss.drain fuel b out).1.held, b.next + m < k) ∧
      (∀ k, k ∈ b.held ↔ (b.next ≤ k ∧ k < b.next + m) ∨ k ∈ (Boss.drain fuel b out).1.held) := by
  induction fuel with
  | zero => intro b out _ _ h; omega
  | succ fuel ih =>
    intro b out hnd hge hlen
    unfold Boss.drain
    by_cases hc : b.held.contains b.next = true
    · simp only [hc, if_true]
      have hmem : b.next ∈ b.held := by simpa using hc
      have hnd' : (b.held.erase b.next).Nodup := hnd.erase _
      have hge' : ∀ k ∈ b.held.erase b.next, b.next + 1 ≤ k := by
        intro k hk
        have h1 := (hnd.mem_erase_iff).1 hk
        have := hge k h1.2
        omega
      have hlen' : (b.held.erase b.next).length < fuel := by
        rw [List.length_erase_of_mem hmem]
        have : 0 < b.held.length := List.length_pos_of_mem hmem
        omega
      obtain ⟨m, h1, h2, h3, h4, h5⟩ := ih { next := b.next + 1, held := b.held.erase b.next } (out ++ [b.next]) hnd' hge' hlen'
      refine ⟨m + 1, ?_, ?_, h3, ?_, ?_⟩
      · rw [h1]; simp only []; omega
      · rw [h2]; simp only [List.append_assoc, List.range'_succ, List.singleton_append]
      · intro k hk; have := h4 k hk; simp only [] at this; omega
      · intro k
        have h5k := h5 k
        simp only [] at h5k
        constructor
        · intro hk
          by_cases hkn : k = b.next
          · left; omega
          · have : k ∈ b.held.erase b.next := (hnd.mem_erase_iff).2 ⟨hkn, hk⟩
            rcases h5k.1 this with h | h
            · left; omega
            · right; exact h
        · intro hk
          rcases hk with h | h
          · by_cases hkn : k = b.next
            · rw [hkn]; exact hmem
            · exact ((hnd.mem_erase_iff).1 (h5k.2 (Or.inl (by omega)))).2
          · exact ((hnd.mem_erase_iff).1 (h5k.2 (Or.inr h))).2
    · simp only [hc, Bool.false_eq_true, if_false]
      have hnm : b.next ∉ b.held := by simpa using hc
      refine ⟨0, by simp, by simp, hnd, ?_, ?_⟩
      · intro k hk
        have := hge k hk
        have : k ≠ b.next := fun h => hnm (h ▸ hk)
        omega
      · intro k
        constructor
        · intro hk; right; exact hk
        · intro hk
          rcases hk with h | h
          · omega
          · exact h

theorem range_append_range' (n m : Nat) : List.range n ++ List.range' n m = List.range (n + m) := by
  induction m with
  | zero => simp
  | succ m ih =>
    rw [← range'_snoc, ← List.append_assoc, ih, show n + (m + 1) = (n + m) + 1 by omega, List.range_succ]

/-- every arrival of the list, in that order, through `Boss.D_received_dilate`; collects what reaches the Dilator -/
def runArr : List Nat → Boss → List Nat → Boss × List Nat
  | [], b, out => (b, out)
  | n :: rest, b, out => runArr rest (b.recv n).1 (out ++ (b.recv n).2)

/-- `P` = "has arrived".  Delivered so far = 0 … next-1 in order; what is held is ahead of `next`;
    an arrived seqnum is delivered or held, and nothing else is -/
def Inv (b : Boss) (out : List Nat) (P : Nat → Prop) : Prop :=
  out = List.range b.next ∧ (∀ k ∈ b.held, b.next < k) ∧ b.held.Nodup ∧ (∀ k, P k ↔ k < b.next ∨ k ∈ b.held)

theorem recv_spec {b : Boss} {out : List Nat} {P : Nat → Prop} (h : Inv b out P) {n : Nat} (hn : ¬ P n) :
    Inv (b.recv n).1 (out ++ (b.recv n).2) (fun k => k = n ∨ P k) := by
  obtain ⟨h1, h2, h3, h4⟩ := h
  have hnlt : ¬ n < b.next := fun hlt => hn ((h4 n).2 (Or.inl hlt))
  have hnh : n ∉ b.held := fun hm => hn ((h4 n).2 (Or.inr hm))
  have he : b.held.erase n = b.held := List.erase_of_not_mem hnh
  unfold Boss.recv
  rw [he]
  have hnd0 : ({ b with held := n :: b.held } : Boss).held.Nodup := List.nodup_cons.2 ⟨hnh, h3⟩
  have hge0 : ∀ k ∈ ({ b with held := n :: b.held } : Boss).held, ({ b with held := n :: b.held } : Boss).next ≤ k := by
    intro k hk
    simp only [List.mem_cons] at hk
    rcases hk with rfl | hk
    · simp only []; omega
    · have := h2 k hk; simp only []; omega
  have hlen0 : ({ b with held := n :: b.held } : Boss).held.length < b.held.length + 2 := by simp
  obtain ⟨m, d1, d2, d3, d4, d5⟩ := drain_spec (b.held.length + 2) { b with held := n :: b.held } [] hnd0 hge0 hlen0
  simp only [List.nil_append] at d2
  simp only [] at d1 d4 d5
  refine ⟨?_, ?_, d3, ?_⟩
  · rw [d2, d1, h1, range_append_range']
  · intro k hk; rw [d1]; exact d4 k hk
  · intro k
    rw [d1]
    have d5k := d5 k
    simp only [List.mem_cons] at d5k
    constructor
    · intro hk
      rcases hk with rfl | hk
      · rcases d5k.1 (Or.inl rfl) with h | h
        · left; exact h.2
        · right; exact h
      · rcases (h4 k).1 hk with h | h
        · left; omega
        · rcases d5k.1 (Or.inr h) with h' | h'
          · left; exact h'.2
          · right; exact h'
    · intro hk
      have key : k = n ∨ k ∈ b.held → k = n ∨ P k := by
        intro h
        rcases h with h | h
        · left; exact h
        · right; exact (h4 k).2 (Or.inr h)
      rcases hk with h | h
      · by_cases hlt : k < b.next
        · right; exact (h4 k).2 (Or.inl hlt)
        · exact key (d5k.2 (Or.inl ⟨by omega, h⟩))
      · exact key (d5k.2 (Or.inr h))

theorem runArr_spec (arr : List Nat) : ∀ (b : Boss) (out : List Nat) (P : Nat → Prop),
    Inv b out P → (∀ n ∈ arr, ¬ P n) → arr.Nodup →
    Inv (runArr arr b out).1 (runArr arr b out).2 (fun k => k ∈ arr ∨ P k) := by
  induction arr with
  | nil =>
    intro b out P h _ _
    simpa [runArr, Inv] using h
  | cons n rest ih =>
    intro b out P h hP hnd
    have hn : ¬ P n := hP n (by simp)
    have hstep := recv_spec h hn
    have hnd' := (List.nodup_cons.1 hnd)
    have hP' : ∀ x ∈ rest, ¬ (fun k => k = n ∨ P k) x := by
      intro x hx hx'
      rcases hx' with rfl | hx'
      · exact hnd'.1 hx
      · exact hP x (by simp [hx]) hx'
    have := ih _ _ _ hstep hP' hnd'.2
    unfold runArr
    obtain ⟨a1, a2, a3, a4⟩ := this
    refine ⟨a1, a2, a3, ?_⟩
    intro k
    rw [← a4 k]
    simp only [List.mem_cons]
    constructor
    · rintro ((h | h) | h)
      · exact Or.inr (Or.inl h)
      · exact Or.inl h
      · exact Or.inr (Or.inr h)
    · rintro (h | h | h)
      · exact Or.inl (Or.inr h)
      · exact Or.inl (Or.inl h)
      · exact Or.inr h

theorem inv_init : Inv {} [] (fun _ => False) := by
  refine ⟨by simp, by simp, by simp, by simp⟩

end WV.C11.Buf
