import WV.Proofs.C19_Valid
namespace WV.Proofs.C19
open WV WV.C19 WV.Gen

/-! ### generic preservation through Automat dispatch -/

theorem runOuts_preserves {O : Type} (P : St → Prop) (f : O → St → R) (hf : ∀ o s, P s → P (f o s).1) :
    ∀ (outs : List O) (s : St), P s → P (runOuts f outs s).1
  | [], _, h => h
  | o :: os, s, h => by
    have := hf o s h
    unfold runOuts
    split
    · next s' heq => rw [heq] at this; exact runOuts_preserves P f hf os s' this
    · exact this

theorem fireCode_preserves (P : St → Prop) (i : Code.Input) (f : Code.Output → St → R)
    (hP : ∀ s st, P s → P { s with code := st }) (hf : ∀ o s, P s → P (f o s).1) (s : St) (h : P s) :
    P (fireCode i f s).1 := by
  unfold fireCode
  split
  · exact h
  · exact runOuts_preserves P f hf _ _ (hP _ _ h)

theorem fireAlloc_preserves (P : St → Prop) (i : Allocator.Input) (f : Allocator.Output → St → R)
    (hP : ∀ s st, P s → P { s with alloc := st }) (hf : ∀ o s, P s → P (f o s).1) (s : St) (h : P s) :
    P (fireAlloc i f s).1 := by
  unfold fireAlloc
  split
  · exact h
  · exact runOuts_preserves P f hf _ _ (hP _ _ h)

theorem fireInput_preserves (P : St → Prop) (i : Input.Input) (f : Input.Output → St → R)
    (hP : ∀ s st, P s → P { s with inp := st }) (hf : ∀ o s, P s → P (f o s).1) (s : St) (h : P s) :
    P (fireInput i f s).1 := by
  unfold fireInput
  split
  · exact h
  · exact runOuts_preserves P f hf _ _ (hP _ _ h)

/-- a predicate on the model state that only looks at the Boss latch and the stashed length:
    nothing but `Boss.*_code` and `Allocator.stash*` can change it -/
structure Framed (P : St → Prop) : Prop where
  code : ∀ s st, P s → P { s with code := st }
  alloc : ∀ s st, P s → P { s with alloc := st }
  inp : ∀ s st, P s → P { s with inp := st }
  out : ∀ s o, P s → P { s with out := o }
  ret : ∀ s r, P s → P { s with ret := r }
  np : ∀ s r, P s → P { s with nameplate := r }
  nps : ∀ s r, P s → P { s with allNameplates := r }
  wl : ∀ s r, P s → P { s with wordlist := r }
  wt : ∀ s r, P s → P { s with waiters := r }

section framed
variable {P : St → Prop} (F : Framed P)
include F

theorem emit_framed (c : Cmd) (s : St) (h : P s) : P (emit c s) := F.out _ _ h

theorem codeOut1_framed (arg : Str) (o : Code.Output) (s : St) (h : P s) : P (codeOut1 arg o s).1 := by
  cases o <;> simp only [codeOut1] <;> first | exact h | (repeat apply emit_framed F) <;> exact h

theorem codeOutAllocated_framed (np code : Str) (o : Code.Output) (s : St) (h : P s) :
    P (codeOutAllocated np code o s).1 := by
  cases o <;> simp only [codeOutAllocated] <;> try exact h
  split
  · (repeat apply emit_framed F); exact h
  · exact h

theorem codeAllocated_framed (np code : Str) (s : St) (h : P s) : P (codeAllocated np code s).1 :=
  fireCode_preserves P _ _ F.code (codeOutAllocated_framed F np code) s h

theorem codeGotNameplate_framed (np : Str) (s : St) (h : P s) : P (codeGotNameplate np s).1 :=
  fireCode_preserves P _ _ F.code (codeOut1_framed F np) s h

theorem codeFinishedInput_framed (c : Str) (s : St) (h : P s) : P (codeFinishedInput c s).1 :=
  fireCode_preserves P _ _ F.code (codeOut1_framed F c) s h

theorem allocOut0_framed (o : Allocator.Output) (s : St) (h : P s) : P (allocOut0 o s).1 := by
  cases o <;> simp only [allocOut0] <;> first | exact h | exact emit_framed F _ _ h

theorem allocOutRx_framed (np : Str) (rand : List Nat) (o : Allocator.Output) (s : St) (h : P s) :
    P (allocOutRx np rand o s).1 := by
  cases o <;> simp only [allocOutRx] <;> try exact h
  split
  · exact h
  · split
    · exact h
    · exact codeAllocated_framed F _ _ _ h

theorem inputOut0_framed (o : Input.Output) (s : St) (h : P s) : P (inputOut0 o s).1 := by
  cases o <;> simp only [inputOut0] <;> first | exact h | exact emit_framed F _ _ h

theorem inputOutGotNameplates_framed (l : List Str) (o : Input.Output) (s : St) (h : P s) :
    P (inputOutGotNameplates l o s).1 := by
  cases o <;> simp only [inputOutGotNameplates] <;> first | exact h | exact F.nps _ _ h

theorem inputOutGotWordlist_framed (o : Input.Output) (s : St) (h : P s) : P (inputOutGotWordlist o s).1 := by
  cases o <;> simp only [inputOutGotWordlist] <;> try exact h
  · split
    · exact h
    · exact emit_framed F _ _ (F.wt _ _ h)
  · exact F.wl _ _ h

theorem inputOut1_framed (arg : Str) (o : Input.Output) (s : St) (h : P s) : P (inputOut1 arg o s).1 := by
  cases o <;> simp only [inputOut1] <;> try exact h
  · exact F.ret _ _ h
  · split
    · exact F.ret _ _ h
    · exact h
  · split
    · exact h
    · exact codeFinishedInput_framed F _ _ h
  · exact F.ret _ _ h
  · exact codeGotNameplate_framed F _ _ (F.np _ _ h)

theorem inputStart_framed (s : St) (h : P s) : P (inputStart s).1 :=
  fireInput_preserves P _ _ F.inp (inputOut0_framed F) s h

theorem codeOutInputCode_framed (o : Code.Output) (s : St) (h : P s) : P (codeOutInputCode o s).1 := by
  cases o <;> simp only [codeOutInputCode] <;> first | exact h | exact inputStart_framed F _ h

theorem codeSetCode_framed (isD : Nat → Bool) (c : Str) (s : St) (h : P s) : P (codeSetCode isD c s).1 := by
  unfold codeSetCode
  split
  · exact h
  · exact fireCode_preserves P _ _ F.code (codeOut1_framed F c) s h

end framed

end WV.Proofs.C19
