import WV.Proofs.C16

namespace WV.Proofs.C16
open WV WV.Gen WV.C16

theorem inv_start {T : Nat} {s s' : St} (hi : Inv T s)
    (h : step (Cfg.real T) s .start = (s', none)) : Inv T s' := by
  simp only [step, mgrInput] at h
  obtain ⟨h1, h2, h3, h4, h5, h6, h7, h8, h9, h10, h11, h12, h13⟩ := hi
  cases hm : s.mgr <;> simp [hm, Manager.table, mgrOutputs, mgrOutput] at h
  subst h
  constructor <;> simp_all [inUse]

theorem inv_please {T : Nat} {s s' : St} {b : Bool} (hi : Inv T s)
    (h : step (Cfg.real T) s (.please b) = (s', none)) : Inv T s' := by
  simp only [step, mgrInput] at h
  obtain ⟨h1, h2, h3, h4, h5, h6, h7, h8, h9, h10, h11, h12, h13⟩ := hi
  cases hm : s.mgr <;> simp [hm, Manager.table, mgrOutputs, mgrOutput] at h
  subst h
  constructor <;> simp_all [inUse]

theorem inv_reconnecting {T : Nat} {s s' : St} (hi : Inv T s)
    (h : step (Cfg.real T) s .reconnecting = (s', none)) : Inv T s' := by
  simp only [step, mgrInput] at h
  obtain ⟨h1, h2, h3, h4, h5, h6, h7, h8, h9, h10, h11, h12, h13⟩ := hi
  cases hm : s.mgr <;> simp [hm, Manager.table, mgrOutputs, mgrOutput] at h
  subst h
  constructor <;> simp_all [inUse]

theorem inv_reconnect {T : Nat} {s s' : St} (hi : Inv T s)
    (h : step (Cfg.real T) s .reconnect = (s', none)) : Inv T s' := by
  simp only [step, mgrInput] at h
  obtain ⟨h1, h2, h3, h4, h5, h6, h7, h8, h9, h10, h11, h12, h13⟩ := hi
  cases hm : s.mgr <;> simp [hm, Manager.table, mgrOutputs, mgrOutput] at h
  all_goals (try (cases hc : s.conn <;> simp [hc] at h))
  all_goals (subst h; constructor <;> simp_all [inUse])

theorem inv_stop {T : Nat} {s s' : St} (hi : Inv T s)
    (h : step (Cfg.real T) s .stop = (s', none)) : Inv T s' := by
  simp only [step, mgrInput] at h
  obtain ⟨h1, h2, h3, h4, h5, h6, h7, h8, h9, h10, h11, h12, h13⟩ := hi
  cases hm : s.mgr <;> simp [hm, Manager.table, mgrOutputs, mgrOutput] at h
  all_goals (try (cases hc : s.conn <;> simp [hc] at h))
  all_goals (subst h; constructor <;> simp_all [inUse])

end WV.Proofs.C16
