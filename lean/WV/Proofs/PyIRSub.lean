import WV.Model.C13
import WV.Gen.PyIRSub
import WV.Proofs.PyIR_Dil

set_option linter.unusedSimpArgs false
set_option linter.unusedVariables false

/-!
Translation validation of the subchannel method bodies (PyIR, `WV.Gen.PyIRSub`) against the C13 model: lemmas.

* encoders: a protocol object is `Val.ref "Protocol"|"HalfCloseableProtocol" pid` (the class says whether it provides
  `IHalfCloseableProtocol`, the identity is the model's `pid`), a `SubChannel` is `Val.ref "SubChannel" uid`, a
  `SubchannelAddress` is the attrs object `Val.obj "SubchannelAddress" [name]` (`WV.Gen.PyIRSub.attrsFields`);
* `RelSC` (one SubChannel object ⟷ its `C13.SC`), `RelDemux` (the demultiplexer ⟷ `factories/pendingOpens/expected` of a
  `C13.Side`);
* `callSem`: what the model does for each collaborator call / Automat input that the bodies record, so that an
  agreement theorem reads "the model function = the object's own update, then the recorded calls in order";
* loop lemmas: the `for data in self._pending_remote_data` loop, the `while pending:` loop of `register`.
-/
namespace WV.Proofs.PyIRSub
open WV WV.PyIR WV.C13 WV.Gen WV.Gen.PyIRSub WV.Proofs.PyIRC03 WV.Proofs.PyIRDil

/-! ## encoders -/

def kindCls : PKind → String
  | .full => "Protocol"
  | .half => "HalfCloseableProtocol"

def encProto : Option (Nat × PKind) → Val
  | none => .none
  | some (pid, k) => .ref (kindCls k) pid

def encData (l : List Bytes) : Val := .list (l.map Val.bytes)

def encScRef (uid : Nat) : Val := .ref "SubChannel" uid

def encAddr (name : String) : Val := .obj "SubchannelAddress" [.str name]

/-- the heap of one `SubChannel` object ⟷ its record in the model.  The Automat state (`sc.st`) lives inside Automat,
    not in an attribute.  After `_deliver_queued_data` both queue attributes may be gone (`del`): the model then says
    `pendingData = none`, `pendingClose = false`. -/
structure RelSC (h : Store) (sc : SC) : Prop where
  scid : h.get "_scid" = some (.int sc.scid)
  mgr : ∃ m, h.get "_manager" = some (.ref "Manager" m)
  proto : h.get "_protocol" = some (encProto sc.proto)
  pdata : h.get "_pending_remote_data" = sc.pendingData.map encData
  pclose : h.get "_pending_remote_close" = some (.bool sc.pendingClose) ∨
    (h.get "_pending_remote_close" = none ∧ sc.pendingClose = false ∧ sc.pendingData = none)

/-- concatenation for `b"".join(iovec)` -/
def joinBytes : List Val → Option (List Nat)
  | [] => some []
  | .bytes b :: r => (joinBytes r).map (b ++ ·)
  | _ => none

/-- the environment of the subchannel bodies: `IHalfCloseableProtocol(p)` adapts exactly the protocols of class
    `HalfCloseableProtocol` (TypeError otherwise, also for `None`), `providedBy` likewise; the k-th recorded call
    returns the protocol `Val.ref (kindCls kd) (pr k)` (only `factory.buildProtocol` results are ever read) -/
def envS (kd : PKind) (pr : Nat → Nat) : Env where
  fmtD := fun n => toString n
  raises := fun _ => none
  rets := fun k => .ref (kindCls kd) (pr k)
  ext := fun f args =>
    match f, args with
    | "IHalfCloseableProtocol", [.ref c p] => if c = "HalfCloseableProtocol" then .ok (.ref c p) else .exc "TypeError"
    | "IHalfCloseableProtocol", [.none] => .exc "TypeError"
    | "IHalfCloseableProtocol.providedBy", [.ref c _] => .ok (.bool (c == "HalfCloseableProtocol"))
    | "IHalfCloseableProtocol.providedBy", [.none] => .ok (.bool false)
    | "f\"Already listening for subprotocol \"{}\"\"", [.str n] => .ok (.str ("Already listening for subprotocol \"" ++ n ++ "\""))
    | "bytes.join", [.bytes [], .list vs] => (match joinBytes vs with | some b => .ok (.bytes b) | none => .exc "TypeError")
    | _, _ => unsupported

/-- the same with the k-th recorded call raising `c` -/
def envSR (kd : PKind) (pr : Nat → Nat) (k : Nat) (c : String) : Env :=
  { envS kd pr with raises := fun j => if j = k then some c else none }

/-! ## the model's meaning of the recorded calls -/

/-- `Manager.subchannel_closed(scid, sc)` → `Inbound.subchannel_closed`: `assert open[scid] is sc; del open[scid]` -/
def closeSem (uid scid : Nat) (s : Side) : C13.Res :=
  match lookup scid s.open_ with
  | none => (s, some .keyError)
  | some u => if u = uid then ({ s with open_ := eraseKey scid s.open_ }, none) else (s, some .assertion)

/-- what the model does for one call recorded by a method of SubChannel `uid` whose protocol is `proto` -/
def callSem (uid : Nat) (proto : Option (Nat × PKind)) (c : Call) (s : Side) : C13.Res :=
  match c with
  | ⟨"_manager", "send_data", [.int scid, .bytes d]⟩ => (sendRec (fun q => .txData q scid d) s, none)
  | ⟨"_manager", "send_close", [.int scid]⟩ => (sendRec (fun q => .txClose q scid) s, none)
  | ⟨"_manager", "subchannel_closed", [.int scid, .obj "self" []]⟩ => closeSem uid scid s
  | ⟨"_protocol", "dataReceived", [.bytes d]⟩ =>
    (match proto with
     | some (pid, _) => (emit (.data pid d) s, none)
     | none => (s, some .internal))
  | ⟨"_protocol", "connectionLost", [.obj "ConnectionDone" []]⟩ =>
    (match proto with
     | some (pid, _) => (emit (.lost pid) s, none)
     | none => (s, some .internal))
  | ⟨"$v", "readConnectionLost", [.ref _ pid]⟩ => (emit (.readLost pid) s, none)
  | ⟨"$v", "writeConnectionLost", [.ref _ pid]⟩ => (emit (.writeLost pid) s, none)
  | ⟨"self", "connect_protocol_half", []⟩ => scInput uid .connect_protocol_half [] s
  | ⟨"self", "connect_protocol_full", []⟩ => scInput uid .connect_protocol_full [] s
  | ⟨"self", "remote_data", [.bytes d]⟩ => scInput uid .remote_data d s
  | ⟨"self", "remote_close", []⟩ => scInput uid .remote_close [] s
  | ⟨"self", "local_data", [.bytes d]⟩ => scInput uid .local_data d s
  | ⟨"self", "local_close", []⟩ => scInput uid .local_close [] s
  | _ => (s, some .internal)

/-- the recorded calls in order; an exception skips the rest -/
def callsSem (uid : Nat) (proto : Option (Nat × PKind)) : List Call → Side → C13.Res
  | [], s => (s, none)
  | c :: cs, s => C13.andThen (callSem uid proto c s) (callsSem uid proto cs)

/-- arguments Automat hands to an output: the input's `data` where the output declares it -/
def outArgs (o : SubChannel.Output) (arg : Bytes) : List Val :=
  match o with
  | .error_closed_write | .queue_remote_data | .send_data | .signal_dataReceived => [.bytes arg]
  | _ => []

/-- the model's error for an exception class raised by a body -/
def errOf : String → Option Err
  | "AlreadyClosedError" => some .alreadyClosed
  | "AssertionError" => some .assertion
  | "KeyError" => some .keyError
  | "TypeError" => some .typeError
  | "AttributeError" => some .attributeError
  | "ValueError" => some .valueError
  | "NormalCloseUsedOnHalfCloseable" => some .normalCloseOnHalf
  | "HalfCloseUsedOnNonHalfCloseable" => some .halfCloseOnNonHalf
  | "UnexpectedSubprotocol" => some .unexpectedSubprotocol
  | _ => none

theorem errOf_name (e : Err) (c : String) (h : errOf c = some e) : e.name = c := by
  unfold errOf at h
  split at h <;> simp at h <;> subst h <;> rfl

/-! ## store / list helpers -/

theorem modifyAt_const {α : Type} (f : α → α) : ∀ (n : Nat) (l : List α) (x : α), l[n]? = some x →
    modifyAt f n l = modifyAt (fun _ => f x) n l := by
  intro n
  induction n with
  | zero => intro l x h; cases l with
    | nil => simp at h
    | cons a r => simp at h; subst h; simp [modifyAt]
  | succ n ih => intro l x h; cases l with
    | nil => simp at h
    | cons a r => simp at h; simp [modifyAt, ih r x h]

theorem modifyAt_self {α : Type} : ∀ (n : Nat) (l : List α) (x : α), l[n]? = some x →
    modifyAt (fun _ => x) n l = l := by
  intro n
  induction n with
  | zero => intro l x h; cases l with
    | nil => simp at h
    | cons a r => simp at h; subst h; simp [modifyAt]
  | succ n ih => intro l x h; cases l with
    | nil => simp at h
    | cons a r => simp at h; simp [modifyAt, ih r x h]

theorem updSC_const (uid : Nat) (f : SC → SC) (s : Side) (sc : SC) (h : s.subs[uid]? = some sc) :
    updSC uid f s = updSC uid (fun _ => f sc) s := by
  simp [updSC, modifyAt_const f uid s.subs sc h]

theorem updSC_self (uid : Nat) (s : Side) (sc : SC) (h : s.subs[uid]? = some sc) :
    updSC uid (fun _ => sc) s = s := by
  simp [updSC, modifyAt_self uid s.subs sc h]

theorem get_filter_ne (h : Store) (a b : String) :
    Store.get (List.filter (fun kv : String × Val => kv.1 != a) h) b = if a = b then none else Store.get h b := by
  induction h with
  | nil => simp [Store.get]
  | cons e r ih =>
    obtain ⟨k, w⟩ := e
    by_cases hk : k = a
    · subst hk
      have hne : (k != k) = false := by simp
      by_cases hb : k = b
      · subst hb; simpa [List.filter_cons, hne, Store.get] using ih
      · simp only [List.filter_cons, hne, Store.get, hb, if_false] at ih ⊢; simpa using ih
    · have hne : (k != a) = true := by simp [hk]
      by_cases hb : k = b
      · subst hb
        have : ¬ a = k := fun e => hk e.symm
        simp [List.filter_cons, hne, Store.get, this]
      · simp only [List.filter_cons, hne, Store.get, hb, if_false, if_true] at ih ⊢; exact ih

theorem get_filter_ne2 (h : Store) (a1 a2 b : String) :
    Store.get (List.filter (fun kv : String × Val => kv.1 != a1 && kv.1 != a2) h) b =
      if a1 = b then none else if a2 = b then none else Store.get h b := by
  have := List.filter_filter (p := fun kv : String × Val => kv.1 != a1) (q := fun kv : String × Val => kv.1 != a2) (l := h)
  rw [← this, get_filter_ne, get_filter_ne]

/-! ## the `for data in self._pending_remote_data: self.remote_data(data)` loop -/

def dataCall (d : Bytes) : Call := ⟨"self", "remote_data", [.bytes d]⟩
def closeCall : Call := ⟨"self", "remote_close", []⟩

/-- what the loop body does, as a function of which recorded call fails -/
def BodyEmits (raises : Nat → Option String) (body : St → St × Flow) : Prop :=
  ∀ (σ : St) (v : Val), σ.locals.get "data" = some v →
    body σ = (match raises σ.calls.length with
      | none => ({ σ with calls := σ.calls ++ [⟨"self", "remote_data", [v]⟩] }, .norm)
      | some c => ({ σ with calls := σ.calls ++ [⟨"self", "remote_data", [v]⟩] }, .exc c))

/-- every element is handed to the `remote_data` input, in order, for every length (no recorded call fails) -/
theorem forLoop_remote_data {G : Prop} {body : St → St × Flow} {σ : St} {w : St × Flow} (l : List Bytes)
    (hw : forLoop (.one "data") body (l.map Val.bytes) σ = w) (hbody : BodyEmits (fun _ => none) body)
    (cont : ∀ L', w = (⟨σ.heap, L', σ.calls ++ l.map dataCall⟩, .norm) → G) : G := by
  suffices key : ∀ (l : List Bytes) (σ : St), ∃ L',
      forLoop (.one "data") body (l.map Val.bytes) σ = (⟨σ.heap, L', σ.calls ++ l.map dataCall⟩, .norm) by
    obtain ⟨L', e⟩ := key l σ
    exact cont L' (hw ▸ e)
  intro l
  induction l with
  | nil => intro σ; exact ⟨σ.locals, by simp [forLoop]⟩
  | cons d r ih =>
    intro σ
    obtain ⟨L', e⟩ := ih ⟨σ.heap, σ.locals.set "data" (.bytes d), σ.calls ++ [dataCall d]⟩
    refine ⟨L', ?_⟩
    simp only [List.map_cons, forLoop, bindPat, withVal, St.setLocal]
    rw [hbody _ (.bytes d) (by simp [get_set])]
    simp only [PyIR.andThen]
    simpa [dataCall] using e

/-- the same when the `k`-th recorded call of the run raises `c`: the loop stops right after that call -/
theorem forLoop_remote_data_raise {G : Prop} {body : St → St × Flow} {σ : St} {w : St × Flow} (l : List Bytes)
    (k : Nat) (c : String)
    (hw : forLoop (.one "data") body (l.map Val.bytes) σ = w)
    (hbody : BodyEmits (fun j => if j = k then some c else none) body) (hk : σ.calls.length ≤ k)
    (cont : ∀ L', w = (if k - σ.calls.length < l.length then
          (⟨σ.heap, L', σ.calls ++ (l.take (k - σ.calls.length + 1)).map dataCall⟩, .exc c)
        else (⟨σ.heap, L', σ.calls ++ l.map dataCall⟩, .norm)) → G) : G := by
  suffices key : ∀ (l : List Bytes) (σ : St), σ.calls.length ≤ k → ∃ L',
      forLoop (.one "data") body (l.map Val.bytes) σ =
        if k - σ.calls.length < l.length then
          (⟨σ.heap, L', σ.calls ++ (l.take (k - σ.calls.length + 1)).map dataCall⟩, .exc c)
        else (⟨σ.heap, L', σ.calls ++ l.map dataCall⟩, .norm) by
    obtain ⟨L', e⟩ := key l σ hk
    exact cont L' (hw ▸ e)
  intro l
  induction l with
  | nil => intro σ _; exact ⟨σ.locals, by simp [forLoop]⟩
  | cons d r ih =>
    intro σ hk
    by_cases hk0 : σ.calls.length = k
    · refine ⟨σ.locals.set "data" (.bytes d), ?_⟩
      simp only [List.map_cons, forLoop, bindPat, withVal, St.setLocal]
      rw [hbody _ (.bytes d) (by simp [get_set])]
      simp [hk0, PyIR.andThen, dataCall]
    · obtain ⟨L', e⟩ := ih ⟨σ.heap, σ.locals.set "data" (.bytes d), σ.calls ++ [dataCall d]⟩ (by simp; omega)
      refine ⟨L', ?_⟩
      simp only [List.map_cons, forLoop, bindPat, withVal, St.setLocal]
      rw [hbody _ (.bytes d) (by simp [get_set])]
      simp only [hk0, if_false, PyIR.andThen]
      simp only [List.length_append, List.length_cons, List.length_nil, Nat.zero_add] at e
      have e' : (⟨σ.heap, σ.locals.set "data" (.bytes d), σ.calls ++ [⟨"self", "remote_data", [.bytes d]⟩]⟩ : St) =
          ⟨σ.heap, σ.locals.set "data" (.bytes d), σ.calls ++ [dataCall d]⟩ := rfl
      rw [e', e]
      have h4 : k - σ.calls.length + 1 = (k - (σ.calls.length + 1) + 1) + 1 := by omega
      by_cases hc : k - (σ.calls.length + 1) < r.length
      · have hc' : k - σ.calls.length < (d :: r).length := by simp; omega
        rw [if_pos hc, if_pos hc', h4, List.take_succ_cons]
        simp
      · have hc' : ¬ k - σ.calls.length < (d :: r).length := by simp; omega
        rw [if_neg hc, if_neg hc']
        simp

/-- the model's `feedData` is the model's meaning of those calls -/
theorem feedData_eq_calls (uid : Nat) (p : Option (Nat × PKind)) : ∀ (l : List Bytes) (s : Side),
    feedData uid l s = callsSem uid p (l.map dataCall) s := by
  intro l
  induction l with
  | nil => intro s; rfl
  | cons d r ih =>
    intro s
    simp only [feedData, List.map_cons, callsSem]
    have : callSem uid p (dataCall d) s = scInput uid .remote_data d s := by simp [callSem, dataCall]
    rw [this]
    congr 1
    funext s'
    exact ih s'

/-! ## the demultiplexer -/

def facCls : PKind → String
  | .full => "Factory"
  | .half => "HalfCloseableFactory"

/-- a factory object: its class says which kind of protocol `buildProtocol` makes (all the model keeps of it), its
    identity `fid name` is arbitrary -/
def encFac (fid : String → Nat) (name : String) (k : PKind) : Val := .ref (facCls k) (fid name)

def encFactory (fid : String → Nat) (e : String × PKind) : Val × Val := (.str e.1, encFac fid e.1 e.2)

/-- one queued OPEN: `(t, peer_addr)` -/
def tupOf (name : String) (u : Nat) : Val := .tuple [encScRef u, encAddr name]

def encPend (e : String × List Nat) : Val × Val := (.str e.1, .list (e.2.map (tupOf e.1)))

def encExpected : Option (List String) → Val
  | none => .none
  | some ex => .list (ex.map Val.str)

/-- heap of a `SubchannelDemultiplex` ⟷ `factories`, `pendingOpens` and the wired `expected` of a side -/
structure RelDemux (fid : String → Nat) (h : Store) (s : Side) : Prop where
  fac : h.get "_factories" = some (.dict (s.factories.map (encFactory fid)))
  pend : h.get "_pending_opens" = some (.dict (s.pendingOpens.map encPend))
  exp : h.get "_expected" = some (encExpected s.demuxExpected)

theorem pyEq_str (a b : String) : pyEq (.str a) (.str b) = .ok (a == b) := by simp [pyEq, scalarEq]

theorem dictGet_fac (fid : String → Nat) (n : String) : ∀ (l : List (String × PKind)),
    dictGet (.str n) (l.map (encFactory fid)) = .ok ((lookup n l).map (encFac fid n)) := by
  intro l
  induction l with
  | nil => simp [dictGet, lookup]
  | cons e r ih =>
    obtain ⟨k', v'⟩ := e
    by_cases h : k' = n
    · subst h; simp [dictGet, lookup, encFactory, pyEq_str, bind, Res.bind, pure]
    · simp [dictGet, lookup, encFactory, pyEq_str, bind, Res.bind, pure, h, ih]

theorem dictSet_fac (fid : String → Nat) (n : String) (v : Val) : ∀ (l : List (String × PKind)), lookup n l = none →
    dictSet (.str n) v (l.map (encFactory fid)) = .ok (l.map (encFactory fid) ++ [(.str n, v)]) := by
  intro l
  induction l with
  | nil => intro _; simp [dictSet]
  | cons e r ih =>
    obtain ⟨k', v'⟩ := e
    intro hl
    by_cases h : k' = n
    · subst h; simp [lookup] at hl
    · simp [lookup, h] at hl
      simp [dictSet, encFactory, pyEq_str, bind, Res.bind, pure, h, ih hl]

theorem lookup_none_ne {β : Type} (n : String) : ∀ (l : List (String × β)), lookup n l = none → ∀ e ∈ l, e.1 ≠ n := by
  intro l
  induction l with
  | nil => intro _ e he; cases he
  | cons a r ih =>
    obtain ⟨k', v'⟩ := a
    intro hl e he
    by_cases h : k' = n
    · subst h; simp [lookup] at hl
    · simp [lookup, h] at hl
      rcases List.mem_cons.1 he with rfl | he'
      · exact h
      · exact ih hl e he'

theorem map_encFactory_update (fid : String → Nat) (n : String) (f : Nat) (l : List (String × PKind))
    (hl : lookup n l = none) :
    l.map (encFactory (fun x => if x = n then f else fid x)) = l.map (encFactory fid) := by
  apply List.map_congr_left
  intro e he
  have := lookup_none_ne n l hl e he
  simp [encFactory, encFac, this]

theorem dictGet_pend (n : String) : ∀ (l : List (String × List Nat)),
    dictGet (.str n) (l.map encPend) = .ok ((lookup n l).map fun us => .list (us.map (tupOf n))) := by
  intro l
  induction l with
  | nil => simp [dictGet, lookup]
  | cons e r ih =>
    obtain ⟨k', v'⟩ := e
    by_cases h : k' = n
    · subst h; simp [dictGet, lookup, encPend, pyEq_str, bind, Res.bind, pure]
    · simp [dictGet, lookup, encPend, pyEq_str, bind, Res.bind, pure, h, ih]

/-- `self._pending_opens[name].append((t, addr))` when the key exists ⟷ `appendAt` -/
theorem dictSet_pend (n : String) (u : Nat) : ∀ (l : List (String × List Nat)) (us : List Nat), lookup n l = some us →
    dictSet (.str n) (.list (us.map (tupOf n) ++ [tupOf n u])) (l.map encPend) = .ok ((appendAt n u l).map encPend) := by
  intro l
  induction l with
  | nil => intro us hl; simp [lookup] at hl
  | cons e r ih =>
    obtain ⟨k', v'⟩ := e
    intro us hl
    by_cases h : k' = n
    · subst h
      simp [lookup] at hl
      subst hl
      simp [dictSet, appendAt, encPend, pyEq_str, bind, Res.bind, pure]
    · simp [lookup, h] at hl
      simp [dictSet, appendAt, encPend, pyEq_str, bind, Res.bind, pure, h, ih us hl]

/-- … and when it does not: the new key goes last -/
theorem appendAt_absent (n : String) (u : Nat) : ∀ (l : List (String × List Nat)), lookup n l = none →
    (appendAt n u l).map encPend = l.map encPend ++ [(.str n, .list [tupOf n u])] := by
  intro l
  induction l with
  | nil => intro _; simp [appendAt, encPend]
  | cons e r ih =>
    obtain ⟨k', v'⟩ := e
    intro hl
    by_cases h : k' = n
    · subst h; simp [lookup] at hl
    · simp [lookup, h] at hl
      simp [appendAt, h, ih hl]

theorem dictDel_pend_absent (n : String) : ∀ (l : List (String × List Nat)), (∀ e ∈ l, e.1 ≠ n) →
    dictDel (.str n) (l.map encPend) = .ok (l.map encPend) := by
  intro l
  induction l with
  | nil => intro _; simp [dictDel]
  | cons e r ih =>
    obtain ⟨k', v'⟩ := e
    intro hne
    have h : k' ≠ n := hne (k', v') (by simp)
    have ih' := ih (fun e he => hne e (by simp [he]))
    simp [dictDel, encPend, pyEq_str, bind, Res.bind, pure, h] at ih' ⊢
    simp [ih']

/-- `self._pending_opens.pop(name)` ⟷ `eraseKey` (keys of a dict are distinct) -/
theorem dictDel_pend (n : String) : ∀ (l : List (String × List Nat)), (l.map (·.1)).Nodup →
    dictDel (.str n) (l.map encPend) = .ok ((eraseKey n l).map encPend) := by
  intro l
  induction l with
  | nil => intro _; simp [dictDel, eraseKey]
  | cons e r ih =>
    obtain ⟨k', v'⟩ := e
    intro hnd
    simp at hnd
    obtain ⟨hnotin, hnd'⟩ := hnd
    by_cases h : k' = n
    · subst h
      have habs := dictDel_pend_absent k' r (fun e he heq => hnotin e.2 (by rw [← heq]; exact he))
      simp [dictDel, eraseKey, encPend, pyEq_str, bind, Res.bind, pure] at habs ⊢
      simp [habs]
    · have ih' := ih hnd'
      simp [dictDel, eraseKey, encPend, pyEq_str, bind, Res.bind, pure, h] at ih' ⊢
      simp [ih']

theorem eraseKey_absent {β : Type} (n : String) : ∀ (l : List (String × β)), lookup n l = none → eraseKey n l = l := by
  intro l
  induction l with
  | nil => intro _; rfl
  | cons e r ih =>
    obtain ⟨k', v'⟩ := e
    intro hl
    by_cases h : k' = n
    · subst h; simp [lookup] at hl
    · simp [lookup, h] at hl
      simp [eraseKey, h, ih hl]

/-- the four calls of `_connect(factory, t, peer_addr)` where `buildProtocol` returned `p` -/
def connectCalls (fac : Val) (name : String) (u : Nat) (p : Val) : List Call :=
  [⟨"$v", "buildProtocol", [fac, encAddr name]⟩, ⟨"$v", "_set_protocol", [encScRef u, p]⟩,
   ⟨"$v", "makeConnection", [p, encScRef u]⟩, ⟨"$v", "_deliver_queued_data", [encScRef u]⟩]

/-- … for each queued OPEN of `register`'s backlog in turn; `rets k` = what the k-th recorded call returned -/
def connectAllCalls (fac : Val) (name : String) (rets : Nat → Val) : Nat → List Nat → List Call
  | _, [] => []
  | n, u :: us => connectCalls fac name u (rets n) ++ connectAllCalls fac name rets (n + 4) us

/-- the model's meaning of the calls `_connect` records -/
def dcallSem (c : Call) (s : Side) : C13.Res :=
  match c with
  | ⟨"$v", "buildProtocol", [.ref _ _, .obj "SubchannelAddress" [.str name]]⟩ => (buildProtocol name s, none)
  | ⟨"$v", "_set_protocol", [.ref "SubChannel" uid, .ref c pid]⟩ =>
    setProtocol uid pid (if c = "HalfCloseableProtocol" then .half else .full) s
  | ⟨"$v", "makeConnection", [.ref _ pid, .ref "SubChannel" _]⟩ => (emit (.made pid) s, none)
  | ⟨"$v", "_deliver_queued_data", [.ref "SubChannel" uid]⟩ => deliverQueued uid s
  | _ => (s, some .internal)

def dcallsSem : List Call → Side → C13.Res
  | [], s => (s, none)
  | c :: cs, s => C13.andThen (dcallSem c s) (dcallsSem cs)

/-- the `while pending:` loop of `register`, for every backlog length: `LInv L us` = the locals hold the backlog `us`
    and the factory -/
def LInv (fac : Val) (name : String) (L : Store) (us : List Nat) : Prop :=
  L.get "pending" = some (.list (us.map (tupOf name))) ∧ L.get "factory" = some fac

theorem whileLoop_register {G : Prop} (fac : Val) (name : String) (rets : Nat → Val)
    {cond : St → Res Val} {body : St → St × Flow} {F : Nat} {σ : St} {w : St × Flow}
    (hw : whileLoop cond body F σ = w) (us : List Nat)
    (hcond : ∀ h L cs us, LInv fac name L us → ∃ v, cond ⟨h, L, cs⟩ = .ok v ∧ v.truthy = !us.isEmpty)
    (hbody : ∀ h L cs u us, LInv fac name L (u :: us) →
      ∃ L', body ⟨h, L, cs⟩ = (⟨h, L', cs ++ connectCalls fac name u (rets cs.length)⟩, .norm) ∧ LInv fac name L' us)
    (hI : LInv fac name σ.locals us) (hF : us.length < F)
    (cont : ∀ L', w = (⟨σ.heap, L', σ.calls ++ connectAllCalls fac name rets σ.calls.length us⟩, .norm) → G) : G := by
  suffices key : ∀ (us : List Nat) (F : Nat) (L : Store) (cs : List Call), LInv fac name L us → us.length < F →
      ∃ L', whileLoop cond body F ⟨σ.heap, L, cs⟩ =
        (⟨σ.heap, L', cs ++ connectAllCalls fac name rets cs.length us⟩, .norm) by
    obtain ⟨L', e⟩ := key us F σ.locals σ.calls hI hF
    exact cont L' (hw ▸ e)
  intro us
  induction us with
  | nil =>
    intro F L cs hI hF
    obtain ⟨F, rfl⟩ : ∃ F', F = F' + 1 := ⟨F - 1, by omega⟩
    obtain ⟨v, hc, hv⟩ := hcond σ.heap L cs [] hI
    exact ⟨L, by simp [whileLoop, hc, withVal, hv, connectAllCalls]⟩
  | cons u r ih =>
    intro F L cs hI hF
    obtain ⟨F, rfl⟩ : ∃ F', F = F' + 1 := ⟨F - 1, by omega⟩
    obtain ⟨v, hc, hv⟩ := hcond σ.heap L cs (u :: r) hI
    obtain ⟨L1, hb, hI1⟩ := hbody σ.heap L cs u r hI
    obtain ⟨L', e⟩ := ih F L1 (cs ++ connectCalls fac name u (rets cs.length)) hI1 (by simp at hF; omega)
    refine ⟨L', ?_⟩
    have hlen : (cs ++ connectCalls fac name u (rets cs.length)).length = cs.length + 4 := by simp [connectCalls]
    rw [hlen] at e
    simp [whileLoop, hc, withVal, hv, hb, PyIR.andThen, e, connectAllCalls]

/-! ## Inbound's `_open_subchannels` -/

def encOpen (e : Nat × Nat) : Val × Val := (.int e.1, encScRef e.2)

/-- heap of an `Inbound` ⟷ `open_` of a side (scid → the SubChannel object, by uid) -/
def RelOpen (h : Store) (s : Side) : Prop := h.get "_open_subchannels" = some (.dict (s.open_.map encOpen))

theorem pyEq_int (a b : Nat) : pyEq (.int a) (.int b) = .ok (a == b) := by simp [pyEq, scalarEq]

theorem dictGet_open (n : Nat) : ∀ (l : List (Nat × Nat)),
    dictGet (.int n) (l.map encOpen) = .ok ((lookup n l).map encScRef) := by
  intro l
  induction l with
  | nil => simp [dictGet, lookup]
  | cons e r ih =>
    obtain ⟨k', v'⟩ := e
    by_cases h : k' = n
    · subst h; simp [dictGet, lookup, encOpen, pyEq_int, bind, Res.bind, pure]
    · simp [dictGet, lookup, encOpen, pyEq_int, bind, Res.bind, pure, h, ih]

theorem dictDel_open_absent (n : Nat) : ∀ (l : List (Nat × Nat)), (∀ e ∈ l, e.1 ≠ n) →
    dictDel (.int n) (l.map encOpen) = .ok (l.map encOpen) := by
  intro l
  induction l with
  | nil => intro _; simp [dictDel]
  | cons e r ih =>
    obtain ⟨k', v'⟩ := e
    intro hne
    have h : k' ≠ n := hne (k', v') (by simp)
    have ih' := ih (fun e he => hne e (by simp [he]))
    simp [dictDel, encOpen, pyEq_int, bind, Res.bind, pure, h] at ih' ⊢
    simp [ih']

/-- `del self._open_subchannels[scid]` ⟷ `eraseKey` (keys of a dict are distinct) -/
theorem dictDel_open (n : Nat) : ∀ (l : List (Nat × Nat)), (l.map (·.1)).Nodup →
    dictDel (.int n) (l.map encOpen) = .ok ((eraseKey n l).map encOpen) := by
  intro l
  induction l with
  | nil => intro _; simp [dictDel, eraseKey]
  | cons e r ih =>
    obtain ⟨k', v'⟩ := e
    intro hnd
    simp at hnd
    obtain ⟨hnotin, hnd'⟩ := hnd
    by_cases h : k' = n
    · subst h
      have habs := dictDel_open_absent k' r (fun e he heq => hnotin e.2 (by rw [← heq]; exact he))
      simp [dictDel, eraseKey, encOpen, pyEq_int, bind, Res.bind, pure] at habs ⊢
      simp [habs]
    · have ih' := ih hnd'
      simp [dictDel, eraseKey, encOpen, pyEq_int, bind, Res.bind, pure, h] at ih' ⊢
      simp [ih']

theorem andThen_nil (r : C13.Res) (uid : Nat) (p : Option (Nat × PKind)) : C13.andThen r (callsSem uid p []) = r := by
  rcases r with ⟨s, _ | e⟩ <;> rfl

theorem andThen_pure (r : C13.Res) : C13.andThen r (fun x => (x, none)) = r := by
  rcases r with ⟨s, _ | e⟩ <;> rfl

theorem andThen_ok (s : Side) (f : Side → C13.Res) : C13.andThen (s, none) f = f s := rfl
theorem andThen_err (s : Side) (e : Err) (f : Side → C13.Res) : C13.andThen (s, some e) f = (s, some e) := rfl

end WV.Proofs.PyIRSub
