import WV.Proofs.C19_Words
namespace WV.Proofs.C19
open WV WV.C19 WV.Gen

/-- the hyphen `get_completions` appends when more words are expected -/
def tailOf (count numWords : Nat) : Str := if count + 1 < numWords then [45] else []

theorem completionOf_eq_some {pfx : Str} {n count : Nat} {word c : Str} :
    completionOf pfx n count (lastPart pfx) word = some c ↔
      lastPart pfx <+: word ∧ c = stemOf pfx ++ word ++ tailOf count n := by
  have hstem : (if (lastPart pfx).length = 0 then pfx else pfx.take (pfx.length - (lastPart pfx).length)) = stemOf pfx := by
    unfold stemOf
    split
    · next h => rw [h]; simp
    · rfl
  unfold completionOf
  simp only [hstem, List.isPrefixOf_iff_prefix]
  unfold tailOf
  by_cases hp : lastPart pfx <+: word
  · simp only [hp, if_true, true_and]
    constructor
    · intro h; simp at h; rw [← h]; split <;> simp
    · intro h; rw [h]; split <;> simp
  · simp [hp]

theorem completionWords_iff {k : Nat} {w : Str} : w ∈ completionWords k ↔ ∃ b, wordAt k b = some w := by
  unfold completionWords wordAt
  split
  · exact ⟨fun h => List.mem_iff_getElem?.mp (oddSet_sub w h), fun h => odd_sub_set w (List.mem_iff_getElem?.mpr h)⟩
  · exact ⟨fun h => List.mem_iff_getElem?.mp (evenSet_sub w h), fun h => even_sub_set w (List.mem_iff_getElem?.mpr h)⟩

theorem mem_getCompletions {p : Str} {n : Nat} {c : Str} :
    c ∈ getCompletions p n ↔
      ∃ b w, wordAt (p.count 45) b = some w ∧ lastPart p <+: w ∧ c = stemOf p ++ w ++ tailOf (p.count 45) n := by
  unfold getCompletions
  simp only [List.mem_filterMap, completionOf_eq_some, completionWords_iff]
  constructor
  · rintro ⟨w, ⟨b, hb⟩, h1, h2⟩; exact ⟨b, w, hb, h1, h2⟩
  · rintro ⟨b, w, hb, h1, h2⟩; exact ⟨w, ⟨b, hb⟩, h1, h2⟩

theorem prefix_of_mem_getCompletions {p : Str} {n : Nat} {c : Str} (h : c ∈ getCompletions p n) : p <+: c := by
  obtain ⟨b, w, _, ⟨t, ht⟩, rfl⟩ := mem_getCompletions.mp h
  refine ⟨t ++ tailOf (p.count 45) n, ?_⟩
  rw [← ht]
  generalize tailOf (p.count 45) n = T
  have : p ++ (t ++ T) = (stemOf p ++ lastPart p) ++ (t ++ T) := by rw [stem_append_last]
  rw [this]
  simp

/-- the typed text when the earlier words are `ws` (hyphen-free) and the last, partial word is `q` -/
theorem typed_shape {ws : List Str} {q : Str} (hws : ∀ w ∈ ws, 45 ∉ w) (hq : 45 ∉ q) :
    lastPart (joinHy (ws ++ [q])) = q ∧ (joinHy (ws ++ [q])).count 45 = ws.length ∧
    stemOf (joinHy (ws ++ [q])) = (if ws = [] then [] else joinHy ws ++ [45]) := by
  have hs : splitHy (joinHy (ws ++ [q])) = ws ++ [q] :=
    splitHy_joinHy _ (by simp) (by intro w hw; simp at hw; rcases hw with hw | rfl; exact hws w hw; exact hq)
  have hl : lastPart (joinHy (ws ++ [q])) = q := by
    unfold lastPart
    simp [hs]
  have hc : (joinHy (ws ++ [q])).count 45 = ws.length := by
    have := length_splitHy (joinHy (ws ++ [q]))
    rw [hs] at this
    simp at this
    omega
  refine ⟨hl, hc, ?_⟩
  apply stem_unique
  rw [hl, joinHy_snoc]
  split <;> simp

/-! ### one answer cannot stand in for another (sessions on one wordlist object) -/

/-- the text before the partial word is empty or ends with the hyphen -/
theorem stem_nil_or_hy (p : Str) : stemOf p = [] ∨ ∃ y, stemOf p = y ++ [45] := by
  obtain ⟨x, hx, hs⟩ := exists_stem p
  rw [stem_unique hx]
  rcases hs with h | ⟨ws, _, h, _⟩
  · exact Or.inl h
  · exact Or.inr ⟨_, h⟩

theorem stem_prefix_eq {a b : Str} (hb : b = [] ∨ ∃ y, b = y ++ [45]) (hc : a.count 45 = b.count 45)
    (h : a <+: b) : a = b := by
  obtain ⟨t, rfl⟩ := h
  rw [List.count_append] at hc
  have ht : 45 ∉ t := List.count_eq_zero.mp (by omega)
  rcases hb with hb | ⟨y, hy⟩
  · simp at hb; simp [hb.2]
  · rcases List.eq_nil_or_concat t with rfl | ⟨t', x, rfl⟩
    · simp
    · have hx : x = 45 := by
        have := congrArg List.getLast? hy
        simpa [List.concat_eq_append, ← List.append_assoc] using this
      subst hx
      simp [List.concat_eq_append] at ht

/-- two texts with the same number of hyphens whose parts before the partial word are both prefixes of one
    string have the same part before the partial word -/
theorem stem_eq_of_common_extension {p p' c : Str} (hk : p.count 45 = p'.count 45)
    (h : stemOf p <+: c) (h' : stemOf p' <+: c) : stemOf p = stemOf p' := by
  have hc : (stemOf p).count 45 = (stemOf p').count 45 := by rw [count_stem, count_stem, hk]
  rcases List.prefix_or_prefix_of_prefix h h' with hh | hh
  · exact stem_prefix_eq (stem_nil_or_hy p') hc hh
  · exact (stem_prefix_eq (stem_nil_or_hy p) hc.symm hh).symm

theorem stem_prefix_of_mem_getCompletions {p : Str} {n : Nat} {c : Str} (h : c ∈ getCompletions p n) :
    stemOf p <+: c := by
  have h1 : stemOf p <+: p := ⟨lastPart p, stem_append_last p⟩
  exact h1.trans (prefix_of_mem_getCompletions h)

end WV.Proofs.C19
