import WV.Proofs.C17_Frame

/-!
C17 helper lemmas, part 2: the control invariant and its preservation by every Manager-level
building block.
-/
namespace WV.Proofs.C17
open WV WV.Gen WV.C17

/-- Manager states in which role and key have been fixed -/
def active (s : Manager.State) : Prop :=
  s = .CONNECTING ∨ s = .CONNECTED ∨ s = .ABANDONING ∨ s = .STOPPING ∨ s = .FLUSHING ∨ s = .LONELY

/-- Manager states that own a selected connection -/
def inConn (s : Manager.State) : Prop := s = .CONNECTED ∨ s = .ABANDONING ∨ s = .STOPPING

/-- a conformant peer (dilation side `ps`): its `please` carries its side, it sends `reconnect`
    only if it is the Leader (i.e. we are not) -/
def okMsg (ps my : String) : Msg → Prop
  | .please s => s = ps
  | .reconnect => ¬ ps < my
  | _ => True

structure InvC (ps : String) (pend : List Thunk) (k : Core) : Prop where
  noMgr : k.hasMgr = false → k.ms = .WAITING ∧ k.ctors = [] ∧ k.role = none ∧
            (k.pMsgs ≠ [] → k.pKey = true) ∧ ∀ m ∈ k.pMsgs, okMsg ps k.mySide m
  roleVal : ∀ r, k.role = some r → r = decide (ps < k.mySide)
  roleSet : active k.ms → k.role.isSome = true ∧ k.key = true
  aband : k.ms = .ABANDONING → k.role = some false
  ctor : k.ms = .CONNECTING → ∃ g st, k.ctors.length = g + 1 ∧ k.ctors[g]? = some st ∧ st ≠ .stopped
  ctorB : ∀ g, k.ctors[g]? = some .connecting → k.ctors.length = g + 1 ∧ k.ms = .CONNECTING
  armed : inConn k.ms → ∃ c x, k.conn = some c ∧ k.conns[c]? = some x ∧
            ((x.lost = false ∧ x.obsMgr = true) ∨ Thunk.mgrLost ∈ pend ++ k.queue) ∧
            (k.ms ≠ .CONNECTED → x.closing = true ∨ x.lost = true)
  fired : k.ms = .STOPPED ↔ k.fired = true
  tsA : k.ts ≠ .S_stoppingD → k.ts ≠ .S_stopped → k.ms ≠ .STOPPING ∧ k.ms ≠ .STOPPED
  tsB : k.ts = .S_stoppingD → k.hasMgr = true ∧
          ((k.ms = .STOPPED ∧ Thunk.stoppedD ∈ pend ++ k.queue) ∨ (k.ms = .STOPPING ∧ 0 < k.stoppedObs))
  tsC : k.closed = if k.ts = .S_stopped then 1 else 0

abbrev Inv (ps : String) (pend : List Thunk) (w : World) : Prop := InvC ps pend (core w)

/-- the armed connection survives any monotone change of the connection table -/
theorem armed_mono {pend : List Thunk} {k : Core} {cs : List Conn} {q : List Thunk} {ms : Manager.State}
    (hc : ConnsLe k.conns cs) (hq : ∀ t ∈ k.queue, t ∈ q)
    (h : ∃ c x, k.conn = some c ∧ k.conns[c]? = some x ∧
            ((x.lost = false ∧ x.obsMgr = true) ∨ Thunk.mgrLost ∈ pend ++ k.queue) ∧
            (k.ms ≠ .CONNECTED → x.closing = true ∨ x.lost = true))
    (hms : ms ≠ .CONNECTED → k.ms ≠ .CONNECTED) :
    ∃ c x, k.conn = some c ∧ cs[c]? = some x ∧
            ((x.lost = false ∧ x.obsMgr = true) ∨ Thunk.mgrLost ∈ pend ++ q) ∧
            (ms ≠ .CONNECTED → x.closing = true ∨ x.lost = true) := by
  obtain ⟨c, x, h1, h2, h3, h4⟩ := h
  obtain ⟨y, hy, e1, o1, c1⟩ := hc c x h2
  refine ⟨c, y, h1, hy, ?_, ?_⟩
  · rcases h3 with ⟨a, b⟩ | h3
    · exact Or.inl ⟨e1.trans a, o1 b⟩
    · right
      rcases List.mem_append.mp h3 with h | h
      · exact List.mem_append.mpr (Or.inl h)
      · exact List.mem_append.mpr (Or.inr (hq _ h))
  · intro hne
    rcases h4 (hms hne) with h | h
    · exact Or.inl (c1 h)
    · exact Or.inr (e1.trans h)

/-- changing only the connection table (monotonically) and the queue (by appending) -/
theorem InvC.mono {ps : String} {pend : List Thunk} {k : Core} (h : InvC ps pend k) {cs : List Conn} {q : List Thunk}
    (hc : ConnsLe k.conns cs) (hq : ∀ t ∈ k.queue, t ∈ q) : InvC ps pend { k with conns := cs, queue := q } := by
  refine { h with armed := ?_, tsB := ?_ }
  · intro hi
    exact armed_mono (k := k) hc hq (h.armed hi) id
  · intro ht
    obtain ⟨a, b⟩ := h.tsB ht
    refine ⟨a, ?_⟩
    rcases b with ⟨b1, b2⟩ | b
    · left
      refine ⟨b1, ?_⟩
      rcases List.mem_append.mp b2 with h | h
      · exact List.mem_append.mpr (Or.inl h)
      · exact List.mem_append.mpr (Or.inr (hq _ h))
    · exact Or.inr b


/-! ## Core-level transitions -/

theorem mem_mono {t : Thunk} {pend q q' : List Thunk} (hq : ∀ t ∈ q, t ∈ q') (h : t ∈ pend ++ q) : t ∈ pend ++ q' := by
  rcases List.mem_append.mp h with h | h
  · exact List.mem_append.mpr (Or.inl h)
  · exact List.mem_append.mpr (Or.inr (hq _ h))

/-- entering CONNECTING with a fresh Connector -/
theorem InvC.toConnecting {ps : String} {pend : List Thunk} {k : Core} (h : InvC ps pend k) (hm : k.hasMgr = true)
    (hs1 : k.ms ≠ .STOPPING) (hs2 : k.ms ≠ .STOPPED)
    (role' : Option Bool) (hr1 : role'.isSome = true) (hr2 : ∀ r, role' = some r → r = decide (ps < k.mySide))
    (hk : k.key = true) (ct : List Connector.State) (hct : ∀ g : Nat, ct[g]? ≠ some Connector.State.connecting)
    (cs : List Conn) (conn' : Option Nat) :
    InvC ps pend { k with ms := .CONNECTING, role := role', ctors := ct ++ [.connecting], conns := cs, conn := conn' } := by
  have hf : k.fired = false := by
    cases hfd : k.fired
    · rfl
    · exact absurd (h.fired.mpr hfd) hs2
  refine ⟨?_, hr2, ?_, ?_, ?_, ?_, ?_, ?_, ?_, ?_, h.tsC⟩
  · intro hh; simp [hm] at hh
  · intro _; exact ⟨hr1, hk⟩
  · intro hh; simp at hh
  · intro _; exact ⟨ct.length, .connecting, by simp, by simp, by simp⟩
  · intro g hg
    simp only at hg ⊢
    by_cases hlt : g < ct.length
    · rw [List.getElem?_append_left hlt] at hg
      exact absurd hg (hct g)
    · have : g = ct.length := by
        by_cases he : g = ct.length
        · exact he
        · have : (ct ++ [Connector.State.connecting])[g]? = none := by
            simp; omega
          simp [this] at hg
      simp [this]
  · intro hh; simp [inConn] at hh
  · simp [hf]
  · intro _ _; simp
  · intro ht
    obtain ⟨_, b⟩ := h.tsB ht
    rcases b with ⟨b, _⟩ | ⟨b, _⟩
    · exact absurd b hs2
    · exact absurd b hs1

theorem InvC.toWanting {ps : String} {pend : List Thunk} {k : Core} (h : InvC ps pend k) (hm : k.hasMgr = true)
    (hs : k.ms = .WAITING) : InvC ps pend { k with ms := .WANTING } := by
  have hf : k.fired = false := by
    cases hfd : k.fired
    · rfl
    · have := h.fired.mpr hfd; simp [hs] at this
  refine ⟨?_, h.roleVal, ?_, ?_, ?_, ?_, ?_, ?_, ?_, ?_, h.tsC⟩
  · intro hh; simp [hm] at hh
  · intro hh; simp [active] at hh
  · intro hh; simp at hh
  · intro hh; simp at hh
  · intro g hg
    have := (h.ctorB g hg).2
    simp [hs] at this
  · intro hh; simp [inConn] at hh
  · simp [hf]
  · intro _ _; simp
  · intro ht
    obtain ⟨_, b⟩ := h.tsB ht
    rcases b with ⟨b, _⟩ | ⟨b, _⟩ <;> simp [hs] at b

/-- CONNECTED → ABANDONING (rx_RECONNECT, we are the follower): the connection was told to close -/
theorem InvC.toAbandoning {ps : String} {pend : List Thunk} {k : Core} (h : InvC ps pend k) (hm : k.hasMgr = true)
    (hs : k.ms = .CONNECTED) (hnl : ¬ ps < k.mySide) (cs : List Conn) (hc : ConnsLe k.conns cs)
    (hcl : ∀ c, k.conn = some c → ∃ y, cs[c]? = some y ∧ y.closing = true) :
    InvC ps pend { k with ms := .ABANDONING, conns := cs } := by
  have hact : active k.ms := by simp [active, hs]
  obtain ⟨hrs, hk⟩ := h.roleSet hact
  have hrole : k.role = some false := by
    cases hr : k.role with
    | none => simp [hr] at hrs
    | some r => have := h.roleVal r hr; simp [hnl] at this; simp [this]
  have hf : k.fired = false := by
    cases hfd : k.fired
    · rfl
    · have := h.fired.mpr hfd; simp [hs] at this
  refine ⟨?_, h.roleVal, ?_, ?_, ?_, ?_, ?_, ?_, ?_, ?_, h.tsC⟩
  · intro hh; simp [hm] at hh
  · intro _; exact ⟨hrs, hk⟩
  · intro _; exact hrole
  · intro hh; simp at hh
  · intro g hg
    have := (h.ctorB g hg).2
    simp [hs] at this
  · intro _
    have ha := h.armed (by simp [inConn, hs])
    obtain ⟨c, x, h1, h2, h3, _⟩ := ha
    obtain ⟨y, hy, e1, o1, _⟩ := hc c x h2
    obtain ⟨y', hy', hyc⟩ := hcl c h1
    rw [hy] at hy'
    cases hy'
    refine ⟨c, y, h1, hy, ?_, fun _ => Or.inl hyc⟩
    rcases h3 with ⟨a, b⟩ | h3
    · exact Or.inl ⟨e1.trans a, o1 b⟩
    · exact Or.inr h3
  · simp [hf]
  · intro a b
    have := h.tsA a b
    simp
  · intro ht
    obtain ⟨_, b⟩ := h.tsB ht
    rcases b with ⟨b, _⟩ | ⟨b, _⟩ <;> simp [hs] at b

end WV.Proofs.C17
