import WV.Model.C07

/-! Helper lemmas for the C07 property theorems. -/
namespace WV.Proofs.C07
open WV WV.C07

/-! ## `_check_and_remove` -/

theorem take_isPrefix_cases (b e : Bytes) (h : (e.take b.length) <+: b) :
    (b.length < e.length ∧ b <+: e) ∨ (e.length ≤ b.length ∧ e <+: b) := by
  by_cases hl : b.length < e.length
  · left
    refine ⟨hl, ?_⟩
    have hlen : (e.take b.length).length = b.length := by simp; omega
    have := List.IsPrefix.eq_of_length h hlen
    rw [← this]; exact List.take_prefix _ _
  · right
    have : e.take b.length = e := List.take_of_length_le (by omega)
    rw [this] at h
    exact ⟨by omega, h⟩

theorem car_none {b e : Bytes} (h : checkAndRemove b e = none) : ¬ b <+: e ∧ ¬ e <+: b := by
  unfold checkAndRemove at h
  split at h
  · rename_i hp
    have hp' : ¬ (e.take b.length) <+: b := by
      intro hh
      rw [← List.isPrefixOf_iff_prefix] at hh
      simp [hh] at hp
    constructor
    · intro hb
      apply hp'
      obtain ⟨t, rfl⟩ := hb
      simp
    · intro he
      apply hp'
      exact (List.take_prefix _ _).trans he
  · split at h <;> simp at h

theorem car_wait {b e r : Bytes} (h : checkAndRemove b e = some (false, r)) :
    r = b ∧ b <+: e ∧ b.length < e.length := by
  unfold checkAndRemove at h
  split at h
  · simp at h
  · rename_i hp
    have hp' : (e.take b.length) <+: b := by simpa using hp
    split at h
    · rename_i hl
      simp at h
      rcases take_isPrefix_cases b e hp' with ⟨_, hb⟩ | ⟨hl', _⟩
      · exact ⟨h.symm, hb, hl⟩
      · omega
    · simp at h

theorem car_done {b e r : Bytes} (h : checkAndRemove b e = some (true, r)) : b = e ++ r := by
  unfold checkAndRemove at h
  split at h
  · simp at h
  · rename_i hp
    have hp' : (e.take b.length) <+: b := by simpa using hp
    split at h
    · simp at h
    · rename_i hl
      simp at h
      rcases take_isPrefix_cases b e hp' with ⟨hl', _⟩ | ⟨_, he⟩
      · omega
      · obtain ⟨t, rfl⟩ := he
        simp at h
        rw [h]

/-- the three outcomes are exhaustive and determined by the prefix relation -/
theorem car_of_prefix {b e : Bytes} (h : e <+: b) : checkAndRemove b e = some (true, b.drop e.length) := by
  obtain ⟨t, rfl⟩ := h
  unfold checkAndRemove
  have : (List.take (e ++ t).length e) = e := List.take_of_length_le (by simp)
  rw [this]
  simp

theorem car_of_strict {b e : Bytes} (h : b <+: e) (hl : b.length < e.length) :
    checkAndRemove b e = some (false, b) := by
  obtain ⟨t, rfl⟩ := h
  unfold checkAndRemove
  simp at hl
  simp [hl]

theorem car_of_diverge {b e : Bytes} (h1 : ¬ b <+: e) (h2 : ¬ e <+: b) : checkAndRemove b e = none := by
  cases hc : checkAndRemove b e with
  | none => rfl
  | some p =>
    obtain ⟨ok, r⟩ := p
    cases ok
    · exact absurd (car_wait hc).2.1 h1
    · have := car_done hc
      exact absurd ⟨r, this.symm⟩ h2


/-! ## the per-connection invariant -/

theorem arms_eq : WV.C07.arms = [some .relay, some .start, some .handshake, some .wait, some .go,
    some .nevermind, some .records, some .hungUp] := by decide

/-- what the peer must have sent before the handshake proper: the relay's `ok` -/
def pre (c : Conn) : Bytes := match c.relayHs with | some _ => Gen.Transit.RELAY_OK | none => []
/-- what we wrote before our handshake: the relay request -/
def hsOut (c : Conn) : List Bytes := match c.relayHs with | some r => [r] | none => []

structure CInv (cfg : Cfg) (winner : Option Nat) (i : Nat) (c : Conn) : Prop where
  shape : c.out = hsOut c ∨ c.out = hsOut c ++ [cfg.sendThis] ∨
          c.out = hsOut c ++ [cfg.sendThis, Gen.Transit.GO] ∨ c.out = hsOut c ++ [cfg.sendThis, Gen.Transit.NEVERMIND]
  st_ok : c.state ≠ .tooEarly ∧ c.state ≠ .start ∧ c.state ≠ .go ∧ c.state ≠ .nevermind
  relay : c.state = .relay → c.out = hsOut c ∧ c.relayHs ≠ none ∧ c.rx = c.buf ∧
          c.buf <+: Gen.Transit.RELAY_OK ∧ c.buf.length < Gen.Transit.RELAY_OK.length
  hs : c.state = .handshake → c.out = hsOut c ++ [cfg.sendThis] ∧ c.rx = pre c ++ c.buf ∧
          c.buf <+: cfg.expectThis ∧ c.buf.length < cfg.expectThis.length
  wait : c.state = .waitForDecision → cfg.isSender = false ∧ c.out = hsOut c ++ [cfg.sendThis] ∧
          c.rx = pre c ++ cfg.expectThis ++ c.buf ∧ c.buf <+: Gen.Transit.GO_EXPECTED ∧
          c.buf.length < Gen.Transit.GO_EXPECTED.length
  recs : c.state = .records → c.negD = .ok
  go : c.out = hsOut c ++ [cfg.sendThis, Gen.Transit.GO] →
          cfg.isSender = true ∧ winner = some i ∧ (pre c ++ cfg.expectThis) <+: c.rx
  nm : c.out = hsOut c ++ [cfg.sendThis, Gen.Transit.NEVERMIND] →
          cfg.isSender = true ∧ (pre c ++ cfg.expectThis) <+: c.rx ∧ c.state = .hungUp ∧ 1 ≤ c.lost ∧
          ∃ j, winner = some j ∧ j ≠ i
  win : winner = some i → c.out = hsOut c ++ [cfg.sendThis, Gen.Transit.GO]
  okS : c.negD = .ok → cfg.isSender = true → c.out = hsOut c ++ [cfg.sendThis, Gen.Transit.GO]
  okR : c.negD = .ok → cfg.isSender = false →
          (pre c ++ cfg.expectThis ++ Gen.Transit.GO_EXPECTED) <+: c.rx
  negOk : c.negD = .ok → c.state = .records ∨ c.state = .hungUp

theorem prefix_append_right {a b : Bytes} (d : Bytes) (h : a <+: b) : a <+: b ++ d :=
  h.trans (List.prefix_append _ _)

theorem go_ne_nm : Gen.Transit.GO ≠ Gen.Transit.NEVERMIND := by decide

/-- bytes arriving in `records` / `hung up`: only the buffer and the history change -/
theorem CInv_rx_settled {cfg : Cfg} {w0 : Option Nat} {i : Nat} {c : Conn} (d : Bytes)
    (h : CInv cfg w0 i c) (hst : c.state = .hungUp ∨ c.state = .records) (b : Bytes) :
    CInv cfg w0 i { c with buf := b, rx := c.rx ++ d } := by
  obtain ⟨shape, st_ok, relay, hs, wait, recs, go, nm, win, okS, okR, negOk⟩ := h
  refine ⟨shape, st_ok, ?_, ?_, ?_, recs, ?_, ?_, win, okS, ?_, negOk⟩
  · intro h'; rcases hst with hst | hst <;> simp [hst] at h'
  · intro h'; rcases hst with hst | hst <;> simp [hst] at h'
  · intro h'; rcases hst with hst | hst <;> simp [hst] at h'
  · intro h'; obtain ⟨a, b', c'⟩ := go h'; exact ⟨a, b', prefix_append_right d c'⟩
  · intro h'; obtain ⟨a, b', c', d', e'⟩ := nm h'; exact ⟨a, prefix_append_right d b', c', d', e'⟩
  · intro h1 h2; exact prefix_append_right d (okR h1 h2)

/-- a connection that gets hung up (exception, cancel) without writing anything more -/
theorem CInv_hungUp_of {cfg : Cfg} {w0 : Option Nat} {i : Nat} {c c' : Conn}
    (h : CInv cfg w0 i c) (hst : c'.state = .hungUp) (hout : c'.out = c.out)
    (hrel : c'.relayHs = c.relayHs) (hrx : c.rx <+: c'.rx) (hneg : c'.negD = .ok → c.negD = .ok)
    (hl1 : 1 ≤ c'.lost) : CInv cfg w0 i c' := by
  obtain ⟨shape, st_ok, relay, hs, wait, recs, go, nm, win, okS, okR, negOk⟩ := h
  have hp : pre c' = pre c := by simp [pre, hrel]
  have ho : hsOut c' = hsOut c := by simp [hsOut, hrel]
  refine ⟨?_, ?_, ?_, ?_, ?_, ?_, ?_, ?_, ?_, ?_, ?_, ?_⟩
  · rw [hout, ho]; exact shape
  · simp [hst]
  · intro h'; simp [hst] at h'
  · intro h'; simp [hst] at h'
  · intro h'; simp [hst] at h'
  · intro h'; simp [hst] at h'
  · rw [hout, ho, hp]; intro h'; obtain ⟨a, b, c''⟩ := go h'; exact ⟨a, b, c''.trans hrx⟩
  · rw [hout, ho, hp]; intro h'; obtain ⟨a, b, _, _, e⟩ := nm h'; exact ⟨a, b.trans hrx, hst, hl1, e⟩
  · rw [hout, ho]; exact win
  · rw [hout, ho]; intro h1 h2; exact okS (hneg h1) h2
  · rw [hp]; intro h1 h2; exact (okR (hneg h1) h2).trans hrx
  · intro _; exact Or.inr hst

theorem out_S_ne_two (l : List Bytes) (a b x : Bytes) : l ++ [a] ≠ l ++ [b, x] := by
  intro h; have := congrArg List.length h; simp at this

theorem out_ne_one (l : List Bytes) (a : Bytes) : l ≠ l ++ [a] := by
  intro h; have := congrArg List.length h; simp at this

theorem out_ne_two (l : List Bytes) (a b : Bytes) : l ≠ l ++ [a, b] := by
  intro h; have := congrArg List.length h; simp at this

/-- our handshake written, no decision yet -/
theorem CInv_S {cfg : Cfg} {w : Option Nat} {i : Nat} {c : Conn}
    (hout : c.out = hsOut c ++ [cfg.sendThis]) (hw : w ≠ some i)
    (hst : c.state = .handshake ∨ c.state = .waitForDecision ∨ c.state = .records ∨ c.state = .hungUp)
    (hhs : c.state = .handshake → c.rx = pre c ++ c.buf ∧ c.buf <+: cfg.expectThis ∧ c.buf.length < cfg.expectThis.length)
    (hwait : c.state = .waitForDecision → cfg.isSender = false ∧ c.rx = pre c ++ cfg.expectThis ++ c.buf ∧
        c.buf <+: Gen.Transit.GO_EXPECTED ∧ c.buf.length < Gen.Transit.GO_EXPECTED.length)
    (hrec : c.state = .records → c.negD = .ok)
    (hok : c.negD = .ok → cfg.isSender = false ∧ (pre c ++ cfg.expectThis ++ Gen.Transit.GO_EXPECTED) <+: c.rx ∧
        (c.state = .records ∨ c.state = .hungUp)) : CInv cfg w i c := by
  refine ⟨Or.inr (Or.inl hout), ?_, ?_, ?_, ?_, hrec, ?_, ?_, ?_, ?_, ?_, ?_⟩
  · rcases hst with h | h | h | h <;> simp [h]
  · intro h'; rcases hst with h | h | h | h <;> simp [h] at h'
  · intro h'; exact ⟨hout, hhs h'⟩
  · intro h'; obtain ⟨a, b, c', d⟩ := hwait h'; exact ⟨a, hout, b, c', d⟩
  · intro h'; rw [hout] at h'; exact absurd h' (out_S_ne_two _ _ _ _)
  · intro h'; rw [hout] at h'; exact absurd h' (out_S_ne_two _ _ _ _)
  · intro h'; exact absurd h' hw
  · intro h1 h2; have := (hok h1).1; simp [h2] at this
  · intro h1 _; exact (hok h1).2.1
  · intro h1; exact (hok h1).2.2

/-- `go` written: this connection is the winner -/
theorem CInv_GO {cfg : Cfg} {i : Nat} {c : Conn}
    (hout : c.out = hsOut c ++ [cfg.sendThis, Gen.Transit.GO]) (hs : cfg.isSender = true)
    (hrx : (pre c ++ cfg.expectThis) <+: c.rx)
    (hst : c.state = .records ∨ c.state = .hungUp) (hrec : c.state = .records → c.negD = .ok) :
    CInv cfg (some i) i c := by
  refine ⟨Or.inr (Or.inr (Or.inl hout)), ?_, ?_, ?_, ?_, hrec, ?_, ?_, ?_, ?_, ?_, ?_⟩
  · rcases hst with h | h <;> simp [h]
  · intro h'; rcases hst with h | h <;> simp [h] at h'
  · intro h'; rcases hst with h | h <;> simp [h] at h'
  · intro h'; rcases hst with h | h <;> simp [h] at h'
  · intro _; exact ⟨hs, rfl, hrx⟩
  · intro h'; rw [hout] at h'
    have := List.append_cancel_left h'
    simp at this; exact absurd this go_ne_nm
  · intro _; exact hout
  · intro _ _; exact hout
  · intro _ h2; simp [hs] at h2
  · intro _; exact hst

/-- `nevermind` written: somebody else is the winner, this connection is closed -/
theorem CInv_NM {cfg : Cfg} {i j : Nat} {c : Conn}
    (hout : c.out = hsOut c ++ [cfg.sendThis, Gen.Transit.NEVERMIND]) (hs : cfg.isSender = true)
    (hrx : (pre c ++ cfg.expectThis) <+: c.rx) (hj : j ≠ i)
    (hst : c.state = .hungUp) (hl : 1 ≤ c.lost) (hneg : c.negD ≠ .ok) :
    CInv cfg (some j) i c := by
  refine ⟨Or.inr (Or.inr (Or.inr hout)), ?_, ?_, ?_, ?_, ?_, ?_, ?_, ?_, ?_, ?_, ?_⟩
  · simp [hst]
  · intro h'; simp [hst] at h'
  · intro h'; simp [hst] at h'
  · intro h'; simp [hst] at h'
  · intro h'; simp [hst] at h'
  · intro h'; rw [hout] at h'
    have := List.append_cancel_left h'
    simp at this; exact absurd this.symm go_ne_nm
  · intro _; exact ⟨hs, hrx, hst, hl, j, rfl, hj⟩
  · intro h'; simp at h'; exact absurd h' hj
  · intro h1; exact absurd h1 hneg
  · intro h1; exact absurd h1 hneg
  · intro h1; exact absurd h1 hneg

/-- only the relay request (if any) written -/
theorem CInv_Y {cfg : Cfg} {w : Option Nat} {i : Nat} {c : Conn}
    (hout : c.out = hsOut c) (hw : w ≠ some i) (hneg : c.negD ≠ .ok)
    (hst : c.state = .relay ∨ c.state = .hungUp)
    (hrel : c.state = .relay → c.relayHs ≠ none ∧ c.rx = c.buf ∧
          c.buf <+: Gen.Transit.RELAY_OK ∧ c.buf.length < Gen.Transit.RELAY_OK.length) :
    CInv cfg w i c := by
  refine ⟨Or.inl hout, ?_, ?_, ?_, ?_, ?_, ?_, ?_, ?_, ?_, ?_, ?_⟩
  · rcases hst with h | h <;> simp [h]
  · intro h'; exact ⟨hout, hrel h'⟩
  · intro h'; rcases hst with h | h <;> simp [h] at h'
  · intro h'; rcases hst with h | h <;> simp [h] at h'
  · intro h'; rcases hst with h | h <;> simp [h] at h'
  · intro h'; rw [hout] at h'; exact absurd h' (out_ne_two _ _ _)
  · intro h'; rw [hout] at h'; exact absurd h' (out_ne_two _ _ _)
  · intro h'; exact absurd h' hw
  · intro h1; exact absurd h1 hneg
  · intro h1; exact absurd h1 hneg
  · intro h1; exact absurd h1 hneg

/-- the `try/except` of `dataReceived` -/
def wrap : Flow → Ctx × Option Err
  | .next x => (x, none)
  | .ret x => (x, none)
  | .raise e x =>
    ({ x with c := { x.c with timer := none, err := some e, lost := x.c.lost + 1, state := .hungUp } },
     if e = .badHandshake then none else some e)

theorem dataRecv_eq (cfg : Cfg) (w : Option Nat) (i : Nat) (c : Conn) (d : Bytes) :
    dataRecv cfg w i c d =
      wrap (if c.state = .tooEarly then
              Flow.raise .assertion { winner := w, c := { c with buf := c.buf ++ d, rx := c.rx ++ d }, fired := none }
            else runArms cfg i arms { winner := w, c := { c with buf := c.buf ++ d, rx := c.rx ++ d }, fired := none }) := by
  unfold dataRecv wrap
  simp only []
  split <;> simp_all

/-- what one `dataReceived` call does, relative to the context `x0` it started from -/
structure TailOK (cfg : Cfg) (i : Nat) (x0 : Ctx) (r : Ctx × Option Err) : Prop where
  inv : CInv cfg r.1.winner i r.1.c
  win : r.1.winner = x0.winner ∨ (x0.winner = none ∧ r.1.winner = some i)
  rx : r.1.c.rx = x0.c.rx
  rel : r.1.c.relayHs = x0.c.relayHs
  own : r.1.c.owner = x0.c.owner
  gone : r.1.c.gone = x0.c.gone
  lost : x0.c.lost ≤ r.1.c.lost
  firedOk : r.1.fired = some none → r.1.c.negD = .ok ∧ x0.c.negD = .pending
  firedNo : ∀ e, r.1.fired ≠ some (some e)
  keep : r.1.fired = none → r.1.c.negD = x0.c.negD

theorem tail_wait {cfg : Cfg} {i : Nat} (x0 : Ctx)
    (hst : x0.c.state = .waitForDecision) (hf : x0.fired = none)
    (hout : x0.c.out = hsOut x0.c ++ [cfg.sendThis]) (hw : x0.winner ≠ some i)
    (hr : cfg.isSender = false) (hrx : x0.c.rx = pre x0.c ++ cfg.expectThis ++ x0.c.buf)
    (hneg : x0.c.negD ≠ .ok) :
    TailOK cfg i x0 (wrap (runArms cfg i [some .wait, some .go, some .nevermind, some .records, some .hungUp] x0)) := by
  obtain ⟨w, c, f⟩ := x0
  simp only at hst hf hout hw hrx hneg
  subst hf
  simp only [runArms, runArm, hst]
  simp
  cases hc : checkAndRemove c.buf Gen.Transit.GO_EXPECTED with
  | none =>
    simp [wrap]
    refine { inv := ?_, win := by simp, rx := by simp, rel := by simp, own := by simp, gone := by simp,
             lost := by simp, firedOk := by simp, firedNo := by simp, keep := by simp }
    exact CInv_S (by simpa [hsOut] using hout) hw (by simp) (by simp) (by simp) (by simp)
      (by intro h; exact absurd h hneg)
  | some p =>
    obtain ⟨ok, rest⟩ := p
    cases ok
    · obtain ⟨rfl, hp, hl⟩ := car_wait hc
      simp [wrap]
      refine { inv := ?_, win := by simp, rx := by simp, rel := by simp, own := by simp, gone := by simp,
               lost := by simp, firedOk := by simp, firedNo := by simp, keep := by simp }
      exact CInv_S hout hw (by simp [hst]) (by simp [hst]) (fun _ => ⟨hr, hrx, hp, hl⟩) (by simp [hst])
        (by intro h; exact absurd h hneg)
    · have hb := car_done hc
      simp [negotiationSuccessful]
      cases hn : c.negD with
      | pending =>
        simp
        have hrx' : (pre c ++ cfg.expectThis ++ Gen.Transit.GO_EXPECTED) <+: c.rx := by
          rw [hrx, hb]; exact ⟨rest, by simp⟩
        cases hrl : cfg.recLayer rest with
        | none =>
          simp [wrap]
          refine { inv := ?_, win := by simp, rx := by simp, rel := by simp, own := by simp, gone := by simp,
                   lost := by simp, firedOk := by simp [hn], firedNo := by simp, keep := by simp }
          exact CInv_S (by simpa [hsOut] using hout) hw (by simp) (by simp) (by simp) (by simp)
            (by intro _; exact ⟨hr, by simpa [pre] using hrx', by simp⟩)
        | some r =>
          simp [wrap]
          refine { inv := ?_, win := by simp, rx := by simp, rel := by simp, own := by simp, gone := by simp,
                   lost := by simp, firedOk := by simp [hn], firedNo := by simp, keep := by simp }
          exact CInv_S (by simpa [hsOut] using hout) hw (by simp) (by simp) (by simp) (by simp)
            (by intro _; exact ⟨hr, by simpa [pre] using hrx', by simp⟩)
      | ok => exact absurd hn hneg
      | fail e =>
        simp [wrap]
        refine { inv := ?_, win := by simp, rx := by simp, rel := by simp, own := by simp, gone := by simp,
                 lost := by simp, firedOk := by simp, firedNo := by simp, keep := by simp [hn] }
        exact CInv_S (by simpa [hsOut] using hout) hw (by simp) (by simp) (by simp) (by simp)
          (by simp)


theorem tail_hs {cfg : Cfg} {i : Nat} (x0 : Ctx)
    (hst : x0.c.state = .handshake) (hf : x0.fired = none)
    (hout : x0.c.out = hsOut x0.c ++ [cfg.sendThis]) (hw : x0.winner ≠ some i)
    (hrx : x0.c.rx = pre x0.c ++ x0.c.buf) (hneg : x0.c.negD ≠ .ok) :
    TailOK cfg i x0 (wrap (runArms cfg i
      [some .handshake, some .wait, some .go, some .nevermind, some .records, some .hungUp] x0)) := by
  obtain ⟨w, c, f⟩ := x0
  simp only at hst hf hout hw hrx hneg
  subst hf
  rw [runArms]
  simp only [runArm, hst]
  simp
  cases hc : checkAndRemove c.buf cfg.expectThis with
  | none =>
    simp [wrap]
    refine { inv := ?_, win := by simp, rx := by simp, rel := by simp, own := by simp, gone := by simp,
             lost := by simp, firedOk := by simp, firedNo := by simp, keep := by simp }
    exact CInv_S (by simpa [hsOut] using hout) hw (by simp) (by simp) (by simp) (by simp)
      (by intro h; exact absurd h hneg)
  | some p =>
    obtain ⟨ok, rest⟩ := p
    cases ok
    · obtain ⟨rfl, hp, hl⟩ := car_wait hc
      simp [wrap]
      refine { inv := ?_, win := by simp, rx := by simp, rel := by simp, own := by simp, gone := by simp,
               lost := by simp, firedOk := by simp, firedNo := by simp, keep := by simp }
      exact CInv_S hout hw (by simp [hst]) (fun _ => ⟨hrx, hp, hl⟩) (by simp [hst]) (by simp [hst])
        (by intro h; exact absurd h hneg)
    · have hb := car_done hc
      have hrx' : (pre c ++ cfg.expectThis) <+: c.rx := by
        rw [hrx, hb]; exact ⟨rest, by simp⟩
      simp only []
      cases hs : cfg.isSender with
      | false =>
        simp only [connectionReady, hs]
        simp
        have := tail_wait (cfg := cfg) (i := i)
          { winner := w, c := { c with buf := rest, state := .waitForDecision }, fired := none }
          rfl rfl (by simpa [hsOut] using hout) hw hs (by simp [pre, hrx, hb]) (by simpa using hneg)
        refine { inv := this.inv, win := this.win, rx := this.rx, rel := this.rel, own := this.own,
                 gone := this.gone, lost := this.lost, firedOk := this.firedOk, firedNo := this.firedNo,
                 keep := this.keep }
      | true =>
        cases w with
        | some j =>
          have hj : j ≠ i := by intro h; apply hw; rw [h]
          simp [connectionReady, Gen.Transit.connection_ready_checks_winner, hs, runArms, runArm, wrap]
          refine { inv := ?_, win := by simp, rx := by simp, rel := by simp, own := by simp, gone := by simp,
                   lost := by simp, firedOk := by simp, firedNo := by simp, keep := by simp }
          exact CInv_NM (by simp [hsOut, hout]) hs (by simpa [pre] using hrx') hj rfl (by simp) (by simpa using hneg)
        | none =>
          simp [connectionReady, Gen.Transit.connection_ready_checks_winner, hs, runArms, runArm, negotiationSuccessful]
          cases hn : c.negD with
          | pending =>
            simp
            cases hrl : cfg.recLayer rest with
            | none =>
              simp [wrap]
              refine { inv := ?_, win := by simp, rx := by simp, rel := by simp, own := by simp, gone := by simp,
                       lost := by simp, firedOk := by simp [hn], firedNo := by simp, keep := by simp }
              exact CInv_GO (by simp [hsOut, hout]) hs (by simpa [pre] using hrx') (by simp) (by simp)
            | some r =>
              simp [wrap]
              refine { inv := ?_, win := by simp, rx := by simp, rel := by simp, own := by simp, gone := by simp,
                       lost := by simp, firedOk := by simp [hn], firedNo := by simp, keep := by simp }
              exact CInv_GO (by simp [hsOut, hout]) hs (by simpa [pre] using hrx') (by simp) (by simp)
          | ok => exact absurd hn hneg
          | fail e =>
            simp [wrap]
            refine { inv := ?_, win := by simp, rx := by simp, rel := by simp, own := by simp, gone := by simp,
                     lost := by simp, firedOk := by simp, firedNo := by simp, keep := by simp [hn] }
            exact CInv_GO (by simp [hsOut, hout]) hs (by simpa [pre] using hrx') (by simp) (by simp)


theorem TailOK_transfer {cfg : Cfg} {i : Nat} {x0 x1 : Ctx} {r : Ctx × Option Err}
    (h : TailOK cfg i x1 r) (hw : x1.winner = x0.winner) (hrx : x1.c.rx = x0.c.rx)
    (hrel : x1.c.relayHs = x0.c.relayHs) (hown : x1.c.owner = x0.c.owner) (hgone : x1.c.gone = x0.c.gone)
    (hlost : x1.c.lost = x0.c.lost) (hneg : x1.c.negD = x0.c.negD) : TailOK cfg i x0 r :=
  { inv := h.inv, win := by rw [← hw]; exact h.win, rx := by rw [← hrx]; exact h.rx,
    rel := by rw [← hrel]; exact h.rel, own := by rw [← hown]; exact h.own,
    gone := by rw [← hgone]; exact h.gone, lost := by rw [← hlost]; exact h.lost,
    firedOk := by rw [← hneg]; exact h.firedOk, firedNo := h.firedNo,
    keep := by rw [← hneg]; exact h.keep }

theorem runArms_cons (cfg : Cfg) (i : Nat) (a : Arm) (rest : List (Option Arm)) (x : Ctx) :
    runArms cfg i (some a :: rest) x =
      match runArm cfg i a x with
      | .next x' => runArms cfg i rest x'
      | f => f := by
  rw [runArms]
  cases runArm cfg i a x <;> rfl

theorem relay_ok_len : Gen.Transit.RELAY_OK.length = 3 := by decide

/-- `dataReceived` in state `start` (only `startNegotiation` gets there) -/
theorem dataRecv_start {cfg : Cfg} {w0 : Option Nat} {i : Nat} {c : Conn} (d : Bytes)
    (hst : c.state = .start) (hout : c.out = hsOut c) (hw : w0 ≠ some i)
    (hrx : c.rx ++ d = pre c ++ (c.buf ++ d)) (hneg : c.negD ≠ .ok) :
    TailOK cfg i { winner := w0, c := { c with buf := c.buf ++ d, rx := c.rx ++ d }, fired := none }
      (dataRecv cfg w0 i c d) := by
  rw [dataRecv_eq]
  simp only [hst, arms_eq, reduceCtorEq, if_false]
  rw [runArms_cons]; simp only [runArm, hst, reduceCtorEq, if_false, if_true]
  rw [runArms_cons]; simp only [runArm, hst, reduceCtorEq, if_false, if_true]
  have := tail_hs (cfg := cfg) (i := i)
    { winner := w0, c := { c with buf := c.buf ++ d, rx := c.rx ++ d, out := c.out ++ [cfg.sendThis], state := .handshake },
      fired := none } rfl rfl (by simp [hsOut, hout]) hw (by simpa [pre] using hrx) (by simpa using hneg)
  exact TailOK_transfer this rfl rfl rfl rfl rfl rfl rfl

theorem dataRecv_ok {cfg : Cfg} {w0 : Option Nat} {i : Nat} {c : Conn} (d : Bytes) (h : CInv cfg w0 i c) :
    TailOK cfg i { winner := w0, c := { c with buf := c.buf ++ d, rx := c.rx ++ d }, fired := none }
      (dataRecv cfg w0 i c d) := by
  rw [dataRecv_eq]
  have h0 := h
  obtain ⟨shape, st_ok, relay, hs, wait, recs, go, nm, win, okS, okR, negOk⟩ := h
  cases hst : c.state with
  | tooEarly => exact absurd hst st_ok.1
  | start => exact absurd hst st_ok.2.1
  | go => exact absurd hst st_ok.2.2.1
  | nevermind => exact absurd hst st_ok.2.2.2
  | relay =>
    obtain ⟨hout, hrel, hrx, hp, hl⟩ := relay hst
    have hw : w0 ≠ some i := by
      intro hh; have := win hh; rw [hout] at this; exact out_ne_two _ _ _ this
    have hneg : c.negD ≠ .ok := by
      intro hh; rcases negOk hh with h' | h' <;> simp [hst] at h'
    have hpre : pre c = Gen.Transit.RELAY_OK := by
      unfold pre; cases hr : c.relayHs with
      | none => exact absurd hr hrel
      | some _ => rfl
    simp only [arms_eq, reduceCtorEq, if_false]
    rw [runArms_cons]; simp only [runArm, if_true]
    cases hc : checkAndRemove (c.buf ++ d) Gen.Transit.RELAY_OK with
    | none =>
      simp [wrap]
      refine { inv := ?_, win := by simp, rx := by simp, rel := by simp, own := by simp, gone := by simp,
               lost := by simp, firedOk := by simp, firedNo := by simp, keep := by simp }
      exact CInv_Y (by simpa [hsOut] using hout) hw (by simpa using hneg) (by simp) (by simp)
    | some p =>
      obtain ⟨ok, rest⟩ := p
      cases ok
      · obtain ⟨rfl, hp', hl'⟩ := car_wait hc
        simp [wrap]
        refine { inv := ?_, win := by simp, rx := by simp, rel := by simp, own := by simp, gone := by simp,
                 lost := by simp, firedOk := by simp, firedNo := by simp, keep := by simp }
        exact CInv_Y (by simpa [hsOut] using hout) hw (by simpa using hneg) (by simp [hst])
          (fun _ => ⟨hrel, by simp [hrx], hp', hl'⟩)
      · have hb := car_done hc
        simp only []
        rw [runArms_cons]; simp only [runArm, if_true]
        have := tail_hs (cfg := cfg) (i := i)
          { winner := w0, c := { c with buf := rest, rx := c.rx ++ d, out := c.out ++ [cfg.sendThis], state := .handshake },
            fired := none } rfl rfl (by simp [hsOut, hout]) hw
            (by simp only [pre]; rw [hrx, hb]; unfold pre at hpre; rw [hpre]) (by simpa using hneg)
        exact TailOK_transfer this rfl rfl rfl rfl rfl rfl rfl
  | handshake =>
    obtain ⟨hout, hrx, hp, hl⟩ := hs hst
    have hw : w0 ≠ some i := by
      intro hh; have := win hh; rw [hout] at this; exact out_S_ne_two _ _ _ _ this
    have hneg : c.negD ≠ .ok := by
      intro hh; rcases negOk hh with h' | h' <;> simp [hst] at h'
    simp only [arms_eq, reduceCtorEq, if_false]
    rw [runArms_cons]; simp only [runArm, reduceCtorEq, if_false]
    rw [runArms_cons]; simp only [runArm, reduceCtorEq, if_false]
    exact tail_hs _ rfl rfl (by simpa [hsOut] using hout) hw (by simp [pre, hrx]) (by simpa using hneg)
  | waitForDecision =>
    obtain ⟨hr, hout, hrx, hp, hl⟩ := wait hst
    have hw : w0 ≠ some i := by
      intro hh; have := win hh; rw [hout] at this; exact out_S_ne_two _ _ _ _ this
    have hneg : c.negD ≠ .ok := by
      intro hh; rcases negOk hh with h' | h' <;> simp [hst] at h'
    simp only [arms_eq, reduceCtorEq, if_false]
    rw [runArms_cons]; simp only [runArm, reduceCtorEq, if_false]
    rw [runArms_cons]; simp only [runArm, reduceCtorEq, if_false]
    rw [runArms_cons]; simp only [runArm, reduceCtorEq, if_false]
    exact tail_wait _ rfl rfl (by simpa [hsOut] using hout) hw hr (by simp [pre, hrx]) (by simpa using hneg)
  | records =>
    simp only [arms_eq, reduceCtorEq, if_false]
    simp only [runArms, runArm, hst, reduceCtorEq, if_false, if_true]
    cases hrl : cfg.recLayer (c.buf ++ d) with
    | none =>
      simp [wrap]
      refine { inv := ?_, win := by simp, rx := by simp, rel := by simp, own := by simp, gone := by simp,
               lost := by simp, firedOk := by simp, firedNo := by simp, keep := by simp }
      exact CInv_hungUp_of h0 rfl rfl rfl (List.prefix_append _ _) (by simp) (by simp)
    | some r =>
      simp [wrap]
      refine { inv := ?_, win := by simp, rx := by simp, rel := by simp, own := by simp, gone := by simp,
               lost := by simp, firedOk := by simp, firedNo := by simp, keep := by simp }
      have := CInv_rx_settled d h0 (Or.inr hst) r
      simpa [hst] using this
  | hungUp =>
    simp only [arms_eq, reduceCtorEq, if_false]
    simp only [runArms, runArm, hst, reduceCtorEq, if_false, if_true]
    simp [wrap]
    refine { inv := ?_, win := by simp, rx := by simp, rel := by simp, own := by simp, gone := by simp,
             lost := by simp, firedOk := by simp, firedNo := by simp, keep := by simp }
    have := CInv_rx_settled d h0 (Or.inl hst) (c.buf ++ d)
    simpa [hst] using this

end WV.Proofs.C07
