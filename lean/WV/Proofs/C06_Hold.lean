import WV.Model.C06
import WV.Proofs.C06
import WV.Proofs.C06_App
import WV.Proofs.C06_Inv

/-! The prefix invariant in the world where the transport holds bytes back while paused and hands them over
    synchronously from `resumeProducing()` — also from inside `connectConsumer`, via the consumer's
    `registerProducer()`. -/
namespace WV.C06
open WV

theorem emit_inv (rs : List Bytes) (c : Conn) (evs : List Ev) (h : evs.filterMap Ev.payload = [])
    (hinv : Inv rs c) : Inv rs { c with app := c.app.emit evs } := by
  have hs : (c.app.emit evs).surfaced = c.app.surfaced := by
    simp [App.surfaced, App.delivered, App.emit, List.filterMap_append, h]
  refine ⟨by simp only; rw [hs]; exact hinv.1, fun hst => by simp only; rw [hs]; exact hinv.2.1 hst, ?_⟩
  intro hc
  exact hinv.2.2 hc

theorem deliverHeld_inv (E : Env) (rs : List Bytes) (b : Bool) (hcount : rs.length ≤ 256 ^ 24)
    (honly : OnlyHonest E (receiverRecordKey E b) rs) : ∀ (held : List Bytes) (c : Conn),
    c.isSender = b → Inv rs c → Inv rs (deliverHeld E c held) ∧ (deliverHeld E c held).isSender = b := by
  intro held
  induction held with
  | nil => intro c hb h; exact ⟨h, hb⟩
  | cons x xs ih =>
    intro c hb h
    simp only [deliverHeld, List.foldl_cons]
    have h1 := dataReceived_inv E rs b hcount honly c x hb h
    have h2 := (dataReceived_isSender E c x).trans hb
    cases hd : dataReceived E c x with
    | mk c' e =>
      rw [hd] at h1 h2
      cases e with
      | none => exact ih c' h2 h1
      | some err => exact ih _ h2 (emit_inv rs c' _ (by simp [Ev.payload]) h1)

theorem hstep_inv (E : Env) (rs : List Bytes) (b : Bool) (hcount : rs.length ≤ 256 ^ 24)
    (honly : OnlyHonest E (receiverRecordKey E b) rs) (h : HConn) (op : HOp)
    (hb : h.c.isSender = b) (hinv : Inv rs h.c) :
    Inv rs (hstep E h op).c ∧ (hstep E h op).c.isSender = b := by
  cases op with
  | op o => exact ⟨step_inv E rs b hcount honly h.c o hb hinv, (step_isSender E h.c o).trans hb⟩
  | hold x => exact ⟨hinv, hb⟩
  | resume =>
    exact deliverHeld_inv E rs b hcount honly h.held _ hb (emit_inv rs h.c _ (by simp [Ev.payload]) hinv)
  | attachReady ex s =>
    simp only [hstep]
    split
    · exact ⟨emit_inv rs h.c _ (by simp [Ev.payload]) hinv, hb⟩
    · obtain ⟨i1, i2⟩ := deliverHeld_inv E rs b hcount honly h.held
        { h.c with app := h.c.app.emit [.reg, .tresume] } hb (emit_inv rs h.c _ (by simp [Ev.payload]) hinv)
      obtain ⟨f1, f2⟩ := finishAttach_spec
        (deliverHeld E { h.c with app := h.c.app.emit [.reg, .tresume] } h.held).app ex false s [] []
      cases hf : finishAttach (deliverHeld E { h.c with app := h.c.app.emit [.reg, .tresume] } h.held).app ex false s [] with
      | mk a3 fs =>
        rw [hf] at f1 f2
        simp only [List.append_nil] at f1 f2 ⊢
        obtain ⟨s1, s2⟩ := settle_spec a3 fs f2
        refine ⟨⟨?_, ?_, s2⟩, i2⟩
        · simp only; rw [s1, f1]; exact i1.1
        · intro hst; simp only; rw [s1, f1]; exact i1.2.1 hst

theorem hrun_inv (E : Env) (rs : List Bytes) (b : Bool) (hcount : rs.length ≤ 256 ^ 24)
    (honly : OnlyHonest E (receiverRecordKey E b) rs) : ∀ (ops : List HOp) (h : HConn),
    h.c.isSender = b → Inv rs h.c → Inv rs (hrun E h ops).c := by
  intro ops
  induction ops with
  | nil => intro h _ hi; exact hi
  | cons op ops ih =>
    intro h hb hi
    obtain ⟨s1, s2⟩ := hstep_inv E rs b hcount honly h op hb hi
    exact ih (hstep E h op) s2 s1

end WV.C06
