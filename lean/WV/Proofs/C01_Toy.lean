import WV.Model.C01

/-! The toy instance satisfies every ideal property: the hypothesis structure `Crypto.Ideal` is
    satisfiable, so the C01 theorems are not vacuous. -/
namespace WV.C01
open WV

theorem enc2_inj {a b a' b' : Bytes} (h : enc2 a b = enc2 a' b') : a = a' ∧ b = b' := by
  simp only [enc2, List.cons.injEq] at h
  exact List.append_inj h.2 h.1

theorem dec2_enc2 (a b : Bytes) : dec2 (enc2 a b) = some (a, b) := by
  simp [dec2, enc2]

theorem toyIdeal (nfc : String → String) (hn : ∀ s, nfc (nfc s) = nfc s) : (toyCrypto nfc).Ideal where
  nfc_idem := hn
  enc_inj := by
    intro s t h
    simp only [toyCrypto] at h
    apply String.toList_inj.mp
    exact (List.map_inj_right (fun a b hab => Char.toNat_inj.mp hab)).mp h
  pake := by
    intro pw idS r pw' id' r' hr
    simp only [toyCrypto, dec2_enc2]
    by_cases hp : pw = pw'
    · subst hp
      refine ⟨0 :: enc2 pw idS, 0 :: enc2 pw id', ?_, ?_, ?_⟩
      · simp [Ne.symm hr]
      · simp [hr]
      · constructor
        · intro h
          simp only [List.cons.injEq, true_and] at h
          exact ⟨rfl, (enc2_inj h).2⟩
        · rintro ⟨_, rfl⟩; rfl
    · refine ⟨1 :: enc2 r (enc2 pw idS), 1 :: enc2 r' (enc2 pw' id'), ?_, ?_, ?_⟩
      · simp [Ne.symm hr, Ne.symm hp]
      · simp [hr, hp]
      · constructor
        · intro h
          simp only [List.cons.injEq, true_and] at h
          exact absurd (enc2_inj h).1 hr
        · rintro ⟨h, _⟩; exact absurd h hp
  hkdf_inj := by
    intro k i k' i' n hn h
    have h0 : n ≠ 0 := by omega
    simp only [toyCrypto, h0, if_false, List.cons.injEq, true_and] at h
    exact enc2_inj h
  sha_inj := by intro a b h; exact h
  unbox_box := by
    intro k n p
    simp [toyCrypto, dec2_enc2]
  unbox_wrong_key := by
    intro k k' n p hk
    simp [toyCrypto, dec2_enc2, hk]

/-- a normaliser that is not the identity: the decomposed spelling of Å (A + U+030A) is mapped to
    the composed one (U+00C5) -/
def sampleNfc (s : String) : String := if s = "A\u030a" then "\u00c5" else s

theorem sampleNfc_idem (s : String) : sampleNfc (sampleNfc s) = sampleNfc s := by
  unfold sampleNfc
  by_cases h : s = "A\u030a"
  · simp [h]
  · simp [h]

theorem sampleIdeal : (toyCrypto sampleNfc).Ideal := toyIdeal sampleNfc sampleNfc_idem

end WV.C01
