import WV.Model.C01

/-! The toy instance satisfies every ideal property: the hypothesis structure `Crypto.Ideal` is
    satisfiable, so the C01 theorems are not vacuous. -/
namespace WV.C01
open WV

theorem enc2_inj {a b a' b' : Bytes} (h : enc2 a b = enc2 a' b') : a = a' ∧ b = b' := by
  simp only [enc2, List.cons.injEq] at h
  exact List.append_inj h.2 h.1

theorem dec2_enc2 (a b : Bytes) : dec2 (enc2 a b) = some (a, b) := by
  simp [dec2, enc2]

theorem toyIdeal (nfc : PyStr → PyStr) (hn : ∀ s, nfc (nfc s) = nfc s)
    (he : ∀ s, encodable (nfc s) = encodable s) : (toyCrypto nfc).Ideal where
  nfc_idem := hn
  nfc_encodable := he
  pake := by
    intro pw idS r pw' id' r' hr
    simp only [toyCrypto, dec2_enc2]
    by_cases hp : pw = pw'
    · subst hp
      refine ⟨0 :: enc2 pw idS, 0 :: enc2 pw id', ?_, ?_, ?_⟩
      · simp [Ne.symm hr]
      · simp [hr]
      · constructor
        · intro h
          simp only [List.cons.injEq, true_and] at h
          exact ⟨rfl, (enc2_inj h).2⟩
        · rintro ⟨_, rfl⟩; rfl
    · refine ⟨1 :: enc2 r (enc2 pw idS), 1 :: enc2 r' (enc2 pw' id'), ?_, ?_, ?_⟩
      · simp [Ne.symm hr, Ne.symm hp]
      · simp [hr, hp]
      · constructor
        · intro h
          simp only [List.cons.injEq, true_and] at h
          exact absurd (enc2_inj h).1 hr
        · rintro ⟨h, _⟩; exact absurd h hp
  hkdf_inj := by
    intro k i k' i' n hn h
    have h0 : n ≠ 0 := by omega
    simp only [toyCrypto, h0, if_false, List.cons.injEq, true_and] at h
    exact enc2_inj h
  sha_inj := by intro a b h; exact h
  unbox_box := by
    intro k n p
    simp [toyCrypto, dec2_enc2]
  unbox_wrong_key := by
    intro k k' n p hk
    simp [toyCrypto, dec2_enc2, hk]

/-- a normaliser that is not the identity: the decomposed spelling of Å (A + U+030A) is mapped to
    the composed one (U+00C5) -/
def sampleNfc (s : PyStr) : PyStr := if s = [0x41, 0x30a] then [0xc5] else s

theorem sampleNfc_idem (s : PyStr) : sampleNfc (sampleNfc s) = sampleNfc s := by
  unfold sampleNfc
  by_cases h : s = [0x41, 0x30a]
  · simp [h]
  · simp [h]

/-- it neither removes nor creates a surrogate -/
theorem sampleNfc_encodable (s : PyStr) : encodable (sampleNfc s) = encodable s := by
  unfold sampleNfc
  by_cases h : s = [0x41, 0x30a]
  · subst h; decide
  · simp [h]

theorem sampleIdeal : (toyCrypto sampleNfc).Ideal := toyIdeal sampleNfc sampleNfc_idem sampleNfc_encodable

end WV.C01
