import WV.Model.ClientEnv

/-!
Generic part of the finite certificates: a list `L` of states that contains the initial states,
is closed under every enabled event and on which every enabled step is safe, contains every
reachable state — by induction on the length of the run, with no bound on it.
-/
namespace WV.Cert
open WV.Client WV.ClientEnv

/-- states reachable by any finite sequence of events enabled by `en` -/
inductive Reach (en : Sys → Event → Bool) : Sys → Prop
  | init {s} : s ∈ inits → Reach en s
  | step {s} (e : Event) : Reach en s → en s e = true → Reach en (sysStep s e).1

/-- Boolean certificate over an explicit list (membership through a hash set for speed) -/
def certList (en : Sys → Event → Bool) (safe : Sys → Event → Bool) (L : List Sys) : Bool :=
  let H : Std.HashSet Sys := Std.HashSet.ofList L
  inits.all (fun s => H.contains s) &&
  L.all (fun s => allEvents.all (fun e =>
    !en s e || (safe s e && H.contains (sysStep s e).1)))

theorem contains_ofList {L : List Sys} {s : Sys} (h : (Std.HashSet.ofList L).contains s = true) : s ∈ L := by
  rw [Std.HashSet.contains_ofList] at h
  simpa using h

/-- every event the environment can ever enable is in the explored alphabet -/
theorem enabled_mem_allEvents (s : Sys) (e : Event) (h : enabled s e = true) : e ∈ allEvents := by
  cases e with
  | message side ph new good pake =>
    cases side <;> cases ph <;> cases new <;> cases good <;> cases pake <;>
      simp_all [enabled, allEvents]
  | ack => simp [enabled] at h
  | setCode v => cases v <;> simp [allEvents]
  | hChooseNameplate v => cases v <;> simp [allEvents]
  | welcome v => cases v <;> simp [allEvents]
  | _ => simp [allEvents]

theorem enabledFifo_mem_allEvents (s : Sys) (e : Event) (h : enabledFifo s e = true) : e ∈ allEvents := by
  unfold enabledFifo at h
  simp only [Bool.and_eq_true] at h
  exact enabled_mem_allEvents s e h.1

theorem cert_sound {en safe : Sys → Event → Bool} (hen : ∀ s e, en s e = true → e ∈ allEvents)
    {L : List Sys} (hc : certList en safe L = true) :
    ∀ s, Reach en s → s ∈ L ∧ ∀ e, en s e = true → safe s e = true := by
  unfold certList at hc
  simp only [Bool.and_eq_true, List.all_eq_true] at hc
  obtain ⟨hinit, hclosed⟩ := hc
  have key : ∀ s, s ∈ L → ∀ e, en s e = true →
      safe s e = true ∧ (sysStep s e).1 ∈ L := by
    intro s hs e he
    have hmem := hen s e he
    have := hclosed s hs e hmem
    simp only [he, Bool.not_true, Bool.false_or, Bool.and_eq_true] at this
    exact ⟨this.1, contains_ofList this.2⟩
  have inL : ∀ s, Reach en s → s ∈ L := by
    intro s hr
    induction hr with
    | init hs => exact contains_ofList (hinit _ hs)
    | step e _ he ih => exact (key _ ih e he).2
  intro s hr
  exact ⟨inL s hr, fun e he => (key s (inL s hr) e he).1⟩

end WV.Cert
