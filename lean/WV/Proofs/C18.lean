import WV.Model.C18

/-!
# The Boss under arbitrary, arbitrarily nested inputs (lemmas for `WV.Props.C18`)

`Ex s m k s' m'` is a big-step semantics of Automat's dispatch for the *generated* Boss table in which the
environment is completely free:

* mode `k = none` (`Run`): any finite sequence of inputs is fed to the machine in state `s`; an input without a row
  is refused (`NoTransition` before any change), an input with a row sets the new state FIRST and then runs the
  row's outputs (mode `some os`), after which the sequence goes on;
* mode `k = some os` (`Outs`): the outputs still to run.  Running an output first hands its notification (if it has
  one) to the application — `note` — and then ANY run may happen from inside it (the application's callback
  calling back into the wormhole, collaborators answering synchronously, the connector reporting an error …)
  before the next output of the row runs; at any point an exception may unwind the rest of the row (`abort`: the
  state changes made so far stay).

No assumption is made on who produces the inputs or why: `Boss.error` at any moment, `closed` from a Terminator
that finishes late, re-entrant applications, duplicated calls.  `ex_inv` shows that the two facts `tableOK` checks on
the generated table are enough for "closed at most once, nothing after closed" on every such execution.
-/
namespace WV.Proofs.C18
open WV.Gen WV.C18

inductive Ex (T : Table) : Boss.State → BMon → Option (List Boss.Output) → Boss.State → BMon → Prop
  | done {s m} : Ex T s m none s m
  | refused {s m s' m'} (i : Boss.Input) : T s i = none → Ex T s m none s' m' → Ex T s m none s' m'
  | row {s m s1 os s2 m2 s3 m3} (i : Boss.Input) : T s i = some (s1, os) →
      Ex T s1 m (some os) s2 m2 → Ex T s2 m2 none s3 m3 → Ex T s m none s3 m3
  | nil {s m} : Ex T s m (some []) s m
  | abort {s m os} : Ex T s m (some os) s m
  | cons {s m o rest s1 m1 s2 m2} : Ex T s (note m (emits o)) none s1 m1 → Ex T s1 m1 (some rest) s2 m2 →
      Ex T s m (some (o :: rest)) s2 m2

/-- a run: finitely many inputs, nested at will -/
abbrev Run (T : Table) (s : Boss.State) (m : BMon) (s' : Boss.State) (m' : BMon) : Prop := Ex T s m none s' m'

/-- invariant: nothing wrong so far, and once `closed` was notified the machine is in `S4_closed` -/
def Inv (s : Boss.State) (m : BMon) : Prop :=
  m.closedTwice = false ∧ m.afterClosed = false ∧ (m.closedSeen = true → s = .S4_closed)

/-- what has to hold of the outputs still to run -/
def Pre (s : Boss.State) (m : BMon) (os : List Boss.Output) : Prop :=
  quiet os.tail = true ∧ (m.closedSeen = true → quiet os = true) ∧
  (∀ o, os.head? = some o → emits o = some .closed → s = .S4_closed)

theorem rowOK_of_tableOK {T : Table} (hT : tableOKof T = true) (s : Boss.State) (i : Boss.Input) : rowOK T s i = true := by
  unfold tableOKof at hT
  simp only [List.all_eq_true] at hT
  exact hT s (by cases s <;> simp [Boss.State.all]) i (by cases i <;> simp [Boss.Input.all])

theorem row_facts {T : Table} (hT : tableOKof T = true) {s : Boss.State} {i : Boss.Input} {s1 : Boss.State} {os : List Boss.Output}
    (h : T s i = some (s1, os)) :
    quiet os.tail = true ∧
    (∀ o, os.head? = some o → emits o = some .closed → s1 = .S4_closed) ∧
    (s = .S4_closed → s1 = .S4_closed ∧ quiet os = true) := by
  have hr := rowOK_of_tableOK hT s i
  unfold rowOK at hr
  rw [h] at hr
  cases os with
  | nil =>
    simp only [List.head?_nil, Bool.and_eq_true, Bool.or_eq_true, bne_iff_ne, ne_eq, beq_iff_eq] at hr
    obtain ⟨⟨h1, _⟩, h3⟩ := hr
    refine ⟨h1, fun o ho => (by cases ho), fun hs => ?_⟩
    rcases h3 with h3 | h3
    · exact absurd hs h3
    · exact h3
  | cons a r =>
    simp only [List.head?_cons, Bool.and_eq_true, Bool.or_eq_true, bne_iff_ne, ne_eq, beq_iff_eq] at hr
    obtain ⟨⟨h1, h2⟩, h3⟩ := hr
    refine ⟨h1, ?_, fun hs => ?_⟩
    · intro o ho hc
      simp only [List.head?_cons, Option.some.injEq] at ho
      subst ho
      rcases h2 with h2 | h2
      · exact absurd hc h2
      · exact h2
    · rcases h3 with h3 | h3
      · exact absurd hs h3
      · exact h3

theorem quiet_cons {o : Boss.Output} {rest : List Boss.Output} (h : quiet (o :: rest) = true) :
    emits o = none ∧ quiet rest = true := by
  unfold quiet at h ⊢
  simp only [List.all_cons, Bool.and_eq_true, Option.isNone_iff_eq_none] at h
  exact ⟨h.1, by simpa [List.all_eq_true] using h.2⟩

theorem quiet_tail {os : List Boss.Output} (h : quiet os = true) : quiet os.tail = true := by
  cases os with
  | nil => simpa using h
  | cons o rest => exact (quiet_cons h).2

/-- running one output under `Inv` and `Pre` keeps `Inv` -/
theorem note_inv {s : Boss.State} {m : BMon} {o : Boss.Output} {rest : List Boss.Output}
    (hi : Inv s m) (hp : Pre s m (o :: rest)) : Inv s (note m (emits o)) := by
  obtain ⟨h1, h2, h3⟩ := hi
  obtain ⟨_, p2, p3⟩ := hp
  cases he : emits o with
  | none => exact ⟨h1, h2, h3⟩
  | some n =>
    have hns : m.closedSeen = false := by
      cases hcs : m.closedSeen with
      | false => rfl
      | true =>
        have := (quiet_cons (p2 hcs)).1
        rw [he] at this
        cases this
    cases n with
    | closed =>
      have hs : s = .S4_closed := p3 o rfl he
      refine ⟨?_, ?_, fun _ => hs⟩ <;> simp [note, h1, h2, hns]
    | code | key | verifier | versions | received =>
      refine ⟨?_, ?_, ?_⟩ <;> simp [note, h1, h2, hns]

theorem ex_inv {T : Table} (hT : tableOKof T = true) {s : Boss.State} {m : BMon} {k : Option (List Boss.Output)} {s' : Boss.State} {m' : BMon}
    (h : Ex T s m k s' m') : Inv s m → (∀ os, k = some os → Pre s m os) → Inv s' m' := by
  induction h with
  | done => intro hi _; exact hi
  | refused i _ _ ih => intro hi _; exact ih hi (fun _ h => by cases h)
  | @row s m s1 os s2 m2 s3 m3 i hrow _ _ ih1 ih2 =>
    intro hi _
    obtain ⟨r1, r2, r3⟩ := row_facts hT hrow
    obtain ⟨h1, h2, h3⟩ := hi
    have hi1 : Inv s1 m := ⟨h1, h2, fun hc => (r3 (h3 hc)).1⟩
    have hp1 : Pre s1 m os := ⟨r1, fun hc => (r3 (h3 hc)).2, r2⟩
    exact ih2 (ih1 hi1 (fun os' h => by cases h; exact hp1)) (fun _ h => by cases h)
  | nil => intro hi _; exact hi
  | abort => intro hi _; exact hi
  | @cons s m o rest s1 m1 s2 m2 _ _ ih1 ih2 =>
    intro hi hp
    have hp0 : Pre s m (o :: rest) := hp _ rfl
    have hi1 := ih1 (note_inv hi hp0) (fun _ h => by cases h)
    have hq : quiet rest = true := hp0.1
    refine ih2 hi1 (fun os' h => ?_)
    cases h
    refine ⟨quiet_tail hq, fun _ => hq, ?_⟩
    intro o' ho' hc
    cases rest with
    | nil => cases ho'
    | cons a r =>
      simp only [List.head?_cons, Option.some.injEq] at ho'
      subst ho'
      have := (quiet_cons hq).1
      rw [hc] at this
      cases this

theorem run_inv {T : Table} (hT : tableOKof T = true) {s s' : Boss.State} {m m' : BMon} (h : Run T s m s' m') (hi : Inv s m) : Inv s' m' :=
  ex_inv hT h hi (fun _ h => by cases h)

theorem inv_init : Inv Boss.init {} := ⟨rfl, rfl, fun h => by cases h⟩

end WV.Proofs.C18
