import WV.Model.C19
/-! C19: finite facts about the generated odd-word table (kernel-checked on every regeneration). -/
namespace WV.Proofs.C19
open WV.Gen
theorem odd_len : Words.oddCP.length = 256 := by decide +kernel
theorem odd_nodup : Words.oddCP.Nodup := by decide +kernel
theorem odd_clean : ∀ w ∈ Words.oddCP, w ≠ [] ∧ 45 ∉ w ∧ 32 ∉ w := by decide +kernel
end WV.Proofs.C19
