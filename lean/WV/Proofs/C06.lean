import WV.Model.C06

/-! Helper lemmas for `WV.Props.C06` (no Mathlib needed). -/
namespace WV.C06
open WV

/-! ## big-endian integers -/

theorem beFixed_length (w n : Nat) : (beFixed w n).length = w := by
  induction w generalizing n with
  | zero => simp [beFixed]
  | succ w ih => simp [beFixed, ih]

theorem beDecode_snoc (xs : Bytes) (d : Nat) : beDecode (xs ++ [d]) = beDecode xs * 256 + d := by
  simp [beDecode, List.foldl_append]

theorem beDecode_beFixed (w n : Nat) : beDecode (beFixed w n) = n % 256 ^ w := by
  induction w generalizing n with
  | zero => simp [beFixed, beDecode, Nat.mod_one]
  | succ w ih =>
    rw [beFixed, beDecode_snoc, ih, Nat.pow_succ', Nat.mod_mul]
    omega

theorem beDecode_beFixed_lt {w n : Nat} (h : n < 256 ^ w) : beDecode (beFixed w n) = n := by
  rw [beDecode_beFixed, Nat.mod_eq_of_lt h]

theorem beFixed_ne_nil {w n : Nat} (h : 0 < w) : beFixed w n ≠ [] := by
  intro e
  have := beFixed_length w n
  rw [e] at this
  simp at this
  omega

/-! ## framing -/

theorem parseFrame_frame (b tail : Bytes) (h : b.length < 256 ^ 4) :
    parseFrame (frame b ++ tail) = some (b, tail) := by
  have hl : (beFixed 4 b.length).length = 4 := beFixed_length _ _
  have htake : (frame b ++ tail).take 4 = beFixed 4 b.length := by
    simp [frame, List.append_assoc, hl]
  have hlen : (frame b ++ tail).length = 4 + b.length + tail.length := by
    simp [frame, hl]; omega
  have hdrop : (frame b ++ tail).drop 4 = b ++ tail := by
    simp only [frame, List.append_assoc]
    rw [List.drop_append_of_le_length (by omega)]
    rw [List.drop_of_length_le (by omega)]
    simp
  have hdrop2 : (frame b ++ tail).drop (4 + b.length) = tail := by
    rw [← List.drop_drop, hdrop]
    simp
  have h1 : ¬ (4 + b.length + tail.length < 4) := by omega
  have h2 : ¬ (4 + b.length + tail.length < 4 + b.length) := by omega
  simp only [parseFrame, htake, beDecode_beFixed_lt h, hdrop, hdrop2, hlen, h1, h2, if_false]
  simp

theorem parseFrame_some {buf e r : Bytes} (h : parseFrame buf = some (e, r)) :
    r.length + 4 ≤ buf.length ∧ 4 + beDecode (buf.take 4) ≤ buf.length ∧
      e = (buf.drop 4).take (beDecode (buf.take 4)) ∧ r = buf.drop (4 + beDecode (buf.take 4)) := by
  unfold parseFrame at h
  by_cases h1 : buf.length < 4
  · simp [h1] at h
  · by_cases h2 : buf.length < 4 + beDecode (buf.take 4)
    · simp [h1, h2] at h
    · simp [h1, h2] at h
      obtain ⟨he, hr⟩ := h
      refine ⟨?_, by omega, he.symm, hr.symm⟩
      rw [← hr]
      simp
      omega

theorem parseFrame_append {buf e r : Bytes} (y : Bytes) (h : parseFrame buf = some (e, r)) :
    parseFrame (buf ++ y) = some (e, r ++ y) := by
  obtain ⟨_, hle, he, hr⟩ := parseFrame_some h
  have h4 : 4 ≤ buf.length := by omega
  have htake : (buf ++ y).take 4 = buf.take 4 := List.take_append_of_le_length h4
  unfold parseFrame
  rw [htake]
  have h1 : ¬ ((buf ++ y).length < 4) := by simp; omega
  have h2 : ¬ ((buf ++ y).length < 4 + beDecode (buf.take 4)) := by simp; omega
  simp only [h1, h2, if_false]
  congr 2
  · rw [List.drop_append_of_le_length h4, List.take_append_of_le_length (by simp; omega), he]
  · rw [List.drop_append_of_le_length hle, hr]

/-! ## the receive loop does not depend on the fuel -/

theorem decryptRecord_buf (E : Env) (c : Conn) (enc : Bytes) : (decryptRecord E c enc).1.buf = c.buf := by
  simp only [decryptRecord]
  split
  · rfl
  · split <;> rfl

/-- `decryptRecord` does not look at `buf` -/
theorem decryptRecord_setBuf (E : Env) (c : Conn) (enc b : Bytes) :
    decryptRecord E { c with buf := b } enc =
      ({ (decryptRecord E c enc).1 with buf := b }, (decryptRecord E c enc).2) := by
  simp only [decryptRecord]
  split
  · rfl
  · split <;> rfl

theorem fuel_mono (E : Env) : ∀ (f g : Nat) (c : Conn), c.buf.length < f → c.buf.length < g →
    dataReceivedRECORDS E f c = dataReceivedRECORDS E g c := by
  intro f
  induction f with
  | zero => intro g c h; omega
  | succ f ih =>
    intro g c hf hg
    cases g with
    | zero => omega
    | succ g =>
      unfold dataReceivedRECORDS
      cases hp : parseFrame c.buf with
      | none => rfl
      | some p =>
        obtain ⟨enc, rest⟩ := p
        have hr := (parseFrame_some hp).1
        simp only
        have hb := decryptRecord_buf E { c with buf := rest } enc
        cases hd : decryptRecord E { c with buf := rest } enc with
        | mk c2 res =>
          rw [hd] at hb
          simp only at hb
          cases res with
          | error e => rfl
          | ok r =>
            simp only
            apply ih
            · simp [hb]; omega
            · simp [hb]; omega

/-- `dataReceivedRECORDS()` with the fuel the model gives it -/
def rx (E : Env) (c : Conn) : Conn × Option Err := dataReceivedRECORDS E (c.buf.length + 1) c

theorem rx_unfold (E : Env) (c : Conn) :
    rx E c = match parseFrame c.buf with
      | none => (c, none)
      | some (enc, rest) =>
        match decryptRecord E { c with buf := rest } enc with
        | (c2, .error e) => (c2, some e)
        | (c2, .ok r) => rx E { c2 with app := recordReceived c2.app r } := by
  unfold rx
  rw [dataReceivedRECORDS]
  cases hp : parseFrame c.buf with
  | none => rfl
  | some p =>
    obtain ⟨enc, rest⟩ := p
    have hr := (parseFrame_some hp).1
    simp only
    have hb := decryptRecord_buf E { c with buf := rest } enc
    cases hd : decryptRecord E { c with buf := rest } enc with
    | mk c2 res =>
      rw [hd] at hb
      simp only at hb
      cases res with
      | error e => rfl
      | ok r =>
        simp only
        apply fuel_mono
        · simp [hb]; omega
        · simp [hb]

theorem dataReceived_eq (E : Env) (c : Conn) (data : Bytes) :
    dataReceived E c data =
      match c.state with
      | .hungUp => ({ c with buf := c.buf ++ data }, none)
      | .records =>
        match rx E { c with buf := c.buf ++ data } with
        | (c2, none) => (c2, none)
        | (c2, some e) => (hangUp c2 e, some e) := by
  unfold dataReceived rx
  cases c.state <;> rfl

/-! ## the receive loop leaves the other wire fields alone -/

theorem decryptRecord_fields (E : Env) (c : Conn) (enc : Bytes) :
    (decryptRecord E c enc).1.isSender = c.isSender ∧ (decryptRecord E c enc).1.state = c.state ∧
    (decryptRecord E c enc).1.sendNonce = c.sendNonce ∧ (decryptRecord E c enc).1.error = c.error ∧
    (decryptRecord E c enc).1.app = c.app := by
  simp only [decryptRecord]
  split
  · simp
  · split <;> simp

theorem loop_fields (E : Env) : ∀ (f : Nat) (c : Conn),
    (dataReceivedRECORDS E f c).1.isSender = c.isSender ∧ (dataReceivedRECORDS E f c).1.state = c.state ∧
    (dataReceivedRECORDS E f c).1.sendNonce = c.sendNonce ∧ (dataReceivedRECORDS E f c).1.error = c.error := by
  intro f
  induction f with
  | zero => intro c; simp [dataReceivedRECORDS]
  | succ f ih =>
    intro c
    unfold dataReceivedRECORDS
    cases hp : parseFrame c.buf with
    | none => simp
    | some p =>
      obtain ⟨enc, rest⟩ := p
      simp only
      have hf := decryptRecord_fields E { c with buf := rest } enc
      cases hd : decryptRecord E { c with buf := rest } enc with
      | mk c2 res =>
        rw [hd] at hf
        simp only at hf
        obtain ⟨h1, h2, h3, h4, _⟩ := hf
        cases res with
        | error e => simp [h1, h2, h3, h4]
        | ok r =>
          simp only
          obtain ⟨i1, i2, i3, i4⟩ := ih { c2 with app := recordReceived c2.app r }
          exact ⟨i1.trans h1, i2.trans h2, i3.trans h3, i4.trans h4⟩

theorem rx_state (E : Env) (c : Conn) : (rx E c).1.state = c.state := (loop_fields E _ c).2.1

/-! ## more bytes after a finished loop -/

/-- what `dataReceived` of more bytes does after the loop ended with outcome `p` -/
def after (E : Env) (p : Conn × Option Err) (y : Bytes) : Conn × Option Err :=
  match p with
  | (c', some e) => ({ c' with buf := c'.buf ++ y }, some e)
  | (c', none) => rx E { c' with buf := c'.buf ++ y }

theorem rx_append (E : Env) (y : Bytes) : ∀ (n : Nat) (c : Conn), c.buf.length < n →
    rx E { c with buf := c.buf ++ y } = after E (rx E c) y := by
  intro n
  induction n with
  | zero => intro c h; omega
  | succ n ih =>
    intro c hn
    rw [rx_unfold E c]
    cases hp : parseFrame c.buf with
    | none => rfl
    | some p =>
      obtain ⟨enc, rest⟩ := p
      have hr := (parseFrame_some hp).1
      rw [rx_unfold E { c with buf := c.buf ++ y }]
      simp only [parseFrame_append y hp]
      rw [decryptRecord_setBuf E c enc (rest ++ y), decryptRecord_setBuf E c enc rest]
      cases hd : decryptRecord E c enc with
      | mk c2 res =>
        cases res with
        | error e => rfl
        | ok r =>
          simp only
          have := ih { c2 with buf := rest, app := recordReceived c2.app r } (by simp; omega)
          simpa using this

theorem dataReceived_hung (E : Env) {c : Conn} (h : c.state = .hungUp) (d : Bytes) :
    dataReceived E c d = ({ c with buf := c.buf ++ d }, none) := by
  rw [dataReceived_eq, h]

theorem dataReceived_records (E : Env) {c : Conn} (h : c.state = .records) (d : Bytes) :
    dataReceived E c d = match rx E { c with buf := c.buf ++ d } with
      | (c2, none) => (c2, none)
      | (c2, some e) => (hangUp c2 e, some e) := by
  rw [dataReceived_eq, h]

theorem dataReceived_append (E : Env) (c : Conn) (x y : Bytes) :
    (dataReceived E (dataReceived E c x).1 y).1 = (dataReceived E c (x ++ y)).1 := by
  cases hs : c.state with
  | hungUp =>
    rw [dataReceived_hung E hs x, dataReceived_hung E hs (x ++ y)]
    rw [dataReceived_hung E (c := { c with buf := c.buf ++ x }) hs y]
    simp [List.append_assoc]
  | records =>
    have hap := rx_append E y _ { c with buf := c.buf ++ x } (Nat.lt_succ_self _)
    have e2 : ({ c with buf := c.buf ++ (x ++ y) } : Conn) =
        { ({ c with buf := c.buf ++ x } : Conn) with buf := ({ c with buf := c.buf ++ x } : Conn).buf ++ y } := by
      simp [List.append_assoc]
    rw [dataReceived_records E hs x, dataReceived_records E hs (x ++ y), e2, hap]
    have hst : (rx E { c with buf := c.buf ++ x }).1.state = .records :=
      (rx_state E { c with buf := c.buf ++ x }).trans hs
    cases hrx : rx E { c with buf := c.buf ++ x } with
    | mk c2 res =>
      rw [hrx] at hst
      simp only at hst
      cases res with
      | none =>
        simp only [after]
        rw [dataReceived_records E hst y]
      | some e =>
        simp only [after]
        rw [dataReceived_hung E (c := hangUp c2 e) rfl y]
        rfl

theorem feed_nil (E : Env) (c : Conn) : feed E c [] = c := rfl

theorem feed_cons (E : Env) (c : Conn) (x : Bytes) (cs : List Bytes) :
    feed E c (x :: cs) = feed E (dataReceived E c x).1 cs := rfl

theorem feed_cons_eq (E : Env) (cs : List Bytes) : ∀ (c : Conn) (x : Bytes),
    feed E c (x :: cs) = (dataReceived E c (x ++ cs.flatten)).1 := by
  induction cs with
  | nil => intro c x; simp [feed_cons, feed_nil]
  | cons y cs ih =>
    intro c x
    rw [feed_cons, ih, dataReceived_append]
    simp

/-! ## the verdict of `_decrypt_record` -/

theorem nonce_size_eq : Gen.C06.NONCE_SIZE = 24 := rfl
theorem macbytes_eq : Gen.C06.MACBYTES = 16 := rfl

/-- what `_decrypt_record` says about a blob when the counter is `rn` -/
def verdict (E : Env) (isSender : Bool) (rn : Nat) (enc : Bytes) : Except Err Bytes :=
  (decryptRecord E { Conn.init isSender with nextReceiveNonce := rn } enc).2

theorem decryptRecord_snd (E : Env) (c : Conn) (enc : Bytes) :
    (decryptRecord E c enc).2 = verdict E c.isSender c.nextReceiveNonce enc := by
  simp only [verdict, decryptRecord, Conn.init]
  split
  · rfl
  · split <;> rfl

theorem decryptRecord_ok {E : Env} {c c2 : Conn} {enc r : Bytes} (h : decryptRecord E c enc = (c2, .ok r)) :
    c2 = { c with nextReceiveNonce := c.nextReceiveNonce + 1 } ∧
    beDecode (enc.take 24) = c.nextReceiveNonce ∧ (enc.take 24).length = 24 ∧
    E.box.dec (receiverRecordKey E c.isSender) (enc.take 24) (enc.drop 24) = some r := by
  simp only [decryptRecord] at h
  by_cases h1 : (List.take Gen.C06.NONCE_SIZE enc).isEmpty = true
  · rw [if_pos h1] at h; simp at h
  · rw [if_neg h1] at h
    by_cases h2 : beDecode (List.take Gen.C06.NONCE_SIZE enc) ≠ c.nextReceiveNonce
    · rw [if_pos h2] at h; simp at h
    · rw [if_neg h2] at h
      simp only [Prod.mk.injEq] at h
      obtain ⟨hc, hv⟩ := h
      simp only [secretBoxDecrypt] at hv
      by_cases h3 : (List.take Gen.C06.NONCE_SIZE enc).length ≠ Gen.C06.NONCE_SIZE
      · rw [if_pos h3] at hv; simp at hv
      · rw [if_neg h3] at hv
        by_cases h4 : (List.drop Gen.C06.NONCE_SIZE enc).length < Gen.C06.MACBYTES
        · rw [if_pos h4] at hv; simp at hv
        · rw [if_neg h4] at hv
          cases hd : E.box.dec (receiverRecordKey E c.isSender) (List.take Gen.C06.NONCE_SIZE enc)
              (List.drop Gen.C06.NONCE_SIZE enc) with
          | none => rw [hd] at hv; simp at hv
          | some p =>
            rw [hd] at hv
            simp only [Except.ok.injEq] at hv
            subst hv
            exact ⟨hc.symm, Decidable.not_not.mp h2, Decidable.not_not.mp h3, hd⟩

theorem decryptRecord_error {E : Env} {c c2 : Conn} {enc : Bytes} {e : Err}
    (h : decryptRecord E c enc = (c2, .error e)) :
    c2.app = c.app ∧ c2.state = c.state ∧ c2.isSender = c.isSender ∧ c2.buf = c.buf := by
  have hf := decryptRecord_fields E c enc
  have hb := decryptRecord_buf E c enc
  rw [h] at hf hb
  exact ⟨hf.2.2.2.2, hf.2.1, hf.1, hb⟩

theorem blob_take (E : Env) (key : Bytes) (i : Nat) (r : Bytes) : (blob E key i r).take 24 = beFixed 24 i := by
  simp [blob, beFixed_length]

theorem blob_drop (E : Env) (key : Bytes) (i : Nat) (r : Bytes) :
    (blob E key i r).drop 24 = E.box.enc key (beFixed 24 i) r := by
  simp [blob, beFixed_length]

/-- an honest blob presented at its own position is accepted -/
theorem decryptRecord_honest (E : Env) (c : Conn) (i : Nat) (r : Bytes) (hi : i < 256 ^ 24)
    (hn : c.nextReceiveNonce = i)
    (hlen : 16 ≤ (E.box.enc (receiverRecordKey E c.isSender) (beFixed 24 i) r).length)
    (hopen : E.box.dec (receiverRecordKey E c.isSender) (beFixed 24 i)
      (E.box.enc (receiverRecordKey E c.isSender) (beFixed 24 i) r) = some r) :
    decryptRecord E c (blob E (receiverRecordKey E c.isSender) i r) =
      ({ c with nextReceiveNonce := i + 1 }, .ok r) := by
  have hne : ¬ ((beFixed 24 i).isEmpty = true) := by
    have := beFixed_ne_nil (w := 24) (n := i) (by omega)
    simpa using this
  simp only [decryptRecord, secretBoxDecrypt, nonce_size_eq, macbytes_eq, blob_take, blob_drop, hne,
    beDecode_beFixed_lt hi, hn, beFixed_length, hopen]
  have : ¬ ((E.box.enc (receiverRecordKey E c.isSender) (beFixed 24 i) r).length < 16) := by omega
  simp [this]

/-! ## an honest run of the loop -/

theorem wireOf_cons (E : Env) (key : Bytes) (i : Nat) (r : Bytes) (rs : List Bytes) :
    wireOf E key i (r :: rs) = frame (blob E key i r) ++ wireOf E key (i + 1) rs := rfl

theorem blob_length (E : Env) (key : Bytes) (i : Nat) (r : Bytes) :
    (blob E key i r).length = 24 + (E.box.enc key (beFixed 24 i) r).length := by
  simp [blob, beFixed_length]

/-- sizes the 4-byte length prefix can carry: `len(record) + 24 + 16 < 2^32` -/
def SizesOK (rs : List Bytes) : Prop := ∀ r ∈ rs, r.length + 40 < 256 ^ 4

theorem rx_honest (E : Env) (tail : Bytes) : ∀ (rs : List Bytes) (i : Nat) (c : Conn),
    c.nextReceiveNonce = i → i + rs.length ≤ 256 ^ 24 → SizesOK rs →
    (∀ n m, (E.box.enc (receiverRecordKey E c.isSender) n m).length = m.length + 16) →
    (∀ j (h : j < rs.length), E.box.dec (receiverRecordKey E c.isSender) (beFixed 24 (i + j))
        (E.box.enc (receiverRecordKey E c.isSender) (beFixed 24 (i + j)) rs[j]) = some rs[j]) →
    rx E { c with buf := wireOf E (receiverRecordKey E c.isSender) i rs ++ tail } =
      rx E { c with buf := tail, nextReceiveNonce := i + rs.length, app := rs.foldl recordReceived c.app } := by
  intro rs
  induction rs with
  | nil =>
    intro i c hn _ _ _ _
    simp [wireOf, ← hn]
  | cons r rs ih =>
    intro i c hn hcount hsz hlen hopen
    have hr : r.length + 40 < 256 ^ 4 := hsz r (by simp)
    have hbl : (blob E (receiverRecordKey E c.isSender) i r).length < 256 ^ 4 := by
      rw [blob_length, hlen]; omega
    rw [rx_unfold]
    simp only [wireOf_cons, List.append_assoc, parseFrame_frame _ _ hbl]
    have h0 := hopen 0 (by simp)
    simp only [Nat.add_zero, List.getElem_cons_zero] at h0
    have hd := decryptRecord_honest E
      { c with buf := wireOf E (receiverRecordKey E c.isSender) (i + 1) rs ++ tail } i r
      (by simp at hcount; omega) hn (by simp only; rw [hlen]; omega) h0
    simp only at hd
    rw [hd]
    simp only
    have := ih (i + 1) { c with nextReceiveNonce := i + 1, app := recordReceived c.app r } rfl
      (by simp at hcount ⊢; omega) (fun x hx => hsz x (by simp [hx])) hlen
      (by
        intro j hj
        have := hopen (j + 1) (by simp; omega)
        simpa [Nat.add_assoc, Nat.add_comm 1 j] using this)
    simp only at this
    rw [this]
    simp [Nat.add_assoc, Nat.add_comm 1 rs.length]

/-! ## what the sender puts on the wire -/

theorem wire_emit (a : App) (evs : List Ev) : (a.emit evs).wire = a.wire ++ (evs.map Ev.txBytes).flatten := by
  simp [App.emit, App.wire]

/-- the state `send_record(r)` leaves when nothing is raised -/
def afterSend (E : Env) (s : Conn) (r : Bytes) : Conn :=
  { s with sendNonce := s.sendNonce + 1,
           app := s.app.emit [.tx (beFixed 4 (blob E (senderRecordKey E s.isSender) s.sendNonce r).length),
                              .tx (blob E (senderRecordKey E s.isSender) s.sendNonce r)] }

theorem sendMany_wire (E : Env) : ∀ (rs : List Bytes) (s : Conn),
    s.sendNonce + rs.length ≤ 256 ^ 24 → SizesOK rs →
    (∀ n m, (E.box.enc (senderRecordKey E s.isSender) n m).length = m.length + 16) →
    (sendMany E s rs).2 = none ∧
    (sendMany E s rs).1.app.wire = s.app.wire ++ wireOf E (senderRecordKey E s.isSender) s.sendNonce rs ∧
    (sendMany E s rs).1.sendNonce = s.sendNonce + rs.length ∧
    (sendMany E s rs).1.isSender = s.isSender ∧ (sendMany E s rs).1.state = s.state ∧
    (sendMany E s rs).1.nextReceiveNonce = s.nextReceiveNonce ∧ (sendMany E s rs).1.buf = s.buf := by
  intro rs
  induction rs with
  | nil => intro s _ _ _; simp [sendMany, wireOf]
  | cons r rs ih =>
    intro s hcount hsz hlen
    have hr : r.length + 40 < 256 ^ 4 := hsz r (by simp)
    have h1 : s.sendNonce < 256 ^ 24 := by simp at hcount; omega
    have h2 : r.length < 256 ^ 4 := by omega
    have h3 : (beFixed 24 s.sendNonce ++ E.box.enc (senderRecordKey E s.isSender) (beFixed 24 s.sendNonce) r).length
        < 256 ^ 4 := by
      simp only [List.length_append, beFixed_length, hlen]; omega
    have hs : sendRecord E s r = (afterSend E s r, none) := by
      simp only [sendRecord, afterSend, blob]
      simp [h1, h2]
      simpa using h3
    rw [sendMany, hs]
    simp only
    have := ih (afterSend E s r)
      (by simp [afterSend] at hcount ⊢; omega) (fun x hx => hsz x (by simp [hx])) hlen
    obtain ⟨g1, g2, g3, g4, g5, g6, g7⟩ := this
    refine ⟨g1, ?_, ?_, g4, g5, g6, g7⟩
    · rw [g2]
      simp [afterSend, wire_emit, wireOf_cons, Ev.txBytes, frame, List.append_assoc]
    · rw [g3]; simp [afterSend]; omega

/-! ## the two directions use the two keys crosswise -/

theorem sendKey_eq_peer_recvKey (E : Env) (b : Bool) : senderRecordKey E b = receiverRecordKey E (!b) := by
  cases b <;> rfl

/-! ## what the application sees: `surfaced` is append-only and FIFO -/

/-- while a consumer is attached nothing is queued (it was drained when the consumer was attached) -/
def ConsInv (a : App) : Prop := a.consumer.isSome = true → a.inbound = []

theorem delivered_emit (a : App) (evs : List Ev) :
    (a.emit evs).delivered = a.delivered ++ evs.filterMap Ev.payload := by
  simp [App.emit, App.delivered, List.filterMap_append]

theorem deliverLoop_spec : ∀ (inb : List Bytes) (ws : List Reader) (nid : Nat) (lg : List Ev),
    (deliverLoop inb ws nid lg).2.2.2.filterMap Ev.payload ++ (deliverLoop inb ws nid lg).1 =
      lg.filterMap Ev.payload ++ inb := by
  intro inb
  induction inb with
  | nil => intro ws nid lg; simp [deliverLoop]
  | cons r rs ih =>
    intro ws nid lg
    cases ws with
    | nil => simp [deliverLoop]
    | cons d ds =>
      simp only [deliverLoop]
      split
      · rw [ih]; simp [List.filterMap_append, Ev.payload]
      · rw [ih]; simp [List.filterMap_append, Ev.payload]

theorem deliverLoop_nil (ws : List Reader) (nid : Nat) (lg : List Ev) :
    deliverLoop [] ws nid lg = ([], ws, nid, lg) := by
  simp [deliverLoop]

theorem deliverRecords_spec (a : App) :
    (deliverRecords a).surfaced = a.surfaced ∧ (deliverRecords a).consumer = a.consumer ∧
    (a.inbound = [] → (deliverRecords a).inbound = []) := by
  have h := deliverLoop_spec a.inbound a.waiting a.nextId a.log
  refine ⟨?_, ?_, ?_⟩
  · simp only [deliverRecords, App.surfaced, App.delivered]
    exact h
  · simp [deliverRecords]
  · intro h0
    simp [deliverRecords, h0, deliverLoop_nil]

theorem writeToConsumer_spec (a : App) (k : Consumer) (r : Bytes) (kick : Bool) :
    (writeToConsumer a k r kick).delivered = a.delivered ++ (if kick then [] else [r]) ∧
    (writeToConsumer a k r kick).inbound = a.inbound := by
  simp only [writeToConsumer]
  cases k.expected with
  | none =>
    cases kick <;> simp [App.delivered, List.filterMap_append, Ev.payload]
  | some n =>
    simp only
    split
    · cases kick <;>
        simp [App.delivered, App.emit, disconnectConsumer, List.filterMap_append, Ev.payload]
    · cases kick <;> simp [App.delivered, List.filterMap_append, Ev.payload]

theorem recordReceived_spec (a : App) (r : Bytes) (h : ConsInv a) :
    (recordReceived a r).surfaced = a.surfaced ++ [r] ∧ ConsInv (recordReceived a r) := by
  unfold recordReceived
  cases hc : a.consumer with
  | some k =>
    simp only
    have h0 : a.inbound = [] := h (by simp [hc])
    obtain ⟨w1, w2⟩ := writeToConsumer_spec a k r false
    refine ⟨?_, ?_⟩
    · simp [App.surfaced, w1, w2, h0]
    · intro _; rw [w2, h0]
  | none =>
    simp only
    obtain ⟨d1, d2, _⟩ := deliverRecords_spec { a with inbound := a.inbound ++ [r] }
    simp only [hc] at d1 d2
    refine ⟨?_, ?_⟩
    · rw [d1]; simp [App.surfaced, App.delivered]
    · intro hs; rw [d2] at hs; simp at hs

theorem receiveRecord_spec (a : App) (chain : Nat) (h : ConsInv a) :
    (receiveRecord a chain).surfaced = a.surfaced ∧ ConsInv (receiveRecord a chain) := by
  unfold receiveRecord
  obtain ⟨d1, d2, d3⟩ := deliverRecords_spec { a with waiting := a.waiting ++ [⟨a.nextId, chain⟩], nextId := a.nextId + 1 }
  refine ⟨?_, ?_⟩
  · rw [d1]; rfl
  · intro hs
    rw [d2] at hs
    exact d3 (h hs)

theorem drain_spec : ∀ (inb : List Bytes) (a : App),
    (drain inb a).delivered ++ (drain inb a).inbound = a.delivered ++ inb ∧ ConsInv (drain inb a) := by
  intro inb
  induction inb with
  | nil => intro a; simp [drain, App.delivered, ConsInv]
  | cons r rs ih =>
    intro a
    simp only [drain]
    cases hc : a.consumer with
    | none => simp [App.delivered, ConsInv]
    | some k =>
      simp only
      obtain ⟨i1, i2⟩ := ih (writeToConsumer { a with inbound := rs } k r false)
      obtain ⟨w1, _⟩ := writeToConsumer_spec { a with inbound := rs } k r false
      simp only [hc] at i1 i2 w1
      refine ⟨?_, i2⟩
      rw [i1, w1]
      simp [App.delivered]

theorem connectConsumer_spec (a : App) (ex : Option Nat) (h : ConsInv a) :
    (connectConsumer a ex).1.surfaced = a.surfaced ∧ ConsInv (connectConsumer a ex).1 := by
  unfold connectConsumer
  cases hc : a.consumer with
  | some k => exact ⟨rfl, h⟩
  | none =>
    simp only
    split
    · rename_i he
      obtain ⟨w1, w2⟩ := writeToConsumer_spec { a with consumer := some ⟨0, ex⟩, log := a.log ++ [.reg] } ⟨0, ex⟩ [] true
      obtain ⟨d1, d2⟩ := drain_spec
        (writeToConsumer { a with consumer := some ⟨0, ex⟩, log := a.log ++ [.reg] } ⟨0, ex⟩ [] true).inbound
        (writeToConsumer { a with consumer := some ⟨0, ex⟩, log := a.log ++ [.reg] } ⟨0, ex⟩ [] true)
      refine ⟨?_, d2⟩
      simp only [App.surfaced]
      rw [d1, w1, w2]
      simp [App.delivered, List.filterMap_append, Ev.payload]
    · obtain ⟨d1, d2⟩ := drain_spec a.inbound { a with consumer := some ⟨0, ex⟩, log := a.log ++ [.reg] }
      refine ⟨?_, d2⟩
      simp only [App.surfaced]
      rw [d1]
      simp [App.delivered, List.filterMap_append, Ev.payload]

theorem filterMap_payload_failed (ws : List Reader) :
    (ws.map (fun (d : Reader) => Ev.failed d.id)).filterMap Ev.payload = [] := by
  induction ws with
  | nil => rfl
  | cons d ds ih => simp [Ev.payload]

theorem connectionLost_spec (a : App) (h : ConsInv a) :
    (connectionLost a).surfaced = a.surfaced ∧ ConsInv (connectionLost a) ∧ (connectionLost a).waiting = [] := by
  unfold connectionLost
  simp only
  split
  · refine ⟨?_, ?_, rfl⟩
    · simp only [App.surfaced, App.delivered, App.emit, List.filterMap_append, filterMap_payload_failed]
      simp [Ev.payload]
    · exact h
  · refine ⟨?_, ?_, rfl⟩
    · simp only [App.surfaced, App.delivered, List.filterMap_append, filterMap_payload_failed]
      simp
    · exact h

theorem close_spec (a : App) (h : ConsInv a) :
    (close a).surfaced = a.surfaced ∧ ConsInv (close a) ∧ (close a).waiting = [] := by
  unfold close
  refine ⟨?_, h, rfl⟩
  simp only [App.surfaced, App.delivered, List.filterMap_append, filterMap_payload_failed]
  simp [Ev.payload]

theorem foldl_recordReceived_spec : ∀ (rs : List Bytes) (a : App), ConsInv a →
    (rs.foldl recordReceived a).surfaced = a.surfaced ++ rs ∧ ConsInv (rs.foldl recordReceived a) := by
  intro rs
  induction rs with
  | nil => intro a h; simp [h]
  | cons r rs ih =>
    intro a h
    obtain ⟨s1, s2⟩ := recordReceived_spec a r h
    obtain ⟨i1, i2⟩ := ih (recordReceived a r) s2
    simp only [List.foldl_cons]
    exact ⟨by rw [i1, s1]; simp, i2⟩

/-! ## the prefix invariant (any bytes, any interleaving of application calls) -/

/-- what was accepted so far is a prefix of what was sent, and while the connection is alive the
    receive counter equals the number of records accepted -/
def Inv (rs : List Bytes) (c : Conn) : Prop :=
  c.app.surfaced <+: rs ∧ (c.state = .records → c.app.surfaced.length = c.nextReceiveNonce) ∧ ConsInv c.app

theorem prefix_snoc {l rs : List Bytes} {i : Nat} (h : l <+: rs) (hl : l.length = i) (hi : i < rs.length) :
    l ++ [rs[i]] <+: rs := by
  obtain ⟨t, rfl⟩ := h
  subst hl
  cases t with
  | nil => simp at hi
  | cons x t =>
    refine ⟨t, ?_⟩
    simp

/-- the `only` half of `IdealFor`, as the loop needs it -/
def OnlyHonest (E : Env) (key : Bytes) (rs : List Bytes) : Prop :=
  ∀ n c m, E.box.dec key n c = some m → ∃ i, ∃ h : i < rs.length, n = beFixed 24 i ∧ m = rs[i]

theorem loop_inv (E : Env) (rs : List Bytes) (b : Bool) (hcount : rs.length ≤ 256 ^ 24)
    (honly : OnlyHonest E (receiverRecordKey E b) rs) : ∀ (f : Nat) (c : Conn),
    c.isSender = b → c.state = .records → Inv rs c →
    (dataReceivedRECORDS E f c).1.app.surfaced <+: rs ∧ ConsInv (dataReceivedRECORDS E f c).1.app ∧
    ((dataReceivedRECORDS E f c).2 = none →
      (dataReceivedRECORDS E f c).1.app.surfaced.length = (dataReceivedRECORDS E f c).1.nextReceiveNonce) := by
  intro f
  induction f with
  | zero =>
    intro c _ hst hinv
    simp only [dataReceivedRECORDS]
    exact ⟨hinv.1, hinv.2.2, fun _ => hinv.2.1 hst⟩
  | succ f ih =>
    intro c hb hst hinv
    unfold dataReceivedRECORDS
    cases hp : parseFrame c.buf with
    | none => exact ⟨hinv.1, hinv.2.2, fun _ => hinv.2.1 hst⟩
    | some p =>
      obtain ⟨enc, rest⟩ := p
      simp only
      cases hd : decryptRecord E { c with buf := rest } enc with
      | mk c2 res =>
        cases res with
        | error e =>
          obtain ⟨ha, _, _, _⟩ := decryptRecord_error hd
          simp only at ha ⊢
          rw [ha]
          exact ⟨hinv.1, hinv.2.2, fun h => by simp at h⟩
        | ok r =>
          obtain ⟨hc2, hnonce, _, hdec⟩ := decryptRecord_ok hd
          simp only at hc2 hnonce hdec
          rw [hb] at hdec
          obtain ⟨i, hi, hn, hr⟩ := honly _ _ _ hdec
          have hi' : i < 256 ^ 24 := by omega
          rw [hn, beDecode_beFixed_lt hi'] at hnonce
          have hlen : c.app.surfaced.length = i := by rw [hinv.2.1 hst, hnonce]
          obtain ⟨s1, s2⟩ := recordReceived_spec c.app r hinv.2.2
          simp only
          apply ih
          · rw [hc2]; exact hb
          · rw [hc2]; exact hst
          · subst hc2
            refine ⟨?_, ?_, ?_⟩
            · simp only
              rw [s1, hr]
              exact prefix_snoc hinv.1 hlen hi
            · intro _
              simp only
              rw [s1]
              simp [hlen, hnonce]
            · exact s2

theorem emit_lose_surfaced (a : App) : (a.emit [.lose]).surfaced = a.surfaced := by
  simp [App.surfaced, App.delivered, App.emit, List.filterMap_append, Ev.payload]

theorem rx_fields (E : Env) (c : Conn) :
    (rx E c).1.isSender = c.isSender ∧ (rx E c).1.state = c.state ∧
    (rx E c).1.sendNonce = c.sendNonce ∧ (rx E c).1.error = c.error := loop_fields E _ c

theorem dataReceived_isSender (E : Env) (c : Conn) (d : Bytes) : (dataReceived E c d).1.isSender = c.isSender := by
  cases hs : c.state with
  | hungUp => rw [dataReceived_hung E hs d]
  | records =>
    rw [dataReceived_records E hs d]
    have := (rx_fields E { c with buf := c.buf ++ d }).1
    cases hrx : rx E { c with buf := c.buf ++ d } with
    | mk c2 res =>
      rw [hrx] at this
      cases res with
      | none => exact this
      | some e => exact this

theorem rx_inv (E : Env) (rs : List Bytes) (b : Bool) (hcount : rs.length ≤ 256 ^ 24)
    (honly : OnlyHonest E (receiverRecordKey E b) rs) (c : Conn)
    (hb : c.isSender = b) (hs : c.state = .records) (hinv : Inv rs c) :
    (rx E c).1.app.surfaced <+: rs ∧ ConsInv (rx E c).1.app ∧
    ((rx E c).2 = none → (rx E c).1.app.surfaced.length = (rx E c).1.nextReceiveNonce) :=
  loop_inv E rs b hcount honly _ c hb hs hinv

theorem dataReceived_inv (E : Env) (rs : List Bytes) (b : Bool) (hcount : rs.length ≤ 256 ^ 24)
    (honly : OnlyHonest E (receiverRecordKey E b) rs) (c : Conn) (d : Bytes)
    (hb : c.isSender = b) (hinv : Inv rs c) : Inv rs (dataReceived E c d).1 := by
  cases hs : c.state with
  | hungUp =>
    rw [dataReceived_hung E hs d]
    exact ⟨hinv.1, fun h => by simp [hs] at h, hinv.2.2⟩
  | records =>
    rw [dataReceived_records E hs d]
    have hl := rx_inv E rs b hcount honly { c with buf := c.buf ++ d } hb hs ⟨hinv.1, hinv.2.1, hinv.2.2⟩
    cases hrx : rx E { c with buf := c.buf ++ d } with
    | mk c2 res =>
      rw [hrx] at hl
      cases res with
      | none => exact ⟨hl.1, fun _ => hl.2.2 rfl, hl.2.1⟩
      | some e =>
        refine ⟨?_, fun h => by simp [hangUp] at h, ?_⟩
        · simp only [hangUp]; rw [emit_lose_surfaced]; exact hl.1
        · intro h; exact hl.2.1 h

theorem step_isSender (E : Env) (c : Conn) (op : Op) : (step E c op).isSender = c.isSender := by
  cases op <;> simp [step, dataReceived_isSender]

theorem step_inv (E : Env) (rs : List Bytes) (b : Bool) (hcount : rs.length ≤ 256 ^ 24)
    (honly : OnlyHonest E (receiverRecordKey E b) rs) (c : Conn) (op : Op)
    (hb : c.isSender = b) (hinv : Inv rs c) : Inv rs (step E c op) := by
  cases op with
  | data d => exact dataReceived_inv E rs b hcount honly c d hb hinv
  | read ch =>
    obtain ⟨s1, s2⟩ := receiveRecord_spec c.app ch hinv.2.2
    exact ⟨by simp only [step]; rw [s1]; exact hinv.1, by simp only [step]; rw [s1]; exact hinv.2.1, s2⟩
  | consume ex =>
    obtain ⟨s1, s2⟩ := connectConsumer_spec c.app ex hinv.2.2
    exact ⟨by simp only [step]; rw [s1]; exact hinv.1, by simp only [step]; rw [s1]; exact hinv.2.1, s2⟩
  | lost =>
    obtain ⟨s1, s2, _⟩ := connectionLost_spec c.app hinv.2.2
    exact ⟨by simp only [step]; rw [s1]; exact hinv.1, by simp only [step]; rw [s1]; exact hinv.2.1, s2⟩
  | close =>
    obtain ⟨s1, s2, _⟩ := close_spec c.app hinv.2.2
    exact ⟨by simp only [step]; rw [s1]; exact hinv.1, by simp only [step]; rw [s1]; exact hinv.2.1, s2⟩

theorem run_inv (E : Env) (rs : List Bytes) (b : Bool) (hcount : rs.length ≤ 256 ^ 24)
    (honly : OnlyHonest E (receiverRecordKey E b) rs) : ∀ (ops : List Op) (c : Conn),
    c.isSender = b → Inv rs c → Inv rs (run E c ops) := by
  intro ops
  induction ops with
  | nil => intro c _ h; exact h
  | cons op ops ih =>
    intro c hb h
    exact ih (step E c op) ((step_isSender E c op).trans hb) (step_inv E rs b hcount honly c op hb h)

theorem init_inv (rs : List Bytes) (b : Bool) (left : Bytes) : Inv rs (Conn.init b left) := by
  refine ⟨?_, ?_, ?_⟩
  · simp [Conn.init, App.init, App.surfaced, App.delivered]
  · intro _; simp [Conn.init, App.init, App.surfaced, App.delivered]
  · intro h; simp [Conn.init, App.init] at h

/-! ## hung up is final -/

theorem step_hung (E : Env) (c : Conn) (op : Op) (h : c.state = .hungUp) (hc : ConsInv c.app) :
    (step E c op).state = .hungUp ∧ (step E c op).app.surfaced = c.app.surfaced ∧ ConsInv (step E c op).app ∧
    (step E c op).nextReceiveNonce = c.nextReceiveNonce ∧ (step E c op).error = c.error := by
  cases op with
  | data d =>
    simp only [step]
    rw [dataReceived_hung E h d]
    exact ⟨h, rfl, hc, rfl, rfl⟩
  | read ch =>
    obtain ⟨s1, s2⟩ := receiveRecord_spec c.app ch hc
    exact ⟨h, s1, s2, rfl, rfl⟩
  | consume ex =>
    obtain ⟨s1, s2⟩ := connectConsumer_spec c.app ex hc
    exact ⟨h, s1, s2, rfl, rfl⟩
  | lost =>
    obtain ⟨s1, s2, _⟩ := connectionLost_spec c.app hc
    exact ⟨h, s1, s2, rfl, rfl⟩
  | close =>
    obtain ⟨s1, s2, _⟩ := close_spec c.app hc
    exact ⟨h, s1, s2, rfl, rfl⟩

theorem run_hung (E : Env) : ∀ (ops : List Op) (c : Conn), c.state = .hungUp → ConsInv c.app →
    (run E c ops).state = .hungUp ∧ (run E c ops).app.surfaced = c.app.surfaced ∧
    (run E c ops).nextReceiveNonce = c.nextReceiveNonce ∧ (run E c ops).error = c.error := by
  intro ops
  induction ops with
  | nil => intro c h _; exact ⟨h, rfl, rfl, rfl⟩
  | cons op ops ih =>
    intro c h hc
    obtain ⟨a1, a2, a3, a4, a5⟩ := step_hung E c op h hc
    obtain ⟨b1, b2, b3, b4⟩ := ih (step E c op) a1 a3
    exact ⟨b1, b2.trans a2, b3.trans a4, b4.trans a5⟩

/-! ## rejection -/

theorem take_nonce_not_empty {enc : Bytes} (h : enc ≠ []) :
    ¬ ((List.take Gen.C06.NONCE_SIZE enc).isEmpty = true) := by
  cases enc with
  | nil => exact absurd rfl h
  | cons x xs => simp [Gen.C06.NONCE_SIZE]

/-- the nonce check comes first and does not involve the box at all -/
theorem verdict_badNonce (E : Env) (b : Bool) (rn : Nat) (enc : Bytes) (hne : enc ≠ [])
    (h : beDecode (enc.take 24) ≠ rn) : verdict E b rn enc = .error .badNonce := by
  simp only [verdict, decryptRecord, Conn.init]
  rw [if_neg (take_nonce_not_empty hne)]
  have h' : beDecode (List.take Gen.C06.NONCE_SIZE enc) ≠ rn := h
  rw [if_pos h']

theorem verdict_empty (E : Env) (b : Bool) (rn : Nat) : verdict E b rn [] = .error .valueError := by
  simp [verdict, decryptRecord]

/-- anything `_decrypt_record` accepts at counter `rn` opened under the receive key with nonce `rn` -/
theorem verdict_ok {E : Env} {b : Bool} {rn : Nat} {enc r : Bytes} (h : verdict E b rn enc = .ok r) :
    beDecode (enc.take 24) = rn ∧ (enc.take 24).length = 24 ∧
    E.box.dec (receiverRecordKey E b) (enc.take 24) (enc.drop 24) = some r := by
  have : decryptRecord E { Conn.init b with nextReceiveNonce := rn } enc =
      ((decryptRecord E { Conn.init b with nextReceiveNonce := rn } enc).1, .ok r) := by
    rw [← h]; rfl
  obtain ⟨_, h2, h3, h4⟩ := decryptRecord_ok this
  exact ⟨h2, h3, h4⟩

theorem verdict_cases (v : Except Err Bytes) : (∃ e, v = .error e) ∨ (∃ r, v = .ok r) := by
  cases v with
  | error e => exact .inl ⟨e, rfl⟩
  | ok r => exact .inr ⟨r, rfl⟩

/-- after an honest prefix, a complete frame that `_decrypt_record` rejects hangs the connection up:
    exactly the honest prefix was handed on, `loseConnection` is called, the rest stays unparsed -/
theorem drop_at (E : Env) (c : Conn) (rs : List Bytes) (i : Nat) (e tail : Bytes) (err : Err)
    (hst : c.state = .records) (hbuf : c.buf = []) (hn : c.nextReceiveNonce = i)
    (hcount : i + rs.length ≤ 256 ^ 24) (hsz : SizesOK rs)
    (hlen : ∀ n m, (E.box.enc (receiverRecordKey E c.isSender) n m).length = m.length + 16)
    (hopen : ∀ j (h : j < rs.length), E.box.dec (receiverRecordKey E c.isSender) (beFixed 24 (i + j))
        (E.box.enc (receiverRecordKey E c.isSender) (beFixed 24 (i + j)) rs[j]) = some rs[j])
    (he : e.length < 256 ^ 4)
    (hrej : verdict E c.isSender (i + rs.length) e = .error err)
    (x : Bytes) (cs : List Bytes)
    (hwire : x ++ cs.flatten = wireOf E (receiverRecordKey E c.isSender) i rs ++ (frame e ++ tail)) :
    (feed E c (x :: cs)).state = .hungUp ∧ (feed E c (x :: cs)).error = some err ∧
    (feed E c (x :: cs)).buf = tail ∧
    (feed E c (x :: cs)).app = (rs.foldl recordReceived c.app).emit [.lose] := by
  rw [feed_cons_eq, hwire, dataReceived_records E hst]
  have hc : ({ c with buf := c.buf ++ (wireOf E (receiverRecordKey E c.isSender) i rs ++ (frame e ++ tail)) } : Conn)
      = { c with buf := wireOf E (receiverRecordKey E c.isSender) i rs ++ (frame e ++ tail) } := by
    rw [hbuf]; rfl
  rw [hc, rx_honest E (frame e ++ tail) rs i c hn hcount hsz hlen hopen, rx_unfold]
  simp only [parseFrame_frame e tail he]
  have hv := decryptRecord_snd E
    { c with buf := tail, nextReceiveNonce := i + rs.length, app := rs.foldl recordReceived c.app } e
  simp only at hv
  rw [hrej] at hv
  cases hd : decryptRecord E
    { c with buf := tail, nextReceiveNonce := i + rs.length, app := rs.foldl recordReceived c.app } e with
  | mk c2 res =>
    rw [hd] at hv
    simp only at hv
    subst hv
    obtain ⟨ha, _, _, hb⟩ := decryptRecord_error hd
    simp only at ha hb
    exact ⟨rfl, rfl, hb, by show c2.app.emit [.lose] = _; rw [ha]⟩

/-! ## consumer mode -/

theorem deliverLoop_cw : ∀ (inb : List Bytes) (ws : List Reader) (nid : Nat) (lg : List Ev),
    (deliverLoop inb ws nid lg).2.2.2.filterMap Ev.cw = lg.filterMap Ev.cw ∧
    (deliverLoop inb ws nid lg).2.2.2.filterMap Ev.doneVal = lg.filterMap Ev.doneVal := by
  intro inb
  induction inb with
  | nil => intro ws nid lg; simp [deliverLoop]
  | cons r rs ih =>
    intro ws nid lg
    cases ws with
    | nil => simp [deliverLoop]
    | cons d ds =>
      simp only [deliverLoop]
      split
      · rw [(ih _ _ _).1, (ih _ _ _).2]; simp [List.filterMap_append, Ev.cw, Ev.doneVal]
      · rw [(ih _ _ _).1, (ih _ _ _).2]; simp [List.filterMap_append, Ev.cw, Ev.doneVal]

theorem recordReceived_none (a : App) (r : Bytes) (h : a.consumer = none) :
    (recordReceived a r).consumer = none ∧ (recordReceived a r).consumerWrites = a.consumerWrites ∧
    (recordReceived a r).dones = a.dones := by
  simp only [recordReceived, h]
  have hl := deliverLoop_cw (a.inbound ++ [r]) a.waiting a.nextId a.log
  simp only [deliverRecords, App.consumerWrites, App.dones]
  exact ⟨by simp, hl.1, hl.2⟩

theorem foldl_none : ∀ (rs : List Bytes) (a : App), a.consumer = none →
    (rs.foldl recordReceived a).consumer = none ∧ (rs.foldl recordReceived a).consumerWrites = a.consumerWrites ∧
    (rs.foldl recordReceived a).dones = a.dones := by
  intro rs
  induction rs with
  | nil => intro a h; exact ⟨h, rfl, rfl⟩
  | cons r rs ih =>
    intro a h
    obtain ⟨h1, h2, h3⟩ := recordReceived_none a r h
    obtain ⟨i1, i2, i3⟩ := ih (recordReceived a r) h1
    exact ⟨i1, i2.trans h2, i3.trans h3⟩

/-- `_writeToConsumer` below / at the threshold -/
theorem recordReceived_consumer (a : App) (w N : Nat) (r : Bytes) (h : a.consumer = some ⟨w, some N⟩) :
    (recordReceived a r).consumerWrites = a.consumerWrites ++ [r] ∧
    (recordReceived a r).inbound = a.inbound ∧
    (w + r.length < N → (recordReceived a r).consumer = some ⟨w + r.length, some N⟩ ∧
        (recordReceived a r).dones = a.dones) ∧
    (N ≤ w + r.length → (recordReceived a r).consumer = none ∧
        (recordReceived a r).dones = a.dones ++ [w + r.length]) := by
  simp only [recordReceived, h, writeToConsumer]
  by_cases hlt : w + r.length ≥ N
  · rw [if_pos hlt]
    refine ⟨?_, rfl, fun h' => by omega, fun _ => ⟨rfl, ?_⟩⟩
    · simp [App.consumerWrites, App.emit, disconnectConsumer, List.filterMap_append, Ev.cw]
    · simp [App.dones, App.emit, disconnectConsumer, List.filterMap_append]
      rfl
  · rw [if_neg hlt]
    refine ⟨?_, rfl, fun _ => ⟨rfl, ?_⟩, fun h' => by omega⟩
    · simp [App.consumerWrites, List.filterMap_append, Ev.cw]
    · simp [App.dones, List.filterMap_append, Ev.doneVal]

theorem consumer_fold (N : Nat) : ∀ (rs : List Bytes) (a : App) (w : Nat),
    a.consumer = some ⟨w, some N⟩ → w < N →
    ∃ k, k ≤ rs.length ∧
      (rs.foldl recordReceived a).consumerWrites = a.consumerWrites ++ rs.take k ∧
      (((rs.foldl recordReceived a).consumer = some ⟨w + (rs.take k).flatten.length, some N⟩ ∧ k = rs.length ∧
          w + rs.flatten.length < N ∧ (rs.foldl recordReceived a).dones = a.dones) ∨
       ((rs.foldl recordReceived a).consumer = none ∧ 0 < k ∧
          w + (rs.take (k - 1)).flatten.length < N ∧ N ≤ w + (rs.take k).flatten.length ∧
          (rs.foldl recordReceived a).dones = a.dones ++ [w + (rs.take k).flatten.length])) := by
  intro rs
  induction rs with
  | nil =>
    intro a w h hw
    exact ⟨0, Nat.le_refl _, by simp, .inl ⟨by simpa using h, rfl, by simpa using hw, rfl⟩⟩
  | cons r rs ih =>
    intro a w h hw
    obtain ⟨c1, _, c3, c4⟩ := recordReceived_consumer a w N r h
    simp only [List.foldl_cons]
    have key : ∀ l : List Bytes, (r :: l).flatten.length = r.length + l.flatten.length := by
      intro l; simp
    by_cases hlt : w + r.length < N
    · obtain ⟨d1, d2⟩ := c3 hlt
      obtain ⟨k, hk, e1, e2⟩ := ih (recordReceived a r) (w + r.length) d1 hlt
      refine ⟨k + 1, by simp; omega, ?_, ?_⟩
      · rw [e1, c1]; simp
      · rcases e2 with ⟨f1, f2, f3, f4⟩ | ⟨f1, f2, f3, f4, f5⟩
        · refine .inl ⟨?_, by simp [f2], ?_, f4.trans d2⟩
          · rw [f1, List.take_succ_cons, key, Nat.add_assoc]
          · rw [key]; omega
        · refine .inr ⟨f1, by omega, ?_, ?_, ?_⟩
          · obtain ⟨k', rfl⟩ : ∃ k', k = k' + 1 := ⟨k - 1, by omega⟩
            rw [Nat.add_sub_cancel] at f3 ⊢
            rw [List.take_succ_cons, key]; omega
          · rw [List.take_succ_cons, key]; omega
          · rw [f5, d2, List.take_succ_cons, key, Nat.add_assoc]
    · have hge : N ≤ w + r.length := by omega
      obtain ⟨d1, d2⟩ := c4 hge
      obtain ⟨g1, g2, g3⟩ := foldl_none rs (recordReceived a r) d1
      refine ⟨1, by simp, ?_, .inr ⟨g1, by omega, ?_, ?_, ?_⟩⟩
      · rw [g2, c1]; simp
      · simpa using hw
      · simpa using hge
      · rw [g3, d2]; simp

/-! ## rejection of anything the honest sender did not seal for this position -/

theorem IdealFor.onlyHonest {E : Env} {key : Bytes} {rs : List Bytes} (h : IdealFor E.box key rs) :
    OnlyHonest E key rs := by
  intro n c m hd
  obtain ⟨i, hi, h1, h2, _⟩ := h.only n c m hd
  exact ⟨i, hi, h1, h2⟩

theorem unsealed_rejected (E : Env) (b : Bool) (rs : List Bytes) (j : Nat) (e : Bytes)
    (hid : IdealFor E.box (receiverRecordKey E b) rs) (hcount : rs.length ≤ 256 ^ 24)
    (hne : ∀ h : j < rs.length, e ≠ blob E (receiverRecordKey E b) j rs[j]) :
    ∃ err, verdict E b j e = .error err := by
  rcases verdict_cases (verdict E b j e) with h | ⟨r, h⟩
  · exact h
  · exfalso
    obtain ⟨h1, _, h3⟩ := verdict_ok h
    obtain ⟨i, hi, g1, g2, g3⟩ := hid.only _ _ _ h3
    have hi' : i < 256 ^ 24 := by omega
    rw [g1, beDecode_beFixed_lt hi'] at h1
    subst h1
    apply hne hi
    have : e = e.take 24 ++ e.drop 24 := (List.take_append_drop 24 e).symm
    rw [this, g3, g1, g2]
    rfl

/-! ## the ideal functionality as a concrete box (the hypotheses are satisfiable, for every history) -/

/-- opens exactly the sealings of `rs[i]` under nonce `i` and key `k0`; the "MAC" is 16 zero bytes -/
def idealBox (k0 : Bytes) (rs : List Bytes) : Box :=
  { enc := fun _ _ m => List.replicate 16 0 ++ m,
    dec := fun k n c =>
      if k = k0 ∧ c.take 16 = List.replicate 16 0 ∧ 16 ≤ c.length ∧
          (List.range rs.length).any (fun i => n == beFixed 24 i && rs[i]? == some (c.drop 16)) = true
      then some (c.drop 16) else none }

theorem idealBox_ideal (k0 : Bytes) (rs : List Bytes) : IdealFor (idealBox k0 rs) k0 rs where
  len_enc := by intro n m; simp [idealBox, macbytes_eq]
  opens := by
    intro i h
    simp only [idealBox]
    rw [if_pos]
    · simp
    · refine ⟨trivial, by simp, by simp, ?_⟩
      rw [List.any_eq_true]
      exact ⟨i, by simp [h], by simp [h]⟩
  only := by
    intro n c m h
    simp only [idealBox] at h
    split at h
    · rename_i hc
      obtain ⟨_, h2, h3, h4⟩ := hc
      simp only [Option.some.injEq] at h
      rw [List.any_eq_true] at h4
      obtain ⟨i, hi, hp⟩ := h4
      simp only [Bool.and_eq_true, beq_iff_eq] at hp
      have hi' : i < rs.length := by simpa using hi
      refine ⟨i, hi', hp.1, ?_, ?_⟩
      · have := hp.2
        rw [List.getElem?_eq_getElem hi'] at this
        simp only [Option.some.injEq] at this
        rw [← h, this]
      · simp only [idealBox]
        rw [← h2, ← h, List.take_append_drop]
    · simp at h

end WV.C06
