import WV.Model.C06

/-! Helper lemmas for `WV.Props.C06` (no Mathlib needed). -/
namespace WV.C06
open WV

/-! ## big-endian integers -/

theorem beFixed_length (w n : Nat) : (beFixed w n).length = w := by
  induction w generalizing n with
  | zero => simp [beFixed]
  | succ w ih => simp [beFixed, ih]

theorem beDecode_snoc (xs : Bytes) (d : Nat) : beDecode (xs ++ [d]) = beDecode xs * 256 + d := by
  simp [beDecode, List.foldl_append]

theorem beDecode_beFixed (w n : Nat) : beDecode (beFixed w n) = n % 256 ^ w := by
  induction w generalizing n with
  | zero => simp [beFixed, beDecode, Nat.mod_one]
  | succ w ih =>
    rw [beFixed, beDecode_snoc, ih, Nat.pow_succ', Nat.mod_mul]
    omega

theorem beDecode_beFixed_lt {w n : Nat} (h : n < 256 ^ w) : beDecode (beFixed w n) = n := by
  rw [beDecode_beFixed, Nat.mod_eq_of_lt h]

theorem beFixed_ne_nil {w n : Nat} (h : 0 < w) : beFixed w n ≠ [] := by
  intro e
  have := beFixed_length w n
  rw [e] at this
  simp at this
  omega

/-! ## framing -/

theorem parseFrame_frame (b tail : Bytes) (h : b.length < 256 ^ 4) :
    parseFrame (frame b ++ tail) = some (b, tail) := by
  have hl : (beFixed 4 b.length).length = 4 := beFixed_length _ _
  have htake : (frame b ++ tail).take 4 = beFixed 4 b.length := by
    simp [frame, List.append_assoc, hl]
  have hlen : (frame b ++ tail).length = 4 + b.length + tail.length := by
    simp [frame, hl]; omega
  have hdrop : (frame b ++ tail).drop 4 = b ++ tail := by
    simp only [frame, List.append_assoc]
    rw [List.drop_append_of_le_length (by omega)]
    rw [List.drop_of_length_le (by omega)]
    simp
  have hdrop2 : (frame b ++ tail).drop (4 + b.length) = tail := by
    rw [← List.drop_drop, hdrop]
    simp
  have h1 : ¬ (4 + b.length + tail.length < 4) := by omega
  have h2 : ¬ (4 + b.length + tail.length < 4 + b.length) := by omega
  simp only [parseFrame, htake, beDecode_beFixed_lt h, hdrop, hdrop2, hlen, h1, h2, if_false]
  simp

theorem parseFrame_some {buf e r : Bytes} (h : parseFrame buf = some (e, r)) :
    r.length + 4 ≤ buf.length ∧ 4 + beDecode (buf.take 4) ≤ buf.length ∧
      e = (buf.drop 4).take (beDecode (buf.take 4)) ∧ r = buf.drop (4 + beDecode (buf.take 4)) := by
  unfold parseFrame at h
  by_cases h1 : buf.length < 4
  · simp [h1] at h
  · by_cases h2 : buf.length < 4 + beDecode (buf.take 4)
    · simp [h1, h2] at h
    · simp [h1, h2] at h
      obtain ⟨he, hr⟩ := h
      refine ⟨?_, by omega, he.symm, hr.symm⟩
      rw [← hr]
      simp
      omega

theorem parseFrame_append {buf e r : Bytes} (y : Bytes) (h : parseFrame buf = some (e, r)) :
    parseFrame (buf ++ y) = some (e, r ++ y) := by
  obtain ⟨_, hle, he, hr⟩ := parseFrame_some h
  have h4 : 4 ≤ buf.length := by omega
  have htake : (buf ++ y).take 4 = buf.take 4 := List.take_append_of_le_length h4
  unfold parseFrame
  rw [htake]
  have h1 : ¬ ((buf ++ y).length < 4) := by simp; omega
  have h2 : ¬ ((buf ++ y).length < 4 + beDecode (buf.take 4)) := by simp; omega
  simp only [h1, h2, if_false]
  congr 2
  · rw [List.drop_append_of_le_length h4, List.take_append_of_le_length (by simp; omega), he]
  · rw [List.drop_append_of_le_length hle, hr]

/-! ## the receive loop does not depend on the fuel -/

theorem decryptRecord_buf (E : Env) (c : Conn) (enc : Bytes) : (decryptRecord E c enc).1.buf = c.buf := by
  simp only [decryptRecord]
  split
  · rfl
  · split <;> rfl

/-- `decryptRecord` does not look at `buf` -/
theorem decryptRecord_setBuf (E : Env) (c : Conn) (enc b : Bytes) :
    decryptRecord E { c with buf := b } enc =
      ({ (decryptRecord E c enc).1 with buf := b }, (decryptRecord E c enc).2) := by
  simp only [decryptRecord]
  split
  · rfl
  · split <;> rfl

theorem fuel_mono (E : Env) : ∀ (f g : Nat) (c : Conn), c.buf.length < f → c.buf.length < g →
    dataReceivedRECORDS E f c = dataReceivedRECORDS E g c := by
  intro f
  induction f with
  | zero => intro g c h; omega
  | succ f ih =>
    intro g c hf hg
    cases g with
    | zero => omega
    | succ g =>
      unfold dataReceivedRECORDS
      cases hp : parseFrame c.buf with
      | none => rfl
      | some p =>
        obtain ⟨enc, rest⟩ := p
        have hr := (parseFrame_some hp).1
        simp only
        have hb := decryptRecord_buf E { c with buf := rest } enc
        cases hd : decryptRecord E { c with buf := rest } enc with
        | mk c2 res =>
          rw [hd] at hb
          simp only at hb
          cases res with
          | error e => rfl
          | ok r =>
            simp only
            apply ih
            · simp [hb]; omega
            · simp [hb]; omega

/-- `dataReceivedRECORDS()` with the fuel the model gives it -/
def rx (E : Env) (c : Conn) : Conn × Option Err := dataReceivedRECORDS E (c.buf.length + 1) c

theorem rx_unfold (E : Env) (c : Conn) :
    rx E c = match parseFrame c.buf with
      | none => (c, none)
      | some (enc, rest) =>
        match decryptRecord E { c with buf := rest } enc with
        | (c2, .error e) => (c2, some e)
        | (c2, .ok r) => rx E { c2 with app := recordReceived c2.app r } := by
  unfold rx
  rw [dataReceivedRECORDS]
  cases hp : parseFrame c.buf with
  | none => rfl
  | some p =>
    obtain ⟨enc, rest⟩ := p
    have hr := (parseFrame_some hp).1
    simp only
    have hb := decryptRecord_buf E { c with buf := rest } enc
    cases hd : decryptRecord E { c with buf := rest } enc with
    | mk c2 res =>
      rw [hd] at hb
      simp only at hb
      cases res with
      | error e => rfl
      | ok r =>
        simp only
        apply fuel_mono
        · simp [hb]; omega
        · simp [hb]

theorem dataReceived_eq (E : Env) (c : Conn) (data : Bytes) :
    dataReceived E c data =
      match c.state with
      | .hungUp => ({ c with buf := c.buf ++ data }, none)
      | .records =>
        match rx E { c with buf := c.buf ++ data } with
        | (c2, none) => (c2, none)
        | (c2, some e) => (hangUp c2 e, some e) := by
  unfold dataReceived rx
  cases c.state <;> rfl

/-! ## the receive loop leaves the other wire fields alone -/

theorem decryptRecord_fields (E : Env) (c : Conn) (enc : Bytes) :
    (decryptRecord E c enc).1.isSender = c.isSender ∧ (decryptRecord E c enc).1.state = c.state ∧
    (decryptRecord E c enc).1.sendNonce = c.sendNonce ∧ (decryptRecord E c enc).1.error = c.error ∧
    (decryptRecord E c enc).1.app = c.app := by
  simp only [decryptRecord]
  split
  · simp
  · split <;> simp

theorem loop_fields (E : Env) : ∀ (f : Nat) (c : Conn),
    (dataReceivedRECORDS E f c).1.isSender = c.isSender ∧ (dataReceivedRECORDS E f c).1.state = c.state ∧
    (dataReceivedRECORDS E f c).1.sendNonce = c.sendNonce ∧ (dataReceivedRECORDS E f c).1.error = c.error := by
  intro f
  induction f with
  | zero => intro c; simp [dataReceivedRECORDS]
  | succ f ih =>
    intro c
    unfold dataReceivedRECORDS
    cases hp : parseFrame c.buf with
    | none => simp
    | some p =>
      obtain ⟨enc, rest⟩ := p
      simp only
      have hf := decryptRecord_fields E { c with buf := rest } enc
      cases hd : decryptRecord E { c with buf := rest } enc with
      | mk c2 res =>
        rw [hd] at hf
        simp only at hf
        obtain ⟨h1, h2, h3, h4, _⟩ := hf
        cases res with
        | error e => simp [h1, h2, h3, h4]
        | ok r =>
          simp only
          obtain ⟨i1, i2, i3, i4⟩ := ih { c2 with app := recordReceived c2.app r }
          exact ⟨i1.trans h1, i2.trans h2, i3.trans h3, i4.trans h4⟩

theorem rx_state (E : Env) (c : Conn) : (rx E c).1.state = c.state := (loop_fields E _ c).2.1

/-! ## more bytes after a finished loop -/

/-- what `dataReceived` of more bytes does after the loop ended with outcome `p` -/
def after (E : Env) (p : Conn × Option Err) (y : Bytes) : Conn × Option Err :=
  match p with
  | (c', some e) => ({ c' with buf := c'.buf ++ y }, some e)
  | (c', none) => rx E { c' with buf := c'.buf ++ y }

theorem rx_append (E : Env) (y : Bytes) : ∀ (n : Nat) (c : Conn), c.buf.length < n →
    rx E { c with buf := c.buf ++ y } = after E (rx E c) y := by
  intro n
  induction n with
  | zero => intro c h; omega
  | succ n ih =>
    intro c hn
    rw [rx_unfold E c]
    cases hp : parseFrame c.buf with
    | none => rfl
    | some p =>
      obtain ⟨enc, rest⟩ := p
      have hr := (parseFrame_some hp).1
      rw [rx_unfold E { c with buf := c.buf ++ y }]
      simp only [parseFrame_append y hp]
      rw [decryptRecord_setBuf E c enc (rest ++ y), decryptRecord_setBuf E c enc rest]
      cases hd : decryptRecord E c enc with
      | mk c2 res =>
        cases res with
        | error e => rfl
        | ok r =>
          simp only
          have := ih { c2 with buf := rest, app := recordReceived c2.app r } (by simp; omega)
          simpa using this

theorem dataReceived_hung (E : Env) {c : Conn} (h : c.state = .hungUp) (d : Bytes) :
    dataReceived E c d = ({ c with buf := c.buf ++ d }, none) := by
  rw [dataReceived_eq, h]

theorem dataReceived_records (E : Env) {c : Conn} (h : c.state = .records) (d : Bytes) :
    dataReceived E c d = match rx E { c with buf := c.buf ++ d } with
      | (c2, none) => (c2, none)
      | (c2, some e) => (hangUp c2 e, some e) := by
  rw [dataReceived_eq, h]

theorem dataReceived_append (E : Env) (c : Conn) (x y : Bytes) :
    (dataReceived E (dataReceived E c x).1 y).1 = (dataReceived E c (x ++ y)).1 := by
  cases hs : c.state with
  | hungUp =>
    rw [dataReceived_hung E hs x, dataReceived_hung E hs (x ++ y)]
    rw [dataReceived_hung E (c := { c with buf := c.buf ++ x }) hs y]
    simp [List.append_assoc]
  | records =>
    have hap := rx_append E y _ { c with buf := c.buf ++ x } (Nat.lt_succ_self _)
    have e2 : ({ c with buf := c.buf ++ (x ++ y) } : Conn) =
        { ({ c with buf := c.buf ++ x } : Conn) with buf := ({ c with buf := c.buf ++ x } : Conn).buf ++ y } := by
      simp [List.append_assoc]
    rw [dataReceived_records E hs x, dataReceived_records E hs (x ++ y), e2, hap]
    have hst : (rx E { c with buf := c.buf ++ x }).1.state = .records :=
      (rx_state E { c with buf := c.buf ++ x }).trans hs
    cases hrx : rx E { c with buf := c.buf ++ x } with
    | mk c2 res =>
      rw [hrx] at hst
      simp only at hst
      cases res with
      | none =>
        simp only [after]
        rw [dataReceived_records E hst y]
      | some e =>
        simp only [after]
        rw [dataReceived_hung E (c := hangUp c2 e) rfl y]
        rfl

theorem feed_nil (E : Env) (c : Conn) : feed E c [] = c := rfl

theorem feed_cons (E : Env) (c : Conn) (x : Bytes) (cs : List Bytes) :
    feed E c (x :: cs) = feed E (dataReceived E c x).1 cs := rfl

theorem feed_cons_eq (E : Env) (cs : List Bytes) : ∀ (c : Conn) (x : Bytes),
    feed E c (x :: cs) = (dataReceived E c (x ++ cs.flatten)).1 := by
  induction cs with
  | nil => intro c x; simp [feed_cons, feed_nil]
  | cons y cs ih =>
    intro c x
    rw [feed_cons, ih, dataReceived_append]
    simp

/-! ## the verdict of `_decrypt_record` -/

theorem nonce_size_eq : Gen.C06.NONCE_SIZE = 24 := rfl
theorem macbytes_eq : Gen.C06.MACBYTES = 16 := rfl

/-- what `_decrypt_record` says about a blob when the counter is `rn` -/
def verdict (E : Env) (isSender : Bool) (rn : Nat) (enc : Bytes) : Except Err Bytes :=
  (decryptRecord E { Conn.init isSender with nextReceiveNonce := rn } enc).2

theorem decryptRecord_snd (E : Env) (c : Conn) (enc : Bytes) :
    (decryptRecord E c enc).2 = verdict E c.isSender c.nextReceiveNonce enc := by
  simp only [verdict, decryptRecord, Conn.init]
  split
  · rfl
  · split <;> rfl

theorem decryptRecord_ok {E : Env} {c c2 : Conn} {enc r : Bytes} (h : decryptRecord E c enc = (c2, .ok r)) :
    c2 = { c with nextReceiveNonce := c.nextReceiveNonce + 1 } ∧
    beDecode (enc.take 24) = c.nextReceiveNonce ∧ (enc.take 24).length = 24 ∧
    E.box.dec (receiverRecordKey E c.isSender) (enc.take 24) (enc.drop 24) = some r := by
  simp only [decryptRecord] at h
  by_cases h1 : (List.take Gen.C06.NONCE_SIZE enc).isEmpty = true
  · rw [if_pos h1] at h; simp at h
  · rw [if_neg h1] at h
    by_cases h2 : beDecode (List.take Gen.C06.NONCE_SIZE enc) ≠ c.nextReceiveNonce
    · rw [if_pos h2] at h; simp at h
    · rw [if_neg h2] at h
      simp only [Prod.mk.injEq] at h
      obtain ⟨hc, hv⟩ := h
      simp only [secretBoxDecrypt] at hv
      by_cases h3 : (List.take Gen.C06.NONCE_SIZE enc).length ≠ Gen.C06.NONCE_SIZE
      · rw [if_pos h3] at hv; simp at hv
      · rw [if_neg h3] at hv
        by_cases h4 : (List.drop Gen.C06.NONCE_SIZE enc).length < Gen.C06.MACBYTES
        · rw [if_pos h4] at hv; simp at hv
        · rw [if_neg h4] at hv
          cases hd : E.box.dec (receiverRecordKey E c.isSender) (List.take Gen.C06.NONCE_SIZE enc)
              (List.drop Gen.C06.NONCE_SIZE enc) with
          | none => rw [hd] at hv; simp at hv
          | some p =>
            rw [hd] at hv
            simp only [Except.ok.injEq] at hv
            subst hv
            exact ⟨hc.symm, Decidable.not_not.mp h2, Decidable.not_not.mp h3, hd⟩

theorem decryptRecord_error {E : Env} {c c2 : Conn} {enc : Bytes} {e : Err}
    (h : decryptRecord E c enc = (c2, .error e)) :
    c2.app = c.app ∧ c2.state = c.state ∧ c2.isSender = c.isSender ∧ c2.buf = c.buf := by
  have hf := decryptRecord_fields E c enc
  have hb := decryptRecord_buf E c enc
  rw [h] at hf hb
  exact ⟨hf.2.2.2.2, hf.2.1, hf.1, hb⟩

theorem blob_take (E : Env) (key : Bytes) (i : Nat) (r : Bytes) : (blob E key i r).take 24 = beFixed 24 i := by
  simp [blob, beFixed_length]

theorem blob_drop (E : Env) (key : Bytes) (i : Nat) (r : Bytes) :
    (blob E key i r).drop 24 = E.box.enc key (beFixed 24 i) r := by
  simp [blob, beFixed_length]

/-- an honest blob presented at its own position is accepted -/
theorem decryptRecord_honest (E : Env) (c : Conn) (i : Nat) (r : Bytes) (hi : i < 256 ^ 24)
    (hn : c.nextReceiveNonce = i)
    (hlen : 16 ≤ (E.box.enc (receiverRecordKey E c.isSender) (beFixed 24 i) r).length)
    (hopen : E.box.dec (receiverRecordKey E c.isSender) (beFixed 24 i)
      (E.box.enc (receiverRecordKey E c.isSender) (beFixed 24 i) r) = some r) :
    decryptRecord E c (blob E (receiverRecordKey E c.isSender) i r) =
      ({ c with nextReceiveNonce := i + 1 }, .ok r) := by
  have hne : ¬ ((beFixed 24 i).isEmpty = true) := by
    have := beFixed_ne_nil (w := 24) (n := i) (by omega)
    simpa using this
  simp only [decryptRecord, secretBoxDecrypt, nonce_size_eq, macbytes_eq, blob_take, blob_drop, hne,
    beDecode_beFixed_lt hi, hn, beFixed_length, hopen]
  have : ¬ ((E.box.enc (receiverRecordKey E c.isSender) (beFixed 24 i) r).length < 16) := by omega
  simp [this]

/-! ## an honest run of the loop -/

theorem wireOf_cons (E : Env) (key : Bytes) (i : Nat) (r : Bytes) (rs : List Bytes) :
    wireOf E key i (r :: rs) = frame (blob E key i r) ++ wireOf E key (i + 1) rs := rfl

theorem blob_length (E : Env) (key : Bytes) (i : Nat) (r : Bytes) :
    (blob E key i r).length = 24 + (E.box.enc key (beFixed 24 i) r).length := by
  simp [blob, beFixed_length]

/-- sizes the 4-byte length prefix can carry: `len(record) + 24 + 16 < 2^32` -/
def SizesOK (rs : List Bytes) : Prop := ∀ r ∈ rs, r.length + 40 < 256 ^ 4

theorem rx_honest (E : Env) (tail : Bytes) : ∀ (rs : List Bytes) (i : Nat) (c : Conn),
    c.nextReceiveNonce = i → i + rs.length ≤ 256 ^ 24 → SizesOK rs →
    (∀ n m, (E.box.enc (receiverRecordKey E c.isSender) n m).length = m.length + 16) →
    (∀ j (h : j < rs.length), E.box.dec (receiverRecordKey E c.isSender) (beFixed 24 (i + j))
        (E.box.enc (receiverRecordKey E c.isSender) (beFixed 24 (i + j)) rs[j]) = some rs[j]) →
    rx E { c with buf := wireOf E (receiverRecordKey E c.isSender) i rs ++ tail } =
      rx E { c with buf := tail, nextReceiveNonce := i + rs.length, app := rs.foldl recordReceived c.app } := by
  intro rs
  induction rs with
  | nil =>
    intro i c hn _ _ _ _
    simp [wireOf, ← hn]
  | cons r rs ih =>
    intro i c hn hcount hsz hlen hopen
    have hr : r.length + 40 < 256 ^ 4 := hsz r (by simp)
    have hbl : (blob E (receiverRecordKey E c.isSender) i r).length < 256 ^ 4 := by
      rw [blob_length, hlen]; omega
    rw [rx_unfold]
    simp only [wireOf_cons, List.append_assoc, parseFrame_frame _ _ hbl]
    have h0 := hopen 0 (by simp)
    simp only [Nat.add_zero, List.getElem_cons_zero] at h0
    have hd := decryptRecord_honest E
      { c with buf := wireOf E (receiverRecordKey E c.isSender) (i + 1) rs ++ tail } i r
      (by simp at hcount; omega) hn (by simp only; rw [hlen]; omega) h0
    simp only at hd
    rw [hd]
    simp only
    have := ih (i + 1) { c with nextReceiveNonce := i + 1, app := recordReceived c.app r } rfl
      (by simp at hcount ⊢; omega) (fun x hx => hsz x (by simp [hx])) hlen
      (by
        intro j hj
        have := hopen (j + 1) (by simp; omega)
        simpa [Nat.add_assoc, Nat.add_comm 1 j] using this)
    simp only at this
    rw [this]
    simp [Nat.add_assoc, Nat.add_comm 1 rs.length]

/-! ## what the sender puts on the wire -/

theorem wire_emit (a : App) (evs : List Ev) : (a.emit evs).wire = a.wire ++ (evs.map Ev.txBytes).flatten := by
  simp [App.emit, App.wire]

/-- the state `send_record(r)` leaves when nothing is raised -/
def afterSend (E : Env) (s : Conn) (r : Bytes) : Conn :=
  { s with sendNonce := s.sendNonce + 1,
           app := s.app.emit [.tx (beFixed 4 (blob E (senderRecordKey E s.isSender) s.sendNonce r).length),
                              .tx (blob E (senderRecordKey E s.isSender) s.sendNonce r)] }

theorem sendMany_wire (E : Env) : ∀ (rs : List Bytes) (s : Conn),
    s.sendNonce + rs.length ≤ 256 ^ 24 → SizesOK rs →
    (∀ n m, (E.box.enc (senderRecordKey E s.isSender) n m).length = m.length + 16) →
    (sendMany E s rs).2 = none ∧
    (sendMany E s rs).1.app.wire = s.app.wire ++ wireOf E (senderRecordKey E s.isSender) s.sendNonce rs ∧
    (sendMany E s rs).1.sendNonce = s.sendNonce + rs.length ∧
    (sendMany E s rs).1.isSender = s.isSender ∧ (sendMany E s rs).1.state = s.state ∧
    (sendMany E s rs).1.nextReceiveNonce = s.nextReceiveNonce ∧ (sendMany E s rs).1.buf = s.buf := by
  intro rs
  induction rs with
  | nil => intro s _ _ _; simp [sendMany, wireOf]
  | cons r rs ih =>
    intro s hcount hsz hlen
    have hr : r.length + 40 < 256 ^ 4 := hsz r (by simp)
    have h1 : s.sendNonce < 256 ^ 24 := by simp at hcount; omega
    have h2 : r.length < 256 ^ 4 := by omega
    have h3 : (beFixed 24 s.sendNonce ++ E.box.enc (senderRecordKey E s.isSender) (beFixed 24 s.sendNonce) r).length
        < 256 ^ 4 := by
      simp only [List.length_append, beFixed_length, hlen]; omega
    have hs : sendRecord E s r = (afterSend E s r, none) := by
      simp only [sendRecord, afterSend, blob]
      simp [h1, h2]
      simpa using h3
    rw [sendMany, hs]
    simp only
    have := ih (afterSend E s r)
      (by simp [afterSend] at hcount ⊢; omega) (fun x hx => hsz x (by simp [hx])) hlen
    obtain ⟨g1, g2, g3, g4, g5, g6, g7⟩ := this
    refine ⟨g1, ?_, ?_, g4, g5, g6, g7⟩
    · rw [g2]
      simp [afterSend, wire_emit, wireOf_cons, Ev.txBytes, frame, List.append_assoc]
    · rw [g3]; simp [afterSend]; omega

/-! ## the two directions use the two keys crosswise -/

theorem sendKey_eq_peer_recvKey (E : Env) (b : Bool) : senderRecordKey E b = receiverRecordKey E (!b) := by
  cases b <;> rfl

/-! ## rejection -/

theorem take_nonce_not_empty {enc : Bytes} (h : enc ≠ []) :
    ¬ ((List.take Gen.C06.NONCE_SIZE enc).isEmpty = true) := by
  cases enc with
  | nil => exact absurd rfl h
  | cons x xs => simp [Gen.C06.NONCE_SIZE]

/-- the nonce check comes first and does not involve the box at all -/
theorem verdict_badNonce (E : Env) (b : Bool) (rn : Nat) (enc : Bytes) (hne : enc ≠ [])
    (h : beDecode (enc.take 24) ≠ rn) : verdict E b rn enc = .error .badNonce := by
  simp only [verdict, decryptRecord, Conn.init]
  rw [if_neg (take_nonce_not_empty hne)]
  have h' : beDecode (List.take Gen.C06.NONCE_SIZE enc) ≠ rn := h
  rw [if_pos h']

theorem verdict_empty (E : Env) (b : Bool) (rn : Nat) : verdict E b rn [] = .error .valueError := by
  simp [verdict, decryptRecord]

/-- anything `_decrypt_record` accepts at counter `rn` opened under the receive key with nonce `rn` -/
theorem verdict_ok {E : Env} {b : Bool} {rn : Nat} {enc r : Bytes} (h : verdict E b rn enc = .ok r) :
    beDecode (enc.take 24) = rn ∧ (enc.take 24).length = 24 ∧
    E.box.dec (receiverRecordKey E b) (enc.take 24) (enc.drop 24) = some r := by
  have : decryptRecord E { Conn.init b with nextReceiveNonce := rn } enc =
      ((decryptRecord E { Conn.init b with nextReceiveNonce := rn } enc).1, .ok r) := by
    rw [← h]; rfl
  obtain ⟨_, h2, h3, h4⟩ := decryptRecord_ok this
  exact ⟨h2, h3, h4⟩

theorem verdict_cases (v : Except Err Bytes) : (∃ e, v = .error e) ∨ (∃ r, v = .ok r) := by
  cases v with
  | error e => exact .inl ⟨e, rfl⟩
  | ok r => exact .inr ⟨r, rfl⟩

/-- after an honest prefix, a complete frame that `_decrypt_record` rejects hangs the connection up:
    exactly the honest prefix was handed on, `loseConnection` is called, the rest stays unparsed -/
theorem drop_at (E : Env) (c : Conn) (rs : List Bytes) (i : Nat) (e tail : Bytes) (err : Err)
    (hst : c.state = .records) (hbuf : c.buf = []) (hn : c.nextReceiveNonce = i)
    (hcount : i + rs.length ≤ 256 ^ 24) (hsz : SizesOK rs)
    (hlen : ∀ n m, (E.box.enc (receiverRecordKey E c.isSender) n m).length = m.length + 16)
    (hopen : ∀ j (h : j < rs.length), E.box.dec (receiverRecordKey E c.isSender) (beFixed 24 (i + j))
        (E.box.enc (receiverRecordKey E c.isSender) (beFixed 24 (i + j)) rs[j]) = some rs[j])
    (he : e.length < 256 ^ 4)
    (hrej : verdict E c.isSender (i + rs.length) e = .error err)
    (x : Bytes) (cs : List Bytes)
    (hwire : x ++ cs.flatten = wireOf E (receiverRecordKey E c.isSender) i rs ++ (frame e ++ tail)) :
    (feed E c (x :: cs)).state = .hungUp ∧ (feed E c (x :: cs)).error = some err ∧
    (feed E c (x :: cs)).buf = tail ∧
    (feed E c (x :: cs)).app = (rs.foldl recordReceived c.app).emit [.lose] := by
  rw [feed_cons_eq, hwire, dataReceived_records E hst]
  have hc : ({ c with buf := c.buf ++ (wireOf E (receiverRecordKey E c.isSender) i rs ++ (frame e ++ tail)) } : Conn)
      = { c with buf := wireOf E (receiverRecordKey E c.isSender) i rs ++ (frame e ++ tail) } := by
    rw [hbuf]; rfl
  rw [hc, rx_honest E (frame e ++ tail) rs i c hn hcount hsz hlen hopen, rx_unfold]
  simp only [parseFrame_frame e tail he]
  have hv := decryptRecord_snd E
    { c with buf := tail, nextReceiveNonce := i + rs.length, app := rs.foldl recordReceived c.app } e
  simp only at hv
  rw [hrej] at hv
  cases hd : decryptRecord E
    { c with buf := tail, nextReceiveNonce := i + rs.length, app := rs.foldl recordReceived c.app } e with
  | mk c2 res =>
    rw [hd] at hv
    simp only at hv
    subst hv
    obtain ⟨ha, _, _, hb⟩ := decryptRecord_error hd
    simp only at ha hb
    exact ⟨rfl, rfl, hb, by show c2.app.emit [.lose] = _; rw [ha]⟩

/-! ## rejection of anything the honest sender did not seal for this position -/

/-- the `only` half of `IdealFor`, as the loop needs it -/
def OnlyHonest (E : Env) (key : Bytes) (rs : List Bytes) : Prop :=
  ∀ n c m, E.box.dec key n c = some m → ∃ i, ∃ h : i < rs.length, n = beFixed 24 i ∧ m = rs[i]

theorem IdealFor.onlyHonest {E : Env} {key : Bytes} {rs : List Bytes} (h : IdealFor E.box key rs) :
    OnlyHonest E key rs := by
  intro n c m hd
  obtain ⟨i, hi, h1, h2, _⟩ := h.only n c m hd
  exact ⟨i, hi, h1, h2⟩

theorem unsealed_rejected (E : Env) (b : Bool) (rs : List Bytes) (j : Nat) (e : Bytes)
    (hid : IdealFor E.box (receiverRecordKey E b) rs) (hcount : rs.length ≤ 256 ^ 24)
    (hne : ∀ h : j < rs.length, e ≠ blob E (receiverRecordKey E b) j rs[j]) :
    ∃ err, verdict E b j e = .error err := by
  rcases verdict_cases (verdict E b j e) with h | ⟨r, h⟩
  · exact h
  · exfalso
    obtain ⟨h1, _, h3⟩ := verdict_ok h
    obtain ⟨i, hi, g1, g2, g3⟩ := hid.only _ _ _ h3
    have hi' : i < 256 ^ 24 := by omega
    rw [g1, beDecode_beFixed_lt hi'] at h1
    subst h1
    apply hne hi
    have : e = e.take 24 ++ e.drop 24 := (List.take_append_drop 24 e).symm
    rw [this, g3, g1, g2]
    rfl

/-! ## the ideal functionality as a concrete box (the hypotheses are satisfiable, for every history) -/

/-- opens exactly the sealings of `rs[i]` under nonce `i` and key `k0`; the "MAC" is 16 zero bytes -/
def idealBox (k0 : Bytes) (rs : List Bytes) : Box :=
  { enc := fun _ _ m => List.replicate 16 0 ++ m,
    dec := fun k n c =>
      if k = k0 ∧ c.take 16 = List.replicate 16 0 ∧ 16 ≤ c.length ∧
          (List.range rs.length).any (fun i => n == beFixed 24 i && rs[i]? == some (c.drop 16)) = true
      then some (c.drop 16) else none }

theorem idealBox_ideal (k0 : Bytes) (rs : List Bytes) : IdealFor (idealBox k0 rs) k0 rs where
  len_enc := by intro n m; simp [idealBox, macbytes_eq]
  opens := by
    intro i h
    simp only [idealBox]
    rw [if_pos]
    · simp
    · refine ⟨trivial, by simp, by simp, ?_⟩
      rw [List.any_eq_true]
      exact ⟨i, by simp [h], by simp [h]⟩
  only := by
    intro n c m h
    simp only [idealBox] at h
    split at h
    · rename_i hc
      obtain ⟨_, h2, h3, h4⟩ := hc
      simp only [Option.some.injEq] at h
      rw [List.any_eq_true] at h4
      obtain ⟨i, hi, hp⟩ := h4
      simp only [Bool.and_eq_true, beq_iff_eq] at hp
      have hi' : i < rs.length := by simpa using hi
      refine ⟨i, hi', hp.1, ?_, ?_⟩
      · have := hp.2
        rw [List.getElem?_eq_getElem hi'] at this
        simp only [Option.some.injEq] at this
        rw [← h, this]
      · simp only [idealBox]
        rw [← h2, ← h, List.take_append_drop]
    · simp at h

end WV.C06

