import WV.Model.C13

/-! Helper lemmas for the C13 property theorems. -/
namespace WV.C13
open WV WV.Gen

/-! ## per-row facts of the generated SubChannel table (all rows: `decide`) -/

def Wst (st : SubChannel.State) : Bool :=
  st == .closing || st == .closed || st == .write_closed

def isSignal : SubChannel.Output → Bool
  | .signal_connectionLost | .signal_dataReceived | .signal_readConnectionLost | .signal_writeConnectionLost => true
  | _ => false

/-- `signal_connectionLost`, if a row has it, is its last output -/
def lostLast : List SubChannel.Output → Bool
  | [] => true
  | o :: r => if o = .signal_connectionLost then r.isEmpty else lostLast r

def rowOK (st : SubChannel.State) (i : SubChannel.Input) : Bool :=
  match SubChannel.table st i with
  | none => true
  | some (st', outs) =>
    -- connectionLost only on entering `closed`, and then last
    lostLast outs && (!outs.contains .signal_connectionLost || st' == .closed) &&
    -- `closed` is absorbing and silent
    (st != .closed || (st' == .closed && outs.all (fun o => !isSignal o))) &&
    -- once the write side is closed it stays closed
    (!Wst st || Wst st') &&
    -- nothing is sent for a write on a closed write side
    (!(Wst st && i == .local_data) || !outs.contains .send_data) &&
    -- a protocol is attached only from `unconnected`, silently, and `unconnected` is left only that way
    (!(i == .connect_protocol_full || i == .connect_protocol_half) || (st == .unconnected && outs.isEmpty && st' != .unconnected && st' != .closed)) &&
    (!(st == .unconnected) || (i == .connect_protocol_full || i == .connect_protocol_half) || (st' == .unconnected && outs.all (fun o => !isSignal o)))

theorem rows_ok (st : SubChannel.State) (i : SubChannel.Input) : rowOK st i = true := by
  cases st <;> cases i <;> rfl

/-- a `local_close` that does not raise leaves the write side closed -/
def closeOK (st : SubChannel.State) : Bool :=
  match SubChannel.table st .local_close with
  | none => true
  | some (st', outs) => outs.contains .error_closed_close || (Wst st' && outs.all (fun o => o != .error_closed_write))

theorem close_ok (st : SubChannel.State) : closeOK st = true := by cases st <;> rfl

/-- a write on a closed write side is no row or the error row -/
def writeOK (st : SubChannel.State) : Bool :=
  !Wst st ||
  match SubChannel.table st .local_data with
  | none => true
  | some (_, outs) => outs == [.error_closed_write]

theorem write_ok (st : SubChannel.State) : writeOK st = true := by cases st <;> rfl

/-! ## list helpers -/

theorem length_modifyAt {α : Type} (f : α → α) : ∀ (n : Nat) (l : List α), (modifyAt f n l).length = l.length
  | n, [] => by cases n <;> rfl
  | 0, _ :: _ => rfl
  | n + 1, _ :: r => by simp [modifyAt, length_modifyAt f n r]

theorem getElem?_modifyAt {α : Type} (f : α → α) : ∀ (n : Nat) (l : List α) (m : Nat),
    (modifyAt f n l)[m]? = if m = n then (l[m]?).map f else l[m]?
  | _, [], m => by simp [modifyAt]
  | 0, x :: r, m => by
    cases m <;> simp [modifyAt]
  | n + 1, x :: r, m => by
    cases m with
    | zero => simp [modifyAt]
    | succ m => simp [modifyAt, getElem?_modifyAt f n r m]

/-! ## what the application of protocol `p` observes -/

def isCb (p : Nat) : Eff → Bool
  | .build q _ => q == p
  | .made q => q == p
  | .data q _ => q == p
  | .lost q => q == p
  | .readLost q => q == p
  | .writeLost q => q == p
  | _ => false

def quiet (p : Nat) (l : List Eff) : Bool := l.all (fun e => !isCb p e)

/-- after the first `connectionLost` of protocol `p` it is never called again -/
def okLost (p : Nat) : List Eff → Bool
  | [] => true
  | e :: r => if e = .lost p then quiet p r else okLost p r

def openIds : List Eff → List Nat
  | [] => []
  | .txOpen _ c _ :: r => c :: openIds r
  | _ :: r => openIds r

theorem openIds_append (a b : List Eff) : openIds (a ++ b) = openIds a ++ openIds b := by
  induction a with
  | nil => rfl
  | cons e r ih => cases e <;> simp [openIds, ih]

theorem quiet_append (p : Nat) (a b : List Eff) : quiet p (a ++ b) = (quiet p a && quiet p b) := by
  simp [quiet]

theorem lost_not_mem_of_quiet {p : Nat} {l : List Eff} (h : quiet p l = true) : Eff.lost p ∉ l := by
  intro hm
  simp [quiet] at h
  have := h _ hm
  simp [isCb] at this

theorem okLost_of_quiet {p : Nat} {l : List Eff} (h : quiet p l = true) : okLost p l = true := by
  induction l with
  | nil => rfl
  | cons e r ih =>
    have h1 : isCb p e = false ∧ quiet p r = true := by simpa [quiet] using h
    have hne : e ≠ .lost p := by
      intro he; subst he; simp [isCb] at h1
    simp [okLost, hne, ih h1.2]

theorem okLost_append_of_not_mem {p : Nat} {a b : List Eff} (h : Eff.lost p ∉ a) :
    okLost p (a ++ b) = okLost p b := by
  induction a with
  | nil => rfl
  | cons e r ih =>
    have hne : e ≠ .lost p := by intro he; subst he; simp at h
    have hr : Eff.lost p ∉ r := by intro hm; exact h (List.mem_cons_of_mem _ hm)
    simp [okLost, hne, ih hr]

theorem okLost_append_quiet {p : Nat} {a b : List Eff} (ha : okLost p a = true) (hb : quiet p b = true) :
    okLost p (a ++ b) = true := by
  induction a with
  | nil => simpa using okLost_of_quiet hb
  | cons e r ih =>
    by_cases he : e = .lost p
    · simp [okLost, he] at ha ⊢
      simp [quiet_append, ha, hb]
    · simp [okLost, he] at ha ⊢
      exact ih ha

/-! ## the evolution relation -/

def evoSC (pc : Nat) (c c' : SC) : Prop :=
  c'.scid = c.scid ∧ c'.name = c.name ∧ (c.st = .closed → c'.st = .closed) ∧ (Wst c.st = true → Wst c'.st = true) ∧
  (∀ x, c.proto = some x → c'.proto = some x) ∧
  (c.proto = none → c'.proto = none ∨ ∃ q k, c'.proto = some (q, k) ∧ pc ≤ q)

def fresh (pc : Nat) (c' : SC) : Prop := c'.proto = none ∨ ∃ q k, c'.proto = some (q, k) ∧ pc ≤ q

theorem evoSC_refl (pc : Nat) (c : SC) : evoSC pc c c :=
  ⟨rfl, rfl, id, id, fun _ h => h, fun h => Or.inl h⟩

/-- pids are below `protoCount` and no two SubChannels share a protocol -/
structure WF (s : Side) : Prop where
  bound : ∀ (u : Nat) (c : SC) (q : Nat) (k : PKind), s.subs[u]? = some c → c.proto = some (q, k) → q < s.protoCount
  uniq : ∀ (u u' : Nat) (c c' : SC) (q : Nat) (k k' : PKind), s.subs[u]? = some c → s.subs[u']? = some c' →
    c.proto = some (q, k) → c'.proto = some (q, k') → u = u'

def Dead (p : Nat) (s : Side) : Prop :=
  p < s.protoCount ∧ ∀ (u : Nat) (c : SC) (k : PKind), s.subs[u]? = some c → c.proto = some (p, k) → c.st = .closed

def E (p : Nat) (s s' : Side) (l : List Eff) : Prop :=
  (Dead p s → quiet p l = true ∧ Dead p s') ∧ okLost p l = true ∧ (Eff.lost p ∈ l → Dead p s')

def IdsOK (s : Side) : Prop :=
  s.nextScid % 2 = (if s.leader then 1 else 0) ∧ 0 < s.nextScid ∧
  (∀ c ∈ openIds s.log, c % 2 = (if s.leader then 1 else 0) ∧ 0 < c ∧ c < s.nextScid) ∧
  (openIds s.log).Pairwise (· < ·)

structure Evo (s s' : Side) : Prop where
  leader : s'.leader = s.leader
  pc : s.protoCount ≤ s'.protoCount
  log : ∃ l, s'.log = s.log ++ l ∧ ∀ p, E p s s' l
  ids : IdsOK s → IdsOK s'
  subs : ∀ (u : Nat) (c' : SC), s'.subs[u]? = some c' →
    match s.subs[u]? with
    | some c => evoSC s.protoCount c c'
    | none => fresh s.protoCount c'
  keep : ∀ (u : Nat) (c : SC), s.subs[u]? = some c → ∃ c' : SC, s'.subs[u]? = some c'
  wf : WF s'

theorem Dead_mono {p : Nat} {s s' : Side} (hpc : s.protoCount ≤ s'.protoCount)
    (hsubs : ∀ (u : Nat) (c' : SC), s'.subs[u]? = some c' →
      match s.subs[u]? with
      | some c => evoSC s.protoCount c c'
      | none => fresh s.protoCount c') (h : Dead p s) : Dead p s' := by
  refine ⟨Nat.lt_of_lt_of_le h.1 hpc, ?_⟩
  intro u c' k hu hp
  have := hsubs u c' hu
  cases hs : s.subs[u]? with
  | some c =>
    rw [hs] at this
    obtain ⟨_, _, hcl, _, hsome, hnone⟩ := this
    cases hc : c.proto with
    | some x =>
      have := hsome x hc
      rw [hp] at this
      cases this
      exact hcl (h.2 u c k hs hc)
    | none =>
      rcases hnone hc with h0 | ⟨q, k', hq, hle⟩
      · rw [hp] at h0; cases h0
      · rw [hp] at hq; cases hq; exact absurd h.1 (by omega)
  | none =>
    rw [hs] at this
    rcases this with h0 | ⟨q, k', hq, hle⟩
    · rw [hp] at h0; cases h0
    · rw [hp] at hq; cases hq; exact absurd h.1 (by omega)

theorem E_of_quiet {p : Nat} {s s' : Side} {l : List Eff} (hq : quiet p l = true)
    (hd : Dead p s → Dead p s') : E p s s' l :=
  ⟨fun h => ⟨hq, hd h⟩, okLost_of_quiet hq, fun hm => absurd hm (lost_not_mem_of_quiet hq)⟩

theorem E_trans {p : Nat} {s s' s'' : Side} {l l' : List Eff} (h1 : E p s s' l) (h2 : E p s' s'' l') :
    E p s s'' (l ++ l') := by
  refine ⟨?_, ?_, ?_⟩
  · intro hd
    obtain ⟨q1, d1⟩ := h1.1 hd
    obtain ⟨q2, d2⟩ := h2.1 d1
    exact ⟨by simp [quiet_append, q1, q2], d2⟩
  · by_cases hm : Eff.lost p ∈ l
    · exact okLost_append_quiet h1.2.1 (h2.1 (h1.2.2 hm)).1
    · rw [okLost_append_of_not_mem hm]; exact h2.2.1
  · intro hm
    rcases List.mem_append.mp hm with hm | hm
    · exact (h2.1 (h1.2.2 hm)).2
    · exact h2.2.2 hm

theorem IdsOK_frame {s s' : Side} (hl : s'.leader = s.leader) (hn : s'.nextScid = s.nextScid)
    (ho : openIds s'.log = openIds s.log) (h : IdsOK s) : IdsOK s' := by
  unfold IdsOK at *
  rw [hl, hn, ho]; exact h

theorem Evo.refl {s : Side} (h : WF s) : Evo s s where
  leader := rfl
  pc := Nat.le_refl _
  log := ⟨[], by simp, fun p => E_of_quiet rfl id⟩
  ids := id
  subs := by
    intro u c' hu
    rw [hu]; exact evoSC_refl _ _
  keep := fun u c hu => ⟨c, hu⟩
  wf := h

theorem Evo.trans {s s' s'' : Side} (h1 : Evo s s') (h2 : Evo s' s'') : Evo s s'' where
  leader := h2.leader.trans h1.leader
  pc := Nat.le_trans h1.pc h2.pc
  log := by
    obtain ⟨l, hl, e1⟩ := h1.log
    obtain ⟨l', hl', e2⟩ := h2.log
    exact ⟨l ++ l', by rw [hl', hl, List.append_assoc], fun p => E_trans (e1 p) (e2 p)⟩
  ids := fun h => h2.ids (h1.ids h)
  subs := by
    intro u c'' hu
    have a2 := h2.subs u c'' hu
    cases hs' : s'.subs[u]? with
    | some c' =>
      rw [hs'] at a2
      have a1 := h1.subs u c' hs'
      cases hs : s.subs[u]? with
      | some c =>
        rw [hs] at a1
        obtain ⟨x1, x2, x3, x4, x5, x6⟩ := a1
        obtain ⟨y1, y2, y3, y4, y5, y6⟩ := a2
        refine ⟨y1.trans x1, y2.trans x2, fun h => y3 (x3 h), fun h => y4 (x4 h), fun x h => y5 x (x5 x h), ?_⟩
        intro hn
        rcases x6 hn with h0 | ⟨q, k, hq, hle⟩
        · rcases y6 h0 with h00 | ⟨q, k, hq, hle⟩
          · exact Or.inl h00
          · exact Or.inr ⟨q, k, hq, Nat.le_trans h1.pc hle⟩
        · exact Or.inr ⟨q, k, y5 _ hq, hle⟩
      | none =>
        rw [hs] at a1
        obtain ⟨y1, y2, y3, y4, y5, y6⟩ := a2
        rcases a1 with h0 | ⟨q, k, hq, hle⟩
        · rcases y6 h0 with h00 | ⟨q, k, hq, hle⟩
          · exact Or.inl h00
          · exact Or.inr ⟨q, k, hq, Nat.le_trans h1.pc hle⟩
        · exact Or.inr ⟨q, k, y5 _ hq, hle⟩
    | none =>
      rw [hs'] at a2
      have : s.subs[u]? = none := by
        cases hs : s.subs[u]? with
        | none => rfl
        | some c => obtain ⟨c', hc'⟩ := h1.keep u c hs; rw [hs'] at hc'; cases hc'
      rw [this]
      rcases a2 with h0 | ⟨q, k, hq, hle⟩
      · exact Or.inl h0
      · exact Or.inr ⟨q, k, hq, Nat.le_trans h1.pc hle⟩
  keep := by
    intro u c hu
    obtain ⟨c', hc'⟩ := h1.keep u c hu
    exact h2.keep u c' hc'
  wf := h2.wf

/-! ## leaves -/

theorem evo_quiet {s s' : Side} (hwf' : WF s') (hpc : s.protoCount ≤ s'.protoCount)
    (hl : s'.leader = s.leader) (hn : s'.nextScid = s.nextScid) (l : List Eff) (hlog : s'.log = s.log ++ l)
    (hq : ∀ p, quiet p l = true) (ho : openIds l = [])
    (hsubs : ∀ (u : Nat) (c' : SC), s'.subs[u]? = some c' →
      match s.subs[u]? with
      | some c => evoSC s.protoCount c c'
      | none => fresh s.protoCount c')
    (hkeep : ∀ (u : Nat) (c : SC), s.subs[u]? = some c → ∃ c' : SC, s'.subs[u]? = some c') : Evo s s' where
  leader := hl
  pc := hpc
  log := ⟨l, hlog, fun p => E_of_quiet (hq p) (Dead_mono hpc hsubs)⟩
  ids := IdsOK_frame hl hn (by rw [hlog, openIds_append, ho, List.append_nil])
  subs := hsubs
  keep := hkeep
  wf := hwf'

/-- nothing about SubChannel states/protocols, protocol count or ids changes; only non-callback
    effects are logged -/
theorem evo_same {s s' : Side} (hwf : WF s) (hsubs : s'.subs = s.subs) (hpc : s'.protoCount = s.protoCount)
    (hl : s'.leader = s.leader) (hn : s'.nextScid = s.nextScid) (l : List Eff) (hlog : s'.log = s.log ++ l)
    (hq : ∀ p, quiet p l = true) (ho : openIds l = []) : Evo s s' := by
  refine evo_quiet ⟨?_, ?_⟩ (by omega) hl hn l hlog hq ho ?_ ?_
  · intro u c q k hu hp; rw [hsubs] at hu; rw [hpc]; exact hwf.bound u c q k hu hp
  · intro u u' c c' q k k' hu hu'; rw [hsubs] at hu hu'; exact hwf.uniq u u' c c' q k k' hu hu'
  · intro u c' hu; rw [hsubs] at hu; rw [hu]; exact evoSC_refl _ _
  · intro u c hu; exact ⟨c, by rw [hsubs]; exact hu⟩

theorem evo_updSC {s : Side} (hwf : WF s) (uid : Nat) (f : SC → SC)
    (hf : ∀ c, (f c).scid = c.scid ∧ (f c).name = c.name ∧ (f c).st = c.st ∧ (f c).proto = c.proto) :
    Evo s (updSC uid f s) := by
  have hget : ∀ u, (updSC uid f s).subs[u]? = if u = uid then (s.subs[u]?).map f else s.subs[u]? := by
    intro u; simp [updSC, getElem?_modifyAt]
  refine evo_quiet ⟨?_, ?_⟩ (Nat.le_refl _) rfl rfl [] (by simp [updSC]) (fun _ => rfl) rfl ?_ ?_
  · intro u c q k hu hp
    rw [hget] at hu
    by_cases h : u = uid
    · simp [h] at hu
      obtain ⟨c0, hc0, rfl⟩ := hu
      rw [(hf c0).2.2.2] at hp
      exact hwf.bound uid c0 q k hc0 hp
    · simp [h] at hu; exact hwf.bound u c q k hu hp
  · intro u u' c c' q k k' hu hu' hp hp'
    rw [hget] at hu hu'
    have key : ∀ v cv kv, (if v = uid then (s.subs[v]?).map f else s.subs[v]?) = some cv → cv.proto = some (q, kv) →
        ∃ c0, s.subs[v]? = some c0 ∧ c0.proto = some (q, kv) := by
      intro v cv kv hv hpv
      by_cases h : v = uid
      · simp [h] at hv
        obtain ⟨c0, hc0, rfl⟩ := hv
        rw [(hf c0).2.2.2] at hpv
        exact ⟨c0, by rw [h]; exact hc0, hpv⟩
      · simp [h] at hv; exact ⟨cv, hv, hpv⟩
    obtain ⟨a, ha, hpa⟩ := key u c k hu hp
    obtain ⟨b, hb, hpb⟩ := key u' c' k' hu' hp'
    exact hwf.uniq u u' a b q k k' ha hb hpa hpb
  · intro u c' hu
    rw [hget] at hu
    by_cases h : u = uid
    · simp [h] at hu
      obtain ⟨c0, hc0, rfl⟩ := hu
      rw [h, hc0]
      obtain ⟨h1, h2, h3, h4⟩ := hf c0
      exact ⟨h1, h2, fun x => by rw [h3]; exact x, fun x => by rw [h3]; exact x, fun x hx => by rw [h4]; exact hx,
        fun hx => Or.inl (by rw [h4]; exact hx)⟩
    · simp [h] at hu; rw [hu]; exact evoSC_refl _ _
  · intro u c hu
    rw [hget]
    by_cases h : u = uid
    · rw [h] at hu; simp [h, hu]
    · simp [h]; exact ⟨c, hu⟩

/-! ## SubChannel outputs and dispatch -/

structure RO (uid : Nat) (c : SC) (s s' : Side) (l : List Eff) : Prop where
  leader : s'.leader = s.leader
  nextScid : s'.nextScid = s.nextScid
  pc : s'.protoCount = s.protoCount
  others : ∀ u : Nat, u ≠ uid → s'.subs[u]? = s.subs[u]?
  self : ∃ c' : SC, s'.subs[uid]? = some c' ∧ c'.scid = c.scid ∧ c'.name = c.name ∧ c'.st = c.st ∧ c'.proto = c.proto
  log : s'.log = s.log ++ l
  noOpen : openIds l = []
  notHolder : ∀ p, (∀ k, c.proto ≠ some (p, k)) → quiet p l = true

theorem RO_same {uid : Nat} {c : SC} {s s' : Side} {l : List Eff} (hc : s.subs[uid]? = some c)
    (hsubs : s'.subs = s.subs) (h1 : s'.leader = s.leader) (h2 : s'.nextScid = s.nextScid)
    (h3 : s'.protoCount = s.protoCount) (hlog : s'.log = s.log ++ l) (ho : openIds l = [])
    (hn : ∀ p, (∀ k, c.proto ≠ some (p, k)) → quiet p l = true) : RO uid c s s' l :=
  ⟨h1, h2, h3, fun u _ => by rw [hsubs], ⟨c, by rw [hsubs]; exact hc, rfl, rfl, rfl, rfl⟩, hlog, ho, hn⟩

theorem RO_upd {uid : Nat} {c : SC} {s : Side} (hc : s.subs[uid]? = some c) (f : SC → SC)
    (hf : ∀ c, (f c).scid = c.scid ∧ (f c).name = c.name ∧ (f c).st = c.st ∧ (f c).proto = c.proto) :
    RO uid c s (updSC uid f s) [] := by
  refine ⟨rfl, rfl, rfl, ?_, ?_, by simp [updSC], rfl, fun _ _ => rfl⟩
  · intro u hu; simp [updSC, getElem?_modifyAt, hu]
  · refine ⟨f c, by simp [updSC, getElem?_modifyAt, hc], (hf c).1, (hf c).2.1, (hf c).2.2.1, (hf c).2.2.2⟩

theorem RO_refl {uid : Nat} {c : SC} {s : Side} (hc : s.subs[uid]? = some c) : RO uid c s s [] :=
  RO_same hc rfl rfl rfl rfl (by simp) rfl (fun _ _ => rfl)

theorem RO_trans {uid : Nat} {c c' : SC} {s s' s'' : Side} {l l' : List Eff} (h1 : RO uid c s s' l)
    (hc' : s'.subs[uid]? = some c') (h2 : RO uid c' s' s'' l') : RO uid c s s'' (l ++ l') := by
  obtain ⟨c0, hc0, e1, e2, e3, e4⟩ := h1.self
  rw [hc'] at hc0
  cases hc0
  refine ⟨h2.leader.trans h1.leader, h2.nextScid.trans h1.nextScid, h2.pc.trans h1.pc, ?_, ?_, ?_, ?_, ?_⟩
  · intro u hu; rw [h2.others u hu, h1.others u hu]
  · obtain ⟨c'', hc'', f1, f2, f3, f4⟩ := h2.self
    exact ⟨c'', hc'', f1.trans e1, f2.trans e2, f3.trans e3, f4.trans e4⟩
  · rw [h2.log, h1.log, List.append_assoc]
  · rw [openIds_append, h1.noOpen, h2.noOpen]; rfl
  · intro p hp
    rw [quiet_append, h1.notHolder p hp, h2.notHolder p (by rw [e4]; exact hp)]; rfl

theorem runOut_spec (uid : Nat) (arg : Bytes) (o : SubChannel.Output) (s : Side) (c : SC)
    (hc : s.subs[uid]? = some c) :
    ∃ l, RO uid c s (runOut uid arg o s).1 l ∧ l.length ≤ 1 ∧
      (isSignal o = false → ∀ p, quiet p l = true) ∧
      (o ≠ .signal_connectionLost → ∀ p, Eff.lost p ∉ l) := by
  have noproto : ∀ (p q : Nat) (k : PKind), c.proto = some (q, k) → (∀ k, c.proto ≠ some (p, k)) → (q == p) = false := by
    intro p q k h hn
    cases hqp : (q == p) with
    | false => rfl
    | true =>
      have : q = p := by simpa using hqp
      subst this
      exact absurd h (hn k)
  cases o
  case queue_remote_data =>
    simp only [runOut, hc]
    cases hp : c.pendingData with
    | none => exact ⟨[], RO_refl hc, by simp, fun _ _ => rfl, fun _ _ => by simp⟩
    | some l0 => exact ⟨[], RO_upd hc _ (fun _ => ⟨rfl, rfl, rfl, rfl⟩), by simp, fun _ _ => rfl, fun _ _ => by simp⟩
  case queue_remote_close =>
    simp only [runOut, hc]
    exact ⟨[], RO_upd hc _ (fun _ => ⟨rfl, rfl, rfl, rfl⟩), by simp, fun _ _ => rfl, fun _ _ => by simp⟩
  case send_data =>
    simp only [runOut, hc]
    exact ⟨[.txData s.nextSeq c.scid arg], RO_same hc rfl rfl rfl rfl rfl rfl (fun _ _ => rfl), by simp,
      fun _ _ => rfl, fun _ _ => by simp⟩
  case send_close =>
    simp only [runOut, hc]
    exact ⟨[.txClose s.nextSeq c.scid], RO_same hc rfl rfl rfl rfl rfl rfl (fun _ _ => rfl), by simp,
      fun _ _ => rfl, fun _ _ => by simp⟩
  case signal_dataReceived =>
    simp only [runOut, hc]
    cases hp : c.proto with
    | none => exact ⟨[], RO_refl hc, by simp, fun _ _ => rfl, fun _ _ => by simp⟩
    | some x =>
      obtain ⟨q, k⟩ := x
      exact ⟨[.data q arg], RO_same hc rfl rfl rfl rfl rfl rfl
        (fun p hn => by simp [quiet, isCb, noproto p q k hp hn]), by simp, fun h => by simp [isSignal] at h,
        fun _ _ => by simp⟩
  case signal_readConnectionLost =>
    simp only [runOut, hc]
    cases hp : c.proto with
    | none => exact ⟨[], RO_refl hc, by simp, fun _ _ => rfl, fun _ _ => by simp⟩
    | some x =>
      obtain ⟨q, k⟩ := x
      cases k with
      | full => exact ⟨[], RO_refl hc, by simp, fun _ _ => rfl, fun _ _ => by simp⟩
      | half =>
        exact ⟨[.readLost q], RO_same hc rfl rfl rfl rfl rfl rfl
          (fun p hn => by simp [quiet, isCb, noproto p q _ hp hn]), by simp, fun h => by simp [isSignal] at h,
          fun _ _ => by simp⟩
  case signal_writeConnectionLost =>
    simp only [runOut, hc]
    cases hp : c.proto with
    | none => exact ⟨[], RO_refl hc, by simp, fun _ _ => rfl, fun _ _ => by simp⟩
    | some x =>
      obtain ⟨q, k⟩ := x
      cases k with
      | full => exact ⟨[], RO_refl hc, by simp, fun _ _ => rfl, fun _ _ => by simp⟩
      | half =>
        exact ⟨[.writeLost q], RO_same hc rfl rfl rfl rfl rfl rfl
          (fun p hn => by simp [quiet, isCb, noproto p q _ hp hn]), by simp, fun h => by simp [isSignal] at h,
          fun _ _ => by simp⟩
  case signal_connectionLost =>
    simp only [runOut, hc]
    cases hp : c.proto with
    | none => exact ⟨[], RO_refl hc, by simp, fun _ _ => rfl, fun _ _ => by simp⟩
    | some x =>
      obtain ⟨q, k⟩ := x
      exact ⟨[.lost q], RO_same hc rfl rfl rfl rfl rfl rfl
        (fun p hn => by simp [quiet, isCb, noproto p q k hp hn]), by simp, fun h => by simp [isSignal] at h,
        fun h => absurd rfl h⟩
  case close_subchannel =>
    simp only [runOut, hc]
    cases hlk : lookup c.scid s.open_ with
    | none => exact ⟨[], RO_refl hc, by simp, fun _ _ => rfl, fun _ _ => by simp⟩
    | some u0 =>
      by_cases hu : u0 = uid
      · simp only [hu, if_true]
        exact ⟨[], RO_same hc rfl rfl rfl rfl (by simp) rfl (fun _ _ => rfl), by simp, fun _ _ => rfl, fun _ _ => by simp⟩
      · simp only [hu, if_false]
        exact ⟨[], RO_refl hc, by simp, fun _ _ => rfl, fun _ _ => by simp⟩
  case error_closed_write =>
    simp only [runOut, hc]
    exact ⟨[], RO_refl hc, by simp, fun _ _ => rfl, fun _ _ => by simp⟩
  case error_closed_close =>
    simp only [runOut, hc]
    exact ⟨[], RO_refl hc, by simp, fun _ _ => rfl, fun _ _ => by simp⟩

theorem okLost_short {p : Nat} {l : List Eff} (h : l.length ≤ 1) : okLost p l = true := by
  match l, h with
  | [], _ => rfl
  | [e], _ => by_cases he : e = .lost p <;> simp [okLost, he, quiet]

theorem andThen_none {s1 : Side} {f : Side → Res} : andThen (s1, none) f = f s1 := rfl
theorem andThen_some {s1 : Side} {e : Err} {f : Side → Res} : andThen (s1, some e) f = (s1, some e) := rfl

theorem runOuts_spec (uid : Nat) (arg : Bytes) : ∀ (outs : List SubChannel.Output) (s : Side) (c : SC),
    s.subs[uid]? = some c →
    ∃ l, RO uid c s (runOuts uid arg outs s).1 l ∧
      (outs.all (fun o => !isSignal o) = true → ∀ p, quiet p l = true) ∧
      (∀ p, Eff.lost p ∈ l → outs.contains .signal_connectionLost = true) ∧
      (lostLast outs = true → ∀ p, okLost p l = true)
  | [], s, c, hc => ⟨[], RO_refl hc, fun _ _ => rfl, fun _ h => by simp at h, fun _ _ => rfl⟩
  | o :: os, s, c, hc => by
    obtain ⟨l1, ro1, len1, sig1, lost1⟩ := runOut_spec uid arg o s c hc
    cases hr : runOut uid arg o s with
    | mk s1 e =>
      rw [hr] at ro1
      cases e with
      | some err =>
        refine ⟨l1, by simpa [runOuts, hr, andThen_some] using ro1, ?_, ?_, ?_⟩
        · intro hall p
          have : isSignal o = false := by simp at hall; simpa using hall.1
          exact sig1 this p
        · intro p hm
          by_cases ho : o = .signal_connectionLost
          · simp [ho]
          · exact absurd hm (lost1 ho p)
        · intro _ p; exact okLost_short len1
      | none =>
        obtain ⟨c1, hc1, _⟩ := ro1.self
        obtain ⟨l2, ro2, sig2, lost2, ok2⟩ := runOuts_spec uid arg os s1 c1 hc1
        refine ⟨l1 ++ l2, by simpa [runOuts, hr, andThen_none] using RO_trans ro1 hc1 ro2, ?_, ?_, ?_⟩
        · intro hall p
          have h' : isSignal o = false ∧ os.all (fun o => !isSignal o) = true := by
            simp at hall; exact ⟨by simpa using hall.1, by simpa using hall.2⟩
          rw [quiet_append, sig1 h'.1 p, sig2 h'.2 p]; rfl
        · intro p hm
          rcases List.mem_append.mp hm with hm | hm
          · by_cases ho : o = .signal_connectionLost
            · simp [ho]
            · exact absurd hm (lost1 ho p)
          · have := lost2 p hm
            simp at this ⊢
            exact Or.inr this
        · intro hl p
          by_cases ho : o = .signal_connectionLost
          · have hos : os = [] := by simpa [lostLast, ho] using hl
            subst hos
            have : l2 = [] := by
              have := ro2.log
              simp [runOuts] at this
              exact this
            rw [this, List.append_nil]; exact okLost_short len1
          · rw [okLost_append_of_not_mem (lost1 ho p)]
            exact ok2 (by simpa [lostLast, ho] using hl) p

structure RowFacts (st : SubChannel.State) (i : SubChannel.Input) (st' : SubChannel.State)
    (outs : List SubChannel.Output) : Prop where
  lostLast : lostLast outs = true
  lostClosed : outs.contains .signal_connectionLost = true → st' = .closed
  closedStays : st = .closed → st' = .closed ∧ outs.all (fun o => !isSignal o) = true
  wStays : Wst st = true → Wst st' = true
  attach : (i = .connect_protocol_full ∨ i = .connect_protocol_half) →
    st = .unconnected ∧ outs = [] ∧ st' ≠ .closed
  unconnected : st = .unconnected → ¬(i = .connect_protocol_full ∨ i = .connect_protocol_half) →
    st' = .unconnected ∧ outs.all (fun o => !isSignal o) = true

theorem row_facts {st st' : SubChannel.State} {i : SubChannel.Input} {outs : List SubChannel.Output}
    (h : SubChannel.table st i = some (st', outs)) : RowFacts st i st' outs := by
  have := rows_ok st i
  simp [rowOK, h] at this
  obtain ⟨⟨⟨⟨⟨⟨a1, a2⟩, a3⟩, a4⟩, _⟩, a6⟩, a7⟩ := this
  refine ⟨a1, ?_, ?_, ?_, ?_, ?_⟩
  · intro hc
    rcases a2 with a2 | a2
    · exact absurd (by simpa using hc) a2
    · exact a2
  · intro hc
    rcases a3 with a3 | a3
    · exact absurd hc a3
    · exact ⟨a3.1, by simpa using a3.2⟩
  · intro hw
    rcases a4 with a4 | a4
    · rw [hw] at a4; cases a4
    · exact a4
  · intro hi
    rcases a6 with a6 | a6
    · rcases hi with hi | hi
      · exact absurd hi a6.1
      · exact absurd hi a6.2
    · exact ⟨a6.1.1.1, a6.1.1.2, a6.2⟩
  · intro hu hi
    rcases a7 with a7 | a7
    · rcases a7 with a7 | a7
      · exact absurd hu a7
      · exact absurd a7 hi
    · exact ⟨a7.1, by simpa using a7.2⟩

theorem scInput_eq_none {s : Side} {uid : Nat} (i : SubChannel.Input) (arg : Bytes) (hs : s.subs[uid]? = none) :
    scInput uid i arg s = (s, some .internal) := by simp [scInput, hs]

theorem scInput_eq_norow {s : Side} {uid : Nat} {c : SC} {i : SubChannel.Input} (arg : Bytes)
    (hs : s.subs[uid]? = some c) (ht : SubChannel.table c.st i = none) :
    scInput uid i arg s = (s, some .noTransition) := by simp [scInput, hs, ht]

theorem scInput_eq_row {s : Side} {uid : Nat} {c : SC} {i : SubChannel.Input} (arg : Bytes)
    {st' : SubChannel.State} {outs : List SubChannel.Output}
    (hs : s.subs[uid]? = some c) (ht : SubChannel.table c.st i = some (st', outs)) :
    scInput uid i arg s = runOuts uid arg outs (updSC uid (fun c => { c with st := st' }) s) := by
  simp [scInput, hs, ht]

theorem scInput_evo {s : Side} (hwf : WF s) (uid : Nat) (i : SubChannel.Input) (arg : Bytes) :
    Evo s (scInput uid i arg s).1 := by
  cases hs : s.subs[uid]? with
  | none => rw [scInput_eq_none i arg hs]; exact Evo.refl hwf
  | some c =>
    cases ht : SubChannel.table c.st i with
    | none => rw [scInput_eq_norow arg hs ht]; exact Evo.refl hwf
    | some row =>
      obtain ⟨st', outs⟩ := row
      rw [scInput_eq_row arg hs ht]
      have rf := row_facts ht
      have hc1 : (updSC uid (fun c => { c with st := st' }) s).subs[uid]? = some { c with st := st' } := by
        simp [updSC, getElem?_modifyAt, hs]
      obtain ⟨l, ro, sig, lost, ok⟩ := runOuts_spec uid arg outs _ _ hc1
      generalize (runOuts uid arg outs (updSC uid (fun c => { c with st := st' }) s)).1 = s' at ro ⊢
      have hoth : ∀ u : Nat, u ≠ uid → s'.subs[u]? = s.subs[u]? := by
        intro u hu; rw [ro.others u hu]; simp [updSC, getElem?_modifyAt, hu]
      obtain ⟨c', hc', e1, e2, e3, e4⟩ := ro.self
      simp only [] at e1 e2 e3 e4
      have hsubs : ∀ (u : Nat) (c'' : SC), s'.subs[u]? = some c'' →
          match s.subs[u]? with
          | some c => evoSC s.protoCount c c''
          | none => fresh s.protoCount c'' := by
        intro u c'' hu
        by_cases h : u = uid
        · subst h
          rw [hc'] at hu; cases hu
          rw [hs]
          exact ⟨e1, e2, fun hcl => by rw [e3]; exact (rf.closedStays hcl).1, fun hw => by rw [e3]; exact rf.wStays hw,
            fun x hx => by rw [e4]; exact hx, fun hx => Or.inl (by rw [e4]; exact hx)⟩
        · rw [hoth u h] at hu; rw [hu]; exact evoSC_refl _ _
      have hpc : s'.protoCount = s.protoCount := ro.pc
      have back : ∀ (u : Nat) (c'' : SC), s'.subs[u]? = some c'' → ∃ c0 : SC, s.subs[u]? = some c0 ∧ c0.proto = c''.proto := by
        intro u c'' hu
        by_cases h : u = uid
        · subst h
          rw [hc'] at hu; cases hu
          exact ⟨c, hs, e4.symm⟩
        · rw [hoth u h] at hu; exact ⟨c'', hu, rfl⟩
      have hwf' : WF s' := by
        refine ⟨?_, ?_⟩
        · intro u c'' q k hu hp
          obtain ⟨c0, h0, hp0⟩ := back u c'' hu
          rw [hpc]; exact hwf.bound u c0 q k h0 (by rw [hp0]; exact hp)
        · intro u u' a b q k k' hu hu' hp hp'
          obtain ⟨a0, ha0, hpa⟩ := back u a hu
          obtain ⟨b0, hb0, hpb⟩ := back u' b hu'
          exact hwf.uniq u u' a0 b0 q k k' ha0 hb0 (by rw [hpa]; exact hp) (by rw [hpb]; exact hp')
      refine ⟨ro.leader, by omega, ⟨l, by rw [ro.log]; simp [updSC], ?_⟩,
        IdsOK_frame ro.leader ro.nextScid (by rw [ro.log, openIds_append, ro.noOpen]; simp [updSC]), hsubs, ?_, hwf'⟩
      · intro p
        by_cases hh : ∃ k, c.proto = some (p, k)
        · obtain ⟨k, hk⟩ := hh
          refine ⟨?_, ok rf.lostLast p, ?_⟩
          · intro hd
            have hcl := hd.2 uid c k hs hk
            exact ⟨sig (rf.closedStays hcl).2 p, Dead_mono (by omega) hsubs hd⟩
          · intro hm
            have hst' : st' = .closed := rf.lostClosed (lost p hm)
            refine ⟨by rw [hpc]; exact hwf.bound uid c p k hs hk, ?_⟩
            intro u c'' k'' hu hp
            by_cases h : u = uid
            · subst h
              rw [hc'] at hu; cases hu
              rw [e3]; exact hst'
            · rw [hoth u h] at hu
              exact absurd (hwf.uniq u uid c'' c p k'' k hu hs hp hk) h
        · exact E_of_quiet (ro.notHolder p (fun k hk => hh ⟨k, hk⟩)) (Dead_mono (by omega) hsubs)
      · intro u c0 hu
        by_cases h : u = uid
        · subst h; exact ⟨c', hc'⟩
        · exact ⟨c0, by rw [hoth u h]; exact hu⟩

/-! ## composite operations -/

theorem evo_andThen {s : Side} {r : Res} {f : Side → Res} (h1 : Evo s r.1)
    (h2 : ∀ s1, WF s1 → Evo s1 (f s1).1) : Evo s (andThen r f).1 := by
  obtain ⟨s1, e⟩ := r
  cases e with
  | none => exact h1.trans (h2 s1 h1.wf)
  | some e => exact h1

/-- one callback event for protocol `p0`, which is not dead -/
theorem evo_event {s s' : Side} (e : Eff) (p0 : Nat) (he : ∀ p, p ≠ p0 → isCb p e = false)
    (hne : ∀ p, e ≠ .lost p) (hnd : ¬ Dead p0 s) (ho : openIds [e] = []) (hwf' : WF s')
    (hpc : s.protoCount ≤ s'.protoCount) (hl : s'.leader = s.leader) (hn : s'.nextScid = s.nextScid)
    (hlog : s'.log = s.log ++ [e])
    (hsubs : ∀ (u : Nat) (c' : SC), s'.subs[u]? = some c' →
      match s.subs[u]? with
      | some c => evoSC s.protoCount c c'
      | none => fresh s.protoCount c')
    (hkeep : ∀ (u : Nat) (c : SC), s.subs[u]? = some c → ∃ c' : SC, s'.subs[u]? = some c') : Evo s s' where
  leader := hl
  pc := hpc
  log := by
    refine ⟨[e], hlog, fun p => ?_⟩
    by_cases hp : p = p0
    · subst hp
      refine ⟨fun hd => absurd hd hnd, ?_, fun hm => ?_⟩
      · simp [okLost, hne p]
      · simp at hm; exact absurd hm.symm (hne p)
    · exact E_of_quiet (by simp [quiet, he p hp]) (Dead_mono hpc hsubs)
  ids := IdsOK_frame hl hn (by rw [hlog, openIds_append, ho, List.append_nil])
  subs := hsubs
  keep := hkeep
  wf := hwf'

theorem evo_made {s : Side} (hwf : WF s) (p : Nat)
    (hlive : ∃ (u : Nat) (c : SC) (k : PKind), s.subs[u]? = some c ∧ c.proto = some (p, k) ∧ c.st ≠ .closed) :
    Evo s (emit (.made p) s) := by
  refine evo_event (.made p) p ?_ (fun _ h => by cases h) ?_ rfl ⟨hwf.bound, hwf.uniq⟩ (Nat.le_refl _) rfl rfl rfl ?_ ?_
  · intro q hq
    cases h : (p == q) with
    | false => simp [isCb, h]
    | true => exact absurd (by simpa using h : p = q).symm hq
  · intro hd
    obtain ⟨u, c, k, hu, hp, hst⟩ := hlive
    exact hst (hd.2 u c k hu hp)
  · intro u c' hu
    have : (emit (Eff.made p) s).subs = s.subs := rfl
    rw [this] at hu; rw [hu]; exact evoSC_refl _ _
  · intro u c hu; exact ⟨c, hu⟩

theorem evo_build {s : Side} (hwf : WF s) (name : String) : Evo s (buildProtocol name s) := by
  refine evo_event (.build s.protoCount name) s.protoCount ?_ (fun _ h => by cases h) ?_ rfl ⟨?_, ?_⟩
    (Nat.le_succ _) rfl rfl rfl ?_ ?_
  · intro q hq
    cases h : (s.protoCount == q) with
    | false => simp [isCb, h]
    | true => exact absurd (by simpa using h : s.protoCount = q).symm hq
  · intro hd; exact absurd hd.1 (Nat.lt_irrefl _)
  · intro u c q k hu hp
    exact Nat.lt_succ_of_lt (hwf.bound u c q k hu hp)
  · exact hwf.uniq
  · intro u c' hu
    have : (buildProtocol name s).subs = s.subs := rfl
    rw [this] at hu; rw [hu]; exact evoSC_refl _ _
  · intro u c hu; exact ⟨c, hu⟩

/-- `buildProtocol` followed by `self._protocol = p` on a SubChannel that has none -/
theorem evo_build_set {s : Side} (hwf : WF s) (name : String) (uid : Nat) (k : PKind) (c : SC)
    (hs : s.subs[uid]? = some c) (hnone : c.proto = none) :
    Evo s (updSC uid (fun c => { c with proto := some (s.protoCount, k) }) (buildProtocol name s)) := by
  have hget : ∀ u : Nat, (updSC uid (fun c => { c with proto := some (s.protoCount, k) }) (buildProtocol name s)).subs[u]? =
      if u = uid then (s.subs[u]?).map (fun c => { c with proto := some (s.protoCount, k) }) else s.subs[u]? := by
    intro u; simp [updSC, buildProtocol, emit, getElem?_modifyAt]
  have back : ∀ (u : Nat) (c' : SC) (q : Nat) (k' : PKind),
      (updSC uid (fun c => { c with proto := some (s.protoCount, k) }) (buildProtocol name s)).subs[u]? = some c' →
      c'.proto = some (q, k') → (u = uid ∧ q = s.protoCount) ∨ (u ≠ uid ∧ s.subs[u]? = some c' ∧ q < s.protoCount) := by
    intro u c' q k' hu hp
    rw [hget] at hu
    by_cases h : u = uid
    · subst h
      simp [hs] at hu
      subst hu
      simp at hp
      exact Or.inl ⟨rfl, hp.1.symm⟩
    · simp [h] at hu
      exact Or.inr ⟨h, hu, hwf.bound u c' q k' hu hp⟩
  refine evo_event (.build s.protoCount name) s.protoCount ?_ (fun _ h => by cases h) ?_ rfl ⟨?_, ?_⟩
    (Nat.le_succ _) rfl rfl (by simp [updSC, buildProtocol, emit]) ?_ ?_
  · intro q hq
    cases h : (s.protoCount == q) with
    | false => simp [isCb, h]
    | true => exact absurd (by simpa using h : s.protoCount = q).symm hq
  · intro hd; exact absurd hd.1 (Nat.lt_irrefl _)
  · intro u c' q k' hu hp
    have : (updSC uid (fun c => { c with proto := some (s.protoCount, k) }) (buildProtocol name s)).protoCount = s.protoCount + 1 := rfl
    rw [this]
    rcases back u c' q k' hu hp with ⟨_, h⟩ | ⟨_, _, h⟩ <;> omega
  · intro u u' a b q k1 k2 hu hu' hp hp'
    rcases back u a q k1 hu hp with ⟨h1, h2⟩ | ⟨h1, h2, h3⟩ <;>
      rcases back u' b q k2 hu' hp' with ⟨g1, g2⟩ | ⟨g1, g2, g3⟩
    · rw [h1, g1]
    · omega
    · omega
    · exact hwf.uniq u u' a b q k1 k2 h2 g2 hp hp'
  · intro u c' hu
    rw [hget] at hu
    by_cases h : u = uid
    · subst h
      simp [hs] at hu
      subst hu
      rw [hs]
      refine ⟨rfl, rfl, fun h => h, fun h => h, ?_, ?_⟩
      · intro x hx; rw [hnone] at hx; cases hx
      · intro _; exact Or.inr ⟨s.protoCount, k, rfl, Nat.le_refl _⟩
    · simp [h] at hu; rw [hu]; exact evoSC_refl _ _
  · intro u c0 hu
    rw [hget]
    by_cases h : u = uid
    · subst h; simp [hu]
    · simp [h]; exact ⟨c0, hu⟩

theorem attach_evo {s : Side} (hwf : WF s) (name : String) (uid : Nat) (k : PKind) :
    Evo s (setProtocol uid s.protoCount k (buildProtocol name s)).1 := by
  unfold setProtocol
  have hsub : (buildProtocol name s).subs = s.subs := rfl
  rw [hsub]
  cases hs : s.subs[uid]? with
  | none => exact evo_build hwf name
  | some c =>
    simp only []
    cases hp : c.proto with
    | some x => simp only [Option.isSome, if_true]; exact evo_build hwf name
    | none =>
      simp only [Option.isSome]
      have h1 := evo_build_set hwf name uid k c hs hp
      exact h1.trans (scInput_evo h1.wf _ _ _)

/-- when attaching succeeded the SubChannel holds the new protocol and is not closed -/
theorem attach_ok {s s2 : Side} (name : String) (uid : Nat) (k : PKind)
    (h : setProtocol uid s.protoCount k (buildProtocol name s) = (s2, none)) :
    ∃ c2 : SC, s2.subs[uid]? = some c2 ∧ c2.proto = some (s.protoCount, k) ∧ c2.st ≠ .closed := by
  unfold setProtocol at h
  have hsub : (buildProtocol name s).subs = s.subs := rfl
  rw [hsub] at h
  cases hs : s.subs[uid]? with
  | none => rw [hs] at h; cases h
  | some c =>
    rw [hs] at h
    simp only [] at h
    cases hp : c.proto with
    | some x => rw [hp] at h; simp only [Option.isSome, if_true] at h; cases h
    | none =>
      rw [hp] at h
      simp only [Option.isSome] at h
      generalize hi : (if k = PKind.half then SubChannel.Input.connect_protocol_half else SubChannel.Input.connect_protocol_full) = i at h
      have hi' : i = .connect_protocol_full ∨ i = .connect_protocol_half := by
        cases k <;> simp at hi <;> simp [← hi]
      generalize hs1 : updSC uid (fun c => { c with proto := some (s.protoCount, k) }) (buildProtocol name s) = s1 at h
      have hc1 : s1.subs[uid]? = some { c with proto := some (s.protoCount, k) } := by
        rw [← hs1]; simp [updSC, buildProtocol, emit, getElem?_modifyAt, hs]
      cases ht : SubChannel.table c.st i with
      | none => rw [scInput_eq_norow [] hc1 (by simpa using ht)] at h; cases h
      | some row =>
        obtain ⟨st', outs⟩ := row
        have rf := (row_facts ht).attach hi'
        rw [scInput_eq_row [] hc1 (by simpa using ht)] at h
        obtain ⟨_, houts, hst'⟩ := rf
        subst houts
        simp [runOuts] at h
        subst h
        refine ⟨{ c with proto := some (s.protoCount, k), st := st' }, ?_, rfl, hst'⟩
        simp [updSC, getElem?_modifyAt, hc1]

theorem feedData_evo (uid : Nat) : ∀ (ds : List Bytes) (s : Side), WF s → Evo s (feedData uid ds s).1
  | [], s, h => Evo.refl h
  | d :: ds, s, h => by
    unfold feedData
    exact evo_andThen (scInput_evo h _ _ _) (fun s1 h1 => feedData_evo uid ds s1 h1)

theorem evo_set_pending {s : Side} (hwf : WF s) (uid : Nat) (pd : Option (List Bytes)) :
    Evo s (updSC uid (fun c => { c with pendingData := pd }) s) :=
  evo_updSC hwf uid _ (fun _ => ⟨rfl, rfl, rfl, rfl⟩)

theorem evo_set_pclose {s : Side} (hwf : WF s) (uid : Nat) (b : Bool) :
    Evo s (updSC uid (fun c => { c with pendingClose := b }) s) :=
  evo_updSC hwf uid _ (fun _ => ⟨rfl, rfl, rfl, rfl⟩)

theorem deliverQueued_evo {s : Side} (hwf : WF s) (uid : Nat) : Evo s (deliverQueued uid s).1 := by
  unfold deliverQueued
  split
  · exact Evo.refl hwf
  · split
    · exact Evo.refl hwf
    · refine evo_andThen (feedData_evo uid _ s hwf) ?_
      intro s1 h1
      have h2 := evo_set_pending h1 uid none
      simp only []
      split
      · exact h2
      · split
        · refine h2.trans (evo_andThen (scInput_evo h2.wf _ _ _) ?_)
          intro s3 h3
          exact evo_set_pclose h3 uid false
        · exact h2

theorem connectSC_evo {s : Side} (hwf : WF s) (k : PKind) (uid : Nat) : Evo s (connectSC k uid s).1 := by
  unfold connectSC
  split
  · exact Evo.refl hwf
  · rename_i sc hs
    simp only []
    have ha := attach_evo hwf sc.name uid k
    cases hr : setProtocol uid s.protoCount k (buildProtocol sc.name s) with
    | mk s2 e =>
      rw [hr] at ha
      cases e with
      | some err => exact ha
      | none =>
        simp only [andThen_none]
        obtain ⟨c2, hc2, hp2, hst2⟩ := attach_ok sc.name uid k hr
        have hm := evo_made ha.wf s.protoCount ⟨uid, c2, k, hc2, hp2, hst2⟩
        exact ha.trans (hm.trans (deliverQueued_evo hm.wf uid))

theorem connectAll_evo (k : PKind) : ∀ (us : List Nat) (s : Side), WF s → Evo s (connectAll k us s).1
  | [], s, h => Evo.refl h
  | u :: us, s, h => by
    unfold connectAll
    exact evo_andThen (connectSC_evo h k u) (fun s1 h1 => connectAll_evo k us s1 h1)

theorem gotOpen_evo {s : Side} (hwf : WF s) (uid : Nat) (name : String) : Evo s (gotOpen uid name s).1 := by
  unfold gotOpen
  split
  · exact connectSC_evo hwf _ _
  · split
    · split
      · exact evo_same hwf rfl rfl rfl rfl [] (by simp) (fun _ => rfl) rfl
      · exact Evo.refl hwf
    · exact evo_same hwf rfl rfl rfl rfl [] (by simp) (fun _ => rfl) rfl

theorem getElem?_push {α : Type} (l : List α) (x : α) (u : Nat) :
    (l ++ [x])[u]? = if u < l.length then l[u]? else if u = l.length then some x else none := by
  by_cases h : u < l.length
  · simp [h, List.getElem?_append_left h]
  · simp only [h, if_false]
    rw [List.getElem?_append_right (by omega)]
    by_cases h2 : u = l.length
    · simp [h2]
    · simp [h2]
      omega

/-- a brand-new SubChannel object (no protocol yet) is added to the store -/
theorem evo_push {s s' : Side} (hwf : WF s) (scid : Nat) (name : String)
    (hsubs : s'.subs = s.subs ++ [SC.new scid name]) (hpc : s'.protoCount = s.protoCount)
    (hl : s'.leader = s.leader) (l : List Eff) (hlog : s'.log = s.log ++ l) (hq : ∀ p, quiet p l = true)
    (hids : IdsOK s → IdsOK s') : Evo s s' := by
  have old : ∀ (u : Nat) (c : SC), s.subs[u]? = some c → s'.subs[u]? = some c := by
    intro u c hu
    have hlt : u < s.subs.length := by
      rcases Nat.lt_or_ge u s.subs.length with h | h
      · exact h
      · rw [List.getElem?_eq_none h] at hu; cases hu
    rw [hsubs, getElem?_push, if_pos hlt]; exact hu
  have cases' : ∀ (u : Nat) (c' : SC), s'.subs[u]? = some c' → s.subs[u]? = some c' ∨ (s.subs[u]? = none ∧ c'.proto = none) := by
    intro u c' hu
    rw [hsubs, getElem?_push] at hu
    by_cases h : u < s.subs.length
    · rw [if_pos h] at hu; exact Or.inl hu
    · simp only [h, if_false] at hu
      by_cases h2 : u = s.subs.length
      · simp [h2] at hu; subst hu
        exact Or.inr ⟨List.getElem?_eq_none (by omega), rfl⟩
      · simp [h2] at hu
  have hsubs' : ∀ (u : Nat) (c' : SC), s'.subs[u]? = some c' →
      match s.subs[u]? with
      | some c => evoSC s.protoCount c c'
      | none => fresh s.protoCount c' := by
    intro u c' hu
    rcases cases' u c' hu with h | ⟨h, hp⟩
    · rw [h]; exact evoSC_refl _ _
    · rw [h]; exact Or.inl hp
  refine ⟨hl, by omega, ⟨l, hlog, fun p => E_of_quiet (hq p) (Dead_mono (by omega) hsubs')⟩, hids, hsubs', ?_, ⟨?_, ?_⟩⟩
  · intro u c hu; exact ⟨c, old u c hu⟩
  · intro u c q k hu hp
    rcases cases' u c hu with h | ⟨_, h⟩
    · rw [hpc]; exact hwf.bound u c q k h hp
    · rw [h] at hp; cases hp
  · intro u u' a b q k k' hu hu' hp hp'
    rcases cases' u a hu with h | ⟨_, h⟩
    · rcases cases' u' b hu' with g | ⟨_, g⟩
      · exact hwf.uniq u u' a b q k k' h g hp hp'
      · rw [g] at hp'; cases hp'
    · rw [h] at hp; cases hp

theorem handleOpen_evo {s : Side} (hwf : WF s) (scid : Nat) (name : String) : Evo s (handleOpen scid name s).1 := by
  unfold handleOpen
  split
  · exact evo_same hwf rfl rfl rfl rfl [_] rfl (fun _ => rfl) rfl
  · simp only []
    have h1 : Evo s { s with subs := s.subs ++ [SC.new scid name], open_ := s.open_ ++ [(scid, s.subs.length)] } :=
      evo_push hwf scid name rfl rfl rfl [] (by simp) (fun _ => rfl) (IdsOK_frame rfl rfl rfl)
    have h2 := gotOpen_evo h1.wf s.subs.length name
    split
    · rename_i s2 heq
      rw [heq] at h2
      have h3 : Evo s2 (sendRec (fun q => .txClose q scid) s2) :=
        evo_same h2.wf rfl rfl rfl rfl [_] rfl (fun _ => rfl) rfl
      split
      · exact h1.trans (h2.trans (h3.trans (evo_same h3.wf rfl rfl rfl rfl [] (by simp) (fun _ => rfl) rfl)))
      · exact h1.trans (h2.trans h3)
    · exact h1.trans h2

theorem handleData_evo {s : Side} (hwf : WF s) (scid : Nat) (d : Bytes) : Evo s (handleData scid d s).1 := by
  unfold handleData
  split
  · exact evo_same hwf rfl rfl rfl rfl [_] rfl (fun _ => rfl) rfl
  · exact scInput_evo hwf _ _ _

theorem handleClose_evo {s : Side} (hwf : WF s) (scid : Nat) : Evo s (handleClose scid s).1 := by
  unfold handleClose
  split
  · exact evo_same hwf rfl rfl rfl rfl [_] rfl (fun _ => rfl) rfl
  · exact scInput_evo hwf _ _ _

theorem gotRecord_evo {s : Side} (hwf : WF s) (seq : Nat) (handle : Side → Res)
    (hh : ∀ s1, WF s1 → Evo s1 (handle s1).1) : Evo s (gotRecord seq handle s).1 := by
  have h1 : Evo s (emit (.ack seq) s) := evo_same hwf rfl rfl rfl rfl [_] rfl (fun _ => rfl) rfl
  have key : ∀ (b : Bool) (h' : Option Nat),
      Evo s (if b = true then (emit (.ack seq) s, none) else handle { emit (.ack seq) s with highestAcked := h' }).1 := by
    intro b h'
    cases b with
    | true => exact h1
    | false =>
      simp only [Bool.false_eq_true, if_false]
      have h2 : Evo (emit (.ack seq) s) { emit (.ack seq) s with highestAcked := h' } :=
        evo_same h1.wf rfl rfl rfl rfl [] (by simp) (fun _ => rfl) rfl
      exact h1.trans (h2.trans (hh _ h2.wf))
  unfold gotRecord
  exact key _ _

theorem register_evo {s : Side} (hwf : WF s) (name : String) (k : PKind) : Evo s (register name k s).1 := by
  unfold register
  split
  · exact Evo.refl hwf
  · simp only []
    have h1 : Evo s { s with factories := s.factories ++ [(name, k)], pendingOpens := eraseKey name s.pendingOpens } :=
      evo_same hwf rfl rfl rfl rfl [] (by simp) (fun _ => rfl) rfl
    exact h1.trans (connectAll_evo k _ _ h1.wf)

theorem IdsOK_open {s s' : Side} (q : Nat) (name : String) (hl : s'.leader = s.leader)
    (hn : s'.nextScid = s.nextScid + 2) (hlog : s'.log = s.log ++ [.txOpen q s.nextScid name])
    (h : IdsOK s) : IdsOK s' := by
  unfold IdsOK at *
  rw [hl, hn, hlog, openIds_append]
  generalize (if s.leader = true then 1 else 0) = X at *
  obtain ⟨h1, h2, h3, h4⟩ := h
  have ho : openIds [Eff.txOpen q s.nextScid name] = [s.nextScid] := rfl
  rw [ho]
  refine ⟨by omega, by omega, ?_, ?_⟩
  · intro c hc
    rcases List.mem_append.mp hc with hc | hc
    · have := h3 c hc; omega
    · simp at hc; subst hc; omega
  · refine List.pairwise_append.mpr ⟨h4, List.pairwise_singleton _ _, ?_⟩
    intro a ha b hb
    simp at hb; subst hb
    exact (h3 a ha).2.2

theorem connectTail_evo {s3 : Side} (hwf : WF s3) (name : String) (uid : Nat) (k : PKind) :
    Evo s3 (connectTail name k uid s3).1 := by
  unfold connectTail
  simp only []
  have ha := attach_evo hwf name uid k
  cases hr : setProtocol uid s3.protoCount k (buildProtocol name s3) with
  | mk s4 e =>
    rw [hr] at ha
    cases e with
    | some err => exact ha
    | none =>
      obtain ⟨c2, hc2, hp2, hst2⟩ := attach_ok name uid k hr
      exact ha.trans (evo_made ha.wf s3.protoCount ⟨_, c2, k, hc2, hp2, hst2⟩)

theorem connect_evo {s : Side} (hwf : WF s) (name : String) (k : PKind) : Evo s (connect name k s).1 := by
  unfold connect
  split
  · exact Evo.refl hwf
  · simp only []
    have h2 : Evo s { sendRec (fun q => Eff.txOpen q s.nextScid name) { s with nextScid := s.nextScid + 2 } with
        subs := (sendRec (fun q => Eff.txOpen q s.nextScid name) { s with nextScid := s.nextScid + 2 }).subs ++
          [SC.new s.nextScid name] } :=
      evo_push hwf s.nextScid name rfl rfl rfl [.txOpen s.nextSeq s.nextScid name] rfl (fun _ => rfl)
        (IdsOK_open s.nextSeq name rfl rfl rfl)
    split
    · exact h2
    · have h3 := h2.trans (evo_same (s' := { ({ sendRec (fun q => Eff.txOpen q s.nextScid name) { s with nextScid := s.nextScid + 2 } with
          subs := (sendRec (fun q => Eff.txOpen q s.nextScid name) { s with nextScid := s.nextScid + 2 }).subs ++
            [SC.new s.nextScid name] } : Side) with
          open_ := (sendRec (fun q => Eff.txOpen q s.nextScid name) { s with nextScid := s.nextScid + 2 }).open_ ++
            [(s.nextScid, (sendRec (fun q => Eff.txOpen q s.nextScid name) { s with nextScid := s.nextScid + 2 }).subs.length)] })
          h2.wf rfl rfl rfl rfl [] (by simp) (fun _ => rfl) rfl)
      exact h3.trans (connectTail_evo h3.wf name _ k)

theorem gotRecordNoAck_evo {s : Side} (hwf : WF s) (seq : Nat) (handle : Side → Res)
    (hh : ∀ s1, WF s1 → Evo s1 (handle s1).1) : Evo s (gotRecordNoAck seq handle s).1 := by
  have key : ∀ (b : Bool) (h' : Option Nat),
      Evo s (if b = true then (s, none) else handle { s with highestAcked := h' }).1 := by
    intro b h'
    cases b with
    | true => exact Evo.refl hwf
    | false =>
      simp only [Bool.false_eq_true, if_false]
      have h2 : Evo s { s with highestAcked := h' } :=
        evo_same hwf rfl rfl rfl rfl [] (by simp) (fun _ => rfl) rfl
      exact h2.trans (hh _ h2.wf)
  unfold gotRecordNoAck
  exact key _ _

theorem Rx.handler_evo (r : Rx) {s : Side} (hwf : WF s) : Evo s (r.handler s).1 := by
  cases r with
  | opn q scid name => exact handleOpen_evo hwf scid name
  | data q scid d => exact handleData_evo hwf scid d
  | close q scid => exact handleClose_evo hwf scid

theorem selectRun_evo : ∀ (rs : List Rx) (s : Side), WF s → Evo s (selectRun rs s).1
  | [], _, h => Evo.refl h
  | r :: rs, s, h => by
    have h1 := gotRecordNoAck_evo h r.seq r.handler (fun _ h' => r.handler_evo h')
    unfold selectRun
    cases hr : gotRecordNoAck r.seq r.handler s with
    | mk s' e =>
      rw [hr] at h1
      cases e with
      | none => exact h1.trans (selectRun_evo rs s' h1.wf)
      | some err => exact h1.trans (evo_same h1.wf rfl rfl rfl rfl [] (by simp) (fun _ => rfl) rfl)

theorem step_evo {s : Side} (hwf : WF s) (o : Op) : Evo s (step s o).1 := by
  cases o with
  | connect name k => exact connect_evo hwf name k
  | listen name k => exact register_evo hwf name k
  | write pid d =>
    simp only [step]
    split
    · exact Evo.refl hwf
    · exact scInput_evo hwf _ _ _
  | lose pid =>
    simp only [step]
    split
    · exact Evo.refl hwf
    · split
      · exact Evo.refl hwf
      · exact scInput_evo hwf _ _ _
  | loseWrite pid =>
    simp only [step]
    split
    · exact Evo.refl hwf
    · split
      · exact scInput_evo hwf _ _ _
      · exact Evo.refl hwf
  | rxOpen seq scid name => exact gotRecord_evo hwf seq _ (fun _ h1 => handleOpen_evo h1 scid name)
  | rxData seq scid d => exact gotRecord_evo hwf seq _ (fun _ h1 => handleData_evo h1 scid d)
  | rxClose seq scid => exact gotRecord_evo hwf seq _ (fun _ h1 => handleClose_evo h1 scid)
  | park r => exact evo_same hwf rfl rfl rfl rfl [] (by simp [step]) (fun _ => rfl) rfl
  | select =>
    have h1 : Evo s { s with parked := [] } := evo_same hwf rfl rfl rfl rfl [] (by simp) (fun _ => rfl) rfl
    exact h1.trans (selectRun_evo s.parked _ h1.wf)
  | lost => exact evo_same hwf rfl rfl rfl rfl [] (by simp [step]) (fun _ => rfl) rfl

theorem run_evo : ∀ (ops : List Op) (s : Side), WF s → Evo s (run s ops)
  | [], _, h => Evo.refl h
  | o :: os, _, h => (step_evo h o).trans (run_evo os _ (step_evo h o).wf)

theorem WF_init (leader : Bool) (first : Nat) (ex : Option (List String)) : WF (Side.init leader first ex) :=
  ⟨fun _ _ _ _ hu _ => by simp [Side.init] at hu, fun _ _ _ _ _ _ _ hu _ _ _ => by simp [Side.init] at hu⟩

/-! ## consequences used by the property theorems -/

theorem okLost_count {p : Nat} : ∀ {l : List Eff}, okLost p l = true → l.count (.lost p) ≤ 1
  | [], _ => by simp
  | e :: r, h => by
    by_cases he : e = .lost p
    · subst he
      simp [okLost] at h
      have : r.count (.lost p) = 0 := List.count_eq_zero.mpr (lost_not_mem_of_quiet h)
      simp [this]
    · simp [okLost, he] at h
      have := okLost_count h
      rw [List.count_cons_of_ne (fun hh => he hh)]
      exact this

theorem okLost_split {p : Nat} : ∀ {l pre post : List Eff}, okLost p l = true → l = pre ++ .lost p :: post →
    quiet p post = true
  | _, [], post, h, hl => by
    subst hl; simpa [okLost] using h
  | _, e :: pre, post, h, hl => by
    subst hl
    by_cases he : e = .lost p
    · subst he
      simp [okLost, quiet_append] at h
      have := h.2
      simp [quiet] at this ⊢
      exact this.2
    · simp [okLost, he] at h
      exact okLost_split (l := pre ++ .lost p :: post) h rfl

theorem runOuts_error (uid : Nat) (arg : Bytes) (bad : SubChannel.Output)
    (hbad : ∀ s, (runOut uid arg bad s).2 ≠ none) :
    ∀ (outs : List SubChannel.Output) (s : Side), bad ∈ outs → (runOuts uid arg outs s).2 ≠ none
  | [], _, h => by simp at h
  | o :: os, s, h => by
    unfold runOuts
    cases hr : runOut uid arg o s with
    | mk s1 e =>
      cases e with
      | some err => simp [andThen]
      | none =>
        simp only [andThen_none]
        rcases List.mem_cons.mp h with h | h
        · subst h; exact absurd (by rw [hr]) (hbad s)
        · exact runOuts_error uid arg bad hbad os s1 h

theorem findProto_sound (pid : Nat) : ∀ (l : List SC) (i u : Nat) (k : PKind), findProto pid l i = some (u, k) →
    ∃ c : SC, i ≤ u ∧ l[u - i]? = some c ∧ c.proto = some (pid, k)
  | [], _, _, _, h => by simp [findProto] at h
  | c :: r, i, u, k, h => by
    unfold findProto at h
    cases hp : c.proto with
    | none =>
      rw [hp] at h
      obtain ⟨c', h1, h2, h3⟩ := findProto_sound pid r (i + 1) u k h
      exact ⟨c', by omega, by rw [show u - i = (u - (i + 1)) + 1 by omega]; simpa using h2, h3⟩
    | some x =>
      obtain ⟨q, k'⟩ := x
      rw [hp] at h
      simp only [] at h
      by_cases hq : q = pid
      · simp [hq] at h
        obtain ⟨rfl, rfl⟩ := h
        exact ⟨c, Nat.le_refl _, by simp, by rw [hp, hq]⟩
      · simp [hq] at h
        obtain ⟨c', h1, h2, h3⟩ := findProto_sound pid r (i + 1) u k h
        exact ⟨c', by omega, by rw [show u - i = (u - (i + 1)) + 1 by omega]; simpa using h2, h3⟩

theorem findProto_complete (pid : Nat) : ∀ (l : List SC) (i j : Nat) (c : SC) (k : PKind),
    l[j]? = some c → c.proto = some (pid, k) →
    (∀ (j' : Nat) (c' : SC) (k' : PKind), l[j']? = some c' → c'.proto = some (pid, k') → j' = j) →
    findProto pid l i = some (i + j, k)
  | [], _, j, _, _, h, _, _ => by simp at h
  | c0 :: r, i, j, c, k, h, hp, hu => by
    unfold findProto
    cases j with
    | zero =>
      simp at h; subst h
      rw [hp]; simp
    | succ j =>
      have h' : r[j]? = some c := by simpa using h
      have hu' : ∀ (j' : Nat) (c' : SC) (k' : PKind), r[j']? = some c' → c'.proto = some (pid, k') → j' = j := by
        intro j' c' k' hj' hp'
        have := hu (j' + 1) c' k' (by simpa using hj') hp'
        omega
      have ih := findProto_complete pid r (i + 1) j c k h' hp hu'
      cases hp0 : c0.proto with
      | none => simp only []; rw [ih]; congr 2; omega
      | some x =>
        obtain ⟨q, k0⟩ := x
        simp only []
        by_cases hq : q = pid
        · have := hu 0 c0 k0 (by simp) (by rw [hp0, hq])
          omega
        · simp [hq]; rw [ih]; congr 2; omega

theorem close_then_W {s s1 : Side} {uid : Nat} {c : SC} (hs : s.subs[uid]? = some c)
    (h : scInput uid .local_close [] s = (s1, none)) :
    ∃ c1 : SC, s1.subs[uid]? = some c1 ∧ Wst c1.st = true ∧ c1.proto = c.proto := by
  cases ht : SubChannel.table c.st .local_close with
  | none => rw [scInput_eq_norow [] hs ht] at h; cases h
  | some row =>
    obtain ⟨st', outs⟩ := row
    rw [scInput_eq_row [] hs ht] at h
    have hco := close_ok c.st
    simp only [closeOK, ht] at hco
    have hne : outs.contains .error_closed_close = false := by
      cases hc : outs.contains .error_closed_close with
      | false => rfl
      | true =>
        have := runOuts_error uid [] .error_closed_close
          (fun s => by
            unfold runOut
            cases s.subs[uid]? <;> simp)
          outs (updSC uid (fun c => { c with st := st' }) s) (by simpa using hc)
        rw [h] at this
        exact absurd rfl this
    rw [hne] at hco
    have hW : Wst st' = true := by
      simp at hco; exact hco.1
    have hc1 : (updSC uid (fun c => { c with st := st' }) s).subs[uid]? = some { c with st := st' } := by
      simp [updSC, getElem?_modifyAt, hs]
    obtain ⟨l, ro, _⟩ := runOuts_spec uid [] outs _ _ hc1
    rw [h] at ro
    obtain ⟨c', hc', _, _, e3, e4⟩ := ro.self
    exact ⟨c', hc', by rw [e3]; exact hW, e4⟩

theorem write_on_W {s : Side} {uid : Nat} {c : SC} (hs : s.subs[uid]? = some c) (hw : Wst c.st = true) (d : Bytes) :
    (scInput uid .local_data d s).2 ≠ none ∧ (scInput uid .local_data d s).1.log = s.log := by
  cases ht : SubChannel.table c.st .local_data with
  | none => rw [scInput_eq_norow d hs ht]; simp
  | some row =>
    obtain ⟨st', outs⟩ := row
    rw [scInput_eq_row d hs ht]
    have hwo := write_ok c.st
    simp only [writeOK, hw, ht] at hwo
    have : outs = [.error_closed_write] := by simpa using hwo
    subst this
    have hc1 : (updSC uid (fun c => { c with st := st' }) s).subs[uid]? = some { c with st := st' } := by
      simp [updSC, getElem?_modifyAt, hs]
    have hro : runOut uid d .error_closed_write (updSC uid (fun c => { c with st := st' }) s) =
        (updSC uid (fun c => { c with st := st' }) s, some .alreadyClosed) := by
      unfold runOut; rw [hc1]
    simp only [runOuts, hro, andThen_some]
    exact ⟨by simp, rfl⟩

theorem lookup_append_new {α β : Type} [DecidableEq α] (k : α) (v : β) :
    ∀ (l : List (α × β)), (lookup k (l ++ [(k, v)])).isSome = true
  | [] => by simp [lookup]
  | (k', v') :: r => by
    by_cases h : k' = k
    · simp [lookup, h]
    · simp [lookup, h, lookup_append_new k v r]

theorem eraseKey_append_new {α β : Type} [DecidableEq α] (k : α) (v : β) :
    ∀ (l : List (α × β)), lookup k l = none → eraseKey k (l ++ [(k, v)]) = l
  | [], _ => by simp [eraseKey]
  | (k', v') :: r, h => by
    by_cases hk : k' = k
    · simp [lookup, hk] at h
    · simp [lookup, hk] at h
      simp [eraseKey, hk, eraseKey_append_new k v r h]

theorem lookup_append_new' {α β : Type} [DecidableEq α] (k : α) (v : β) :
    ∀ (l : List (α × β)), lookup k l = none → lookup k (l ++ [(k, v)]) = some v
  | [], _ => by simp [lookup]
  | (k', v') :: r, h => by
    by_cases hk : k' = k
    · simp [lookup, hk] at h
    · simp [lookup, hk] at h
      simp [lookup, hk, lookup_append_new' k v r h]

/-! ## queued data is handed over after connectionMade, in order -/

theorem feedData_open (uid p : Nat) (k' : PKind) : ∀ (ds : List Bytes) (s : Side) (c : SC),
    s.subs[uid]? = some c → (c.st = .open_full ∨ c.st = .open_half) → c.proto = some (p, k') →
    ∃ (s' : Side) (c' : SC), feedData uid ds s = (s', none) ∧ s'.log = s.log ++ ds.map (fun d => Eff.data p d) ∧
      s'.subs[uid]? = some c' ∧ c'.st = c.st ∧ c'.proto = c.proto ∧ c'.pendingData = c.pendingData ∧
      c'.pendingClose = c.pendingClose ∧ s'.protoCount = s.protoCount ∧ s'.open_ = s.open_ ∧
      s'.pendingOpens = s.pendingOpens ∧ s'.factories = s.factories
  | [], s, c, hs, _, _ => ⟨s, c, rfl, by simp, hs, rfl, rfl, rfl, rfl, rfl, rfl, rfl, rfl⟩
  | d :: r, s, c, hs, hst, hp => by
    have ht : SubChannel.table c.st .remote_data = some (c.st, [.signal_dataReceived]) := by
      rcases hst with h | h <;> rw [h] <;> rfl
    have hc1 : (updSC uid (fun c0 => { c0 with st := c.st }) s).subs[uid]? = some { c with st := c.st } := by
      simp [updSC, getElem?_modifyAt, hs]
    have hstep : scInput uid .remote_data d s =
        (emit (.data p d) (updSC uid (fun c0 => { c0 with st := c.st }) s), none) := by
      rw [scInput_eq_row d hs ht]
      simp only [runOuts]
      have : runOut uid d .signal_dataReceived (updSC uid (fun c0 => { c0 with st := c.st }) s) =
          (emit (.data p d) (updSC uid (fun c0 => { c0 with st := c.st }) s), none) := by
        unfold runOut; rw [hc1]; simp only [hp]
      rw [this]; rfl
    have hc2 : (emit (.data p d) (updSC uid (fun c0 => { c0 with st := c.st }) s)).subs[uid]? = some { c with st := c.st } := hc1
    obtain ⟨s', c', h1, h2, h3, h4, h5, h6, h7, h8, h9, h10, h11⟩ :=
      feedData_open uid p k' r _ _ hc2 hst hp
    refine ⟨s', c', ?_, ?_, h3, h4, h5, h6, h7, h8, h9, h10, h11⟩
    · unfold feedData; rw [hstep, andThen_none]; exact h1
    · rw [h2]; simp [emit, updSC]

/-- `SubchannelDemultiplex._connect` on a SubChannel that is still unconnected: exactly one
    `buildProtocol`, then `connectionMade`, then every DATA that had been queued, in arrival order -/
theorem connectSC_delivers_queued (s : Side) (uid : Nat) (c : SC) (k : PKind) (ds : List Bytes)
    (hc : s.subs[uid]? = some c) (hst : c.st = .unconnected) (hp : c.proto = none)
    (hd : c.pendingData = some ds) (hcl : c.pendingClose = false) :
    (connectSC k uid s).2 = none ∧
    (connectSC k uid s).1.log =
      s.log ++ [.build s.protoCount c.name, .made s.protoCount] ++ ds.map (fun d => Eff.data s.protoCount d) ∧
    (connectSC k uid s).1.protoCount = s.protoCount + 1 ∧
    (connectSC k uid s).1.open_ = s.open_ ∧ (connectSC k uid s).1.pendingOpens = s.pendingOpens := by
  let st' : SubChannel.State := if k = .half then .open_half else .open_full
  let i : SubChannel.Input := if k = .half then .connect_protocol_half else .connect_protocol_full
  have ht : SubChannel.table .unconnected i = some (st', []) := by
    cases k <;> rfl
  have hst' : st' = .open_full ∨ st' = .open_half := by
    cases k
    · exact Or.inl rfl
    · exact Or.inr rfl
  -- after buildProtocol + _set_protocol
  let s1 := updSC uid (fun c0 => { c0 with proto := some (s.protoCount, k) }) (buildProtocol c.name s)
  have hc1 : s1.subs[uid]? = some { c with proto := some (s.protoCount, k) } := by
    simp [s1, updSC, buildProtocol, emit, getElem?_modifyAt, hc]
  have hset : setProtocol uid s.protoCount k (buildProtocol c.name s) =
      (updSC uid (fun c0 => { c0 with st := st' }) s1, none) := by
    unfold setProtocol
    have : (buildProtocol c.name s).subs[uid]? = some c := hc
    rw [this]
    simp only [hp, Option.isSome, Bool.false_eq_true, if_false]
    rw [scInput_eq_row [] hc1 (by simpa [hst] using ht)]
    rfl
  let s3 := emit (.made s.protoCount) (updSC uid (fun c0 => { c0 with st := st' }) s1)
  have hc3 : s3.subs[uid]? = some { c with proto := some (s.protoCount, k), st := st' } := by
    simp [s3, emit, updSC, getElem?_modifyAt, hc1]
  obtain ⟨s4, c4, f1, f2, f3, f4, f5, f6, f7, f8, f9, f10, _⟩ :=
    feedData_open uid s.protoCount k ds s3 _ hc3 hst' rfl
  have hdq : deliverQueued uid s3 = (updSC uid (fun c0 => { c0 with pendingData := none }) s4, none) := by
    unfold deliverQueued
    rw [hc3]
    simp only [hd, f1, andThen_none]
    have : (updSC uid (fun c0 => { c0 with pendingData := none }) s4).subs[uid]? = some { c4 with pendingData := none } := by
      simp [updSC, getElem?_modifyAt, f3]
    rw [this]
    simp [f7, hcl]
  have hall : connectSC k uid s = (updSC uid (fun c0 => { c0 with pendingData := none }) s4, none) := by
    unfold connectSC
    rw [hc]
    simp only [hset, andThen_none]
    exact hdq
  rw [hall]
  refine ⟨rfl, ?_, ?_, ?_, ?_⟩
  · show s4.log = _
    rw [f2]; simp [s3, s1, emit, updSC, buildProtocol]
  · show s4.protoCount = _
    rw [f8]; rfl
  · show s4.open_ = _
    rw [f9]; rfl
  · show s4.pendingOpens = _
    rw [f10]; rfl

/-- the OPENs waiting for a listener for `name`, in arrival order -/
def pendingFor (name : String) (l : List (String × List Nat)) : List Nat :=
  match lookup name l with
  | some us => us
  | none => []

theorem lookup_appendAt (k : String) (v : Nat) : ∀ (l : List (String × List Nat)),
    lookup k (appendAt k v l) = some (pendingFor k l ++ [v])
  | [] => by simp [appendAt, lookup, pendingFor]
  | (k', us) :: r => by
    by_cases h : k' = k
    · simp [appendAt, lookup, h, pendingFor]
    · have := lookup_appendAt k v r
      simp [appendAt, lookup, h, pendingFor] at this ⊢
      exact this

theorem wrun_side_a : ∀ (ops : List WOp) (w : World), ∃ opsA : List Op, (wrun w ops).a = run w.a opsA
  | [], w => ⟨[], rfl⟩
  | o :: os, w => by
    obtain ⟨r, hr⟩ := wrun_side_a os (wstep w o).1
    cases o with
    | onA o => exact ⟨o :: r, by simpa [wrun, run, wstep] using hr⟩
    | onB o => exact ⟨r, by simpa [wrun, wstep] using hr⟩
    | deliverAB =>
      refine ⟨r, ?_⟩
      simp only [wrun]
      rw [hr]
      simp only [wstep]
      split <;> rfl
    | deliverBA =>
      simp only [wrun]
      rw [hr]
      simp only [wstep]
      split
      · exact ⟨r, rfl⟩
      · rename_i o _
        exact ⟨o :: r, rfl⟩
    | parkAB =>
      refine ⟨r, ?_⟩
      simp only [wrun]
      rw [hr]
      simp only [wstep]
      split <;> rfl
    | parkBA =>
      simp only [wrun]
      rw [hr]
      simp only [wstep]
      split
      · exact ⟨r, rfl⟩
      · rename_i x _
        exact ⟨.park x :: r, rfl⟩
    | lostA => exact ⟨.lost :: r, by simpa [wrun, run, wstep] using hr⟩
    | lostB => exact ⟨r, by simpa [wrun, wstep] using hr⟩

theorem gotRecord_fresh (s : Side) (seq : Nat) (handle : Side → Res)
    (hseq : ∀ h, s.highestAcked = some h → h < seq) :
    ∃ hi : Option Nat, gotRecord seq handle s = handle { s with log := s.log ++ [.ack seq], highestAcked := hi } := by
  cases hh : s.highestAcked with
  | none => exact ⟨some seq, by simp [gotRecord, emit, hh]⟩
  | some h =>
    have hlt : ¬ seq ≤ h := by have := hseq h hh; omega
    exact ⟨some (max h seq), by simp [gotRecord, emit, hh, hlt]⟩

theorem handleOpen_of_gotOpen_ok (s s2 : Side) (scid : Nat) (name : String) (hnew : lookup scid s.open_ = none)
    (h : gotOpen s.subs.length name
      { s with subs := s.subs ++ [SC.new scid name], open_ := s.open_ ++ [(scid, s.subs.length)] } = (s2, none)) :
    handleOpen scid name s = (s2, none) := by
  unfold handleOpen
  simp only [hnew, Option.isSome, Bool.false_eq_true, if_false]
  rw [h]

/-! ## invariants along histories (used by the property theorems) -/

theorem idsOK_start {my their : String} {l : Bool} {f : Nat} (h : chooseRole my their = some (l, f))
    (ex : Option (List String)) : IdsOK (Side.init l f ex) := by
  unfold chooseRole at h
  by_cases h1 : their < my
  · simp [h1] at h
    obtain ⟨rfl, rfl⟩ := h
    simp [IdsOK, Side.init, openIds]
  · by_cases h2 : my < their
    · simp [h1, h2] at h
      obtain ⟨rfl, rfl⟩ := h
      simp [IdsOK, Side.init, openIds]
    · simp [h1, h2] at h

def WInv (la lb : Bool) (w : World) : Prop :=
  WF w.a ∧ WF w.b ∧ IdsOK w.a ∧ IdsOK w.b ∧ w.a.leader = la ∧ w.b.leader = lb

theorem wstep_inv {la lb : Bool} {w : World} (h : WInv la lb w) (o : WOp) : WInv la lb (wstep w o).1 := by
  obtain ⟨h1, h2, h3, h4, h5, h6⟩ := h
  cases o with
  | onA o =>
    have ev := step_evo h1 o
    exact ⟨ev.wf, h2, ev.ids h3, h4, ev.leader.trans h5, h6⟩
  | onB o =>
    have ev := step_evo h2 o
    exact ⟨h1, ev.wf, h3, ev.ids h4, h5, ev.leader.trans h6⟩
  | deliverAB =>
    simp only [wstep]
    split
    · exact ⟨h1, h2, h3, h4, h5, h6⟩
    · rename_i o _
      have ev := step_evo h2 o
      exact ⟨h1, ev.wf, h3, ev.ids h4, h5, ev.leader.trans h6⟩
  | deliverBA =>
    simp only [wstep]
    split
    · exact ⟨h1, h2, h3, h4, h5, h6⟩
    · rename_i o _
      have ev := step_evo h1 o
      exact ⟨ev.wf, h2, ev.ids h3, h4, ev.leader.trans h5, h6⟩
  | parkAB =>
    simp only [wstep]
    split
    · exact ⟨h1, h2, h3, h4, h5, h6⟩
    · rename_i x _
      have ev := step_evo h2 (.park x)
      exact ⟨h1, ev.wf, h3, ev.ids h4, h5, ev.leader.trans h6⟩
  | parkBA =>
    simp only [wstep]
    split
    · exact ⟨h1, h2, h3, h4, h5, h6⟩
    · rename_i x _
      have ev := step_evo h1 (.park x)
      exact ⟨ev.wf, h2, ev.ids h3, h4, ev.leader.trans h5, h6⟩
  | lostA =>
    have ev := step_evo h1 .lost
    exact ⟨ev.wf, h2, ev.ids h3, h4, ev.leader.trans h5, h6⟩
  | lostB =>
    have ev := step_evo h2 .lost
    exact ⟨h1, ev.wf, h3, ev.ids h4, h5, ev.leader.trans h6⟩

theorem wrun_inv {la lb : Bool} : ∀ (ops : List WOp) (w : World), WInv la lb w → WInv la lb (wrun w ops)
  | [], _, h => h
  | o :: os, _, h => wrun_inv os _ (wstep_inv h o)

theorem okLost_run (l : Bool) (f : Nat) (ex : Option (List String)) (ops : List Op) (p : Nat) :
    okLost p (run (Side.init l f ex) ops).log = true := by
  obtain ⟨lg, hlg, e⟩ := (run_evo ops _ (WF_init l f ex)).log
  have : (Side.init l f ex).log = [] := rfl
  rw [hlg, this, List.nil_append]
  exact (e p).2.1


end WV.C13
