import WV.Proofs.C10_L4

/-! C10, receiving side above the ARQ, whole runs: for a well-formed sender and any interleaving of
listener registrations nothing raises `NoTransition`, and per subchannel what the protocol was shown
plus what is still queued for it is the image, in order, of the dispatched records naming it. -/
namespace WV.Proofs.C10
open WV WV.C10 WV.Gen

/-- inputs of the receiving side's L4: a dispatched record, or a listener registration -/
inductive L4In where
  | disp (r : Rec)
  | listen (name : Bytes)

def l4Run : L4 → List L4In → L4
  | t, [] => t
  | t, .disp r :: rest => l4Run (l4Dispatch t r) rest
  | t, .listen n :: rest => l4Run (l4Listen t n) rest

def dispatchedOf : List L4In → List Rec
  | [] => []
  | .disp r :: rest => r :: dispatchedOf rest
  | .listen _ :: rest => dispatchedOf rest

/-- the events the records naming subchannel `c` stand for -/
def expect (c : Nat) : List Rec → List AppEv
  | [] => []
  | r :: rs =>
    match r.body with
    | .opn c' _ => if c' = c then .made :: expect c rs else expect c rs
    | .data c' d => if c' = c then .data d :: expect c rs else expect c rs
    | .close c' => if c' = c then .rclosed :: expect c rs else expect c rs

/-- a well-behaved sender: every scid is opened once, written to only after its open and before its close -/
def wellFormed : List Nat → List Nat → List Rec → Bool
  | _, _, [] => true
  | opened, closed, r :: rs =>
    match r.body with
    | .opn c _ => !opened.contains c && wellFormed (c :: opened) closed rs
    | .data c _ => opened.contains c && !closed.contains c && wellFormed opened closed rs
    | .close c => opened.contains c && !closed.contains c && wellFormed opened (c :: closed) rs

theorem expect_append (c : Nat) (D E : List Rec) : expect c (D ++ E) = expect c D ++ expect c E := by
  induction D with
  | nil => rfl
  | cons r D ih =>
    simp only [List.cons_append, expect]
    cases r.body <;> simp only <;> split <;> simp [ih]

theorem expect_single_ne (c : Nat) (r : Rec) (h : bodyScid r.body ≠ c) : expect c [r] = [] := by
  simp only [expect]
  cases hb : r.body <;> rw [hb] at h <;> simp only [bodyScid] at h <;> simp [h, expect]

/-! ### bookkeeping on the list of subchannels -/

theorem findSub_scid {c : Nat} {subs : List Sub} {s : Sub} (h : findSub c subs = some s) : s.scid = c := by
  induction subs with
  | nil => cases h
  | cons x rest ih =>
    simp only [findSub] at h
    split at h
    · next hx => cases h; exact hx
    · exact ih h

theorem findSub_append_new (subs : List Sub) (x : Sub) (h : findSub x.scid subs = none) :
    findSub x.scid (subs ++ [x]) = some x := by
  induction subs with
  | nil => simp [findSub]
  | cons s rest ih =>
    simp only [findSub] at h
    split at h
    · cases h
    · next hs => simp only [List.cons_append, findSub, hs, ↓reduceIte]; exact ih h

theorem updSub_find_eq (c : Nat) (f : Sub → Option Sub) {s s' : Sub} (hf : f s = some s') (hsc : s'.scid = c) :
    ∀ (subs : List Sub), findSub c subs = some s →
      ∃ subs', updSub c f subs = some subs' ∧ findSub c subs' = some s' := by
  intro subs
  induction subs with
  | nil => intro h; cases h
  | cons x rest ih =>
    intro h
    simp only [findSub] at h
    split at h
    · next hx =>
      cases h
      exact ⟨s' :: rest, by simp [updSub, hx, hf], by simp [findSub, hsc]⟩
    · next hx =>
      obtain ⟨r', h1, h2⟩ := ih h
      exact ⟨x :: r', by simp [updSub, hx, h1], by simp [findSub, hx, h2]⟩

/-- applying a non-raising, id-preserving `f` to subchannel `c`: no fault, `c` is replaced by its image,
    nothing else changes -/
theorem upd_ok (t : L4) (c : Nat) (f : Sub → Option Sub) {s s' : Sub}
    (hfind : findSub c t.subs = some s) (hf : f s = some s')
    (hpres : ∀ x x', f x = some x' → x'.scid = x.scid) :
    (t.upd c f).fault = t.fault ∧ (t.upd c f).factories = t.factories ∧ (t.upd c f).pendOpens = t.pendOpens ∧
    findSub c (t.upd c f).subs = some s' ∧ ∀ c', c ≠ c' → findSub c' (t.upd c f).subs = findSub c' t.subs := by
  have hsc : s'.scid = c := by rw [hpres s s' hf]; exact findSub_scid hfind
  obtain ⟨subs', h1, h2⟩ := updSub_find_eq c f hf hsc t.subs hfind
  have e : t.upd c f = { t with subs := subs' } := by simp [L4.upd, h1]
  refine ⟨by rw [e], by rw [e], by rw [e], by rw [e]; exact h2, ?_⟩
  intro c' hne
  exact upd_find_ne t c c' f hpres hne

/-! ### one subchannel, with the state it is left in -/

def openState (s : Sub) : Prop := s.st = .open_half ∨ (s.st = .unconnected ∧ s.pendClose = false)

theorem remote_data_spec (s : Sub) (d : Bytes) (hs : openState s) :
    ∃ s', subInput s .remote_data d = some s' ∧ subTotal s' = subTotal s ++ [AppEv.data d] ∧
      openState s' ∧ (s'.st = .unconnected ↔ s.st = .unconnected) := by
  rcases hs with hs | ⟨hs, hc⟩
  · refine ⟨{ s with shown := s.shown ++ [.data d] }, ?_, ?_, Or.inl hs, by simp⟩
    · simp [subInput, hs, SubChannel.table, runOut]
    · simp [subTotal, hs]
  · refine ⟨{ s with pendData := s.pendData ++ [d] }, ?_, ?_, Or.inr ⟨hs, hc⟩, by simp⟩
    · simp [subInput, hs, SubChannel.table, runOut]
    · simp [subTotal, hs, hc]

theorem remote_close_spec (s : Sub) (hs : openState s) :
    ∃ s', subInput s .remote_close [] = some s' ∧ subTotal s' = subTotal s ++ [AppEv.rclosed] ∧
      (s'.st = .unconnected ↔ s.st = .unconnected) := by
  rcases hs with hs | ⟨hs, hc⟩
  · refine ⟨{ s with st := .read_closed, shown := s.shown ++ [.rclosed] }, ?_, ?_, by simp [hs]⟩
    · simp [subInput, hs, SubChannel.table, runOut]
    · simp [subTotal, hs]
  · refine ⟨{ s with pendClose := true }, ?_, ?_, by simp⟩
    · simp [subInput, hs, SubChannel.table, runOut]
    · simp [subTotal, hs, hc]

theorem connectSub_keeps (s : Sub) (hs : s.st = .unconnected) :
    ∃ s', connectSub s = some s' ∧ subTotal s' = subTotal s ∧ s'.st ≠ .unconnected ∧
      (openState s → openState s') := by
  obtain ⟨s', h1, h2, h3, h4, h5⟩ := connectSub_spec s hs
  refine ⟨s', h1, ?_, ?_, ?_⟩
  · unfold subTotal; rw [h2, h5, hs]; cases s.pendClose <;> simp
  · rw [h5]; cases s.pendClose <;> simp
  · intro ho
    rcases ho with ho | ⟨_, hc⟩
    · rw [hs] at ho; cases ho
    · left; rw [h5, hc]; simp

/-! ### the invariant of a run -/

structure LInv (t : L4) (O C : List Nat) (D : List Rec) : Prop where
  nofault : t.fault = false
  /-- the subchannels that exist are the ones whose OPEN was dispatched -/
  dom : ∀ c, c ∈ O ↔ ∃ s, findSub c t.subs = some s
  fresh : ∀ c, c ∉ O → expect c D = []
  /-- shown ++ queued = image of the dispatched records naming the subchannel; not closed by the peer ⇒ it can
      take DATA / CLOSE -/
  tot : ∀ c s, findSub c t.subs = some s → subTotal s = expect c D ∧ (c ∉ C → openState s)
  /-- `_pending_opens` lists existing subchannels that still wait for a protocol, each once -/
  pend : ∀ p ∈ t.pendOpens, ∃ s, findSub p.2 t.subs = some s ∧ s.st = .unconnected
  nodup : (t.pendOpens.map (·.2)).Nodup
  /-- a subchannel without protocol is one whose name nobody listens for yet, and it is registered as pending -/
  wait : ∀ c s, findSub c t.subs = some s → s.st = .unconnected → s.name ∉ t.factories ∧ (s.name, c) ∈ t.pendOpens

theorem lInv_init : LInv L4.init [] [] [] :=
  { nofault := rfl
    dom := by intro c; simp [L4.init, findSub]
    fresh := by intro c _; rfl
    tot := by intro c s h; simp [L4.init, findSub] at h
    pend := by intro p hp; simp [L4.init] at hp
    nodup := by simp [L4.init]
    wait := by intro c s h; simp [L4.init, findSub] at h }

def newSub (c : Nat) (name : Bytes) : Sub :=
  { scid := c, name := name, st := SubChannel.init, pendData := [], pendClose := false, shown := [] }

theorem handleOpen_none (t : L4) (c : Nat) (name : Bytes) (h : findSub c t.subs = none) :
    handleOpen t c name =
      if t.factories.contains name = true then ({ t with subs := t.subs ++ [newSub c name] } : L4).upd c connectSub
      else { t with subs := t.subs ++ [newSub c name], pendOpens := t.pendOpens ++ [(name, c)] } := by
  simp [handleOpen, h, newSub]

theorem mem_cons_dom {c c' : Nat} {O : List Nat} {P : Prop} (hc : c ≠ c') (h : c' ∈ O ↔ P) : c' ∈ c :: O ↔ P := by
  rw [List.mem_cons]
  constructor
  · rintro (e | e)
    · exact absurd e.symm hc
    · exact h.mp e
  · exact fun e => Or.inr (h.mpr e)

theorem lInv_open {t : L4} {O C : List Nat} {D : List Rec} (H : LInv t O C D) (r : Rec) (c : Nat) (name : Bytes)
    (hb : r.body = .opn c name) (hO : c ∉ O) : LInv (l4Dispatch t r) (c :: O) C (D ++ [r]) := by
  have hnone : findSub c t.subs = none := by
    cases hf : findSub c t.subs with
    | none => rfl
    | some s => exact absurd ((H.dom c).mpr ⟨s, hf⟩) hO
  have hexp : ∀ c', expect c' (D ++ [r]) = expect c' D ++ (if c = c' then [AppEv.made] else []) := by
    intro c'; rw [expect_append]; simp only [expect, hb]
  have hnew : findSub c (t.subs ++ [newSub c name]) = some (newSub c name) :=
    findSub_append_new t.subs (newSub c name) hnone
  have hold : ∀ c', c ≠ c' → findSub c' (t.subs ++ [newSub c name]) = findSub c' t.subs :=
    fun c' hne => findSub_append_ne t.subs (newSub c name) c' hne
  have hpend_ne : ∀ p ∈ t.pendOpens, p.2 ≠ c := by
    intro p hp hpc
    obtain ⟨s, hs, _⟩ := H.pend p hp
    rw [hpc, hnone] at hs; cases hs
  have hfresh : ∀ c', c' ∉ c :: O → expect c' (D ++ [r]) = [] := by
    intro c' hc'
    simp only [List.mem_cons, not_or] at hc'
    rw [hexp c', H.fresh c' hc'.2]; simp [Ne.symm hc'.1]
  have htot0 : subTotal (newSub c name) = expect c (D ++ [r]) := by
    rw [hexp c, H.fresh c hO]; simp [subTotal, newSub, SubChannel.init]
  have e : l4Dispatch t r = handleOpen t c name := by simp [l4Dispatch, hb]
  rw [e, handleOpen_none t c name hnone]
  by_cases hfac : t.factories.contains name = true
  · -- a listener exists: the protocol is built at once
    rw [if_pos hfac]
    obtain ⟨s', k1, k2, k3, k4⟩ := connectSub_keeps (newSub c name) rfl
    obtain ⟨u1, u2, u3, u4, u5⟩ := upd_ok ({ t with subs := t.subs ++ [newSub c name] } : L4) c connectSub hnew k1
      (fun x x' hx => (connectSub_frame hx).1)
    exact
      { nofault := by rw [u1]; exact H.nofault
        dom := by
          intro c'
          by_cases hc : c = c'
          · subst hc; exact ⟨fun _ => ⟨s', u4⟩, fun _ => List.mem_cons_self⟩
          · rw [u5 c' hc]; show c' ∈ c :: O ↔ ∃ s, findSub c' (t.subs ++ [newSub c name]) = some s
            rw [hold c' hc]; exact mem_cons_dom hc (H.dom c')
        fresh := hfresh
        tot := by
          intro c' s hs
          by_cases hc : c = c'
          · subst hc
            rw [u4] at hs; cases hs
            exact ⟨by rw [k2]; exact htot0, fun _ => k4 (Or.inr ⟨rfl, rfl⟩)⟩
          · rw [u5 c' hc] at hs
            have hs' : findSub c' t.subs = some s := by rw [← hold c' hc]; exact hs
            obtain ⟨t1, t2⟩ := H.tot c' s hs'
            exact ⟨by rw [t1, hexp c']; simp [hc], t2⟩
        pend := by
          intro p hp
          rw [u3] at hp
          obtain ⟨s, hs, hu⟩ := H.pend p hp
          have hne : c ≠ p.2 := fun h => hpend_ne p hp h.symm
          refine ⟨s, ?_, hu⟩
          rw [u5 p.2 hne]; show findSub p.2 (t.subs ++ [newSub c name]) = some s
          rw [hold p.2 hne]; exact hs
        nodup := by rw [u3]; exact H.nodup
        wait := by
          intro c' s hs hu
          by_cases hc : c = c'
          · subst hc
            rw [u4] at hs; cases hs
            exact absurd hu k3
          · rw [u5 c' hc] at hs
            have hs' : findSub c' t.subs = some s := by rw [← hold c' hc]; exact hs
            rw [u2, u3]; exact H.wait c' s hs' hu }
  · -- no listener yet: the OPEN is held
    rw [if_neg hfac]
    exact
      { nofault := H.nofault
        dom := by
          intro c'
          show c' ∈ c :: O ↔ ∃ s, findSub c' (t.subs ++ [newSub c name]) = some s
          by_cases hc : c = c'
          · subst hc; exact ⟨fun _ => ⟨_, hnew⟩, fun _ => List.mem_cons_self⟩
          · rw [hold c' hc]; exact mem_cons_dom hc (H.dom c')
        fresh := hfresh
        tot := by
          intro c' s hs
          have hs0 : findSub c' (t.subs ++ [newSub c name]) = some s := hs
          by_cases hc : c = c'
          · subst hc
            rw [hnew] at hs0; cases hs0
            exact ⟨htot0, fun _ => Or.inr ⟨rfl, rfl⟩⟩
          · rw [hold c' hc] at hs0
            obtain ⟨t1, t2⟩ := H.tot c' s hs0
            exact ⟨by rw [t1, hexp c']; simp [hc], t2⟩
        pend := by
          intro p hp
          have hp0 : p ∈ t.pendOpens ++ [(name, c)] := hp
          show ∃ s, findSub p.2 (t.subs ++ [newSub c name]) = some s ∧ s.st = .unconnected
          simp only [List.mem_append, List.mem_singleton] at hp0
          rcases hp0 with hp0 | hp0
          · obtain ⟨s, hs, hu⟩ := H.pend p hp0
            have hne : c ≠ p.2 := fun h => hpend_ne p hp0 h.symm
            exact ⟨s, by rw [hold p.2 hne]; exact hs, hu⟩
          · subst hp0; exact ⟨newSub c name, hnew, rfl⟩
        nodup := by
          show ((t.pendOpens ++ [(name, c)]).map (·.2)).Nodup
          simp only [List.map_append, List.map_cons, List.map_nil]
          rw [List.nodup_append]
          refine ⟨H.nodup, by simp, ?_⟩
          intro a ha b hb'
          simp only [List.mem_singleton] at hb'
          subst hb'
          obtain ⟨p, hp, rfl⟩ := List.mem_map.mp ha
          exact hpend_ne p hp
        wait := by
          intro c' s hs hu
          have hs0 : findSub c' (t.subs ++ [newSub c name]) = some s := hs
          show s.name ∉ t.factories ∧ (s.name, c') ∈ t.pendOpens ++ [(name, c)]
          by_cases hc : c = c'
          · subst hc
            rw [hnew] at hs0; cases hs0
            refine ⟨?_, by simp [newSub]⟩
            intro hmem
            exact hfac (by simpa [newSub] using hmem)
          · rw [hold c' hc] at hs0
            obtain ⟨w1, w2⟩ := H.wait c' s hs0 hu
            exact ⟨w1, List.mem_append_left _ w2⟩ }

/-- a DATA / CLOSE for an existing subchannel that can take it -/
theorem lInv_touch {t : L4} {O C C' : List Nat} {D : List Rec} (H : LInv t O C D) (r : Rec) (c : Nat)
    (f : Sub → Option Sub) (ev : AppEv) {s s' : Sub}
    (hname : bodyScid r.body = c) (hev : expect c [r] = [ev])
    (hfind : findSub c t.subs = some s) (hf : f s = some s')
    (hpres : ∀ x x', f x = some x' → x'.scid = x.scid)
    (htot : subTotal s' = subTotal s ++ [ev]) (hun : s'.st = .unconnected ↔ s.st = .unconnected)
    (hnm : s'.name = s.name)
    (hC : ∀ c', c' ∉ C' → c' ∉ C) (hopen : c ∉ C' → openState s') :
    LInv (t.upd c f) O C' (D ++ [r]) := by
  obtain ⟨u1, u2, u3, u4, u5⟩ := upd_ok t c f hfind hf hpres
  have hexp_ne : ∀ c', c ≠ c' → expect c' (D ++ [r]) = expect c' D := by
    intro c' hne
    rw [expect_append, expect_single_ne c' r (by rw [hname]; exact hne)]; simp
  have hcO : c ∈ O := (H.dom c).mpr ⟨s, hfind⟩
  exact
    { nofault := by rw [u1]; exact H.nofault
      dom := by
        intro c'
        by_cases hc : c = c'
        · subst hc; exact ⟨fun _ => ⟨s', u4⟩, fun _ => hcO⟩
        · rw [u5 c' hc]; exact H.dom c'
      fresh := by
        intro c' hc'
        have hne : c ≠ c' := fun h => hc' (h ▸ hcO)
        rw [hexp_ne c' hne]; exact H.fresh c' hc'
      tot := by
        intro c' x hx
        by_cases hc : c = c'
        · subst hc
          rw [u4] at hx; cases hx
          exact ⟨by rw [htot, (H.tot c s hfind).1, expect_append, hev], hopen⟩
        · rw [u5 c' hc] at hx
          obtain ⟨t1, t2⟩ := H.tot c' x hx
          exact ⟨by rw [t1, hexp_ne c' hc], fun h => t2 (hC c' h)⟩
      pend := by
        intro p hp
        rw [u3] at hp
        obtain ⟨x, hx, hu⟩ := H.pend p hp
        by_cases hc : c = p.2
        · rw [← hc] at hx ⊢
          rw [hfind] at hx; cases hx
          exact ⟨s', u4, hun.mpr hu⟩
        · exact ⟨x, by rw [u5 p.2 hc]; exact hx, hu⟩
      nodup := by rw [u3]; exact H.nodup
      wait := by
        intro c' x hx hu
        rw [u2, u3]
        by_cases hc : c = c'
        · subst hc
          rw [u4] at hx; cases hx
          rw [hnm]; exact H.wait c s hfind (hun.mp hu)
        · rw [u5 c' hc] at hx; exact H.wait c' x hx hu }

theorem lInv_data {t : L4} {O C : List Nat} {D : List Rec} (H : LInv t O C D) (r : Rec) (c : Nat) (d : Bytes)
    (hb : r.body = .data c d) (hO : c ∈ O) (hC : c ∉ C) : LInv (l4Dispatch t r) O C (D ++ [r]) := by
  obtain ⟨s, hfind⟩ := (H.dom c).mp hO
  obtain ⟨s', k1, k2, k3, k4⟩ := remote_data_spec s d ((H.tot c s hfind).2 hC)
  have e : l4Dispatch t r = t.upd c (fun s => subInput s .remote_data d) := by
    simp [l4Dispatch, hb, handleData, hfind]
  rw [e]
  exact lInv_touch H r c _ (.data d) (by rw [hb]; rfl) (by simp [expect, hb]) hfind k1
    (fun x x' hx => (subInput_frame hx).1) k2 k4 (subInput_frame k1).2 (fun _ h => h) (fun _ => k3)

theorem lInv_close {t : L4} {O C : List Nat} {D : List Rec} (H : LInv t O C D) (r : Rec) (c : Nat)
    (hb : r.body = .close c) (hO : c ∈ O) (hC : c ∉ C) : LInv (l4Dispatch t r) O (c :: C) (D ++ [r]) := by
  obtain ⟨s, hfind⟩ := (H.dom c).mp hO
  obtain ⟨s', k1, k2, k4⟩ := remote_close_spec s ((H.tot c s hfind).2 hC)
  have e : l4Dispatch t r = t.upd c (fun s => subInput s .remote_close []) := by
    simp [l4Dispatch, hb, handleClose, hfind]
  rw [e]
  exact lInv_touch H r c _ .rclosed (by rw [hb]; rfl) (by simp [expect, hb]) hfind k1
    (fun x x' hx => (subInput_frame hx).1) k2 k4 (subInput_frame k1).2
    (fun c' h hc => h (List.mem_cons_of_mem _ hc)) (fun h => absurd List.mem_cons_self h)

/-! ### listener registration -/

theorem eq_of_nodup_map {α β : Type} (f : α → β) : ∀ (l : List α), (l.map f).Nodup →
    ∀ a ∈ l, ∀ b ∈ l, f a = f b → a = b := by
  intro l
  induction l with
  | nil => intro _ a ha; cases ha
  | cons x rest ih =>
    intro hnd a ha b hb hab
    simp only [List.map_cons, List.nodup_cons] at hnd
    simp only [List.mem_cons] at ha hb
    rcases ha with ha | ha <;> rcases hb with hb | hb
    · rw [ha, hb]
    · subst ha; exact absurd (hab ▸ List.mem_map.mpr ⟨b, hb, rfl⟩) hnd.1
    · subst hb; exact absurd (hab ▸ List.mem_map.mpr ⟨a, ha, rfl⟩) hnd.1
    · exact ih hnd.2 a ha b hb hab

/-- connecting, oldest first, the pending OPENs of one name: no fault; every subchannel keeps its
    `subTotal`, stays able to take DATA / CLOSE if it was, and entries of other names are untouched -/
theorem connectPending_inv (name : Bytes) : ∀ (po : List (Bytes × Nat)) (t : L4),
    (∀ p ∈ po, ∃ s, findSub p.2 t.subs = some s ∧ s.st = .unconnected) → (po.map (·.2)).Nodup →
    (connectPending name t po).fault = t.fault ∧ (connectPending name t po).factories = t.factories ∧
    (connectPending name t po).pendOpens = t.pendOpens ∧
    (∀ c, (∃ s, findSub c (connectPending name t po).subs = some s) ↔ ∃ s, findSub c t.subs = some s) ∧
    (∀ c s', findSub c (connectPending name t po).subs = some s' →
      ∃ s, findSub c t.subs = some s ∧ subTotal s' = subTotal s ∧ (openState s → openState s') ∧
        ((∀ p ∈ po, p.1 = name → p.2 ≠ c) → s' = s) ∧ s'.name = s.name ∧
        ((∃ p ∈ po, p.1 = name ∧ p.2 = c) → s'.st ≠ .unconnected)) := by
  intro po
  induction po with
  | nil =>
    intro t _ _
    exact ⟨rfl, rfl, rfl, fun c => Iff.rfl,
      fun c s' h => ⟨s', h, rfl, id, fun _ => rfl, rfl, fun ⟨p, hp, _⟩ => by cases hp⟩⟩
  | cons p rest ih =>
    intro t hp hnd
    obtain ⟨n, c0⟩ := p
    simp only [List.map_cons, List.nodup_cons] at hnd
    simp only [connectPending]
    by_cases hn : n = name
    · rw [if_pos hn]
      obtain ⟨s0, hs0, hu0⟩ := hp (n, c0) (by simp)
      obtain ⟨s1, k1, k2, k3, k4⟩ := connectSub_keeps s0 hu0
      obtain ⟨u1, u2, u3, u4, u5⟩ := upd_ok t c0 connectSub hs0 k1 (fun x x' hx => (connectSub_frame hx).1)
      have hp' : ∀ q ∈ rest, ∃ s, findSub q.2 (t.upd c0 connectSub).subs = some s ∧ s.st = .unconnected := by
        intro q hq
        obtain ⟨s, hs, hu⟩ := hp q (by simp [hq])
        have hne : c0 ≠ q.2 := fun h => hnd.1 (h ▸ List.mem_map.mpr ⟨q, hq, rfl⟩)
        exact ⟨s, by rw [u5 q.2 hne]; exact hs, hu⟩
      obtain ⟨i1, i2, i3, i4, i5⟩ := ih (t.upd c0 connectSub) hp' hnd.2
      refine ⟨by rw [i1, u1], by rw [i2, u2], by rw [i3, u3], ?_, ?_⟩
      · intro c
        rw [i4 c]
        by_cases hc : c0 = c
        · subst hc; exact ⟨fun _ => ⟨s0, hs0⟩, fun _ => ⟨s1, u4⟩⟩
        · rw [u5 c hc]
      · intro c s' hs'
        obtain ⟨s, j1, j2, j3, j4, j5, j6⟩ := i5 c s' hs'
        by_cases hc : c0 = c
        · subst hc
          rw [u4] at j1; cases j1
          have hsame : s' = s1 := j4 (fun q hq _ hq2 => hnd.1 (hq2 ▸ List.mem_map.mpr ⟨q, hq, rfl⟩))
          refine ⟨s0, hs0, by rw [j2, k2], fun h => j3 (k4 h), ?_, by rw [j5, (connectSub_frame k1).2], ?_⟩
          · intro hall
            exact absurd rfl (hall (n, c0) (by simp) hn)
          · intro _; rw [hsame]; exact k3
        · rw [u5 c hc] at j1
          refine ⟨s, j1, j2, j3, ?_, j5, ?_⟩
          · intro hall
            exact j4 (fun q hq => hall q (by simp [hq]))
          · rintro ⟨q, hq, hq1, hq2⟩
            simp only [List.mem_cons] at hq
            rcases hq with hq | hq
            · subst hq; exact absurd hq2 hc
            · exact j6 ⟨q, hq, hq1, hq2⟩
    · rw [if_neg hn]
      obtain ⟨i1, i2, i3, i4, i5⟩ := ih t (fun q hq => hp q (by simp [hq])) hnd.2
      refine ⟨i1, i2, i3, i4, ?_⟩
      intro c s' hs'
      obtain ⟨s, j1, j2, j3, j4, j5, j6⟩ := i5 c s' hs'
      refine ⟨s, j1, j2, j3, ?_, j5, ?_⟩
      · intro hall
        exact j4 (fun q hq => hall q (by simp [hq]))
      · rintro ⟨q, hq, hq1, hq2⟩
        simp only [List.mem_cons] at hq
        rcases hq with hq | hq
        · subst hq; exact absurd hq1 hn
        · exact j6 ⟨q, hq, hq1, hq2⟩

theorem lInv_listen {t : L4} {O C : List Nat} {D : List Rec} (H : LInv t O C D) (name : Bytes) :
    LInv (l4Listen t name) O C D := by
  unfold l4Listen
  obtain ⟨i1, i2, i3, i4, i5⟩ := connectPending_inv name t.pendOpens
    ({ t with factories := t.factories ++ [name], pendOpens := t.pendOpens.filter (fun p => p.1 != name) } : L4)
    H.pend H.nodup
  exact
    { nofault := by rw [i1]; exact H.nofault
      dom := by intro c; rw [i4 c]; exact H.dom c
      fresh := H.fresh
      tot := by
        intro c s' hs'
        obtain ⟨s, j1, j2, j3, _, _, _⟩ := i5 c s' hs'
        obtain ⟨t1, t2⟩ := H.tot c s j1
        exact ⟨by rw [j2, t1], fun h => j3 (t2 h)⟩
      pend := by
        intro p hp
        rw [i3] at hp
        have hp' : p ∈ t.pendOpens.filter (fun p => p.1 != name) := hp
        rw [List.mem_filter] at hp'
        obtain ⟨hmem, hne⟩ := hp'
        have hne : p.1 ≠ name := by simpa using hne
        obtain ⟨s, hs, hu⟩ := H.pend p hmem
        -- p's subchannel exists afterwards and is the same object: no entry of this name carries its id
        obtain ⟨s', hs'⟩ := (i4 p.2).mpr ⟨s, hs⟩
        obtain ⟨s2, j1, _, _, j4, _, _⟩ := i5 p.2 s' hs'
        have hj1 : findSub p.2 t.subs = some s2 := j1
        rw [hs] at hj1; cases hj1
        have hsame : s' = s := by
          apply j4
          intro q hq hqn hq2
          -- two entries with the same id are the same entry (Nodup), but their names differ
          have : q = p := by
            exact eq_of_nodup_map (·.2) t.pendOpens H.nodup q hq p hmem hq2
          rw [this] at hqn; exact hne hqn
        exact ⟨s, by rw [← hsame]; exact hs', hu⟩
      nodup := by
        rw [i3]
        show ((t.pendOpens.filter (fun p => p.1 != name)).map (·.2)).Nodup
        exact (List.filter_sublist.map _).nodup H.nodup
      wait := by
        intro c s' hs' hu
        obtain ⟨s, j1, _, _, j4, _, j6⟩ := i5 c s' hs'
        have j1' : findSub c t.subs = some s := j1
        rw [i2, i3]
        show s'.name ∉ t.factories ++ [name] ∧ (s'.name, c) ∈ t.pendOpens.filter (fun p => p.1 != name)
        by_cases hex : ∃ p ∈ t.pendOpens, p.1 = name ∧ p.2 = c
        · exact absurd hu (j6 hex)
        · have hsame : s' = s := j4 (fun q hq hq1 hq2 => hex ⟨q, hq, hq1, hq2⟩)
          subst hsame
          obtain ⟨w1, w2⟩ := H.wait c s' j1' hu
          have hne : s'.name ≠ name := fun h => hex ⟨(s'.name, c), w2, h, rfl⟩
          refine ⟨?_, ?_⟩
          · simp only [List.mem_append, List.mem_singleton, not_or]; exact ⟨w1, hne⟩
          · rw [List.mem_filter]; exact ⟨w2, by simpa using hne⟩ }

/-! ### whole runs -/

theorem l4Run_inv : ∀ (ins : List L4In) (t : L4) (O C : List Nat) (D : List Rec), LInv t O C D →
    wellFormed O C (dispatchedOf ins) = true →
    ∃ O' C', LInv (l4Run t ins) O' C' (D ++ dispatchedOf ins) := by
  intro ins
  induction ins with
  | nil => intro t O C D H _; exact ⟨O, C, by simpa [l4Run, dispatchedOf] using H⟩
  | cons i rest ih =>
    intro t O C D H hwf
    cases i with
    | listen n =>
      simp only [l4Run, dispatchedOf] at hwf ⊢
      exact ih _ O C D (lInv_listen H n) hwf
    | disp r =>
      simp only [l4Run, dispatchedOf] at hwf ⊢
      have hD : D ++ r :: dispatchedOf rest = (D ++ [r]) ++ dispatchedOf rest := by simp
      rw [hD]
      cases hb : r.body with
      | opn c name =>
        simp only [wellFormed, hb, Bool.and_eq_true, Bool.not_eq_eq_eq_not, Bool.not_true,
          List.contains_eq_mem, decide_eq_false_iff_not] at hwf
        exact ih _ (c :: O) C _ (lInv_open H r c name hb hwf.1) hwf.2
      | data c d =>
        simp only [wellFormed, hb, Bool.and_eq_true, Bool.not_eq_eq_eq_not, Bool.not_true,
          List.contains_eq_mem, decide_eq_true_eq, decide_eq_false_iff_not] at hwf
        exact ih _ O C _ (lInv_data H r c d hb hwf.1.1 hwf.1.2) hwf.2
      | close c =>
        simp only [wellFormed, hb, Bool.and_eq_true, Bool.not_eq_eq_eq_not, Bool.not_true,
          List.contains_eq_mem, decide_eq_true_eq, decide_eq_false_iff_not] at hwf
        exact ih _ O (c :: C) _ (lInv_close H r c hb hwf.1.1 hwf.1.2) hwf.2

theorem l4Run_append (t : L4) (xs ys : List L4In) : l4Run t (xs ++ ys) = l4Run (l4Run t xs) ys := by
  induction xs generalizing t with
  | nil => rfl
  | cons i rest ih => cases i <;> simp [l4Run, ih]

theorem dispatchedOf_append (xs ys : List L4In) : dispatchedOf (xs ++ ys) = dispatchedOf xs ++ dispatchedOf ys := by
  induction xs with
  | nil => rfl
  | cons i rest ih => cases i <;> simp [dispatchedOf, ih]

theorem shown_prefix_total (s : Sub) : s.shown <+: subTotal s := by
  unfold subTotal; exact List.prefix_append _ _

theorem total_eq_shown (s : Sub) (h : s.st ≠ .unconnected) : subTotal s = s.shown := by
  simp [subTotal, h]

/-! ### prefixes: a well-formed stream stays well-formed when cut, and `expect` is monotone -/

theorem wellFormed_prefix : ∀ (D E : List Rec) (O C : List Nat), wellFormed O C (D ++ E) = true →
    wellFormed O C D = true := by
  intro D
  induction D with
  | nil => intro _ _ _ _; rfl
  | cons r D ih =>
    intro E O C h
    simp only [List.cons_append, wellFormed] at h ⊢
    cases hb : r.body <;> rw [hb] at h <;> simp only [Bool.and_eq_true] at h ⊢
    · exact ⟨h.1, ih E _ _ h.2⟩
    · exact ⟨h.1, ih E _ _ h.2⟩
    · exact ⟨h.1, ih E _ _ h.2⟩

theorem expect_prefix (c : Nat) (D E : List Rec) : expect c D <+: expect c (D ++ E) := by
  rw [expect_append]; exact List.prefix_append _ _

end WV.Proofs.C10
