import WV.Proofs.C16_time

/-!
C16: the random source.  Ping ids are opaque tokens; the model compares them for equality only.  Nothing
here assumes that two draws differ.  What is proved:

* `IdInv`: every id in `_pings_outstanding` is below `nextPing` (the index a never-drawn value gets), for every
  id sequence the environment fixes (`Op.rnd`) — so a source that returns a value it never returned before
  (`draws = []`) can never trip the `Duplicate ping_id` assert (`fresh_of_no_draws`);
* what a duplicate id does (`expiry_duplicate`): the expiry callback raises `AssertionError` after the
  TrafficTimer has moved to `idle_traffic` and before the timer is re-armed; from then on the clock finds no
  timer (`advance_no_timer`) — the monitor is dead.
-/
namespace WV.Proofs.C16
open WV WV.Gen WV.C16

/-- every outstanding id has been drawn: it is below the index of the next never-drawn value -/
def IdInv (s : St) : Prop := ∀ p ∈ s.pings, p.id < s.nextPing

theorem idinv_congr {s s' : St} (h : IdInv s) (hp : s'.pings = s.pings) (hn : s'.nextPing = s.nextPing) :
    IdInv s' := by
  unfold IdInv at *; rw [hp, hn]; exact h

theorem idinv_andThen {r : Res} {f : St → Res} (hr : IdInv r.1) (hf : ∀ s, IdInv s → IdInv (f s).1) :
    IdInv (r.andThen f).1 := by
  obtain ⟨s, e⟩ := r
  cases e with
  | none => exact hf s hr
  | some e => exact hr

theorem idinv_sendPing {s : St} (h : IdInv s) : IdInv (sendPing s).1 := by
  rw [sendPing_eq]
  split
  · intro p hp
    simp only [pinged, List.mem_append, List.mem_singleton] at hp ⊢
    rcases hp with hp | hp
    · have := h p hp; omega
    · subst hp; simp only; omega
  · intro p hp
    simp only [afterDraw] at hp ⊢
    have := h p hp; omega

theorem idinv_sprt (cfg : Cfg) {s : St} (h : IdInv s) : IdInv (sendPingResetTimer cfg s).1 := by
  simp only [sendPingResetTimer]
  refine idinv_andThen (idinv_sendPing h) ?_
  intro s1 h1
  split
  · exact idinv_congr h1 rfl rfl
  · split
    · exact idinv_congr h1 rfl rfl
    · split
      · exact idinv_congr h1 rfl rfl
      · exact h1

theorem idinv_signal {s : St} (h : IdInv s) : IdInv (signalReconnect s) := by
  simp only [signalReconnect]; split
  · exact idinv_congr h rfl rfl
  · exact h

theorem idinv_ttOutputs (cfg : Cfg) (outs : List TrafficTimer.Output) :
    ∀ {s : St}, IdInv s → IdInv (ttOutputs cfg outs s).1 := by
  induction outs with
  | nil => intro s h; exact h
  | cons o r ih =>
    intro s h
    cases o
    · simp only [ttOutputs]; exact idinv_andThen (idinv_sprt cfg h) (fun _ h1 => ih h1)
    · simp only [ttOutputs]; exact ih (idinv_signal h)

theorem idinv_ttInput (cfg : Cfg) (i : TrafficTimer.Input) {s : St} (h : IdInv s) : IdInv (ttInput cfg i s).1 := by
  simp only [ttInput]
  split
  · exact h
  · split
    · exact h
    · exact idinv_ttOutputs cfg _ (idinv_congr h rfl rfl)

@[simp] theorem mgrOutputs_nextPing (b : Bool) (outs : List Manager.Output) (s : St) :
    (mgrOutputs b outs s).1.nextPing = s.nextPing := by
  induction outs generalizing s with
  | nil => rfl
  | cons o r ih =>
    simp only [mgrOutputs]
    cases o <;> simp [mgrOutput, ih]
    case abandon_connection =>
      cases hc : s.conn <;> simp [ih]

theorem mgrInput_nextPing (b : Bool) (i : Manager.Input) (s : St) : (mgrInput b i s).1.nextPing = s.nextPing := by
  simp only [mgrInput]
  split <;> simp

theorem idinv_mgrInput (b : Bool) (i : Manager.Input) {s : St} (h : IdInv s) : IdInv (mgrInput b i s).1 :=
  idinv_congr h (mgrInput_pings b i s) (mgrInput_nextPing b i s)

theorem subPause_nextPing (k : Nat) (s : St) : (subPause k s).nextPing = s.nextPing := by
  simp only [subPause]; split <;> rfl
theorem subResume_nextPing (k : Nat) (s : St) : (subResume k s).nextPing = s.nextPing := by
  simp only [subResume]; split <;> rfl

theorem idinv_stall (cfg : Cfg) (n : Nat) {s : St} (h : IdInv s) : IdInv (stall cfg n s).1 := by
  simp only [stall]
  split
  · split
    · exact idinv_ttInput cfg _ (idinv_congr h rfl rfl)
    · exact idinv_congr h rfl rfl
  · exact idinv_congr h rfl rfl

/-- `IdInv` is kept by every operation, whatever ids the environment fixes and whether or not it raises -/
theorem idinv_step (cfg : Cfg) {s : St} (o : Op) (h : IdInv s) : IdInv (step cfg s o).1 := by
  cases o with
  | tick => exact idinv_stall cfg 1 h
  | stall n => exact idinv_stall cfg n h
  | start => exact idinv_mgrInput _ _ h
  | please b => exact idinv_mgrInput _ _ h
  | stop => exact idinv_mgrInput _ _ (idinv_congr h rfl rfl)
  | reconnecting => exact idinv_mgrInput _ _ h
  | reconnect => exact idinv_mgrInput _ _ h
  | pause => exact idinv_congr h rfl rfl
  | resume => exact idinv_congr h rfl rfl
  | rnd ids => exact idinv_congr h rfl rfl
  | cpause k => exact idinv_congr h (subPause_pings k s) (subPause_nextPing k s)
  | cresume k => exact idinv_congr h (subResume_pings k s) (subResume_nextPing k s)
  | pong id =>
    simp only [step, gotPong]
    split
    · apply idinv_ttInput
      intro p hp
      simp only [List.mem_filter] at hp
      exact h p hp.1
    · exact h
  | made =>
    simp only [step, connMade]
    refine idinv_andThen ?_ ?_
    · split
      · apply idinv_ttInput
        split <;> exact idinv_congr h rfl rfl
      · exact idinv_congr h rfl rfl
    · intro s2 h2
      refine idinv_andThen (idinv_mgrInput _ _ h2) ?_
      intro s3 h3
      exact idinv_congr h3 rfl rfl
  | lost =>
    simp only [step, connLost]
    refine idinv_andThen ?_ ?_
    · split
      · exact idinv_ttInput _ _ h
      · exact h
    · intro s1 h1
      split
      · exact idinv_congr h1 rfl rfl
      · split <;> exact idinv_mgrInput _ _ (idinv_congr h1 rfl rfl)

theorem reach_idinv {cfg : Cfg} {s : St} (hr : Reach cfg s) : IdInv s := by
  induction hr with
  | init => intro p hp; simp [init] at hp
  | @step s0 s1 o _ h ih =>
    have := idinv_step cfg o ih
    rw [h] at this
    exact this

/-- a random source that returns a value it has never returned before cannot trip the assert -/
theorem fresh_of_no_draws {cfg : Cfg} {s : St} (hr : Reach cfg s) (hd : s.draws = []) : freshNext s = true := by
  have hi := reach_idinv hr
  simp only [freshNext_eq, hd, drawOf, hasId, Bool.not_eq_true', List.any_eq_false, beq_iff_eq]
  intro p hp he
  have := hi p hp
  omega

/-! ### the excluded point: a draw that equals an outstanding id -/

/-- the expiry callback in state `connected` with a duplicate id: `AssertionError`; the TrafficTimer is
    already `idle_traffic`, the id is consumed, nothing is registered or written, NO timer is armed -/
theorem expiry_duplicate {T : Nat} {s : St} (ht : s.traffic = some .connected) (hf : freshNext s = false) :
    timerExpired (Cfg.real T) s =
      ({ s with timer := none, traffic := some .idle_traffic, draws := s.draws.tail,
                nextPing := max s.nextPing (pingId s + 1) }, some .assertionError) := by
  simp only [freshNext_eq, Bool.not_eq_false'] at hf
  simp only [timerExpired, ttInput, ht, real_tbl]
  simp [TrafficTimer.table, ttOutputs, sprt_none, hf, afterDraw]

/-- without a timer the clock does nothing but advance: no Ping, no expiry, no drop, for ever -/
theorem advance_no_timer (cfg : Cfg) (n : Nat) :
    ∀ {s : St}, s.timer = none → advance cfg n s = ({ s with now := s.now + n }, none) := by
  induction n with
  | zero => intro s _; rfl
  | succ n ih =>
    intro s h
    have ht : tick cfg s = ({ s with now := s.now + 1 }, none) := by simp [tick, h]
    simp only [advance, ht]
    rw [ih (s := { s with now := s.now + 1 }) h]
    simp only [Nat.add_assoc, Nat.add_comm 1 n]

/-! ### witnesses used in `Props.C16` -/

/-- Leader connected at t = 0 with the random source fixed to return the same 4 bytes twice (T = 2): the Ping of
    `connector_connection_made` (never written, never answered, never retired) has id 0, and so will the next -/
def duplicateIdTrace : List Op := [.start, .please true, .rnd [0, 0], .made]

def duplicateIdState : St := (run (Cfg.real 2) init duplicateIdTrace).1

/-- T = 2: the random source returns 0, then 1 for every later Ping; every Ping 1 is answered one tick after it was
    sent, i.e. before 1 is drawn again -/
def repeatTrace : List Op :=
  [.start, .please true, .rnd [0, 1, 1, 1, 1], .made, .tick, .tick, .tick, .pong 1, .tick, .tick, .pong 1, .tick, .tick,
   .pong 1, .tick]

end WV.Proofs.C16
