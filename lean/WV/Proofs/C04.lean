import WV.Model.C04

/-! Helper lemmas for C04: the chunker, and an inductive invariant of the receiver under every
    sequence of events (records arriving, the consumer being attached, the connection going away). -/
namespace WV.Proofs.C04
open WV WV.C04

/-! ## sender -/

theorem chunksOf_flatten (k : Nat) (hk : 0 < k) :
    ∀ (fuel : Nat) (m : Bytes), m.length ≤ fuel → (chunksOf k fuel m).flatten = m := by
  intro fuel
  induction fuel with
  | zero =>
    intro m h
    have : m = [] := List.eq_nil_of_length_eq_zero (Nat.le_zero.mp h)
    subst this; rfl
  | succ n ih =>
    intro m h
    unfold chunksOf
    by_cases he : (m.take k).isEmpty = true
    · simp only [he, if_true, List.flatten_nil]
      have h0 : m.take k = [] := List.isEmpty_iff.mp he
      cases m with
      | nil => rfl
      | cons a t =>
        cases k with
        | zero => omega
        | succ k' => simp at h0
    · have hl : (m.drop k).length ≤ n := by simp [List.length_drop]; omega
      rw [if_neg he, List.flatten_cons, ih (m.drop k) hl]
      exact List.take_append_drop k m

theorem foldl_append_flatten (l : List Bytes) (acc : Bytes) :
    l.foldl (· ++ ·) acc = acc ++ l.flatten := by
  induction l generalizing acc with
  | nil => simp
  | cons a t ih => simp [List.foldl_cons, ih, List.append_assoc]

/-- whatever the size, the records are a chunking of the source and the hash covers exactly it -/
theorem sendFile_spec (k : Nat) (hk : 0 < k) (src : Bytes) :
    (sendFile k src).records.flatten = src ∧ (sendFile k src).hashed = src := by
  unfold sendFile
  by_cases h : src.length = 0
  · have : src = [] := List.eq_nil_of_length_eq_zero h
    subst this; simp
  · simp only [h, if_false]
    have := chunksOf_flatten k hk src.length src (Nat.le_refl _)
    refine ⟨this, ?_⟩
    rw [foldl_append_flatten, this]; simp

theorem flatten_prefix {a b : List Bytes} (h : a <+: b) : a.flatten <+: b.flatten := by
  obtain ⟨t, rfl⟩ := h
  simp [List.flatten_append]

theorem prefix_eq_of_length {a b : Bytes} (h : a <+: b) (hl : a.length = b.length) : a = b := by
  obtain ⟨t, rfl⟩ := h
  have : t.length = 0 := by rw [List.length_append] at hl; omega
  have : t = [] := List.eq_nil_of_length_eq_zero this
  subst this; simp

theorem fileWrite_end (sp r : Bytes) : fileWrite sp sp.length r = sp ++ r := by
  simp [fileWrite]

/-! ## receiver states by phase -/

/-- `_transfer_data` has not attached the consumer yet: records queue up -/
def idleSt {τ : Type} (x : Nat) (dm cl : Bool) (q : List Bytes) : Rx τ :=
  { xfersize := x, dirMode := dm, inbound := q, connLost := cl, tmpExists := !dm }

/-- the consumer is attached and has written `sp` -/
def actSt {τ : Type} (x : Nat) (dm cl : Bool) (sp : Bytes) (q : List Bytes) (st : Bool) : Rx τ :=
  { xfersize := x, dirMode := dm, inbound := q, consumer := true, written := sp.length, expected := some x,
    cdef := true, dfr := .waiting, connLost := cl, spool := sp, disk := sp, hashed := sp, tmpExists := !dm, started := st }

/-- the byte count has been reached: consumer detached, Deferred fired -/
def firedSt {τ : Type} (x : Nat) (dm cl : Bool) (sp : Bytes) (q : List Bytes) (st : Bool) : Rx τ :=
  { xfersize := x, dirMode := dm, inbound := q, consumer := false, written := sp.length, expected := none,
    cdef := false, dfr := .fired sp.length, connLost := cl, spool := sp, disk := sp, hashed := sp, tmpExists := !dm, started := st }

theorem writeToConsumer_act {τ : Type} (x : Nat) (dm cl : Bool) (sp r : Bytes) (q : List Bytes) (st : Bool) :
    writeToConsumer (actSt (τ := τ) x dm cl sp q st) r =
      if sp.length + r.length ≥ x then firedSt x dm cl (sp ++ r) q st else actSt x dm cl (sp ++ r) q st := by
  simp only [writeToConsumer, actSt, firedSt, List.length_append, fileWrite_end]

theorem drain_fired {τ : Type} (x : Nat) (dm cl : Bool) (sp : Bytes) (q q' : List Bytes) (st : Bool) :
    drain (firedSt (τ := τ) x dm cl sp q st) q' = firedSt x dm cl sp q' st := by
  cases q' <;> simp [drain, firedSt]

theorem drain_act {τ : Type} (x : Nat) (dm cl st : Bool) (q0 : List Bytes) :
    ∀ (q : List Bytes) (sp : Bytes), sp.length < x →
      ((sp ++ q.flatten).length < x ∧ drain (actSt (τ := τ) x dm cl sp q0 st) q = actSt x dm cl (sp ++ q.flatten) [] st) ∨
      (∃ q1 q2, q = q1 ++ q2 ∧ x ≤ (sp ++ q1.flatten).length ∧
        drain (actSt (τ := τ) x dm cl sp q0 st) q = firedSt x dm cl (sp ++ q1.flatten) q2 st) := by
  intro q
  induction q with
  | nil =>
    intro sp h
    left
    refine ⟨by simpa using h, ?_⟩
    simp [drain, actSt]
  | cons r rest ih =>
    intro sp h
    have hc : (actSt (τ := τ) x dm cl sp q0 st).consumer = true := rfl
    rw [drain, if_pos hc, writeToConsumer_act]
    by_cases hge : sp.length + r.length ≥ x
    · right
      refine ⟨[r], rest, by simp, by simp [List.length_append]; omega, ?_⟩
      rw [if_pos hge, drain_fired]; simp
    · rw [if_neg hge]
      have hlt : (sp ++ r).length < x := by simp [List.length_append]; omega
      rcases ih (sp ++ r) hlt with ⟨h1, h2⟩ | ⟨q1, q2, hq, hx, hd⟩
      · left
        refine ⟨by simpa [List.append_assoc] using h1, ?_⟩
        rw [h2]; simp [List.append_assoc]
      · right
        refine ⟨r :: q1, q2, by simp [hq], by simpa [List.append_assoc] using hx, ?_⟩
        rw [hd]; simp [List.append_assoc]

/-! ## the invariant -/

/-- `_parse_offer`'s Deferred has fired -/
structure Done {τ : Type} (H : Hash) (Z : Zip τ) (x : Nat) (dm : Bool) (rs : List Bytes) (l : Bool) (s : Rx τ) : Prop where
  xfer : s.xfersize = x
  mode : s.dirMode = dm
  started : s.started = true
  notPending : s.result ≠ .pending
  ok : s.result = .success →
        s.consumer = false ∧ s.hashed = s.spool ∧ s.spool.length = x ∧ s.spool <+: rs.flatten ∧
        s.acks = [.dict (some "ok") (.digest (H.sha s.spool))] ∧ s.tmpExists = false ∧
        (dm = false → s.final = some (.file s.spool)) ∧
        (dm = true → ∃ t, Z.unzip s.spool = some t ∧ s.final = some (.dir t))
  bad : ∀ e, s.result = .failed e →
        (e ≠ .badZipFile → s.final = none) ∧ s.acks = [] ∧ s.tmpExists = (!dm) ∧
        ((e = .connectionClosed ∧ l = true) ∨
         (e = .assertionError ∧ x < rs.flatten.length) ∨
         (e = .badZipFile ∧ dm = true ∧ ∃ sp, sp <+: rs.flatten ∧ sp.length = x ∧ Z.unzip sp = none))

/-- invariant of the receiver after events whose records are `rs`; `c` = a `connect` event has
    occurred, `l` = a `lost` event has occurred -/
inductive Inv {τ : Type} (H : Hash) (Z : Zip τ) (x : Nat) (dm : Bool) (rs : List Bytes) : Bool → Bool → Rx τ → Prop
  | idle (l : Bool) (q : List Bytes) (hq : q.flatten = rs.flatten) : Inv H Z x dm rs false l (idleSt x dm l q)
  | active (l cl : Bool) (sp : Bytes) (hlt : sp.length < x) (hs : sp = rs.flatten) :
      Inv H Z x dm rs true l (actSt x dm cl sp [] true)
  | done (l : Bool) (s : Rx τ) (h : Done H Z x dm rs l s) : Inv H Z x dm rs true l s

/-- the Deferred fires with the byte count reached: the rest of `_parse_offer` runs -/
theorem done_of_fired {τ : Type} (H : Hash) (Z : Zip τ) (x : Nat) (dm cl l : Bool) (sp : Bytes) (q rs : List Bytes)
    (hge : x ≤ sp.length) (hp : sp <+: rs.flatten) :
    Done H Z x dm rs l (resume H Z (firedSt (τ := τ) x dm cl sp q true)) := by
  have hlen : sp.length ≤ rs.flatten.length := hp.length_le
  by_cases hne : sp.length = x
  · cases dm with
    | false =>
      have : resume H Z (firedSt (τ := τ) x false cl sp q true) =
          closeTransit (writeFile (firedSt (τ := τ) x false cl sp q true)) (H.sha sp) := by
        simp [resume, transferTail, firedSt, hne]
      rw [this]
      constructor <;> simp [closeTransit, writeFile, firedSt, hne, hp]
    | true =>
      cases hz : Z.unzip sp with
      | none =>
        have : resume H Z (firedSt (τ := τ) x true cl sp q true) =
            { firedSt (τ := τ) x true cl sp q true with
              result := Outcome.failed Err.badZipFile, final := Option.map Node.dir (Z.partialTree sp) } := by
          simp [resume, transferTail, firedSt, hne, writeDirectory, hz]
        rw [this]
        constructor <;> simp [firedSt]
        exact ⟨sp, hp, hne, hz⟩
      | some t =>
        have : resume H Z (firedSt (τ := τ) x true cl sp q true) =
            closeTransit { firedSt (τ := τ) x true cl sp q true with final := some (.dir t) } (H.sha sp) := by
          simp [resume, transferTail, firedSt, hne, writeDirectory, hz]
        rw [this]
        constructor <;> simp [closeTransit, firedSt, hne, hp, hz]
  · have hgt : x < sp.length := by omega
    have : resume H Z (firedSt (τ := τ) x dm cl sp q true) =
        { firedSt (τ := τ) x dm cl sp q true with result := .failed .assertionError } := by
      have h1 : ¬ sp.length < x := by omega
      simp [resume, transferTail, firedSt, h1, hne]
    rw [this]
    constructor <;> simp [firedSt]
    rw [← List.length_flatten]; omega

/-! ### frame facts: what the Connection-level operations never touch -/

theorem recordReceived_frame {τ : Type} (s : Rx τ) (r : Bytes) :
    let s' := recordReceived s r
    s'.xfersize = s.xfersize ∧ s'.dirMode = s.dirMode ∧ s'.started = s.started ∧ s'.result = s.result ∧
    s'.final = s.final ∧ s'.acks = s.acks ∧ s'.tmpExists = s.tmpExists ∧ s'.closed = s.closed ∧
    s'.connLost = s.connLost ∧
    (s.consumer = false → s'.consumer = false ∧ s'.spool = s.spool ∧ s'.hashed = s.hashed) := by
  simp only [recordReceived]
  by_cases hc : s.consumer = true
  · simp only [hc, if_true, writeToConsumer]
    cases he : s.expected with
    | none => simp
    | some e =>
      simp only [he]
      split <;> simp
  · have hc' : s.consumer = false := by simpa using hc
    simp [hc']

theorem connectionLost_frame {τ : Type} (s : Rx τ) :
    let s' := connectionLost s
    s'.xfersize = s.xfersize ∧ s'.dirMode = s.dirMode ∧ s'.started = s.started ∧ s'.result = s.result ∧
    s'.final = s.final ∧ s'.acks = s.acks ∧ s'.tmpExists = s.tmpExists ∧ s'.closed = s.closed ∧
    s'.consumer = s.consumer ∧ s'.spool = s.spool ∧ s'.hashed = s.hashed := by
  simp only [connectionLost]
  split <;> simp

theorem resume_done {τ : Type} (H : Hash) (Z : Zip τ) (s : Rx τ) (h : s.result ≠ .pending) : resume H Z s = s := by
  unfold resume
  split
  · rename_i h1 h2; exact absurd h2 h
  · rfl

theorem done_record {τ : Type} (H : Hash) (Z : Zip τ) (x : Nat) (dm l : Bool) (rs : List Bytes) (s : Rx τ) (r : Bytes)
    (h : Done H Z x dm rs l s) : Done H Z x dm (rs ++ [r]) l (evRecord H Z s r) := by
  have hf := recordReceived_frame s r
  simp only at hf
  obtain ⟨f1, f2, f3, f4, f5, f6, f7, _, _, f10⟩ := hf
  have hnp : (recordReceived s r).result ≠ .pending := by rw [f4]; exact h.notPending
  unfold evRecord
  rw [resume_done H Z _ hnp]
  have hpre : ∀ sp : Bytes, sp <+: rs.flatten → sp <+: (rs ++ [r]).flatten := by
    intro sp hsp
    exact hsp.trans (by simp [List.flatten_append])
  have hlen : rs.flatten.length ≤ (rs ++ [r]).flatten.length := by simp [List.flatten_append]
  constructor
  · rw [f1]; exact h.xfer
  · rw [f2]; exact h.mode
  · rw [f3]; exact h.started
  · exact hnp
  · intro hs
    rw [f4] at hs
    obtain ⟨a1, a2, a3, a4, a5, a6, a7, a8⟩ := h.ok hs
    obtain ⟨g1, g2, g3⟩ := f10 a1
    rw [g1, g2, g3, f5, f6, f7]
    exact ⟨rfl, a2, a3, hpre _ a4, a5, a6, a7, a8⟩
  · intro e he
    rw [f4] at he
    obtain ⟨b1, b2, b3, b4⟩ := h.bad e he
    rw [f5, f6, f7]
    refine ⟨b1, b2, b3, ?_⟩
    rcases b4 with b | b | ⟨b, b', sp, c1, c2, c3⟩
    · exact Or.inl b
    · exact Or.inr (Or.inl ⟨b.1, by omega⟩)
    · exact Or.inr (Or.inr ⟨b, b', sp, hpre _ c1, c2, c3⟩)

theorem done_lost {τ : Type} (H : Hash) (Z : Zip τ) (x : Nat) (dm l : Bool) (rs : List Bytes) (s : Rx τ)
    (h : Done H Z x dm rs l s) : Done H Z x dm rs true (evLost H Z s) := by
  have hf := connectionLost_frame s
  simp only at hf
  obtain ⟨f1, f2, f3, f4, f5, f6, f7, _, f9, f10, f11⟩ := hf
  have hnp : (connectionLost s).result ≠ .pending := by rw [f4]; exact h.notPending
  unfold evLost
  rw [resume_done H Z _ hnp]
  constructor
  · rw [f1]; exact h.xfer
  · rw [f2]; exact h.mode
  · rw [f3]; exact h.started
  · exact hnp
  · intro hs
    rw [f4] at hs
    rw [f9, f10, f11, f5, f6, f7]
    exact h.ok hs
  · intro e he
    rw [f4] at he
    obtain ⟨b1, b2, b3, b4⟩ := h.bad e he
    rw [f5, f6, f7]
    refine ⟨b1, b2, b3, ?_⟩
    rcases b4 with b | b | b
    · exact Or.inl ⟨b.1, rfl⟩
    · exact Or.inr (Or.inl b)
    · exact Or.inr (Or.inr b)

theorem done_connect {τ : Type} (H : Hash) (Z : Zip τ) (x : Nat) (dm l : Bool) (rs : List Bytes) (s : Rx τ)
    (h : Done H Z x dm rs l s) : evConnect H Z s = s := by
  simp [evConnect, h.started]

/-! ### one step -/

theorem inv_record {τ : Type} (H : Hash) (Z : Zip τ) (x : Nat) (dm c l : Bool) (rs : List Bytes) (s : Rx τ) (r : Bytes)
    (h : Inv H Z x dm rs c l s) : Inv H Z x dm (rs ++ [r]) c l (evRecord H Z s r) := by
  cases h with
  | idle _ q hq =>
    have : evRecord H Z (idleSt (τ := τ) x dm l q) r = idleSt x dm l (q ++ [r]) := by
      simp [evRecord, recordReceived, idleSt, resume]
    rw [this]
    exact Inv.idle l _ (by simp [List.flatten_append, hq])
  | active _ cl sp hlt hs =>
    have hrr : recordReceived (actSt (τ := τ) x dm cl sp [] true) r = writeToConsumer (actSt x dm cl sp [] true) r := by
      simp [recordReceived, actSt]
    unfold evRecord
    rw [hrr, writeToConsumer_act]
    by_cases hge : sp.length + r.length ≥ x
    · rw [if_pos hge]
      apply Inv.done
      apply done_of_fired
      · simp [List.length_append]; omega
      · simp [List.flatten_append, hs]
    · rw [if_neg hge]
      have : resume H Z (actSt (τ := τ) x dm cl (sp ++ r) [] true) = actSt x dm cl (sp ++ r) [] true := by
        simp [resume, transferTail, actSt]
      rw [this]
      exact Inv.active l cl _ (by simp [List.length_append]; omega) (by simp [List.flatten_append, hs])
  | done _ s h => exact Inv.done l _ (done_record H Z x dm l rs s r h)

theorem inv_lost {τ : Type} (H : Hash) (Z : Zip τ) (x : Nat) (dm c l : Bool) (rs : List Bytes) (s : Rx τ)
    (h : Inv H Z x dm rs c l s) : Inv H Z x dm rs c true (evLost H Z s) := by
  cases h with
  | idle _ q hq =>
    have : evLost H Z (idleSt (τ := τ) x dm l q) = idleSt x dm true q := by
      simp [evLost, connectionLost, idleSt, resume]
    rw [this]
    exact Inv.idle true q hq
  | active _ cl sp hlt hs =>
    apply Inv.done
    have : evLost H Z (actSt (τ := τ) x dm cl sp [] true) =
        { actSt (τ := τ) x dm true sp [] true with dfr := .errback, result := .failed .connectionClosed } := by
      simp [evLost, connectionLost, actSt, resume, transferTail]
    rw [this]
    constructor <;> simp [actSt]
  | done _ s h => exact Inv.done true _ (done_lost H Z x dm l rs s h)

theorem inv_connect {τ : Type} (H : Hash) (Z : Zip τ) (x : Nat) (dm c l : Bool) (rs : List Bytes) (s : Rx τ)
    (h : Inv H Z x dm rs c l s) : Inv H Z x dm rs true l (evConnect H Z s) := by
  cases h with
  | idle _ q hq =>
    have hstart : evConnect H Z (idleSt (τ := τ) x dm l q) =
        resume H Z { (connectConsumer (idleSt (τ := τ) x dm l q) x) with started := true } := by
      simp [evConnect, idleSt]
    rw [hstart]
    by_cases hx : x = 0
    · subst hx
      have : connectConsumer (idleSt (τ := τ) 0 dm l q) 0 = firedSt 0 dm l [] q false := by
        have h1 : connectConsumer (idleSt (τ := τ) 0 dm l q) 0 =
            drain (writeToConsumer (actSt (τ := τ) 0 dm l [] q false) []) q := by
          simp [connectConsumer, idleSt, actSt, writeToConsumer]
        rw [h1, writeToConsumer_act]
        simp [drain_fired]
      rw [this]
      have : ({ firedSt (τ := τ) 0 dm l [] q false with started := true } : Rx τ) = firedSt 0 dm l [] q true := rfl
      rw [this]
      exact Inv.done l _ (done_of_fired H Z 0 dm l l [] q rs (Nat.le_refl _) (List.nil_prefix))
    · have h1 : connectConsumer (idleSt (τ := τ) x dm l q) x = drain (actSt (τ := τ) x dm l [] q false) q := by
        simp [connectConsumer, idleSt, actSt, hx]
      rw [h1]
      have hpos : ([] : Bytes).length < x := by simp; omega
      rcases drain_act (τ := τ) x dm l false q q [] hpos with ⟨h2, h3⟩ | ⟨q1, q2, hq12, hxle, hd⟩
      · rw [h3]
        have : resume H Z ({ actSt (τ := τ) x dm l ([] ++ q.flatten) [] false with started := true } : Rx τ) =
            actSt x dm l q.flatten [] true := by
          simp [resume, transferTail, actSt]
        rw [this]
        exact Inv.active l l _ (by simpa using h2) hq
      · rw [hd]
        have : ({ firedSt (τ := τ) x dm l ([] ++ q1.flatten) q2 false with started := true } : Rx τ) =
            firedSt x dm l q1.flatten q2 true := by simp [firedSt]
        rw [this]
        apply Inv.done
        apply done_of_fired
        · simpa using hxle
        · rw [← hq, hq12]; simp [List.flatten_append]
  | active _ cl sp hlt hs =>
    have : evConnect H Z (actSt (τ := τ) x dm cl sp [] true) = actSt x dm cl sp [] true := by
      simp [evConnect, actSt]
    rw [this]
    exact Inv.active l cl sp hlt hs
  | done _ s h =>
    rw [done_connect H Z x dm l rs s h]
    exact Inv.done l s h

/-! ### any run -/

def sawConnect : List Ev → Bool
  | [] => false
  | .connect :: _ => true
  | _ :: es => sawConnect es

def sawLost : List Ev → Bool
  | [] => false
  | .lost :: _ => true
  | _ :: es => sawLost es

theorem inv_foldl {τ : Type} (H : Hash) (Z : Zip τ) (x : Nat) (dm : Bool) :
    ∀ (evs : List Ev) (rs : List Bytes) (c l : Bool) (s : Rx τ), Inv H Z x dm rs c l s →
      Inv H Z x dm (rs ++ records evs) (c || sawConnect evs) (l || sawLost evs) (evs.foldl (evStep H Z) s) := by
  intro evs
  induction evs with
  | nil => intro rs c l s h; simpa [records, sawConnect, sawLost] using h
  | cons e es ih =>
    intro rs c l s h
    cases e with
    | record r =>
      have := ih (rs ++ [r]) c l _ (inv_record H Z x dm c l rs s r h)
      simpa [records, sawConnect, sawLost, evStep, List.append_assoc] using this
    | connect =>
      have := ih rs true l _ (inv_connect H Z x dm c l rs s h)
      simpa [records, sawConnect, sawLost, evStep] using this
    | lost =>
      have := ih rs c true _ (inv_lost H Z x dm c l rs s h)
      simpa [records, sawConnect, sawLost, evStep] using this

theorem inv_run {τ : Type} (H : Hash) (Z : Zip τ) (x : Nat) (dm : Bool) (stale : Option Bytes) (evs : List Ev) :
    Inv H Z x dm (records evs) (sawConnect evs) (sawLost evs) (runRx (τ := τ) H Z x dm stale evs) := by
  have h0 : Inv H Z x dm [] false false (rxOpen (τ := τ) x dm stale) := Inv.idle false [] rfl
  have := inv_foldl H Z x dm evs [] false false _ h0
  simpa [runRx] using this


/-! ### reading the invariant -/

theorem inv_pending {τ : Type} {H : Hash} {Z : Zip τ} {x : Nat} {dm c l : Bool} {rs : List Bytes} {s : Rx τ}
    (h : Inv H Z x dm rs c l s) (hp : s.result = .pending) :
    s.final = none ∧ s.acks = [] ∧ s.tmpExists = (!dm) := by
  cases h with
  | idle _ q hq => simp [idleSt]
  | active _ cl sp hlt hs => simp [actSt]
  | done _ s h => exact absurd hp h.notPending

theorem inv_done {τ : Type} {H : Hash} {Z : Zip τ} {x : Nat} {dm c l : Bool} {rs : List Bytes} {s : Rx τ}
    (h : Inv H Z x dm rs c l s) (hp : s.result ≠ .pending) : Done H Z x dm rs l s := by
  cases h with
  | idle _ q hq => simp [idleSt] at hp
  | active _ cl sp hlt hs => simp [actSt] at hp
  | done _ s h => exact h

/-- with fewer than `x` bytes delivered the receiver is still waiting or has failed on the loss -/
theorem inv_short {τ : Type} {H : Hash} {Z : Zip τ} {x : Nat} {dm c l : Bool} {rs : List Bytes} {s : Rx τ}
    (h : Inv H Z x dm rs c l s) (hshort : rs.flatten.length < x) :
    s.result = .pending ∨ s.result = .failed .connectionClosed := by
  by_cases hp : s.result = .pending
  · exact Or.inl hp
  · right
    have hd := inv_done h hp
    cases hr : s.result with
    | pending => exact absurd hr hp
    | success =>
      obtain ⟨_, _, a3, a4, _⟩ := hd.ok hr
      have := a4.length_le
      omega
    | failed e =>
      obtain ⟨_, _, _, b4⟩ := hd.bad e hr
      rcases b4 with b | b | ⟨_, _, sp, c1, c2, _⟩
      · rw [b.1]
      · omega
      · have := c1.length_le
        omega

theorem inv_started_lost {τ : Type} {H : Hash} {Z : Zip τ} {x : Nat} {dm c l : Bool} {rs : List Bytes} {s : Rx τ}
    (h : Inv H Z x dm rs c l s) (hst : s.started = true) (hshort : rs.flatten.length < x) :
    (evLost H Z s).result = .failed .connectionClosed := by
  have hshort' := inv_short h hshort
  cases h with
  | idle _ q hq => simp [idleSt] at hst
  | active _ cl sp hlt hs => simp [evLost, connectionLost, actSt, resume, transferTail]
  | done _ s h =>
    have hnp : (connectionLost s).result ≠ .pending := by
      rw [(connectionLost_frame s).2.2.2.1]; exact h.notPending
    unfold evLost
    rw [resume_done H Z _ hnp, (connectionLost_frame s).2.2.2.1]
    rcases hshort' with hp | hf
    · exact absurd hp h.notPending
    · exact hf

/-- every byte delivered, the consumer attached at some point, the connection never lost:
    the receiver has finished, and the only way to fail is an archive the extraction refuses -/
theorem inv_complete {τ : Type} {H : Hash} {Z : Zip τ} {x : Nat} {dm c l : Bool} {rs : List Bytes} {s : Rx τ}
    (h : Inv H Z x dm rs c l s) (hc : c = true) (hl : l = false) (hx : rs.flatten.length = x) :
    s.result = .success ∨ (s.result = .failed .badZipFile ∧ dm = true ∧ Z.unzip rs.flatten = none) := by
  cases h with
  | idle _ q hq => exact absurd hc (by simp)
  | active _ cl sp hlt hs => subst hs; omega
  | done _ s h =>
    cases hr : s.result with
    | pending => exact absurd hr h.notPending
    | success => exact Or.inl rfl
    | failed e =>
      right
      obtain ⟨_, _, _, b4⟩ := h.bad e hr
      rcases b4 with b | b | ⟨b, b', sp, c1, c2, c3⟩
      · rw [hl] at b; exact absurd b.2 (by simp)
      · omega
      · have : sp = rs.flatten := prefix_eq_of_length c1 (by omega)
        subst this
        exact ⟨by rw [b], b', c3⟩

theorem inv_started {τ : Type} {H : Hash} {Z : Zip τ} {x : Nat} {dm c l : Bool} {rs : List Bytes} {s : Rx τ}
    (h : Inv H Z x dm rs c l s) (hc : c = true) : s.started = true := by
  cases h with
  | idle _ q hq => exact absurd hc (by simp)
  | active _ cl sp hlt hs => rfl
  | done _ s h => exact h.started

/-- without a reported loss the receiver cannot have failed with ConnectionClosed -/
theorem inv_short_nolost {τ : Type} {H : Hash} {Z : Zip τ} {x : Nat} {dm c l : Bool} {rs : List Bytes} {s : Rx τ}
    (h : Inv H Z x dm rs c l s) (hshort : rs.flatten.length < x) (hl : l = false) : s.result = .pending := by
  rcases inv_short h hshort with hp | hf
  · exact hp
  · have hd := inv_done h (by rw [hf]; simp)
    obtain ⟨_, _, _, b4⟩ := hd.bad _ hf
    rcases b4 with b | b | b
    · rw [hl] at b; exact absurd b.2 (by simp)
    · exact absurd b.1 (by simp)
    · exact absurd b.1 (by simp)

theorem runRx_append {τ : Type} (H : Hash) (Z : Zip τ) (x : Nat) (dm : Bool) (stale : Option Bytes) (evs : List Ev) (e : Ev) :
    runRx (τ := τ) H Z x dm stale (evs ++ [e]) = evStep H Z (runRx H Z x dm stale evs) e := by
  simp [runRx, List.foldl_append]

end WV.Proofs.C04
