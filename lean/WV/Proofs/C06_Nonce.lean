import WV.Model.C06
import WV.Proofs.C06
import WV.Proofs.C06_App
import WV.Proofs.C06_Inv

/-! The nonce discipline, byte by byte, and what a stream that leaves the honest one at any byte
    does. -/
namespace WV.C06
open WV

/-- byte strings as Python has them: every element is a byte -/
def WFBytes (l : Bytes) : Prop := ∀ x ∈ l, x < 256

theorem beFixed_beDecode_rev : ∀ (r : Bytes), WFBytes r → beFixed r.length (beDecode r.reverse) = r.reverse := by
  intro r
  induction r with
  | nil => intro _; rfl
  | cons d r ih =>
    intro h
    have hd : d < 256 := h d (by simp)
    have hr : WFBytes r := fun x hx => h x (by simp [hx])
    simp only [List.reverse_cons, List.length_cons]
    rw [beDecode_snoc, beFixed]
    have h1 : (beDecode r.reverse * 256 + d) / 256 = beDecode r.reverse := by omega
    have h2 : (beDecode r.reverse * 256 + d) % 256 = d := by omega
    rw [h1, h2, ih hr]

/-- big-endian decoding is injective on byte strings of a given length: re-encoding gives the bytes back -/
theorem beFixed_beDecode (l : Bytes) (h : WFBytes l) : beFixed l.length (beDecode l) = l := by
  have := beFixed_beDecode_rev l.reverse (by intro x hx; exact h x (by simpa using hx))
  simpa using this

/-- **nonce discipline.**  Whatever `_decrypt_record` accepts when the counter is `rn` carries, in its
    first `NONCE_SIZE` bytes, exactly the big-endian encoding of `rn` — every one of the 24 bytes, not
    just the low-order ones; no assumption on the box. -/
theorem accepted_nonce_is_counter_core (E : Env) (b : Bool) (rn : Nat) (enc r : Bytes)
    (h : verdict E b rn enc = .ok r) (hwf : WFBytes (enc.take Gen.C06.NONCE_SIZE)) :
    enc.take Gen.C06.NONCE_SIZE = beFixed Gen.C06.NONCE_SIZE rn := by
  obtain ⟨h1, h2, _⟩ := verdict_ok h
  have := beFixed_beDecode (enc.take 24) hwf
  rw [h2, h1] at this
  exact this.symm

/-- under the ideal-AEAD hypothesis the whole accepted blob — nonce, MAC, ciphertext — is the one the
    sender made for this position: any byte altered anywhere in it means rejection -/
theorem accepted_is_honest_blob (E : Env) (b : Bool) (rs : List Bytes) (j : Nat) (e r : Bytes)
    (hid : IdealFor E.box (receiverRecordKey E b) rs) (hcount : rs.length ≤ 256 ^ 24)
    (h : verdict E b j e = .ok r) :
    ∃ hj : j < rs.length, e = blob E (receiverRecordKey E b) j rs[j] ∧ r = rs[j] := by
  obtain ⟨h1, _, h3⟩ := verdict_ok h
  obtain ⟨i, hi, g1, g2, g3⟩ := hid.only _ _ _ h3
  have hi' : i < 256 ^ 24 := by omega
  rw [g1, beDecode_beFixed_lt hi'] at h1
  subst h1
  refine ⟨hi, ?_, g2⟩
  have : e = e.take 24 ++ e.drop 24 := (List.take_append_drop 24 e).symm
  rw [this, g3, g1, g2]
  rfl

/-! ## a stream that leaves the honest one -/

theorem parseFrame_reassemble {buf e r : Bytes} (h : parseFrame buf = some (e, r)) (hwf : WFBytes buf) :
    buf = frame e ++ r := by
  obtain ⟨_, hle, he, hr⟩ := parseFrame_some h
  have h4 : (buf.take 4).length = 4 := by simp; omega
  have hwf4 : WFBytes (buf.take 4) := fun x hx => hwf x (List.mem_of_mem_take hx)
  have hlen : e.length = beDecode (buf.take 4) := by rw [he]; simp; omega
  have hpre : beFixed 4 e.length = buf.take 4 := by
    rw [hlen]
    have := beFixed_beDecode (buf.take 4) hwf4
    rw [h4] at this
    exact this
  unfold frame
  rw [hpre, he, hr]
  have h1 : List.take (beDecode (List.take 4 buf)) (List.drop 4 buf) ++ List.drop (4 + beDecode (List.take 4 buf)) buf
      = List.drop 4 buf := by
    rw [← List.drop_drop]
    exact List.take_append_drop _ _
  rw [List.append_assoc, h1, List.take_append_drop]

/-- after an honest prefix, bytes that do not yet hold a complete frame: the loop stops and waits -/
theorem wait_at (E : Env) (c : Conn) (rs : List Bytes) (i : Nat) (rest : Bytes)
    (hst : c.state = .records) (hbuf : c.buf = []) (hn : c.nextReceiveNonce = i)
    (hcount : i + rs.length ≤ 256 ^ 24) (hsz : SizesOK rs)
    (hlen : ∀ n m, (E.box.enc (receiverRecordKey E c.isSender) n m).length = m.length + 16)
    (hopen : ∀ j (h : j < rs.length), E.box.dec (receiverRecordKey E c.isSender) (beFixed 24 (i + j))
        (E.box.enc (receiverRecordKey E c.isSender) (beFixed 24 (i + j)) rs[j]) = some rs[j])
    (hp : parseFrame rest = none) (x : Bytes) (cs : List Bytes)
    (hwire : x ++ cs.flatten = wireOf E (receiverRecordKey E c.isSender) i rs ++ rest) :
    feed E c (x :: cs) =
      { c with buf := rest, nextReceiveNonce := i + rs.length, app := rs.foldl recordReceived c.app } := by
  rw [feed_cons_eq, hwire, dataReceived_records E hst]
  have hc : ({ c with buf := c.buf ++ (wireOf E (receiverRecordKey E c.isSender) i rs ++ rest) } : Conn)
      = { c with buf := wireOf E (receiverRecordKey E c.isSender) i rs ++ rest } := by
    rw [hbuf]; rfl
  rw [hc, rx_honest E rest rs i c hn hcount hsz hlen hopen, rx_unfold]
  simp only [hp]

/-- After the honest frames of `rs.take j` the stream goes on with `rest`, which does *not* begin
    with the honest frame `j` (it differs from it somewhere, or `j = |rs|`).  Then, in any chunking and
    into any application state: exactly `rs.take j` is handed on — never record `j` or anything later —
    and as soon as `rest` holds a complete frame the connection is hung up. -/
theorem diverging_stream_core (E : Env) (b : Bool) (rs : List Bytes) (hcount : rs.length ≤ 256 ^ 24)
    (hsz : SizesOK rs) (hid : IdealFor E.box (receiverRecordKey E b) rs)
    (j : Nat) (hj : j ≤ rs.length) (rest : Bytes) (hwf : WFBytes rest)
    (hdiv : ∀ h : j < rs.length, ¬ (frame (blob E (receiverRecordKey E b) j rs[j]) <+: rest))
    (app0 : App) (h0 : ConsInv app0) (x : Bytes) (cs : List Bytes)
    (hwire : x ++ cs.flatten = wireOf E (receiverRecordKey E b) 0 (rs.take j) ++ rest) :
    (feed E { Conn.init b with app := app0 } (x :: cs)).app.surfaced = app0.surfaced ++ rs.take j ∧
    ((parseFrame rest).isSome = true → (feed E { Conn.init b with app := app0 } (x :: cs)).state = .hungUp) ∧
    ((parseFrame rest).isSome = false → (feed E { Conn.init b with app := app0 } (x :: cs)).state = .records ∧
        (feed E { Conn.init b with app := app0 } (x :: cs)).buf = rest) := by
  have hlen : (rs.take j).length = j := by simp [List.length_take]; omega
  have hfold := foldl_recordReceived_spec (rs.take j) app0 h0
  cases hp : parseFrame rest with
  | none =>
    -- nothing complete follows: the loop stops after the honest prefix and waits
    have hw := wait_at E { Conn.init b with app := app0 } (rs.take j) 0 rest rfl rfl rfl
      (by rw [hlen]; omega) (fun r hr => hsz r (List.mem_of_mem_take hr)) (fun n m => hid.len_enc n m)
      (by
        intro i hi
        have hi' : i < rs.length := by rw [hlen] at hi; omega
        have h1 := hid.opens i hi'
        have h2 : (rs.take j)[i] = rs[i] := by simp [List.getElem_take]
        rw [h2, Nat.zero_add]
        exact h1)
      hp x cs hwire
    rw [hw]
    exact ⟨hfold.1, fun h => by simp at h, fun _ => ⟨rfl, rfl⟩⟩
  | some p =>
    obtain ⟨e, tail⟩ := p
    have hre := parseFrame_reassemble hp hwf
    have he : e.length < 256 ^ 4 := by
      obtain ⟨_, hle, he', _⟩ := parseFrame_some hp
      have h4 : (rest.take 4).length = 4 := by simp; omega
      have : e.length = beDecode (rest.take 4) := by rw [he']; simp; omega
      rw [this, ← beFixed_beDecode (rest.take 4) (fun x hx => hwf x (List.mem_of_mem_take hx)), h4,
        beDecode_beFixed]
      exact Nat.mod_lt _ (by decide)
    have hbad : ∀ h : j < rs.length, e ≠ blob E (receiverRecordKey E b) j rs[j] := by
      intro h heq
      apply hdiv h
      rw [hre, heq]
      exact List.prefix_append _ _
    obtain ⟨err, herr⟩ := unsealed_rejected E b rs j e hid hcount hbad
    have hd := drop_at E { Conn.init b with app := app0 } (rs.take j) 0 e tail err rfl rfl rfl
      (by rw [hlen]; omega) (fun r hr => hsz r (List.mem_of_mem_take hr))
      (fun n m => hid.len_enc n m)
      (by
        intro i hi
        have hi' : i < rs.length := by rw [hlen] at hi; omega
        have h1 := hid.opens i hi'
        have h2 : (rs.take j)[i] = rs[i] := by simp [List.getElem_take]
        rw [h2, Nat.zero_add]
        exact h1)
      he (by rw [hlen, Nat.zero_add]; exact herr) x cs (by rw [hwire, hre]; rfl)
    obtain ⟨d1, _, _, d4⟩ := hd
    refine ⟨?_, fun _ => d1, fun h => by simp at h⟩
    rw [d4, emit_lose_surfaced]
    exact hfold.1

/-- one byte of the honest frame `j` replaced by another value: the altered frame does not begin
    with the honest one -/
theorem altered_frame_diverges (F tail : Bytes) (q v : Nat) (hq : q < F.length) (hv : v ≠ F[q]) :
    ¬ (F <+: F.set q v ++ tail) := by
  intro h
  obtain ⟨t, ht⟩ := h
  have h1 : (F ++ t)[q]? = (F.set q v ++ tail)[q]? := by rw [ht]
  rw [List.getElem?_append_left hq, List.getElem?_append_left (by simpa using hq)] at h1
  simp [List.getElem?_set, hq] at h1
  exact hv h1.symm

end WV.C06
