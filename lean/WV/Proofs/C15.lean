import WV.Model.C15
import Mathlib.Data.List.Basic
import Mathlib.Logic.Function.Iterate

/-! Helper definitions and lemmas for the C15 theorems: the environment hypothesis, reachability
    over micro-steps, the monitor of producer signals, and the inductive invariant. -/
namespace WV.Proofs.C15
open WV WV.C15

theorem List.nodup_singleton' (a : Nat) : [a].Nodup := by simp

/-! ## environment -/

/-- what the environment promises when it performs `op` in state `o`:
    a producer object is registered on at most one subchannel at a time, and the Manager
    alternates `use_connection` / `stop_using_connection` -/
def opOK (o : Out) : Op → Prop
  | .reg _ p _ => p ∉ o.allp
  | .use => o.conn = false
  | .stop => o.conn = true
  -- an application push producer's `resumeProducing()` (and the transport's own code) does not raise;
  -- a *pull* producer's may (its subchannel was closed locally): that is `_pull`'s error path
  | .failWrite => False
  | _ => True

def stepOK (c : Cfg) : Prop :=
  match c.stack with
  | .ops (op :: _) :: _ => opOK c.o op
  | .pull _ (.failWrite :: _) :: _ => True
  | .pull _ (op :: _) :: _ => opOK c.o op
  | _ => True

/-- every configuration (quiescent or in the middle of any nest of turns) that the code can be in -/
inductive Reach : Cfg → Prop
  | init : Reach {}
  | call {c : Cfg} (op : Op) (scripts : List (List Op)) : Reach c → c.stack = [] → Reach (start c op scripts)
  | step {c : Cfg} : Reach c → c.stack ≠ [] → stepOK c → Reach (step c)

/-! ## the monitor of producer signals -/

inductive St where
  | absent | producing | paused
  deriving DecidableEq, Repr

def upd (m : Nat → St) (p : Nat) (s : St) : Nat → St := fun q => if q = p then s else m q

/-- a registration starts in `producing`; `pause` is legal only on a producing producer, `resume`
    only on a paused one: the monitor rejects the same signal twice in a row, a `resume` as first
    signal, and any signal to a producer that is not registered -/
def monStep (m : Nat → St) : Ev → Option (Nat → St)
  | .reg p => if m p = .absent then some (upd m p .producing) else none
  | .unreg p => if m p = .absent then none else some (upd m p .absent)
  | .pause p => if m p = .producing then some (upd m p .paused) else none
  | .resume p => if m p = .paused then some (upd m p .producing) else none
  | _ => some m

/-- run the monitor over a log (newest first) -/
def mon : List Ev → Option (Nat → St)
  | [] => some (fun _ => .absent)
  | e :: l => (mon l).bind (fun m => monStep m e)

/-- what `Outbound`'s own sets say about producer `p` -/
def stat (o : Out) (p : Nat) : St :=
  if p ∈ o.pausedSet then .paused else if p ∈ o.unpausedSet then .producing else .absent

/-! ## the invariant -/

structure InvO (o : Out) : Prop where
  part : ∀ x, x ∈ o.allp ↔ (x ∈ o.pausedSet ∨ x ∈ o.unpausedSet)
  disj : ∀ x, x ∈ o.pausedSet → x ∉ o.unpausedSet
  nodup : o.allp.Nodup
  allPaused : o.paused = true → ∀ x, x ∉ o.unpausedSet
  order : o.allp.Pairwise (fun x y => x ∈ o.unpausedSet → y ∈ o.unpausedSet)
  scpVals : ∀ x, x ∈ o.allp ↔ x ∈ o.scp.map Prod.snd
  scpK : (o.scp.map Prod.fst).Nodup
  scpV : (o.scp.map Prod.snd).Nodup
  connUnsent : o.conn = false → o.unsent = []

def Wake (c : Cfg) : Prop := c.o.paused = false → c.o.pausedSet ≠ [] → Frame.loop ∈ c.stack

def isInternal : Exn → Prop
  | .dupRegister => False
  | .noProducer => False
  | _ => True

def NoErr (l : List Ev) : Prop := ∀ e, Ev.exc e ∈ l → ¬ isInternal e

def MonOK (c : Cfg) : Prop := ∃ m, mon c.log = some m ∧ ∀ p, m p = stat c.o p

structure Inv (c : Cfg) : Prop where
  o : InvO c.o
  wake : Wake c
  noerr : NoErr c.log
  mon : MonOK c

/-! ## sets -/

@[simp] theorem mem_sAdd {x y : Nat} {l : List Nat} : x ∈ sAdd y l ↔ x = y ∨ x ∈ l := by
  unfold sAdd; split <;> simp_all

@[simp] theorem mem_sDel {x y : Nat} {l : List Nat} : x ∈ sDel y l ↔ x ∈ l ∧ x ≠ y := by
  simp [sDel]

theorem checkInv_of (o : Out) (h : InvO o) : checkInv o = true := by
  simp only [checkInv, Bool.and_eq_true, List.all_eq_true, List.mem_append, Bool.or_eq_true,
    List.contains_iff_mem, Bool.not_eq_true']
  refine ⟨?_, ?_, ?_⟩
  · intro x hx
    have := h.disj x
    simp only [List.contains_eq_mem, decide_eq_false_iff_not]
    intro hp; exact this hp hx
  · intro x hx; simpa using (h.part x).2 hx
  · intro x hx; simpa using (h.part x).1 hx

/-! ## NoErr / monitor bookkeeping -/

theorem noErr_cons {l : List Ev} {e : Ev} (h : NoErr l) (he : ∀ x, e = .exc x → ¬ isInternal x) : NoErr (e :: l) := by
  intro x hx
  rcases List.mem_cons.1 hx with h1 | h1
  · exact he x h1.symm
  · exact h x h1

theorem mon_cons_other {l : List Ev} {e : Ev} {m : Nat → St} (h : mon l = some m)
    (he : monStep m e = some m) : mon (e :: l) = some m := by
  simp [mon, h, he]

/-! ## `pauseProducing` -/

/-- the fields `pauseProducing` never touches -/
structure SameBut (c c' : Cfg) : Prop where
  allp : c'.o.allp = c.o.allp
  scp : c'.o.scp = c.o.scp
  pulls : c'.o.pulls = c.o.pulls
  conn : c'.o.conn = c.o.conn
  unsent : c'.o.unsent = c.o.unsent
  queue : c'.o.queue = c.o.queue
  stack : c'.stack = c.stack
  scripts : c'.scripts = c.scripts

theorem stat_move_paused (o : Out) (p q : Nat) (P U : List Nat) (hP : P = sAdd p o.pausedSet) (hU : U = sDel p o.unpausedSet) :
    stat { o with pausedSet := P, unpausedSet := U } q = if q = p then .paused else stat o q := by
  subst hP hU
  by_cases h : q = p
  · subst h; simp [stat]
  · simp [stat, h]

theorem pauseLoop_spec (ps : List Nat) (c : Cfg)
    (hd : ∀ x, x ∈ c.o.pausedSet → x ∉ c.o.unpausedSet) (hm : MonOK c) (hn : NoErr c.log) :
    SameBut c (pauseLoop ps c) ∧ (pauseLoop ps c).o.paused = c.o.paused ∧
    (∀ x, x ∈ (pauseLoop ps c).o.pausedSet ↔ x ∈ c.o.pausedSet ∨ (x ∈ ps ∧ x ∈ c.o.unpausedSet)) ∧
    (∀ x, x ∈ (pauseLoop ps c).o.unpausedSet ↔ x ∈ c.o.unpausedSet ∧ x ∉ ps) ∧
    MonOK (pauseLoop ps c) ∧ NoErr (pauseLoop ps c).log := by
  induction ps generalizing c with
  | nil => exact ⟨⟨rfl, rfl, rfl, rfl, rfl, rfl, rfl, rfl⟩, rfl, by simp [pauseLoop], by simp [pauseLoop], hm, hn⟩
  | cons p ps ih =>
    simp only [pauseLoop]
    split
    · rename_i hp
      have hpP : p ∉ c.o.pausedSet := fun h => hd p h hp
      obtain ⟨m, hm1, hm2⟩ := hm
      have := ih { c with o := { c.o with unpausedSet := sDel p c.o.unpausedSet, pausedSet := sAdd p c.o.pausedSet },
                          log := .pause p :: c.log }
        (by intro x hx; simp at hx ⊢; rcases hx with h | h
            · intro _; exact h
            · intro hxU; exact absurd hxU (hd x h))
        (by refine ⟨upd m p .paused, ?_, ?_⟩
            · have : m p = .producing := by rw [hm2 p]; simp [stat, hpP, hp]
              simp [mon, hm1, monStep, this]
            · intro q
              rw [stat_move_paused c.o p q _ _ rfl rfl]
              by_cases h : q = p <;> simp [upd, h, hm2])
        (noErr_cons hn (by intro x hx; cases hx))
      obtain ⟨hs, hpa, hP, hU, hM, hN⟩ := this
      refine ⟨⟨hs.allp, hs.scp, hs.pulls, hs.conn, hs.unsent, hs.queue, hs.stack, hs.scripts⟩, hpa, ?_, ?_, hM, hN⟩
      · intro x; rw [hP x]; simp; grind
      · intro x; rw [hU x]; simp; grind
    · rename_i hp
      obtain ⟨hs, hpa, hP, hU, hM, hN⟩ := ih c hd hm hn
      refine ⟨hs, hpa, ?_, ?_, hM, hN⟩
      · intro x; rw [hP x]; simp; grind
      · intro x; rw [hU x]; simp; grind

theorem InvO.congr {o o' : Out} (h : InvO o) (h1 : o'.paused = o.paused) (h2 : o'.allp = o.allp)
    (h3 : o'.pausedSet = o.pausedSet) (h4 : o'.unpausedSet = o.unpausedSet) (h5 : o'.scp = o.scp)
    (h6 : o'.conn = false → o'.unsent = []) : InvO o' := by
  refine ⟨?_, ?_, ?_, ?_, ?_, ?_, ?_, ?_, h6⟩
  · rw [h2, h3, h4]; exact h.part
  · rw [h3, h4]; exact h.disj
  · rw [h2]; exact h.nodup
  · rw [h1, h4]; exact h.allPaused
  · rw [h2, h4]; exact h.order
  · rw [h2, h5]; exact h.scpVals
  · rw [h5]; exact h.scpK
  · rw [h5]; exact h.scpV

theorem stat_congr {o o' : Out} (h3 : o'.pausedSet = o.pausedSet) (h4 : o'.unpausedSet = o.unpausedSet) (p : Nat) :
    stat o' p = stat o p := by simp [stat, h3, h4]

/-- changes that touch neither the producer bookkeeping nor the monitored part of the log -/
theorem Inv.frame {c c' : Cfg} (h : Inv c) (h1 : c'.o.paused = c.o.paused) (h2 : c'.o.allp = c.o.allp)
    (h3 : c'.o.pausedSet = c.o.pausedSet) (h4 : c'.o.unpausedSet = c.o.unpausedSet) (h5 : c'.o.scp = c.o.scp)
    (h6 : c'.o.conn = false → c'.o.unsent = [])
    (hk : Frame.loop ∈ c.stack → Frame.loop ∈ c'.stack)
    (hl : c'.log = c.log ∨ ∃ e, c'.log = e :: c.log ∧ (∀ x, e = .exc x → ¬ isInternal x) ∧ ∀ m, monStep m e = some m) :
    Inv c' := by
  refine ⟨h.o.congr h1 h2 h3 h4 h5 h6, ?_, ?_, ?_⟩
  · intro hp hP; rw [h1] at hp; rw [h3] at hP; exact hk (h.wake hp hP)
  · rcases hl with hl | ⟨e, hl, he, _⟩
    · rw [hl]; exact h.noerr
    · rw [hl]; exact noErr_cons h.noerr he
  · obtain ⟨m, hm1, hm2⟩ := h.mon
    refine ⟨m, ?_, fun p => by rw [hm2 p, stat_congr h3 h4]⟩
    rcases hl with hl | ⟨e, hl, _, he⟩
    · rw [hl]; exact hm1
    · rw [hl]; exact mon_cons_other hm1 (he m)

theorem pauseProducing_inv (c : Cfg) (h : Inv c) :
    Inv (pauseProducing c) ∧ SameBut c (pauseProducing c) ∧ (pauseProducing c).o.paused = true := by
  unfold pauseProducing
  split
  · rename_i hp; exact ⟨h, ⟨rfl, rfl, rfl, rfl, rfl, rfl, rfl, rfl⟩, hp⟩
  · rename_i hp
    obtain ⟨hs, hpa, hP, hU, hM, hN⟩ := pauseLoop_spec c.o.allp { c with o := { c.o with paused := true } }
      h.o.disj (by obtain ⟨m, h1, h2⟩ := h.mon; exact ⟨m, h1, fun p => by rw [h2 p]; rfl⟩) h.noerr
    have hpart := h.o.part
    have hdisj := h.o.disj
    simp only at hs hpa hP hU
    refine ⟨⟨⟨?_, ?_, ?_, ?_, ?_, ?_, ?_, ?_, ?_⟩, ?_, hN, hM⟩, ⟨hs.allp, hs.scp, hs.pulls, hs.conn, hs.unsent, hs.queue, hs.stack, hs.scripts⟩, hpa⟩
    · intro x; rw [hs.allp, hP x, hU x]; grind
    · intro x; rw [hP x, hU x]; grind
    · rw [hs.allp]; exact h.o.nodup
    · intro _ x; rw [hU x]; grind
    · rw [hs.allp]; exact h.o.order.imp (fun {a b} _ ha => by rw [hU a] at ha; grind)
    · rw [hs.allp, hs.scp]; exact h.o.scpVals
    · rw [hs.scp]; exact h.o.scpK
    · rw [hs.scp]; exact h.o.scpV
    · rw [hs.conn, hs.unsent]; exact h.o.connUnsent
    · intro hf; rw [hpa] at hf; cases hf

theorem sendRecord_inv (c : Cfg) (b : Bool) (h : Inv c) :
    Inv (sendRecord c b) ∧ (sendRecord c b).stack = c.stack := by
  have he : Inv (c.emit (.send b)) :=
    h.frame rfl rfl rfl rfl rfl h.o.connUnsent id (Or.inr ⟨_, rfl, (by intro x hx; cases hx), fun m => rfl⟩)
  unfold sendRecord
  split
  · obtain ⟨h1, h2, _⟩ := pauseProducing_inv _ he
    exact ⟨h1, h2.stack⟩
  · exact ⟨he, rfl⟩

theorem resumeProducing_inv (c : Cfg) (h : Inv c) : Inv (resumeProducing c) := by
  unfold resumeProducing
  split
  · exact h
  · refine ⟨⟨h.o.part, h.o.disj, h.o.nodup, ?_, h.o.order, h.o.scpVals, h.o.scpK, h.o.scpV, h.o.connUnsent⟩, ?_, h.noerr, ?_⟩
    · intro hf; cases hf
    · intro _ _; exact List.mem_cons_self
    · obtain ⟨m, h1, h2⟩ := h.mon; exact ⟨m, h1, fun p => by rw [h2 p]; rfl⟩

theorem opWrite_inv (c : Cfg) (b : Bool) (h : Inv c) : Inv (opWrite c b) := by
  unfold opWrite
  split
  · rename_i hc
    split
    · exact h.frame rfl rfl rfl rfl rfl (by intro hf; simp [hc] at hf) id (Or.inl rfl)
    · exact (sendRecord_inv _ b (h.frame (c' := { c with o := { c.o with queue := c.o.queue ++ [b] } }) rfl rfl rfl rfl rfl h.o.connUnsent id (Or.inl rfl))).1
  · exact h.frame rfl rfl rfl rfl rfl h.o.connUnsent id (Or.inl rfl)

theorem scpHas_iff (sc : Nat) (l : List (Nat × Nat)) : scpHas sc l = true ↔ sc ∈ l.map Prod.fst := by
  simp [scpHas, List.any_eq_true]

theorem regState_invO (o : Out) (sc p : Nat) (s : Bool) (h : InvO o) (hp : p ∉ o.allp)
    (hsc : scpHas sc o.scp = false) : InvO (regState o sc p s) := by
  have hpart := h.part
  have hdisj := h.disj
  have hpP : p ∉ o.pausedSet := fun hx => hp ((hpart p).2 (Or.inl hx))
  have hpU : p ∉ o.unpausedSet := fun hx => hp ((hpart p).2 (Or.inr hx))
  have hscK : sc ∉ o.scp.map Prod.fst := by
    intro hx; rw [← scpHas_iff] at hx; simp [hsc] at hx
  have hpV : p ∉ o.scp.map Prod.snd := fun hx => hp ((h.scpVals p).2 hx)
  have hnd : (o.allp ++ [p]).Nodup := by
    rw [List.nodup_append]; exact ⟨h.nodup, List.nodup_singleton' p, by intro a ha b hb; simp at hb; subst hb; grind⟩
  have hK : ((o.scp ++ [(sc, p)]).map Prod.fst).Nodup := by
    rw [List.map_append, List.nodup_append]
    exact ⟨h.scpK, List.nodup_singleton' _, by intro a ha b hb; simp at hb; subst hb; grind⟩
  have hV : ((o.scp ++ [(sc, p)]).map Prod.snd).Nodup := by
    rw [List.map_append, List.nodup_append]
    exact ⟨h.scpV, List.nodup_singleton' _, by intro a ha b hb; simp at hb; subst hb; grind⟩
  have hvals : ∀ x, x ∈ o.allp ++ [p] ↔ x ∈ (o.scp ++ [(sc, p)]).map Prod.snd := by
    intro x; rw [List.map_append, List.mem_append, List.mem_append, h.scpVals x]; simp
  unfold regState
  split
  · rename_i hpa
    have hU := h.allPaused hpa
    refine ⟨?_, ?_, hnd, fun _ => hU, ?_, hvals, hK, hV, h.connUnsent⟩
    · intro x; simp only [List.mem_append, List.mem_singleton, mem_sAdd]; grind
    · intro x _; exact hU x
    · simp only
      rw [List.pairwise_append]
      exact ⟨h.order, List.pairwise_singleton _ _, fun a _ b _ ha => absurd ha (hU a)⟩
  · rename_i hpa
    refine ⟨?_, ?_, hnd, ?_, ?_, hvals, hK, hV, h.connUnsent⟩
    · intro x; simp only [List.mem_append, List.mem_singleton, mem_sAdd]; grind
    · intro x hx; simp only [mem_sAdd]; grind
    · intro hf; exact absurd hf hpa
    · simp only
      rw [List.pairwise_append]
      refine ⟨h.order.imp_of_mem ?_, List.pairwise_singleton _ _, ?_⟩
      · intro a b ha hb hab; simp only [mem_sAdd]; grind
      · intro a _ b hb _; simp at hb; subst hb; simp

theorem regState_fields (o : Out) (sc p : Nat) (s : Bool) :
    (regState o sc p s).paused = o.paused ∧
    (∀ q, stat (regState o sc p s) q = if q = p then (if o.paused then (if p ∈ o.pausedSet ∨ True then St.paused else .paused) else (if p ∈ o.pausedSet then .paused else .producing)) else stat o q) := by
  unfold regState
  split
  · refine ⟨rfl, fun q => ?_⟩
    by_cases hq : q = p
    · subst hq; simp [stat]
    · simp [stat, hq]
  · refine ⟨rfl, fun q => ?_⟩
    by_cases hq : q = p
    · subst hq; simp [stat]
    · simp [stat, hq]

theorem opReg_inv (c : Cfg) (sc p : Nat) (s : Bool) (h : Inv c) (hp : p ∉ c.o.allp) : Inv (opReg c sc p s) := by
  unfold opReg
  split
  · exact h.frame rfl rfl rfl rfl rfl h.o.connUnsent id
      (Or.inr ⟨_, rfl, (by intro x hx; cases hx; simp [isInternal]), fun m => rfl⟩)
  · rename_i hsc
    have hsc' : scpHas sc c.o.scp = false := by simpa using hsc
    have hO := regState_invO c.o sc p s h.o hp hsc'
    have hck := checkInv_of _ hO
    obtain ⟨hpa, hst⟩ := regState_fields c.o sc p s
    have hpP : p ∉ c.o.pausedSet := fun hx => hp ((h.o.part p).2 (Or.inl hx))
    have hpU : p ∉ c.o.unpausedSet := fun hx => hp ((h.o.part p).2 (Or.inr hx))
    obtain ⟨m, hm1, hm2⟩ := h.mon
    have hmp : m p = .absent := by rw [hm2 p]; simp [stat, hpP, hpU]
    have hwake : ∀ k : List Frame, (Frame.loop ∈ c.stack → Frame.loop ∈ k) →
        (regState c.o sc p s).paused = false → (regState c.o sc p s).pausedSet ≠ [] → Frame.loop ∈ k := by
      intro k hk h1 h2
      rw [hpa] at h1
      apply hk; apply h.wake h1
      unfold regState at h2; simp [h1] at h2; exact h2
    simp only [hck, Bool.not_true, Bool.false_eq_true, if_false]
    split
    · rename_i hpaused
      refine ⟨hO, hwake _ id, noErr_cons (noErr_cons h.noerr (by intro x hx; cases hx)) (by intro x hx; cases hx), ?_⟩
      refine ⟨upd (upd m p .producing) p .paused, ?_, ?_⟩
      · simp [mon, hm1, monStep, hmp, upd]
      · intro q; rw [hst q]; by_cases hq : q = p <;> simp [upd, hq, hpaused, hm2]
    · rename_i hpaused
      refine ⟨hO, hwake _ id, noErr_cons h.noerr (by intro x hx; cases hx), ?_⟩
      refine ⟨upd m p .producing, ?_, ?_⟩
      · simp [mon, hm1, monStep, hmp]
      · intro q; rw [hst q]; by_cases hq : q = p <;> simp [upd, hq, hpaused, hm2, hpP]

theorem lookup_mem {sc p : Nat} {l : List (Nat × Nat)} (h : l.lookup sc = some p) : (sc, p) ∈ l := by
  induction l with
  | nil => simp at h
  | cons e l ih =>
    obtain ⟨a, b⟩ := e
    simp only [List.lookup] at h
    split at h
    · rename_i heq
      have : sc = a := by simpa using heq
      simp at h; subst h; subst this; simp
    · exact List.mem_cons_of_mem _ (ih h)

theorem keys_inj {l : List (Nat × Nat)} (h : (l.map Prod.fst).Nodup) {a x y : Nat}
    (hx : (a, x) ∈ l) (hy : (a, y) ∈ l) : x = y := by
  induction l with
  | nil => cases hx
  | cons e l ih =>
    simp only [List.map_cons, List.nodup_cons, List.mem_map, not_exists, not_and] at h
    rcases List.mem_cons.1 hx with hx | hx <;> rcases List.mem_cons.1 hy with hy | hy
    · rw [← hx] at hy; simpa using hy.symm
    · exact absurd (by rw [← hx]) (h.1 (a, y) hy)
    · exact absurd (by rw [← hy]) (h.1 (a, x) hx)
    · exact ih h.2 hx hy

theorem vals_inj {l : List (Nat × Nat)} (h : (l.map Prod.snd).Nodup) {a b x : Nat}
    (hx : (a, x) ∈ l) (hy : (b, x) ∈ l) : a = b := by
  induction l with
  | nil => cases hx
  | cons e l ih =>
    simp only [List.map_cons, List.nodup_cons, List.mem_map, not_exists, not_and] at h
    rcases List.mem_cons.1 hx with hx | hx <;> rcases List.mem_cons.1 hy with hy | hy
    · rw [← hx] at hy; simpa using hy.symm
    · exact absurd (by rw [← hx]) (h.1 (b, x) hy)
    · exact absurd (by rw [← hy]) (h.1 (a, x) hx)
    · exact ih h.2 hx hy

theorem unreg_invO (o : Out) (sc p : Nat) (pulls : List Nat) (h : InvO o) (hm : (sc, p) ∈ o.scp) :
    InvO { o with scp := o.scp.filter (fun e => e.1 != sc), pulls := pulls, allp := o.allp.erase p,
                  pausedSet := sDel p o.pausedSet, unpausedSet := sDel p o.unpausedSet } := by
  have hpart := h.part
  have hdisj := h.disj
  have hnd := h.nodup
  have hmem : ∀ x, x ∈ o.allp.erase p ↔ x ∈ o.allp ∧ x ≠ p := fun x => by
    rw [hnd.mem_erase_iff]; tauto
  refine ⟨?_, ?_, hnd.erase p, ?_, ?_, ?_, ?_, ?_, h.connUnsent⟩
  · intro x; simp only [hmem, mem_sDel]; grind
  · intro x; simp only [mem_sDel]; grind
  · intro hpa x; simp only [mem_sDel]; have := h.allPaused hpa x; grind
  · simp only
    refine (h.order.sublist (List.erase_sublist)).imp_of_mem ?_
    intro a b ha hb hab; simp only [mem_sDel]; rw [hmem] at ha hb; grind
  · intro x
    simp only [hmem, List.mem_map, List.mem_filter, bne_iff_ne, ne_eq, Prod.exists, exists_eq_right]
    constructor
    · rintro ⟨hx, hne⟩
      obtain ⟨e, he, rfl⟩ := List.mem_map.1 ((h.scpVals x).1 hx)
      refine ⟨e.1, he, ?_⟩
      intro heq
      apply hne
      have : (sc, e.2) ∈ o.scp := by rw [← heq]; exact he
      exact keys_inj h.scpK this hm
    · rintro ⟨a, ha, hne⟩
      refine ⟨(h.scpVals x).2 (List.mem_map.2 ⟨(a, x), ha, rfl⟩), ?_⟩
      intro heq; subst heq
      exact hne (vals_inj h.scpV ha hm)
  · exact h.scpK.sublist ((List.filter_sublist).map _)
  · exact h.scpV.sublist ((List.filter_sublist).map _)

theorem opUnreg_inv (c : Cfg) (sc : Nat) (h : Inv c) : Inv (opUnreg c sc) := by
  unfold opUnreg
  split
  · exact h.frame rfl rfl rfl rfl rfl h.o.connUnsent id
      (Or.inr ⟨_, rfl, (by intro x hx; cases hx; simp [isInternal]), fun m => rfl⟩)
  · rename_i p hl
    have hm := lookup_mem hl
    have hpall : p ∈ c.o.allp := (h.o.scpVals p).2 (List.mem_map.2 ⟨(sc, p), hm, rfl⟩)
    -- the state after the pop and the drop, whichever way `unregPop` went
    have key : ∃ pulls l, (unregDrop (unregPop c sc p) p).o =
          { c.o with scp := c.o.scp.filter (fun e => e.1 != sc), pulls := pulls, allp := c.o.allp.erase p,
                     pausedSet := sDel p c.o.pausedSet, unpausedSet := sDel p c.o.unpausedSet } ∧
        (unregDrop (unregPop c sc p) p).log = .unreg p :: l ∧ (l = c.log ∨ l = .stop p :: c.log) ∧
        (unregDrop (unregPop c sc p) p).stack = c.stack ∧ (unregPop c sc p).o.allp = c.o.allp := by
      unfold unregPop unregDrop
      split
      · exact ⟨_, _, rfl, rfl, Or.inr rfl, rfl, rfl⟩
      · exact ⟨_, _, rfl, rfl, Or.inl rfl, rfl, rfl⟩
    obtain ⟨pulls, l, ho, hlog, hl', hstk, hall⟩ := key
    have hO := unreg_invO c.o sc p pulls h.o hm
    rw [← ho] at hO
    simp only [hall, hpall, not_true_eq_false, if_false, checkInv_of _ hO, Bool.not_true, Bool.false_eq_true]
    refine ⟨hO, ?_, ?_, ?_⟩
    · intro hp hP
      rw [hstk]; rw [ho] at hp hP
      apply h.wake hp
      intro hnil; apply hP; simp [hnil, sDel]
    · rw [hlog]
      rcases hl' with rfl | rfl
      · exact noErr_cons h.noerr (by intro x hx; cases hx)
      · exact noErr_cons (noErr_cons h.noerr (by intro x hx; cases hx)) (by intro x hx; cases hx)
    · obtain ⟨m, hm1, hm2⟩ := h.mon
      have hmp : m p ≠ .absent := by
        rw [hm2 p]; unfold stat
        rcases (h.o.part p).1 hpall with hx | hx
        · simp [hx]
        · simp [hx]; split <;> simp
      refine ⟨upd m p .absent, ?_, ?_⟩
      · rw [hlog]
        rcases hl' with rfl | rfl
        · simp [mon, hm1, monStep, hmp]
        · simp [mon, hm1, monStep, hmp]
      · intro q; rw [ho]
        by_cases hq : q = p
        · subst hq; simp [upd, stat]
        · simp [upd, hq, stat, hm2]

theorem opClose_inv (c : Cfg) (sc : Nat) (h : Inv c) : Inv (opClose c sc) := by
  unfold opClose
  simp only [checkInv_of _ h.o, Bool.not_true, Bool.false_eq_true, if_false]
  split
  · exact opUnreg_inv c sc h
  · exact h

theorem opUse_inv (c : Cfg) (h : Inv c) (hc : c.o.conn = false) : Inv (opUse c) := by
  unfold opUse
  simp only [h.o.connUnsent hc, List.isEmpty_nil, Bool.not_true, Bool.false_eq_true, if_false]
  apply resumeProducing_inv
  exact h.frame rfl rfl rfl rfl rfl (by intro hf; cases hf) id
    (Or.inr ⟨_, rfl, (by intro x hx; cases hx), fun m => rfl⟩)

theorem opStop_inv (c : Cfg) (h : Inv c) (hc : c.o.conn = true) : Inv (opStop c) := by
  unfold opStop
  simp only [hc, Bool.not_true, Bool.false_eq_true, if_false]
  refine (pauseProducing_inv _ ?_).1
  exact h.frame rfl rfl rfl rfl rfl (fun _ => rfl) id
    (Or.inr ⟨_, rfl, (by intro x hx; cases hx), fun m => rfl⟩)

theorem opPull_inv (c : Cfg) (p : Nat) (h : Inv c) : Inv (opPull c p) := by
  unfold opPull
  split
  · split
    · exact h
    · split
      · exact h.frame rfl rfl rfl rfl rfl h.o.connUnsent (fun hx => List.mem_cons_of_mem _ hx)
          (Or.inr ⟨_, rfl, (by intro x hx; cases hx), fun m => rfl⟩)
      · exact h.frame rfl rfl rfl rfl rfl h.o.connUnsent (fun hx => List.mem_cons_of_mem _ hx)
          (Or.inr ⟨_, rfl, (by intro x hx; cases hx), fun m => rfl⟩)
  · exact h

theorem quiet_inv (c : Cfg) (h : Inv c) : Inv (quiet c) := by
  unfold quiet
  split
  · rename_i e l hl
    refine ⟨h.o, h.wake, ?_, ?_⟩
    · intro x hx; exact h.noerr x (by rw [hl]; exact List.mem_cons_of_mem _ hx)
    · obtain ⟨m, hm1, hm2⟩ := h.mon
      refine ⟨m, ?_, hm2⟩
      rw [hl] at hm1
      simp only [mon] at hm1
      cases hml : mon l with
      | none => rw [hml] at hm1; cases hm1
      | some m' => rw [hml] at hm1; simpa [monStep] using hm1
  · exact h

theorem exec_inv (c : Cfg) (op : Op) (h : Inv c) (hok : opOK c.o op) : Inv (exec c op) := by
  cases op with
  | write b => exact opWrite_inv c b h
  | pause => exact (pauseProducing_inv c h).1
  | resume => exact resumeProducing_inv c h
  | stopProducing => exact (pauseProducing_inv c h).1
  | reg sc p s => exact opReg_inv c sc p s h hok
  | unreg sc => exact opUnreg_inv c sc h
  | close sc => exact opClose_inv c sc h
  | use => exact opUse_inv c h hok
  | stop => exact opStop_inv c h hok
  | pull p => exact opPull_inv c p h
  | failWrite => exact absurd hok (by simp [opOK])

/-- "the only unpaused Producers are at the end of the list": while somebody is still paused,
    the head of the rotation is paused -/
theorem head_paused (o : Out) (h : InvO o) (p : Nat) (rest : List Nat) (ha : o.allp = p :: rest)
    (hne : o.pausedSet ≠ []) : p ∈ o.pausedSet := by
  obtain ⟨y, hy⟩ := List.exists_mem_of_ne_nil _ hne
  have hyall : y ∈ o.allp := (h.part y).2 (Or.inl hy)
  have hord := h.order
  rw [ha] at hord hyall
  rcases (h.part p).1 (by rw [ha]; exact List.mem_cons_self) with hp | hp
  · exact hp
  · exfalso
    rcases List.mem_cons.1 hyall with rfl | hyr
    · exact h.disj _ hy hp
    · exact h.disj y hy ((List.pairwise_cons.1 hord).1 y hyr hp)

theorem giveTurn_inv (c : Cfg) (p : Nat) (h : Inv c) (hl : Frame.loop ∈ c.stack) :
    Inv (giveTurn c p) ∧ Frame.loop ∈ (giveTurn c p).stack := by
  unfold giveTurn
  split
  · exact ⟨h, hl⟩
  · split
    · exact ⟨h.frame rfl rfl rfl rfl rfl h.o.connUnsent (fun hx => List.mem_cons_of_mem _ hx) (Or.inl rfl),
        List.mem_cons_of_mem _ hl⟩
    · exact ⟨h.frame rfl rfl rfl rfl rfl h.o.connUnsent (fun hx => List.mem_cons_of_mem _ hx) (Or.inl rfl),
        List.mem_cons_of_mem _ hl⟩

theorem nextTurn_inv (c : Cfg) (p : Nat) (rest : List Nat) (h : Inv c) (ha : c.o.allp = p :: rest)
    (hne : c.o.pausedSet ≠ []) (hpa : c.o.paused = false) (hl : Frame.loop ∈ c.stack) :
    Inv (nextTurn c p rest) := by
  have hp := head_paused c.o h.o p rest ha hne
  unfold nextTurn
  simp only [hp, not_true_eq_false, if_false]
  refine (giveTurn_inv { c with o := { c.o with allp := rest ++ [p], pausedSet := sDel p c.o.pausedSet, unpausedSet := sAdd p c.o.unpausedSet }, log := .resume p :: c.log } p ?_ hl).1
  have hpart := h.o.part
  have hdisj := h.o.disj
  have hnd := h.o.nodup
  rw [ha] at hnd
  have hprest : p ∉ rest := (List.nodup_cons.1 hnd).1
  have hmem : ∀ x, x ∈ rest ++ [p] ↔ x ∈ c.o.allp := by intro x; rw [ha]; simp; tauto
  refine ⟨⟨?_, ?_, ?_, ?_, ?_, ?_, h.o.scpK, h.o.scpV, h.o.connUnsent⟩, ?_, ?_, ?_⟩
  · intro x; simp only [hmem, mem_sDel, mem_sAdd]; grind
  · intro x; simp only [mem_sDel, mem_sAdd]; grind
  · simp only
    rw [List.nodup_append]
    exact ⟨(List.nodup_cons.1 hnd).2, List.nodup_singleton' p, by intro a ha b hb; simp at hb; subst hb; grind⟩
  · intro hf; simp only at hf; rw [hpa] at hf; cases hf
  · simp only
    have hord := h.o.order
    rw [ha] at hord
    rw [List.pairwise_append]
    refine ⟨(List.pairwise_cons.1 hord).2.imp_of_mem ?_, List.pairwise_singleton _ _, ?_⟩
    · intro a b ha' hb' hab; simp only [mem_sAdd]; grind
    · intro a _ b hb _; simp at hb; subst hb; simp
  · intro x; simp only [hmem]; exact h.o.scpVals x
  · intro _ _; exact hl
  · exact noErr_cons h.noerr (by intro x hx; cases hx)
  · obtain ⟨m, hm1, hm2⟩ := h.mon
    have hmp : m p = .paused := by rw [hm2 p]; simp [stat, hp]
    refine ⟨upd m p .producing, ?_, ?_⟩
    · simp [mon, hm1, monStep, hmp]
    · intro q
      by_cases hq : q = p
      · subst hq; simp [upd, stat]
      · simp [upd, hq, stat, hm2]

theorem loopStep_inv (c : Cfg) (k : List Frame) (h : Inv c) (hk : c.stack = .loop :: k) : Inv (loopStep c k) := by
  have hl : Frame.loop ∈ c.stack := by rw [hk]; exact List.mem_cons_self
  unfold loopStep
  split
  · rename_i hpa
    refine ⟨h.o, ?_, h.noerr, h.mon⟩
    intro hf; simp only at hf; rw [hpa] at hf; cases hf
  · rename_i hpa
    have hpa' : c.o.paused = false := by simpa using hpa
    split
    · rename_i b rest hu
      have h1 : Inv { c with o := { c.o with unsent := rest } } :=
        h.frame rfl rfl rfl rfl rfl (by
          intro hf; have := h.o.connUnsent hf; rw [hu] at this; cases this) id (Or.inl rfl)
      obtain ⟨h2, h3⟩ := sendRecord_inv _ b h1
      exact h2
    · simp only [checkInv_of _ h.o, Bool.not_true, Bool.false_eq_true, if_false]
      split
      · rename_i hemp
        refine ⟨h.o, ?_, h.noerr, h.mon⟩
        intro _ hP; exfalso; apply hP; simpa using hemp
      · rename_i hemp
        have hne : c.o.pausedSet ≠ [] := by simpa using hemp
        split
        · rename_i hnil
          exfalso
          obtain ⟨y, hy⟩ := List.exists_mem_of_ne_nil _ hne
          have := (h.o.part y).2 (Or.inl hy)
          rw [hnil] at this; cases this
        · rename_i p rest ha
          exact nextTurn_inv c p rest h ha hne hpa' hl

theorem step_inv (c : Cfg) (h : Inv c) (hok : stepOK c) : Inv (step c) := by
  unfold step
  split
  · exact h
  · rename_i k hk; exact loopStep_inv c k h hk
  · rename_i k hk
    refine h.frame rfl rfl rfl rfl rfl h.o.connUnsent ?_ (Or.inl rfl)
    intro hx; rw [hk] at hx
    rcases List.mem_cons.1 hx with hx | hx
    · cases hx
    · exact hx
  · rename_i r k hk
    unfold stepOK at hok; rw [hk] at hok; exact absurd hok (by simp [opOK])
  · rename_i op r k hne hk
    apply exec_inv
    · refine h.frame rfl rfl rfl rfl rfl h.o.connUnsent ?_ (Or.inl rfl)
      intro hx; rw [hk] at hx
      rcases List.mem_cons.1 hx with hx | hx
      · cases hx
      · exact List.mem_cons_of_mem _ hx
    · unfold stepOK at hok; rw [hk] at hok; exact hok
  · rename_i sc k hk
    refine h.frame rfl rfl rfl rfl rfl h.o.connUnsent ?_ (Or.inl rfl)
    intro hx; rw [hk] at hx
    rcases List.mem_cons.1 hx with hx | hx
    · cases hx
    · exact hx
  · -- `_pull`'s error path: the adapter is unregistered
    rename_i sc r k hk
    unfold pullFailed
    apply quiet_inv
    apply opUnreg_inv
    refine h.frame rfl rfl rfl rfl rfl h.o.connUnsent ?_ (Or.inl rfl)
    intro hx; rw [hk] at hx
    rcases List.mem_cons.1 hx with hx | hx
    · cases hx
    · exact hx
  · rename_i sc op r k hne hk
    apply exec_inv
    · refine h.frame rfl rfl rfl rfl rfl h.o.connUnsent ?_ (Or.inl rfl)
      intro hx; rw [hk] at hx
      rcases List.mem_cons.1 hx with hx | hx
      · cases hx
      · exact List.mem_cons_of_mem _ hx
    · unfold stepOK at hok; rw [hk] at hok
      cases op <;> first | exact hok | exact absurd rfl hne

theorem init_inv : Inv {} := by
  refine ⟨⟨by simp, by simp, by simp, by simp, by simp, by simp, by simp, by simp, by simp⟩, ?_, ?_, ?_⟩
  · intro hf; cases hf
  · intro e he; cases he
  · exact ⟨_, rfl, fun p => by simp [stat]⟩

theorem start_inv (c : Cfg) (op : Op) (scripts : List (List Op)) (h : Inv c) (hs : c.stack = []) :
    Inv (start c op scripts) := by
  refine ⟨h.o, ?_, h.noerr, h.mon⟩
  intro hp hP
  have := h.wake hp hP
  rw [hs] at this; cases this

theorem reach_inv {c : Cfg} (h : Reach c) : Inv c := by
  induction h with
  | init => exact init_inv
  | call op scripts _ hs ih => exact start_inv _ op scripts ih hs
  | step _ _ hok ih => exact step_inv _ ih hok

/-! ## `run` is iterated `step` -/

theorem run_spec (c : Cfg) : ∃ n, run c = step^[n] c ∧ (run c).stack = [] := by
  induction c using run.induct with
  | case1 c h => exact ⟨0, by rw [run]; simp [h], by rw [run]; simp [h]⟩
  | case2 c h ih =>
    obtain ⟨n, h1, h2⟩ := ih
    refine ⟨n + 1, ?_, ?_⟩
    · rw [run]; simp only [h, dite_false]; rw [h1]; rfl
    · rw [run]; simp only [h, dite_false]; exact h2

theorem reach_iterate {c : Cfg} (h : Reach c) (hok : ∀ n, stepOK (step^[n] c)) : ∀ n, Reach (step^[n] c) := by
  intro n
  induction n with
  | zero => exact h
  | succ n ih =>
    rw [Function.iterate_succ_apply']
    by_cases hs : (step^[n] c).stack = []
    · have : step (step^[n] c) = step^[n] c := by rw [step, hs]
      rw [this]; exact ih
    · exact Reach.step ih hs (hok n)

/-- what the driver computes for one line is reachable, provided the environment hypothesis held
    at every operation performed on the way -/
theorem reach_run {c : Cfg} (h : Reach c) (hok : ∀ n, stepOK (step^[n] c)) : Reach (run c) ∧ (run c).stack = [] := by
  obtain ⟨n, h1, h2⟩ := run_spec c
  exact ⟨by rw [h1]; exact reach_iterate h hok n, h2⟩

/-! ## Inbound -/

/-- is the last thing the TCP transport of connection `g` was told "pause"? (log newest first) -/
def lastPaused (g : Nat) : List IEv → Bool
  | [] => false
  | .tPause g' :: l => if g' = g then true else lastPaused g l
  | .tResume g' :: l => if g' = g then false else lastPaused g l
  | .exc _ :: l => lastPaused g l
  | .req _ :: l => lastPaused g l
  | .unreq _ :: l => lastPaused g l
  | .opened _ :: l => lastPaused g l
  | .closed _ :: l => lastPaused g l

/-- no transport is told the same thing twice in a row (a new transport counts as resumed) -/
def altOK : List IEv → Bool
  | [] => true
  | .tPause g :: l => !lastPaused g l && altOK l
  | .tResume g :: l => lastPaused g l && altOK l
  | .exc _ :: l => altOK l
  | .req _ :: l => altOK l
  | .unreq _ :: l => altOK l
  | .opened _ :: l => altOK l
  | .closed _ :: l => altOK l

/-- what the applications want, read off the history of what they did and were told — independent of
    `Inbound`'s own set -/
structure Ghost where
  w : List Nat := []     -- subchannels whose application has an outstanding pause request
  cl : List Nat := []    -- subchannels that were closed (and not opened again)

def gev (g : Ghost) : IEv → Ghost
  | .req sc => { g with w := sAdd sc g.w }
  | .unreq sc => { g with w := sDel sc g.w }
  | .closed sc => { w := sDel sc g.w, cl := sAdd sc g.cl }    -- a closed subchannel's request dies with it
  | .opened sc => { g with cl := sDel sc g.cl }
  | _ => g

def G : List IEv → Ghost
  | [] => {}
  | e :: l => gev (G l) e

/-- environment: the application of a closed subchannel does not ask for a pause any more -/
def envOKb : List IEv → Bool
  | [] => true
  | .req sc :: l => !(G l).cl.contains sc && envOKb l
  | .tPause _ :: l => envOKb l
  | .tResume _ :: l => envOKb l
  | .exc _ :: l => envOKb l
  | .unreq _ :: l => envOKb l
  | .opened _ :: l => envOKb l
  | .closed _ :: l => envOKb l

def EnvOK (l : List IEv) : Prop := envOKb l = true

instance (l : List IEv) : Decidable (EnvOK l) := by unfold EnvOK; infer_instance

theorem want_not_closed : ∀ (l : List IEv), EnvOK l → ∀ sc, sc ∈ (G l).w → sc ∉ (G l).cl := by
  intro l
  induction l with
  | nil => intro _ sc hsc; cases hsc
  | cons e l ih =>
    intro henv sc hsc
    unfold EnvOK at henv ih
    cases e with
    | req x =>
      simp only [envOKb, Bool.and_eq_true, Bool.not_eq_true', List.contains_eq_mem, decide_eq_false_iff_not] at henv
      simp only [G, gev, mem_sAdd] at hsc ⊢
      rcases hsc with rfl | hsc
      · exact henv.1
      · exact ih henv.2 sc hsc
    | unreq x =>
      simp only [envOKb] at henv
      simp only [G, gev, mem_sDel] at hsc ⊢
      exact ih henv sc hsc.1
    | closed x =>
      simp only [envOKb] at henv
      simp only [G, gev, mem_sDel, mem_sAdd] at hsc ⊢
      rintro (h1 | h1)
      · exact hsc.2 h1
      · exact ih henv sc hsc.1 h1
    | opened x =>
      simp only [envOKb] at henv
      simp only [G, gev, mem_sDel] at hsc ⊢
      exact fun hc => ih henv sc hsc hc.1
    | tPause x => simp only [envOKb] at henv; exact ih henv sc hsc
    | tResume x => simp only [envOKb] at henv; exact ih henv sc hsc
    | exc x => simp only [envOKb] at henv; exact ih henv sc hsc

/-- the calls on TCP transports in a log -/
def sigs (l : List IEv) : List IEv :=
  l.filter (fun e => match e with | .tPause _ => true | .tResume _ => true | _ => false)

inductive IReach : Inb → Prop
  | init : IReach {}
  | step {s : Inb} (op : IOp) : IReach s → IReach (istep s op)

structure IInv (s : Inb) : Prop where
  exact : ∀ g, s.conn = some g → (lastPaused g s.log = true ↔ s.pausedSc ≠ [])
  alt : altOK s.log = true
  fresh : ∀ g, s.gen < g → lastPaused g s.log = false
  connLe : ∀ g, s.conn = some g → g ≤ s.gen
  want : ∀ x, x ∈ (G s.log).w ↔ x ∈ s.pausedSc

theorem sDel_nil_of_nil {x : Nat} {l : List Nat} (h : l = []) : sDel x l = [] := by simp [h, sDel]
theorem sAdd_ne_nil (x : Nat) (l : List Nat) : sAdd x l ≠ [] := by
  unfold sAdd; split
  · rename_i h; intro hn; rw [hn] at h; cases h
  · simp

/-- `IInv` only looks at four components -/
theorem IInv.congr {s s' : Inb} (h : IInv s) (h1 : s'.pausedSc = s.pausedSc) (h2 : s'.conn = s.conn)
    (h3 : s'.gen = s.gen) (h4 : s'.log = s.log) : IInv s' := by
  refine ⟨?_, ?_, ?_, ?_, ?_⟩
  · intro g hg; rw [h4, h1]; exact h.exact g (by rw [← h2]; exact hg)
  · rw [h4]; exact h.alt
  · intro g hg; rw [h4]; exact h.fresh g (by rw [← h3]; exact hg)
  · intro g hg; rw [h3]; exact h.connLe g (by rw [← h2]; exact hg)
  · intro x; rw [h4, h1]; exact h.want x

/-- an entry that is neither a transport call nor a request/close: an exception, or `opened` -/
theorem IInv.push {s s' : Inb} (h : IInv s) (e : IEv) (he : (∃ x, e = .exc x) ∨ (∃ x, e = .opened x))
    (h1 : s'.pausedSc = s.pausedSc) (h2 : s'.conn = s.conn) (h3 : s'.gen = s.gen) (h4 : s'.log = e :: s.log) : IInv s' := by
  have hl : ∀ g, lastPaused g (e :: s.log) = lastPaused g s.log := by
    intro g; rcases he with ⟨x, rfl⟩ | ⟨x, rfl⟩ <;> rfl
  have ha : altOK (e :: s.log) = altOK s.log := by rcases he with ⟨x, rfl⟩ | ⟨x, rfl⟩ <;> rfl
  have hw : (G (e :: s.log)).w = (G s.log).w := by rcases he with ⟨x, rfl⟩ | ⟨x, rfl⟩ <;> rfl
  refine ⟨?_, ?_, ?_, ?_, ?_⟩
  · intro g hg; rw [h4, hl, h1]; exact h.exact g (by rw [← h2]; exact hg)
  · rw [h4, ha]; exact h.alt
  · intro g hg; rw [h4, hl]; exact h.fresh g (by rw [← h3]; exact hg)
  · intro g hg; rw [h3]; exact h.connLe g (by rw [← h2]; exact hg)
  · intro x; rw [h4, hw, h1]; exact h.want x

theorem IInv.raise {s : Inb} (h : IInv s) (e : IExn) : IInv (s.raise e) :=
  h.push (.exc e) (Or.inl ⟨e, rfl⟩) rfl rfl rfl rfl

/-- `subchannel_resumeProducing` / `stopProducing` / the tail of `subchannel_closed`, after the application's
    resume (or the close) has been noted: `s0` is `s` with that note `e` -/
theorem iinv_discard (s s0 : Inb) (sc : Nat) (e : IEv) (he : e = .unreq sc ∨ e = .closed sc)
    (h1 : s0.pausedSc = s.pausedSc) (h2 : s0.conn = s.conn) (h3 : s0.gen = s.gen) (h4 : s0.log = e :: s.log)
    (hp : dcpForwardsResume = true) (h : IInv s) : IInv (s0.discard sc) := by
  have hl : ∀ g, lastPaused g (e :: s.log) = lastPaused g s.log := by
    intro g; rcases he with rfl | rfl <;> rfl
  have ha : altOK (e :: s.log) = altOK s.log := by rcases he with rfl | rfl <;> rfl
  have hw : ∀ x, x ∈ (G (e :: s.log)).w ↔ x ∈ sDel sc s.pausedSc := by
    intro x; rcases he with rfl | rfl <;> simp only [G, gev, mem_sDel, h.want x]
  unfold Inb.discard
  split
  · rename_i g hg
    have hg' : s.conn = some g := by rw [← h2]; exact hg
    split
    · rename_i hc
      simp only [Bool.and_eq_true, Bool.not_eq_true', List.isEmpty_iff, h1] at hc
      have hne : s.pausedSc ≠ [] := by intro h0; simp [h0] at hc
      have hlp := (h.exact g hg').2 hne
      unfold Inb.connResume; simp only [hp, if_true, h4, h1]
      refine ⟨?_, ?_, ?_, ?_, ?_⟩
      · intro g' hg''; simp only at hg''; rw [hg] at hg''; cases hg''
        simp [lastPaused, hc.2]
      · simp [altOK, hl, ha, hlp, h.alt]
      · intro g' hg''; simp only [h3] at hg''
        have := h.connLe g hg'
        simp only [lastPaused]; split
        · omega
        · rw [hl]; exact h.fresh g' hg''
      · intro g'' hg''; simp only [h3] at hg'' ⊢; rw [hg] at hg''; cases hg''; exact h.connLe _ hg'
      · intro x; simp only [G, gev]; exact hw x
    · rename_i hc
      simp only [h4, h1]
      refine ⟨?_, ?_, ?_, ?_, ?_⟩
      · intro g' hg''; simp only at hg'' ⊢
        rw [hl, h.exact g' (by rw [← h2]; exact hg'')]
        simp only [Bool.and_eq_true, Bool.not_eq_true', List.isEmpty_iff, not_and, h1] at hc
        constructor
        · intro hne h0; exact hc (by simpa using hne) h0
        · intro hne h0; exact hne (sDel_nil_of_nil h0)
      · simp only; rw [ha]; exact h.alt
      · intro g' hg''; simp only [h3] at hg'' ⊢; rw [hl]; exact h.fresh g' hg''
      · intro g' hg''; simp only [h3] at hg'' ⊢; exact h.connLe g' (by rw [← h2]; exact hg'')
      · exact hw
  · rename_i hg
    simp only [h4, h1]
    refine ⟨?_, ?_, ?_, ?_, hw⟩
    · intro g hg'; simp only at hg'; rw [hg] at hg'; cases hg'
    · simp only; rw [ha]; exact h.alt
    · intro g' hg''; simp only [h3] at hg'' ⊢; rw [hl]; exact h.fresh g' hg''
    · intro g hg'; simp only at hg'; rw [hg] at hg'; cases hg'

theorem iinv_appResume (hr : dcpForwardsResume = true) {s : Inb} (h : IInv s) (sc : Nat) : IInv (s.appResume sc) :=
  iinv_discard s _ sc (.unreq sc) (Or.inl rfl) rfl rfl rfl rfl hr h

theorem iinv_closeSub (hr : dcpForwardsResume = true) {s : Inb} (h : IInv s) (sc : Nat) : IInv (s.closeSub sc) := by
  unfold Inb.closeSub
  split
  · exact iinv_discard s _ sc (.closed sc) (Or.inr rfl) rfl rfl rfl rfl hr h
  · exact h.raise _

theorem iinv_appPause (hp : dcpForwardsPause = true) {s : Inb} (h : IInv s) (sc : Nat) : IInv (s.appPause sc) := by
  have hw : ∀ x, x ∈ (G (.req sc :: s.log)).w ↔ x ∈ sAdd sc s.pausedSc := by
    intro x; simp only [G, gev, mem_sAdd, h.want x]
  unfold Inb.appPause
  split
  · rename_i g hg
    split
    · rename_i hc
      have he : s.pausedSc = [] := by simpa using hc
      have hlp : lastPaused g s.log = false := by
        have := h.exact g hg; simp [he] at this; simpa using this
      unfold Inb.connPause; simp only [hp, if_true]
      refine ⟨?_, ?_, ?_, h.connLe, ?_⟩
      · intro g' hg'; simp only at hg'; rw [hg] at hg'; cases hg'
        simp [lastPaused, sAdd_ne_nil]
      · simp [altOK, lastPaused, hlp, h.alt]
      · intro g' hg'; simp only at hg'
        have := h.connLe g hg
        simp only [lastPaused]; split
        · omega
        · exact h.fresh g' hg'
      · intro x; simp only [G, gev]; exact hw x
    · rename_i hc
      refine ⟨?_, by simpa [altOK] using h.alt, fun g' hg' => by simpa [lastPaused] using h.fresh g' hg', h.connLe, hw⟩
      intro g' hg'; simp only at hg' ⊢
      simp only [lastPaused]
      rw [h.exact g' hg']
      have : s.pausedSc ≠ [] := by simpa using hc
      simp [this, sAdd_ne_nil]
  · rename_i hg
    refine ⟨?_, by simpa [altOK] using h.alt, fun g' hg' => by simpa [lastPaused] using h.fresh g' hg', ?_, hw⟩
    · intro g hg'; simp only at hg'; rw [hg] at hg'; cases hg'
    · intro g hg'; simp only at hg'; rw [hg] at hg'; cases hg'

theorem iinv_appData (hp : dcpForwardsPause = true) {s : Inb} (h : IInv s) (sc : Nat) : IInv (s.appData sc) := by
  unfold Inb.appData
  split
  · exact iinv_appPause hp (s := s.setBeh sc 0) (h.congr rfl rfl rfl rfl) sc
  · exact h

theorem iinv_runOuts (hp : dcpForwardsPause = true) (hr : dcpForwardsResume = true) (sc : Nat)
    (outs : List Gen.SubChannel.Output) : ∀ {s : Inb}, IInv s → IInv (runOuts s sc outs) := by
  induction outs with
  | nil => intro s h; exact h
  | cons o r ih =>
    intro s h
    cases o <;> simp only [runOuts]
    case close_subchannel =>
      split
      · exact ih (iinv_closeSub hr h sc)
      · exact h.raise _
    case error_closed_close => exact h.raise _
    case error_closed_write => exact h.raise _
    case signal_dataReceived => exact ih (iinv_appData hp h sc)
    case queue_remote_data => exact ih (s := s.setPend sc _) (h.congr rfl rfl rfl rfl)
    case queue_remote_close => exact ih (s := s.setPend sc _) (h.congr rfl rfl rfl rfl)
    all_goals exact ih h

theorem iinv_scInput (hp : dcpForwardsPause = true) (hr : dcpForwardsResume = true) {s : Inb} (h : IInv s) (sc : Nat)
    (inp : Gen.SubChannel.Input) : IInv (scInput s sc inp) := by
  unfold scInput
  split
  · exact h.raise _
  · exact iinv_runOuts hp hr sc _ (s := s.setSc sc _) (h.congr rfl rfl rfl rfl)

theorem iinv_openSub (hp : dcpForwardsPause = true) (hr : dcpForwardsResume = true) {s : Inb} (h : IInv s) (sc : Nat)
    (half : Bool) : IInv (openSub s sc half) := by
  have ho : IInv { s with openSc := sAdd sc s.openSc, log := .opened sc :: s.log } :=
    h.push (.opened sc) (Or.inr ⟨sc, rfl⟩) rfl rfl rfl rfl
  unfold openSub
  split
  · exact h.raise _
  · split
    · exact ho.raise _
    · exact iinv_scInput hp hr (s := Inb.setSc { s with openSc := sAdd sc s.openSc, log := .opened sc :: s.log } sc (Gen.SubChannel.init, half)) (ho.congr rfl rfl rfl rfl) sc _

theorem iinv_deliverData (hp : dcpForwardsPause = true) (hr : dcpForwardsResume = true) (sc : Nat) (n : Nat) :
    ∀ {s : Inb}, IInv s → IInv (deliverData s sc n) := by
  induction n with
  | zero => intro s h; exact h
  | succ n ih => intro s h; simp only [deliverData]; exact ih (iinv_scInput hp hr h sc _)

theorem iinv_connectApp (hp : dcpForwardsPause = true) (hr : dcpForwardsResume = true) {s : Inb} (h : IInv s)
    (sc mode : Nat) : IInv (connectApp s sc mode) := by
  have h1 : IInv (scInput (s.setBeh sc mode) sc .connect_protocol_full) :=
    iinv_scInput hp hr (s := s.setBeh sc mode) (h.congr rfl rfl rfl rfl) sc _
  have h2 : IInv (connectMade (scInput (s.setBeh sc mode) sc .connect_protocol_full) sc mode) := by
    unfold connectMade; split
    · exact iinv_appPause hp h1 sc
    · exact h1
  have h3 := iinv_deliverData hp hr sc
    ((connectMade (scInput (s.setBeh sc mode) sc .connect_protocol_full) sc mode).pendOf sc).1 h2
  unfold connectApp connectDeliver connectFinish
  split
  · exact iinv_scInput hp hr (s := Inb.setPend (deliverData _ sc _) sc (0, false)) (h3.congr rfl rfl rfl rfl) sc _
  · exact h3.congr (s' := Inb.setPend (deliverData _ sc _) sc (0, false)) rfl rfl rfl rfl

theorem iinv_connectAll (hp : dcpForwardsPause = true) (hr : dcpForwardsResume = true) (mode : Nat) (l : List Nat) :
    ∀ {s : Inb}, IInv s → IInv (connectAll s mode l) := by
  induction l with
  | nil => intro s h; exact h
  | cons sc r ih => intro s h; simp only [connectAll]; exact ih (iinv_connectApp hp hr h sc mode)

theorem iinv_step (s : Inb) (op : IOp) (hp : dcpForwardsPause = true) (hr : dcpForwardsResume = true)
    (h : IInv s) : IInv (istep s op) := by
  cases op with
  | use =>
    simp only [istep]
    have hfresh := h.fresh (s.gen + 1) (by omega)
    split
    · rename_i hc
      have hne : s.pausedSc ≠ [] := by intro h0; simp [h0] at hc
      unfold Inb.connPause; simp only [hp, if_true]
      refine ⟨?_, ?_, ?_, ?_, h.want⟩
      · intro g hg; simp only at hg; cases hg; simp [lastPaused, hne]
      · simp [altOK, hfresh, h.alt]
      · intro g hg; simp only at hg
        simp only [lastPaused]; split
        · omega
        · exact h.fresh g (by omega)
      · intro g hg; simp only at hg; cases hg; simp
    · rename_i hc
      have he : s.pausedSc = [] := by simpa using hc
      refine ⟨?_, h.alt, ?_, ?_, h.want⟩
      · intro g hg; simp only at hg; cases hg; simp [hfresh, he]
      · intro g hg; simp only at hg; exact h.fresh g (by omega)
      · intro g hg; simp only at hg; cases hg; simp
  | stop =>
    simp only [istep]
    exact ⟨(by intro g hg; cases hg), h.alt, h.fresh, (by intro g hg; cases hg), h.want⟩
  | pause sc => exact iinv_appPause hp h sc
  | resume sc => exact iinv_appResume hr h sc
  | stopProducing sc => exact iinv_appResume hr h sc
  | opn sc => exact iinv_openSub hp hr h sc false
  | opnHalf sc => exact iinv_openSub hp hr h sc true
  | close sc => exact iinv_closeSub hr h sc
  | rclose sc => simp only [istep]; split
                 · exact iinv_scInput hp hr h sc _
                 · exact h
  | lose sc => simp only [istep]; split
               · exact h.raise _
               · exact iinv_scInput hp hr h sc _
  | loseW sc => simp only [istep]; split
                · exact iinv_scInput hp hr h sc _
                · exact h.raise _
  | ropen sc =>
    simp only [istep]
    split
    · exact h
    · have ho : IInv { s with openSc := sAdd sc s.openSc, log := .opened sc :: s.log } :=
        h.push (.opened sc) (Or.inr ⟨sc, rfl⟩) rfl rfl rfl rfl
      have h1 : IInv (Inb.setBeh (Inb.setPend (Inb.setSc { s with openSc := sAdd sc s.openSc, log := .opened sc :: s.log }
                  sc (Gen.SubChannel.init, false)) sc (0, false)) sc 0) := ho.congr rfl rfl rfl rfl
      split
      · exact iinv_connectApp hp hr h1 sc _
      · exact h1.congr rfl rfl rfl rfl
  | rdata sc => simp only [istep]; split
                · exact iinv_scInput hp hr h sc _
                · exact h
  | listen mode =>
    simp only [istep]
    split
    · exact h.raise _
    · exact iinv_connectAll hp hr mode _ (s := { s with listen := some mode, parked := [] }) (h.congr rfl rfl rfl rfl)

theorem iinit_inv : IInv {} :=
  ⟨(by intro g hg; cases hg), rfl, (by intro g _; rfl), (by intro g hg; cases hg), (by intro x; simp [G])⟩

theorem ireach_inv (hp : dcpForwardsPause = true) (hr : dcpForwardsResume = true) {s : Inb} (h : IReach s) : IInv s := by
  induction h with
  | init => exact iinit_inv
  | step op _ ih => exact iinv_step _ op hp hr ih

/-! ## Inbound: local closes, and the pre-listen backlog -/

theorem discard_pausedSc (s : Inb) (sc : Nat) : (s.discard sc).pausedSc = sDel sc s.pausedSc := by
  unfold Inb.discard
  split
  · split
    · unfold Inb.connResume; split <;> rfl
    · rfl
  · rfl

theorem discard_openSc (s : Inb) (sc : Nat) : (s.discard sc).openSc = s.openSc := by
  unfold Inb.discard
  split
  · split
    · unfold Inb.connResume; split <;> rfl
    · rfl
  · rfl

theorem scState_setSc (s : Inb) (sc : Nat) (x : Gen.SubChannel.State × Bool) : (s.setSc sc x).scState sc = x := by
  simp [Inb.scState, Inb.setSc]

/-- who holds a pause, and which subchannels are open, changes in one of two ways only -/
def EffSame (s s' : Inb) : Prop := s'.pausedSc = s.pausedSc ∧ s'.openSc = s.openSc
def EffClosed (s s' : Inb) (sc : Nat) : Prop :=
  sc ∈ s.openSc ∧ s'.pausedSc = sDel sc s.pausedSc ∧ s'.openSc = sDel sc s.openSc

/-! ## building concrete reachable configurations (for the non-vacuity examples) -/

instance (o : Out) (op : Op) : Decidable (opOK o op) := by
  cases op <;> simp only [opOK] <;> infer_instance

instance (c : Cfg) : Decidable (stepOK c) := by
  unfold stepOK; split <;> infer_instance

theorem reach_steps {c : Cfg} (h : Reach c) (n : Nat) (hok : ∀ i, i < n → stepOK (step^[i] c)) :
    Reach (step^[n] c) := by
  induction n with
  | zero => exact h
  | succ n ih =>
    rw [Function.iterate_succ_apply']
    have ih' := ih (fun i hi => hok i (by omega))
    by_cases hs : (step^[n] c).stack = []
    · have : step (step^[n] c) = step^[n] c := by rw [step, hs]
      rw [this]; exact ih'
    · exact Reach.step ih' hs (hok n (by omega))

/-- a whole top-level call, run for `n` micro-steps -/
def callN (c : Cfg) (op : Op) (scripts : List (List Op)) (n : Nat) : Cfg := step^[n] (start c op scripts)

theorem reach_callN {c : Cfg} (h : Reach c) (hs : c.stack = []) (op : Op) (scripts : List (List Op)) (n : Nat)
    (hok : ∀ i, i < n → stepOK (step^[i] (start c op scripts))) : Reach (callN c op scripts n) :=
  reach_steps (Reach.call op scripts h hs) n hok

/-! ## the rotation -/

/-- the only ways `_all_producers` changes in one micro-step -/
inductive AllpChange (a b : List Nat) : Prop
  | same : b = a → AllpChange a b
  | append (p : Nat) : b = a ++ [p] → AllpChange a b
  | erase (p : Nat) : b = a.erase p → AllpChange a b
  | rotate (p : Nat) (rest : List Nat) : a = p :: rest → b = rest ++ [p] → AllpChange a b

theorem pauseLoop_allp (ps : List Nat) (c : Cfg) : (pauseLoop ps c).o.allp = c.o.allp := by
  induction ps generalizing c with
  | nil => rfl
  | cons p ps ih => simp only [pauseLoop]; split <;> simp [ih]

theorem pauseProducing_allp (c : Cfg) : (pauseProducing c).o.allp = c.o.allp := by
  unfold pauseProducing; split <;> simp [pauseLoop_allp]

theorem sendRecord_allp (c : Cfg) (b : Bool) : (sendRecord c b).o.allp = c.o.allp := by
  unfold sendRecord; split <;> simp [pauseProducing_allp, Cfg.emit]

theorem resumeProducing_allp (c : Cfg) : (resumeProducing c).o.allp = c.o.allp := by
  unfold resumeProducing; split <;> rfl

theorem opUnreg_allp (c : Cfg) (sc : Nat) : AllpChange c.o.allp (opUnreg c sc).o.allp := by
  unfold opUnreg
  split
  · exact .same rfl
  · rename_i p _
    have hpop : (unregPop c sc p).o.allp = c.o.allp := by unfold unregPop; split <;> rfl
    split
    · exact .same (by simp [Cfg.raiseOp, Cfg.emit, hpop])
    · split
      · exact .erase p (by simp [Cfg.raiseOp, Cfg.emit, unregDrop, hpop])
      · exact .erase p (by simp [unregDrop, hpop])

theorem exec_allp (c : Cfg) (op : Op) : AllpChange c.o.allp (exec c op).o.allp := by
  cases op with
  | write b =>
    simp only [exec, opWrite]
    split
    · split
      · exact .same rfl
      · exact .same (by rw [sendRecord_allp])
    · exact .same rfl
  | pause => exact .same (pauseProducing_allp c)
  | resume => exact .same (resumeProducing_allp c)
  | stopProducing => exact .same (pauseProducing_allp c)
  | reg sc p s =>
    have hr : (regState c.o sc p s).allp = c.o.allp ++ [p] := by unfold regState; split <;> rfl
    simp only [exec, opReg]
    split
    · exact .same rfl
    · split
      · exact .append p (by simp [Cfg.raiseOp, Cfg.emit, hr])
      · split
        · exact .append p hr
        · exact .append p hr
  | unreg sc => exact opUnreg_allp c sc
  | close sc =>
    simp only [exec, opClose]
    split
    · exact .same rfl
    · split
      · exact opUnreg_allp c sc
      · exact .same rfl
  | use =>
    simp only [exec, opUse]
    split
    · exact .same rfl
    · exact .same (by rw [resumeProducing_allp])
  | stop =>
    simp only [exec, opStop]
    split
    · exact .same rfl
    · exact .same (by rw [pauseProducing_allp])
  | pull p =>
    simp only [exec, opPull]
    split
    · split
      · exact .same rfl
      · split <;> exact .same rfl
    · exact .same rfl
  | failWrite => exact .same rfl

theorem quiet_o (c : Cfg) : (quiet c).o = c.o := by
  unfold quiet; split <;> rfl

theorem giveTurn_o (c : Cfg) (p : Nat) : (giveTurn c p).o = c.o ∧ (giveTurn c p).log = c.log := by
  unfold giveTurn; split
  · exact ⟨rfl, rfl⟩
  · split <;> exact ⟨rfl, rfl⟩

theorem step_allp (c : Cfg) : AllpChange c.o.allp (step c).o.allp := by
  unfold step
  split
  · exact .same rfl
  · unfold loopStep
    split
    · exact .same rfl
    · split
      · exact .same (by rw [sendRecord_allp])
      · split
        · exact .same rfl
        · split
          · exact .same rfl
          · split
            · exact .same rfl
            · rename_i p rest ha
              unfold nextTurn
              split
              · exact .rotate p rest ha rfl
              · exact .rotate p rest ha (by rw [(giveTurn_o _ p).1])
  · exact .same rfl
  · exact .same rfl
  · rename_i op r k _ hk
    exact exec_allp { c with stack := .ops r :: k } op
  · exact .same rfl
  · rename_i sc r k hk
    unfold pullFailed; rw [quiet_o]
    exact opUnreg_allp { c with stack := k } sc
  · rename_i sc op r k _ hk
    exact exec_allp { c with stack := .pull sc r :: k } op

theorem idxOf_erase_le {q p : Nat} {a : List Nat} (hq : q ∈ a) (hne : q ≠ p) :
    (a.erase p).idxOf q ≤ a.idxOf q := by
  induction a with
  | nil => cases hq
  | cons x xs ih =>
    by_cases hx : x = p
    · subst hx
      simp only [List.erase_cons_head]
      have : q ∈ xs := by
        rcases List.mem_cons.1 hq with h | h
        · exact absurd h hne
        · exact h
      rw [List.idxOf_cons_ne _ (Ne.symm hne)]; omega
    · rw [List.erase_cons_tail (by simpa using hx)]
      by_cases hxq : x = q
      · subst hxq; simp
      · have : q ∈ xs := by
          rcases List.mem_cons.1 hq with h | h
          · exact absurd h.symm hxq
          · exact h
        rw [List.idxOf_cons_ne _ hxq, List.idxOf_cons_ne _ hxq]
        have := ih this; omega

/-- a waiting producer's place in the rotation never gets worse; a turn of the head moves
    everybody else one place forward -/
theorem position_change {a b : List Nat} (h : AllpChange a b) (hnd : a.Nodup) {q : Nat} (hq : q ∈ a) (hq' : q ∈ b) :
    b.idxOf q ≤ a.idxOf q ∨ (∃ rest, a = q :: rest ∧ b = rest ++ [q]) := by
  cases h with
  | same e => left; rw [e]; exact Nat.le_refl _
  | append p e => left; rw [e, List.idxOf_append_of_mem hq]; exact Nat.le_refl _
  | erase p e =>
    left; rw [e]
    by_cases hne : q = p
    · subst hne
      rw [e, hnd.mem_erase_iff] at hq'
      exact absurd rfl hq'.1
    · exact idxOf_erase_le hq hne
  | rotate p rest ea eb =>
    by_cases hne : q = p
    · right; subst hne; exact ⟨rest, ea, eb⟩
    · left
      have hqr : q ∈ rest := by
        rw [ea] at hq
        rcases List.mem_cons.1 hq with h | h
        · exact absurd h hne
        · exact h
      rw [eb, ea, List.idxOf_append_of_mem hqr, List.idxOf_cons_ne _ (Ne.symm hne)]; omega

theorem turn_step {c : Cfg} (h : Inv c) {k : List Frame} (hk : c.stack = .loop :: k) (hp : c.o.paused = false)
    (hu : c.o.unsent = []) (hne : c.o.pausedSet ≠ []) :
    ∃ p rest, c.o.allp = p :: rest ∧ p ∈ c.o.pausedSet ∧ (step c).o.allp = rest ++ [p] ∧
      (step c).log = .resume p :: c.log ∧ p ∈ (step c).o.unpausedSet := by
  have hemp : c.o.pausedSet.isEmpty = false := by simpa using hne
  cases ha : c.o.allp with
  | nil =>
    exfalso
    obtain ⟨y, hy⟩ := List.exists_mem_of_ne_nil _ hne
    have := (h.o.part y).2 (Or.inl hy)
    rw [ha] at this; cases this
  | cons p rest =>
    have hpP := head_paused c.o h.o p rest ha hne
    refine ⟨p, rest, rfl, hpP, ?_⟩
    have hstep : step c = giveTurn { c with o := { c.o with allp := rest ++ [p], pausedSet := sDel p c.o.pausedSet, unpausedSet := sAdd p c.o.unpausedSet }, log := .resume p :: c.log } p := by
      rw [step, hk]
      simp only [loopStep, hp, hu, checkInv_of _ h.o, hemp, ha, nextTurn, hpP]
      simp [hk]
    rw [hstep, (giveTurn_o _ p).1, (giveTurn_o _ p).2]
    exact ⟨rfl, rfl, by simp⟩

/-! ## `resume` is only ever sent by the rotation loop -/

def NoNewResume (c c' : Cfg) : Prop := ∀ p, Ev.resume p ∈ c'.log → Ev.resume p ∈ c.log

theorem NoNewResume.cons {c c' : Cfg} {e : Ev} (h : c'.log = e :: c.log) (he : ∀ p, e ≠ .resume p) : NoNewResume c c' := by
  intro p hp; rw [h] at hp
  rcases List.mem_cons.1 hp with h1 | h1
  · exact absurd h1.symm (he p)
  · exact h1

theorem pauseLoop_nnr (ps : List Nat) (c : Cfg) : NoNewResume c (pauseLoop ps c) := by
  induction ps generalizing c with
  | nil => exact fun _ h => h
  | cons q ps ih =>
    simp only [pauseLoop]; split
    · intro p hp
      have := ih _ p hp
      simp only [List.mem_cons] at this
      rcases this with h1 | h1
      · cases h1
      · exact h1
    · exact ih c

theorem pauseProducing_nnr (c : Cfg) : NoNewResume c (pauseProducing c) := by
  unfold pauseProducing; split
  · exact fun _ h => h
  · exact pauseLoop_nnr _ _

theorem sendRecord_nnr (c : Cfg) (b : Bool) : NoNewResume c (sendRecord c b) := by
  unfold sendRecord; split
  · intro p hp
    have := pauseProducing_nnr _ p hp
    simp only [Cfg.emit, List.mem_cons] at this
    rcases this with h1 | h1
    · cases h1
    · exact h1
  · exact NoNewResume.cons rfl (by intro p h; cases h)

theorem opUnreg_nnr (c : Cfg) (sc : Nat) : NoNewResume c (opUnreg c sc) := by
  intro q hq
  unfold opUnreg at hq
  split at hq
  · simpa [Cfg.raiseOp, Cfg.emit] using hq
  · rename_i p _
    have hpop : ∀ q, Ev.resume q ∈ (unregPop c sc p).log → Ev.resume q ∈ c.log := by
      intro q hq; unfold unregPop at hq; split at hq
      · simpa using hq
      · exact hq
    split at hq
    · apply hpop; simpa [Cfg.raiseOp, Cfg.emit] using hq
    · split at hq
      · apply hpop; simpa [Cfg.raiseOp, Cfg.emit, unregDrop] using hq
      · apply hpop; simpa [unregDrop] using hq

theorem exec_nnr (c : Cfg) (op : Op) : NoNewResume c (exec c op) := by
  cases op with
  | write b =>
    simp only [exec, opWrite]
    split
    · split
      · exact fun _ h => h
      · exact sendRecord_nnr _ b
    · exact fun _ h => h
  | pause => exact pauseProducing_nnr c
  | resume => simp only [exec, resumeProducing]; split <;> exact fun _ h => h
  | stopProducing => exact pauseProducing_nnr c
  | reg sc p s =>
    intro q hq
    simp only [exec, opReg] at hq
    split at hq
    · simpa [Cfg.raiseOp, Cfg.emit] using hq
    · split at hq
      · simpa [Cfg.raiseOp, Cfg.emit] using hq
      · split at hq <;> simpa using hq
  | unreg sc => exact opUnreg_nnr c sc
  | close sc =>
    simp only [exec, opClose]
    split
    · exact NoNewResume.cons rfl (by intro p h; cases h)
    · split
      · exact opUnreg_nnr c sc
      · exact fun _ h => h
  | use =>
    intro q hq
    simp only [exec, opUse] at hq
    split at hq
    · simpa [Cfg.raiseOp, Cfg.emit] using hq
    · unfold resumeProducing at hq; split at hq <;> simpa using hq
  | stop =>
    intro q hq
    simp only [exec, opStop] at hq
    split at hq
    · simpa [Cfg.raiseOp, Cfg.emit] using hq
    · have := pauseProducing_nnr _ q hq
      simpa using this
  | pull p =>
    intro q hq
    simp only [exec, opPull] at hq
    split at hq
    · split at hq
      · exact hq
      · split at hq <;> simpa using hq
    · exact hq
  | failWrite => intro q hq; simpa [exec, Cfg.raiseOp, Cfg.emit] using hq

theorem quiet_nnr (c : Cfg) : NoNewResume c (quiet c) := by
  intro q hq
  unfold quiet at hq
  split at hq
  · rename_i e l hl; rw [hl]; exact List.mem_cons_of_mem _ hq
  · exact hq

theorem step_resume (c : Cfg) (p : Nat) (h : Ev.resume p ∈ (step c).log) :
    Ev.resume p ∈ c.log ∨ (c.o.paused = false ∧ ∃ k, c.stack = .loop :: k) := by
  unfold step at h
  split at h
  · exact Or.inl h
  · rename_i k hk
    by_cases hp : c.o.paused = true
    · left; simpa [loopStep, hp] using h
    · right; exact ⟨by simpa using hp, k, hk⟩
  · exact Or.inl h
  · left; simpa using h
  · rename_i op r k _ hk
    exact Or.inl (exec_nnr { c with stack := .ops r :: k } op p h)
  · exact Or.inl h
  · rename_i sc r k hk
    left
    exact opUnreg_nnr { c with stack := k } sc p (quiet_nnr _ p h)
  · rename_i sc op r k _ hk
    exact Or.inl (exec_nnr { c with stack := .pull sc r :: k } op p h)

/-! ## `PullToPush._pull`: the error path -/

theorem opUnreg_ok (c : Cfg) (sc p : Nat) (h : Inv c) (hl : c.o.scp.lookup sc = some p) :
    opUnreg c sc = unregDrop (unregPop c sc p) p := by
  have hm := lookup_mem hl
  have hpall : p ∈ c.o.allp := (h.o.scpVals p).2 (List.mem_map.2 ⟨(sc, p), hm, rfl⟩)
  have hall : (unregPop c sc p).o.allp = c.o.allp := by unfold unregPop; split <;> rfl
  have hO : InvO (unregDrop (unregPop c sc p) p).o := by
    have hi := opUnreg_inv c sc h
    unfold opUnreg at hi
    simp only [hl, hall, hpall, not_true_eq_false, if_false] at hi
    split at hi
    · -- the branch that raises cannot be taken: it would log an internal error
      rename_i hck
      exfalso
      exact hi.noerr .assertion (by simp [Cfg.raiseOp, Cfg.emit]) (by simp [isInternal])
    · exact hi.o
  unfold opUnreg
  simp only [hl, hall, hpall, not_true_eq_false, if_false, checkInv_of _ hO, Bool.not_true, Bool.false_eq_true]

theorem pullFailed_spec (c : Cfg) (sc p : Nat) (k : List Frame) (h : Inv { c with stack := k })
    (hl : c.o.scp.lookup sc = some p) :
    pullFailed c sc k = unregDrop (unregPop { c with stack := k } sc p) p := by
  unfold pullFailed
  rw [opUnreg_ok { c with stack := k } sc p h hl]
  unfold quiet unregDrop
  rfl

end WV.Proofs.C15
