import WV.Model.C02

/-! Helper lemmas for C02: the toy crypto instance is ideal; label encoding and `purpose` are injective. -/
namespace WV.Proofs.C02
open WV WV.C02 WV.Gen

/-! ## `encNat` is injective -/

theorem pow2_odd_inj : ∀ (x y a b : Nat), 2 ^ x * (2 * a + 1) = 2 ^ y * (2 * b + 1) → x = y ∧ a = b
  | 0, 0, a, b, h => by simp at h; exact ⟨rfl, by omega⟩
  | 0, y + 1, a, b, h => by
      exfalso
      have : 2 ^ (y + 1) * (2 * b + 1) = 2 * (2 ^ y * (2 * b + 1)) := by rw [Nat.pow_succ]; ac_rfl
      rw [this] at h; simp at h; omega
  | x + 1, 0, a, b, h => by
      exfalso
      have : 2 ^ (x + 1) * (2 * a + 1) = 2 * (2 ^ x * (2 * a + 1)) := by rw [Nat.pow_succ]; ac_rfl
      rw [this] at h; simp at h; omega
  | x + 1, y + 1, a, b, h => by
      have h1 : 2 ^ (x + 1) * (2 * a + 1) = 2 * (2 ^ x * (2 * a + 1)) := by rw [Nat.pow_succ]; ac_rfl
      have h2 : 2 ^ (y + 1) * (2 * b + 1) = 2 * (2 ^ y * (2 * b + 1)) := by rw [Nat.pow_succ]; ac_rfl
      rw [h1, h2] at h
      have := pow2_odd_inj x y a b (by omega)
      exact ⟨by omega, this.2⟩

theorem encNat_pos (x : Nat) (xs : List Nat) : 0 < encNat (x :: xs) := by
  simp only [encNat]
  exact Nat.mul_pos (Nat.pow_pos (by decide)) (by omega)

theorem encNat_inj : ∀ (a b : List Nat), encNat a = encNat b → a = b
  | [], [], _ => rfl
  | [], y :: ys, h => by have := encNat_pos y ys; rw [← h] at this; simp [encNat] at this
  | x :: xs, [], h => by have := encNat_pos x xs; rw [h] at this; simp [encNat] at this
  | x :: xs, y :: ys, h => by
      simp only [encNat] at h
      have := pow2_odd_inj _ _ _ _ h
      rw [this.1, encNat_inj xs ys this.2]

/-! ## the toy instance satisfies every ideal property -/

theorem toyOpen_seal (k : Bytes) (n : Nat) (p : Bytes) : toyOpen k (1 :: n :: k.length :: (k ++ p)) = some p := by
  simp [toyOpen]

theorem toy_ideal : toy.Ideal where
  sha_inj a b h := by
    simp [toy] at h; exact encNat_inj a b h
  sha_len a b := by simp [toy]
  hkdf_inj k k' i j h := by
    simp only [toy, List.cons.injEq] at h
    obtain ⟨hl, happ⟩ := h
    have := List.append_inj happ hl
    exact this
  box_auth k c p h := by
    match c, h with
    | 1 :: n :: kl :: rest, h =>
      simp only [toy, toyOpen] at h
      split at h
      · rename_i hc
        refine ⟨n, ?_⟩
        simp only [toy]
        injection h with h
        rw [← h, hc.1.symm]
        have := List.take_append_drop kl rest
        rw [hc.2] at this
        rw [this]
      · cases h
  box_open k n p := by simp [toy, toyOpen]
  box_key k k' n p hne := by
    simp only [toy, toyOpen]
    split
    · rename_i hc
      exfalso
      apply hne
      have h2 := hc.2
      rw [List.take_left' rfl] at h2
      exact h2
    · rfl
  pake_reflect s pw := by simp [toy]

/-! ## labels, `purpose`, phase keys -/

theorem asciiEncode_some {s : String} {a : Bytes} (h : asciiEncode s = some a) : a = s.toList.map Char.toNat := by
  unfold asciiEncode at h
  simp only at h
  split at h
  · injection h with h; exact h.symm
  · cases h

theorem asciiEncode_inj {s t : String} {a : Bytes} (hs : asciiEncode s = some a) (ht : asciiEncode t = some a) : s = t := by
  have := (asciiEncode_some hs).symm.trans (asciiEncode_some ht)
  rw [List.map_inj_right (fun x y h => Char.toNat_inj.mp h)] at this
  exact String.toList_inj.mp this

/-- `b"wormhole:phase:"` -/
def phasePrefix : Bytes := [119, 111, 114, 109, 104, 111, 108, 101, 58, 112, 104, 97, 115, 101, 58]

/-- the generated operand list read as bytes: literal ++ sha256(side) ++ sha256(phase) -/
theorem purpose_eq (C : Crypto) (sb pb : Bytes) :
    purpose C sb pb = phasePrefix ++ (C.sha256 sb ++ C.sha256 pb) := by
  simp [purpose, Gen.C02.phasePurpose, partBytes, phasePrefix]

theorem purpose_inj {C : Crypto} (hC : C.Ideal) {sb pb sb' pb' : Bytes}
    (h : purpose C sb pb = purpose C sb' pb') : sb = sb' ∧ pb = pb' := by
  rw [purpose_eq, purpose_eq] at h
  have h1 := List.append_cancel_left h
  have h2 := List.append_inj h1 (hC.sha_len sb sb')
  exact ⟨hC.sha_inj _ _ h2.1, hC.sha_inj _ _ h2.2⟩

theorem phaseKey_inj {C : Crypto} (hC : C.Ideal) {k k' sb pb sb' pb' : Bytes}
    (h : phaseKey C k sb pb = phaseKey C k' sb' pb') : k = k' ∧ sb = sb' ∧ pb = pb' := by
  have := hC.hkdf_inj _ _ _ _ h
  exact ⟨this.1, purpose_inj hC this.2⟩

theorem phaseKey?_some {C : Crypto} {k : Bytes} {σ φ : String} {dk : Bytes} (h : phaseKey? C k σ φ = some dk) :
    ∃ sb pb, asciiEncode σ = some sb ∧ asciiEncode φ = some pb ∧ dk = phaseKey C k sb pb := by
  unfold phaseKey? at h
  split at h
  · rename_i sb pb hs hp
    injection h with h
    exact ⟨sb, pb, hs, hp, h.symm⟩
  · cases h

theorem phaseKey?_inj {C : Crypto} (hC : C.Ideal) {k k' : Bytes} {σ φ σ' φ' : String} {dk : Bytes}
    (h : phaseKey? C k σ φ = some dk) (h' : phaseKey? C k' σ' φ' = some dk) : k = k' ∧ σ = σ' ∧ φ = φ' := by
  obtain ⟨sb, pb, hs, hp, h⟩ := phaseKey?_some h
  obtain ⟨sb', pb', hs', hp', h'⟩ := phaseKey?_some h'
  have := phaseKey_inj hC (h.symm.trans h')
  obtain ⟨hk, hsb, hpb⟩ := this
  subst hsb; subst hpb
  exact ⟨hk, asciiEncode_inj hs hs', asciiEncode_inj hp hp'⟩

end WV.Proofs.C02
