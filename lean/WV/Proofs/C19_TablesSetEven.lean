import WV.Model.C19
/-! C19: the word *set* `get_completions` iterates (even) is the set of words `choose_words` draws from. -/
namespace WV.Proofs.C19
open WV.Gen
theorem evenSet_sub : ∀ w ∈ Words.evenSetCP, w ∈ Words.evenCP := by decide +kernel
theorem even_sub_set : ∀ w ∈ Words.evenCP, w ∈ Words.evenSetCP := by decide +kernel
end WV.Proofs.C19
