import WV.Proofs.C13
import WV.Proofs.C13_Open
import WV.Proofs.C13_Honest

/-!
C13 property theorems — subchannels open once, close once, honour the subprotocol contract.

All statements are about `WV.C13.step`/`run`/`wrun`, the functions the correspondence driver
executes, over the *generated* SubChannel table and the *generated* wiring flags.  Histories
(`ops`) are arbitrary lists: application calls (`connect`, `listen`, `write`, `lose`,
`loseWrite`) interleaved with arbitrary inbound records (`rxOpen/rxData/rxClose`, any scid, any
sequence number — honest or not).
-/
namespace WV.Props.C13
open WV WV.C13 WV.Gen

/-! ## ids_disjoint -/

/-- `choose_role` makes the two sides different: one leader, one follower -/
theorem roles_differ {a b : String} {la lb : Bool} {fa fb : Nat}
    (ha : chooseRole a b = some (la, fa)) (hb : chooseRole b a = some (lb, fb)) : la = !lb := by
  unfold chooseRole at ha hb
  by_cases h1 : b < a
  · have h2 : ¬ a < b := String.lt_asymm h1
    simp [h1, h2] at ha hb
    rw [ha.1, hb.1]; rfl
  · by_cases h2 : a < b
    · simp [h1, h2] at ha hb
      rw [ha.1, hb.1]; rfl
    · simp [h1, h2] at ha

/-- every id a side ever allocates (= puts into an OPEN) is non-zero, odd on the leader and even
    on the follower, and ids are handed out in strictly increasing order (so never twice) -/
theorem ids_one_side {my their : String} {l : Bool} {f : Nat} (h : chooseRole my their = some (l, f))
    (ex : Option (List String)) (ops : List Op) :
    (∀ c ∈ openIds (run (Side.init l f ex) ops).log, c ≠ 0 ∧ c % 2 = (if l then 1 else 0)) ∧
    (openIds (run (Side.init l f ex) ops).log).Pairwise (· < ·) := by
  have ev := run_evo ops _ (WF_init l f ex)
  have := ev.ids (idsOK_start h ex)
  have hl : (run (Side.init l f ex) ops).leader = l := ev.leader
  obtain ⟨_, _, h3, h4⟩ := this
  rw [hl] at h3
  exact ⟨fun c hc => ⟨by have := (h3 c hc).2.1; omega, (h3 c hc).1⟩, h4⟩

/-- **ids_disjoint.**  After `choose_role` on both sides, whatever the two applications and the
    network do, the two sides never allocate the same subchannel id, and never id 0 (the control
    channel). -/
theorem ids_disjoint {sa sb : String} {ea eb : Option (List String)} {w : World}
    (hw : World.init sa sb ea eb = some w) (ops : List WOp) :
    (∀ c ∈ openIds (wrun w ops).a.log, c ≠ 0 ∧ c ∉ openIds (wrun w ops).b.log) ∧
    (∀ c ∈ openIds (wrun w ops).b.log, c ≠ 0) := by
  unfold World.init at hw
  cases ha : chooseRole sa sb with
  | none => simp [ha] at hw
  | some ra =>
    cases hb : chooseRole sb sa with
    | none => simp [ha, hb] at hw
    | some rb =>
      obtain ⟨la, fa⟩ := ra
      obtain ⟨lb, fb⟩ := rb
      simp [ha, hb] at hw
      subst hw
      have hd := roles_differ ha hb
      have inv : WInv la lb _ := wrun_inv ops
        { a := Side.init la fa ea, b := Side.init lb fb eb, dAB := 0, dBA := 0 }
        ⟨WF_init _ _ _, WF_init _ _ _, idsOK_start ha ea, idsOK_start hb eb, rfl, rfl⟩
      obtain ⟨_, _, ⟨_, _, a3, _⟩, ⟨_, _, b3, _⟩, la', lb'⟩ := inv
      rw [la'] at a3
      rw [lb'] at b3
      refine ⟨fun c hc => ⟨by have := (a3 c hc).2.1; omega, fun hcb => ?_⟩, fun c hc => by have := (b3 c hc).2.1; omega⟩
      have p1 := (a3 c hc).1
      have p2 := (b3 c hcb).1
      subst hd
      cases lb <;> simp at p1 p2 <;> omega

/-! ## connectionLost_once, nothing_after_lost -/

/-- **connectionLost_once.**  Over any history, no protocol has `connectionLost` called twice. -/
theorem connectionLost_once (l : Bool) (f : Nat) (ex : Option (List String)) (ops : List Op) (p : Nat) :
    (run (Side.init l f ex) ops).log.count (.lost p) ≤ 1 :=
  okLost_count (okLost_run l f ex ops p)

/-- **nothing_after_lost.**  Once protocol `p` was told `connectionLost`, none of its callbacks
    (`dataReceived`, `connectionMade`, `connectionLost`, read/writeConnectionLost, nor a second
    `buildProtocol` for it) is ever called again. -/
theorem nothing_after_lost (l : Bool) (f : Nat) (ex : Option (List String)) (ops : List Op) (p : Nat)
    (pre post : List Eff) (h : (run (Side.init l f ex) ops).log = pre ++ .lost p :: post) :
    ∀ e ∈ post, isCb p e = false := by
  have := okLost_split (okLost_run l f ex ops p) h
  intro e he
  simp [quiet] at this
  exact this e he

/-- the closing signal each row owes: `closed` is entered from a connected state only together
    with the callback that completes the close (`connectionLost` for a normal protocol; the
    missing half `read/writeConnectionLost` for a half-closeable one) -/
def closeSignalled (st : SubChannel.State) (i : SubChannel.Input) : Bool :=
  match SubChannel.table st i with
  | none => true
  | some (st', outs) =>
    !(st' == .closed && st != .closed) ||
      (if st == .open_full || st == .closing then outs.contains .signal_connectionLost
       else if st == .read_closed then outs.contains .signal_writeConnectionLost
       else if st == .write_closed then outs.contains .signal_readConnectionLost
       else false)

/-- **connectionLost_once (the "at least once" half, per row of the generated table).**  Together
    with `connectionLost_once`/`nothing_after_lost`: a subchannel that reaches `closed` has told its
    protocol exactly once. -/
theorem closed_is_signalled (st : SubChannel.State) (i : SubChannel.Input) : closeSignalled st i = true := by
  cases st <;> cases i <;> rfl

/-- in every state that has a protocol and still reads, a DATA record is handed to
    `dataReceived` and nothing else happens -/
def dataDelivered (st : SubChannel.State) : Bool :=
  match SubChannel.table st .remote_data with
  | none => st == .closed || st == .read_closed
  | some (st', outs) =>
    if st == .unconnected then st' == .unconnected && outs == [.queue_remote_data]
    else st' == st && outs == [.signal_dataReceived]

theorem data_rows_deliver (st : SubChannel.State) : dataDelivered st = true := by
  cases st <;> rfl

/-! ## write_after_close_errors -/

/-- **write_after_close_errors.**  From any well-formed state (every reachable state is:
    `reachable_wf`): if `loseConnection()` / `loseWriteConnection()` of protocol `pid` returned
    normally, then after *any* further history a `write` on it raises and puts nothing on the
    wire (the log — records sent included — is unchanged). -/
theorem write_after_close_errors (s : Side) (hwf : WF s) (pid : Nat) (closeOp : Op)
    (hop : closeOp = .lose pid ∨ closeOp = .loseWrite pid) (hok : (step s closeOp).2 = none)
    (ops : List Op) (d : Bytes) :
    (step (run (step s closeOp).1 ops) (.write pid d)).2 ≠ none ∧
    (step (run (step s closeOp).1 ops) (.write pid d)).1.log = (run (step s closeOp).1 ops).log := by
  have hwf1 : WF (step s closeOp).1 := (step_evo hwf closeOp).wf
  -- the close call went through SubChannel.local_close
  have key : ∃ (uid : Nat) (k : PKind), findProto pid s.subs 0 = some (uid, k) ∧
      scInput uid .local_close [] s = ((step s closeOp).1, none) := by
    rcases hop with rfl | rfl
    · simp only [step] at hok ⊢
      cases hf : findProto pid s.subs 0 with
      | none => simp [hf] at hok
      | some x =>
        obtain ⟨uid, k⟩ := x
        simp only [hf] at hok ⊢
        cases k with
        | half => simp at hok
        | full =>
          refine ⟨uid, .full, rfl, ?_⟩
          simp at hok ⊢
          exact Prod.ext rfl hok
    · simp only [step] at hok ⊢
      cases hf : findProto pid s.subs 0 with
      | none => simp [hf] at hok
      | some x =>
        obtain ⟨uid, k⟩ := x
        simp only [hf] at hok ⊢
        cases k with
        | full => simp at hok
        | half =>
          refine ⟨uid, .half, rfl, ?_⟩
          simp at hok ⊢
          exact Prod.ext rfl hok
  obtain ⟨uid, k, hf, hsc⟩ := key
  obtain ⟨c, _, hc, hp⟩ := findProto_sound pid s.subs 0 uid k hf
  simp only [Nat.sub_zero] at hc
  obtain ⟨c1, hc1, hW1, hp1⟩ := close_then_W hc hsc
  generalize (step s closeOp).1 = s1 at *
  have ev := run_evo ops s1 hwf1
  obtain ⟨c2, hc2⟩ := ev.keep uid c1 hc1
  have hrel := ev.subs uid c2 hc2
  rw [hc1] at hrel
  obtain ⟨_, _, _, hW, hsome, _⟩ := hrel
  have hp2 : c2.proto = some (pid, k) := hsome _ (by rw [hp1, hp])
  have hfind : findProto pid (run s1 ops).subs 0 = some (0 + uid, k) :=
    findProto_complete pid _ 0 uid c2 k hc2 hp2
      (fun j' c' k' hj' hp' => ev.wf.uniq j' uid c' c2 pid k' k hj' hc2 hp' hp2)
  simp only [step, hfind, Nat.zero_add]
  exact write_on_W hc2 (hW hW1) d

/-- every state reachable from a fresh side is well-formed (so the theorem above applies to it) -/
theorem reachable_wf (l : Bool) (f : Nat) (ex : Option (List String)) (ops : List Op) :
    WF (run (Side.init l f ex) ops) := (run_evo ops _ (WF_init l f ex)).wf

/-! ## unexpected_refused -/

/-- the declared set really reaches the demultiplexer (generated from `Dilator.dilate` and
    `Manager.__attrs_post_init__` in the working tree) -/
theorem expected_is_wired (ex : Option (List String)) : wired ex = ex := by
  simp [wired, Flags.manager_gets_expected_subprotocols, Flags.demux_gets_expected_subprotocols]

/-- **unexpected_refused.**  In any state: if the application declared
    `expected_subprotocols = ex`, `name ∉ ex`, and nobody listens for `name`, then a (new) OPEN for
    `name` on a free subchannel id is answered by exactly `Ack` + `CLOSE scid`, no protocol is
    built, and nothing is retained: not in `_open_subchannels`, not in `_pending_opens`. -/
theorem unexpected_refused (s : Side) (ex : List String) (seq scid : Nat) (name : String)
    (hex : s.expected = some ex) (hname : ex.contains name = false)
    (hfac : lookup name s.factories = none) (hnew : lookup scid s.open_ = none)
    (hseq : ∀ h, s.highestAcked = some h → h < seq) :
    (step s (.rxOpen seq scid name)).2 = none ∧
    (step s (.rxOpen seq scid name)).1.log = s.log ++ [.ack seq, .txClose s.nextSeq scid] ∧
    (step s (.rxOpen seq scid name)).1.open_ = s.open_ ∧
    (step s (.rxOpen seq scid name)).1.pendingOpens = s.pendingOpens ∧
    (step s (.rxOpen seq scid name)).1.protoCount = s.protoCount := by
  cases hh : s.highestAcked with
  | none =>
    simp only [step, gotRecord, handleOpen, emit, hnew, Option.isSome, Bool.false_eq_true, if_false, gotOpen, hfac,
      Side.demuxExpected, expected_is_wired, hex, hname, sendRec, lookup_append_new' _ _ _ hnew, if_true, hh]
    simp [eraseKey_append_new _ _ _ hnew]
  | some h =>
    have hlt : ¬ seq ≤ h := by have := hseq h hh; omega
    simp only [step, gotRecord, handleOpen, emit, hnew, Option.isSome, Bool.false_eq_true, if_false, gotOpen, hfac,
      Side.demuxExpected, expected_is_wired, hex, hname, sendRec, lookup_append_new' _ _ _ hnew, if_true, hh, hlt,
      decide_false]
    simp [eraseKey_append_new _ _ _ hnew]

/-! ## open_exactly_once -/

/-- an OPEN for which a listener is registered: exactly one `buildProtocol`, at once, followed by
    `connectionMade`; nothing is left pending -/
theorem open_with_listener (s : Side) (k : PKind) (seq scid : Nat) (name : String)
    (hfac : lookup name s.factories = some k) (hnew : lookup scid s.open_ = none)
    (hseq : ∀ h, s.highestAcked = some h → h < seq) :
    (step s (.rxOpen seq scid name)).2 = none ∧
    (step s (.rxOpen seq scid name)).1.log = s.log ++ [.ack seq, .build s.protoCount name, .made s.protoCount] ∧
    (step s (.rxOpen seq scid name)).1.protoCount = s.protoCount + 1 ∧
    (step s (.rxOpen seq scid name)).1.open_ = s.open_ ++ [(scid, s.subs.length)] ∧
    (step s (.rxOpen seq scid name)).1.pendingOpens = s.pendingOpens := by
  obtain ⟨hi, hg⟩ := gotRecord_fresh s seq (handleOpen scid name) hseq
  simp only [step, hg]
  generalize hs' : ({ s with log := s.log ++ [.ack seq], highestAcked := hi } : Side) = s'
  have e1 : s'.subs = s.subs := by rw [← hs']
  have e2 : s'.open_ = s.open_ := by rw [← hs']
  have e3 : s'.factories = s.factories := by rw [← hs']
  have e4 : s'.log = s.log ++ [.ack seq] := by rw [← hs']
  have e5 : s'.protoCount = s.protoCount := by rw [← hs']
  have e6 : s'.pendingOpens = s.pendingOpens := by rw [← hs']
  generalize hs1 : ({ s' with subs := s'.subs ++ [SC.new scid name], open_ := s'.open_ ++ [(scid, s'.subs.length)] } : Side) = s1
  have hc : s1.subs[s'.subs.length]? = some (SC.new scid name) := by rw [← hs1]; simp
  obtain ⟨h1, h2, h3, h4, h5⟩ := connectSC_delivers_queued s1 s'.subs.length (SC.new scid name) k [] hc rfl rfl rfl rfl
  cases hr : connectSC k s'.subs.length s1 with
  | mk s2 e =>
    rw [hr] at h1 h2 h3 h4 h5
    simp only [] at h1 h2 h3 h4 h5
    subst h1
    have hgo : gotOpen s'.subs.length name s1 = (s2, none) := by
      unfold gotOpen
      have : s1.factories = s.factories := by rw [← hs1]; exact e3
      rw [this, hfac]
      exact hr
    rw [← hs1] at hgo
    rw [handleOpen_of_gotOpen_ok s' s2 scid name (by rw [e2]; exact hnew) hgo]
    refine ⟨rfl, ?_, ?_, ?_, ?_⟩
    · rw [h2, ← hs1]; simp [e4, e5, SC.new]
    · rw [h3, ← hs1]; exact congrArg (· + 1) e5
    · rw [h4, ← hs1]; simp [e1, e2]
    · rw [h5, ← hs1]; exact e6

/-- an OPEN nobody listens for yet, for a name the application did not rule out: held pending, at
    the end of that name's queue (arrival order); no protocol is built, nothing is sent but the Ack -/
theorem open_without_listener_pends (s : Side) (seq scid : Nat) (name : String)
    (hfac : lookup name s.factories = none) (hnew : lookup scid s.open_ = none)
    (hallow : ∀ ex, s.expected = some ex → ex.contains name = true)
    (hseq : ∀ h, s.highestAcked = some h → h < seq) :
    (step s (.rxOpen seq scid name)).2 = none ∧
    (step s (.rxOpen seq scid name)).1.log = s.log ++ [.ack seq] ∧
    (step s (.rxOpen seq scid name)).1.protoCount = s.protoCount ∧
    pendingFor name (step s (.rxOpen seq scid name)).1.pendingOpens = pendingFor name s.pendingOpens ++ [s.subs.length] ∧
    (step s (.rxOpen seq scid name)).1.subs = s.subs ++ [SC.new scid name] := by
  obtain ⟨hi, hg⟩ := gotRecord_fresh s seq (handleOpen scid name) hseq
  simp only [step, hg]
  generalize hs' : ({ s with log := s.log ++ [.ack seq], highestAcked := hi } : Side) = s'
  have e1 : s'.subs = s.subs := by rw [← hs']
  have e2 : s'.open_ = s.open_ := by rw [← hs']
  have e3 : s'.factories = s.factories := by rw [← hs']
  have e4 : s'.log = s.log ++ [.ack seq] := by rw [← hs']
  have e5 : s'.protoCount = s.protoCount := by rw [← hs']
  have e6 : s'.pendingOpens = s.pendingOpens := by rw [← hs']
  have e7 : s'.expected = s.expected := by rw [← hs']
  have hgo : gotOpen s'.subs.length name
      { s' with subs := s'.subs ++ [SC.new scid name], open_ := s'.open_ ++ [(scid, s'.subs.length)] } =
      ({ s' with subs := s'.subs ++ [SC.new scid name], open_ := s'.open_ ++ [(scid, s'.subs.length)],
                 pendingOpens := appendAt name s'.subs.length s'.pendingOpens }, none) := by
    unfold gotOpen
    simp only [e3, hfac, Side.demuxExpected, expected_is_wired, e7]
    cases hex : s.expected with
    | none => rfl
    | some ex => simp only [hallow ex hex, if_true]
  rw [handleOpen_of_gotOpen_ok s' _ scid name (by rw [e2]; exact hnew) hgo]
  refine ⟨rfl, e4, e5, ?_, by simp [e1]⟩
  show pendingFor name (appendAt name s'.subs.length s'.pendingOpens) = _
  unfold pendingFor
  rw [lookup_appendAt, e6, e1]
  rfl

/-- `listen(name)` when one OPEN for `name` is pending (SubChannel `uid`, with the DATA `ds` that
    arrived meanwhile queued on it): exactly one `buildProtocol`, `connectionMade`, then the
    queued data in arrival order; the pending entry is consumed. -/
theorem listen_connects_pending (s : Side) (name : String) (k : PKind) (uid : Nat) (c : SC) (ds : List Bytes)
    (hfac : lookup name s.factories = none) (hpend : lookup name s.pendingOpens = some [uid])
    (hc : s.subs[uid]? = some c) (hst : c.st = .unconnected) (hp : c.proto = none)
    (hd : c.pendingData = some ds) (hcl : c.pendingClose = false) :
    (step s (.listen name k)).2 = none ∧
    (step s (.listen name k)).1.log =
      s.log ++ [.build s.protoCount c.name, .made s.protoCount] ++ ds.map (fun d => Eff.data s.protoCount d) ∧
    (step s (.listen name k)).1.pendingOpens = eraseKey name s.pendingOpens ∧
    (step s (.listen name k)).1.protoCount = s.protoCount + 1 := by
  have := connectSC_delivers_queued
    { s with factories := s.factories ++ [(name, k)], pendingOpens := eraseKey name s.pendingOpens } uid c k ds hc hst hp hd hcl
  obtain ⟨h1, h2, h3, _, h5⟩ := this
  cases hr : connectSC k uid { s with factories := s.factories ++ [(name, k)], pendingOpens := eraseKey name s.pendingOpens } with
  | mk s' e =>
    rw [hr] at h1 h2 h3 h5
    simp only [] at h1
    subst h1
    have hstep : step s (.listen name k) = (s', none) := by
      simp only [step, register, hfac, Option.isSome, Bool.false_eq_true, if_false, hpend, connectAll, hr, andThen_none]
    rw [hstep]
    exact ⟨rfl, h2, h5, h3⟩

/-- **open_exactly_once, at `listen` time, for any number of pending OPENs.**  `ps` describes the
    queue for `name` as `listen` finds it, in arrival order: SubChannel, the DATA queued on *that*
    SubChannel, and whether a CLOSE is queued on it (`PendOK`: each is an unconnected SubChannel
    object of its own, registered under its id).  Then `listen(name)` connects them one after the
    other in that order: protocol numbers `protoCount, protoCount+1, …`; for each exactly one
    `buildProtocol`, `connectionMade`, its own queued data in arrival order, then its close
    (`listenEffs`); nothing stays pending. -/
theorem listen_connects_all_pending (s : Side) (name : String) (k : PKind) (ps : List Pend)
    (hfac : lookup name s.factories = none) (hpend : lookup name s.pendingOpens = some (ps.map (·.1)))
    (hnd : (ps.map (·.1)).Nodup) (hok : ∀ p ∈ ps, PendOK s p) :
    (step s (.listen name k)).2 = none ∧
    (step s (.listen name k)).1.log = s.log ++ listenEffs k s.protoCount s.nextSeq ps ∧
    (step s (.listen name k)).1.pendingOpens = eraseKey name s.pendingOpens ∧
    (step s (.listen name k)).1.protoCount = s.protoCount + ps.length := by
  have hok' : ∀ p ∈ ps, PendOK { s with factories := s.factories ++ [(name, k)], pendingOpens := eraseKey name s.pendingOpens } p :=
    fun p hp => hok p hp
  obtain ⟨s', hs', hlog, hpc, hsame, _⟩ := connectAll_spec k ps _ hnd hok'
  have hstep : step s (.listen name k) = (s', none) := by
    simp only [step, register, hfac, Option.isSome, Bool.false_eq_true, if_false, hpend, hs']
  rw [hstep]
  exact ⟨rfl, hlog, hsame.pendingOpens, hpc⟩

/-- … and each of them is handed exactly the data that was queued on *its own* SubChannel: the
    `dataReceived` payloads of the `i`-th protocol built are the `i`-th entry's list (a queue
    shared between SubChannel objects would deliver the union and falsify this). -/
theorem each_pending_gets_its_own_data (s : Side) (name : String) (k : PKind) (ps : List Pend)
    (hfac : lookup name s.factories = none) (hpend : lookup name s.pendingOpens = some (ps.map (·.1)))
    (hnd : (ps.map (·.1)).Nodup) (hok : ∀ p ∈ ps, PendOK s p) (i : Nat) (p : Pend) (hi : ps[i]? = some p) :
    dataOf (s.protoCount + i) ((step s (.listen name k)).1.log.drop s.log.length) = p.2.2.1 := by
  have h := (listen_connects_all_pending s name k ps hfac hpend hnd hok).2.1
  rw [h, List.drop_left]
  exact dataOf_listenEffs k ps s.protoCount s.nextSeq i p hi

/-- **open_exactly_once (run level).**  After *any* history (application calls interleaved with
    arbitrary inbound records), on the side's store of SubChannel objects (one per accepted OPEN
    record and per local `connect()`), protocols and `buildProtocol` calls:

    1. a SubChannel without a protocol is either *pending* — queued exactly under its own name, no
       listener for that name exists, still registered under its id (so `listen` will connect it:
       `listen_connects_all_pending`) — or was *dropped*: registered nowhere, and then either the
       application had declared a set that excludes its name (the refusal of `unexpected_refused`)
       or it is the garbage of a local `connect()` whose id a protocol-violating peer had taken;
       nothing else: no accepted OPEN is ever lost;
    2. a SubChannel with protocol `p`: `buildProtocol` produced `p` exactly once, for this
       SubChannel's subprotocol name, and no other SubChannel has `p`;
    3. `buildProtocol` calls and protocols correspond one to one: protocol numbers below
       `protoCount` were built exactly once and have a SubChannel, others never. -/
theorem open_exactly_once (l : Bool) (f : Nat) (ex : Option (List String)) (ops : List Op) :
    (∀ (uid : Nat) (c : SC), (run (Side.init l f ex) ops).subs[uid]? = some c → c.proto = none →
      (uid ∈ pendingFor c.name (run (Side.init l f ex) ops).pendingOpens ∧
        lookup c.name (run (Side.init l f ex) ops).factories = none ∧
        lookup c.scid (run (Side.init l f ex) ops).open_ = some uid ∧ c.st = .unconnected) ∨
      ((∀ scid : Nat, lookup scid (run (Side.init l f ex) ops).open_ ≠ some uid) ∧
        (∀ name, uid ∉ pendingFor name (run (Side.init l f ex) ops).pendingOpens) ∧
        (Refusable (run (Side.init l f ex) ops) c.name ∨ c.scid ∈ openIds (run (Side.init l f ex) ops).log))) ∧
    (∀ (uid : Nat) (c : SC) (p : Nat) (k : PKind), (run (Side.init l f ex) ops).subs[uid]? = some c →
      c.proto = some (p, k) →
      buildCount p (run (Side.init l f ex) ops).log = 1 ∧ Eff.build p c.name ∈ (run (Side.init l f ex) ops).log ∧
      ∀ (uid' : Nat) (c' : SC) (k' : PKind), (run (Side.init l f ex) ops).subs[uid']? = some c' →
        c'.proto = some (p, k') → uid' = uid) ∧
    (∀ p : Nat, buildCount p (run (Side.init l f ex) ops).log =
        if p < (run (Side.init l f ex) ops).protoCount then 1 else 0) ∧
    (∀ p : Nat, p < (run (Side.init l f ex) ops).protoCount →
      ∃ (uid : Nat) (c : SC) (k : PKind), (run (Side.init l f ex) ops).subs[uid]? = some c ∧ c.proto = some (p, k)) := by
  have h := run_sinv ops _ (SInv_init l f ex)
  generalize run (Side.init l f ex) ops = s at h
  refine ⟨?_, ?_, h.buildOnce, ?_⟩
  · intro uid c hc hp
    rcases h.fate uid c hc hp with g | g | ⟨g1, g2⟩
    · simp at g
    · left
      obtain ⟨us, hl, hm⟩ := mem_pendingFor g
      obtain ⟨g1, _, g3⟩ := h.pendOK c.name us hl
      obtain ⟨_, c0, hc0, _, _, hlk⟩ := g3 uid hm
      rw [hc] at hc0; cases hc0
      exact ⟨g, g1, hlk, (h.unconn uid c hc hp).1⟩
    · right
      refine ⟨g1, ?_, g2⟩
      intro name hm
      obtain ⟨us, hl, hm'⟩ := mem_pendingFor hm
      obtain ⟨_, _, g3⟩ := h.pendOK name us hl
      obtain ⟨_, c0, _, _, _, hlk⟩ := g3 uid hm'
      exact g1 _ hlk
  · intro uid c p k hc hp
    have hlt := h.wf.bound uid c p k hc hp
    obtain ⟨u, c0, k0, hc0, hp0, hb⟩ := h.built p hlt
    have : u = uid := h.wf.uniq u uid c0 c p k0 k hc0 hc hp0 hp
    subst this
    rw [hc] at hc0; cases hc0
    refine ⟨by rw [h.buildOnce p]; simp [hlt], hb, ?_⟩
    intro uid' c' k' hc' hp'
    exact h.wf.uniq uid' u c' c p k' k hc' hc hp' hp
  · intro p hp
    obtain ⟨u, c, k, hc, hpr, _⟩ := h.built p hp
    exact ⟨u, c, k, hc, hpr⟩

/-- a SubChannel never gets a second protocol, and no protocol is shared by two SubChannels: what
    protocol `x` SubChannel `uid` has after `ops1` it still has after any `ops2` -/
theorem protocol_never_replaced (l : Bool) (f : Nat) (ex : Option (List String)) (ops1 ops2 : List Op)
    (uid : Nat) (c : SC) (x : Nat × PKind)
    (h : (run (Side.init l f ex) ops1).subs[uid]? = some c) (hx : c.proto = some x) :
    ∃ c' : SC, (run (run (Side.init l f ex) ops1) ops2).subs[uid]? = some c' ∧ c'.proto = some x ∧
      c'.scid = c.scid ∧ c'.name = c.name := by
  have ev := run_evo ops2 _ (reachable_wf l f ex ops1)
  obtain ⟨c', hc'⟩ := ev.keep uid c h
  have := ev.subs uid c' hc'
  rw [h] at this
  exact ⟨c', hc', this.2.2.2.2.1 x hx, this.1, this.2.1⟩

/-! ## receiver side, per record -/

/-- a (new) DATA record for a registered SubChannel whose protocol still reads is handed to
    exactly that protocol, at once; nothing else changes -/
theorem data_record_delivered (s : Side) (q scid uid : Nat) (d : Bytes) (c : SC) (pb : Nat) (k : PKind)
    (hseq : ∀ h, s.highestAcked = some h → h < q)
    (hl : lookup scid s.open_ = some uid) (hc : s.subs[uid]? = some c) (hp : c.proto = some (pb, k))
    (hst : reading c.st = true) :
    (step s (.rxData q scid d)).2 = none ∧ (step s (.rxData q scid d)).1.log = s.log ++ [.ack q, .data pb d] ∧
    ∀ u : Nat, (step s (.rxData q scid d)).1.subs[u]? = s.subs[u]? := by
  obtain ⟨hi, hg⟩ := gotRecord_fresh s q (handleData scid d) hseq
  simp only [step, hg]
  obtain ⟨s', hs', hlog, _, hself, hoth, _⟩ := handleData_connected
    { s with log := s.log ++ [.ack q], highestAcked := hi } scid uid d c pb k hl hc hp hst
  rw [hs']
  refine ⟨rfl, by rw [hlog]; simp, ?_⟩
  intro u
  by_cases hu : u = uid
  · subst hu; rw [hself]; exact hc.symm
  · exact hoth u hu

/-- a (new) DATA record for a SubChannel that has no protocol yet is appended to *that
    SubChannel's own* queue; every other SubChannel object is untouched, no callback happens -/
theorem data_record_queued (s : Side) (q scid uid : Nat) (d : Bytes) (c : SC) (l : List Bytes)
    (hseq : ∀ h, s.highestAcked = some h → h < q)
    (hl : lookup scid s.open_ = some uid) (hc : s.subs[uid]? = some c) (hst : c.st = .unconnected)
    (hd : c.pendingData = some l) :
    (step s (.rxData q scid d)).2 = none ∧ (step s (.rxData q scid d)).1.log = s.log ++ [.ack q] ∧
    (step s (.rxData q scid d)).1.subs[uid]? = some { c with pendingData := some (l ++ [d]) } ∧
    ∀ u : Nat, u ≠ uid → (step s (.rxData q scid d)).1.subs[u]? = s.subs[u]? := by
  obtain ⟨hi, hg⟩ := gotRecord_fresh s q (handleData scid d) hseq
  simp only [step, hg]
  obtain ⟨s', hs', hlog, _, hself, hoth⟩ := handleData_queued
    { s with log := s.log ++ [.ack q], highestAcked := hi } scid uid d c l hl hc hst hd
  rw [hs']
  exact ⟨rfl, hlog, hself, hoth⟩

/-! ## records parked between the Leader's KCM and `select()`; connection loss -/

/-- **parked burst = OPEN + DATA + CLOSE.**  The records of a whole subchannel life arrive in the
    same chunk as the KCM (the Leader opened, wrote and closed while the link was down) and are
    parked; a listener for the name exists.  `select()` drains them oldest first: the subchannel
    appears exactly once, its protocol reads the data, then gets `connectionLost`; the CLOSE is
    answered and the id is free again.  (Drained newest-first, the CLOSE would hit a missing
    subchannel and OPEN and DATA would be dropped as old.) -/
theorem parked_open_data_close (s : Side) (q q1 q2 scid : Nat) (name : String) (d : Bytes)
    (hpark : s.parked = [.opn q scid name, .data q1 scid d, .close q2 scid]) (hq : q < q1 ∧ q1 < q2)
    (hseq : ∀ h, s.highestAcked = some h → h < q)
    (hfac : lookup name s.factories = some .full) (hnew : lookup scid s.open_ = none) :
    (step s .select).2 = none ∧
    (step s .select).1.log = s.log ++ [.build s.protoCount name, .made s.protoCount, .data s.protoCount d,
                                       .txClose s.nextSeq scid, .lost s.protoCount] ∧
    lookup scid (step s .select).1.open_ = none ∧ (step s .select).1.pendingOpens = s.pendingOpens := by
  simp only [step, hpark, selectRun, Rx.seq, Rx.handler]
  -- OPEN
  rw [gotRecordNoAck_fresh' _ q _ (by intro h hh; exact hseq h hh)]
  obtain ⟨s1, c1, e1, l1, hc1, hst1, hp1, hsc1, hlk1, hop1, hpc1, hsq1, hha1, hpe1⟩ :=
    handleOpen_listener_full { ({ s with parked := [] } : Side) with highestAcked := some q } scid name hfac hnew
  rw [e1]
  simp only []
  -- DATA
  rw [gotRecordNoAck_fresh' s1 q1 _ (by intro h hh; rw [hha1] at hh; cases hh; exact hq.1)]
  obtain ⟨s2, e2, l2, hop2, hc2, _, hsame2, hsq2, hpc2, _⟩ :=
    handleData_connected { s1 with highestAcked := some q1 } scid s.subs.length d c1 s.protoCount .full hlk1 hc1 hp1
      (by rw [hst1]; rfl)
  rw [e2]
  simp only []
  -- CLOSE
  rw [gotRecordNoAck_fresh' s2 q2 _ (by intro h hh; rw [hsame2.highestAcked] at hh; cases hh; exact hq.2)]
  obtain ⟨s3, e3, l3, hop3, hpe3, _⟩ :=
    handleClose_openFull { s2 with highestAcked := some q2 } scid s.subs.length c1 s.protoCount
      (by show lookup scid s2.open_ = _; rw [hop2]; exact hlk1) hc2 hsc1 hp1 hst1
  rw [e3]
  refine ⟨rfl, ?_, ?_, ?_⟩
  · rw [l3, l2, l1]
    have : ({ s2 with highestAcked := some q2 } : Side).nextSeq = s.nextSeq := by
      show s2.nextSeq = _; rw [hsq2]; show s1.nextSeq = _; rw [hsq1]
    rw [this]; simp
  · rw [hop3]
    show lookup scid (eraseKey scid s2.open_) = none
    rw [hop2]
    show lookup scid (eraseKey scid s1.open_) = none
    rw [hop1, eraseKey_append_new _ _ _ hnew]; exact hnew
  · rw [hpe3]; show s2.pendingOpens = _; rw [hsame2.pendingOpens]; exact hpe1

/-- **the ack watermark survives a connection loss** (so does everything else the subchannels
    need; only the dead connection's parked records go) -/
theorem watermark_survives_connection_loss (s : Side) :
    (step s .lost).2 = none ∧ (step s .lost).1.highestAcked = s.highestAcked ∧ (step s .lost).1.subs = s.subs ∧
    (step s .lost).1.open_ = s.open_ ∧ (step s .lost).1.pendingOpens = s.pendingOpens ∧ (step s .lost).1.log = s.log ∧
    (step s .lost).1.parked = [] :=
  ⟨rfl, rfl, rfl, rfl, rfl, rfl, rfl⟩

/-- **re-sent records are ignored.**  After a connection loss the peer re-sends whatever it has no
    ACK for.  Records this side had already processed (seqnum ≤ watermark `h`) that come back — as
    a burst parked with the new connection's KCM and drained by `select()` — change nothing: no
    SubChannel appears a second time, no callback, no record sent.  Likewise one by one later, where
    each is just acked again. -/
theorem resent_burst_ignored (s : Side) (h : Nat) (rs : List Rx) (hw : s.highestAcked = some h)
    (hold : ∀ r ∈ rs, r.seq ≤ h) :
    step (run (step s .lost).1 (rs.map Op.park)) .select = ({ s with parked := [] }, none) := by
  rw [run_parks]
  simp only [step, List.nil_append]
  exact selectRun_old h rs _ hw hold

theorem resent_record_ignored (s : Side) (h seq scid : Nat) (d : Bytes) (name : String)
    (hw : s.highestAcked = some h) (hold : seq ≤ h) :
    step (step s .lost).1 (.rxData seq scid d) = (emit (.ack seq) { s with parked := [] }, none) ∧
    step (step s .lost).1 (.rxOpen seq scid name) = (emit (.ack seq) { s with parked := [] }, none) ∧
    step (step s .lost).1 (.rxClose seq scid) = (emit (.ack seq) { s with parked := [] }, none) := by
  refine ⟨?_, ?_, ?_⟩ <;> simp only [step] <;> exact gotRecord_old _ seq h _ hw hold

/-! ## data_before_close -/

/-- The two-sided statement as first written, quantifying over *all* world operations — including
    records injected from outside (`onB (.rxClose …)`).  It is FALSE of the model, and of the real
    code: whoever can forge a CLOSE (i.e. breaks L2/L4, outside this property's environment) makes
    `connectionLost` overtake data still in flight.  Witness below; replayed on the real code by
    the harness corpus case "forged CLOSE". -/
def data_before_close_unrestricted : Prop :=
  ∀ (sa sb : String) (ea eb : Option (List String)) (w : World), World.init sa sb ea eb = some w →
  ∀ (ops : List WOp) (pb : Nat) (d : Bytes) (pre mid post : List Eff) (q1 q2 scid uid : Nat) (c : SC) (k : PKind),
    (wrun w ops).a.log = pre ++ .txData q1 scid d :: mid ++ .txClose q2 scid :: post →
    (wrun w ops).b.subs[uid]? = some c → c.scid = scid → c.proto = some (pb, k) →
    ∀ i : Nat, (wrun w ops).b.log[i]? = some (.lost pb) →
      ∃ j : Nat, j < i ∧ (wrun w ops).b.log[j]? = some (.data pb d)

def forgedCloseOps : List WOp :=
  [.onB (.listen "a" .full), .onA (.connect "a" .full), .deliverAB, .onA (.write 0 [7]), .onA (.lose 0),
   .onB (.rxClose 5 1)]

theorem data_before_close_unrestricted_false : ¬ data_before_close_unrestricted := by
  intro h
  have hw : World.init "b1" "a0" none none =
      some { a := Side.init true 1 none, b := Side.init false 2 none, dAB := 0, dBA := 0 } := by
    simp [World.init, chooseRole]
  have := h "b1" "a0" none none _ hw forgedCloseOps 0 [7]
    [.txOpen 0 1 "a", .build 0 "a", .made 0] [] [] 1 2 1 0
    { scid := 1, name := "a", st := .closed, proto := some (0, .full), pendingData := none, pendingClose := false } .full
    (by decide) (by decide) rfl rfl 5 (by decide)
  obtain ⟨j, hj, hd⟩ := this
  have hall : ∀ j : Nat, j < 5 →
      (wrun { a := Side.init true 1 none, b := Side.init false 2 none, dAB := 0, dBA := 0 } forgedCloseOps).b.log[j]? ≠
        some (.data 0 [7]) := by decide
  exact hall j hj hd

/-- **The link invariant of honest worlds.**  Two sides built by `choose_role`, each with any
    `expected_subprotocols` (unset, empty, any set), any honest schedule (`HonestRun`: application
    calls and `select()` turns on both sides; the peer's next new record arriving, directly or
    parked with a KCM; records already processed arriving again after a loss, directly or parked;
    connection losses at any moment — also while records are parked and not yet handed over, which
    drops them and makes the peer send them again: `WOp.lostA/lostB`): `HInv` holds throughout —
    per direction, every live SubChannel object has seen exactly what the peer sent on its id, as
    far as processed (`Rcv.m`), nothing is sent on an id after its CLOSE (`Snd.ndac`), seqnums are
    0,1,2,… (`Snd.seq`), ids are never shared or reused (`Rcv.uniq`, `Snd.org`), …  An OPEN that is
    refused because its name is outside the declared set leaves a SubChannel object that is
    registered nowhere and never gets a protocol (`refuse_step`): the per-object clauses speak about
    `live` objects, the refusing CLOSE is accounted for on the wire (`Snd.ndac/obu/ts`), and whatever
    the opener still sends on that id finds no subchannel and is logged (`rx_item_step`). -/
theorem honest_world_invariant {sa sb : String} {ea eb : Option (List String)} {w : World}
    (hw : World.init sa sb ea eb = some w) (ops : List WOp) (hon : HonestRun w ops) : HInv (wrun w ops) :=
  honest_run ops w (HInv_init hw) hon

/-- **data_before_close** (two-sided, run level).  In an honest world — any declared
    `expected_subprotocols` on either side, any schedule of application calls, deliveries, parked
    bursts, `select()` turns, re-sent records and connection losses (`HonestRun`) — every DATA side A
    ever put on subchannel `scid` has been handed to `dataReceived` of B's protocol for that
    subchannel *before* that protocol gets its close signal (`connectionLost`, or
    `readConnectionLost` for a half-closeable protocol).  Since after its CLOSE A sends nothing
    more on the id (`Snd.ndac`, `write_after_close_errors`), this is: everything written before the
    local close is delivered before the peer sees the connection lost.

    Nothing honest is excluded any more (this was `data_before_close_honest_partial`): worlds with
    declared sets are covered (a refused OPEN has no protocol, so the statement does not speak about
    it; an accepted one next to it is covered like any other), and so is a connection loss while
    records are parked on a connection that `select()` has not reached yet (`Honest.dropA/dropB`: the
    parked records vanish with the connection, the peer's `Outbound` sends everything un-acked again,
    the watermark drops what had been processed, and the rest is read exactly once, in order).  What
    stays outside is what the property's environment excludes: records injected from outside the two
    Managers (`data_before_close_unrestricted_false`). -/
theorem data_before_close_honest {sa sb : String} {ea eb : Option (List String)} {w : World}
    (hw : World.init sa sb ea eb = some w)
    (ops : List WOp) (hon : HonestRun w ops)
    {q scid : Nat} {d : Bytes} (hd : Eff.txData q scid d ∈ (wrun w ops).a.log)
    {uid : Nat} {c : SC} {pb : Nat} {k : PKind} (hc : (wrun w ops).b.subs[uid]? = some c) (hs : c.scid = scid)
    (hp : c.proto = some (pb, k)) {i : Nat}
    (hi : (wrun w ops).b.log[i]? = some (.lost pb) ∨ (wrun w ops).b.log[i]? = some (.readLost pb)) :
    ∃ j, j < i ∧ (wrun w ops).b.log[j]? = some (.data pb d) := by
  have h := honest_world_invariant hw ops hon
  rcases hi with hi | hi
  · exact dbc_core h.sndA h.rcvB hd hc hs hp hi (Or.inl rfl)
  · exact dbc_core h.sndA h.rcvB hd hc hs hp hi (Or.inr rfl)

/-- the same in the other direction (B writes, A reads) -/
theorem data_before_close_honest_rev {sa sb : String} {ea eb : Option (List String)} {w : World}
    (hw : World.init sa sb ea eb = some w)
    (ops : List WOp) (hon : HonestRun w ops)
    {q scid : Nat} {d : Bytes} (hd : Eff.txData q scid d ∈ (wrun w ops).b.log)
    {uid : Nat} {c : SC} {pa : Nat} {k : PKind} (hc : (wrun w ops).a.subs[uid]? = some c) (hs : c.scid = scid)
    (hp : c.proto = some (pa, k)) {i : Nat}
    (hi : (wrun w ops).a.log[i]? = some (.lost pa) ∨ (wrun w ops).a.log[i]? = some (.readLost pa)) :
    ∃ j, j < i ∧ (wrun w ops).a.log[j]? = some (.data pa d) := by
  have h := honest_world_invariant hw ops hon
  rcases hi with hi | hi
  · exact dbc_core h.sndB h.rcvA hd hc hs hp hi (Or.inl rfl)
  · exact dbc_core h.sndB h.rcvA hd hc hs hp hi (Or.inr rfl)

/-- the protocol reads exactly the peer's stream: in an honest world the `dataReceived`/close
    callbacks of B's protocol for `scid` are, in order, the DATA/CLOSE records A sent on `scid`, as
    far as B has processed A's records — nothing dropped, duplicated, re-ordered or mixed up
    between subchannels, across losses (also of parked records), re-sends and parked bursts, with or
    without declared sets -/
theorem reads_are_what_was_sent {sa sb : String} {ea eb : Option (List String)} {w : World}
    (hw : World.init sa sb ea eb = some w)
    (ops : List WOp) (hon : HonestRun w ops) {uid : Nat} {c : SC} {pb : Nat} {k : PKind}
    (hc : (wrun w ops).b.subs[uid]? = some c) (hp : c.proto = some (pb, k)) :
    rdItems pb (wrun w ops).b.log = sentTo c.scid (proc (wrun w ops).b) (wrun w ops).a.log := by
  have h := honest_world_invariant hw ops hon
  have := h.rcvB.m uid c hc (Or.inl (by rw [hp]; simp))
  unfold seen at this
  simpa [hp] using this

/-- **nothing is lost for good.**  Records dropped with a connection (parked, not yet handed over)
    are not lost: as soon as B has processed all of A's records — however many losses, re-sends and
    parked bursts it took — B's protocol for `scid` has read *everything* A ever put on `scid`, in
    order, exactly once (a sender that failed to send un-acked records again would leave
    `proc b < a.nextSeq` for ever; a receiver that processed a re-sent record twice would read more) -/
theorem everything_processed_everything_read {sa sb : String} {ea eb : Option (List String)} {w : World}
    (hw : World.init sa sb ea eb = some w)
    (ops : List WOp) (hon : HonestRun w ops) {uid : Nat} {c : SC} {pb : Nat} {k : PKind}
    (hc : (wrun w ops).b.subs[uid]? = some c) (hp : c.proto = some (pb, k))
    (hall : (wrun w ops).a.nextSeq ≤ proc (wrun w ops).b) :
    rdItems pb (wrun w ops).b.log = txItems c.scid (wrun w ops).a.log := by
  rw [reads_are_what_was_sent hw ops hon hc hp]
  exact sentTo_all (honest_world_invariant hw ops hon).sndA.seq _ _ hall

/-- the cursor of a direction never runs ahead of the sender nor behind the receiver, and right
    after a loss seen by B it is exactly at the first record B has not processed: what was parked on
    the dead connection will be delivered again -/
theorem loss_rewinds_to_unprocessed {sa sb : String} {ea eb : Option (List String)} {w : World}
    (hw : World.init sa sb ea eb = some w) (ops : List WOp) (hon : HonestRun w ops) :
    proc (wrun w ops).b ≤ (wrun w ops).dAB ∧ (wrun w ops).dAB ≤ (wrun w ops).a.nextSeq ∧
    (wstep (wrun w ops) .lostB).1.dAB = proc (wrun w ops).b ∧ (wstep (wrun w ops) .lostB).1.b.parked = [] ∧
    (wstep (wrun w ops) .lostB).1.b.highestAcked = (wrun w ops).b.highestAcked := by
  have h := honest_world_invariant hw ops hon
  exact ⟨h.rcvB.le1, h.rcvB.le2, Nat.min_eq_right h.rcvB.le1, rfl, rfl⟩

/-- **connectionLost exactly once per side** (honest worlds): a connected SubChannel whose reader
    is closed has had its close signal — and (`world_connectionLost_once`) never twice -/
theorem closed_subchannel_was_told {sa sb : String} {ea eb : Option (List String)} {w : World}
    (hw : World.init sa sb ea eb = some w)
    (ops : List WOp) (hon : HonestRun w ops) {uid : Nat} {c : SC} {pb : Nat} {k : PKind}
    (hc : (wrun w ops).b.subs[uid]? = some c) (hp : c.proto = some (pb, k)) (hst : c.st = .closed ∨ c.st = .read_closed) :
    Eff.lost pb ∈ (wrun w ops).b.log ∨ Eff.readLost pb ∈ (wrun w ops).b.log := by
  have h := honest_world_invariant hw ops hon
  have hcl := h.rcvB.clsd uid c pb k hc hp hst
  obtain ⟨e, he, hr⟩ := List.mem_filterMap.mp hcl
  cases e <;> simp [rdItem] at hr
  case lost q => subst hr; exact Or.inl he
  case readLost q => subst hr; exact Or.inr he

/-- connectionLost at most once / nothing after it, on either side of any world run (honest or
    not): the one-sided theorems apply to both sides of a world -/
theorem world_connectionLost_once {sa sb : String} {ea eb : Option (List String)} {w : World}
    (hw : World.init sa sb ea eb = some w) (ops : List WOp) (p : Nat) :
    (wrun w ops).a.log.count (.lost p) ≤ 1 ∧ (wrun w ops).b.log.count (.lost p) ≤ 1 := by
  unfold World.init at hw
  cases ha : chooseRole sa sb with
  | none => simp [ha] at hw
  | some ra =>
    cases hb : chooseRole sb sa with
    | none => simp [ha, hb] at hw
    | some rb =>
      obtain ⟨la, fa⟩ := ra
      obtain ⟨lb, fb⟩ := rb
      simp [ha, hb] at hw
      subst hw
      obtain ⟨oa, hoa⟩ := wrun_side_a ops { a := Side.init la fa ea, b := Side.init lb fb eb, dAB := 0, dBA := 0 }
      obtain ⟨ob, hob⟩ := wrun_side_b ops { a := Side.init la fa ea, b := Side.init lb fb eb, dAB := 0, dBA := 0 }
      rw [hoa, hob]
      exact ⟨connectionLost_once la fa ea oa p, connectionLost_once lb fb eb ob p⟩

theorem world_nothing_after_lost {sa sb : String} {ea eb : Option (List String)} {w : World}
    (hw : World.init sa sb ea eb = some w) (ops : List WOp) (p : Nat) (pre post : List Eff)
    (h : (wrun w ops).b.log = pre ++ .lost p :: post) : ∀ e ∈ post, isCb p e = false := by
  unfold World.init at hw
  cases ha : chooseRole sa sb with
  | none => simp [ha] at hw
  | some ra =>
    cases hb : chooseRole sb sa with
    | none => simp [ha, hb] at hw
    | some rb =>
      obtain ⟨la, fa⟩ := ra
      obtain ⟨lb, fb⟩ := rb
      simp [ha, hb] at hw
      subst hw
      obtain ⟨ob, hob⟩ := wrun_side_b ops { a := Side.init la fa ea, b := Side.init lb fb eb, dAB := 0, dBA := 0 }
      rw [hob] at h
      exact nothing_after_lost lb fb eb ob p pre post h

/-- sender half, two-sided world: once A's protocol `pid` closed successfully, whatever both sides
    and the network do afterwards, a later write on it raises and adds nothing to A's wire — so on
    the wire all of that protocol's DATA precede its CLOSE. -/
theorem data_before_close_partial (w : World) (hwf : WF w.a) (pid : Nat) (closeOp : Op)
    (hop : closeOp = .lose pid ∨ closeOp = .loseWrite pid) (hok : (wstep w (.onA closeOp)).2 = none)
    (ops : List WOp) (d : Bytes) :
    (wstep (wrun (wstep w (.onA closeOp)).1 ops) (.onA (.write pid d))).2 ≠ none ∧
    wire (wstep (wrun (wstep w (.onA closeOp)).1 ops) (.onA (.write pid d))).1.a.log =
      wire (wrun (wstep w (.onA closeOp)).1 ops).a.log := by
  obtain ⟨opsA, hA⟩ := wrun_side_a ops (wstep w (.onA closeOp)).1
  have h := write_after_close_errors w.a hwf pid closeOp hop hok opsA d
  have ha : (wstep w (.onA closeOp)).1.a = (step w.a closeOp).1 := rfl
  rw [ha] at hA
  have hb : ∀ w' : World, wstep w' (.onA (.write pid d)) =
      ({ w' with a := (step w'.a (.write pid d)).1 }, (step w'.a (.write pid d)).2) := fun _ => rfl
  rw [hb]
  show (step (wrun (wstep w (.onA closeOp)).1 ops).a (.write pid d)).2 ≠ none ∧
    wire (step (wrun (wstep w (.onA closeOp)).1 ops).a (.write pid d)).1.log = wire (wrun (wstep w (.onA closeOp)).1 ops).a.log
  rw [hA]
  exact ⟨h.1, by rw [h.2]⟩

/-! ## the hypotheses are satisfiable (concrete, non-trivial instances) -/

section Examples

/-- leader "b1" / follower "a0", the follower declared `expected_subprotocols=["a"]` -/
def exWorld : World :=
  { a := Side.init true 1 none, b := Side.init false 2 (some ["a"]), dAB := 0, dBA := 0 }

example : chooseRole "b1" "a0" = some (true, 1) ∧ chooseRole "a0" "b1" = some (false, 2) ∧
    (World.init "b1" "a0" none (some ["a"])).isSome = true := by decide

/-- both sides open two subchannels each: ids 1,3 and 2,4 -/
example :
    let w := wrun exWorld [.onA (.connect "a" .full), .onB (.connect "x" .half), .onB (.connect "y" .full),
                           .onA (.connect "a" .full)]
    openIds w.a.log = [1, 3] ∧ openIds w.b.log = [2, 4] := by decide

/-- a history in which `connectionLost` does happen (remote CLOSE on an open subchannel), with data
    before it -/
example : (run (Side.init true 1 none) [.connect "a" .full, .rxData 0 1 [7], .rxClose 1 1]).log =
    [.txOpen 0 1 "a", .build 0 "a", .made 0, .ack 0, .data 0 [7], .ack 1, .txClose 1 1, .lost 0] := by decide

/-- `loseConnection` that succeeds, so `write_after_close_errors` has something to say -/
example : (step (run (Side.init true 1 none) [.connect "a" .full]) (.lose 0)).2 = none := by decide
example : (step (run (Side.init true 1 none) [.connect "a" .half]) (.loseWrite 0)).2 = none := by decide

/-- the F2 witness: declared ["a"], peer opens "b": refused with CLOSE, nothing retained -/
example : (step exWorld.b (.rxOpen 0 1 "b")).1.log = [.ack 0, .txClose 0 1] ∧
    (step exWorld.b (.rxOpen 0 1 "b")).1.open_ = [] ∧ (step exWorld.b (.rxOpen 0 1 "b")).1.pendingOpens = [] := by
  have := unexpected_refused exWorld.b ["a"] 0 1 "b" rfl (by decide) rfl rfl (by intro h hh; cases hh)
  exact ⟨this.2.1, this.2.2.1, this.2.2.2.1⟩

/-- a state with a listener (`open_with_listener`) -/
example : lookup "a" (step (Side.init false 2 none) (.listen "a" .full)).1.factories = some .full := by decide

/-- a state with one pending OPEN that has DATA queued on it (`listen_connects_pending`), and the
    run of the theorem's conclusion on it -/
def exPending : Side := run (Side.init false 2 none) [.rxOpen 0 1 "a", .rxData 1 1 [7], .rxData 2 1 [8]]

example : lookup "a" exPending.factories = none ∧ lookup "a" exPending.pendingOpens = some [0] ∧
    exPending.subs[0]? = some { scid := 1, name := "a", st := .unconnected, proto := none,
                                pendingData := some [[7], [8]], pendingClose := false } := by decide

example : (step exPending (.listen "a" .full)).2 = none ∧
    (step exPending (.listen "a" .full)).1.log =
      exPending.log ++ [.build exPending.protoCount "a", .made exPending.protoCount] ++
        [[7], [8]].map (fun d => Eff.data exPending.protoCount d) :=
  have h := listen_connects_pending exPending "a" .full 0
    { scid := 1, name := "a", st := .unconnected, proto := none, pendingData := some [[7], [8]], pendingClose := false }
    [[7], [8]] (by decide) (by decide) (by decide) rfl rfl rfl rfl
  ⟨h.1, h.2.1⟩

/-- two pending OPENs for "a", each with its own DATA, the first also with a queued CLOSE: `listen`
    builds protocol 0 and 1 in arrival order; 0 reads [7] then is closed, 1 reads [8],[9] -/
def exPending2 : Side := run (Side.init false 2 none)
  [.rxOpen 0 1 "a", .rxOpen 1 3 "a", .rxData 2 1 [7], .rxData 3 3 [8], .rxClose 4 1, .rxData 5 3 [9]]

example : (step exPending2 (.listen "a" .full)).1.log.drop exPending2.log.length =
    [.build 0 "a", .made 0, .data 0 [7], .txClose 0 1, .lost 0, .build 1 "a", .made 1, .data 1 [8], .data 1 [9]] := by
  decide

example : lookup "a" exPending2.pendingOpens = some [0, 1] ∧
    PendOK exPending2 (0, { scid := 1, name := "a", st := .unconnected, proto := none, pendingData := some [[7]], pendingClose := true }, [[7]], true) ∧
    PendOK exPending2 (1, { scid := 3, name := "a", st := .unconnected, proto := none, pendingData := some [[8], [9]], pendingClose := false }, [[8], [9]], false) := by
  unfold PendOK
  decide

/-- the third case of `open_exactly_once`.1 is real: a peer that (against the protocol) opens one
    of *our* ids makes our next `connect()` fail with AssertionError, leaving a garbage object -/
example : (step (run (Side.init true 1 none) [.rxOpen 0 1 "a"]) (.connect "b" .full)).2 = some .assertion := by decide

/-- a follower with a listener, three records of one subchannel life parked with the KCM: the
    hypotheses of `parked_open_data_close` hold and `select()` gives the whole life, in order -/
def exParked : Side := run (Side.init false 2 none)
  [.listen "a" .full, .park (.opn 0 1 "a"), .park (.data 1 1 [7]), .park (.close 2 1)]

example : exParked.parked = [.opn 0 1 "a", .data 1 1 [7], .close 2 1] ∧ lookup "a" exParked.factories = some .full ∧
    lookup 1 exParked.open_ = none ∧ exParked.highestAcked = none := by decide

example : (step exParked .select).1.log = [.build 0 "a", .made 0, .data 0 [7], .txClose 0 1, .lost 0] := by decide

/-- a whole subchannel life was processed (watermark 2); the link drops, the peer re-sends all three
    records with the next KCM: nothing happens (`resent_burst_ignored`) -/
example :
    let s := (step exParked .select).1
    s.highestAcked = some 2 ∧
    (step (run (step s .lost).1 [.park (.opn 0 1 "a"), .park (.data 1 1 [7]), .park (.close 2 1)]) .select).1.log = s.log := by
  decide

/-- an honest schedule with a parked burst, a connection loss and a re-sent record: the hypotheses
    of `data_before_close_honest` are met (B's protocol 0 for subchannel 1 reads [7], then
    gets connectionLost), and A really sent `txData 1 1 [7]` -/
def exHonestOps : List WOp :=
  [.onB (.listen "a" .full), .onA (.connect "a" .full), .onA (.write 0 [7]), .onA (.lose 0),
   .parkAB, .parkAB, .parkAB, .onB .select, .onB .lost, .onA .lost, .onB (Rx.toOp (.data 1 1 [7])), .deliverBA]

def exHonestW : World := { a := Side.init true 1 none, b := Side.init false 2 none, dAB := 0, dBA := 0 }

example : HonestRun exHonestW exHonestOps := by
  refine ⟨.apiB rfl, .apiA rfl, .apiA rfl, .apiA rfl, .parkAB, .parkAB, .parkAB, .apiB rfl, .lostB ?_, .lostA ?_,
    .resendAB ?_ ?_, .deliverBA ?_, trivial⟩ <;> decide

example : (wrun exHonestW exHonestOps).b.log =
    [.build 0 "a", .made 0, .data 0 [7], .txClose 0 1, .lost 0, .ack 1] ∧
    Eff.txData 1 1 [7] ∈ (wrun exHonestW exHonestOps).a.log ∧
    (wrun exHonestW exHonestOps).a.log.count (.lost 0) = 1 := by decide

/-! ### newly covered: declared sets -/

/-- leader "b1" / follower "a0"; the follower declared `expected_subprotocols=["a"]` and listens for "a".
    The leader opens "b" (refused: CLOSE, nothing kept) and "a" (accepted), writes on both and closes
    "a"; then the link drops and a processed record comes again.  B's protocol 0 (subchannel 3) reads
    [7], then gets connectionLost; what A wrote on the refused id finds no subchannel. -/
def exDeclOps : List WOp :=
  [.onB (.listen "a" .full), .onA (.connect "b" .full), .onA (.connect "a" .full), .onA (.write 0 [9]), .onA (.write 1 [7]),
   .onA (.lose 1), .deliverAB, .deliverAB, .deliverAB, .deliverAB, .deliverAB, .deliverBA, .lostB, .lostA,
   .onB (Rx.toOp (.data 3 3 [7])), .deliverBA]

def exDeclW : World := { a := Side.init true 1 none, b := Side.init false 2 (some ["a"]), dAB := 0, dBA := 0 }

example : World.init "b1" "a0" none (some ["a"]) = some exDeclW := by simp [World.init, chooseRole, exDeclW]

example : HonestRun exDeclW exDeclOps := by
  refine ⟨.apiB rfl, .apiA rfl, .apiA rfl, .apiA rfl, .apiA rfl, .apiA rfl, .deliverAB ?_, .deliverAB ?_, .deliverAB ?_,
    .deliverAB ?_, .deliverAB ?_, .deliverBA ?_, .dropB, .dropA, .resendAB ?_ ?_, .deliverBA ?_, trivial⟩ <;> decide

example : (wrun exDeclW exDeclOps).b.log =
    [.ack 0, .txClose 0 1, .ack 1, .build 0 "a", .made 0, .ack 2, .logErr "DataForMissingSubchannelError", .ack 3, .data 0 [7],
     .ack 4, .txClose 1 3, .lost 0, .ack 3] ∧
    Eff.txData 3 3 [7] ∈ (wrun exDeclW exDeclOps).a.log ∧
    (wrun exDeclW exDeclOps).b.subs.map (fun c => (c.scid, c.proto)) = [(1, none), (3, some (0, .full))] ∧
    (wrun exDeclW exDeclOps).b.open_ = [] := by decide

/-- declared set + late listener + a parked OPEN/DATA/CLOSE burst: the follower declared ["a"] but
    listens only after the burst (OPEN "a", DATA, CLOSE, and an OPEN "b" that is refused) was drained
    by `select()`; the accepted subchannel waits with its data and close queued, the listener then
    reads [7] and gets connectionLost -/
def exDeclBurstOps : List WOp :=
  [.onA (.connect "a" .full), .onA (.write 0 [7]), .onA (.lose 0), .onA (.connect "b" .full),
   .parkAB, .parkAB, .parkAB, .parkAB, .onB .select, .onB (.listen "a" .full), .deliverBA, .deliverBA]

example : HonestRun exDeclW exDeclBurstOps := by
  refine ⟨.apiA rfl, .apiA rfl, .apiA rfl, .apiA rfl, .parkAB, .parkAB, .parkAB, .parkAB, .apiB rfl, .apiB rfl,
    .deliverBA ?_, .deliverBA ?_, trivial⟩ <;> decide

example : (wrun exDeclW exDeclBurstOps).b.log =
    [.txClose 0 3, .build 0 "a", .made 0, .data 0 [7], .txClose 1 1, .lost 0] ∧
    Eff.txData 1 1 [7] ∈ (wrun exDeclW exDeclBurstOps).a.log := by decide

/-! ### newly covered: a loss while records are parked -/

/-- OPEN is delivered; DATA and CLOSE arrive with the next connection's KCM and are parked; that
    connection is lost before `select()` reaches it (`lostB`: parked records gone, cursor back at
    record 1); the leader sends both again with the following KCM; now `select()` runs: B's protocol
    reads [7] exactly once and then gets connectionLost. -/
def exDropParkedOps : List WOp :=
  [.onB (.listen "a" .full), .onA (.connect "a" .full), .deliverAB, .onA (.write 0 [7]), .onA (.lose 0),
   .lostB, .lostA, .parkAB, .parkAB, .lostB, .lostA, .parkAB, .parkAB, .onB .select, .deliverBA]

example : HonestRun exHonestW exDropParkedOps := by
  refine ⟨.apiB rfl, .apiA rfl, .deliverAB ?_, .apiA rfl, .apiA rfl, .dropB, .dropA, .parkAB, .parkAB, .dropB, .dropA,
    .parkAB, .parkAB, .apiB rfl, .deliverBA ?_, trivial⟩ <;> decide

/-- the loss really happens with two unprocessed records parked, and they are really gone -/
example :
    let w := wrun exHonestW (exDropParkedOps.take 9)
    w.b.parked = [.data 1 1 [7], .close 2 1] ∧ proc w.b = 1 ∧ w.dAB = 3 ∧
    (wstep w .lostB).1.b.parked = [] ∧ (wstep w .lostB).1.dAB = 1 ∧ ¬ (proc w.b = w.dAB) := by decide

example : (wrun exHonestW exDropParkedOps).b.log =
    [.ack 0, .build 0 "a", .made 0, .data 0 [7], .txClose 0 1, .lost 0] ∧
    Eff.txData 1 1 [7] ∈ (wrun exHonestW exDropParkedOps).a.log ∧
    (wrun exHonestW exDropParkedOps).a.log.count (.lost 0) = 1 ∧
    (wrun exHonestW exDropParkedOps).a.nextSeq ≤ proc (wrun exHonestW exDropParkedOps).b := by decide

end Examples

end WV.Props.C13
