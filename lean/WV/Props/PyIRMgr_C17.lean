import WV.Proofs.PyIRMgr

/-!
Translation validation of method BODIES of the Dilation `Manager` and its `TrafficTimer` (`_dilation/manager.py`) against
the hand-written C17 / C16 models: for every heap related to the model state, every argument and every fuel above the
stated constant, `exec` of the GENERATED body (`WV.Gen.PyIRMgr`) agrees with the model on the final state, the ordered
collaborator calls with their arguments, and the exception.
-/
namespace WV.Props.PyIRMgrC17
open WV WV.PyIR WV.Gen WV.Gen.PyIRMgr WV.Proofs.PyIRC03 WV.Proofs.PyIRDil WV.Proofs.PyIRMgr

/-! ## the method list is pinned -/

/-- the methods the translator could NOT put into the subset, with nothing hidden: the three status outputs (the C17
    model gives them no effect: `(w, none)`) and `use_hints` (lambda + comprehension; its Connector side is C17's `cInput`) -/
theorem all_translated : WV.Gen.PyIRMgr.untranslatable.map (·.1) =
    ["Manager.send_status_connecting", "Manager.send_status_dilation_generation", "Manager.send_status_reconnecting",
     "Manager.use_hints"] := by decide

theorem translated_pin : WV.Gen.PyIRMgr.translated =
    ["TrafficTimer.begin_timing", "TrafficTimer.signal_reconnect", "Manager._maybe_send_status",
     "Manager._send_ping_reset_timer", "Manager._send_ping_reset_timer.got_pong",
     "Manager._send_ping_reset_timer.timer_expired", "Manager._signal_reconnect", "Manager._start_connecting",
     "Manager._stop_using_connection", "Manager.abandon_connection", "Manager.choose_role",
     "Manager.connector_connection_lost", "Manager.connector_connection_made", "Manager.fail",
     "Manager.got_dilation_key", "Manager.got_wormhole_versions", "Manager.notify_stopped",
     "Manager.received_dilation_message", "Manager.send_dilation_generation", "Manager.send_ping", "Manager.send_please", "Manager.send_reconnect",
     "Manager.send_reconnecting", "Manager.send_status_stopped", "Manager.start_connecting",
     "Manager.start_connecting_ignore_message", "Manager.stop_connecting", "Manager.when_stopped"] := by decide

/-- every `@m.output` of the generated `Manager` / `TrafficTimer` tables is translated or listed above -/
theorem outputs_covered :
    (["send_please", "choose_role", "start_connecting", "start_connecting_ignore_message", "send_reconnect",
      "send_reconnecting", "use_hints", "stop_connecting", "abandon_connection", "notify_stopped", "send_status_connecting",
      "send_status_dilation_generation", "send_status_reconnecting", "send_status_stopped"].all fun o =>
        (tbl_Manager o).isSome || WV.Gen.PyIRMgr.untranslatable.any (·.1 == "Manager." ++ o)) = true ∧
    (["begin_timing", "signal_reconnect"].all fun o => (tbl_TrafficTimer o).isSome) = true := by decide

/-! ## the shutdown path -/

/-- `Manager.abandon_connection` = `C17.mOut .abandon_connection`: cancel the ping timer if there is one (a fired
    DelayedCall raises AlreadyCalled and NOTHING else happens — handle kept, connection not told), clear the handle,
    then `self._connection.disconnect()` (AttributeError without a connection, after the timer was cleared) -/
theorem manager_abandon_connection (fuel : Nat) (h : Store) (w : C17.World) (R : RelTC h w) :
    let o := exec (fuel + 1) (envM (raisesT w.timer)) tbl_Manager "abandon_connection" [] h
    let r := C17.mOut "" 0 .abandon_connection w
    RelTC o.heap r.1 ∧ o.exc = r.2.map C17.Err.name ∧
      o.calls.map (mcallW w) =
        (if w.timer = .none then [] else [some MCall.timerCancel]) ++
        (if w.timer = .fired then [] else match w.conn with
          | some c => [some (.disconnect c)]
          | none => []) ∧
      r.1.conns = (o.calls.filterMap (mcallW w)).foldl netApply w.conns := by
  obtain ⟨⟨tv, htv, hT⟩, hc⟩ := R
  cases htm : w.timer <;> rw [htm] at hT <;> cases hcn : w.conn <;> rw [hcn] at hc
  all_goals first
    | (have := hT.of_none; subst this)
    | (obtain ⟨id, rfl⟩ := hT.of_pending)
    | (obtain ⟨id, rfl⟩ := hT.of_fired)
  all_goals
    mgr_eval [tbl_Manager, m_Manager_abandon_connection, envM, raisesT, htv, hc, encConn, C17.mOut, C17.cancelTimer,
      Flags.abandon_checks_active, C17.andThen, C17.disconnect, htm, hcn, mcallW, mcall, netApply, RelTC,
      C17.Err.name]
  all_goals first | exact hT | exact TimerRel.none

/-- `Manager._stop_using_connection` = the Manager part of `C17.connectionLost` (`modelStopUsing`): cancel + clear the
    timer (AlreadyCalled on a fired one: `_connection` is then NOT cleared and Inbound/Outbound are not told), forget the
    connection, then tell Inbound and Outbound, in this order -/
theorem manager_stop_using_connection (fuel : Nat) (h : Store) (w : C17.World) (R : RelTC h w)
    (hi : ∃ i, h.get "_inbound" = some (.ref "Inbound" i)) (ho : ∃ i, h.get "_outbound" = some (.ref "Outbound" i)) :
    let o := exec (fuel + 1) (envM (raisesT w.timer)) tbl_Manager "_stop_using_connection" [] h
    let r := modelStopUsing w
    RelTC o.heap r.1 ∧ o.exc = r.2.map C17.Err.name ∧
      o.calls.map (mcallW w) =
        (if w.timer = .none then [] else [some MCall.timerCancel]) ++
        (if w.timer = .fired then [] else [some .inboundStop, some .outboundStop]) := by
  obtain ⟨⟨tv, htv, hT⟩, hc⟩ := R
  obtain ⟨ii, hi⟩ := hi
  obtain ⟨io, ho⟩ := ho
  cases htm : w.timer <;> rw [htm] at hT
  all_goals first
    | (have := hT.of_none; subst this)
    | (obtain ⟨id, rfl⟩ := hT.of_pending)
    | (obtain ⟨id, rfl⟩ := hT.of_fired)
  all_goals
    mgr_eval [tbl_Manager, m_Manager__stop_using_connection, envM, raisesT, htv, hc, hi, ho, encConn, modelStopUsing,
      C17.cancelTimer, Flags.stop_using_checks_active, C17.andThen, htm, mcallW, mcall, RelTC, C17.Err.name]
  all_goals first | exact hT | exact TimerRel.none

/-- `C17.connectionLost` is: `_traffic.lost_connection()`, then `modelStopUsing`, then Outbound's reaction and the machine -/
theorem connectionLost_factors (w : C17.World) :
    C17.connectionLost w =
      C17.andThen (modelStopUsing { w with tt := w.tt.map fun _ => TrafficTimer.State.no_connection }) fun w2 =>
        if w.conn.isNone then (w2, some .attribute) else
        C17.andThen (C17.pauseAll w2) fun w3 =>
          if w3.role = some true then C17.mInput .connection_lost_leader "" 0 w3
          else C17.mInput .connection_lost_follower "" 0 w3 := by
  unfold C17.connectionLost modelStopUsing
  cases w.timer <;> simp [C17.cancelTimer, C17.andThen, Flags.stop_using_checks_active]

/-- `Manager.stop_connecting` = `C17.mOut .stop_connecting`: `self._connector.stop()` on the LATEST Connector;
    AttributeError before the first one exists -/
theorem manager_stop_connecting (fuel : Nat) (h : Store) (w : C17.World) (R : RelCtor h w) :
    let o := exec (fuel + 1) (envM noRaise) tbl_Manager "stop_connecting" [] h
    o.heap = h ∧
      (match w.ctors.length with
       | 0 => o.exc = some "AttributeError" ∧ o.calls = [] ∧ C17.mOut "" 0 .stop_connecting w = (w, some .attribute)
       | g + 1 => o.exc = none ∧ o.calls.map (mcallW w) = [some (.connectorStop g)] ∧
           C17.mOut "" 0 .stop_connecting w = C17.cInput C17.noMade g .k_stop 0 w) := by
  unfold RelCtor at R
  cases hl : w.ctors.length with
  | zero =>
    rw [hl] at R
    mgr_eval [tbl_Manager, m_Manager_stop_connecting, envM, noRaise, R, C17.mOut, C17.withConnector, hl]
  | succ g =>
    rw [hl] at R
    obtain ⟨args, R⟩ := R
    mgr_eval [tbl_Manager, m_Manager_stop_connecting, envM, noRaise, R, C17.mOut, C17.withConnector, hl, mcallW, mcall]

/-- `Manager.notify_stopped` = `C17.notifyStopped`: exactly `self._stopped.fire(None)`; the observer's own assertion (a
    second `fire`) is the collaborator's -/
theorem manager_notify_stopped (fuel : Nat) (h : Store) (w : C17.World) (i : Nat)
    (hs : h.get "_stopped" = some (.ref "OneShotObserver" i)) :
    let o := exec (fuel + 1) (envM (fun k => if k = 0 ∧ w.fired = true then some "AssertionError" else none))
      tbl_Manager "notify_stopped" [] h
    o.heap = h ∧ o.calls.map mcall = [some .stoppedFire] ∧
      o.exc = (C17.mOut "" 0 .notify_stopped w).2.map C17.Err.name := by
  cases hf : w.fired <;>
    mgr_eval [tbl_Manager, m_Manager_notify_stopped, envM, hs, mcall, C17.mOut, C17.notifyStopped, hf, C17.Err.name]

/-- `Manager.fail(f)`: exactly `self._main_channel.error(f)` (= `C17.mainError`) -/
theorem manager_fail (fuel : Nat) (h : Store) (i : Nat) (f : Val)
    (hs : h.get "_main_channel" = some (.ref "OneShotObserver" i)) :
    let o := exec (fuel + 1) (envM noRaise) tbl_Manager "fail" [f] h
    o.heap = h ∧ o.calls = [⟨"_main_channel", "error", [f]⟩] ∧ o.exc = none := by
  mgr_eval [tbl_Manager, m_Manager_fail, envM, noRaise, hs]

/-- `Manager._signal_reconnect` = `C17.signalReconnect`: `disconnect()` on the connection in use, nothing without one -/
theorem manager_signal_reconnect (fuel : Nat) (h : Store) (w : C17.World)
    (hc : h.get "_connection" = some (encConn w.conn)) :
    let o := exec (fuel + 1) (envM noRaise) tbl_Manager "_signal_reconnect" [] h
    o.heap = h ∧ o.exc = none ∧
      o.calls.map (mcallW w) = (match w.conn with
        | some c => [some (.disconnect c)]
        | none => []) ∧
      (C17.signalReconnect w).conns = (o.calls.filterMap (mcallW w)).foldl netApply w.conns := by
  cases hcn : w.conn <;> rw [hcn] at hc <;>
    mgr_eval [tbl_Manager, m_Manager__signal_reconnect, envM, noRaise, hc, encConn, C17.signalReconnect, hcn, mcallW,
      mcall, netApply, C17.disconnect]

/-- the same against C16: the `drops` log of `C16.signalReconnect` grows by exactly the `disconnect()` calls made -/
theorem manager_signal_reconnect_C16 (fuel : Nat) (h : Store) (s : C16.St)
    (hc : h.get "_connection" = some (encConn s.conn)) :
    let o := exec (fuel + 1) (envM noRaise) tbl_Manager "_signal_reconnect" [] h
    o.heap = h ∧ o.exc = none ∧
      (C16.signalReconnect s).drops =
        s.drops ++ (o.calls.filter (fun c => c.obj == "_connection" && c.meth == "disconnect")).filterMap
          (fun _ => s.conn.map fun c => (c, s.now)) := by
  cases hcn : s.conn <;> rw [hcn] at hc <;>
    mgr_eval [tbl_Manager, m_Manager__signal_reconnect, envM, noRaise, hc, encConn, C16.signalReconnect, hcn]

/-- `TrafficTimer.begin_timing` / `signal_reconnect`: exactly the callable the TrafficTimer was built with, no argument
    (`start_timer` = `Manager._send_ping_reset_timer` = `C16.sendPingResetTimer` / `C17.beginTiming`;
    `on_reconnect` = `Manager._signal_reconnect`: `C16.ttOutputs`, `C17.ttOuts`) -/
theorem traffic_begin_timing (fuel : Nat) (h : Store) (v : Val) (hs : h.get "start_timer" = some v) :
    let o := exec (fuel + 1) (envM noRaise) tbl_TrafficTimer "begin_timing" [] h
    o.heap = h ∧ o.calls.map mcall = [some .startTimer] ∧ o.exc = none := by
  mgr_eval [tbl_TrafficTimer, m_TrafficTimer_begin_timing, envM, noRaise, hs, mcall]

theorem traffic_signal_reconnect (fuel : Nat) (h : Store) (v : Val) (hs : h.get "on_reconnect" = some v) :
    let o := exec (fuel + 1) (envM noRaise) tbl_TrafficTimer "signal_reconnect" [] h
    o.heap = h ∧ o.calls.map mcall = [some .onReconnect] ∧ o.exc = none := by
  mgr_eval [tbl_TrafficTimer, m_TrafficTimer_signal_reconnect, envM, noRaise, hs, mcall]

/-! ## `send_dilation_generation` and the three outputs that send a message -/

theorem manager_send_dilation_generation (fuel : Nat) (h : Store) (w : C17.World) (R : RelGen h w)
    (kvs : List (Val × Val)) :
    let o := exec (fuel + 1) (envM noRaise) tbl_Manager "send_dilation_generation" [.dict kvs] h
    RelGen o.heap { w with nextGen := w.nextGen + 1 } ∧ o.exc = none ∧
      o.calls = [⟨"_S", "send", [.str ("dilate-" ++ toString w.nextGen), .obj "dict_to_bytes" [.dict kvs]]⟩] ∧
      (∀ a, a ≠ "_next_dilation_generation" → o.heap.get a = h.get a) := by
  obtain ⟨hn, i, hS⟩ := R
  mgr_eval [tbl_Manager, m_Manager_send_dilation_generation, envM, noRaise, extM, hn, hS, RelGen]
  intro a ha
  simp [Ne.symm ha]

/-- `send_reconnect` = `C17.mOut .send_reconnect` = `sendGen "reconnect"` -/
theorem manager_send_reconnect (fuel : Nat) (h : Store) (w : C17.World) (R : RelGen h w) :
    let o := exec (fuel + 2) (envM noRaise) tbl_Manager "send_reconnect" [] h
    let r := C17.mOut "" 0 .send_reconnect w
    RelGen o.heap r.1 ∧ o.exc = r.2.map C17.Err.name ∧
      o.calls.map mcall = [some (.send ("dilate-" ++ toString w.nextGen) [("type", "reconnect")])] ∧
      r.1.log = w.log ++ [sendLine w.nextGen [("type", "reconnect")]] := by
  obtain ⟨hn, i, hS⟩ := R
  mgr_eval [tbl_Manager, m_Manager_send_reconnect, m_Manager_send_dilation_generation, envM, noRaise, extM, hn, hS,
    RelGen, C17.mOut, C17.sendGen, C17.emit, mcall, decFields, sendLine, tyOf, lookupS]

/-- `send_reconnecting` = `C17.mOut .send_reconnecting` = `sendGen "reconnecting"` -/
theorem manager_send_reconnecting (fuel : Nat) (h : Store) (w : C17.World) (R : RelGen h w) :
    let o := exec (fuel + 2) (envM noRaise) tbl_Manager "send_reconnecting" [] h
    let r := C17.mOut "" 0 .send_reconnecting w
    RelGen o.heap r.1 ∧ o.exc = r.2.map C17.Err.name ∧
      o.calls.map mcall = [some (.send ("dilate-" ++ toString w.nextGen) [("type", "reconnecting")])] ∧
      r.1.log = w.log ++ [sendLine w.nextGen [("type", "reconnecting")]] := by
  obtain ⟨hn, i, hS⟩ := R
  mgr_eval [tbl_Manager, m_Manager_send_reconnecting, m_Manager_send_dilation_generation, envM, noRaise, extM, hn, hS,
    RelGen, C17.mOut, C17.sendGen, C17.emit, mcall, decFields, sendLine, tyOf, lookupS]

/-- `send_please` = `C17.mOut .send_please`: type, OUR side, and `use-version` exactly when a shared version is known -/
theorem manager_send_please (fuel : Nat) (h : Store) (w : C17.World) (R : RelGen h w) (S : RelSide h w) :
    let o := exec (fuel + 2) (envM noRaise) tbl_Manager "send_please" [] h
    let r := C17.mOut "" 0 .send_please w
    let f := [("type", "please"), ("side", w.mySide)] ++ (match w.dver with
      | some v => [("use-version", v)]
      | none => [])
    RelGen o.heap r.1 ∧ o.exc = r.2.map C17.Err.name ∧
      o.calls.map mcall = [some (.send ("dilate-" ++ toString w.nextGen) f)] ∧
      r.1.log = w.log ++ [sendLine w.nextGen f] := by
  obtain ⟨hn, i, hS⟩ := R
  obtain ⟨hside, hv⟩ := S
  cases hdv : w.dver <;> rw [hdv] at hv <;>
    mgr_eval [tbl_Manager, m_Manager_send_please, m_Manager_send_dilation_generation, envM, noRaise, extM, hn, hS,
      hside, hv, encOptStr, RelGen, C17.mOut, C17.sendGen, C17.emit, mcall, decFields, sendLine, tyOf, lookupS, hdv]
  all_goals first | rfl | decide


/-! ## capability negotiation: `got_wormhole_versions` -/

/-- `Manager.got_wormhole_versions(v)` = `C17.mgrGotVersions`: `.get("can-dilate", [])` on whatever JSON the peer sent
    (AttributeError on a non-object, nothing changed), `_find_shared_versions` (= the model's `findShared`; its exception
    leaves everything as it was, nobody is told), the result stored; a falsy result (None or "") is reported through
    `fail(Failure(OldPeerCannotDilateError()))` BEFORE the machine is started — and the machine is started all the same -/
theorem manager_got_wormhole_versions (fuel : Nat) (h : Store) (w : C17.World) (v : C17.J) (hv : TopOk v) (i : Nat) (acc : Val)
    (hmc : h.get "_main_channel" = some (.ref "OneShotObserver" i)) (hacc : h.get "_acceptable_versions" = some acc) :
    let o := exec (fuel + 2) (envM noRaise) tbl_Manager "got_wormhole_versions" [encJ v] h
    match C17.sharedVersion v with
    | .error e => o.exc = some e.name ∧ o.heap = h ∧ o.calls = [] ∧ C17.mgrGotVersions v w = (w, some e)
    | .ok dv => o.exc = none ∧ o.heap = h.set "_dilation_version" (encOptStr dv) ∧
        o.calls.map mcall =
          (if C17.falsy dv then [some (.mainError "OldPeerCannotDilateError")] else []) ++ [some .inputStart] ∧
        C17.mgrGotVersions v w =
          C17.mInput .start "" 0 (if C17.falsy dv then C17.mainError { w with dver := dv } else { w with dver := dv }) := by
  have key : ∀ (d : List (Val × Val)) (c : C17.J),
      (dictGet (.str "can-dilate") d = .ok (some (encJ c)) ∨ (dictGet (.str "can-dilate") d = .ok none ∧ c = .arr [])) →
      let o := exec (fuel + 2) (envM noRaise) tbl_Manager "got_wormhole_versions" [.dict d] h
      match C17.findShared Consts.DILATION_VERSIONS c with
      | .error e => o.exc = some e.name ∧ o.heap = h ∧ o.calls = []
      | .ok dv => o.exc = none ∧ o.heap = h.set "_dilation_version" (encOptStr dv) ∧
          o.calls.map mcall =
            (if C17.falsy dv then [some (.mainError "OldPeerCannotDilateError")] else []) ++ [some .inputStart] := by
    intro d c hget
    generalize hfs : C17.findShared Consts.DILATION_VERSIONS c = r
    rcases hget with hget | ⟨hget, rfl⟩ <;> rcases r with e | dv
    · mgr_eval [tbl_Manager, m_Manager_got_wormhole_versions, envM, noRaise, extM, hacc, decJ_encJ, hfs, encShared, hget]
    · cases dv with
      | none =>
        mgr_eval [tbl_Manager, m_Manager_got_wormhole_versions, m_Manager_fail, envM, noRaise, extM, hacc, hmc, decJ_encJ,
          hfs, encShared, C17.falsy, encOptStr, mcall, hget]
      | some s =>
        by_cases hs : s = ""
        · subst hs
          mgr_eval [tbl_Manager, m_Manager_got_wormhole_versions, m_Manager_fail, envM, noRaise, extM, hacc, hmc, decJ_encJ,
            hfs, encShared, C17.falsy, encOptStr, mcall, hget]
        · mgr_eval [tbl_Manager, m_Manager_got_wormhole_versions, m_Manager_fail, envM, noRaise, extM, hacc, hmc, decJ_encJ,
            hfs, encShared, C17.falsy, encOptStr, mcall, hs, hget]
    · mgr_eval [tbl_Manager, m_Manager_got_wormhole_versions, envM, noRaise, extM, hacc, decJ, decJs, hfs, encShared, hget]
    · cases dv with
      | none =>
        mgr_eval [tbl_Manager, m_Manager_got_wormhole_versions, m_Manager_fail, envM, noRaise, extM, hacc, hmc, decJ, decJs,
          hfs, encShared, C17.falsy, encOptStr, mcall, hget]
      | some s =>
        by_cases hs : s = ""
        · subst hs
          mgr_eval [tbl_Manager, m_Manager_got_wormhole_versions, m_Manager_fail, envM, noRaise, extM, hacc, hmc, decJ, decJs,
            hfs, encShared, C17.falsy, encOptStr, mcall, hget]
        · mgr_eval [tbl_Manager, m_Manager_got_wormhole_versions, m_Manager_fail, envM, noRaise, extM, hacc, hmc, decJ, decJs,
            hfs, encShared, C17.falsy, encOptStr, mcall, hs, hget]
  cases v with
  | obj kvs =>
    have hg := dictGet_encKVs "can-dilate" kvs hv
    cases hl : C17.lookupKey "can-dilate" kvs with
    | some c =>
      rw [hl] at hg
      have k := key (encKVs kvs) c (Or.inl hg)
      have hm : C17.mgrGotVersions (.obj kvs) w = (match C17.findShared Consts.DILATION_VERSIONS c with
          | .error e => (w, some e)
          | .ok dv => C17.mgrGotVersionsWith dv w) := by simp [C17.mgrGotVersions, C17.sharedVersion, hl] <;> rfl
      rw [hm]
      simp only [C17.sharedVersion, hl, encJ]
      revert k
      generalize C17.findShared Consts.DILATION_VERSIONS c = r
      intro k
      rcases r with e | dv
      · exact ⟨k.1, k.2.1, k.2.2, rfl⟩
      · exact ⟨k.1, k.2.1, k.2.2, by simp [C17.mgrGotVersionsWith]⟩
    | none =>
      rw [hl] at hg
      have k := key (encKVs kvs) (.arr []) (Or.inr ⟨hg, rfl⟩)
      have hm : C17.mgrGotVersions (.obj kvs) w = (match C17.findShared Consts.DILATION_VERSIONS (.arr []) with
          | .error e => (w, some e)
          | .ok dv => C17.mgrGotVersionsWith dv w) := by simp [C17.mgrGotVersions, C17.sharedVersion, hl] <;> rfl
      rw [hm]
      simp only [C17.sharedVersion, hl, encJ]
      revert k
      generalize C17.findShared Consts.DILATION_VERSIONS (.arr []) = r
      intro k
      rcases r with e | dv
      · exact ⟨k.1, k.2.1, k.2.2, rfl⟩
      · exact ⟨k.1, k.2.1, k.2.2, by simp [C17.mgrGotVersionsWith]⟩
  | null | bool _ | num _ | str _ | arr _ =>
    mgr_eval [tbl_Manager, m_Manager_got_wormhole_versions, envM, noRaise, extM, hacc, encJ, C17.sharedVersion,
      C17.mgrGotVersions, C17.Err.name]

/-! ## non-vacuity: a concrete heap in the relations, concrete runs of the generated bodies -/

def demoWorld : C17.World :=
  { C17.World.init false false C17.MY_SIDE with
    hasMgr := true, timer := .pending, conn := some 0, nextGen := 3, dver := some "ged", key := true, role := some true,
    ctors := [Connector.init],
    conns := [{ gen := 0, inbound := false, st := DCP.init, closing := false, lost := false, tracked := false,
                obsDiscard := false, obsMgr := true }] }

def demoHeap : Store :=
  [("_timer", .ref "DelayedCall" 7), ("_connection", .ref "Connection" 0), ("_inbound", .ref "Inbound" 0),
   ("_outbound", .ref "Outbound" 0), ("_next_dilation_generation", .int 3), ("_S", .ref "Send" 0),
   ("_my_side", .str C17.MY_SIDE), ("_dilation_version", .str "ged"), ("_connector", .obj "Connector" [.int 0]),
   ("_stopped", .ref "OneShotObserver" 0), ("_main_channel", .ref "OneShotObserver" 1)]

example : RelTC demoHeap demoWorld := ⟨⟨_, rfl, TimerRel.pending 7⟩, rfl⟩
example : RelCtor demoHeap demoWorld := ⟨[], rfl⟩
example : RelGen demoHeap demoWorld := ⟨rfl, 0, rfl⟩
example : RelSide demoHeap demoWorld := ⟨rfl, rfl⟩

def isNoneV : Option Val → Bool
  | some .none => true
  | _ => false
def isIntV (n : Nat) : Option Val → Bool
  | some (.int m) => m == n
  | _ => false
def isRefV (i : Nat) : Option Val → Bool
  | some (.ref _ j) => i == j
  | _ => false

def runAbandon (t : C17.Timer) : Outcome := exec 1 (envM (raisesT t)) tbl_Manager "abandon_connection" [] demoHeap

/-- pending timer: cancelled, handle cleared, connection told to disconnect -/
example : (runAbandon .pending).calls.map (mcallW demoWorld) = [some .timerCancel, some (.disconnect 0)] ∧
    isNoneV ((runAbandon .pending).heap.get "_timer") = true ∧ (runAbandon .pending).exc = none := by decide

/-- fired timer (had the expiry not cleared the handle): `cancel()` raises, the connection is never told -/
example : (runAbandon .fired).calls.map (mcallW demoWorld) = [some .timerCancel] ∧
    isRefV 7 ((runAbandon .fired).heap.get "_timer") = true ∧ (runAbandon .fired).exc = some "AlreadyCalled" := by decide

def runPlease : Outcome := exec 2 (envM noRaise) tbl_Manager "send_please" [] demoHeap

/-- PLEASE carries our side and the negotiated version, under generation 3; the counter moves to 4 -/
example : runPlease.calls.map mcall =
      [some (.send "dilate-3" [("type", "please"), ("side", C17.MY_SIDE), ("use-version", "ged")])] ∧
    isIntV 4 (runPlease.heap.get "_next_dilation_generation") = true := by decide

end WV.Props.PyIRMgrC17

#print axioms WV.Props.PyIRMgrC17.manager_abandon_connection
#print axioms WV.Props.PyIRMgrC17.manager_stop_using_connection
#print axioms WV.Props.PyIRMgrC17.manager_send_please
