import WV.Gen.Shared

/-!
# Obligations common to every property

Every model in this project gives each object (each `Order`, `SubChannel`, `_Framer`, `Mailbox`, …) its own
state.  In Python a mutable container created once in the class body (or as an `attrs` `default=`) and then
mutated in place through `self` is one object shared by all instances of the class in the process, which no
per-object model can express.  The translator lists every such attribute of the working tree; the list has
to be empty.
-/
namespace WV.Props.Common
open WV.Gen

/-- **instances_do_not_share_state** -/
theorem instances_do_not_share_state : Shared.sharedMutableState = [] := by decide

end WV.Props.Common
