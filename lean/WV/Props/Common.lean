import WV.Gen.Shared
import WV.Gen.Failed
import WV.Gen.ApiSkel

/-!
# Obligations common to every property

Every model in this project gives each object (each `Order`, `SubChannel`, `_Framer`, `Mailbox`, …) its own
state.  In Python a mutable container created once in the class body (or as an `attrs` `default=`) and then
mutated in place through `self` is one object shared by all instances of the class in the process, which no
per-object model can express.  The translator lists every such attribute of the working tree; the list has
to be empty.
-/
namespace WV.Props.Common
open WV.Gen

/-- **instances_do_not_share_state** -/
theorem instances_do_not_share_state : Shared.sharedMutableState = [] := by decide

/-- **eventual_queue_is_plain_fifo** — every model treats `EventualQueue` as "calls queued in a turn run, each once,
    in the order queued, in the next turn; an exception in one of them is logged and does not affect the others".  That is
    what this call skeleton says (one loop over the snapshot with the `try` INSIDE the loop, nothing put back, no
    clock reads); the observers built on it hand each result to `eventually` once per waiting Deferred. -/
theorem eventual_queue_is_plain_fifo :
    ApiSkel.skeleton "EventualQueue._turn" = [("for/try", "f"), ("if", "_clock.callLater"), ("else/if", "d.callback")] ∧
    ApiSkel.skeleton "EventualQueue.eventually" = [("if", "_clock.callLater")] ∧
    ApiSkel.skeleton "EventualQueue.fire_eventually" = [("-", "Deferred"), ("-", "self.eventually")] ∧
    ApiSkel.skeleton "OneShotObserver._maybe_call_observers" = [("for", "_eq.eventually")] ∧
    ApiSkel.skeleton "OneShotObserver.fire" = [("-", "self._maybe_call_observers")] ∧
    ApiSkel.skeleton "OneShotObserver.error" = [("-", "self._maybe_call_observers")] ∧
    ApiSkel.skeleton "OneShotObserver.fire_if_not_fired" = [("if", "self.fire")] ∧
    ApiSkel.skeleton "OneShotObserver.when_fired" = [("-", "Deferred"), ("-", "self._maybe_call_observers")] := by
  decide

/-- **translator_covers_everything** — every generated module (`WV/Gen/*`) was regenerated from the working tree in
    this run.  When the source has been rewritten into a shape the translator cannot read any more (a method it parses
    is gone, a class moved), the module keeps its previous text and is named in `Gen.Failed.failed`: the theorems are
    then about a stale translation, which is a broken tie, not a proof. -/
theorem translator_covers_everything : Failed.failed = [] := by decide

end WV.Props.Common
