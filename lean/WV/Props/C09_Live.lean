import WV.Proofs.C09_Drain
import WV.Props.C03

/-!
# C09 — the data half of the liveness clause

"… so that once both sides stay connected the key exchange completes and **every send_message() issued is
delivered to the peer**."

`WV.Props.C09.key_exchange_always_completable` is the control half (no-trap form over the control model).  This
file closes the data half on the composition of two `WV.C03.Client`s — the functions `cBoss`, `cSend`, `cMbox`,
`cMboxRx`, `cRecvRes` that the C03 driver executes — with the storing / duplicating / reordering / replaying server
of `WV.Proofs.C03.Sys`, for every number of messages and every earlier pattern of drops:

* `e2e_complete_clients`   (quiescence form) in every reachable state that is `Drained`, what each application has
                           received is EXACTLY what its peer passed to `send_message`;
* `e2e_always_completable` (no-trap form) from every reachable state in which both clients have the verified key and
                           neither has closed, the explicit continuation `drainActs` — reconnect both, the server stores
                           every pending frame (as written on the current connection), the server delivers every stored
                           numbered message — contains no drop and no new `send_message` and ends in a `Drained` state;
                           hence everything sent has been received.

Reachable means: by a run of `Sys` in a **legal environment** (`legalRun`).  `Sys` lets the collaborators that
are outside `Client` (Key, Code, Terminator, the connector) call anything at any time, which is right for the safety
theorem `WV.Props.C03.e2e_prefix_clients` but makes completeness false (`legality_is_needed` below: a premature
`Send.got_verified_key` from outside makes `Receive`'s own call raise, and the message that triggered it is dropped
although the Mailbox has recorded its phase as processed).  `legalOp` restricts them to what their code does:
`Boss.happy` and `Send.got_verified_key` are called by `Receive` only, `Receive.got_key` comes after `Boss.got_code`
(`Key.compute_key` calls `B.got_key` first), Mailbox inputs get arguments of their own signature.  Drops
(`lost` / `connected` at any moment), duplicates, replays, reorderings, `close`, errors, strangers' garbage under
non-numeric phases: all still inside the quantifier.

What is NOT proved here: fairness itself (that a real network does perform the continuation), and the identity
"the real client is this `Client`" (C03's correspondence and the two-client oracles of C03/C09, `drained` cases).
-/
namespace WV.Props.C09Live
open WV WV.C03 WV.Gen WV.Proofs.C03 WV.Proofs.C09 WV.Props.C03

/-- **e2e_complete_clients.**  Two composed clients A and B (sides `sa ≠ sb`), ideal crypto, ANY legal run `acts`
    (any number of messages, drops at any moments, any storing / delivery schedule).  In the reached state:

    * direction by direction: if A has not closed, A's `Send` queue is empty, the server has stored everything
      in A's `_pending_outbound`, B can still deliver (not scared, not closing), B's `Order` queue is empty and
      B's Mailbox has been handed every numbered message of A that the server stores (`_processed` contains its
      phase), then B's application has received exactly `sentA` — all of it, in order, once;
    * in particular in a `Drained` state (both connected-and-open, both directions drained) both applications
      have received everything, and with the Deferred API the values already handed to `get_message()` callbacks,
      followed by those waiting, are exactly that list.

    None of the hypotheses mentions `_next_rx_phase`, the reorder buffer, or what was received. -/
theorem e2e_complete_clients (C : Crypto) (hC : C.Ideal) (sa sb : String) (hne : sa ≠ sb) (acts : List SAct)
    (hl : legalRun C (sysInit sa sb) acts = true) :
    let s := Sys.run C (sysInit sa sb) acts
    (DrainedDir s.a s.b s.bag → receivedOf s.b.log = s.sentA) ∧
    (DrainedDir s.b s.a s.bag → receivedOf s.a.log = s.sentB) ∧
    (Drained s →
      receivedOf s.b.log = s.sentA ∧ receivedOf s.a.log = s.sentB ∧
      okVals (s.b.obs.fired ++ s.b.obs.queue) ++ s.b.obs.results = s.sentA ∧
      okVals (s.a.obs.fired ++ s.a.obs.queue) ++ s.a.obs.results = s.sentB) := by
  intro s
  have hinv := sysRun_inv C hC sa sb acts (sysInit sa sb) (sysInit_inv C sa sb hne)
  have hacc := sysRun_acc C hC sa sb acts (sysInit sa sb) (sysInit_inv C sa sb hne) (sysInit_acc sa sb) hl
  have hab : DrainedDir s.a s.b s.bag → receivedOf s.b.log = s.sentA :=
    drained_complete C sa sb s.sentB s.sentA s.a s.b s.bag hinv.a hinv.b hacc.a hacc.b
  have hba : DrainedDir s.b s.a s.bag → receivedOf s.a.log = s.sentB :=
    drained_complete C sb sa s.sentA s.sentB s.b s.a s.bag hinv.b hinv.a hacc.b hacc.a
  refine ⟨hab, hba, ?_⟩
  intro hd
  refine ⟨hab hd.1, hba hd.2.1, ?_, ?_⟩
  · rw [hinv.b.rest.obs]; exact hab hd.1
  · rw [hinv.a.rest.obs]; exact hba hd.2.1

/-- **e2e_always_completable.**  From EVERY state reachable by a legal run in which both clients have the verified key
    (`Receive` in `S2_verified_key`) and neither has closed (Boss not closing, Mailbox not told to close) — whatever
    happened before: any number of connection losses at any moments, sends before / during / after the key exchange,
    sends while disconnected, duplicates, replays — the finite continuation `drainActs C s`

      1. `connected` for each client whose Mailbox waits for a connection (it re-opens and drains `_pending_outbound`),
      2. the server stores the latest written `add` frame of every pending message of A, then of B,
      3. the server hands B every stored numbered message of A, then A every stored numbered message of B
         (in the order stored; any order does),

    consists of cooperative steps only (`coop`: no `lost`, no `send_message`, no close, no error), is legal, uses
    none of the licences `Sys` grants its server beyond a real one (`realisticRun`: each `connected` happens at a
    disconnected client; each stored frame was written AFTER that client's latest `open`, i.e. on its current
    connection, and while it is connected; each delivery goes to a client that is connected with its mailbox open), and ends
    in a `Drained` state with `sentA` / `sentB` unchanged — so every `send_message()` issued has been delivered to the
    peer's application, in order, exactly once.  No bound on the number of messages. -/
theorem e2e_always_completable (C : Crypto) (hC : C.Ideal) (sa sb : String) (hne : sa ≠ sb) (acts : List SAct)
    (hl : legalRun C (sysInit sa sb) acts = true) :
    let s := Sys.run C (sysInit sa sb) acts
    HasKey s.a → HasKey s.b →
      (∀ a ∈ drainActs C s, coop a = true) ∧
      legalRun C (sysInit sa sb) (acts ++ drainActs C s) = true ∧
      realisticRun C s (drainActs C s) = true ∧
      Drained (Sys.run C s (drainActs C s)) ∧
      (Sys.run C s (drainActs C s)).sentA = s.sentA ∧ (Sys.run C s (drainActs C s)).sentB = s.sentB ∧
      receivedOf (Sys.run C s (drainActs C s)).b.log = s.sentA ∧
      receivedOf (Sys.run C s (drainActs C s)).a.log = s.sentB := by
  intro s ha hb
  have hinv := sysRun_inv C hC sa sb acts (sysInit sa sb) (sysInit_inv C sa sb hne)
  have hacc := sysRun_acc C hC sa sb acts (sysInit sa sb) (sysInit_inv C sa sb hne) (sysInit_acc sa sb) hl
  have hcoop := drainActs_coop C s
  have hleg : legalRun C (sysInit sa sb) (acts ++ drainActs C s) = true := by
    rw [legalRun_append, hl, Bool.true_and]
    exact coop_legal C _ hcoop _
  obtain ⟨d1, d2, d3, d4, d5, d6⟩ := drainActs_spec C hC sa sb hne s hinv hacc ha hb
  have hfin := e2e_complete_clients C hC sa sb hne (acts ++ drainActs C s) hleg
  have hrun : Sys.run C (sysInit sa sb) (acts ++ drainActs C s) = Sys.run C s (drainActs C s) := run_append C _ _ _
  simp only [hrun] at hfin
  exact ⟨hcoop, hleg, drainActs_realistic C hC sa sb hne s hinv hacc ha hb, ⟨d1, d2, d3, d4⟩, d5, d6,
    by rw [← d5]; exact hfin.1 d1, by rw [← d6]; exact hfin.2.1 d2⟩

/-! ## non-vacuity -/

/-- code, key, PAKE and `version` messages of one client (in the order its collaborators produce them) -/
def setup (w : Bool) : List SAct :=
  [.op w (.mbox .connected .none), .op w (.mbox .got_mailbox .mailbox), .op w (.boss .got_code .one), .op w .key,
   .op w (.addRaw "pake" [1]), .op w (.addRaw "version" [2])]

/-- both set up; A sends [7] before the key is verified; the key exchange completes on both sides -/
def handshake : List SAct := setup false ++ setup true ++
  [.op false (.send [7]), .store true 2, .store true 3, .deliver false 0, .deliver false 1,
   .store false 2, .store false 3, .deliver true 2, .deliver true 3]

/-- A sends [8], loses its connection in the middle of the sends, sends [9] while disconnected, reconnects
    (everything pending is written again) -/
def dropsMidSend : List SAct := handshake ++
  [.op false (.send [8]), .op false (.mbox .lost .none), .op false (.send [9]), .op false (.mbox .connected .none)]

/-- the server stores "0" and "2" of the new connection, delivers "2" first; B drops and reconnects; "0" arrives twice;
    "1" is still only in A's pending list -/
def oneMissing : List SAct := dropsMidSend ++
  [.store false 15, .store false 17, .deliver true 5, .op true (.mbox .lost .none), .op true (.mbox .connected .none),
   .deliver true 4, .deliver true 4]

/-- … and finally "1" is stored and delivered -/
def allThere : List SAct := oneMissing ++ [.store false 16, .deliver true 6]

/-- drops in the middle of the sends, reordering, a duplicate, a reconnect of each side: the run is legal, the final
    state is `Drained`, and B's application got the three messages -/
example :
    legalRun plainCrypto (sysInit "aa" "bb") allThere = true ∧
    Drained (Sys.run plainCrypto (sysInit "aa" "bb") allThere) ∧
    (Sys.run plainCrypto (sysInit "aa" "bb") allThere).sentA = [[7], [8], [9]] ∧
    receivedOf (Sys.run plainCrypto (sysInit "aa" "bb") allThere).b.log = [[7], [8], [9]] := by decide

/-- one message still pending (written, but not stored by the server): not `Drained`, and the prefix is strict -/
example :
    legalRun plainCrypto (sysInit "aa" "bb") oneMissing = true ∧
    ¬ Drained (Sys.run plainCrypto (sysInit "aa" "bb") oneMissing) ∧
    ¬ DrainedDir (Sys.run plainCrypto (sysInit "aa" "bb") oneMissing).a (Sys.run plainCrypto (sysInit "aa" "bb") oneMissing).b
        (Sys.run plainCrypto (sysInit "aa" "bb") oneMissing).bag ∧
    (Sys.run plainCrypto (sysInit "aa" "bb") oneMissing).sentA = [[7], [8], [9]] ∧
    receivedOf (Sys.run plainCrypto (sysInit "aa" "bb") oneMissing).b.log = [[7]] := by decide

/-- the hypotheses of `e2e_always_completable` are met by a non-trivial state: after `dropsMidSend` (and B dropping
    too and sending while disconnected) both have the verified key, nothing of the three + one messages has been
    delivered, the state is not `Drained` — and the continuation (13 steps: it reconnects B, stores the five + three
    latest `add` frames, delivers "0", "1", "2" to B and "0" to A) drains it -/
def bothDropped : List SAct := dropsMidSend ++ [.op true (.mbox .lost .none), .op true (.send [5])]

def bothDroppedS : Sys := Sys.run plainCrypto (sysInit "aa" "bb") bothDropped

example :
    legalRun plainCrypto (sysInit "aa" "bb") bothDropped = true ∧ HasKey bothDroppedS.a ∧ HasKey bothDroppedS.b ∧
    ¬ Drained bothDroppedS ∧ receivedOf bothDroppedS.b.log = [] ∧ receivedOf bothDroppedS.a.log = [] ∧
    (drainActs plainCrypto bothDroppedS).length = 13 ∧ realisticRun plainCrypto bothDroppedS (drainActs plainCrypto bothDroppedS) = true ∧
    Drained (Sys.run plainCrypto bothDroppedS (drainActs plainCrypto bothDroppedS)) ∧
    receivedOf (Sys.run plainCrypto bothDroppedS (drainActs plainCrypto bothDroppedS)).b.log = [[7], [8], [9]] ∧
    receivedOf (Sys.run plainCrypto bothDroppedS (drainActs plainCrypto bothDroppedS)).a.log = [[5]] := by decide

/-- **legality_is_needed.**  Without the environment discipline the quiescence theorem is false in `Sys`: if
    `Send.got_verified_key` is called on B from outside before `Receive` does it, `Receive`'s own call raises
    `NoTransition` when the first good message arrives, `W_happy` and `W_got_message` are skipped, the Boss stays
    lonely and the next numbered message is dropped by it — yet B's Mailbox has recorded phase "0" as processed and
    every condition of `DrainedDir` holds. -/
def prematureVerified : List SAct := setup false ++ setup true ++
  [.op true .verified, .op false (.send [7]), .store true 2, .store true 3, .deliver false 0, .deliver false 1,
   .store false 2, .store false 3, .deliver true 2, .deliver true 3, .store false 7, .deliver true 4]

def prematureVerifiedS : Sys := Sys.run plainCrypto (sysInit "aa" "bb") prematureVerified

theorem legality_is_needed :
    legalRun plainCrypto (sysInit "aa" "bb") prematureVerified = false ∧
      DrainedDir prematureVerifiedS.a prematureVerifiedS.b prematureVerifiedS.bag ∧
      prematureVerifiedS.sentA = [[7]] ∧ receivedOf prematureVerifiedS.b.log = [] := by decide

end WV.Props.C09Live
