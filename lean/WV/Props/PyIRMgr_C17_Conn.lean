import WV.Proofs.PyIRMgr

set_option linter.unusedSimpArgs false
set_option linter.unusedVariables false

/-!
Translation validation of method BODIES of the Dilation `Manager`, third part: what the Connector and the Dilator call —
`connector_connection_lost` (= `C17.connectionLost`), `connector_connection_made` (= `C17.connectionMade`),
`received_dilation_message` (= `C17.receivedMsg`), `got_dilation_key` (= `C17.gotKey`).
-/
namespace WV.Props.PyIRMgrC17Conn
open WV WV.PyIR WV.Gen WV.Gen.PyIRMgr WV.Proofs.PyIRC03 WV.Proofs.PyIRDil WV.Proofs.PyIRMgr

/-- `C17.connectionLost` on a connection in use whose timer handle is not a fired DelayedCall: TrafficTimer to
    `no_connection`, handle and connection cleared, Outbound paused (`pauseAll`), then the machine input chosen by OUR role
    (which `pauseAll` leaves alone) -/
theorem connectionLost_model (w : C17.World) (c : Nat) (hcn : w.conn = some c) (hnf : w.timer ≠ .fired) :
    C17.connectionLost w =
      C17.andThen (C17.pauseAll { w with tt := w.tt.map fun _ => TrafficTimer.State.no_connection,
                                         timer := .none, conn := none }) fun w3 =>
        if w.role = some true then C17.mInput .connection_lost_leader "" 0 w3
        else C17.mInput .connection_lost_follower "" 0 w3 := by
  have hr : ∀ w2 : C17.World, w2.role = w.role →
      (C17.andThen (C17.pauseAll w2) fun w3 =>
        if w3.role = some true then C17.mInput .connection_lost_leader "" 0 w3
        else C17.mInput .connection_lost_follower "" 0 w3) =
      (C17.andThen (C17.pauseAll w2) fun w3 =>
        if w.role = some true then C17.mInput .connection_lost_leader "" 0 w3
        else C17.mInput .connection_lost_follower "" 0 w3) := by
    intro w2 h2
    have hp := pauseAll_role w2
    rcases hpa : C17.pauseAll w2 with ⟨w3, e⟩
    rw [hpa] at hp
    cases e <;> simp [C17.andThen]
    simp at hp
    rw [hp, h2]
  cases htm : w.timer with
  | fired => exact absurd htm hnf
  | none => simp [C17.connectionLost, C17.cancelTimer, C17.andThen, htm, hcn, Flags.stop_using_checks_active]; exact hr _ rfl
  | pending => simp [C17.connectionLost, C17.cancelTimer, C17.andThen, htm, hcn, Flags.stop_using_checks_active]; exact hr _ rfl

/-- `Manager.connector_connection_lost()` = `C17.connectionLost` (`connectionLost_model`) on a connection in use whose timer
    handle is not a fired DelayedCall (`timer_handle_safe`): the TrafficTimer is told first (if there is one), then
    `_stop_using_connection` (timer cancelled and cleared, connection forgotten, Inbound then Outbound told), then the
    machine gets `connection_lost_leader` iff OUR role is LEADER, else `connection_lost_follower` -/
theorem manager_connector_connection_lost (fuel : Nat) (h : Store) (w : C17.World) (c : Nat) (R : RelTC h w)
    (hcn : w.conn = some c) (hnf : w.timer ≠ .fired) (tv : Val) (htt : h.get "_traffic" = some tv) (hTT : TTRel tv w.tt)
    (hrole : h.get "_my_role" = some (encRole w.role))
    (hi : ∃ i, h.get "_inbound" = some (.ref "Inbound" i)) (ho : ∃ i, h.get "_outbound" = some (.ref "Outbound" i)) :
    let o := exec (fuel + 2) (envM noRaise) tbl_Manager "connector_connection_lost" [] h
    let w2 : C17.World := { w with tt := w.tt.map fun _ => TrafficTimer.State.no_connection, timer := .none, conn := none }
    RelTC o.heap w2 ∧ o.exc = none ∧
      o.calls.map mcall =
        (if w.tt.isSome then [some MCall.trafficLost] else []) ++
        (if w.timer = .none then [] else [some .timerCancel]) ++
        [some .inboundStop, some .outboundStop,
         some (.input (if w.role = some true then .connection_lost_leader else .connection_lost_follower))] := by
  obtain ⟨⟨tmv, htv, hT⟩, hc⟩ := R
  obtain ⟨ii, hi⟩ := hi
  obtain ⟨io, ho⟩ := ho
  rw [hcn] at hc
  cases htm : w.timer <;> rw [htm] at hT <;> (try exact absurd htm hnf)
  all_goals first
    | (have := hT.of_none; subst this)
    | (obtain ⟨id, rfl⟩ := hT.of_pending)
  all_goals
    cases htt0 : w.tt <;> rw [htt0] at hTT
  all_goals
    rcases hTT with ⟨ht0, rfl⟩ | ⟨ht0, a, b, rfl⟩ <;> first | (exact absurd rfl ht0) | (cases ht0) | skip
  all_goals
    rcases hro : w.role with _ | _ | _ <;> rw [hro] at hrole <;>
    mgr_eval [tbl_Manager, m_Manager_connector_connection_lost, m_Manager__stop_using_connection, envM, noRaise, extM,
      htt, htv, hc, hi, ho, hrole, encRole, encConn, mcall, RelTC, htt0]
  all_goals (first | exact TimerRel.none | skip)

/-- `C17.connectionMade`, step by step (definitional): the Leader's TrafficTimer is told (→ `begin_timing`), the machine gets
    `connection_made`, the connection is remembered, Outbound resumes, `_main_channel` fires once -/
theorem connectionMade_model (c : Nat) (w : C17.World) :
    C17.connectionMade c w =
      C17.andThen (if w.role = some true then C17.beginTiming { w with tt := some .connected } else (w, none)) fun w1 =>
      C17.andThen (C17.mInput .connection_made "" 0 w1) fun w2 =>
      C17.andThen (C17.resumeAll { w2 with conn := some c }) fun w3 =>
        if w3.madeFirst then (w3, none) else C17.mainFire { w3 with madeFirst := true } := rfl

/-- `Manager.connector_connection_made(c)` = `C17.connectionMade c` (`connectionMade_model`), call by call: only the LEADER
    tells its TrafficTimer (built on first use from `(_signal_reconnect, _send_ping_reset_timer)`, in this order); then the
    machine input `connection_made`; only THEN `_connection = c`; Inbound, then Outbound get the connection;
    `_main_channel.fire(None)` exactly on the first connection.  `refuse`: if the machine refuses the input (call index
    `nLead`), nothing after it has happened: `_connection` is untouched. -/
theorem manager_connector_connection_made (fuel : Nat) (h : Store) (w : C17.World) (c : Nat) (b : Bool) (tv cv : Val)
    (hro : w.role = some b) (hrole : h.get "_my_role" = some (encRole w.role))
    (htt : h.get "_traffic" = some tv) (hTT : TTRel tv w.tt) (hcv : h.get "_connection" = some cv)
    (hmf : h.get "_made_first_connection" = some (.bool w.madeFirst))
    (hi : ∃ i, h.get "_inbound" = some (.ref "Inbound" i)) (ho : ∃ i, h.get "_outbound" = some (.ref "Outbound" i))
    (hm : ∃ i, h.get "_main_channel" = some (.ref "OneShotObserver" i)) (refuse : Bool) :
    let nLead := if b then 1 else 0
    let o := exec (fuel + 1) (envM (fun k => if refuse ∧ k = nLead then some "NoTransition" else none)) tbl_Manager
      "connector_connection_made" [.ref "Connection" c] h
    (refuse = true → o.exc = some "NoTransition" ∧ o.heap.get "_connection" = some cv ∧
        o.heap.get "_made_first_connection" = some (.bool w.madeFirst) ∧
        o.calls.map mcall = (if b then [some MCall.trafficGot] else []) ++ [some (.input .connection_made)]) ∧
    (refuse = false → o.exc = none ∧ o.heap.get "_connection" = some (encConn (some c)) ∧
        o.heap.get "_made_first_connection" = some (.bool true) ∧
        (∃ v, o.heap.get "_traffic" = some v ∧
          (b = true → ∃ a2 b2, v = .obj "TrafficTimer" [.str a2, .str b2] ∧
            (w.tt = none → a2 = "_signal_reconnect" ∧ b2 = "_send_ping_reset_timer")) ∧ (b = false → v = tv)) ∧
        o.calls.map mcall = (if b then [some MCall.trafficGot] else []) ++
          [some (.input .connection_made), some (.inboundUse c), some (.outboundUse c)] ++
          (if w.madeFirst then [] else [some .mainFire])) := by
  obtain ⟨ii, hi⟩ := hi
  obtain ⟨io, ho⟩ := ho
  obtain ⟨im, hm⟩ := hm
  rw [hro] at hrole
  cases htt0 : w.tt <;> rw [htt0] at hTT
  all_goals
    rcases hTT with ⟨ht0, rfl⟩ | ⟨ht0, a, b', rfl⟩ <;> first | (exact absurd rfl ht0) | (cases ht0) | skip
  all_goals
    cases b <;> cases refuse <;> cases hmf0 : w.madeFirst <;> rw [hmf0] at hmf <;>
    mgr_eval [tbl_Manager, m_Manager_connector_connection_made, envM, extM, htt, hcv, hi, ho, hm, hmf, hrole, encRole,
      encConn, mcall, htt0]

/-- `Manager.received_dilation_message(plaintext)` = `C17.receivedMsg`: the machine input is chosen by the payload's
    `"type"` alone — `please` → `rx_PLEASE(message)`, `connection-hints` → `rx_HINTS(message)`, `reconnect` →
    `rx_RECONNECT()`, `reconnecting` → `rx_RECONNECTING()`; anything else is logged (`log.err(UnknownDilationMessageType)`)
    and NOT raised -/
theorem manager_received_dilation_message (fuel : Nat) (h : Store) (d : List (Val × Val)) (typ : String)
    (ht : dictGet (.str "type") d = .ok (some (.str typ))) :
    let o := exec (fuel + 1) (envM noRaise) tbl_Manager "received_dilation_message" [.obj "json" [.dict d]] h
    o.heap = h ∧ o.exc = none ∧
      o.calls =
        (if typ = "please" then [⟨"self", "rx_PLEASE", [.dict d]⟩]
         else if typ = "connection-hints" then [⟨"self", "rx_HINTS", [.dict d]⟩]
         else if typ = "reconnect" then [⟨"self", "rx_RECONNECT", []⟩]
         else if typ = "reconnecting" then [⟨"self", "rx_RECONNECTING", []⟩]
         else [⟨"log", "err", [.obj "UnknownDilationMessageType" [.dict d]]⟩]) := by
  by_cases h1 : typ = "please"
  · subst h1
    mgr_eval [tbl_Manager, m_Manager_received_dilation_message, envM, noRaise, extM, ht]
  · by_cases h2 : typ = "connection-hints"
    · subst h2
      mgr_eval [tbl_Manager, m_Manager_received_dilation_message, envM, noRaise, extM, ht]
    · by_cases h3 : typ = "reconnect"
      · subst h3
        mgr_eval [tbl_Manager, m_Manager_received_dilation_message, envM, noRaise, extM, ht]
      · by_cases h4 : typ = "reconnecting"
        · subst h4
          mgr_eval [tbl_Manager, m_Manager_received_dilation_message, envM, noRaise, extM, ht]
        · mgr_eval [tbl_Manager, m_Manager_received_dilation_message, envM, noRaise, extM, ht, h1, h2, h3, h4]

/-- which machine input `C17.receivedMsg` gives for a parsed message = the one the body chooses for its `"type"` -/
def msgType : C17.Msg → String
  | .please _ => "please" | .hints _ => "connection-hints" | .reconnect => "reconnect" | .reconnecting => "reconnecting"
  | .unknown => "?"

theorem receivedMsg_model (m : C17.Msg) (w : C17.World) :
    C17.receivedMsg m w =
      (if msgType m = "please" then C17.mInput .rx_PLEASE (match m with | .please s => s | _ => "") 0 w
       else if msgType m = "connection-hints" then C17.mInput .rx_HINTS "" (match m with | .hints n => n | _ => 0) w
       else if msgType m = "reconnect" then C17.mInput .rx_RECONNECT "" 0 w
       else if msgType m = "reconnecting" then C17.mInput .rx_RECONNECTING "" 0 w
       else (C17.emit "log UnknownDilationMessageType" w, none)) := by
  cases m <;> simp [C17.receivedMsg, msgType]

/-- `Manager.got_dilation_key(key)` = `C17.gotKey` (with a Manager): the key is kept; anything but bytes is refused -/
theorem manager_got_dilation_key (fuel : Nat) (h : Store) (k : List Nat) :
    let o := exec (fuel + 1) (envM noRaise) tbl_Manager "got_dilation_key" [.bytes k] h
    o.heap = h.set "_dilation_key" (.bytes k) ∧ KeyRel (.bytes k) true ∧ o.calls = [] ∧ o.exc = none := by
  mgr_eval [tbl_Manager, m_Manager_got_dilation_key, envM, noRaise, KeyRel]

theorem manager_got_dilation_key_refuses (fuel : Nat) (h : Store) (s : String) :
    let o := exec (fuel + 1) (envM noRaise) tbl_Manager "got_dilation_key" [.str s] h
    o.heap = h ∧ o.calls = [] ∧ o.exc = some "AssertionError" := by
  mgr_eval [tbl_Manager, m_Manager_got_dilation_key, envM, noRaise]

/-! ## non-vacuity: concrete heaps, concrete runs of the generated bodies -/

def demoHeap : Store :=
  [("_my_role", encRole (some true)), ("_traffic", .none), ("_timer", .ref "DelayedCall" 2), ("_connection", .ref "Connection" 0),
   ("_made_first_connection", .bool false), ("_inbound", .ref "Inbound" 0), ("_outbound", .ref "Outbound" 0),
   ("_main_channel", .ref "OneShotObserver" 1)]

def demoWorld : C17.World :=
  { C17.World.init false false C17.MY_SIDE with hasMgr := true, role := some true, timer := .pending, conn := some 0 }

example : RelTC demoHeap demoWorld := ⟨⟨_, rfl, TimerRel.pending 2⟩, rfl⟩
example : TTRel .none demoWorld.tt := Or.inl ⟨rfl, rfl⟩

def runMade : Outcome :=
  exec 1 (envM noRaise) tbl_Manager "connector_connection_made" [.ref "Connection" 5]
    (demoHeap.set "_connection" .none)

/-- the Leader's first connection: the TrafficTimer is built and told, the machine is told, Inbound and Outbound get
    connection 5, `_main_channel` fires -/
example : runMade.calls.map mcall =
    [some .trafficGot, some (.input .connection_made), some (.inboundUse 5), some (.outboundUse 5), some .mainFire] ∧
    runMade.exc = none := by decide

def runLost : Outcome := exec 2 (envM noRaise) tbl_Manager "connector_connection_lost" [] runMade.heap

/-- … and its loss: TrafficTimer, timer cancelled, Inbound, Outbound, `connection_lost_leader` -/
example : runLost.calls.map mcall =
    [some .trafficLost, some .timerCancel, some .inboundStop, some .outboundStop, some (.input .connection_lost_leader)] ∧
    runLost.exc = none := by decide

def runMsg (t : String) : Outcome :=
  exec 1 (envM noRaise) tbl_Manager "received_dilation_message" [.obj "json" [.dict [(.str "type", .str t)]]] demoHeap

example : (runMsg "reconnect").calls.map mcall = [some (.input .rx_RECONNECT)] := by decide
example : (runMsg "hello").calls.map mcall = [some (.logErr "UnknownDilationMessageType")] ∧ (runMsg "hello").exc = none := by
  decide

end WV.Props.PyIRMgrC17Conn

#print axioms WV.Props.PyIRMgrC17Conn.manager_connector_connection_lost
#print axioms WV.Props.PyIRMgrC17Conn.manager_connector_connection_made
#print axioms WV.Props.PyIRMgrC17Conn.manager_received_dilation_message
