import WV.Model.C06
import WV.Proofs.C06_Links
import WV.Props.C06

/-!
C06 — several `Connection` objects in one process.

The property speaks about "an established Transit connection"; a process may hold several at once: both ends of one
link, two or three links with different transit keys, a new session after an earlier one ended with records still
queued that nobody read.  The model gives each `Connection` object its own state (`Conn` + what its transport holds),
so a process is the product `List HConn`, an event acts on the one component it names (`pstep`, `updAt`), and a new
object starts as `Conn.init`.  What follows is that product statement and what it buys: every per-connection theorem
(`tamper_prefix`, `holding_transport_prefix`, `delivery_exact`, …) holds link by link in every interleaving — what a
connection surfaces is a prefix of what ITS peer sealed for it: nothing from another link, nothing of its own,
nothing left over from an earlier session.

The Python side of this is not a property of any method body but of where the containers are built (`__init__`, per
object) — `WV.Props.Common.instances_do_not_share_state` pins that on the source; the multi-link correspondence
(`harness/props/c06.py`, case kind `links`: the driver runs this very product, line by line, against 2–6 real
`Connection` objects living in one process) and the per-connection oracle check it on the objects.
-/
namespace WV.Props.C06
open WV WV.C06

/-- **links_independent.**  An event on connection `i` — bytes arriving, any application call with any re-entrant
    callbacks, a loss report, the transport holding or releasing bytes — leaves every other connection `j` of the
    process exactly as it was: buffer, counters, state, queue of parked records, waiting reads, consumer, and its
    whole output trace (`app.log`: reads fired, consumer writes, transport calls — nothing is emitted on `j`). -/
theorem links_independent (Es : Nat → Env) (p : List HConn) (i j : Nat) (o : HOp) (h : j ≠ i) :
    (pstep Es p (.on i o))[j]? = p[j]? :=
  pstep_on_other Es p i j o h

/-- … and it is `hstep` on component `i`, under link `i`'s own environment (its transit key, its box) -/
theorem link_step_is_own_step (Es : Nat → Env) (p : List HConn) (i : Nat) (o : HOp) :
    (pstep Es p (.on i o))[i]? = p[i]?.map (fun h => hstep (Es i) h o) :=
  pstep_on_same Es p i o

/-- **a new connection disturbs nothing and inherits nothing**: whatever the process holds — earlier sessions that
    ended (or did not) with unread records queued, reads still waiting, consumers attached — the connections that
    exist stay as they are, and the new object is `Conn.init` fed with what rode behind its own handshake: empty
    queue, no reader, no consumer, both counters 0. -/
theorem new_connection_starts_clean (Es : Nat → Env) (p : List HConn) (b : Bool) :
    (∀ j, j < p.length → (pstep Es p (.start b []))[j]? = p[j]?) ∧
    (pstep Es p (.start b []))[p.length]? = some { c := Conn.init b, held := [] } := by
  refine ⟨fun j hj => pstep_start_old Es p b [] j hj, ?_⟩
  rw [pstep_start_new]
  simp [dataReceived, Conn.init, dataReceivedRECORDS, parseFrame]

/-- **link_projection** (the product statement for whole schedules).  After any schedule of the process —
    events of all connections interleaved in any order, new connections appearing in between — connection `i` is in
    the state its own events alone lead to: `hrun` of link `i`'s environment on the sub-sequence `opsOf i`. -/
theorem link_projection (Es : Nat → Env) (ops : List POp) (p : List HConn) (i : Nat) (h0 : HConn)
    (h : p[i]? = some h0) : (prun Es p ops)[i]? = some (hrun (Es i) h0 (opsOf i ops)) :=
  link_projection_core Es ops p i h0 h

/-- a connection that is created in the middle of a schedule (`pre` has run; `post` follows): it gets the next index,
    starts clean, and from then on sees only its own events -/
theorem started_link_projection (Es : Nat → Env) (p : List HConn) (pre post : List POp) (b : Bool) (left : Bytes) :
    let i := (prun Es p pre).length
    (prun Es p (pre ++ .start b left :: post))[i]? =
      some (hrun (Es i) { c := (dataReceived (Es i) (Conn.init b) left).1, held := [] } (opsOf i post)) := by
  intro i
  rw [prun_append]
  show (prun Es (pstep Es (prun Es p pre) (.start b left)) post)[i]? = _
  exact link_projection_core Es post _ i _ (pstep_start_new Es (prun Es p pre) b left)

/-- **every link, prefix** (multi-link form of `tamper_prefix` / `holding_transport_prefix`).  Start from an empty
    process and let anything happen: connections of any number of links come and go, bytes of any origin — honest,
    tampered, another link's frames, a connection's own frames reflected — arrive at any of them in any chunks,
    interleaved with any application activity anywhere.  For every connection `h` in the process: if under ITS
    receive key only the sealings of `rs` open (its peer's records; the adversary and the other links do not hold that
    key), what it has handed out plus what it has queued is a prefix of `rs`. -/
theorem every_link_prefix (Es : Nat → Env) (ops : List POp) (i : Nat) (h : HConn)
    (hget : (prun Es [] ops)[i]? = some h) (rs : List Bytes) (hcount : rs.length ≤ 256 ^ 24)
    (hid : IdealFor (Es i).box (receiverRecordKey (Es i) h.c.isSender) rs) :
    h.c.app.surfaced <+: rs :=
  (prun_inv Es i h.c.isSender rs hcount hid.onlyHonest ops [] (by intro h hg; simp at hg) h hget rfl).1

/-- **every link, exactly** (multi-link form of `delivery_exact`).  Connection `i` is created somewhere in a process
    schedule (after `pre`), as the `!b` end of a link whose `b` end sent `rs`; its own events in the rest of the
    schedule are application calls, loss reports and the honest bytes in any chunks — whatever all the other
    connections do in between.  Then it is alive with an empty buffer and has handed out / queued exactly `rs`. -/
theorem every_link_delivery_exact (Es : Nat → Env) (pre post : List POp) (b : Bool) (rs : List Bytes)
    (hcount : rs.length ≤ 256 ^ 24) (hsz : SizesOK rs) (ops : List Op)
    (hid : IdealFor (Es (prun Es [] pre).length).box (senderRecordKey (Es (prun Es [] pre).length) b) rs)
    (hops : opsOf (prun Es [] pre).length post = ops.map HOp.op)
    (hdata : (dataOf ops).flatten = (sendMany (Es (prun Es [] pre).length) (Conn.init b) rs).1.app.wire) :
    ∃ h, (prun Es [] (pre ++ .start (!b) [] :: post))[(prun Es [] pre).length]? = some h ∧
      h.c.app.surfaced = rs ∧ h.c.state = .records ∧ h.c.buf = [] ∧ h.c.nextReceiveNonce = rs.length := by
  have hp := started_link_projection Es [] pre post (!b) []
  simp only at hp
  have h0 : (dataReceived (Es (prun Es [] pre).length) (Conn.init (!b)) []).1 = Conn.init (!b) := by
    simp [dataReceived, Conn.init, dataReceivedRECORDS, parseFrame]
  rw [h0, hops, hrun_ops] at hp
  exact ⟨_, hp, delivery_exact_core (Es (prun Es [] pre).length) b rs hcount hsz hid ops hdata⟩

/-! ## a concrete process: two links with different keys, interleaved -/

/-- link B: another transit key, other records; its record key differs from link A's (`exKey`) -/
def exRsB : List Bytes := [[8, 8], [6]]
def exKeyB : Bytes := 8 :: Gen.C06.ctx_sender_sendkey
def exEnvB : Env := { box := idealBox exKeyB exRsB, hkdf := fun key _ info => key ++ info, transitKey := [8] }
def exWireB : Bytes := (sendMany exEnvB (Conn.init true) exRsB).1.app.wire
def exEs : Nat → Env := fun i => if i = 0 then exEnv else exEnvB

example : IdealFor (exEs 1).box (receiverRecordKey (exEs 1) false) exRsB := idealBox_ideal _ _
example : receiverRecordKey (exEs 0) false ≠ receiverRecordKey (exEs 1) false := by decide

/-- the receiving ends of link A (connection 0) and link B (connection 1) in one process.  A's records arrive while
    nobody reads on A: they are parked on A.  A read on B stays pending — it does not get A's parked record —, B's own
    first record then fires it; a later read on A gets A's first record. -/
example :
    let p := prun exEs [] [.start false [], .start false [], .on 0 (.op (.data exWire)), .on 1 (.op (.call [.read []])),
                           .on 1 (.op (.data exWireB)), .on 0 (.op (.call [.read []]))]
    p.map (fun h => seen h.c) = [[.fired 0 [1, 2, 3]], [.fired 0 [8, 8]]] ∧
    p.map (fun h => h.c.app.inbound) = [[[], [9], [4, 4], [7]], [[6]]] := by decide +kernel

/-- a session that ended with unread records queued, then a new connection (the same link parameters): the new one
    has nothing queued, its read waits for its own peer -/
example :
    let p := prun exEs [] [.start false [], .on 0 (.op (.data exWire)), .on 0 (.op .lost), .start false [],
                           .on 1 (.op (.call [.read []]))]
    p.map (fun h => seen h.c) = [[], []] ∧ p.map (fun h => h.c.app.inbound.length) = [5, 0] ∧
    p.map (fun h => h.c.app.waiting.length) = [0, 1] := by decide +kernel

/-- link A's honest frames delivered to link B's connection: the very first one is refused (another key), B hangs up
    and surfaces nothing; A is not affected -/
example :
    let p := prun exEs [] [.start false [], .start false [], .on 1 (.op (.call [.read []])), .on 1 (.op (.data exWire)),
                           .on 0 (.op (.data exWire))]
    p.map (fun h => (h.c.state, h.c.error, h.c.app.surfaced.length)) =
      [(.records, none, 5), (.hungUp, some .cryptoError, 0)] := by decide +kernel

end WV.Props.C06
