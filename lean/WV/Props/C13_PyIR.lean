import WV.Model.C13
import WV.Model.PyIR
import WV.Gen.C13Wire

/-!
C13 — translation validation of `Manager.allocate_subchannel_id`, and the translator facts the wire-limit model
(`WV.C13.allocate`, `connectW`, `wireLimit`) rests on.  Everything under `WV.Gen.C13Wire` is regenerated from the
working tree on every run by `tools/extract.py::extract_c13_wire`:

* `allocate_subchannel_id` — the method body in the IR of `WV.Model.PyIR` (the translator of `extract_pyir`).
  `allocate_body_agrees`: the PyIR interpreter run on the *generated* body, on any heap that holds a Manager's counter,
  returns exactly `(allocate s).1`, leaves exactly `(allocate s).2.nextScid` in `_next_subchannel_id`, touches no other
  attribute, calls no collaborator and raises nothing — for every counter value, in particular next to and beyond
  2**32.  A body with an extra branch (`if self._next_subchannel_id > MAX: self._next_subchannel_id -= MAX`), a
  modulus, a clamp, `+= 1`, or the increment before the read regenerates different IR (or leaves the subset:
  `allocate_subchannel_id = none`) and this theorem no longer checks.
* `counter_writers` — every statement of the dilation package that stores to `_next_subchannel_id`: the class default,
  the two seeds of `choose_role`, and the one `+= 2`.  No reset on reconnect, no second allocator.
* `be4_limit` — the bound in `to_be4`; `scid_is_be4` — `Open`, `Data`, `Close` put the id through `to_be4`.
-/
namespace WV.Props.C13
open WV WV.C13 WV.PyIR

/-- the one-method table: `self.allocate_subchannel_id` resolves to the generated body -/
def allocTbl : MethodTable := fun m =>
  if m = "allocate_subchannel_id" then Gen.C13Wire.allocate_subchannel_id else none

/-- the heap of a Manager holds the model side's allocation counter -/
def RelAlloc (h : Store) (s : Side) : Prop := h.get "_next_subchannel_id" = some (.int s.nextScid)

theorem store_get_set (h : Store) (a b : String) (v : Val) :
    (h.set a v).get b = if a = b then some v else h.get b := by
  induction h with
  | nil => simp [Store.set, Store.get]
  | cons e r ih =>
    obtain ⟨k, w⟩ := e
    by_cases hk : k = a
    · subst hk
      by_cases hb : k = b <;> simp [Store.set, Store.get, hb]
    · by_cases hb : k = b
      · subst hb
        have : ¬ a = k := fun h => hk h.symm
        simp [Store.set, Store.get, hk, this]
      · simp [Store.set, Store.get, hk, hb, ih]

/-- the translator could express the body (no construct outside the subset) -/
theorem allocate_translated : Gen.C13Wire.allocate_subchannel_id_untranslatable = none ∧
    Gen.C13Wire.allocate_subchannel_id.isSome = true := ⟨rfl, rfl⟩

/-- **`allocate_subchannel_id` is `allocate`.**  For every environment, fuel ≥ 1, heap and counter value. -/
theorem allocate_body_agrees (fuel : Nat) (env : Env) (h : Store) (s : Side) (R : RelAlloc h s) :
    (exec (fuel + 1) env allocTbl "allocate_subchannel_id" [] h).exc = none ∧
    (exec (fuel + 1) env allocTbl "allocate_subchannel_id" [] h).ret = .int (allocate s).1 ∧
    (exec (fuel + 1) env allocTbl "allocate_subchannel_id" [] h).calls = [] ∧
    (exec (fuel + 1) env allocTbl "allocate_subchannel_id" [] h).heap =
      h.set "_next_subchannel_id" (.int (allocate s).2.nextScid) := by
  unfold RelAlloc at R
  simp [exec, callM, allocTbl, Gen.C13Wire.allocate_subchannel_id, execB, execS, PyIR.andThen, withVal, evalE, readAttr,
    readVar, bindParams, valAdd, St.setAttr, St.setLocal, Store.get, Store.set, R, allocate]

/-- … and the heap afterwards holds the counter of the model side afterwards; every other attribute is as before -/
theorem allocate_body_keeps_rel (fuel : Nat) (env : Env) (h : Store) (s : Side) (R : RelAlloc h s) :
    RelAlloc (exec (fuel + 1) env allocTbl "allocate_subchannel_id" [] h).heap (allocate s).2 ∧
    ∀ a, a ≠ "_next_subchannel_id" →
      (exec (fuel + 1) env allocTbl "allocate_subchannel_id" [] h).heap.get a = h.get a := by
  rw [(allocate_body_agrees fuel env h s R).2.2.2]
  refine ⟨by simp [RelAlloc, store_get_set], ?_⟩
  intro a ha
  rw [store_get_set]
  simp [Ne.symm ha]

/-- before `choose_role` the counter is `None`: `None += 2` is outside what the interpreter gives a meaning to — the
    model never allocates in that state either (`connect_allocates_after_main_channel`, `WV.Props.C13_Alloc`) -/
example (env : Env) : (exec 1 env allocTbl "allocate_subchannel_id" [] [("_next_subchannel_id", .none)]).exc =
    some "Unsupported" := by
  simp [exec, callM, allocTbl, Gen.C13Wire.allocate_subchannel_id, execB, execS, PyIR.andThen, withVal, evalE, readAttr,
    readVar, bindParams, valAdd, St.setAttr, St.setLocal, Store.get, Store.set, unsupported]

/-- the hypotheses are satisfiable right at the boundary: the counter 2**32 - 1 comes back as the id, 2**32 + 1 stays -/
example (env : Env) :
    (exec 1 env allocTbl "allocate_subchannel_id" [] [("_my_role", .str "leader"), ("_next_subchannel_id", .int 4294967295)]).ret
      = .int 4294967295 ∧
    (exec 1 env allocTbl "allocate_subchannel_id" [] [("_my_role", .str "leader"), ("_next_subchannel_id", .int 4294967295)]).heap.get
      "_next_subchannel_id" = some (.int 4294967297) := by
  have R : RelAlloc [("_my_role", .str "leader"), ("_next_subchannel_id", .int 4294967295)]
      { Side.init true 4294967295 none with } := by simp [RelAlloc, Store.get, Side.init]
  have h := allocate_body_agrees 0 env _ _ R
  have k := allocate_body_keeps_rel 0 env _ _ R
  exact ⟨h.2.1, k.1⟩

/-- **nothing else writes the counter**: the class default, `choose_role`'s two seeds, and the `+= 2` -/
theorem counter_written_only_by_allocate_and_choose_role :
    Gen.C13Wire.counter_writers =
      [("Manager", "_next_subchannel_id = None"),
       ("Manager.allocate_subchannel_id", "self._next_subchannel_id += 2"),
       ("Manager.choose_role", "self._next_subchannel_id = 1"),
       ("Manager.choose_role", "self._next_subchannel_id = 2")] := by decide

/-- the model's limit is `to_be4`'s, and the three subchannel records put their id through it -/
theorem wire_limit_is_be4 : wireLimit = Gen.C13Wire.be4_limit ∧ Gen.C13Wire.scid_is_be4 = ["Close", "Data", "Open"] :=
  ⟨rfl, by decide⟩

end WV.Props.C13
