import WV.Gen.Flags
import WV.Proofs.C04
import WV.Proofs.C04_Net

/-!
C04 — a completed transfer is byte-exact; success is never reported otherwise.

All statements are about the executable model in `WV/Model/C04.lean` (the functions the driver
runs), for every source content and size, every chunk size `k > 0`, every announced size, every
interleaving of arriving records / attaching the consumer / losing the connection, and every hash
and zip codec satisfying the stated ideal property.  In the first part the transit stream is a
hypothesis — the records handed to the receiver are a prefix of the records the sender wrote
(`records evs <+: (sendFile k src).records`), the reverse direction delivers the receiver's first
record or nothing (`ackSeen`).  The `net_*` theorems further down discharge that hypothesis from
C06: they are about the Xfer model composed with C06's `Conn` model on both ends and hold for
every adversary schedule C06 quantifies over, under C06's `IdealFor` only.
-/
namespace WV.Props.C04
open WV WV.C04 WV.Proofs.C04

/-! ## tie to the code: generated call skeletons and constants -/

/-- file branch of `Receiver._parse_offer`: data is transferred before the rename, the ack is sent last -/
theorem parse_offer_order_file :
    ((Gen.Skel.skeleton "Receiver._parse_offer").filter (fun p => p.1 == "if")).map (·.2) =
      ["self._handle_text", "self._handle_file", "self._send_permission", "self._establish_transit",
       "self._transfer_data", "self._write_file", "self._close_transit"] := by decide

theorem parse_offer_order_directory :
    ((Gen.Skel.skeleton "Receiver._parse_offer").filter (fun p => p.1 == "else/if")).map (·.2) =
      ["self._handle_directory", "self._send_permission", "self._establish_transit",
       "self._transfer_data", "self._write_directory", "self._close_transit"] := by decide

/-- `_write_file` closes, then renames; `_close_transit` sends the ack, then closes;
    `_writeToConsumer` writes, then (guarded) detaches and fires -/
theorem body_skeletons :
    Gen.Skel.skeleton "Receiver._write_file" = [("-", "f.close"), ("-", "os.rename"), ("-", "self._msg")] ∧
    Gen.Skel.skeleton "Receiver._close_transit" = [("-", "record_pipe.send_record"), ("-", "record_pipe.close")] ∧
    Gen.Skel.skeleton "Connection._writeToConsumer" =
      [("-", "_consumer.write"), ("if/if", "self.disconnectConsumer"), ("if/if", "d.callback")] ∧
    Gen.Skel.skeleton "Connection.recordReceived" = [("if", "self._writeToConsumer"), ("-", "self._deliverRecords")] ∧
    Gen.Skel.skeleton "FileConsumer.write" = [("-", "_f.write"), ("if", "self._progress"), ("if", "self._hasher")] := by
  decide

theorem chunk_size_pos : 0 < Gen.Consts.FILESENDER_CHUNK_SIZE := by decide

/-- `_write_directory` unpacks member by member through `_extract_file`, whose guard raises and whose
    `zf.extract` / `os.chmod` are **not** inside any `try`: an error creating a member leaves the
    function (model: `Zip.unzip = none` ⇒ the receiver fails, no ack), it is not turned into a warning -/
theorem extraction_errors_propagate :
    Gen.Skel.skeleton "Receiver._extract_file" =
      [("-", "os.path.abspath"), ("if", "ValueError"), ("-", "zf.extract"), ("-", "os.chmod")] ∧
    Gen.Skel.skeleton "Receiver._write_directory" =
      [("-", "self._msg"), ("-", "zipfile.ZipFile"), ("-", "zf.infolist"), ("for", "self._extract_file"),
       ("-", "self._msg"), ("-", "f.close")] := by decide

/-- the ack check at the end of `_send_file`: read the ack, close, one guarded `TransferError` for
    `ack != "ok"`, and a second one nested under *two* conditions — `"sha256" in ack`, then `!=` — so a
    present-but-different value of any kind is refused (model: `ShaField.junk` / `.digest d ≠` ⇒ failure) -/
theorem send_file_ack_check_shape :
    (Gen.Skel.skeleton "Sender._send_file").drop 11 =
      [("-", "record_pipe.receive_record"), ("-", "record_pipe.close"), ("if", "t.detail"), ("if", "TransferError"),
       ("if/if", "t.detail"), ("if/if", "TransferError"), ("-", "t.detail")] := by decide

/-- the offer / answer / ack codec (`util.dict_to_bytes`, `util.bytes_to_dict`) is plain
    `json.dumps(d).encode("utf-8")` / `json.loads(b.decode("utf-8"))`: no `to_bytes` / `unicodedata`
    in either (which would NFC-normalise the text message, the file name and the directory name on
    their way to the receiver), no keyword argument to `json.dumps` / `json.loads`.  The codec itself
    stays an interface (`AckCodec`; json is trusted), this is the obligation that it is still that codec. -/
theorem dict_codec_does_not_normalise :
    Gen.Flags.dict_codec_normalises = false ∧ Gen.Flags.dict_to_bytes_plain_json_dumps = true ∧
    Gen.Flags.bytes_to_dict_plain_json_loads = true := by decide

/-! ## the sender -/

/-- whatever the size (0 included) and the chunk size, the records written are a chunking of the
    bytes read, and the running hash covers exactly those bytes -/
theorem sender_chunks_and_hashes_exactly (k : Nat) (hk : 0 < k) (src : Bytes) :
    (sendFile k src).records.flatten = src ∧ (sendFile k src).hashed = src :=
  sendFile_spec k hk src

/-- `sender_success_needs_matching_ack`: the sender reports success exactly when an ack record
    arrived that says `"ok"` and carries no different hash.  (An ack without any hash is accepted
    by the code: recorded as an observation of the harness, the property speaks of a lost or
    different hash.) -/
theorem sender_success_needs_matching_ack (H : Hash) (hashed : Bytes) (a : Option AckMsg) :
    checkAck H hashed a = .success ↔
      ∃ sha, a = some (.dict (some "ok") sha) ∧ (sha = .absent ∨ sha = .digest (H.sha hashed)) := by
  constructor
  · intro h
    cases a with
    | none => simp [checkAck] at h
    | some m =>
      cases m with
      | garbage => simp [checkAck] at h
      | dict ack sha =>
        by_cases hok : ack = some "ok"
        · subst hok
          cases sha with
          | absent => exact ⟨.absent, rfl, Or.inl rfl⟩
          | junk => simp [checkAck] at h
          | digest d =>
            by_cases hd : d = H.sha hashed
            · subst hd; exact ⟨_, rfl, Or.inr rfl⟩
            · simp [checkAck, hd] at h
        · simp [checkAck, hok] at h
  · rintro ⟨sha, rfl, hs | hs⟩ <;> subst hs <;> simp [checkAck]

/-- an ack carrying the hash of any other byte string is refused -/
theorem ack_with_different_hash_fails (H : Hash) (hH : H.Ideal) (hashed other : Bytes) (hne : other ≠ hashed) :
    checkAck H hashed (some (.dict (some "ok") (.digest (H.sha other)))) = .failed .transferError := by
  have : H.sha other ≠ H.sha hashed := fun h => hne (hH _ _ h)
  simp [checkAck, this]

/-- a lost ack (the connection closes first) is a failure -/
theorem ack_lost_fails (H : Hash) (hashed : Bytes) : checkAck H hashed none = .failed .connectionClosed := rfl

/-! ## the receiver -/

/-- `receiver_success_exact`: if the receiver reports success, the final destination holds exactly
    the bytes the sender read and the temporary file is gone — any content, any size including 0,
    any chunk size, consumer attached at any point, any hash, any zip codec, and whatever stale
    `dest.tmp` was lying in the receive directory (`stale`; the model's file write is positional,
    `fileWrite`, so an open that does not truncate would leave the stale tail in `final`). -/
theorem receiver_success_exact {τ : Type} (H : Hash) (Z : Zip τ) (k : Nat) (hk : 0 < k) (src : Bytes) (stale : Option Bytes) (evs : List Ev)
    (hchan : records evs <+: (sendFile k src).records)
    (hok : (runRx H Z src.length false stale evs).result = .success) :
    (runRx H Z src.length false stale evs).final = some (.file src) ∧
    (runRx H Z src.length false stale evs).tmpExists = false := by
  have hinv := inv_run H Z src.length false stale evs
  have hd := inv_done hinv (by rw [hok]; simp)
  obtain ⟨_, _, a3, a4, _, a6, a7, _⟩ := hd.ok hok
  have hpre : (records evs).flatten <+: src := by
    have := flatten_prefix hchan
    rwa [(sendFile_spec k hk src).1] at this
  have : (runRx H Z src.length false stale evs).spool = src := prefix_eq_of_length (a4.trans hpre) a3
  have hf := a7 rfl
  rw [this] at hf
  exact ⟨hf, a6⟩

/-- directory mode: success means the tree unpacked at the destination is the tree that was zipped -/
theorem directory_success_exact {τ : Type} (H : Hash) (Z : Zip τ) (hZ : Z.Ideal) (k : Nat) (hk : 0 < k) (t : τ)
    (stale : Option Bytes) (evs : List Ev) (hchan : records evs <+: (sendFile k (Z.zip t)).records)
    (hok : (runRx H Z (Z.zip t).length true stale evs).result = .success) :
    (runRx H Z (Z.zip t).length true stale evs).final = some (.dir t) := by
  have hinv := inv_run H Z (Z.zip t).length true stale evs
  have hd := inv_done hinv (by rw [hok]; simp)
  obtain ⟨_, _, a3, a4, _, _, _, a8⟩ := hd.ok hok
  have hpre : (records evs).flatten <+: Z.zip t := by
    have := flatten_prefix hchan
    rwa [(sendFile_spec k hk _).1] at this
  have hsp : (runRx H Z (Z.zip t).length true stale evs).spool = Z.zip t := prefix_eq_of_length (a4.trans hpre) a3
  obtain ⟨t', h1, h2⟩ := a8 rfl
  rw [hsp, hZ t] at h1
  cases h1
  exact h2

/-- both ends report success ⇒ byte-exact, *without* trusting the announced size and without any
    assumption on which records reached the receiver (`evs` is arbitrary): even if the offer's
    `filesize` is not the number of bytes the sender later reads (the file changed), the hash in
    the ack forces the receiver's file to be the sender's bytes. -/
theorem both_success_exact {τ : Type} (H : Hash) (hH : H.Ideal) (Z : Zip τ) (k : Nat) (hk : 0 < k) (src : Bytes)
    (xfersize : Nat) (stale : Option Bytes) (evs : List Ev) (delivered : Bool)
    (hsender : checkAck H (sendFile k src).hashed (ackSeen (runRx H Z xfersize false stale evs) delivered) = .success)
    (hhash : ∀ sha, ackSeen (runRx H Z xfersize false stale evs) delivered = some (.dict (some "ok") sha) → sha ≠ .absent) :
    (runRx H Z xfersize false stale evs).result = .success ∧
    (runRx H Z xfersize false stale evs).final = some (.file src) := by
  have hinv := inv_run H Z xfersize false stale evs
  obtain ⟨sha, hseen, hsha⟩ := (sender_success_needs_matching_ack H _ _).mp hsender
  have hacks : (runRx H Z xfersize false stale evs).acks ≠ [] := by
    intro h0
    unfold ackSeen at hseen
    cases delivered <;> simp [h0] at hseen
  have hnp : (runRx H Z xfersize false stale evs).result ≠ .pending := fun hp => hacks (inv_pending hinv hp).2.1
  have hd := inv_done hinv hnp
  cases hr : (runRx H Z xfersize false stale evs).result with
  | pending => exact absurd hr hnp
  | failed e => exact absurd (hd.bad e hr).2.1 hacks
  | success =>
    obtain ⟨_, _, _, _, a5, _, a7, _⟩ := hd.ok hr
    refine ⟨rfl, ?_⟩
    have hseen' : some (AckMsg.dict (some "ok") (.digest (H.sha (runRx H Z xfersize false stale evs).spool))) =
        some (AckMsg.dict (some "ok") sha) := by
      unfold ackSeen at hseen
      cases delivered
      · simp at hseen
      · simpa [a5] using hseen
    have hsha' : sha = .digest (H.sha (runRx H Z xfersize false stale evs).spool) := by
      cases hseen'; rfl
    rcases hsha with h1 | h1
    · exact absurd h1 (hhash sha hseen)
    · rw [h1, (sendFile_spec k hk src).2] at hsha'
      have : src = (runRx H Z xfersize false stale evs).spool := hH _ _ (ShaField.digest.inj hsha')
      rw [this]
      exact a7 rfl

/-- the honest receiver always puts the hash in: with it as the peer, sender success alone
    already gives exactness -/
theorem sender_success_exact {τ : Type} (H : Hash) (hH : H.Ideal) (Z : Zip τ) (k : Nat) (hk : 0 < k) (src : Bytes)
    (xfersize : Nat) (stale : Option Bytes) (evs : List Ev) (delivered : Bool)
    (hsender : checkAck H (sendFile k src).hashed (ackSeen (runRx H Z xfersize false stale evs) delivered) = .success) :
    (runRx H Z xfersize false stale evs).result = .success ∧
    (runRx H Z xfersize false stale evs).final = some (.file src) := by
  refine both_success_exact H hH Z k hk src xfersize stale evs delivered hsender ?_
  intro sha hseen habs
  subst habs
  have hinv := inv_run H Z xfersize false stale evs
  have hacks : (runRx H Z xfersize false stale evs).acks ≠ [] := by
    intro h0
    unfold ackSeen at hseen
    cases delivered <;> simp [h0] at hseen
  have hnp : (runRx H Z xfersize false stale evs).result ≠ .pending := fun hp => hacks (inv_pending hinv hp).2.1
  have hd := inv_done hinv hnp
  cases hr : (runRx H Z xfersize false stale evs).result with
  | pending => exact absurd hr hnp
  | failed e => exact absurd (hd.bad e hr).2.1 hacks
  | success =>
    obtain ⟨_, _, _, _, a5, _⟩ := hd.ok hr
    unfold ackSeen at hseen
    cases delivered
    · simp at hseen
    · simp [a5] at hseen

/-- `cut_no_success_no_final`: if the stream ends before `xfersize` bytes were delivered — at a
    record boundary or not, dropped by C06 or simply cut — the receiver does not report success,
    nothing exists at the final destination (in file mode only `*.tmp` does), no ack was sent, and
    therefore the sender's wait for the ack ends in ConnectionClosed, never in success. -/
theorem cut_no_success_no_final {τ : Type} (H : Hash) (Z : Zip τ) (xfersize : Nat) (dirMode : Bool) (stale : Option Bytes) (evs : List Ev)
    (hshort : (records evs).flatten.length < xfersize) :
    let s := runRx H Z xfersize dirMode stale evs
    s.result ≠ .success ∧ s.final = none ∧ s.tmpExists = (!dirMode) ∧ s.acks = [] ∧
    (∀ hashed delivered, checkAck H hashed (ackSeen s delivered) = .failed .connectionClosed) := by
  intro s
  have hinv := inv_run H Z xfersize dirMode stale evs
  have hres := inv_short hinv hshort
  have hfacts : s.final = none ∧ s.acks = [] ∧ s.tmpExists = (!dirMode) := by
    rcases hres with hp | hf
    · exact inv_pending hinv hp
    · have hd := inv_done hinv (by rw [hf]; simp)
      obtain ⟨b1, b2, b3, _⟩ := hd.bad _ hf
      exact ⟨b1 (by simp), b2, b3⟩
  refine ⟨?_, hfacts.1, hfacts.2.2, hfacts.2.1, ?_⟩
  · rcases hres with hp | hf
    · show (runRx H Z xfersize dirMode stale evs).result ≠ .success
      rw [hp]; simp
    · show (runRx H Z xfersize dirMode stale evs).result ≠ .success
      rw [hf]; simp
  · intro hashed delivered
    have h0 : s.acks = [] := hfacts.2.1
    unfold ackSeen
    cases delivered <;> simp [h0, checkAck]

/-- … and once the consumer is attached, the loss of the connection makes the receiver's Deferred
    fail (ConnectionClosed) rather than hang -/
theorem cut_then_lost_fails {τ : Type} (H : Hash) (Z : Zip τ) (xfersize : Nat) (dirMode : Bool) (stale : Option Bytes) (evs : List Ev)
    (hshort : (records evs).flatten.length < xfersize)
    (hstarted : (runRx H Z xfersize dirMode stale evs).started = true) :
    (runRx H Z xfersize dirMode stale (evs ++ [.lost])).result = .failed .connectionClosed := by
  rw [runRx_append]
  exact inv_started_lost (inv_run H Z xfersize dirMode stale evs) hstarted hshort

/-- the `received < xfersize → TransferError` branch of `_transfer_data` can never be taken:
    `writeToFile` fires only once the count is reached and otherwise errbacks.  The cut is caught
    by the errback, the check itself is dead code. -/
theorem transferError_unreachable {τ : Type} (H : Hash) (Z : Zip τ) (xfersize : Nat) (dirMode : Bool) (stale : Option Bytes) (evs : List Ev) :
    (runRx H Z xfersize dirMode stale evs).result ≠ .failed .transferError := by
  intro hr
  have hd := inv_done (inv_run H Z xfersize dirMode stale evs) (by rw [hr]; simp)
  obtain ⟨_, _, _, b4⟩ := hd.bad _ hr
  rcases b4 with b | b | b <;> exact absurd b.1 (by simp)

/-- the hypotheses of the success theorems are met by *every* honest run: all records delivered
    in any interleaving with attaching the consumer, no loss ⇒ both ends succeed and the file is exact -/
theorem honest_run_succeeds {τ : Type} (H : Hash) (Z : Zip τ) (k : Nat) (hk : 0 < k) (src : Bytes) (stale : Option Bytes) (evs : List Ev)
    (hall : records evs = (sendFile k src).records) (hconn : sawConnect evs = true) (hnolost : sawLost evs = false) :
    let s := runRx H Z src.length false stale evs
    s.result = .success ∧ s.final = some (.file src) ∧ s.tmpExists = false ∧
    checkAck H (sendFile k src).hashed (ackSeen s true) = .success := by
  intro s
  have hinv := inv_run H Z src.length false stale evs
  have hflat : (records evs).flatten = src := by rw [hall]; exact (sendFile_spec k hk src).1
  have hres : s.result = .success := by
    rcases inv_complete hinv hconn hnolost (by rw [hflat]) with h | ⟨_, h, _⟩
    · exact h
    · exact absurd h (by simp)
  have hex := receiver_success_exact H Z k hk src stale evs (by rw [hall]; exact List.prefix_refl _) hres
  refine ⟨hres, hex.1, hex.2, ?_⟩
  have hd := inv_done hinv (by rw [hres]; simp)
  obtain ⟨_, _, a3, a4, a5, _⟩ := hd.ok hres
  have hsp : s.spool = src := prefix_eq_of_length (by rw [← hflat]; exact a4) a3
  show checkAck H (sendFile k src).hashed (ackSeen (runRx H Z src.length false stale evs) true) = .success
  unfold ackSeen
  rw [a5]
  have : (runRx H Z src.length false stale evs).spool = src := hsp
  simp [checkAck, this, (sendFile_spec k hk src).2]

/-! ## end to end over the C06 record layer: the channel hypothesis discharged

The composed system (`WV/Proofs/C04_Net.lean`): the Xfer receiver on C06's receiving `Conn`, the
ack read on C06's sending-side `Conn`, an arbitrary adversary in between.  Quantified over every
byte sequence and chunking fed to the receiving connection, every moment of attaching the consumer
(C06's script `consume (some xfersize) onDone`, i.e. `writeToFile`, with *any* callback script
`onDone`) and of reporting the loss (`List NetOp`), and every C06 operation sequence at the sender's
connection (`List C06.Op`: bytes, top-level calls of arbitrary re-entrant `Act` scripts — the
sender's own is a `read` —, loss).  Assumptions: C06's `IdealFor` for the direction concerned (only the
peer's sealings open under the receive key), the code's own 2^192 record-count limit, collision
freedom of the hash where the statement needs it, and the json codec of the ack as an interface. -/

open WV.C04Net in
/-- **`receiver_success_exact` over C06**: whatever the network does to the ciphertext stream, a
    receiver that reports success has written exactly the sender's bytes -/
theorem net_receiver_success_exact {τ : Type} (E : C06.Env) (H : Hash) (Z : Zip τ) (k : Nat) (hk : 0 < k) (src : Bytes)
    (stale : Option Bytes) (leftover : Bytes) (ops : List NetOp)
    (hcount : (sendFile k src).records.length ≤ 256 ^ 24)
    (hid : C06.IdealFor E.box (C06.receiverRecordKey E false) (sendFile k src).records)
    (hok : (netRx E H Z src.length false stale leftover ops).result = .success) :
    (netRx E H Z src.length false stale leftover ops).final = some (.file src) ∧
    (netRx E H Z src.length false stale leftover ops).tmpExists = false := by
  unfold netRx at hok ⊢
  exact receiver_success_exact H Z k hk src stale _ (net_channel E _ _ hcount hid leftover ops) hok

open WV.C04Net in
/-- **`sender_success_needs_matching_ack` over C06**: if the sender reports success, then — whatever
    happened on the wire back and at its connection — the receiver really finished, and sent exactly
    one ack, `"ok"`, carrying the hash of what the sender hashed -/
theorem net_sender_success_needs_matching_ack {τ : Type} (E : C06.Env) (H : Hash) (Z : Zip τ) (C : AckCodec) (hC : C.Ideal)
    (hashed : Bytes) (xfersize : Nat) (dirMode : Bool) (stale : Option Bytes) (leftoverR leftoverS : Bytes)
    (opsR : List NetOp) (opsS : List C06.Op)
    (hidBack : C06.IdealFor E.box (C06.receiverRecordKey E true)
      (ackRecords C (netRx E H Z xfersize dirMode stale leftoverR opsR)))
    (hsender : checkAck H hashed (senderAck C (C06.run E (C06.Conn.init true leftoverS) opsS)) = .success) :
    let s := netRx E H Z xfersize dirMode stale leftoverR opsR
    s.result = .success ∧ s.acks = [.dict (some "ok") (.digest (H.sha hashed))] := by
  intro s
  have hlen : (ackRecords C s).length ≤ 256 ^ 24 := by
    have h1 : s.acks.length ≤ 1 := acks_length_le_one H Z xfersize dirMode stale _
    have h2 : (1 : Nat) ≤ 256 ^ 24 := by decide
    simpa [ackRecords] using Nat.le_trans h1 h2
  obtain ⟨d, hd⟩ := senderAck_cases E C s (acks_roundtrip H Z C hC xfersize dirMode stale _) hlen hidBack leftoverS opsS
  rw [hd] at hsender
  obtain ⟨sha, hseen, hsha⟩ := (sender_success_needs_matching_ack H _ _).mp hsender
  have hinv := Proofs.C04.inv_run H Z xfersize dirMode stale (rxTrace E xfersize (C06.Conn.init false leftoverR) opsR)
  have hacks : s.acks ≠ [] := by
    intro h0
    unfold ackSeen at hseen
    cases d <;> simp [h0] at hseen
  have hnp : s.result ≠ .pending := fun hp => hacks (Proofs.C04.inv_pending hinv hp).2.1
  have hdone := Proofs.C04.inv_done hinv hnp
  cases hr : s.result with
  | pending => exact absurd hr hnp
  | failed e => exact absurd (hdone.bad e hr).2.1 hacks
  | success =>
    obtain ⟨_, _, _, _, a5, _⟩ := hdone.ok hr
    refine ⟨rfl, ?_⟩
    have hseen' : some (AckMsg.dict (some "ok") (.digest (H.sha s.spool))) = some (AckMsg.dict (some "ok") sha) := by
      unfold ackSeen at hseen
      cases d
      · simp at hseen
      · have a5' : s.acks = [.dict (some "ok") (.digest (H.sha s.spool))] := a5
        simpa [a5'] using hseen
    have hsha' : sha = .digest (H.sha s.spool) := by cases hseen'; rfl
    rcases hsha with h1 | h1
    · rw [h1] at hsha'; exact absurd hsha' (by simp)
    · rw [h1] at hsha'
      have a5' : s.acks = [.dict (some "ok") (.digest (H.sha s.spool))] := a5
      rw [a5', ← hsha']

open WV.C04Net in
/-- **`both_success_exact` over C06**: the sender reports success ⇒ the receiver reported success and
    its final file is byte for byte what the sender read — for every adversary on both directions,
    every announced size, every stale tmp; needs the ack direction's AEAD, the hash, the codec,
    and nothing about the data direction at all -/
theorem net_both_success_exact {τ : Type} (E : C06.Env) (H : Hash) (hH : H.Ideal) (Z : Zip τ) (C : AckCodec) (hC : C.Ideal)
    (k : Nat) (hk : 0 < k) (src : Bytes) (xfersize : Nat) (stale : Option Bytes) (leftoverR leftoverS : Bytes)
    (opsR : List NetOp) (opsS : List C06.Op)
    (hidBack : C06.IdealFor E.box (C06.receiverRecordKey E true)
      (ackRecords C (netRx E H Z xfersize false stale leftoverR opsR)))
    (hsender : checkAck H (sendFile k src).hashed (senderAck C (C06.run E (C06.Conn.init true leftoverS) opsS)) = .success) :
    (netRx E H Z xfersize false stale leftoverR opsR).result = .success ∧
    (netRx E H Z xfersize false stale leftoverR opsR).final = some (.file src) := by
  have hlen : (ackRecords C (netRx E H Z xfersize false stale leftoverR opsR)).length ≤ 256 ^ 24 := by
    have h1 := acks_length_le_one H Z xfersize false stale (rxTrace E xfersize (C06.Conn.init false leftoverR) opsR)
    have h2 : (1 : Nat) ≤ 256 ^ 24 := by decide
    simpa [ackRecords, netRx] using Nat.le_trans h1 h2
  obtain ⟨d, hd⟩ := senderAck_cases E C _ (acks_roundtrip H Z C hC xfersize false stale _) hlen hidBack leftoverS opsS
  rw [hd] at hsender
  unfold netRx at ⊢
  try unfold netRx at hsender
  exact sender_success_exact H hH Z k hk src xfersize stale _ d hsender

open WV.C04Net in
/-- **`cut_no_success_no_final` over C06**: if the receiving connection accepted fewer than
    `xfersize` bytes of records — because the stream was cut, or because C06 dropped it at the first
    frame that is not the honest next one — then the receiver does not report success, no final
    destination exists (file mode: only `*.tmp`), no ack was sent, and the sender, whatever reaches
    its connection, ends in ConnectionClosed, not success -/
theorem net_cut_no_success_no_final {τ : Type} (E : C06.Env) (H : Hash) (Z : Zip τ) (C : AckCodec) (hC : C.Ideal)
    (xfersize : Nat) (dirMode : Bool) (stale : Option Bytes) (leftoverR leftoverS : Bytes)
    (opsR : List NetOp) (opsS : List C06.Op)
    (hshort : (connRun E xfersize (C06.Conn.init false leftoverR) opsR).app.surfaced.flatten.length < xfersize)
    (hidBack : C06.IdealFor E.box (C06.receiverRecordKey E true) []) :
    let s := netRx E H Z xfersize dirMode stale leftoverR opsR
    s.result ≠ .success ∧ s.final = none ∧ s.tmpExists = (!dirMode) ∧ s.acks = [] ∧
    (∀ hashed, checkAck H hashed (senderAck C (C06.run E (C06.Conn.init true leftoverS) opsS)) = .failed .connectionClosed) := by
  intro s
  have hshort' : (records (rxTrace E xfersize (C06.Conn.init false leftoverR) opsR)).flatten.length < xfersize := by
    rw [net_records]; exact hshort
  obtain ⟨h1, h2, h3, h4, h5⟩ := cut_no_success_no_final H Z xfersize dirMode stale _ hshort'
  refine ⟨h1, h2, h3, h4, ?_⟩
  intro hashed
  have hacks : ackRecords C s = [] := by
    have : s.acks = [] := h4
    simp [ackRecords, this]
  obtain ⟨d, hd⟩ := senderAck_cases E C s (acks_roundtrip H Z C hC xfersize dirMode stale _) (by rw [hacks]; simp)
    (by rw [hacks]; exact hidBack) leftoverS opsS
  rw [hd]
  exact h5 hashed d

open WV.C04Net in
/-- … and once the consumer is attached, reporting the loss makes the receiver fail (ConnectionClosed) -/
theorem net_cut_then_lost_fails {τ : Type} (E : C06.Env) (H : Hash) (Z : Zip τ) (xfersize : Nat) (dirMode : Bool)
    (stale : Option Bytes) (leftover : Bytes) (ops : List NetOp) (hatt : hasAttach ops = true)
    (hshort : (connRun E xfersize (C06.Conn.init false leftover) ops).app.surfaced.flatten.length < xfersize) :
    (netRx E H Z xfersize dirMode stale leftover (ops ++ [.lost])).result = .failed .connectionClosed := by
  unfold netRx
  rw [trace_append_lost]
  apply cut_then_lost_fails
  · rw [net_records]; exact hshort
  · have hinv := Proofs.C04.inv_run H Z xfersize dirMode stale (rxTrace E xfersize (C06.Conn.init false leftover) ops)
    exact Proofs.C04.inv_started hinv (by rw [trace_sawConnect]; exact hatt)

open WV.C04Net in
/-- C06's *tamper ⇒ prefix then drop* feeds the previous two: the honest frames of the first `j`
    records, then any complete frame that is not the honest frame `j` (altered, replayed, reordered,
    from the other direction, invented), then anything, in any chunking, after the consumer was
    attached: the connection hangs up having accepted exactly `rs.take j`; if that is short of
    `xfersize`, the receiver is still waiting with only its tmp file, and fails when the loss is reported -/
theorem net_first_bad_frame_no_success {τ : Type} (E : C06.Env) (H : Hash) (Z : Zip τ) (rs : List Bytes)
    (hcount : rs.length ≤ 256 ^ 24) (hsz : C06.SizesOK rs)
    (hid : C06.IdealFor E.box (C06.receiverRecordKey E false) rs)
    (xfersize : Nat) (dirMode : Bool) (stale : Option Bytes)
    (j : Nat) (hj : j ≤ rs.length) (e tail : Bytes) (he : e.length < 256 ^ 4)
    (hbad : ∀ h : j < rs.length, e ≠ C06.blob E (C06.receiverRecordKey E false) j rs[j])
    (hfew : (rs.take j).flatten.length < xfersize)
    (onDone : List C06.Act) (x0 : Bytes) (cs : List Bytes)
    (hwire : x0 ++ cs.flatten = C06.wireOf E (C06.receiverRecordKey E false) 0 (rs.take j) ++ (C06.frame e ++ tail)) :
    let ops := NetOp.attach onDone :: (x0 :: cs).map NetOp.data
    (connRun E xfersize (C06.Conn.init false) ops).state = .hungUp ∧
    (connRun E xfersize (C06.Conn.init false) ops).app.surfaced = rs.take j ∧
    (netRx E H Z xfersize dirMode stale [] ops).result = .pending ∧
    (netRx E H Z xfersize dirMode stale [] ops).final = none ∧
    (netRx E H Z xfersize dirMode stale [] ops).tmpExists = (!dirMode) ∧
    (netRx E H Z xfersize dirMode stale [] (ops ++ [.lost])).result = .failed .connectionClosed := by
  intro ops
  have hrun : connRun E xfersize (C06.Conn.init false) ops =
      C06.feed E { C06.Conn.init false with app := C06.appCall C06.App.init [.consume (some xfersize) onDone] } (x0 :: cs) := by
    show connRun E xfersize (C06.Conn.init false) (.attach onDone :: (x0 :: cs).map NetOp.data) = _
    rw [connRun_attach_feed, attach_fresh]
  obtain ⟨f1, f2⟩ := attach_fresh_facts xfersize onDone
  obtain ⟨d1, _, _, d4⟩ := Props.C06.first_bad_frame_drops E false rs hcount hsz hid j hj e tail he hbad
    (C06.appCall C06.App.init [.consume (some xfersize) onDone]) x0 cs hwire
  have hsurf : (connRun E xfersize (C06.Conn.init false) ops).app.surfaced = rs.take j := by
    rw [hrun, d4, C06.emit_lose_surfaced, (C06.foldl_recordReceived_spec (rs.take j) _ f2).1, f1]
    simp
  have hshort : (connRun E xfersize (C06.Conn.init false []) ops).app.surfaced.flatten.length < xfersize := by
    have : (C06.Conn.init false [] : C06.Conn) = C06.Conn.init false := rfl
    rw [this, hsurf]; exact hfew
  have hatt : hasAttach ops = true := rfl
  have hnl : hasLost ops = false := by
    show hasLost (.attach onDone :: (x0 :: cs).map NetOp.data) = false
    simp only [hasLost]
    exact hasLost_map_data (x0 :: cs)
  have hinv := Proofs.C04.inv_run H Z xfersize dirMode stale (rxTrace E xfersize (C06.Conn.init false []) ops)
  have hshort' : (records (rxTrace E xfersize (C06.Conn.init false []) ops)).flatten.length < xfersize := by
    rw [net_records]; exact hshort
  have hpend : (netRx E H Z xfersize dirMode stale [] ops).result = .pending :=
    Proofs.C04.inv_short_nolost hinv hshort' (by rw [trace_sawLost]; exact hnl)
  obtain ⟨p1, _, p3⟩ := Proofs.C04.inv_pending hinv hpend
  refine ⟨?_, hsurf, hpend, p1, p3, ?_⟩
  · rw [hrun]; exact d1
  · exact net_cut_then_lost_fails E H Z xfersize dirMode stale [] ops hatt hshort

open WV.C04Net in
/-- the hypotheses are met by every honest run over C06: the sender's records, sealed and framed by
    its C06 connection, arriving in any chunking after the consumer was attached ⇒ the receiver
    succeeds with exactly the sender's bytes -/
theorem net_honest_run_succeeds {τ : Type} (E : C06.Env) (H : Hash) (Z : Zip τ) (k : Nat) (hk : 0 < k) (hk2 : k + 40 < 256 ^ 4)
    (src : Bytes) (stale : Option Bytes)
    (hcount : (sendFile k src).records.length ≤ 256 ^ 24)
    (hid : C06.IdealFor E.box (C06.senderRecordKey E true) (sendFile k src).records)
    (onDone : List C06.Act) (cs : List Bytes)
    (hcs : cs.flatten = (C06.sendMany E (C06.Conn.init true) (sendFile k src).records).1.app.wire) :
    let s := netRx E H Z src.length false stale [] (NetOp.attach onDone :: cs.map NetOp.data)
    s.result = .success ∧ s.final = some (.file src) ∧ s.tmpExists = false := by
  intro s
  have hsz : C06.SizesOK (sendFile k src).records := by
    intro r hr
    have := sendFile_sizes k src r hr
    omega
  obtain ⟨f1, f2⟩ := attach_fresh_facts src.length onDone
  obtain ⟨_, r2⟩ := Props.C06.roundtrip E true (sendFile k src).records hcount hsz hid
    (C06.appCall C06.App.init [.consume (some src.length) onDone]) f2 cs hcs
  simp only at r2
  have hsurf : (connRun E src.length (C06.Conn.init false []) (NetOp.attach onDone :: cs.map NetOp.data)).app.surfaced =
      (sendFile k src).records := by
    have : (C06.Conn.init false [] : C06.Conn) = C06.Conn.init false := rfl
    rw [this, connRun_attach_feed, attach_fresh]
    have hb : (!true) = false := rfl
    rw [hb] at r2
    rw [r2, f1]; simp
  have hall : records (rxTrace E src.length (C06.Conn.init false []) (NetOp.attach onDone :: cs.map NetOp.data)) =
      (sendFile k src).records := by rw [net_records]; exact hsurf
  have hconn : Proofs.C04.sawConnect (rxTrace E src.length (C06.Conn.init false []) (NetOp.attach onDone :: cs.map NetOp.data)) = true := by
    rw [trace_sawConnect]; rfl
  have hnl : Proofs.C04.sawLost (rxTrace E src.length (C06.Conn.init false []) (NetOp.attach onDone :: cs.map NetOp.data)) = false := by
    rw [trace_sawLost]
    simp only [hasLost]
    exact hasLost_map_data cs
  obtain ⟨a, b, c, _⟩ := honest_run_succeeds H Z k hk src stale _ hall hconn hnl
  exact ⟨a, b, c⟩

/-! ## the hypotheses are satisfiable: concrete instances and runs -/

/-- the driver's hash and zip codec satisfy the ideal properties -/
example : toyHash.Ideal ∧ toyZip.Ideal := ⟨fun _ _ h => h, fun _ => rfl⟩

/-- an ack codec that round-trips the honest receiver's acks -/
example : (⟨fun a => match a with | .dict _ (.digest d) => d | _ => [], fun b => .dict (some "ok") (.digest b)⟩ :
    WV.C04Net.AckCodec).Ideal := fun _ => rfl

/-- a concrete world for the composed system: the 5-byte file in 2-byte chunks, sealed by an ideal
    box for exactly these records, the whole honest wire image arriving in one piece after the
    consumer was attached -/
def exSrc : Bytes := [1, 2, 3, 4, 5]
def exNetEnv : C06.Env :=
  { box := C06.idealBox Gen.C06.ctx_sender_sendkey (sendFile 2 exSrc).records, hkdf := fun _ _ info => info, transitKey := [7] }

example :
    let wire := (C06.sendMany exNetEnv (C06.Conn.init true) (sendFile 2 exSrc).records).1.app.wire
    (WV.C04Net.netRx exNetEnv toyHash toyZip exSrc.length false none []
      (WV.C04Net.NetOp.attach [.close] :: [wire].map WV.C04Net.NetOp.data)).result = .success :=
  (net_honest_run_succeeds exNetEnv toyHash toyZip 2 (by decide) (by decide) exSrc none (by decide)
    (C06.idealBox_ideal _ _) [.close] [_] (by simp)).1

/-- a 5-byte file in 2-byte chunks, consumer attached after the first record -/
example :
    let evs := [Ev.record [1, 2], .connect, .record [3, 4], .record [5]]
    records evs = (sendFile 2 [1, 2, 3, 4, 5]).records ∧ sawConnect evs = true ∧ sawLost evs = false ∧
    (runRx toyHash toyZip 5 false none evs).result = .success := by decide

/-- a longer `dest.tmp` left behind by an interrupted transfer does not leak into the new file -/
example :
    (runRx toyHash toyZip 2 false (some [9, 9, 9, 9, 9]) [.connect, .record [1, 2]]).final = some (.file [1, 2]) := by
  decide

/-- the empty file: no record at all, success on attaching -/
example : (runRx toyHash toyZip 0 false none [.connect]).result = .success ∧ (sendFile 2 []).records = [] := by decide

/-- a cut after 4 of 5 bytes: the receiver has started, fails on the loss, only the tmp file exists -/
example :
    let evs := [Ev.connect, .record [1, 2], .record [3, 4]]
    (records evs).flatten.length < 5 ∧ (runRx toyHash toyZip 5 false none evs).started = true ∧
    (runRx toyHash toyZip 5 false none (evs ++ [.lost])).result = .failed .connectionClosed ∧
    (runRx toyHash toyZip 5 false none (evs ++ [.lost])).tmpExists = true := by decide

/-- the announced size can differ from what is read: 2 bytes announced, 4 read in 2-byte chunks —
    the receiver succeeds with the first chunk, the sender refuses the ack (hash of 2 ≠ hash of 4) -/
example :
    let s := runRx toyHash toyZip 2 false none [.connect, .record [1, 2], .record [3, 4]]
    s.result = .success ∧ checkAck toyHash (sendFile 2 [1, 2, 3, 4]).hashed (ackSeen s true) = .failed .transferError := by
  decide

end WV.Props.C04
