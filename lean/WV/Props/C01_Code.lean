import WV.Gen.Flags

/-!
C01 — the code string is not touched on its way to SPAKE2.

The model `WV.C01` starts at `B.got_code(code)` / `K.got_code(code)`.  That `code` is, character for
character, the string the application passed to `set_code()` (or that Input / Allocator assembled) is
a fact about `Boss.set_code`, `Code.set_code`, `Code.do_set_code`, `do_finish_input`,
`do_finish_allocate` and `validate_code`, extracted from the working tree by `tools/extract.py`:
in each of them the parameter `code` is never rebound and is handed on as the sole, bare argument,
and `validate_code` is a predicate (it returns nothing that could replace the code).
-/
namespace WV.Props.C01
open WV.Gen

/-- **code_reaches_key_unchanged** -/
theorem code_reaches_key_unchanged :
    Flags.code_string_passed_unchanged = true ∧ Flags.validate_code_returns_nothing = true := by decide

end WV.Props.C01
