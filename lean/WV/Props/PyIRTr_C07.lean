import WV.Proofs.PyIRTr_C07

set_option linter.unusedSimpArgs false
set_option linter.unusedVariables false

/-!
Translation validation of method BODIES, transit handshake (C07): the PyIR interpreter run on the generated bodies of
`Connection._check_and_remove`, `_negotiationSuccessful`, `_dataReceived` and its wrapper `dataReceived`
(`WV.Gen.PyIRTr`) agrees with the C07 model (`checkAndRemove`, `negotiationSuccessful`, `runArms`, `dataRecv`) — with
C06's record layer plugged in for the model's abstract `recLayer` (`CfgRec`).
-/
namespace WV.Props.PyIRTrC07
open WV WV.PyIR WV.Gen.PyIRTr WV.Proofs.PyIRC03 WV.Proofs.PyIRDil WV.Proofs.PyIRTr

/-- the model's `dataRecv` is its `_dataReceived` (`innerFlow`) inside the `except Exception` wrapper -/
theorem dataRecv_eq (cfg : C07.Cfg) (w0 : Option Nat) (i : Nat) (c : C07.Conn) (data : Bytes) :
    C07.dataRecv cfg w0 i c data =
      (match innerFlow cfg w0 i c data with
       | .next x => (x, none)
       | .ret x => (x, none)
       | .raise e x =>
         ({ x with c := { x.c with timer := none, err := some e, lost := x.c.lost + 1, state := .hungUp } },
          if e = .badHandshake then none else some e)) := rfl

/-- `_check_and_remove(expected)` = `C07.checkAndRemove`: BadHandshake at the first divergent byte (nothing changed),
    `False` while the buffer is a proper prefix, else exactly `len(expected)` bytes are cut and `True` -/
theorem check_and_remove_agrees (fuel : Nat) (E : C06.Env) (h : Store) (buf expected : Bytes)
    (hb : h.get "buf" = some (.bytes buf)) :
    let o := exec (fuel + 1) (envT E) tbl_Connection "_check_and_remove" [.bytes expected] h
    o.calls = [] ∧
    (match C07.checkAndRemove buf expected with
     | none => o.exc = some "BadHandshake" ∧ o.heap = h
     | some (false, _) => o.exc = none ∧ o.ret = .bool false ∧ o.heap = h
     | some (true, rest) => o.exc = none ∧ o.ret = .bool true ∧ o.heap = h.set "buf" (.bytes rest)) := by
  intro o
  simp only [o, exec]
  rw [callM_check_and_remove (E := E) (did := 0) (envT E) rfl fuel h buf expected [] hb]
  simp only [carOut]
  cases hc : C07.checkAndRemove buf expected with
  | none => simp
  | some p =>
    obtain ⟨b, rest⟩ := p
    cases b <;> simp

/-- what one `dataReceived` call did, read off the recorded calls -/
structure Agrees (c : C07.Conn) (w0 wr : Option Nat) (o : Outcome) (x : C07.Ctx) : Prop where
  out : x.c.out = c.out ++ outOf o.calls
  lost : x.c.lost = c.lost + lostOf o.calls
  timer : x.c.timer = if timerOff o.calls then none else c.timer
  fired : x.fired = if firedOf o.calls then some none else none
  winner : x.winner = if readyCalled o.calls then wr else w0

set_option hygiene false in
macro "fin_rel" : tactic =>
  `(tactic| (refine ⟨?_, ?_, ?_, ?_, ?_⟩ <;> simp [get_set, pyState, *]))

set_option hygiene false in
macro "fin_agr" : tactic =>
  `(tactic| (refine ⟨?_, ?_, ?_, ?_, ?_⟩ <;>
      first
      | (simp [outOf, lostOf, timerOff, firedOf, readyCalled, List.filterMap_append, List.filter_append,
          List.any_append, withData, *] at *; done)
      | (simp [outOf, lostOf, timerOff, firedOf, readyCalled, List.filterMap_append, List.filter_append,
          List.any_append, withData] at *; omega)))

theorem dataReceived_agrees (E : C06.Env) (cfg : C07.Cfg) (CR : CfgRec E cfg) (i g : Nat) (c : C07.Conn) (w0 : Option Nat)
    (h : Store) (data : Bytes) (R : RelH h c) (F : FreshH h) (hs : c.state ≠ .records)
    (hlen : (c.buf ++ data).length < g + 3) :
    let rd := C07.connectionReady cfg w0 i
    let o := exec (g + 5) (envH E cfg rd.2) tbl_Connection "dataReceived" [.bytes data] h
    let m := C07.dataRecv cfg w0 i c data
    RelH o.heap m.1.c ∧ Agrees c w0 rd.1 o m.1 ∧
    (match m.2 with
     | none => o.exc = none
     | some e => ∃ cls, o.exc = some cls ∧ ExcRel cls e) ∧
    (∀ e x', innerFlow cfg w0 i c data = .raise e x' →
      ∃ cls, o.heap.get "_error" = some (.obj cls []) ∧ ExcRel cls e) := by
  intro rd o m
  have I := inner_agrees E cfg CR i g c w0 h data R F hs hlen
  simp only at I
  simp only [o, m, dataRecv_eq]
  generalize hcm : callM (envH E cfg rd.2) tbl_Connection (g + 4) "_dataReceived" [.bytes data] h [] = w at I
  obtain ⟨h1, cs1, res⟩ := w
  simp only [exec]
  rw [callM]
  cases hfl : innerFlow cfg w0 i c data with
  | next x' => rw [hfl] at I; exact absurd I id
  | ret x' =>
    rw [hfl] at I
    obtain ⟨⟨v, e1⟩, ⟨⟨hst, hbuf, hnd, htr, hown⟩, hout, hlost, htimer, hfired, hwin, hframe⟩⟩ := I
    simp only at e1 hst hbuf hnd htr hown hout hlost htimer hfired hwin
    subst e1
    h_eval [tbl_Connection, m_Connection_dataReceived, hcm]
    exact ⟨⟨hst, hbuf, hnd, htr, hown⟩, ⟨hout, hlost, htimer, hfired, hwin⟩⟩
  | raise e x' =>
    rw [hfl] at I
    obtain ⟨⟨cls, e1, e2⟩, ⟨⟨hst, hbuf, hnd, htr, hown⟩, hout, hlost, htimer, hfired, hwin, hframe⟩⟩ := I
    simp only at e1 hst hbuf hnd htr hown hout hlost htimer hfired hwin
    subst e1
    obtain ⟨f1, f2, f3⟩ := e2.facts
    by_cases hbh : e = .badHandshake
    · have hcls : cls = "BadHandshake" := f2.mpr hbh
      subst hcls
      subst hbh
      h_eval [tbl_Connection, m_Connection_dataReceived, hcm, htr]
      refine ⟨?_, ?_, e2⟩
      · fin_rel
      · fin_agr
    · have hcls : cls ≠ "BadHandshake" := fun hh => hbh (f2.mp hh)
      have hnp : ¬ (((cls = "Unsupported" ∨ cls = "OutOfFuel") ∨ cls = "$break") ∨ cls = "$continue") := by
        simpa [isPseudoExcT] using f1
      h_eval [tbl_Connection, m_Connection_dataReceived, hcm, htr, hnp, hcls, hbh]
      refine ⟨?_, ?_, e2⟩
      · fin_rel
      · fin_agr

/-- `_negotiationSuccessful()` on a connection whose record-layer attributes are as `__init__` left them: state
    `"records"`, `setTimeout(None)`, the two boxes made from `owner._sender_record_key()` / `_receiver_record_key()` (in
    this order), both nonce counters 0 — i.e. the heap is C06's `Conn.init` on the leftover buffer — and
    `_negotiation_d` is cleared BEFORE it is fired with `self`; fired already (`None`) ⇒ `AttributeError` after all that -/
theorem negotiationSuccessful_agrees (g : Nat) (E : C06.Env) (cfg : C07.Cfg) (r : C07.CState) (h : Store) (rest : Bytes)
    (n : Nat) (dv : Val) (hdv : dv = .none ∨ dv = .ref "Deferred" n)
    (hown : h.get "owner" = some (.ref "Common" 0)) (hnd : h.get "_negotiation_d" = some dv) (F : FreshH h)
    (htr : h.get "transport" = some (.ref "Transport" 0)) (hb : h.get "buf" = some (.bytes rest)) :
    let o := exec (g + 1) (envH E cfg r) tbl_Connection "_negotiationSuccessful" [] h
    o.heap.get "state" = some (.str "records") ∧ o.heap.get "_negotiation_d" = some .none ∧
    RelConn E o.heap (C06.Conn.init cfg.isSender rest) ∧ o.calls = negCalls ++ negTail dv ∧
    o.exc = (match dv with | .none => some "AttributeError" | _ => none) := by
  intro o
  have R := relConn_after_neg E cfg h rest F htr hb
  simp only [o, exec]
  rw [callM_negotiation g E cfg r h [] n dv hdv hown hnd]
  rcases hdv with rfl | rfl <;> simp [negRes, negHeap, get_set, R] <;> exact R

/-! ## non-vacuity -/

def toyE : C06.Env :=
  { box := { enc := fun _ _ m => m ++ List.replicate 16 7,
             dec := fun _ _ c => if 16 ≤ c.length then some (c.take (c.length - 16)) else none },
    hkdf := fun key _ info => key ++ info, transitKey := [1, 2, 3] }

/-- a receiver whose abstract record layer IS C06's model -/
def toyCfg : C07.Cfg :=
  { isSender := false, sendThis := [1, 2], expectThis := [3, 4], relayHs := [9],
    recLayer := fun b => match (recRun toyE false b).2 with | none => some (recRun toyE false b).1.buf | some _ => none,
    recRest := fun b => (recRun toyE false b).1.buf }

example : CfgRec toyE toyCfg := ⟨fun _ => rfl, fun _ => rfl⟩

def demoC : C07.Conn :=
  { state := .handshake, buf := [], relayHs := none, out := [[1, 2]], lost := 0, err := none, negD := .pending,
    timer := some (60, 0), gone := false, owner := none, rx := [] }

def demoH : Store :=
  [("state", .str "handshake"), ("buf", .bytes []), ("_negotiation_d", .ref "Deferred" 0), ("transport", .ref "Transport" 0),
   ("owner", .ref "Common" 0), ("_error", .none), ("_inbound_records", .list []), ("_waiting_reads", .list []),
   ("_consumer", .none), ("_consumer_deferred", .none)]

example : RelH demoH demoC ∧ FreshH demoH := by
  refine ⟨⟨?_, ?_, ?_, ?_, ?_⟩, ⟨?_, ?_, ?_, ?_⟩⟩ <;> simp [demoH, demoC, Store.get, pyState]

def strOf : Option Val → String
  | some (.str s) => s
  | some (.obj c _) => c
  | _ => "?"

def lenOf : Option Val → Nat
  | some (.bytes b) => b.length
  | _ => 999

/-- the receiver gets the sender handshake, `go\n` and two more bytes in one chunk: accepted — timer off, keys fetched,
    Deferred fired with `self`, state `"records"`, the two bytes left for the record layer -/
example : let o := exec 12 (envH toyE toyCfg (C07.connectionReady toyCfg none 0).2) tbl_Connection "dataReceived"
                     [.bytes ([3, 4] ++ [103, 111, 10] ++ [0, 0])] demoH
    strOf (o.heap.get "state") = "records" ∧ lenOf (o.heap.get "buf") = 2 ∧ firedOf o.calls = true ∧
      timerOff o.calls = true ∧ readyCalled o.calls = true ∧ lostOf o.calls = 0 ∧ o.exc = none := by decide +kernel

/-- a divergent byte: hung up, `loseConnection()`, `_error` a BadHandshake, nothing propagates, nothing fired -/
example : let o := exec 12 (envH toyE toyCfg (C07.connectionReady toyCfg none 0).2) tbl_Connection "dataReceived"
                     [.bytes [3, 5]] demoH
    strOf (o.heap.get "state") = "hung up" ∧ strOf (o.heap.get "_error") = "BadHandshake" ∧ firedOf o.calls = false ∧
      lostOf o.calls = 1 ∧ readyCalled o.calls = false ∧ o.exc = none := by decide

#print axioms check_and_remove_agrees
#print axioms negotiationSuccessful_agrees
#print axioms dataReceived_agrees
#print axioms dataRecv_eq

end WV.Props.PyIRTrC07
