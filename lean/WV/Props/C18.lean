import WV.Proofs.ClientCert
import WV.Proofs.C18
import WV.Gen.Skel

/-!
# C18 — application events arrive once each and in causal order
-/
namespace WV.Props.C18
open WV.Client WV.ClientEnv WV.Cert WV.Gen

local macro "comps" s:ident hr:ident e:ident he:ident : term =>
  `(WV.ClientCert.safe_components (WV.ClientCert.reach_safe $s $hr $e $he))

/-- code, unverified key, verifier and versions are each notified at most once -/
theorem each_at_most_once (s : Sys) (hr : Reach enabled s) (e : Event) (he : enabled s e = true) :
    (sysStep s e).1.mon.dup = false := (comps s hr e he).2.2.2.1

/-- order: code < key < verifier < {versions, messages}; in particular the verifier precedes any
    peer data — for arbitrary re-ordering, duplicating servers -/
theorem causal_order (s : Sys) (hr : Reach enabled s) (e : Event) (he : enabled s e = true) :
    (sysStep s e).1.mon.order = false := (comps s hr e he).2.2.2.2.1

/-- closed is last -/
theorem closed_last (s : Sys) (hr : Reach enabled s) (e : Event) (he : enabled s e = true) :
    (sysStep s e).1.mon.afterClosed = false ∧ (sysStep s e).1.mon.closedCount ≤ 1 :=
  ⟨(comps s hr e he).2.2.1, (comps s hr e he).2.1⟩

/-- when the server preserves the order in which the peer submitted its messages, the peer's
    versions precede every application message -/
theorem versions_before_messages (s : Sys) (hr : Reach enabledFifo s) (e : Event) (he : enabledFifo s e = true) :
    (sysStep s e).1.mon.recvBeforeVersions = false := by
  have h := WV.ClientCert.reach_safe_fifo s hr e he
  unfold safeStepFifo at h
  simp only [Bool.and_eq_true, Bool.not_eq_true'] at h
  exact h.2

/-- the rows these facts rest on, on the generated tables -/
theorem receive_first_good_row :
    Receive.table .S1_unverified_key .got_message_good =
      some (.S2_verified_key, [.S_got_verified_key, .W_happy, .W_got_verifier, .W_got_message]) := by decide

theorem boss_code_key_rows :
    (∀ st, (Boss.table st .got_code).map (·.2) = some [.do_got_code] → st = .S0_empty) ∧
    (∀ st, (Boss.table st .got_key).map (·.2) = some [.W_got_key, .D_got_key, .send_status_peer_key] → st = .S1_lonely) := by
  constructor <;> (intro st; cases st <;> decide)


/-! ## The error path: `Boss.error` at any moment, also while closing and after closed

The closed system above has a conformant server, and C14 shows that no handler of such a server's frames fails, so
`RendezvousConnector.ws_message`'s `except Exception as e: self._B.error(e)` is never taken in it.  C18's statement
is not restricted to conformant servers.  The theorems below do not depend on any environment at all. -/

open WV.C18 WV.Proofs.C18 in
/-- **pin on the generated Boss table**: a row out of `S4_closed` stays there and tells the application nothing;
    in every row only the first output may tell the application something; a row that notifies `closed` enters
    `S4_closed` -/
theorem boss_closed_rows : WV.C18.tableOK = true := by decide

/-- the same, spelled out for the two outputs that notify `closed`: they occur only in rows that LEAVE a state
    other than `S4_closed` and ENTER `S4_closed`, at the first position, once -/
theorem closed_notified_only_on_entering_S4 (s : Boss.State) (i : Boss.Input) (s1 : Boss.State) (os : List Boss.Output)
    (h : Boss.table s i = some (s1, os)) :
    ((.W_closed ∈ os ∨ .W_close_with_error ∈ os) →
      s ≠ .S4_closed ∧ s1 = .S4_closed ∧ (os.filter (fun o => WV.C18.emits o == some .closed)).length = 1 ∧
      (os.head?.bind WV.C18.emits) = some .closed) ∧
    (s = .S4_closed → s1 = .S4_closed ∧ os = []) := by
  cases s <;> cases i <;> simp only [Boss.table, Option.some.injEq, Prod.mk.injEq, reduceCtorEq] at h <;>
    obtain ⟨rfl, rfl⟩ := h <;> decide

/-- **closed at most once, closed last — for every sequence of calls on the Boss whatsoever**: inputs in any
    order and number, from anybody (`error` from the connector at any moment, `closed` from a Terminator that
    finishes late, a re-entrant application inside any callback), nested to any depth inside any output, with
    exceptions unwinding any part of a row (`WV.Proofs.C18.Ex`) -/
theorem closed_once_and_last_whatever_calls_the_boss {s : Boss.State} {m : WV.C18.BMon}
    (h : WV.Proofs.C18.Run Boss.table Boss.init {} s m) : m.closedTwice = false ∧ m.afterClosed = false :=
  have hi := WV.Proofs.C18.run_inv boss_closed_rows h WV.Proofs.C18.inv_init
  ⟨hi.1, hi.2.1⟩

/-- … and from any state reached that way: once `closed` was notified the Boss is in `S4_closed` for good -/
theorem closed_means_S4 {s : Boss.State} {m : WV.C18.BMon}
    (h : WV.Proofs.C18.Run Boss.table Boss.init {} s m) (hc : m.closedSeen = true) : s = .S4_closed :=
  (WV.Proofs.C18.run_inv boss_closed_rows h WV.Proofs.C18.inv_init).2.2 hc

/-- the hypotheses are satisfiable and the run is not trivial: an `error` whose `closed` callback calls `close()`
    again (nested inside the notification) -/
example : ∃ s m, WV.Proofs.C18.Run Boss.table Boss.init {} s m ∧ m.closedSeen = true ∧ s = .S4_closed :=
  ⟨.S4_closed, { closedSeen := true },
   .row (s1 := .S4_closed) (os := [.W_close_with_error, .send_status_closed]) .k_error rfl
     (.cons (.row (s1 := .S4_closed) (os := []) .close rfl .nil .done) (.cons .done .nil))
     .done, rfl, rfl⟩

/-- the monitor is not vacuous: a table that differs from the generated one in ONE row,
    `S4_closed --closed--> S4_closed [W_closed]`, fails the pin, and has a run (close, error while closing, then the
    Terminator completes) with `closed` notified twice -/
def tableWithLateClosedRow : WV.C18.Table := fun s i =>
  if s = .S4_closed ∧ i = .closed then some (.S4_closed, [.W_closed]) else Boss.table s i

theorem late_closed_row_fails_the_pin : WV.C18.tableOKof tableWithLateClosedRow = false := by decide

theorem late_closed_row_notifies_twice :
    (WV.C18.bossFeed tableWithLateClosedRow Boss.init {} [.got_code, .close, .k_error, .closed]).2.closedTwice = true := by decide

/-- `emits` is what the composed model's `exec` does for each Boss output (and `ClientSkel.skeleton_agrees` ties
    that to the `self._W.*` calls of the method bodies in the working tree) -/
theorem emits_agrees_with_client_model (o : Boss.Output) :
    (match exec { ctl := {} } (.oB o) {} with
     | .cont _ push => push.filterMap (fun p => match p.1 with
        | .w .code => some WV.C18.Note.code | .w .key => some .key | .w .verifier => some .verifier
        | .w .versions => some .versions | .w .received => some .received | .w (.closed _) => some .closed
        | _ => none)
     | .fail _ _ => []) = (WV.C18.emits o).toList := by
  cases o <;> rfl

/-- what is inside the `try` of `ws_message` and what is not: the handler call only; its `except` tells the Boss -/
theorem ws_message_skeleton :
    Skel.skeleton "RendezvousConnector.ws_message" =
      [("if", "self._debug_record_inbound_f"), ("if", "errors._UnknownMessageTypeError"), ("try", "meth"),
       ("except", "_B.error")] := by decide

/-- a frame whose handler raises, in the composed model, for EVERY state of the client: after closed it is silent … -/
theorem bad_frame_after_closed_is_silent (c : Ctl) (h : c.b = .S4_closed) :
    WV.C18.faultStep c .handler = (c, [], .internal WV.C18.frameExn) := by
  obtain ⟨b, n, m, t, cc, a, l, i, k, sk, o, r, s, x1, x2, x3, x4, x5, x6, x7, x8, x9, x10, x11, x12, x13, x14, x15, x16, x17, x18, x19, x20⟩ := c
  simp only at h
  subst h
  rfl

/-- … and before that it notifies `closed` exactly once, with the error, and moves the Boss to `S4_closed`
    without touching any other machine (in particular while the wormhole is closing) -/
theorem bad_frame_closes_exactly_once (c : Ctl) (h : c.b ≠ .S4_closed) :
    WV.C18.faultStep c .handler =
      ({ c with b := .S4_closed, result := .internalError }, [.ev (.closed .internalError)], .internal WV.C18.frameExn) := by
  obtain ⟨b, n, m, t, cc, a, l, i, k, sk, o, r, s, x1, x2, x3, x4, x5, x6, x7, x8, x9, x10, x11, x12, x13, x14, x15, x16, x17, x18, x19, x20⟩ := c
  simp only [ne_eq] at h
  cases b <;> first | exact absurd rfl h | rfl

/-- frames that fail before the `try`, and frames of an unknown type, change nothing and notify nothing -/
theorem other_unusable_frames_touch_nothing (c : Ctl) :
    (WV.C18.faultStep c .raw).1 = c ∧ (WV.C18.faultStep c .raw).2.1 = [] ∧
    WV.C18.faultStep c .unknown = (c, [], .ok) := ⟨rfl, rfl, rfl⟩

end WV.Props.C18
