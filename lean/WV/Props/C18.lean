import WV.Proofs.ClientCert

/-!
# C18 — application events arrive once each and in causal order
-/
namespace WV.Props.C18
open WV.Client WV.ClientEnv WV.Cert WV.Gen

local macro "comps" s:ident hr:ident e:ident he:ident : term =>
  `(WV.ClientCert.safe_components (WV.ClientCert.reach_safe $s $hr $e $he))

/-- code, unverified key, verifier and versions are each notified at most once -/
theorem each_at_most_once (s : Sys) (hr : Reach enabled s) (e : Event) (he : enabled s e = true) :
    (sysStep s e).1.mon.dup = false := (comps s hr e he).2.2.2.1

/-- order: code < key < verifier < {versions, messages}; in particular the verifier precedes any
    peer data — for arbitrary re-ordering, duplicating servers -/
theorem causal_order (s : Sys) (hr : Reach enabled s) (e : Event) (he : enabled s e = true) :
    (sysStep s e).1.mon.order = false := (comps s hr e he).2.2.2.2.1

/-- closed is last -/
theorem closed_last (s : Sys) (hr : Reach enabled s) (e : Event) (he : enabled s e = true) :
    (sysStep s e).1.mon.afterClosed = false ∧ (sysStep s e).1.mon.closedCount ≤ 1 :=
  ⟨(comps s hr e he).2.2.1, (comps s hr e he).2.1⟩

/-- when the server preserves the order in which the peer submitted its messages, the peer's
    versions precede every application message -/
theorem versions_before_messages (s : Sys) (hr : Reach enabledFifo s) (e : Event) (he : enabledFifo s e = true) :
    (sysStep s e).1.mon.recvBeforeVersions = false := by
  have h := WV.ClientCert.reach_safe_fifo s hr e he
  unfold safeStepFifo at h
  simp only [Bool.and_eq_true, Bool.not_eq_true'] at h
  exact h.2

/-- the rows these facts rest on, on the generated tables -/
theorem receive_first_good_row :
    Receive.table .S1_unverified_key .got_message_good =
      some (.S2_verified_key, [.S_got_verified_key, .W_happy, .W_got_verifier, .W_got_message]) := by decide

theorem boss_code_key_rows :
    (∀ st, (Boss.table st .got_code).map (·.2) = some [.do_got_code] → st = .S0_empty) ∧
    (∀ st, (Boss.table st .got_key).map (·.2) = some [.W_got_key, .D_got_key, .send_status_peer_key] → st = .S1_lonely) := by
  constructor <;> (intro st; cases st <;> decide)

end WV.Props.C18
