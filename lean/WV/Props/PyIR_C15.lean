import WV.Proofs.PyIR_Dil

/-!
Translation validation of method BODIES, C15 part (Dilation back-pressure): `Inbound`'s pause set against `WV.C15.Inb`
(`appPause` / `appResume` / `istep`), `Outbound.pauseProducing` with registered producers against `WV.C15.pauseProducing`.
Bodies are validated as straight-line code between collaborator calls: a producer's `pauseProducing()` is an emitted
event and is assumed not to call back into `Outbound` (as the model's `pauseLoop` assumes).
-/
namespace WV.Props.PyIRC15
open WV WV.PyIR WV.C15 WV.Gen.PyIRDil WV.Proofs.PyIRC03 WV.Proofs.PyIRDil

theorem dcp_forwards : dcpForwardsPause = true ∧ dcpForwardsResume = true := by decide

set_option hygiene false in
macro "pause_open" R:ident : tactic =>
  `(tactic| (obtain ⟨⟨v, hv, l', rfl, hm⟩, hc⟩ := $R
             have hemp : l'.isEmpty = s.pausedSc.isEmpty := by
               have := SetRel.isEmpty (enc := encSc) ⟨l', rfl, hm⟩
               simpa [truthy_set] using this))

/-- `Inbound.subchannel_pauseProducing(sc)` = `Inb.appPause`: the connection is paused by the first pauser only -/
theorem inbound_subchannel_pauseProducing (fuel : Nat) (h : Store) (s : Inb) (R : RelPause h s) (sc : Nat) :
    let o := exec (fuel + 1) (envD noRe) tbl_Inbound "subchannel_pauseProducing" [encSc sc] h
    RelPause o.heap (s.appPause sc) ∧
      (∀ g, s.conn = some g → o.calls.map (absICall g) = (tNew s (s.appPause sc)).map some) ∧
      (s.conn = none → o.calls = []) ∧ o.exc = none := by
  pause_open R
  cases hconn : s.conn with
  | none =>
    rw [hconn] at hc
    dil_eval15 [tbl_Inbound, m_Inbound_subchannel_pauseProducing, envD, hv, hc, memKeys_enc keyEnc_sc,
      Inb.appPause, hconn]
    exact ⟨⟨_, by simp [get_set], SetRel.add keyEnc_sc hm sc⟩, by simp [get_set, hc]⟩
  | some g =>
    rw [hconn] at hc
    cases he : s.pausedSc.isEmpty <;> rw [he] at hemp <;>
      dil_eval15 [tbl_Inbound, m_Inbound_subchannel_pauseProducing, envD, hv, hc, memKeys_enc keyEnc_sc,
        Inb.appPause, hconn, he, hemp, Inb.connPause, dcp_forwards.1, tNew, isT, absICall, noRe, len_sub1, len_sub2, len_sub0]
    all_goals first
      | (refine ⟨⟨⟨_, ?_, SetRel.add keyEnc_sc hm sc⟩, ?_⟩, ?_⟩ <;> first | rfl | simp [get_set, hc])
      | (refine ⟨⟨_, ?_, SetRel.add keyEnc_sc hm sc⟩, ?_⟩ <;> simp [get_set, hc])


/-- `subchannel_resumeProducing(sc)` = `Inb.appResume`: resumed only when the LAST pauser leaves -/
theorem inbound_subchannel_resumeProducing (fuel : Nat) (h : Store) (s : Inb) (R : RelPause h s) (sc : Nat) :
    let o := exec (fuel + 1) (envD noRe) tbl_Inbound "subchannel_resumeProducing" [encSc sc] h
    RelPause o.heap (s.appResume sc) ∧
      (∀ g, s.conn = some g → o.calls.map (absICall g) = (tNew s (s.appResume sc)).map some) ∧
      (s.conn = none → o.calls = []) ∧ o.exc = none := by
  pause_open R
  have hemp2 : (sDel sc l').isEmpty = (sDel sc s.pausedSc).isEmpty := by
    have := SetRel.isEmpty (SetRel.del (kf := encSc) hm sc)
    simpa [truthy_set] using this
  cases hconn : s.conn with
  | none =>
    rw [hconn] at hc
    dil_eval15 [tbl_Inbound, m_Inbound_subchannel_resumeProducing, envD, hv, hc, setDel_enc keyEnc_sc,
      Inb.appResume, Inb.discard, hconn]
    exact ⟨⟨_, by simp [get_set], SetRel.del hm sc⟩, by simp [get_set, hc]⟩
  | some g =>
    rw [hconn] at hc
    cases he : s.pausedSc.isEmpty <;> rw [he] at hemp <;>
    cases he2 : (sDel sc s.pausedSc).isEmpty <;> rw [he2] at hemp2 <;>
      dil_eval15 [tbl_Inbound, m_Inbound_subchannel_resumeProducing, envD, hv, hc, setDel_enc keyEnc_sc,
        Inb.appResume, Inb.discard, hconn, he, hemp, he2, hemp2, Inb.connResume, dcp_forwards.2, tNew, isT, absICall, noRe,
        len_sub1, len_sub2, len_sub0]
    all_goals first
      | (refine ⟨⟨⟨_, ?_, SetRel.del hm sc⟩, ?_⟩, ?_⟩ <;> first | rfl | simp [get_set, hc])
      | (refine ⟨⟨_, ?_, SetRel.del hm sc⟩, ?_⟩ <;> simp [get_set, hc])

/-- `subchannel_stopProducing(sc)`: the same bookkeeping as `subchannel_resumeProducing` (`istep .stopProducing`) -/
theorem inbound_subchannel_stopProducing (fuel : Nat) (h : Store) (s : Inb) (R : RelPause h s) (sc : Nat) :
    let o := exec (fuel + 1) (envD noRe) tbl_Inbound "subchannel_stopProducing" [encSc sc] h
    RelPause o.heap (s.appResume sc) ∧
      (∀ g, s.conn = some g → o.calls.map (absICall g) = (tNew s (s.appResume sc)).map some) ∧
      (s.conn = none → o.calls = []) ∧ o.exc = none := by
  pause_open R
  have hemp2 : (sDel sc l').isEmpty = (sDel sc s.pausedSc).isEmpty := by
    have := SetRel.isEmpty (SetRel.del (kf := encSc) hm sc)
    simpa [truthy_set] using this
  cases hconn : s.conn with
  | none =>
    rw [hconn] at hc
    dil_eval15 [tbl_Inbound, m_Inbound_subchannel_stopProducing, envD, hv, hc, setDel_enc keyEnc_sc,
      Inb.appResume, Inb.discard, hconn]
    exact ⟨⟨_, by simp [get_set], SetRel.del hm sc⟩, by simp [get_set, hc]⟩
  | some g =>
    rw [hconn] at hc
    cases he : s.pausedSc.isEmpty <;> rw [he] at hemp <;>
    cases he2 : (sDel sc s.pausedSc).isEmpty <;> rw [he2] at hemp2 <;>
      dil_eval15 [tbl_Inbound, m_Inbound_subchannel_stopProducing, envD, hv, hc, setDel_enc keyEnc_sc,
        Inb.appResume, Inb.discard, hconn, he, hemp, he2, hemp2, Inb.connResume, dcp_forwards.2, tNew, isT, absICall, noRe,
        len_sub1, len_sub2, len_sub0]
    all_goals first
      | (refine ⟨⟨⟨_, ?_, SetRel.del hm sc⟩, ?_⟩, ?_⟩ <;> first | rfl | simp [get_set, hc])
      | (refine ⟨⟨_, ?_, SetRel.del hm sc⟩, ?_⟩ <;> simp [get_set, hc])


/-- `Inbound.use_connection(c)`: a connection that arrives while some subchannel is paused is paused at once -/
theorem inbound_use_connection (fuel : Nat) (h : Store) (s : Inb) (R : RelPause h s) :
    let o := exec (fuel + 1) (envD noRe) tbl_Inbound "use_connection" [.ref "Connection" (s.gen + 1)] h
    RelPause o.heap (istep s .use) ∧ o.calls.map (absICall (s.gen + 1)) = (tNew s (istep s .use)).map some ∧
      o.exc = none := by
  pause_open R
  cases he : s.pausedSc.isEmpty <;> rw [he] at hemp <;>
    dil_eval15 [tbl_Inbound, m_Inbound_use_connection, envD, hv, istep, he, hemp, Inb.connPause, dcp_forwards.1, tNew, isT,
      absICall, noRe, len_sub1, len_sub2, len_sub0]
  all_goals first
    | (refine ⟨⟨⟨_, ?_, ⟨l', rfl, hm⟩⟩, ?_⟩, ?_⟩ <;> first | rfl | simp [get_set, hv])
    | (refine ⟨⟨_, ?_, ⟨l', rfl, hm⟩⟩, ?_⟩ <;> simp [get_set, hv])

/-- `Inbound.stop_using_connection()` -/
theorem inbound_stop_using_connection (fuel : Nat) (h : Store) (s : Inb) (R : RelPause h s) :
    let o := exec (fuel + 1) (envD noRe) tbl_Inbound "stop_using_connection" [] h
    RelPause o.heap (istep s .stop) ∧ o.calls = [] ∧ o.exc = none := by
  pause_open R
  dil_eval15 [tbl_Inbound, m_Inbound_stop_using_connection, envD, istep]
  refine ⟨⟨_, ?_, ⟨l', rfl, hm⟩⟩, ?_⟩ <;> simp [get_set, hv]

/-- `Outbound.pauseProducing()` with registered producers = `C15.pauseProducing`: the flag, then every producer of the
    rotation that is in `_unpaused_producers` is moved to `_paused_producers` and told to pause, in rotation order; a
    second call does nothing -/
theorem outbound_pauseProducing (cls : Nat → String) (fuel : Nat) (h : Store) (c : Cfg) (R : RelProd cls h c.o) :
    let o := exec (fuel + 1) (envD noRe) tbl_Outbound "pauseProducing" [] h
    let c' := pauseProducing c
    RelProd cls o.heap c'.o ∧ o.calls.map absPCall = ((c'.log.take (c'.log.length - c.log.length)).reverse).map some ∧
      o.exc = none := by
  have R' := R
  obtain ⟨hp, hall, ⟨vp, hvp, lp, rfl, hmp⟩, ⟨vu, hvu, lu, rfl, hmu⟩, hscp⟩ := R
  cases hps : c.o.paused with
  | true =>
    rw [hps] at hp
    dil_eval15 [tbl_Outbound, m_Outbound_pauseProducing, envD, hp, pauseProducing, hps, len_sub0]
    exact R'
  | false =>
    rw [hps] at hp
    dil_eval15 [tbl_Outbound, m_Outbound_pauseProducing, envD, hp, hall, pauseProducing, hps]
    generalize hw : forLoop _ _ _ _ = w
    refine forLoop_pause cls c.o.allp hw { c with o := { c.o with paused := true } } ?hstep ?hI ?cont
    case hstep =>
      intro p h1 o L cs hR
      obtain ⟨hp1, hall1, ⟨vp1, hvp1, lp1, rfl, hmp1⟩, ⟨vu1, hvu1, lu1, rfl, hmu1⟩, hscp1⟩ := hR
      constructor
      · intro hin
        have hin' : p ∈ lu1 := (hmu1 p).2 hin
        dil_eval15 [hvu1, hvp1, memKeys_enc (keyEnc_P cls), setDel_enc (keyEnc_P cls), hin', noRe, mkPause]
        simp only [encP]
        refine ⟨_, rfl, ?_, ?_, ⟨_, ?_, SetRel.add (keyEnc_P cls) hmp1 p⟩, ⟨_, ?_, SetRel.del hmu1 p⟩, ?_⟩ <;> simp [get_set, encP, *]
      · intro hnin
        have hnin' : p ∉ lu1 := fun hx => hnin ((hmu1 p).1 hx)
        dil_eval15 [hvu1, hvp1, memKeys_enc (keyEnc_P cls), hnin']
    case hI =>
      refine ⟨?_, ?_, ⟨_, ?_, ⟨lp, rfl, hmp⟩⟩, ⟨_, ?_, ⟨lu, rfl, hmu⟩⟩, ?_⟩ <;> simp [get_set, *]
    case cont =>
      intro h' L' evs hR hl hw'
      subst hw'
      dil_eval15 [hl, mkPause, absPCall, encP, Function.comp_def]
      exact hR


/-! ## non-vacuity: concrete heaps in the relations, concrete runs of the generated bodies -/

def demoCls : Nat → String := fun p => if p = 12 then "PullToPush" else "Producer"

def demoOut : Out := { paused := false, allp := [10, 11, 12], pausedSet := [11], unpausedSet := [12, 10],
                       scp := [(1, 10), (2, 11), (3, 12)], pulls := [12] }

def demoProdHeap : Store :=
  [("_paused", .bool false), ("_all_producers", .list [encP demoCls 10, encP demoCls 11, encP demoCls 12]),
   ("_paused_producers", .set [encP demoCls 11]), ("_unpaused_producers", .set [encP demoCls 10, encP demoCls 12]),
   ("_subchannel_producers", .dict [(encSc 1, encP demoCls 10), (encSc 2, encP demoCls 11), (encSc 3, encP demoCls 12)])]

example : RelProd demoCls demoProdHeap demoOut := by
  refine ⟨rfl, rfl, ⟨_, rfl, [11], rfl, fun _ => Iff.rfl⟩, ⟨_, rfl, [10, 12], rfl, fun x => ?_⟩, rfl⟩
  simp [demoOut]; omega

/-- producers 10 and 12 are paused, in rotation order; 11 (already paused) is not told again -/
example : (exec 2 (envD noRe) tbl_Outbound "pauseProducing" [] demoProdHeap).calls.map absPCall =
    [some (.pause 10), some (.pause 12)] := by decide

def demoInb : Inb := { pausedSc := [4], conn := some 1, gen := 1 }
def demoInbHeap : Store := [("_paused_subchannels", .set [encSc 4]), ("_connection", .ref "Connection" 1)]

example : RelPause demoInbHeap demoInb := ⟨⟨_, rfl, [4], rfl, fun _ => Iff.rfl⟩, rfl⟩

/-- the last pauser leaves: the connection is resumed; a second pauser arriving does not pause it again -/
example : (exec 2 (envD noRe) tbl_Inbound "subchannel_resumeProducing" [encSc 4] demoInbHeap).calls.map (absICall 1) =
    [some (.tResume 1)] := by decide
example : (exec 2 (envD noRe) tbl_Inbound "subchannel_pauseProducing" [encSc 5] demoInbHeap).calls = [] := by decide

end WV.Props.PyIRC15
