import WV.Proofs.C02_Inv
import WV.Proofs.C02_Once
import WV.Props.C18obs

/-!
C02 — the mailbox server cannot forge, alter, re-label, replay or reflect messages.

Property theorems over `WV.C02` (the model the driver executes), for an arbitrary crypto instance
`C` under the hypothesis structure `C.Ideal`; `toy_is_ideal` shows the hypotheses are satisfiable
(by the very instance the driver runs).  No theorem bounds the number of events, frames, phases or
the size of any byte string; the adversary is *every* list of events, frame bodies are arbitrary.
-/
namespace WV.Props.C02
open WV WV.C02 WV.Gen WV.Proofs.C02

/-! ## the tie to the source: generated shapes the model was written against -/

/-- `derive_phase_key`: `purpose = b"wormhole:phase:" + sha256(side.encode("ascii")) + sha256(phase.encode("ascii"))`,
    `Receive.got_message` derives the key from the *frame's* side and phase, `compute_key`/`Send` from our own
    side, and decrypts the frame body with it. -/
theorem derive_phase_key_shape :
    Gen.C02.phaseKeyParams = ["key", "side", "phase"] ∧
    Gen.C02.phasePurpose = [.const phasePrefix, .sha256 "side" "ascii", .sha256 "phase" "ascii"] ∧
    Gen.C02.phaseKeyReturn = "derive_key(key, purpose)" ∧
    Gen.C02.receiveKeyArgs = [["self._key", "side", "phase"]] ∧
    Gen.C02.computeKeyArgs = [["key", "self._side", "phase"]] ∧
    Gen.C02.sendKeyArgs = [["self._key", "self._side", "phase"]] ∧
    Gen.C02.receiveDecryptArgs = [["data_key", "body"]] := by
  decide

/-- Boss keeps the two in-order inbound streams apart, as the model does (`rxPhases`/`nextRx` and `rxDil`/`nextDil`
    are separate fields): `_init_other_state` creates each cursor and each parking dict in an assignment of its own, the
    dicts as fresh `{}` literals — not a chained `a = b = {}`, not a helper object (whose own state would have to be
    modelled).  A dict shared between the streams hands a parked `dilate-n` plaintext to the application as message `n`. -/
theorem boss_reorder_buffers_are_separate :
    Gen.C02.bossRxState =
      [(["_next_rx_phase"], "0"), (["_rx_phases"], "{}"), (["_next_rx_dilate_seqnum"], "0"), (["_rx_dilate_seqnums"], "{}")] := by
  decide

/-- the hand-written bodies follow the call skeletons extracted from the working tree -/
theorem skeleton_agrees : ∀ p ∈ expectedSkel, Gen.Skel.skeleton p.1 = p.2 := by
  decide +kernel

/-- `Terminator.close` closes the mailbox from both states in which Boss can call it while the mailbox is open -/
theorem terminator_close_closes_mailbox :
    ∀ st ∈ [Terminator.State.Snmo, Terminator.State.Smo],
      (match Terminator.table st .close with
       | some (_, outs) => outs.contains .close_mailbox
       | none => false) = true := by
  decide

/-! ## non-vacuity of the crypto hypotheses -/

theorem toy_is_ideal : toy.Ideal := toy_ideal

/-! ## phaseKey_injective -/

/-- Different `(side, phase)` labels give different message keys (and different session keys do too).
    This is the lemma that dies when `side` or `phase` is dropped from `derive_phase_key`'s purpose. -/
theorem phaseKey_injective {C : Crypto} (hC : C.Ideal) (K K' : Bytes) (σ φ σ' φ' : String) (dk : Bytes)
    (h : phaseKey? C K σ φ = some dk) (h' : phaseKey? C K' σ' φ' = some dk) : K = K' ∧ σ = σ' ∧ φ = φ' :=
  phaseKey?_inj hC h h'

example : phaseKey? toy [1, 2] "ab" "0" ≠ phaseKey? toy [1, 2] "ab" "1" := by decide
example : phaseKey? toy [1, 2] "ab" "0" ≠ phaseKey? toy [1, 2] "ba" "0" := by decide

/-- A sealing made for the label `(σ0, φ0)` under session key `K0` opens under the label `(σ, φ)` and session key
    `K` only if the labels and keys are the same, and then to exactly the sealed plaintext. -/
theorem sealed_opens_only_under_its_label {C : Crypto} (hC : C.Ideal) {K0 K : Bytes} {σ0 φ0 σ φ : String}
    {dk0 dk : Bytes} {n : Nat} {p0 p : Bytes}
    (h0 : phaseKey? C K0 σ0 φ0 = some dk0) (h1 : phaseKey? C K σ φ = some dk)
    (ho : C.boxOpen dk (C.boxSeal dk0 n p0) = some p) : K0 = K ∧ σ0 = σ ∧ φ0 = φ ∧ p0 = p := by
  by_cases hk : dk0 = dk
  · subst hk
    have := phaseKey?_inj hC h0 h1
    rw [hC.box_open] at ho
    injection ho with ho
    exact ⟨this.1, this.2.1, this.2.2, ho⟩
  · rw [hC.box_key _ _ _ _ hk] at ho
    cases ho

/-! ## delivered_was_sealed -/

/-- what the application / `process_version` / the Dilator was handed, with the phase class it was handed for -/
abbrev payload := Proofs.C02.payload

/-- For every event list (every adversary schedule, arbitrary frame bodies): every plaintext handed to
    `process_version` (class `version`), to the application (`num n`, phase number `n`) or to the Dilator
    (`dilate n`) arrived in a `message` frame of this run whose side is not our own, whose phase label has exactly
    that class, and whose body is a SecretBox sealing of exactly that plaintext under
    `derive_phase_key(K, frame.side, frame.phase)`, `K` being the session key Receive holds. -/
theorem delivered_was_sealed {C : Crypto} (hC : C.Ideal) (cfg : Cfg) (evs : List Ev) :
    ∀ e ∈ (run C cfg {} evs).app, ∀ cls pt, payload e = some (cls, pt) →
      ∃ K, (run C cfg {} evs).rkey = some K ∧
        ∃ f ∈ frames evs, f.side ≠ cfg.side ∧ classify f.phase = cls ∧
          ∃ dk n, phaseKey? C K f.side f.phase = some dk ∧ f.body = C.boxSeal dk n pt := by
  intro e he cls pt hp
  have hinv := run_Inv (C := C) cfg evs (init_Inv cfg.side)
  obtain ⟨K, hK, f, hf, hs, hc, dk, hdk, ho⟩ := hinv.app e he cls pt hp
  obtain ⟨n, hn⟩ := hC.box_auth _ _ _ ho
  exact ⟨K, hK, f, by simpa using hf, hs, hc, dk, n, hdk, hn⟩

/-- The adversary of DESIGN §6: the server may put on a frame any label and, as body, either a sealing it has seen
    (made by a holder of `K` for some `(σ0, φ0, p0)` in the honest record `H`) or a string that opens under no
    phase key of `K`.  Then everything delivered is in the honest record under a label of exactly the delivered
    class and a side other than ours: never a re-labelled, reflected, replayed or fabricated content. -/
theorem delivered_in_honest_record {C : Crypto} (hC : C.Ideal) (cfg : Cfg) (evs : List Ev)
    (H : List (String × String × Bytes))
    (hadv : ∀ f ∈ frames evs, ∀ K, (run C cfg {} evs).rkey = some K →
      (∃ σ0 φ0 p0 dk0 n, (σ0, φ0, p0) ∈ H ∧ phaseKey? C K σ0 φ0 = some dk0 ∧ f.body = C.boxSeal dk0 n p0) ∨
      (∀ σ φ dk, phaseKey? C K σ φ = some dk → C.boxOpen dk f.body = none)) :
    ∀ e ∈ (run C cfg {} evs).app, ∀ cls pt, payload e = some (cls, pt) →
      ∃ σ φ, (σ, φ, pt) ∈ H ∧ σ ≠ cfg.side ∧ classify φ = cls := by
  intro e he cls pt hp
  obtain ⟨K, hK, f, hf, hs, hc, dk, n, hdk, hb⟩ := delivered_was_sealed hC cfg evs e he cls pt hp
  rcases hadv f hf K hK with ⟨σ0, φ0, p0, dk0, n0, hH, hdk0, hb0⟩ | hbad
  · have ho : C.boxOpen dk (C.boxSeal dk0 n0 p0) = some pt := by
      rw [← hb0, hb]; exact hC.box_open _ _ _
    obtain ⟨_, h1, h2, h3⟩ := sealed_opens_only_under_its_label hC hdk0 hdk ho
    subst h1; subst h2; subst h3
    exact ⟨_, _, hH, hs, hc⟩
  · have := hbad f.side f.phase dk hdk
    rw [hb, hC.box_open] at this
    cases this

/-- non-vacuity: a concrete run of the model on the toy instance in which a version and a message are delivered
    (and the theorem's conclusion is therefore about something). -/
def demoCfg : Cfg := { side := "aa", secret := [0], versions := [123, 125] }
def demoKey : Bytes := match toy.pakeFinish [0] [49] (toy.pakeStart [1] [49]) with | .key k => k | _ => []
def demoSeal (φ : String) (pt : Bytes) : Bytes := toy.boxSeal ((phaseKey? toy demoKey "bb" φ).getD []) 0 pt
def demoEvs : List Ev :=
  [.connected, .claimed, .code [49],
   .rx { side := "bb", phase := "pake", body := toy.pakeEncode (toy.pakeStart [1] [49]) },
   .rx { side := "bb", phase := "version", body := demoSeal "version" [123, 125] },
   .rx { side := "bb", phase := "0", body := demoSeal "0" [7, 7] }]

example : (run toy demoCfg {} demoEvs).app.filterMap payload = [(.version, [123, 125]), (.num 0, [7, 7])] := by
  decide

/-! ## relabel_reflect_replay_rejected -/

/-- A client that holds the session key `K` (Receive unverified or verified, Boss lonely or happy, mailbox open)
    gets a frame from another side, under a phase it has not seen, whose body is a genuine sealing made under `K`
    for a *different* label `(σ0, φ0)`: a re-labelled phase or side, the client's own message reflected under
    another side (`σ0 = own side`), a cross-phase replay.  Then decryption fails, Receive is `S3_scared`, Boss
    closes with `WrongPasswordError` (result recorded, Terminator told "scary", Mailbox closing so that every later
    frame is ignored), nothing is delivered, no exception escapes; and when the Terminator is done the application
    gets `closed(WrongPasswordError)`. -/
theorem relabel_reflect_replay_rejected {C : Crypto} (hC : C.Ideal) (cfg : Cfg) (s : St) (f : Frame)
    (K : Bytes) (σ0 φ0 : String) (dk0 : Bytes) (n : Nat) (p : Bytes)
    (hm : s.lo.mbox = .S2B) (ht : s.lo.term = .Snmo) (ho : s.ord = .S1_yes_pake) (hk : s.rkey = some K)
    (hst : (s.rcv = .S1_unverified_key ∧ s.boss = .S1_lonely) ∨ (s.rcv = .S2_verified_key ∧ s.boss = .S2_happy))
    (hside : f.side ≠ cfg.side) (hnew : s.processed.contains f.phase = false) (hnp : f.phase ≠ "pake")
    (hascii : (phaseKey? C K f.side f.phase).isSome)
    (hseal : phaseKey? C K σ0 φ0 = some dk0 ∧ f.body = C.boxSeal dk0 n p)
    (hne : ¬ (σ0 = f.side ∧ φ0 = f.phase)) :
    let r := step C cfg s (.rx f)
    r.2 = none ∧ r.1.rcv = .S3_scared ∧ r.1.boss = .S3_closing ∧ r.1.result = .wrongPassword ∧
    r.1.lo.mood = some "scary" ∧ r.1.lo.mbox = .S3B ∧ r.1.app = s.app ∧
    (step C cfg r.1 .tclosed).1.app = s.app ++ [.closed .wrongPassword] := by
  obtain ⟨dk, hdk⟩ := Option.isSome_iff_exists.mp hascii
  have hnew' : f.phase ∉ s.processed := by simpa using hnew
  have hbad : C.boxOpen dk f.body = none := by
    rw [hseal.2]
    apply hC.box_key
    intro heq
    subst heq
    have := phaseKey?_inj hC hseal.1 hdk
    exact hne ⟨this.2.1, this.2.2⟩
  rcases hst with ⟨hr, hb⟩ | ⟨hr, hb⟩ <;>
    simp [step, wsMessage, mRxMessage, hside, hm, Mailbox.table, runOuts, mRxOut, hnew', oGotMessage, hnp, ho,
      Order.table, oOut, rGotMessage, hk, hdk, hbad, rInput, hr, Receive.table, rOut, bossInput, hb, Boss.table,
      bossOut, liftLo, tClose, ht, Terminator.table, mLow, mLowOut]

/-- non-vacuity of the hypotheses above: the demo client after key agreement, and its own version message
    reflected under the peer's side -/
example :
    let s := run toy demoCfg {} (demoEvs.take 5)
    s.lo.mbox = .S2B ∧ s.lo.term = .Snmo ∧ s.ord = .S1_yes_pake ∧ s.rkey = some demoKey ∧
    (s.rcv = .S2_verified_key ∧ s.boss = .S2_happy) ∧ s.processed.contains "0" = false ∧
    (phaseKey? toy demoKey "bb" "0").isSome ∧ (phaseKey? toy demoKey "aa" "version").isSome := by
  decide

/-- The same for a message that arrived BEFORE the peer's PAKE message and waits in Order's queue: the queue keeps the
    side label each frame came with (`(side, phase, body)`), and when the PAKE message arrives (key `K` computed, our
    version sent, Receive keyed) `drain` hands the queued frame to Receive under *its own* label.  If that label is not
    the one the body was sealed for — the server rewrote the side (or phase) of the peer's early message — the frame
    is bad: Receive `S3_scared`, Boss closes with `WrongPasswordError`; the application has been told the unverified
    key and nothing else (no verifier, no versions, no message). -/
theorem relabelled_queued_before_pake_rejected {C : Crypto} (hC : C.Ideal) (cfg : Cfg) (s : St) (f g : Frame)
    (pw e K : Bytes) (σ0 φ0 : String) (dk0 dkv : Bytes) (n : Nat) (p : Bytes)
    (hm : s.lo.mbox = .S2B) (ht : s.lo.term = .Snmo) (ho : s.ord = .S0_no_pake) (hq : s.oq = [g])
    (hkey : s.key = .S10) (hsk : s.sk = .S1_know_code) (hpw : s.pw = some pw) (hb : s.boss = .S1_lonely)
    (hr : s.rcv = .S0_unknown_key)
    (hside : f.side ≠ cfg.side) (hnew : s.processed.contains f.phase = false) (hp : f.phase = "pake")
    (hbody : C.pakeDecode f.body = .elem e) (hfin : C.pakeFinish cfg.secret pw e = .key K)
    (hown : phaseKey? C K cfg.side "version" = some dkv)
    (hascii : (phaseKey? C K g.side g.phase).isSome)
    (hseal : phaseKey? C K σ0 φ0 = some dk0 ∧ g.body = C.boxSeal dk0 n p)
    (hne : ¬ (σ0 = g.side ∧ φ0 = g.phase)) :
    let r := step C cfg s (.rx f)
    r.2 = none ∧ r.1.rkey = some K ∧ r.1.rcv = .S3_scared ∧ r.1.boss = .S3_closing ∧ r.1.result = .wrongPassword ∧
    r.1.oq = [] ∧ r.1.app = s.app ++ [.gotKey K] := by
  obtain ⟨dk, hdk⟩ := Option.isSome_iff_exists.mp hascii
  have hnew' : f.phase ∉ s.processed := by simpa using hnew
  have hnew'' : "pake" ∉ s.processed := hp ▸ hnew'
  have hbad : C.boxOpen dk g.body = none := by
    rw [hseal.2]
    apply hC.box_key
    intro heq
    subst heq
    have := phaseKey?_inj hC hseal.1 hdk
    exact hne ⟨this.2.1, this.2.2⟩
  simp [step, wsMessage, mRxMessage, hside, hm, Mailbox.table, runOuts, mRxOut, hnew'', oGotMessage, hp, ho,
    Order.table, oOut, kInput, hkey, Key.table, kOut, skGotPake, hbody, skInput, hsk, SortedKey.table, skOut, hpw,
    hfin, bossInput, hb, Boss.table, bossOut, hown, liftLo, mLow, mLowOut, rInput, hr, Receive.table, rOut,
    deliverAll, hq, rGotMessage, hdk, hbad, tClose, ht, Terminator.table]

/-- non-vacuity: the demo client before the PAKE message, with the peer's version message queued under side "xx" -/
example :
    let g : Frame := { side := "xx", phase := "version", body := demoSeal "version" [123, 125] }
    let s := run toy demoCfg {} [.connected, .claimed, .code [49], .rx g]
    s.lo.mbox = .S2B ∧ s.lo.term = .Snmo ∧ s.ord = .S0_no_pake ∧ s.oq = [g] ∧ s.key = .S10 ∧ s.sk = .S1_know_code ∧
    s.pw = some [49] ∧ s.boss = .S1_lonely ∧ s.rcv = .S0_unknown_key ∧ s.processed.contains "pake" = false ∧
    toy.pakeFinish demoCfg.secret [49] (toy.pakeStart [1] [49]) = .key demoKey ∧
    (phaseKey? toy demoKey demoCfg.side "version").isSome ∧ (phaseKey? toy demoKey "xx" "version").isSome ∧
    g.body = toy.boxSeal ((phaseKey? toy demoKey "bb" "version").getD []) 0 [123, 125] := by
  decide

/-- A frame that carries our own side is an echo: whatever its phase and body, the only effect is
    `_pending_outbound.pop(phase)`; it never reaches Order, Receive or a decryption. -/
theorem own_side_is_echo_never_decrypted (C : Crypto) (cfg : Cfg) (s : St) (f : Frame)
    (hm : s.lo.mbox = .S2B) (hside : f.side = cfg.side) :
    step C cfg s (.rx f) =
      ({ s with lo := { s.lo with mbox := .S2B, pending := dictPop s.lo.pending f.phase } }, none) := by
  simp [step, wsMessage, mRxMessage, hside, hm, Mailbox.table, runOuts, mRxOut, liftLo, mLowOut]

/-- A PAKE message that is unusable — its body does not decode (`raise`), lacks `pake_v1` (`missing`), or carries
    an element SPAKE2 refuses (malformed, off-curve, wrong side, reflected) — is treated like a wrong code: no exception
    escapes, no key is ever recorded, nothing is delivered, Boss closes with `WrongPasswordError`, and the application
    gets `closed(WrongPasswordError)` when the Terminator is done. -/
theorem bad_pake_scared (C : Crypto) (cfg : Cfg) (s : St) (f : Frame) (pw : Bytes)
    (hm : s.lo.mbox = .S2B) (ht : s.lo.term = .Snmo) (ho : s.ord = .S0_no_pake) (hoq : s.oq = [])
    (hkey : s.key = .S10) (hsk : s.sk = .S1_know_code) (hpw : s.pw = some pw) (hb : s.boss = .S1_lonely)
    (hside : f.side ≠ cfg.side) (hnew : s.processed.contains f.phase = false) (hp : f.phase = "pake")
    (hbody : C.pakeDecode f.body = .raise ∨ C.pakeDecode f.body = .missing ∨
             ∃ e, C.pakeDecode f.body = .elem e ∧ C.pakeFinish cfg.secret pw e = .refused) :
    let r := step C cfg s (.rx f)
    r.2 = none ∧ r.1.boss = .S3_closing ∧ r.1.result = .wrongPassword ∧ r.1.lo.mbox = .S3B ∧
    r.1.rkey = s.rkey ∧ r.1.rcv = s.rcv ∧ r.1.app = s.app ∧
    (step C cfg r.1 .tclosed).1.app = s.app ++ [.closed .wrongPassword] := by
  have hnew' : f.phase ∉ s.processed := by simpa using hnew
  have hnew'' : "pake" ∉ s.processed := hp ▸ hnew'
  rcases hbody with hbody | hbody | ⟨e, hbody, hfin⟩
  · simp [step, wsMessage, mRxMessage, hside, hm, Mailbox.table, runOuts, mRxOut, hnew'', oGotMessage, hp, ho,
      Order.table, oOut, kInput, hkey, Key.table, kOut, skGotPake, hbody, skInput, hsk, SortedKey.table, skOut, hpw,
      bossInput, hb, Boss.table, bossOut, liftLo, tClose, ht, Terminator.table, mLow, mLowOut, deliverAll, hoq]
  · simp [step, wsMessage, mRxMessage, hside, hm, Mailbox.table, runOuts, mRxOut, hnew'', oGotMessage, hp, ho,
      Order.table, oOut, kInput, hkey, Key.table, kOut, skGotPake, hbody, skInput, hsk, SortedKey.table, skOut, hpw,
      bossInput, hb, Boss.table, bossOut, liftLo, tClose, ht, Terminator.table, mLow, mLowOut, deliverAll, hoq]
  · simp [step, wsMessage, mRxMessage, hside, hm, Mailbox.table, runOuts, mRxOut, hnew'', oGotMessage, hp, ho,
      Order.table, oOut, kInput, hkey, Key.table, kOut, skGotPake, hbody, skInput, hsk, SortedKey.table, skOut, hpw,
      bossInput, hb, Boss.table, bossOut, liftLo, tClose, ht, Terminator.table, mLow, mLowOut, deliverAll, hoq, hfin]

/-- In particular the client's own SPAKE2 element, reflected to it under another side, is refused. -/
theorem pake_reflection_rejected {C : Crypto} (hC : C.Ideal) (cfg : Cfg) (s : St) (f : Frame) (pw : Bytes)
    (hm : s.lo.mbox = .S2B) (ht : s.lo.term = .Snmo) (ho : s.ord = .S0_no_pake) (hoq : s.oq = [])
    (hkey : s.key = .S10) (hsk : s.sk = .S1_know_code) (hpw : s.pw = some pw) (hb : s.boss = .S1_lonely)
    (hside : f.side ≠ cfg.side) (hnew : s.processed.contains f.phase = false) (hp : f.phase = "pake")
    (hbody : C.pakeDecode f.body = .elem (C.pakeStart cfg.secret pw)) :
    let r := step C cfg s (.rx f)
    r.2 = none ∧ r.1.boss = .S3_closing ∧ r.1.result = .wrongPassword ∧ r.1.rkey = s.rkey ∧ r.1.app = s.app := by
  have := bad_pake_scared C cfg s f pw hm ht ho hoq hkey hsk hpw hb hside hnew hp
    (Or.inr (Or.inr ⟨_, hbody, hC.pake_reflect _ _⟩))
  exact ⟨this.1, this.2.1, this.2.2.1, this.2.2.2.2.1, this.2.2.2.2.2.2.1⟩

/-- non-vacuity: the demo client after `code`, before any PAKE message; the toy instance refuses its own element -/
example :
    let s := run toy demoCfg {} [.connected, .claimed, .code [49]]
    s.lo.mbox = .S2B ∧ s.lo.term = .Snmo ∧ s.ord = .S0_no_pake ∧ s.oq = [] ∧ s.key = .S10 ∧ s.sk = .S1_know_code ∧
    s.pw = some [49] ∧ s.boss = .S1_lonely ∧ s.processed.contains "pake" = false ∧
    toy.pakeDecode (toy.pakeEncode (toy.pakeStart demoCfg.secret [49])) = .elem (toy.pakeStart demoCfg.secret [49]) ∧
    toy.pakeDecode [7] = .raise ∧ toy.pakeDecode [6] = .missing := by
  decide

/-- A message that reaches Receive while no key exists (the PAKE message was unusable, or it overtook our own code and
    is stashed): nobody can have sealed it for us; Receive is scared, Boss closes with `WrongPasswordError` — also
    before the code is known (`S0_empty`) — and nothing is delivered. -/
theorem message_without_key_scared (C : Crypto) (cfg : Cfg) (s : St) (f : Frame)
    (hm : s.lo.mbox = .S2B) (ht : s.lo.term = .Snmo) (ho : s.ord = .S1_yes_pake) (hk : s.rkey = none)
    (hr : s.rcv = .S0_unknown_key) (hb : s.boss = .S0_empty ∨ s.boss = .S1_lonely)
    (hside : f.side ≠ cfg.side) (hnew : s.processed.contains f.phase = false) (hnp : f.phase ≠ "pake") :
    let r := step C cfg s (.rx f)
    r.2 = none ∧ r.1.rcv = .S3_scared ∧ r.1.boss = .S3_closing ∧ r.1.result = .wrongPassword ∧ r.1.app = s.app := by
  have hnew' : f.phase ∉ s.processed := by simpa using hnew
  rcases hb with hb | hb <;>
    simp [step, wsMessage, mRxMessage, hside, hm, Mailbox.table, runOuts, mRxOut, hnew', oGotMessage, hnp, ho,
      Order.table, oOut, rGotMessage, hk, rInput, hr, Receive.table, rOut, bossInput, hb, Boss.table,
      bossOut, liftLo, tClose, ht, Terminator.table, mLow, mLowOut]

/-! ## phase_at_most_once -/

/-- Mailbox dedup: a frame under a phase that was already accepted changes nothing but `N.release()` — whatever its
    side and body (a replay of the same phase, a second `version`, a duplicate delivery). -/
theorem repeated_phase_ignored (C : Crypto) (cfg : Cfg) (s : St) (f : Frame)
    (hm : s.lo.mbox = .S2B) (hside : f.side ≠ cfg.side) (hdup : s.processed.contains f.phase = true) :
    step C cfg s (.rx f) = ({ s with lo := { s.lo with mbox := .S2B } }, none) := by
  have hdup' : f.phase ∈ s.processed := by simpa using hdup
  simp [step, wsMessage, mRxMessage, hside, hm, Mailbox.table, runOuts, mRxOut, hdup']

/-- …and a frame under a new phase is recorded in `_processed` before anything else happens, so the next frame
    under the same phase falls under `repeated_phase_ignored`. -/
theorem accepted_phase_is_recorded (C : Crypto) (cfg : Cfg) (s : St) (f : Frame)
    (hm : s.lo.mbox = .S2B) (hside : f.side ≠ cfg.side) (hnew : s.processed.contains f.phase = false) :
    mRxMessage C cfg f s =
      oGotMessage C cfg f { s with lo := { s.lo with mbox := .S2B }, processed := s.processed ++ [f.phase] } := by
  simp only [mRxMessage, hside, hm, Mailbox.table, runOuts, mRxOut, hnew, if_false, Bool.false_eq_true]
  generalize oGotMessage C cfg f _ = r
  rcases r with ⟨s', _ | e⟩ <;> rfl

/-- Losing the connection and re-opening the mailbox (`lost`, then `connected` → `RC_tx_open` + `drain`) touches only
    the outbound half: the dedup memory `_processed`, Order's queue, the keys and everything delivered so far are
    unchanged, so the server's full replay after a re-open falls under `repeated_phase_ignored`. -/
theorem reconnect_keeps_dedup (C : Crypto) (cfg : Cfg) (s : St) (e : Ev) (he : e = .lost ∨ e = .connected) :
    let s' := (step C cfg s e).1
    s'.processed = s.processed ∧ s'.oq = s.oq ∧ s'.ord = s.ord ∧ s'.rkey = s.rkey ∧ s'.rcv = s.rcv ∧
    s'.boss = s.boss ∧ s'.app = s.app ∧ s'.nextRx = s.nextRx ∧ s'.rxPhases = s.rxPhases := by
  rcases he with rfl | rfl <;> simp [step, liftLo]

/-- the reorder loop of `W_received` runs to completion with the fuel the model gives it -/
theorem recvLoop_done : ∀ (fuel : Nat) (s : St), s.rxPhases.length ≤ fuel →
    (recvLoop fuel s).rxPhases.lookup (recvLoop fuel s).nextRx = none
  | 0, s, h => by
    have : s.rxPhases = [] := List.length_eq_zero_iff.mp (Nat.le_zero.mp h)
    simp [recvLoop, this]
  | fuel + 1, s, h => by
    unfold recvLoop
    split
    · rename_i hl; exact hl
    · rename_i pt hl
      apply recvLoop_done fuel
      have hmem := lookup_mem hl
      have : (s.rxPhases.filter (·.1 != s.nextRx)).length < s.rxPhases.length := by
        apply List.length_filter_lt_length_iff_exists.mpr
        exact ⟨_, hmem, by simp⟩
      simp only
      omega

/-- **phase_at_most_once** — for every crypto instance and every adversary schedule (arbitrary frames, duplicates,
    replays after a re-open, re-labelling, any interleaving with the application's calls), over the whole run:
    `process_version` hands a version upward at most once; the application messages handed upward are exactly the
    phases `0, 1, …, _next_rx_phase - 1`, each once, in order; the Dilation payloads likewise.
    (Mailbox's `_processed` lets one frame per phase string through, Order's queue holds each of them once and is
    drained once, Boss' reorder buffers release every number once; `Proofs/C02_Once.lean` carries the token
    accounting for `version`, `Proofs/C02_Inv.lean` the cursors.) -/
theorem phase_at_most_once (C : Crypto) (cfg : Cfg) (evs : List Ev) :
    (run C cfg {} evs).app.countP isVer ≤ 1 ∧
    (run C cfg {} evs).app.filterMap recvIdx = List.range (run C cfg {} evs).nextRx ∧
    (run C cfg {} evs).app.filterMap dilIdx = List.range (run C cfg {} evs).nextDil := by
  have hinv := run_Inv (C := C) cfg evs (init_Inv cfg.side)
  exact ⟨versions_at_most_once C cfg evs, hinv.rxo, hinv.dlo⟩

/-- …and together with `delivered_in_honest_record`: under the DESIGN §6 adversary every phase — `version` included —
    is handed upward at most once over the whole run, and what is handed over for it is a plaintext the honest record
    holds for a label of exactly that class and a side other than ours. -/
theorem each_phase_once_and_honest {C : Crypto} (hC : C.Ideal) (cfg : Cfg) (evs : List Ev)
    (H : List (String × String × Bytes))
    (hadv : ∀ f ∈ frames evs, ∀ K, (run C cfg {} evs).rkey = some K →
      (∃ σ0 φ0 p0 dk0 n, (σ0, φ0, p0) ∈ H ∧ phaseKey? C K σ0 φ0 = some dk0 ∧ f.body = C.boxSeal dk0 n p0) ∨
      (∀ σ φ dk, phaseKey? C K σ φ = some dk → C.boxOpen dk f.body = none)) :
    ((run C cfg {} evs).app.countP isVer ≤ 1 ∧
     (run C cfg {} evs).app.filterMap recvIdx = List.range (run C cfg {} evs).nextRx ∧
     (run C cfg {} evs).app.filterMap dilIdx = List.range (run C cfg {} evs).nextDil) ∧
    ∀ e ∈ (run C cfg {} evs).app, ∀ cls pt, payload e = some (cls, pt) →
      ∃ σ φ, (σ, φ, pt) ∈ H ∧ σ ≠ cfg.side ∧ classify φ = cls :=
  ⟨phase_at_most_once C cfg evs, delivered_in_honest_record hC cfg evs H hadv⟩

/-- non-vacuity: in the demo run one version and message 0 are handed upward -/
example : (run toy demoCfg {} demoEvs).app.countP isVer = 1 := by decide

example : (run toy demoCfg {} demoEvs).nextRx = 1 := by decide

/-! ## the Deferred API on top (`_DeferredWormhole`, `SequenceObserver`, `OneShotObserver` — C18's `WV.Observer`) -/

/-- the plaintexts `Boss.W_received` handed to the façade, in order -/
def recvPts (l : List AppEv) : List Bytes := l.filterMap (fun e => match e with | .received _ pt => some pt | _ => none)

/-- the plaintexts `Boss.process_version` handed on, in order (at most one: `phase_at_most_once`) -/
def verPts (l : List AppEv) : List Bytes := l.filterMap (fun e => match e with | .gotVersions pt => some pt | _ => none)

/-- Composition with the observer model (values travel as `encNat`, which is injective): let `ops` be ANY
    interleaving of application calls (`get_message()`, `get_versions()`, … issued one at a time, pipelined, or from
    inside callbacks), eventual-queue turns and Boss-side calls, not yet closed, whose Boss side is what a C02 run
    hands over.  Then the j-th `get_message()` Deferred has exactly one firing scheduled, with the j-th plaintext
    `W_received` handed over — i.e. (`phase_at_most_once`, `delivered_was_sealed`) the plaintext sealed for phase `j`
    — and every `get_versions()` Deferred exactly one, with the version plaintext `process_version` handed on. -/
theorem deferred_api_hands_over_the_sealed_phases (C : Crypto) (cfg : Cfg) (evs : List Ev)
    (ops : List WV.Observer.Op) (hnc : ∀ o ∈ ops, o.isClosed = false)
    (hrecv : WV.Observer.receivedOf ops = (recvPts (run C cfg {} evs).app).map encNat)
    (hver : WV.Observer.firstGot .versions ops = ((verPts (run C cfg {} evs).app).head?).map encNat) :
    (∀ (j d : Nat) (pt : Bytes), (WV.Observer.msgIds (WV.Props.C18obs.after ops).regs)[j]? = some d →
        (recvPts (run C cfg {} evs).app)[j]? = some pt →
        WV.Observer.outcomes (WV.Props.C18obs.after ops) d = [⟨d, .val (encNat pt)⟩]) ∧
    (∀ (d : Nat) (reg : WV.Observer.Reg) (pt : Bytes), (WV.Props.C18obs.after ops).regs[d]? = some reg → reg.kind = .os .versions →
        (verPts (run C cfg {} evs).app).head? = some pt →
        WV.Observer.outcomes (WV.Props.C18obs.after ops) d = [⟨d, .val (encNat pt)⟩]) := by
  constructor
  · intro j d pt hd hpt
    have h := (WV.Props.C18obs.observer_fifo ops hnc).1
    apply h (d, encNat pt)
    rw [hrecv]
    apply List.mem_of_getElem?
    show ((WV.Observer.msgIds (WV.Props.C18obs.after ops).regs).zip ((recvPts (run C cfg {} evs).app).map encNat))[j]? = some (d, encNat pt)
    rw [List.getElem?_zip_eq_some]
    exact ⟨hd, by rw [List.getElem?_map, hpt]; rfl⟩
  · intro d reg pt hreg hk hpt
    have h := WV.Props.C18obs.oneshot_first_value ops hnc .versions d reg hreg hk
    rw [hver, hpt] at h
    exact h

end WV.Props.C02
