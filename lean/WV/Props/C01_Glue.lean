import WV.Gen.Flags

/-!
C01 — the glue around the key agreement is transparent.

The model `WV.C01` takes a client's `appid` as the string the application gave to
`wormhole.create()`, feeds `(to_bytes(code), to_bytes(appid))` to SPAKE2, and takes the bodies handed
to `Order.got_message` to be the bodies the server sent.  These are facts about code outside the six
modelled machines, extracted from the working tree by `tools/extract.py`:

* `create()` never rebinds `appid` and passes it bare to `Boss`; `Boss._appid` has no converter and is
  what `Key`, `_SortedKey` and `RendezvousConnector` are built with;
* `_SortedKey.build_pake` calls `SPAKE2_Symmetric(to_bytes(code), idSymmetric=to_bytes(self._appid))`;
* the timing recorder (`timing.Event`, `DebugTiming.add`), which `RendezvousConnector.ws_message`
  hands the live decoded server message before dispatching it, only stores what it is given.
-/
namespace WV.Props.C01
open WV.Gen

/-- **glue_is_transparent** -/
theorem glue_is_transparent :
    Flags.create_passes_appid_unchanged = true ∧ Flags.pake_fed_to_bytes_code_and_appid = true ∧
    Flags.timing_only_records = true := by decide

end WV.Props.C01
