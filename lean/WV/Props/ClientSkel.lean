import WV.Model.Client
import WV.Gen.Skel
import WV.Gen.Asserts
import WV.Gen.Flags

/-!
# Skeleton agreement for the composed mailbox client (obligation of C08, C09, C14, C18)

For every output method that occurs in a row of the thirteen generated tables, the ordered list of
collaborator calls (`self._X.meth(...)`) that the hand-written semantics `Client.exec` performs equals
the list extracted by `ast` from the method body in the working tree (`Gen.Skel.skeleton`, helper
methods `self._helper()` inlined one level).  Dropping, adding or re-ordering a collaborator call in any
of these bodies changes the right-hand side and this theorem stops checking.
-/
namespace WV.Props.ClientSkel
open WV.Client WV.Gen

/-- `_X.meth` with an upper-case machine letter: a call on a wired collaborator -/
def isCollab (c : String) : Bool :=
  match c.toList with
  | '_' :: x :: _ => x.isUpper && !(c.startsWith "_D.")     -- the Dilator is a stub in this world
  | _ => false

def dropSelf (c : String) : String := String.ofList (c.toList.drop 5)

/-- generated side: callee names of `cls.meth`, `self.helper` calls inlined one level, collaborators only -/
def genCalls (cls meth : String) : List String :=
  ((Skel.skeleton (cls ++ "." ++ meth)).flatMap fun (_, c) =>
      if c.startsWith "self." then (Skel.skeleton (cls ++ "." ++ dropSelf c)).map (·.2) else [c]).filter isCollab

def cmdName : Cmd → String
  | .bind => "bind" | .claim => "claim" | .release => "release" | .open_ => "open" | .add _ => "add"
  | .close _ => "close" | .list => "list" | .allocate => "allocate"

def evName : AppEv → String
  | .welcome => "got_welcome" | .code => "got_code" | .key => "got_key" | .verifier => "got_verifier"
  | .versions => "got_versions" | .received => "received" | .closed _ => "closed"

/-- the collaborator call an agenda item stands for (`none`: internal continuation, expanded further) -/
def itemName : Item → Option String
  | .B i => some ("_B." ++ i.name) | .N i => some ("_N." ++ i.name) | .M i => some ("_M." ++ i.name)
  | .T i => some ("_T." ++ i.name) | .C i => some ("_C." ++ i.name) | .A i => some ("_A." ++ i.name)
  | .L i => some ("_L." ++ i.name) | .I i => some ("_I." ++ i.name) | .K i => some ("_K." ++ i.name)
  | .SK i => some ("_SK." ++ i.name) | .O i => some ("_O." ++ i.name) | .R i => some ("_R." ++ i.name)
  | .S i => some ("_S." ++ i.name)
  | .tx c => some ("_RC.tx_" ++ cmdName c)
  | .rcStop => some "_RC.stop"
  | .dStop => some "_D.stop"
  | .w e => some ("_W." ++ evName e)
  | .setNameplate => some "_N.set_nameplate"
  | .skGotPake => some "_SK.got_pake"
  | .orderGot => some "_O.got_message"
  | .receiveGot => some "_R.got_message"
  | .bossGotMessage => some "_B.got_message"
  | .drainPending => some "_RC.tx_add"
  | _ => none

/-- a state in which every guard of an output body takes its calling branch -/
def permissive : RunSt :=
  { ctl := { wsOpen := true, haveNameplate := true, haveMailbox := true, mood := some .happy, rKey := true, sKey := true,
             sendQ := true, orderQ := [(.version, true)], spStarted := true } }

/-- model side: the calls an item performs, internal continuations expanded (two levels suffice) -/
def callsOf : Nat → Item → Arg → List String
  | 0, _, _ => []
  | fuel + 1, it, a =>
    match exec permissive it a with
    | .cont _ push => push.flatMap fun (it', a') =>
        match itemName it' with
        | some n => [n]
        | none => callsOf fuel it' a'
    | .fail _ _ => []

/-- the argument classes under which an output body takes different branches: an element SPAKE2 rejects
    (`except` branch of `compute_key`, which comes first in the source), then the ordinary one -/
def argVariants : List Arg := [{ pake := .invalid }, {}]

def modelCalls (it : Item) : List String :=
  let ls := (argVariants.map fun a => (callsOf 3 it a).filter isCollab).eraseDups
  ls.flatten

def outputsOf {σ ι ω : Type} [DecidableEq ω] (states : List σ) (inputs : List ι)
    (table : σ → ι → Option (σ × List ω)) : List ω :=
  (states.flatMap fun s => inputs.flatMap fun i => match table s i with | some (_, os) => os | none => []).eraseDups

/-- every (class name, output name, agenda item) of the thirteen machines -/
def allOutputs : List (String × String × Item) :=
  (outputsOf Boss.State.all Boss.Input.all Boss.table).map (fun o => ("Boss", o.name, Item.oB o)) ++
  (outputsOf Nameplate.State.all Nameplate.Input.all Nameplate.table).map (fun o => ("Nameplate", o.name, Item.oN o)) ++
  (outputsOf Mailbox.State.all Mailbox.Input.all Mailbox.table).map (fun o => ("Mailbox", o.name, Item.oM o)) ++
  (outputsOf Terminator.State.all Terminator.Input.all Terminator.table).map (fun o => ("Terminator", o.name, Item.oT o)) ++
  (outputsOf Code.State.all Code.Input.all Code.table).map (fun o => ("Code", o.name, Item.oC o)) ++
  (outputsOf Allocator.State.all Allocator.Input.all Allocator.table).map (fun o => ("Allocator", o.name, Item.oA o)) ++
  (outputsOf Lister.State.all Lister.Input.all Lister.table).map (fun o => ("Lister", o.name, Item.oL o)) ++
  (outputsOf Input.State.all Input.Input.all Input.table).map (fun o => ("Input", o.name, Item.oI o)) ++
  (outputsOf Key.State.all Key.Input.all Key.table).map (fun o => ("Key", o.name, Item.oK o)) ++
  (outputsOf SortedKey.State.all SortedKey.Input.all SortedKey.table).map (fun o => ("_SortedKey", o.name, Item.oSK o)) ++
  (outputsOf Order.State.all Order.Input.all Order.table).map (fun o => ("Order", o.name, Item.oO o)) ++
  (outputsOf Receive.State.all Receive.Input.all Receive.table).map (fun o => ("Receive", o.name, Item.oR o)) ++
  (outputsOf Send.State.all Send.Input.all Send.table).map (fun o => ("Send", o.name, Item.oS o))

def disagreements : List (String × String × List String × List String) :=
  allOutputs.filterMap fun (cls, nm, it) =>
    let m := modelCalls it
    let g := genCalls cls nm
    if m = g then none else some (cls, nm, m, g)

/-- **skeleton_agrees** -/
theorem skeleton_agrees : disagreements = [] := by decide +kernel

/-- the plain (non-Automat) entry points the model also mirrors -/
theorem glue_skeletons :
    genCalls "Mailbox" "rx_message" = [] ∧          -- dispatches to its own inputs only
    genCalls "Order" "got_message" = [] ∧
    genCalls "Boss" "set_code" = ["_C.set_code"] ∧
    genCalls "Boss" "allocate_code" = ["_C.allocate_code"] ∧
    genCalls "Boss" "input_code" = ["_C.input_code"] ∧
    genCalls "Boss" "rx_welcome" = ["_W.got_welcome"] ∧
    genCalls "Nameplate" "set_nameplate" = [] ∧
    (Skel.skeleton "RendezvousConnector.ws_open").map (·.2) =
      ["Connected", "self._evolve_status", "self._tx", "_N.connected", "_M.connected", "_L.connected",
       "_A.connected", "_B.error"] ∧
    ((Skel.skeleton "RendezvousConnector.ws_close").map (·.2)).filter isCollab =
      ["_N.lost", "_M.lost", "_L.lost", "_A.lost"] := by decide +kernel

/-- **asserts_accounted** — C14 says "no assertion fires".  These are all the `assert` statements of the thirteen
    modules whose test depends on state (the other `Asserts.typeAsserts` are `isinstance` checks on arguments that the
    machines pass to each other).  Each is either mirrored by the model as a possible failure, so that the
    certificate proves it cannot fire, or cannot depend on the environment:

    * `Nameplate.RC_tx_release: self._nameplate`, `Mailbox.RC_tx_open: self._mailbox`, `Mailbox.RC_tx_close: self._mood`,
      `Receive.S_got_verified_key: self._key`, `Send._encrypt_and_send: self._key`, `RendezvousConnector._tx: self._ws`
      — mirrored (`Exn.assertion` / `Exn.attribute` in `Client.exec`);
    * `Input._get_word_completions: self._wordlist` — set by `record_wordlist` on the only way into the state (comment in `exec`);
    * `Code.do_finish_allocate: code.startswith(nameplate + '-')` — data produced by the Allocator itself (C19);
    * `Helper.*: threading…ident == self._main_thread` — single-threaded harness and model (blockingCallFromThread is C19's front end);
    * `decrypt_data / encrypt_data: len(key) == KEY_SIZE` — keys come from `derive_phase_key` (fixed length, C01);
    * `WSClient.onMessage: not isBinary` — the server sends text frames (conformant server).

    A new, changed or removed state-dependent assertion changes the generated list and this stops checking. -/
theorem asserts_accounted :
    Asserts.stateAsserts =
      ["_nameplate.py:Nameplate.RC_tx_release: self._nameplate",
       "_mailbox.py:Mailbox.RC_tx_open: self._mailbox",
       "_mailbox.py:Mailbox.RC_tx_close: self._mood",
       "_code.py:Code.do_finish_allocate: code.startswith(nameplate + '-')",
       "_input.py:Input._get_word_completions: self._wordlist",
       "_input.py:Helper.refresh_nameplates: threading.current_thread().ident == self._main_thread",
       "_input.py:Helper.get_nameplate_completions: threading.current_thread().ident == self._main_thread",
       "_input.py:Helper.choose_nameplate: threading.current_thread().ident == self._main_thread",
       "_input.py:Helper.when_wordlist_is_available: threading.current_thread().ident == self._main_thread",
       "_input.py:Helper.get_word_completions: threading.current_thread().ident == self._main_thread",
       "_input.py:Helper.choose_words: threading.current_thread().ident == self._main_thread",
       "_key.py:decrypt_data: len(key) == SecretBox.KEY_SIZE",
       "_key.py:encrypt_data: len(key) == SecretBox.KEY_SIZE",
       "_receive.py:Receive.S_got_verified_key: self._key",
       "_send.py:Send._encrypt_and_send: self._key",
       "_rendezvous.py:WSClient.onMessage: not isBinary",
       "_rendezvous.py:RendezvousConnector._tx: self._ws"] := by decide

/-- **service_is_plain_clientservice** — the environment's "a connection can come up whenever none exists and the
    service was not stopped" is Twisted's `ClientService` with its default retry policy; the harness substitutes the class,
    so the construction itself is pinned: `internet.ClientService(ep, f)`, no `retryPolicy`, no other keyword. -/
theorem service_is_plain_clientservice : Flags.clientservice_plain_constructor = true := by decide

end WV.Props.ClientSkel
