import WV.Proofs.PyIRObs

set_option linter.unusedSimpArgs false
set_option linter.unusedVariables false

/-!
Translation validation of the application-facing latches, C18 part (the Deferred façade's observers): for every
method of `OneShotObserver`, `SequenceObserver`, `EventualQueue` (as far as it is in the subset) and of the two
façades `_DeferredWormhole` / `_DelegatedWormhole`, the PyIR interpreter run on the body that
`tools/extract.py::extract_pyir_obs` generated from the working tree (`WV.Gen.PyIRObs`) agrees with the hand-written
model `WV.Observer` that C18's `each_deferred_fires_at_most_once` / `after_closed_all_fail` / `observer_fifo` /
`eventual_fifo` are proved about: final state (through the `Rel…` heap relations), the ordered list of calls handed
to the eventual queue / to the observers with their arguments (including WHICH bound method, `callback` or
`errback`, is scheduled), the returned Deferred, and the exception.  Every amount of fuel above the stated
constant; the loops (`for d in observers`) for every number of waiting Deferreds.
-/
namespace WV.Props.PyIRObsC18
open WV WV.PyIR WV.Gen.PyIRObs WV.Proofs.PyIRC03 WV.Proofs.PyIRObs

/-- every method of the target list that could not be expressed in the IR: the eventual queue's
    `flush_sync` (`self._clock.advance` as a value) and `flush` (a lambda); both are for unit tests only.  A rewrite of a covered method that
    leaves the subset makes it appear here and breaks this theorem. -/
theorem all_translated : WV.Gen.PyIRObs.untranslatable.map (·.1) =
    ["EventualQueue.flush", "EventualQueue.flush_sync"] := by decide

/-- the translated methods (the target list of `extract_pyir_obs` minus the three above) -/
theorem translated_pin : WV.Gen.PyIRObs.translated =
    ["OneShotObserver._maybe_call_observers", "OneShotObserver.error", "OneShotObserver.fire",
     "OneShotObserver.fire_if_not_fired", "OneShotObserver.when_fired", "SequenceObserver.fire",
     "SequenceObserver.when_next_event", "EventualQueue._turn", "EventualQueue.eventually", "EventualQueue.fire_eventually",
     "_DeferredWormhole.close", "_DeferredWormhole.closed", "_DeferredWormhole.get_code",
     "_DeferredWormhole.get_message", "_DeferredWormhole.get_unverified_key", "_DeferredWormhole.get_verifier",
     "_DeferredWormhole.get_versions", "_DeferredWormhole.get_welcome", "_DeferredWormhole.got_code",
     "_DeferredWormhole.got_key", "_DeferredWormhole.got_verifier", "_DeferredWormhole.got_versions",
     "_DeferredWormhole.got_welcome", "_DeferredWormhole.received", "_DelegatedWormhole.close",
     "_DelegatedWormhole.closed", "_DelegatedWormhole.got_code", "_DelegatedWormhole.got_key",
     "_DelegatedWormhole.got_verifier", "_DelegatedWormhole.got_versions", "_DelegatedWormhole.got_welcome",
     "_DelegatedWormhole.received"] := by decide

/-- the step obligation of `forLoop_calls`: one iteration schedules one call, for any element -/
macro "obs_step" "[" ts:Lean.Parser.Tactic.simpLemma,* "]" : tactic =>
  `(tactic| (intro v _ L cs; obs_eval [patLocals, gEv, bm, encResult, encErr, $ts,*]))

macro "os_rel" i:ident : tactic =>
  `(tactic| (refine ⟨?_, ?_, ⟨$i, ?_⟩, ?_⟩ <;> simp [get_set, encResult, noResult, dfr, *]))

/-! ## OneShotObserver -/

/-- `_maybe_call_observers()` = `OneShot.maybeCallObservers`: nothing while `_result is NoResult`; otherwise the
    observer list is emptied and every waiting Deferred, in order, gets `eventually(d.callback, result)` -/
theorem oneshot_maybe_call_observers (rets : Nat → Val) (fuel : Nat) (h : Store) (o : Observer.OneShot) (n : Nat)
    (R : RelOS h o n) (q : Observer.EQ) :
    AgreeOS (exec (fuel + 1) (envO rets) tbl_OneShotObserver "_maybe_call_observers" [] h) n "callback" q
      (schedOf o.result o.observers) (o.maybeCallObservers q) := by
  obtain ⟨hres, hobs, ⟨i, heq⟩, hn⟩ := R
  cases hr : o.result with
  | none =>
    rw [hr] at hres
    obs_eval [tbl_OneShotObserver, m_OneShotObserver__maybe_call_observers, hres, hobs, heq, hn, encResult, noResult,
      AgreeOS, envO, schedOf, Observer.OneShot.maybeCallObservers, hr]
    exact ⟨by simpa [hr, encResult, noResult] using hres, hobs, ⟨i, heq⟩, hn⟩
  | some r =>
    rw [hr] at hres
    obs_eval [tbl_OneShotObserver, m_OneShotObserver__maybe_call_observers, hres, hobs, heq, hn, encResult, noResult,
      AgreeOS, envO, schedOf, Observer.OneShot.maybeCallObservers, hr, encRes_not_noResult]
    rw [forLoop_calls _ (gEv "callback" (encRes r))]
    · simp [gEv, evCall, Function.comp_def, scheduleAll_foldl]
      os_rel i
    · obs_step [heq, hres]

/-- `when_fired()` = `OneShot.whenFired`: allocates the next Deferred `n`, returns it; it waits, or — when a result
    is latched — it is scheduled at once (after any Deferred still waiting) -/
theorem oneshot_when_fired (rets : Nat → Val) (fuel : Nat) (h : Store) (o : Observer.OneShot) (n : Nat)
    (R : RelOS h o n) (q : Observer.EQ) :
    let out := exec (fuel + 2) (envO rets) tbl_OneShotObserver "when_fired" [] h
    AgreeOS out (n + 1) "callback" q (schedOf o.result (o.observers ++ [n])) (o.whenFired n q) ∧ out.ret = dfr n := by
  obtain ⟨hres, hobs, ⟨i, heq⟩, hn⟩ := R
  cases hr : o.result with
  | none =>
    rw [hr] at hres
    obs_eval [tbl_OneShotObserver, m_OneShotObserver_when_fired, m_OneShotObserver__maybe_call_observers, hres, hobs,
      heq, hn, encResult, noResult, AgreeOS, envO, schedOf, Observer.OneShot.maybeCallObservers,
      Observer.OneShot.whenFired, hr]
    refine ⟨?_, rfl⟩
    os_rel i
  | some r =>
    rw [hr] at hres
    obs_eval [tbl_OneShotObserver, m_OneShotObserver_when_fired, m_OneShotObserver__maybe_call_observers, hres, hobs,
      heq, hn, encResult, noResult, AgreeOS, envO, schedOf, Observer.OneShot.maybeCallObservers,
      Observer.OneShot.whenFired, hr, encRes_not_noResult]
    rw [forLoop_calls _ (gEv "callback" (encRes r))]
    · obs_eval [gEv, evCall, Function.comp_def, scheduleAll_foldl, bm]
      refine ⟨?_, rfl⟩
      os_rel i
    · obs_step [heq, hres]

/-- `fire(result)` on an observer that has not fired = `OneShot.fire`: the result is latched, every waiting Deferred
    is scheduled with it, in order -/
theorem oneshot_fire (rets : Nat → Val) (fuel : Nat) (h : Store) (o : Observer.OneShot) (n : Nat)
    (R : RelOS h o n) (q : Observer.EQ) (r : Observer.Res) (hnone : o.result = none) :
    AgreeOS (exec (fuel + 2) (envO rets) tbl_OneShotObserver "fire" [encRes r] h) n "callback" q
      (o.observers.map fun d => ⟨d, r⟩) (o.fire r hnone q) := by
  obtain ⟨hres, hobs, ⟨i, heq⟩, hn⟩ := R
  rw [hnone] at hres
  obs_eval [tbl_OneShotObserver, m_OneShotObserver_fire, m_OneShotObserver__maybe_call_observers, hres, hobs,
    heq, hn, encResult, noResult, AgreeOS, envO, Observer.OneShot.maybeCallObservers,
    Observer.OneShot.fire, hnone, encRes_not_noResult]
  rw [forLoop_calls _ (gEv "callback" (encRes r))]
  · simp [gEv, evCall, Function.comp_def, scheduleAll_foldl]
    os_rel i
  · obs_step [heq, hres]

/-- `fire` on an observer that HAS fired: `AssertionError`, nothing changed, nothing scheduled (the model's `fire`
    has the precondition `result = none`) -/
theorem oneshot_fire_refuses_second (rets : Nat → Val) (fuel : Nat) (h : Store) (o : Observer.OneShot) (n : Nat)
    (R : RelOS h o n) (r r0 : Observer.Res) (hsome : o.result = some r0) :
    let out := exec (fuel + 2) (envO rets) tbl_OneShotObserver "fire" [encRes r] h
    out.heap = h ∧ out.calls = [] ∧ out.exc = some "AssertionError" := by
  obtain ⟨hres, hobs, ⟨i, heq⟩, hn⟩ := R
  rw [hsome] at hres
  obs_eval [tbl_OneShotObserver, m_OneShotObserver_fire, hres, encResult, envO, encRes_not_noResult]

/-- `error(f)` with a `Failure` = `OneShot.error`: overrides whatever was latched, schedules every waiting Deferred -/
theorem oneshot_error (rets : Nat → Val) (fuel : Nat) (h : Store) (o : Observer.OneShot) (n : Nat)
    (R : RelOS h o n) (q : Observer.EQ) (f : Observer.Res) (hf : f.isFailure = true) :
    AgreeOS (exec (fuel + 2) (envO rets) tbl_OneShotObserver "error" [encRes f] h) n "callback" q
      (o.observers.map fun d => ⟨d, f⟩) (o.error f hf q) := by
  obtain ⟨hres, hobs, ⟨i, heq⟩, hn⟩ := R
  obs_eval [tbl_OneShotObserver, m_OneShotObserver_error, m_OneShotObserver__maybe_call_observers, hres, hobs,
    heq, hn, encResult, noResult, AgreeOS, envO, Observer.OneShot.maybeCallObservers,
    Observer.OneShot.error, encRes_not_noResult, encRes_isFailure, hf]
  rw [forLoop_calls _ (gEv "callback" (encRes f))]
  · simp [gEv, evCall, Function.comp_def, scheduleAll_foldl]
    os_rel i
  · obs_step [heq, hres]

/-- `error(x)` with something that is not a `Failure`: `AssertionError`, nothing changed -/
theorem oneshot_error_refuses_value (rets : Nat → Val) (fuel : Nat) (h : Store) (v : Nat) :
    let out := exec (fuel + 2) (envO rets) tbl_OneShotObserver "error" [encRes (.val v)] h
    out.heap = h ∧ out.calls = [] ∧ out.exc = some "AssertionError" := by
  obs_eval [tbl_OneShotObserver, m_OneShotObserver_error, envO, encRes]

/-- `fire_if_not_fired(result)` = `OneShot.fireIfNotFired`: the FIRST value stays latched -/
theorem oneshot_fire_if_not_fired (rets : Nat → Val) (fuel : Nat) (h : Store) (o : Observer.OneShot) (n : Nat)
    (R : RelOS h o n) (q : Observer.EQ) (r : Observer.Res) :
    AgreeOS (exec (fuel + 3) (envO rets) tbl_OneShotObserver "fire_if_not_fired" [encRes r] h) n "callback" q
      (match o.result with | none => o.observers.map fun d => ⟨d, r⟩ | some _ => []) (o.fireIfNotFired r q) := by
  obtain ⟨hres, hobs, ⟨i, heq⟩, hn⟩ := R
  cases hr : o.result with
  | none =>
    rw [hr] at hres
    obs_eval [tbl_OneShotObserver, m_OneShotObserver_fire_if_not_fired, m_OneShotObserver_fire,
      m_OneShotObserver__maybe_call_observers, hres, hobs,
      heq, hn, encResult, noResult, AgreeOS, envO, Observer.OneShot.maybeCallObservers,
      Observer.OneShot.fire, Observer.OneShot.fireIfNotFired, hr, encRes_not_noResult]
    rw [forLoop_calls _ (gEv "callback" (encRes r))]
    · simp [gEv, evCall, Function.comp_def, scheduleAll_foldl]
      os_rel i
    · obs_step [heq, hres]
  | some r0 =>
    rw [hr] at hres
    obs_eval [tbl_OneShotObserver, m_OneShotObserver_fire_if_not_fired, hres, encResult, AgreeOS, envO,
      Observer.OneShot.fireIfNotFired, hr, encRes_not_noResult]
    exact ⟨by simpa [hr, encResult] using hres, hobs, ⟨i, heq⟩, hn⟩

/-! ## SequenceObserver -/

macro "seq_rel" i:ident : tactic =>
  `(tactic| (refine ⟨?_, ?_, ?_, ?_, ⟨$i, ?_⟩, ?_⟩ <;> simp_all [get_set, encErr, dfr]))

/-- `when_next_event()` = `SeqObs.whenNextEvent`: a new Deferred `n` is returned; `_error` is looked at FIRST (an
    errback is scheduled even while results are queued), then the oldest queued result is popped and scheduled for
    it, else it waits at the end of `_observers` -/
theorem seq_when_next_event (rets : Nat → Val) (fuel : Nat) (h : Store) (s : Observer.SeqObs) (n : Nat)
    (R : RelSeq h s n) (q : Observer.EQ) :
    let out := exec (fuel + 1) (envO rets) tbl_SequenceObserver "when_next_event" [] h
    AgreeSeq out (n + 1) q
      (match s.error, s.results with
       | some e, _ => [("errback", ⟨n, e⟩)]
       | none, r :: _ => [("callback", ⟨n, .val r⟩)]
       | none, [] => [])
      (s.whenNextEvent n q) ∧ out.ret = dfr n := by
  obtain ⟨herr, hfail, hres, hobs, ⟨i, heq⟩, hn⟩ := R
  cases he : s.error with
  | some e =>
    rw [he] at herr
    have ht := encRes_truthy_of_failure e (hfail e he)
    obs_eval [tbl_SequenceObserver, m_SequenceObserver_when_next_event, herr, hres, hobs, heq, hn, encErr, AgreeSeq,
      envO, Observer.SeqObs.whenNextEvent, he, ht, evCallM, evCall, bm, dfr]
    seq_rel i
  | none =>
    rw [he] at herr
    cases hr : s.results with
    | nil =>
      rw [hr] at hres
      obs_eval [tbl_SequenceObserver, m_SequenceObserver_when_next_event, herr, hres, hobs, heq, hn, encErr, AgreeSeq,
        envO, Observer.SeqObs.whenNextEvent, he, hr, evCallM, evCall, bm, dfr]
      seq_rel i
    | cons r rest =>
      rw [hr] at hres
      obs_eval [tbl_SequenceObserver, m_SequenceObserver_when_next_event, herr, hres, hobs, heq, hn, encErr, AgreeSeq,
        envO, Observer.SeqObs.whenNextEvent, he, hr, evCallM, evCall, bm, dfr, encRes]
      seq_rel i

/-- `fire(value)` = `SeqObs.fire (.val v)`: the value is appended to `_results`; if a Deferred is waiting, the OLDEST
    one is popped and scheduled (`callback`) with the OLDEST queued result -/
theorem seq_fire_value (rets : Nat → Val) (fuel : Nat) (h : Store) (s : Observer.SeqObs) (n : Nat)
    (R : RelSeq h s n) (q : Observer.EQ) (v : Nat) :
    AgreeSeq (exec (fuel + 1) (envO rets) tbl_SequenceObserver "fire" [encRes (.val v)] h) n q
      (match s.observers with
       | d :: _ => [("callback", ⟨d, .val ((s.results ++ [v]).head (by simp))⟩)]
       | [] => [])
      (s.fire (.val v) q) := by
  obtain ⟨herr, hfail, hres, hobs, ⟨i, heq⟩, hn⟩ := R
  cases ho : s.observers with
  | nil =>
    rw [ho] at hobs
    obs_eval [tbl_SequenceObserver, m_SequenceObserver_fire, herr, hres, hobs, heq, hn, AgreeSeq,
      envO, Observer.SeqObs.fire, ho, evCallM, evCall, bm, encRes]
    seq_rel i
  | cons d ds =>
    rw [ho] at hobs
    cases hr : s.results with
    | nil =>
      rw [hr] at hres
      obs_eval [tbl_SequenceObserver, m_SequenceObserver_fire, herr, hres, hobs, heq, hn, AgreeSeq,
        envO, Observer.SeqObs.fire, ho, hr, evCallM, evCall, bm, encRes, dfr]
      seq_rel i
    | cons r rest =>
      rw [hr] at hres
      obs_eval [tbl_SequenceObserver, m_SequenceObserver_fire, herr, hres, hobs, heq, hn, AgreeSeq,
        envO, Observer.SeqObs.fire, ho, hr, evCallM, evCall, bm, encRes, dfr]
      seq_rel i

/-- `fire(f)` with a `Failure` = `SeqObs.fire f`: the error is latched, EVERY waiting Deferred gets
    `eventually(d.errback, f)` in order (all lengths), `_observers` is emptied; queued results stay -/
theorem seq_fire_failure (rets : Nat → Val) (fuel : Nat) (h : Store) (s : Observer.SeqObs) (n : Nat)
    (R : RelSeq h s n) (q : Observer.EQ) (f : Observer.Res) (hf : f.isFailure = true) :
    AgreeSeq (exec (fuel + 1) (envO rets) tbl_SequenceObserver "fire" [encRes f] h) n q
      (s.observers.map fun d => ("errback", ⟨d, f⟩)) (s.fire f q) := by
  obtain ⟨herr, hfail, hres, hobs, ⟨i, heq⟩, hn⟩ := R
  have hmodel : s.fire f q = ({ s with error := some f, observers := [] }, Observer.scheduleAll f s.observers q) := by
    cases f <;> simp_all [Observer.SeqObs.fire, Observer.Res.isFailure]
  obs_eval [tbl_SequenceObserver, m_SequenceObserver_fire, herr, hres, hobs, heq, hn, AgreeSeq,
    envO, hmodel, encRes_isFailure, hf]
  rw [forLoop_calls _ (gEv "errback" (encRes f))]
  · obs_eval [gEv, evCallM, evCall, Function.comp_def, scheduleAll_foldl, bm]
    seq_rel i
  · obs_step [heq]

/-! ## _DeferredWormhole: each façade method is exactly the model's sequence of observer calls -/

def getName : Observer.Ev → String
  | .welcome => "get_welcome" | .code => "get_code" | .key => "get_unverified_key"
  | .verifier => "get_verifier" | .versions => "get_versions"

def gotName : Observer.Ev → String
  | .welcome => "got_welcome" | .code => "got_code" | .key => "got_key"
  | .verifier => "got_verifier" | .versions => "got_versions"

set_option hygiene false in
macro "w_open" R:ident : tactic =>
  `(tactic| (obtain ⟨hclosed, hos, ⟨ir, hrecv⟩, ⟨ib, hboss⟩⟩ := $R
             obtain ⟨i1, h1⟩ := hos .welcome; obtain ⟨i2, h2⟩ := hos .code; obtain ⟨i3, h3⟩ := hos .key
             obtain ⟨i4, h4⟩ := hos .verifier; obtain ⟨i5, h5⟩ := hos .versions; obtain ⟨i6, h6⟩ := hos .closed
             simp only [osAttr] at h1 h2 h3 h4 h5 h6))

/-- `get_welcome/get_code/get_unverified_key/get_verifier/get_versions()`: exactly `when_fired()` on THAT event's
    observer; its Deferred is returned; = `W.call (.os e.os)` -/
theorem deferred_get (e : Observer.Ev) (rets : Nat → Val) (fuel : Nat) (h : Store) (w : Observer.W) (R : RelW h w)
    (react : List Observer.Kind) :
    let out := exec (fuel + 1) (envO rets) tbl_DeferredWormhole (getName e) [] h
    out.calls = [encO (.whenFired e.os)] ∧ out.ret = rets 0 ∧ out.heap = h ∧ out.exc = none ∧
      w.call (.os e.os) react = applyOs w.regs.length (register w (.os e.os) react) [.whenFired e.os] := by
  w_open R
  cases e <;>
    obs_eval [tbl_DeferredWormhole, getName, m_DeferredWormhole_get_welcome, m_DeferredWormhole_get_code,
      m_DeferredWormhole_get_unverified_key, m_DeferredWormhole_get_verifier, m_DeferredWormhole_get_versions,
      h1, h2, h3, h4, h5, envO, encO, osAttr, Observer.Ev.os, Observer.W.call, applyOs, applyO, register]

/-- `get_message()`: exactly `when_next_event()` on the sequence observer = `W.call .message` -/
theorem deferred_get_message (rets : Nat → Val) (fuel : Nat) (h : Store) (w : Observer.W) (R : RelW h w)
    (react : List Observer.Kind) :
    let out := exec (fuel + 1) (envO rets) tbl_DeferredWormhole "get_message" [] h
    out.calls = [encO .whenNextEvent] ∧ out.ret = rets 0 ∧ out.heap = h ∧ out.exc = none ∧
      w.call .message react = applyOs w.regs.length (register w .message react) [.whenNextEvent] := by
  w_open R
  obs_eval [tbl_DeferredWormhole, m_DeferredWormhole_get_message, hrecv, envO, encO, Observer.W.call, applyOs,
    applyO, register]

/-- `close()`: `when_fired()` on the closed observer FIRST, then `self._boss.close()` only if `closed` has not
    arrived; the observer's Deferred is returned; = `W.call (.os .closed)` -/
theorem deferred_close (rets : Nat → Val) (fuel : Nat) (h : Store) (w : Observer.W) (R : RelW h w)
    (react : List Observer.Kind) :
    let out := exec (fuel + 1) (envO rets) tbl_DeferredWormhole "close" [] h
    let cs := [OCall.whenFired .closed] ++ (if w.closed then [] else [OCall.bossClose])
    out.calls = cs.map encO ∧ out.ret = rets 0 ∧ out.heap = h ∧ out.exc = none ∧
      w.call (.os .closed) react = applyOs w.regs.length (register w (.os .closed) react) cs := by
  w_open R
  cases hc : w.closed <;>
    obs_eval [tbl_DeferredWormhole, m_DeferredWormhole_close, h6, hboss, hclosed, hc, envO, encO, osAttr,
      Observer.W.call, applyOs, applyO, register, Observer.W.setOS]

/-- `got_welcome/got_code/got_key/got_verifier/got_versions(v)`: exactly `fire_if_not_fired(v)` on THAT event's
    observer (`got_key` also stores `_key`); = `W.got` -/
theorem deferred_got (e : Observer.Ev) (rets : Nat → Val) (fuel : Nat) (h : Store) (w : Observer.W) (R : RelW h w)
    (v : Nat) :
    let out := exec (fuel + 1) (envO rets) tbl_DeferredWormhole (gotName e) [encRes (.val v)] h
    out.calls = [encO (.fireIfNotFired e.os (.val v))] ∧ RelW out.heap (w.got e v) ∧
      (e ≠ .key → out.heap = h) ∧ (e = .key → out.heap.get "_key" = some (.int v)) ∧ out.exc = none ∧
      w.got e v = applyOs 0 w [.fireIfNotFired e.os (.val v)] := by
  have R' := R
  w_open R
  cases e <;>
    obs_eval [tbl_DeferredWormhole, gotName, m_DeferredWormhole_got_welcome, m_DeferredWormhole_got_code,
      m_DeferredWormhole_got_key, m_DeferredWormhole_got_verifier, m_DeferredWormhole_got_versions,
      h1, h2, h3, h4, h5, envO, encO, osAttr, Observer.Ev.os, Observer.W.got, applyOs, applyO, encRes]
  all_goals first
    | exact ⟨R'.closed, R'.os, R'.recv, R'.boss⟩
    | (refine ⟨?_, ?_, R'.recv.imp fun _ hh => by simpa [get_set] using hh, R'.boss.imp fun _ hh => by simpa [get_set] using hh⟩
       · simpa [get_set, Observer.W.setOS] using R'.closed
       · intro o; obtain ⟨i, hi⟩ := R'.os o; exact ⟨i, by cases o <;> simpa [get_set, osAttr] using hi⟩)

/-- `received(v)`: exactly `fire(v)` on the sequence observer = `W.recv` -/
theorem deferred_received (rets : Nat → Val) (fuel : Nat) (h : Store) (w : Observer.W) (R : RelW h w) (v : Nat) :
    let out := exec (fuel + 1) (envO rets) tbl_DeferredWormhole "received" [encRes (.val v)] h
    out.calls = [encO (.recvFire (.val v))] ∧ out.heap = h ∧ out.exc = none ∧
      w.recv v = applyOs 0 w [.recvFire (.val v)] := by
  w_open R
  obs_eval [tbl_DeferredWormhole, m_DeferredWormhole_received, hrecv, envO, encO, Observer.W.recv, applyOs, applyO,
    encRes]

/-- the observer calls of `closed(result)` with a non-exception result -/
def closedOkCalls (r : Nat) : List OCall :=
  [.fireIfNotFired .closed (.val r), .error .welcome (.wclosed r), .error .code (.wclosed r),
   .error .key (.wclosed r), .error .verifier (.wclosed r), .error .versions (.wclosed r), .recvFire (.wclosed r)]

/-- the observer calls of `closed(result)` with an exception -/
def closedExcCalls (e : Nat) : List OCall :=
  [.error .closed (.exc e), .error .welcome (.exc e), .error .code (.exc e),
   .error .key (.exc e), .error .verifier (.exc e), .error .versions (.exc e), .recvFire (.exc e)]

/-- `closed(result)`, result not an exception (e.g. "happy") = `W.closedOk`: `_closed` is set; the closed observer
    gets `fire_if_not_fired(result)`; the five event observers get `error(Failure(WormholeClosed(result)))` in the
    order welcome, code, key, verifier, versions; then the sequence observer gets `fire(` the same Failure `)` -/
theorem deferred_closed_ok (rets : Nat → Val) (fuel : Nat) (h : Store) (w : Observer.W) (R : RelW h w) (r : Nat) :
    let out := exec (fuel + 1) (envO rets) tbl_DeferredWormhole "closed" [encRes (.val r)] h
    out.calls = (closedOkCalls r).map encO ∧ RelW out.heap (w.closedOk r) ∧ out.exc = none ∧
      w.closedOk r = applyOs 0 { w with closed := true } (closedOkCalls r) := by
  have R' := R
  w_open R
  obs_eval [tbl_DeferredWormhole, m_DeferredWormhole_closed, h1, h2, h3, h4, h5, h6, hrecv, envO, encO, osAttr,
    closedOkCalls, encRes]
  refine ⟨relW_closed R' (by simp [Observer.W.closedOk, Observer.W.closedTail, Observer.W.errorOS, Observer.W.setOS,
    Observer.W.setRecv]), ?_⟩
  simp [applyOs, applyO, Observer.W.closedOk, Observer.W.closedTail, Observer.Res.isFailure]

/-- `closed(exc)` with an exception = `W.closedExc`: everything pending, including `close()`, gets
    `Failure(exc)` through `error` -/
theorem deferred_closed_exc (rets : Nat → Val) (fuel : Nat) (h : Store) (w : Observer.W) (R : RelW h w) (e : Nat) :
    let out := exec (fuel + 1) (envO rets) tbl_DeferredWormhole "closed" [.obj "Exception" [.int e]] h
    out.calls = (closedExcCalls e).map encO ∧ RelW out.heap (w.closedExc e) ∧ out.exc = none ∧
      w.closedExc e = applyOs 0 { w with closed := true } (closedExcCalls e) := by
  have R' := R
  w_open R
  obs_eval [tbl_DeferredWormhole, m_DeferredWormhole_closed, h1, h2, h3, h4, h5, h6, hrecv, envO, encO, osAttr,
    closedExcCalls, encRes]
  refine ⟨relW_closed R' (by simp [Observer.W.closedExc, Observer.W.closedTail, Observer.W.errorOS, Observer.W.setOS,
    Observer.W.setRecv]), ?_⟩
  simp [applyOs, applyO, Observer.W.closedExc, Observer.W.closedTail, Observer.Res.isFailure]

/-- `_closed = True` is stored BEFORE the first observer is told: when that first call raises, the flag is already
    set (a normal run cannot tell the order) -/
theorem deferred_closed_sets_flag_first (rets : Nat → Val) (fuel : Nat) (h : Store) (w : Observer.W) (R : RelW h w)
    (r : Nat) (c : String) :
    let out := exec (fuel + 1) (envOR rets (fun k => if k = 0 then some c else none)) tbl_DeferredWormhole "closed"
      [encRes (.val r)] h
    out.heap.get "_closed" = some (.bool true) ∧ out.calls = [encO (.fireIfNotFired .closed (.val r))] ∧
      out.exc = some c := by
  w_open R
  obs_eval [tbl_DeferredWormhole, m_DeferredWormhole_closed, h6, envO, envOR, encO, osAttr, encRes]

/-- `close()` asks the observer BEFORE it tells the Boss: when `when_fired()` raises, the Boss has not been called -/
theorem deferred_close_observer_first (rets : Nat → Val) (fuel : Nat) (h : Store) (w : Observer.W) (R : RelW h w)
    (c : String) :
    let out := exec (fuel + 1) (envOR rets (fun k => if k = 0 then some c else none)) tbl_DeferredWormhole "close" [] h
    out.calls = [encO (.whenFired .closed)] ∧ out.exc = some c := by
  w_open R
  obs_eval [tbl_DeferredWormhole, m_DeferredWormhole_close, h6, envO, envOR, encO, osAttr]

/-! ## façade → observers: a recorded observer call, dispatched by its NAME and arguments to the observer's body -/

/-- Every call the façade records on a one-shot observer (`encO oc`: attribute, method name, arguments): running
    the body OF THAT NAME from `tbl_OneShotObserver` with those arguments on the observer's heap gives exactly the
    observer component and the queue of `applyO n w oc` — the function the façade theorems use for the model side.
    (`error` is only ever called with a `Failure`: `closedOkCalls`/`closedExcCalls`.) -/
theorem ocall_oneshot (rets : Nat → Val) (fuel : Nat) (w : Observer.W) (o : Observer.OS) (ho : Store) (n : Nat)
    (R : RelOS ho (w.os o) n) (oc : OCall)
    (htgt : oc = .whenFired o ∨ (∃ r, oc = .fireIfNotFired o r) ∨ (∃ f, oc = .error o f ∧ f.isFailure = true)) :
    let out := exec (fuel + 3) (envO rets) tbl_OneShotObserver (encO oc).meth (encO oc).args ho
    ∃ n' cs, AgreeOS out n' "callback" w.eq cs ((applyO n w oc).os o, (applyO n w oc).eq) := by
  rcases htgt with rfl | ⟨r, rfl⟩ | ⟨f, rfl, hf⟩
  · have h := (oneshot_when_fired rets (fuel + 1) ho (w.os o) n R w.eq).1
    exact ⟨n + 1, _, by simpa [applyO, Observer.W.setOS, encO] using h⟩
  · have h := oneshot_fire_if_not_fired rets fuel ho (w.os o) n R w.eq r
    exact ⟨n, _, by simpa [applyO, Observer.W.setOS, encO] using h⟩
  · have h := oneshot_error rets (fuel + 1) ho (w.os o) n R w.eq f hf
    exact ⟨n, _, by simpa [applyO, Observer.W.setOS, Observer.W.errorOS, encO, hf] using h⟩

/-- the same for the sequence observer (`when_next_event()`, `fire(x)`) -/
theorem ocall_seq (rets : Nat → Val) (fuel : Nat) (w : Observer.W) (hs : Store) (n : Nat)
    (R : RelSeq hs w.received n) (oc : OCall) (htgt : oc = .whenNextEvent ∨ ∃ r, oc = .recvFire r) :
    let out := exec (fuel + 1) (envO rets) tbl_SequenceObserver (encO oc).meth (encO oc).args hs
    ∃ n' cs, AgreeSeq out n' w.eq cs ((applyO n w oc).received, (applyO n w oc).eq) := by
  rcases htgt with rfl | ⟨r, rfl⟩
  · have h := (seq_when_next_event rets fuel hs w.received n R w.eq).1
    exact ⟨n + 1, _, by simpa [applyO, Observer.W.setRecv, encO] using h⟩
  · by_cases hf : r.isFailure = true
    · have h := seq_fire_failure rets fuel hs w.received n R w.eq r hf
      exact ⟨n, _, by simpa [applyO, Observer.W.setRecv, encO] using h⟩
    · obtain ⟨v, rfl⟩ : ∃ v, r = .val v := by
        cases r <;> simp_all [Observer.Res.isFailure]
      have h := seq_fire_value rets fuel hs w.received n R w.eq v
      exact ⟨n, _, by simpa [applyO, Observer.W.setRecv, encO] using h⟩

/-! ## EventualQueue -/

/-- `eventually(d.<m>, x)` = `EQ.eventually`: the call is appended to `_calls` (as `(f, args, kwargs)`, `*args` and
    `**kwargs` packed by the call convention); a `callLater(0, self._turn)` is requested — and its handle stored in
    `_timer` — exactly when no timer is outstanding -/
theorem eq_eventually (rets : Nat → Val) (hrets : ∀ k, (rets k).truthy = true) (fuel : Nat) (h : Store)
    (ms : List String) (q : Observer.EQ) (R : RelEQ h ms q) (m : String) (c : Observer.Call) :
    let out := exec (fuel + 1) (envO rets) tbl_EventualQueue "eventually"
      [bm (dfr c.d) m, .tuple [encRes c.res], .dict []] h
    RelEQ out.heap (ms ++ [m]) (q.eventually c) ∧ out.calls = (if q.timer then [] else [callLaterTurn]) ∧
      out.exc = none := by
  obtain ⟨hcalls, hlen, ⟨tv, htv, htt⟩, ⟨i, hclock⟩⟩ := R
  cases hq : q.timer with
  | true =>
    rw [hq] at htt
    obs_eval [tbl_EventualQueue, m_EventualQueue_eventually, hcalls, htv, htt, hclock, envO, Observer.EQ.eventually, hq]
    refine ⟨?_, ?_, ⟨tv, ?_, ?_⟩, ⟨i, ?_⟩⟩ <;> simp [get_set, List.zip_append hlen, encEntry, *]
  | false =>
    rw [hq] at htt
    obs_eval [tbl_EventualQueue, m_EventualQueue_eventually, hcalls, htv, htt, hclock, envO, Observer.EQ.eventually, hq,
      callLaterTurn, bm, selfV]
    refine ⟨?_, ?_, ⟨rets 0, ?_, ?_⟩, ⟨i, ?_⟩⟩ <;> simp [get_set, List.zip_append hlen, encEntry, bm, hrets, *]

/-- observers → queue, every length: handing a list of scheduled calls (what an `AgreeOS` / `AgreeSeq` conclusion
    lists as `out.calls`) one after the other to the body of `eventually` leaves the queue's heap related to the
    model queue `cs.foldl EQ.eventually q` — the very expression the observer theorems state for the model -/
theorem eq_eventually_all (rets : Nat → Val) (hrets : ∀ k, (rets k).truthy = true) (fuel : Nat)
    (mcs : List (String × Observer.Call)) (h : Store) (ms : List String) (q : Observer.EQ) (R : RelEQ h ms q) :
    RelEQ
      (mcs.foldl (fun h mc => (exec (fuel + 1) (envO rets) tbl_EventualQueue "eventually"
        [bm (dfr mc.2.d) mc.1, .tuple [encRes mc.2.res], .dict []] h).heap) h)
      (ms ++ mcs.map (·.1)) ((mcs.map (·.2)).foldl Observer.EQ.eventually q) := by
  induction mcs generalizing h ms q with
  | nil => simpa using R
  | cons mc rest ih =>
    have h1 := (eq_eventually rets hrets fuel h ms q R mc.1 mc.2).1
    have h2 := ih _ _ _ h1
    simpa [List.append_assoc] using h2

/-- `fire_eventually(value)`: a new Deferred `n` is allocated and returned, and `self.eventually(d.callback, value)` is
    the one call made -/
theorem eq_fire_eventually (rets : Nat → Val) (fuel : Nat) (h : Store) (n : Nat) (hn : h.get "$deferreds" = some (.int n))
    (v : Val) :
    let out := exec (fuel + 1) (envO rets) tbl_EventualQueue "fire_eventually" [v] h
    out.calls = [⟨"self", "eventually", [bm (dfr n) "callback", v]⟩] ∧ out.ret = dfr n ∧
      out.heap = h.set "$deferreds" (.int (n + 1)) ∧ out.exc = none := by
  obs_eval [tbl_EventualQueue, m_EventualQueue_fire_eventually, hn, envO, bm, dfr]

/-- `_turn()` with nothing re-entering and no failing call (the non-re-entrant case of `W.turn`): `_calls` is swapped
    for `[]` FIRST, then exactly the calls that were queued run, in queue order (every queue length), each as
    `f(*args, **kwargs)`; then `_timer = None`; nothing was added meanwhile, so no new timer, and with no `flush()`
    pending nothing else happens -/
theorem eq_turn (rets : Nat → Val) (fuel : Nat) (h : Store) (ms : List String) (q : Observer.EQ) (R : RelEQ h ms q)
    (hflush : h.get "_flush_d" = some .none) :
    let out := exec (fuel + 1) (envO rets) tbl_EventualQueue "_turn" [] h
    RelEQ out.heap [] { calls := [], timer := false } ∧
      out.calls = ((ms.zip q.calls).map encEntry).map gRun ∧ out.exc = none := by
  obtain ⟨hcalls, hlen, ⟨tv, htv, htt⟩, ⟨i, hclock⟩⟩ := R
  obs_eval [tbl_EventualQueue, m_EventualQueue__turn, hcalls, envO]
  rw [forLoop_calls _ gRun]
  · obs_eval [hflush, hclock]
    refine ⟨?_, rfl, ⟨.none, ?_, rfl⟩, ⟨i, ?_⟩⟩ <;> simp [get_set, *]
  · intro v hv L cs
    simp only [List.mem_map] at hv
    obtain ⟨e, he, rfl⟩ := hv
    obs_eval [encEntry, patLocals, gRun, bm]

/-- a queued call that raises (`AlreadyCalledError` and the like, here the class the `except Exception` clause
    names): `log.err()` is called, the exception does NOT leave `_turn`, the timer is reset all the same -/
theorem eq_turn_logs_failure (rets : Nat → Val) (fuel : Nat) (h : Store) (m : String) (c : Observer.Call)
    (R : RelEQ h [m] { calls := [c], timer := true }) (hflush : h.get "_flush_d" = some .none) :
    let out := exec (fuel + 1) (envOR rets (fun k => if k = 0 then some "Exception" else none)) tbl_EventualQueue "_turn" [] h
    out.calls = [gRun (encEntry (m, c)), ⟨"log", "err", []⟩] ∧ out.heap.get "_timer" = some .none ∧
      out.heap.get "_calls" = some (.list []) ∧ out.exc = none := by
  obtain ⟨hcalls, hlen, ⟨tv, htv, htt⟩, ⟨i, hclock⟩⟩ := R
  obs_eval [tbl_EventualQueue, m_EventualQueue__turn, hcalls, envO, envOR, encEntry, gRun, bm, hflush, hclock]

/-- re-entrancy (what `W.turn` models: a callback calls `get_*()` which schedules again): the queued call calls
    `self.eventually(f2, …)` back before it returns.  `_timer` is still set at that moment, so that nested
    `eventually` requests NO timer; the new entry is NOT run in this turn; after the loop `_timer` is reset, `_calls`
    is non-empty, and exactly one new `callLater(0, self._turn)` is requested and stored -/
theorem eq_turn_reentrant_defers (rets : Nat → Val) (hrets : ∀ k, (rets k).truthy = true) (fuel : Nat) (h : Store)
    (m m2 : String) (c c2 : Observer.Call)
    (R : RelEQ h [m] { calls := [c], timer := true }) (hflush : h.get "_flush_d" = some .none) :
    let env : Env := { envO rets with
      reenter := fun k => if k = 0 then [("eventually", [bm (dfr c2.d) m2, .tuple [encRes c2.res], .dict []])] else [] }
    let out := exec (fuel + 2) env tbl_EventualQueue "_turn" [] h
    out.calls = [gRun (encEntry (m, c)), callLaterTurn] ∧
      RelEQ out.heap [m2] { calls := [c2], timer := true } ∧ out.exc = none := by
  obtain ⟨hcalls, hlen, ⟨tv, htv, htt⟩, ⟨i, hclock⟩⟩ := R
  simp only [Bool.true_eq] at htt
  obs_eval [tbl_EventualQueue, m_EventualQueue__turn, m_EventualQueue_eventually, hcalls, envO, encEntry, gRun, bm,
    hflush, hclock, htv, htt, callLaterTurn, selfV]
  refine ⟨?_, rfl, ⟨rets 1, ?_, ?_⟩, ⟨i, ?_⟩⟩ <;> simp [get_set, encEntry, bm, hrets, *]

/-! ## _DelegatedWormhole: every Boss-facing method is exactly one call on the delegate, with the same argument -/

/-- (method, delegate method) -/
def delegated : List (String × String) :=
  [("got_welcome", "wormhole_got_welcome"), ("got_code", "wormhole_got_code"),
   ("got_verifier", "wormhole_got_verifier"), ("got_versions", "wormhole_got_versions"),
   ("received", "wormhole_got_message"), ("closed", "wormhole_closed")]

theorem delegated_pass_through (rets : Nat → Val) (fuel : Nat) (h : Store) (i : Nat)
    (hd : h.get "_delegate" = some (.ref "Delegate" i)) (v : Val) :
    ∀ p ∈ delegated,
      let out := exec (fuel + 1) (envO rets) tbl_DelegatedWormhole p.1 [v] h
      out.calls = [⟨"_delegate", p.2, [v]⟩] ∧ out.heap = h ∧ out.exc = none := by
  intro p hp
  simp only [delegated, List.mem_cons, List.mem_nil_iff, or_false] at hp
  rcases hp with rfl | rfl | rfl | rfl | rfl | rfl <;>
    obs_eval [tbl_DelegatedWormhole, m_DelegatedWormhole_got_welcome, m_DelegatedWormhole_got_code,
      m_DelegatedWormhole_got_verifier, m_DelegatedWormhole_got_versions, m_DelegatedWormhole_received,
      m_DelegatedWormhole_closed, hd, envO]

/-- `got_key(key)`: the delegate is told first, then `_key` is stored -/
theorem delegated_got_key (rets : Nat → Val) (fuel : Nat) (h : Store) (i : Nat)
    (hd : h.get "_delegate" = some (.ref "Delegate" i)) (v : Val) :
    let out := exec (fuel + 1) (envO rets) tbl_DelegatedWormhole "got_key" [v] h
    out.calls = [⟨"_delegate", "wormhole_got_unverified_key", [v]⟩] ∧ out.heap = h.set "_key" v ∧ out.exc = none := by
  obs_eval [tbl_DelegatedWormhole, m_DelegatedWormhole_got_key, hd, envO]

/-- … so when the delegate's callback raises, `_key` has NOT been stored -/
theorem delegated_got_key_delegate_first (rets : Nat → Val) (fuel : Nat) (h : Store) (i : Nat)
    (hd : h.get "_delegate" = some (.ref "Delegate" i)) (v : Val) (c : String) :
    let out := exec (fuel + 1) (envOR rets (fun k => if k = 0 then some c else none)) tbl_DelegatedWormhole "got_key" [v] h
    out.calls = [⟨"_delegate", "wormhole_got_unverified_key", [v]⟩] ∧ out.heap = h ∧ out.exc = some c := by
  obs_eval [tbl_DelegatedWormhole, m_DelegatedWormhole_got_key, hd, envO, envOR]

/-- `close()` = `self._boss.close()` -/
theorem delegated_close (rets : Nat → Val) (fuel : Nat) (h : Store) (i : Nat)
    (hb : h.get "_boss" = some (.ref "Boss" i)) :
    let out := exec (fuel + 1) (envO rets) tbl_DelegatedWormhole "close" [] h
    out.calls = [⟨"_boss", "close", []⟩] ∧ out.heap = h ∧ out.exc = none := by
  obs_eval [tbl_DelegatedWormhole, m_DelegatedWormhole_close, hb, envO]

/-! ## non-vacuity: concrete heaps in the relations, concrete runs of the generated bodies -/

/-- a OneShotObserver with two waiting Deferreds (0 and 1), nothing latched; two Deferreds exist -/
def demoOSHeap : Store :=
  [("_eq", .ref "EventualQueue" 0), ("_result", noResult), ("_observers", .list [dfr 0, dfr 1]), ("$deferreds", .int 2)]

example : RelOS demoOSHeap { observers := [0, 1] } 2 := ⟨rfl, rfl, ⟨0, rfl⟩, rfl⟩

/-- `fire(v7)` schedules both, in order, through `callback` -/
example : (exec 2 (envO fun _ => .none) tbl_OneShotObserver "fire" [.int 7] demoOSHeap).calls.map absEv
    = [some ("callback", ⟨0, .val 7⟩), some ("callback", ⟨1, .val 7⟩)] := by decide

/-- after it, `when_fired()` hands out Deferred 2 and schedules it at once; `fire_if_not_fired(v8)` changes nothing -/
def demoOSHeap1 : Store := (exec 2 (envO fun _ => .none) tbl_OneShotObserver "fire" [.int 7] demoOSHeap).heap
example : (exec 2 (envO fun _ => .none) tbl_OneShotObserver "when_fired" [] demoOSHeap1).calls.map absEv
    = [some ("callback", ⟨2, .val 7⟩)] := by decide
example : (exec 3 (envO fun _ => .none) tbl_OneShotObserver "fire_if_not_fired" [.int 8] demoOSHeap1).calls.map absEv
    = [] := by decide
example : (exec 2 (envO fun _ => .none) tbl_OneShotObserver "fire" [.int 8] demoOSHeap1).exc = some "AssertionError" := by
  decide

/-- a SequenceObserver with one queued result (v5), nobody waiting, no error -/
def demoSeqHeap : Store :=
  [("_eq", .ref "EventualQueue" 0), ("_error", .none), ("_results", .list [.int 5]), ("_observers", .list []),
   ("$deferreds", .int 3)]

example : RelSeq demoSeqHeap { results := [5] } 3 :=
  ⟨rfl, (by intro f hf; cases hf), rfl, rfl, ⟨0, rfl⟩, rfl⟩

/-- `when_next_event()` delivers the queued v5 to the new Deferred 3; the next one (4) waits; `fire(Failure)` then
    errbacks it; a later `when_next_event()` gets the errback although nothing is queued -/
example : (exec 1 (envO fun _ => .none) tbl_SequenceObserver "when_next_event" [] demoSeqHeap).calls.map absEv
    = [some ("callback", ⟨3, .val 5⟩)] := by decide
def demoSeqHeap1 : Store := (exec 1 (envO fun _ => .none) tbl_SequenceObserver "when_next_event" [] demoSeqHeap).heap
def demoSeqHeap2 : Store := (exec 1 (envO fun _ => .none) tbl_SequenceObserver "when_next_event" [] demoSeqHeap1).heap
example : (exec 1 (envO fun _ => .none) tbl_SequenceObserver "when_next_event" [] demoSeqHeap1).calls.map absEv = [] := by
  decide
example : (exec 1 (envO fun _ => .none) tbl_SequenceObserver "fire" [encRes (.wclosed 0)] demoSeqHeap2).calls.map absEv
    = [some ("errback", ⟨4, .wclosed 0⟩)] := by decide
def demoSeqHeap3 : Store := (exec 1 (envO fun _ => .none) tbl_SequenceObserver "fire" [encRes (.wclosed 0)] demoSeqHeap2).heap
example : (exec 1 (envO fun _ => .none) tbl_SequenceObserver "when_next_event" [] demoSeqHeap3).calls.map absEv
    = [some ("errback", ⟨5, .wclosed 0⟩)] := by decide

/-- a `_DeferredWormhole` before `closed` -/
def demoWHeap : Store :=
  [("_closed", .bool false), ("_key", .none), ("_welcome_observer", .ref "OneShotObserver" 1),
   ("_code_observer", .ref "OneShotObserver" 2), ("_key_observer", .ref "OneShotObserver" 3),
   ("_verifier_observer", .ref "OneShotObserver" 4), ("_version_observer", .ref "OneShotObserver" 5),
   ("_closed_observer", .ref "OneShotObserver" 6), ("_received_observer", .ref "SequenceObserver" 7),
   ("_boss", .ref "Boss" 8)]

example : RelW demoWHeap Observer.W.init :=
  ⟨rfl, fun o => by cases o <;> exact ⟨_, rfl⟩, ⟨7, rfl⟩, ⟨8, rfl⟩⟩

example : (exec 1 (envO fun _ => .none) tbl_DeferredWormhole "closed" [.int 0] demoWHeap).calls.map absO
    = (closedOkCalls 0).map some := by decide
example : (exec 1 (envO fun _ => .none) tbl_DeferredWormhole "close" [] demoWHeap).calls.map absO
    = [some (.whenFired .closed), some .bossClose] := by decide

end WV.Props.PyIRObsC18

#print axioms WV.Props.PyIRObsC18.all_translated
#print axioms WV.Props.PyIRObsC18.oneshot_maybe_call_observers
#print axioms WV.Props.PyIRObsC18.oneshot_when_fired
#print axioms WV.Props.PyIRObsC18.oneshot_fire
#print axioms WV.Props.PyIRObsC18.oneshot_error
#print axioms WV.Props.PyIRObsC18.oneshot_fire_if_not_fired
#print axioms WV.Props.PyIRObsC18.seq_when_next_event
#print axioms WV.Props.PyIRObsC18.seq_fire_value
#print axioms WV.Props.PyIRObsC18.seq_fire_failure
#print axioms WV.Props.PyIRObsC18.deferred_get
#print axioms WV.Props.PyIRObsC18.deferred_close
#print axioms WV.Props.PyIRObsC18.deferred_got
#print axioms WV.Props.PyIRObsC18.deferred_closed_ok
#print axioms WV.Props.PyIRObsC18.deferred_closed_exc
#print axioms WV.Props.PyIRObsC18.deferred_get_message
#print axioms WV.Props.PyIRObsC18.deferred_received
#print axioms WV.Props.PyIRObsC18.deferred_closed_sets_flag_first
#print axioms WV.Props.PyIRObsC18.eq_eventually
#print axioms WV.Props.PyIRObsC18.eq_turn
#print axioms WV.Props.PyIRObsC18.eq_turn_logs_failure
#print axioms WV.Props.PyIRObsC18.eq_turn_reentrant_defers
#print axioms WV.Props.PyIRObsC18.delegated_pass_through
#print axioms WV.Props.PyIRObsC18.delegated_got_key
#print axioms WV.Props.PyIRObsC18.eq_eventually_all
#print axioms WV.Props.PyIRObsC18.ocall_oneshot
#print axioms WV.Props.PyIRObsC18.ocall_seq
