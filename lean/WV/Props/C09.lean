import WV.Proofs.ClientCert
import WV.Proofs.Possible
import WV.Model.ClientData

/-!
# C09 — the mailbox session survives connection loss: nothing lost, nothing repeated

* `resume_tables`       per machine, on the generated tables: `connected` in every disconnected
                        state emits exactly what that state still owes the server and enters the
                        connected twin; `lost` goes back to the disconnected twin with the same durable
                        part; nothing else changes the connected/disconnected half.
* `resume_obligations`  system level, for every reachable state of the closed system: when a new
                        connection comes up the client sends `bind` first and then exactly what
                        Nameplate, Mailbox (open + every un-echoed message), Lister and Allocator owe.
* `pending_until_echo`, `drain_resends_all`   data layer: a submitted message stays in the pending
                        list until its own echo arrives and is re-submitted by every drain.
* `nothing_repeated`    no application event is repeated, whatever the drop pattern (C18's monitor
                        over the same closed system, which includes arbitrary drops).
-/
namespace WV.Props.C09
open WV.Client WV.ClientEnv WV.ClientData WV.Cert WV.Gen

/-! ## table level -/

/-- what a disconnected Nameplate state owes on the next connection -/
def owesN : Nameplate.State → List Nameplate.Output
  | .S1A | .S2A => [.RC_tx_claim]
  | .S4A => [.RC_tx_release]
  | _ => []

def twinN : Nameplate.State → Option Nameplate.State
  | .S0A => some .S0B | .S1A => some .S2B | .S2A => some .S2B | .S3A => some .S3B | .S4A => some .S4B
  | .S5 => some .S5 | _ => none

theorem resume_nameplate (st : Nameplate.State) (t : Nameplate.State) (h : twinN st = some t) :
    Nameplate.table st .connected = some (t, owesN st) := by
  cases st <;> simp [twinN] at h <;> subst h <;> decide

theorem lost_nameplate :
    Nameplate.table .S0B .lost = some (.S0A, []) ∧ Nameplate.table .S2B .lost = some (.S2A, []) ∧
    Nameplate.table .S3B .lost = some (.S3A, []) ∧ Nameplate.table .S4B .lost = some (.S4A, []) ∧
    Nameplate.table .S5 .lost = some (.S5, []) := by decide

def owesM : Mailbox.State → List Mailbox.Output
  | .S1A | .S2A => [.RC_tx_open, .drain]
  | .S3A => [.RC_tx_close]
  | _ => []

def twinM : Mailbox.State → Option Mailbox.State
  | .S0A => some .S0B | .S1A => some .S2B | .S2A => some .S2B | .S3A => some .S3B | .S4 => some .S4 | _ => none

theorem resume_mailbox (st t : Mailbox.State) (h : twinM st = some t) :
    Mailbox.table st .connected = some (t, owesM st) := by
  cases st <;> simp [twinM] at h <;> subst h <;> decide

theorem lost_mailbox :
    Mailbox.table .S0B .lost = some (.S0A, []) ∧ Mailbox.table .S2B .lost = some (.S2A, []) ∧
    Mailbox.table .S3B .lost = some (.S3A, []) ∧ Mailbox.table .S4 .lost = some (.S4, []) := by decide

theorem resume_allocator_lister :
    Allocator.table .S1A_allocating .connected = some (.S1B_allocating_connected, [.RC_tx_allocate]) ∧
    Allocator.table .S0A_idle .connected = some (.S0B_idle_connected, []) ∧
    Allocator.table .S1B_allocating_connected .lost = some (.S1A_allocating, []) ∧
    Lister.table .S1A_wanting_disconnected .connected = some (.S1B_wanting_connected, [.RC_tx_list]) ∧
    Lister.table .S0A_idle_disconnected .connected = some (.S0B_idle_connected, []) ∧
    Lister.table .S1B_wanting_connected .lost = some (.S1A_wanting_disconnected, []) := by decide

/-- a message is queued in every Mailbox state that can still send it later, and only an echo
    (`rx_message_ours` in S2B) dequeues -/
theorem queue_rows :
    (∀ st, st ≠ Mailbox.State.S3A → st ≠ .S3B → st ≠ .S4 →
        (Mailbox.table st .add_message).map (fun x => x.2.contains Mailbox.Output.queue) = some true) ∧
    (∀ st i t os, Mailbox.table st i = some (t, os) → Mailbox.Output.dequeue ∈ os → st = .S2B ∧ i = .rx_message_ours) := by
  constructor
  · intro st h1 h2 h3; cases st <;> first | contradiction | decide
  · intro st i t os h hm; cases st <;> cases i <;> simp_all [Mailbox.table] <;> (obtain ⟨_, rfl⟩ := h; simp_all)

/-! ## system level (certificate over the same reachable set as C14) -/

/-- commands a fresh connection must carry, from the state before it came up -/
def owedCmds (c : Ctl) : List Obs :=
  [.tx .bind] ++
  (match c.n with | .S1A | .S2A => [.tx .claim] | .S4A => [.tx .release] | _ => []) ++
  (match c.m with
   | .S1A | .S2A => [.tx .open_, .drainAdds]
   | .S3A => (match c.mood with | some md => [.tx (.close md)] | none => [])
   | _ => []) ++
  (match c.l with | .S1A_wanting_disconnected => [.tx .list] | _ => []) ++
  (match c.a with | .S1A_allocating => [.tx .allocate] | _ => [])

def isWire : Obs → Bool
  | .tx _ | .drainAdds => true
  | _ => false

def resumeOK (s : Sys) (e : Event) : Bool :=
  match e with
  | .wsOpen => ((Client.step s.ctl .wsOpen).2.1.filter isWire == owedCmds s.ctl)
  | _ => true

def safeResume (s : Sys) (e : Event) : Bool := safeStep s e && resumeOK s e

theorem certResume : certList enabled safeResume WV.ClientCert.R = true := by native_decide

/-- **resume_obligations**: in every reachable state, a new connection carries `bind` and then
    exactly the unanswered claim / release, the (re-)open with every un-echoed message, the close,
    the list and the allocate that the session still owes — nothing more, nothing less, in that order. -/
theorem resume_obligations (s : Sys) (hr : Reach enabled s) (he : enabled s .wsOpen = true) :
    (Client.step s.ctl .wsOpen).2.1.filter isWire = owedCmds s.ctl := by
  have h := (cert_sound enabled_mem_allEvents certResume s hr).2 .wsOpen he
  unfold safeResume resumeOK at h
  simp only [Bool.and_eq_true, beq_iff_eq] at h
  exact h.2

/-- **nothing_repeated**: over all drop / reconnect patterns no application event is notified twice -/
theorem nothing_repeated (s : Sys) (hr : Reach enabled s) (e : Event) (he : enabled s e = true) :
    (sysStep s e).1.mon.dup = false ∧ (sysStep s e).1.mon.closedCount ≤ 1 :=
  let c := WV.ClientCert.safe_components (WV.ClientCert.reach_safe s hr e he)
  ⟨c.2.2.2.1, c.2.1⟩

/-! ## data layer -/

/-- **pending_until_echo**: one observation can remove a phase from the pending list only if it is
    the dequeue of that very phase's echo -/
theorem pending_until_echo (ev : CEvent) (r : Refine) (o : Obs) (p : String)
    (hp : p ∈ r.d.pending) :
    p ∈ (refine1 ev r o).d.pending ∨
      (o = .mDequeue ∧ ∃ side good pk, ev = .message side p good pk) := by
  cases o with
  | mDequeue =>
    cases ev with
    | plain e => left; simpa [refine1] using hp
    | message side phase good pk =>
      by_cases h : p = phase
      · right; exact ⟨rfl, side, good, pk, by rw [h]⟩
      · left; simp [refine1, List.mem_filter, hp, h]
  | mQueue ph =>
    left
    simp only [refine1]
    generalize phaseNames r ph = names
    induction names generalizing r with
    | nil => simpa using hp
    | cons a as ih =>
      simp only [List.foldl_cons]
      have : p ∈ insertKey r.d.pending a := by
        unfold insertKey; split <;> simp [hp]
      exact ih { r with d := { r.d with pending := insertKey r.d.pending a } } this
  | tx c => left; cases c <;> simpa [refine1] using hp
  | ev e =>
    left
    have hEq : (refine1 ev r (.ev e)).d.pending = r.d.pending := by
      cases e <;> simp only [refine1] <;>
        first
        | rfl
        | (split
           · split <;> rfl
           · rfl)
    rw [hEq]; exact hp
  | sQueue => left; simp only [refine1]; split <;> exact hp
  | accepted => left; simp only [refine1]; split <;> exact hp
  | _ => left; simpa [refine1] using hp

/-- **drain_resends_all**: a drain puts an `add` for every pending phase on the wire -/
theorem drain_resends_all (ev : CEvent) (r : Refine) (p : String) (hp : p ∈ r.d.pending) :
    ("tx:add:" ++ p) ∈ (refine1 ev r .drainAdds).out := by
  simp only [refine1, List.mem_append, List.mem_map, List.mem_reverse]
  left; exact ⟨p, hp, rfl⟩

/-- certificate for the possibility half of the liveness clause: backward fixpoint over the reachable set -/
theorem certKx : WV.Possible.possibleCert WV.Possible.coopKx WV.Possible.kxDone WV.Possible.kxSrc 400 WV.ClientCert.R = true := by
  native_decide

/-- **key_exchange_always_completable** — the possibility half of "once both sides stay connected the key
    exchange completes and every send_message() issued is delivered": from EVERY reachable state in which a
    participant with our code exists, the code is known, the application has not closed and nothing else has ended
    the session (`kxSrc`) — whatever happened before: any number of connection losses at any moments, negotiation
    failures, duplicated / reordered / replayed deliveries, strangers' messages that were ignored — there is a
    finite continuation using only cooperative events (`coopKx`: the connection comes back, the server greets,
    answers and relays, the peer's PAKE and `version` arrive) after which the peer's `version` has been verified,
    our PAKE and `version` have been echoed, `Send`'s queue is empty and every numbered message handed to the
    Mailbox has been written to a connection (`kxDone`).  No reachable state is a trap for the session.
    What is NOT proved: that a real network does produce those cooperative events (fairness), and the per-message
    count of numbered phases (the environment abstracts them to one flag; the data-layer theorems
    `pending_until_echo` / `drain_resends_all` above and the two-client oracle carry that part). -/
theorem key_exchange_always_completable (s : Sys) (hr : Reach enabled s) (h : WV.Possible.kxSrc s = true) :
    WV.Possible.CanReach WV.Possible.coopKx WV.Possible.kxDone s :=
  WV.Possible.possible_sound certKx s (WV.ClientCert.reach_mem s hr) h

/-- non-vacuity for `resume_obligations`: a reachable disconnected state that owes a claim, and a
    reconnect is enabled there -/
def demo : Sys := [Event.setCode true, .wsOpen, .wsClose].foldl (fun s e => (sysStep s e).1) { env := { matchKey := true } }
example : demo.ctl.n = .S2A ∧ enabled demo .wsOpen = true ∧ owedCmds demo.ctl = [.tx .bind, .tx .claim] := by decide

/-- non-vacuity for `key_exchange_always_completable`: the same state (code known, claim owed, disconnected after a
    loss) satisfies `kxSrc` and is not yet done -/
example : WV.Possible.kxSrc demo = true ∧ WV.Possible.kxDone demo = false := by decide

end WV.Props.C09
