import WV.Model.C06
import WV.Proofs.C06_Thresh
import WV.Proofs.C06_ThreshRun
import WV.Props.C06

/-!
C06 — consumer mode in general: the threshold arithmetic of `_writeToConsumer` for a consumer attached at any
moment of any run.

`connectConsumer(consumer, expected)` / `writeToFile(f, expected)` may be called in every state a run can reach:
records already queued in `_inbound_records` (the backlog), `receive_record()` Deferreds served or outstanding,
earlier consumers that finished or were disconnected by the application, from top-level code or from inside a
callback.  The theorems say exactly which records the consumer is given (the backlog first, in order, then what
arrives), at which record it is disconnected (the first one with which the running total is `≥ expected`; the count
starts from zero at every attach), with which value its Deferred fires (the bytes written, once), that the records
after that one are not written to it (they stay queued, or go to whoever is next), and that nothing is lost or
reordered overall.

*Scope.*  The consumer's `write()` does not call back into the connection (except `pauseProducing()` of a
flow-controlled consumer, `fc`).  Everything else is arbitrary: the callback `s` on the consumer's Deferred and the
callbacks of outstanding reads are arbitrary scripts (`Act`) that re-enter the API — read again, attach another
consumer, detach, close — and the theorems are equations between states of the model's call stack (`settle`), so what
such a callback does next is again covered by them.
-/
namespace WV.Props.C06
open WV WV.C06

/-! ## `connectConsumer` at any point of any callback -/

/-- **`FreshCid` holds in every state of every run**, also in the middle of a callback: the number the next
    `connectConsumer` gives to its Deferred has never been used (the hypothesis of the theorems below is met by every
    reachable state) -/
theorem freshCid_every_step (a : App) (fr : Frame) (h : FreshCid a) : FreshCid (appStep a fr).1 :=
  appStep_fresh a fr h

theorem freshCid_every_run (E : Env) (b : Bool) (leftover : Bytes) (ops : List Op) :
    FreshCid (run E (Conn.init b leftover) ops).app :=
  run_fresh E ops (Conn.init b leftover) init_fresh

/-- **`connectConsumer` from anywhere, count not reached by the backlog** (or no count).  Application code — at top
    level or at any depth of callbacks, `ag` is the rest of the call stack — calls `connectConsumer(c, expected)`
    while no consumer is attached.  All queued records are written to the consumer, oldest first; it stays attached
    with `_consumer_bytes_written` = the bytes of the backlog (whatever an earlier consumer had written); the caller
    goes on (`rest`). -/
theorem connectConsumer_over_backlog_pending (a : App) (ex : Option Nat) (fc : Bool) (s rest : List Act)
    (ag : List Frame) (hc : a.consumer = none) (hf : FreshCid a) (hlt : ∀ N, ex = some N → bytesOf a.inbound < N) :
    settle a (.script (consumeAct fc ex s :: rest) :: ag) =
      settle { a with inbound := [], consumer := some ⟨a.nextCid, bytesOf a.inbound, ex, some s⟩,
                      nextCid := a.nextCid + 1, fcConsumer := fc, log := a.log ++ [.reg] ++ wrEvs fc a.inbound }
        (.script rest :: ag) := by
  rw [settle_cons, attach_pending a ex fc s rest hc hf hlt, ← settle_cons]
  rfl

/-- **… count reached in the middle of the backlog.**  The `while self._consumer and self._inbound_records` loop
    stops at the record that brings the total to `≥ N`: the consumer got `k` records, `k` the first position with
    `bytes(first k) ≥ N`, is unregistered, the Deferred fires with exactly those bytes, and the other queued records
    stay queued, in order, for `receive_record()` or the next consumer — none of them is written to the consumer that
    was just disconnected.  Then the callback `s` runs (the Deferred had fired before the caller could attach it),
    then the caller goes on. -/
theorem connectConsumer_over_backlog_reached (a : App) (N : Nat) (fc : Bool) (s rest : List Act) (ag : List Frame)
    (hc : a.consumer = none) (hf : FreshCid a) (hN : 0 < N) (hge : N ≤ bytesOf a.inbound) :
    ∃ k, 0 < k ∧ k ≤ a.inbound.length ∧ bytesOf (a.inbound.take (k - 1)) < N ∧ N ≤ bytesOf (a.inbound.take k) ∧
      settle a (.script (consumeAct fc (some N) s :: rest) :: ag) =
        settle { a with inbound := a.inbound.drop k, nextCid := a.nextCid + 1, fcConsumer := fc,
                        log := a.log ++ [.reg] ++ wrEvs fc (a.inbound.take k) ++
                          [.unreg, .cdone (bytesOf (a.inbound.take k))] }
          (.script s :: .script rest :: ag) := by
  obtain ⟨k1, k2, k3, k4⟩ := cutAt_spec N a.inbound 0 hN (by simpa using hge)
  refine ⟨cutAt N 0 a.inbound, k1, k2, by simpa using k3, by simpa using k4, ?_⟩
  rw [settle_cons, attach_reach a N fc s rest hc hf hN hge]
  have : settle (doneState a fc (cutAt N 0 a.inbound)) [.script s, .script rest] =
      settle (doneState a fc (cutAt N 0 a.inbound)) ([.script s, .script rest] ++ []) := by simp
  rw [← settle_append]
  rfl

/-- **… `expected = 0`.**  One empty `write()`, unregistered and fired with 0 at once; the backlog is not touched. -/
theorem connectConsumer_zero (a : App) (fc : Bool) (s rest : List Act) (ag : List Frame)
    (hc : a.consumer = none) (hf : FreshCid a) :
    settle a (.script (consumeAct fc (some 0) s :: rest) :: ag) =
      settle { a with nextCid := a.nextCid + 1, fcConsumer := fc,
                      log := a.log ++ [.reg] ++ kickEvs fc ++ [.unreg, .cdone 0] }
        (.script s :: .script rest :: ag) := by
  rw [settle_cons, attach_zero a fc s rest hc hf, ← settle_append]
  rfl

/-- **a second `connectConsumer` while one is attached** raises `RuntimeError` out of the call (which ends the
    callback that made it: `rest` does not run) and changes nothing: the producer is not registered with the new
    consumer, the counters and the attached consumer are as before, no record moves. -/
theorem second_connectConsumer_raises (a : App) (k : Consumer) (ex : Option Nat) (fc : Bool) (s rest : List Act)
    (ag : List Frame) (hc : a.consumer = some k) :
    settle a (.script (consumeAct fc ex s :: rest) :: ag) = settle (a.emit [.raised .runtimeError]) ag ∧
    (a.emit [.raised .runtimeError]).consumer = some k ∧ (a.emit [.raised .runtimeError]).inbound = a.inbound ∧
    (a.emit [.raised .runtimeError]).surfaced = a.surfaced ∧
    (a.emit [.raised .runtimeError]).consumerWrites = a.consumerWrites := by
  refine ⟨by rw [settle_cons, attach_twice_raises a k ex fc s rest hc], hc, rfl, ?_, ?_⟩
  · simp [App.surfaced, App.delivered, App.emit, List.filterMap_append, Ev.payload]
  · simp [App.consumerWrites, App.emit, List.filterMap_append, Ev.cw]

/-- **`disconnectConsumer()` by the application**: the consumer is unregistered and gone, nothing else changes (its
    Deferred, if any, never fires: `pending_reads_fail_on_loss` speaks of attached consumers only) — so the next
    `connectConsumer` finds `_consumer = None` and the theorems above and below apply to it, counting from zero -/
theorem disconnectConsumer_detaches (a : App) (k : Consumer) (rest : List Act) (ag : List Frame)
    (hc : a.consumer = some k) :
    settle a (.script (.detach :: rest) :: ag) =
      settle { a with consumer := none, log := a.log ++ [.unreg] } (.script rest :: ag) := by
  rw [settle_step]
  simp [appStep, hc, disconnectConsumer]

/-! ## records arriving while a consumer is attached -/

/-- **a record arrives, count not reached**: it is written to the consumer, the total grows by its length, nothing
    else happens (no read is served, nothing is queued) -/
theorem arrival_below_count (a : App) (k : Consumer) (r : Bytes) (hk : a.consumer = some k)
    (h : ∀ N, k.expected = some N → k.written + r.length < N) :
    recordReceived a r = { a with consumer := some { k with written := k.written + r.length },
                                  log := a.log ++ wrEvs a.fcConsumer [r] } :=
  arrive_below a k r hk h

/-- **a record arrives and brings the total to `≥ N`** (`>=`, not `>`; an overshoot is reported as it is): it is
    written, the consumer is unregistered, the Deferred fires with the real total `written + len(record)`, and its
    callback runs in a state without consumer -/
theorem arrival_reaches_count (a : App) (k : Consumer) (r : Bytes) (N : Nat) (s : List Act) (hk : a.consumer = some k)
    (hx : k.expected = some N) (hcb : k.cb = some s) (h : N ≤ k.written + r.length) :
    recordReceived a r =
      settle { a with consumer := none,
                      log := a.log ++ wrEvs a.fcConsumer [r] ++ [.unreg, .cdone (k.written + r.length)] }
        [.script s] :=
  arrive_reach a k r N s hk hx hcb h

/-! ## the whole session, inside an honest run -/

/-- **consumer threshold, exactly** (every reachable state, every chunking).  The honest stream of `rs` arrives in any
    chunks; up to some point — anywhere, inside a frame too — the application does anything at all (`ops0`: reads
    served or outstanding, records piling up, earlier consumers attached, finished, disconnected, callbacks that
    re-enter, loss reports); then, no consumer being attached, it calls `connectConsumer(consumer, expected)` (or
    `writeToFile`) with callback `s` on the returned Deferred; then the rest of the stream arrives in any chunks `cs`.
    Let `m` records have been accepted before the call, so that `stream` = the queued backlog followed by `rs.drop m`
    is what can still reach the consumer.  Then

    * the connection is alive, nothing is buffered, and — whatever `s` and the read callbacks do —
      what reads and consumers obtained followed by what is queued is exactly `rs`, in order;
    * (A) without a count, or if all of `stream` stays below it: the consumer was given all of `stream`, in order — the
      backlog first —, is still attached, its counter is exactly the bytes of `stream` (it started from zero), its
      Deferred has not fired;
    * (B) if `stream` reaches `N > 0`: at the first position `k` with `bytes(stream.take k) ≥ N` (and
      `bytes(stream.take (k-1)) < N`) the consumer, having been given exactly `stream.take k`, is unregistered and its
      Deferred fires, once, with `bytes(stream.take k)`; `s` runs in a state with no consumer in which the rest of the
      backlog is still queued in order; the records that arrive after that are handed to `recordReceived` in that
      state: not to this consumer;
    * (C) `expected = 0`: an empty write, unregistered, fired with 0, before anything is taken from the backlog. -/
theorem consumer_threshold_exact (E : Env) (b : Bool) (rs : List Bytes) (hcount : rs.length ≤ 256 ^ 24)
    (hsz : SizesOK rs) (hid : IdealFor E.box (senderRecordKey E b) rs)
    (ops0 : List Op) (ex : Option Nat) (fc : Bool) (s : List Act) (cs : List Bytes)
    (hdata : (dataOf ops0 ++ cs).flatten = (sendMany E (Conn.init b) rs).1.app.wire)
    (hnone : (run E (Conn.init (!b)) ops0).app.consumer = none) :
    let c0 := run E (Conn.init (!b)) ops0
    let a0 := c0.app
    let m := c0.nextReceiveNonce
    let stream := a0.inbound ++ rs.drop m
    let c := feed E (step E c0 (.call [consumeAct fc ex s])) cs
    c.state = .records ∧ c.buf = [] ∧ c.nextReceiveNonce = rs.length ∧ c.app.surfaced = rs ∧
    m ≤ rs.length ∧ a0.surfaced = rs.take m ∧
    ((∀ N, ex = some N → bytesOf stream < N) →
      c.app = { a0 with inbound := [], consumer := some ⟨a0.nextCid, bytesOf stream, ex, some s⟩,
                        nextCid := a0.nextCid + 1, fcConsumer := fc, log := a0.log ++ [.reg] ++ wrEvs fc stream }) ∧
    (∀ N, ex = some N → 0 < N → N ≤ bytesOf stream →
      ∃ k, 0 < k ∧ k ≤ stream.length ∧ bytesOf (stream.take (k - 1)) < N ∧ N ≤ bytesOf (stream.take k) ∧
        c.app = ((rs.drop m).drop (k - a0.inbound.length)).foldl recordReceived
          (settle { a0 with inbound := a0.inbound.drop k, nextCid := a0.nextCid + 1, fcConsumer := fc,
                            log := a0.log ++ [.reg] ++ wrEvs fc (stream.take k) ++
                              [.unreg, .cdone (bytesOf (stream.take k))] }
            [.script s])) ∧
    (ex = some 0 →
      c.app = (rs.drop m).foldl recordReceived
        (settle { a0 with nextCid := a0.nextCid + 1, fcConsumer := fc,
                          log := a0.log ++ [.reg] ++ kickEvs fc ++ [.unreg, .cdone 0] }
          [.script s])) := by
  intro c0 a0 m stream c
  obtain ⟨m', hm, hst, hrn, hsurf, hcons, hfresh, hfeed⟩ := honest_split E b rs hcount hsz hid ops0 cs hdata
  have hm' : m' = m := hrn.symm
  subst hm'
  have hc : c = { c0 with buf := [], nextReceiveNonce := rs.length,
                          app := (rs.drop m).foldl recordReceived (appCall a0 [consumeAct fc ex s]) } :=
    hfeed (appCall a0 [consumeAct fc ex s])
  have hcall := appCall_spec a0 [consumeAct fc ex s] hcons
  have hfold := foldl_recordReceived_spec (rs.drop m) _ hcall.2
  refine ⟨by rw [hc]; exact hst, by rw [hc], by rw [hc], ?_, hm, hsurf, ?_, ?_, ?_⟩
  · rw [hc]
    show ((rs.drop m).foldl recordReceived (appCall a0 [consumeAct fc ex s])).surfaced = rs
    rw [hfold.1, hcall.1, hsurf, List.take_append_drop]
  · intro hlt
    rw [hc]
    show (rs.drop m).foldl recordReceived (appCall a0 [consumeAct fc ex s]) = _
    exact session_pending a0 ex fc s (rs.drop m) hnone hfresh hlt
  · intro N hN hpos hge
    subst hN
    obtain ⟨k1, k2, k3, k4⟩ := cutAt_spec N stream 0 hpos (by simpa using hge)
    refine ⟨cutAt N 0 stream, k1, k2, by simpa using k3, by simpa using k4, ?_⟩
    rw [hc]
    show (rs.drop m).foldl recordReceived (appCall a0 [consumeAct fc (some N) s]) = _
    exact session_reach a0 N fc s (rs.drop m) hnone hfresh hpos hge
  · intro h0
    subst h0
    rw [hc]
    show (rs.drop m).foldl recordReceived (appCall a0 [consumeAct fc (some 0) s]) = _
    exact session_zero a0 fc s (rs.drop m) hnone hfresh

/-- **an attached consumer is always strictly below its count** — in every state any run reaches (any bytes on the
    wire, tampered or not, any application activity, any re-entrant callbacks): the code never leaves a consumer
    attached once `_consumer_bytes_written >= _consumer_bytes_expected`.  (With `>` in place of `>=` the state after a
    record that brings the total to exactly `N` violates this.) -/
theorem attached_consumer_below_count (E : Env) (b : Bool) (leftover : Bytes) (ops : List Op) (k : Consumer) (N : Nat)
    (hk : (run E (Conn.init b leftover) ops).app.consumer = some k) (hN : k.expected = some N) : k.written < N :=
  run_belowCount E ops (Conn.init b leftover) (belowCount_none rfl) k N hk hN

/-- **consumer mode, same bytes, attached anywhere.**  `consumer_mode_same_bytes` for a consumer attached in any
    reachable state in which nobody is waiting in `receive_record()`, with a Deferred callback that does nothing: the
    consumer is given `stream.take k` — the backlog first —, the rest `stream.drop k` is queued in order for
    `receive_record()`; either the count is never reached (`k = |stream|`, Deferred pending, counter = bytes of
    `stream`) or the Deferred fired exactly once more, with the bytes of `stream.take k`, `k` the first position at
    which they are `≥ N`. -/
theorem consumer_mode_same_bytes_anywhere (E : Env) (b : Bool) (rs : List Bytes) (hcount : rs.length ≤ 256 ^ 24)
    (hsz : SizesOK rs) (hid : IdealFor E.box (senderRecordKey E b) rs)
    (ops0 : List Op) (N : Nat) (hN : 0 < N) (fc : Bool) (cs : List Bytes)
    (hdata : (dataOf ops0 ++ cs).flatten = (sendMany E (Conn.init b) rs).1.app.wire)
    (hnone : (run E (Conn.init (!b)) ops0).app.consumer = none)
    (hwait : (run E (Conn.init (!b)) ops0).app.waiting = []) :
    let c0 := run E (Conn.init (!b)) ops0
    let a0 := c0.app
    let stream := a0.inbound ++ rs.drop c0.nextReceiveNonce
    let c := feed E (step E c0 (.call [consumeAct fc (some N) []])) cs
    c.state = .records ∧ c.app.surfaced = rs ∧
    ∃ k, k ≤ stream.length ∧ c.app.consumerWrites = a0.consumerWrites ++ stream.take k ∧
      c.app.inbound = stream.drop k ∧
      ((k = stream.length ∧ bytesOf stream < N ∧ c.app.dones = a0.dones ∧
          c.app.consumer = some ⟨a0.nextCid, bytesOf stream, some N, some []⟩) ∨
       (0 < k ∧ bytesOf (stream.take (k - 1)) < N ∧ N ≤ bytesOf (stream.take k) ∧
          c.app.dones = a0.dones ++ [bytesOf (stream.take k)] ∧ c.app.consumer = none)) := by
  intro c0 a0 stream c
  obtain ⟨m', hm, hst, hrn, hsurf, hcons, hfresh, hfeed⟩ := honest_split E b rs hcount hsz hid ops0 cs hdata
  have hm' : m' = c0.nextReceiveNonce := hrn.symm
  subst hm'
  have hc : c = { c0 with buf := [], nextReceiveNonce := rs.length,
                          app := (rs.drop c0.nextReceiveNonce).foldl recordReceived
                            (appCall a0 [consumeAct fc (some N) []]) } :=
    hfeed (appCall a0 [consumeAct fc (some N) []])
  have hcall := appCall_spec a0 [consumeAct fc (some N) []] hcons
  have hfold := foldl_recordReceived_spec (rs.drop c0.nextReceiveNonce) _ hcall.2
  have happ : c.app = (rs.drop c0.nextReceiveNonce).foldl recordReceived (appCall a0 [consumeAct fc (some N) []]) := by
    rw [hc]
  refine ⟨by rw [hc]; exact hst, ?_, ?_⟩
  · rw [happ, hfold.1, hcall.1, hsurf, List.take_append_drop]
  · by_cases hge : N ≤ bytesOf stream
    · obtain ⟨p1, p2, p3, p4⟩ := session_reach_passive a0 N fc (rs.drop c0.nextReceiveNonce) hnone hfresh hwait hN hge
      obtain ⟨k1, k2, k3, k4⟩ := cutAt_spec N stream 0 hN (by simpa using hge)
      refine ⟨cutAt N 0 stream, k2, by rw [happ]; exact p3, by rw [happ]; exact p2, .inr ⟨k1, by simpa using k3,
        by simpa using k4, by rw [happ]; exact p4, by rw [happ]; exact p1⟩⟩
    · have hlt : bytesOf stream < N := by omega
      have hp := session_pending a0 (some N) fc [] (rs.drop c0.nextReceiveNonce) hnone hfresh
        (fun N' hN' => by cases hN'; exact hlt)
      have e1 : [Ev.reg].filterMap Ev.cw = [] := rfl
      have e2 : [Ev.reg].filterMap Ev.doneVal = [] := rfl
      refine ⟨stream.length, Nat.le_refl _, ?_, ?_, .inl ⟨rfl, hlt, ?_, ?_⟩⟩
      · rw [happ, hp]
        simp only [App.consumerWrites, List.filterMap_append, wrEvs_cw, e1, List.append_nil, List.take_length]
        rfl
      · rw [happ, hp]; simp
      · rw [happ, hp]
        simp only [App.dones, List.filterMap_append, wrEvs_doneVal, e2, List.append_nil]
      · rw [happ, hp]

/-- `consumer_mode_same_bytes` (the fresh-connection theorem of `WV.Props.C06`) is the instance `ops0 = []` of
    `consumer_mode_same_bytes_anywhere`: nothing accepted yet, nothing queued, no history -/
theorem consumer_mode_same_bytes_is_an_instance (E : Env) (b : Bool) (rs : List Bytes) (hcount : rs.length ≤ 256 ^ 24)
    (hsz : SizesOK rs) (hid : IdealFor E.box (senderRecordKey E b) rs) (N : Nat) (hN : 0 < N)
    (cs : List Bytes) (hcs : cs.flatten = (sendMany E (Conn.init b) rs).1.app.wire) :
    let c := feed E (step E (Conn.init (!b)) (.call [.consume (some N) []])) cs
    c.state = .records ∧ c.app.surfaced = rs ∧
    ∃ k, k ≤ rs.length ∧ c.app.consumerWrites = rs.take k ∧ c.app.inbound = rs.drop k ∧
      ((k = rs.length ∧ rs.flatten.length < N ∧ c.app.dones = [] ∧
          c.app.consumer = some ⟨0, (rs.take k).flatten.length, some N, some []⟩) ∨
       (0 < k ∧ (rs.take (k - 1)).flatten.length < N ∧ N ≤ (rs.take k).flatten.length ∧
          c.app.dones = [(rs.take k).flatten.length] ∧ c.app.consumer = none)) := by
  intro c
  have h := consumer_mode_same_bytes_anywhere E b rs hcount hsz hid [] N hN false cs (by simpa [dataOf] using hcs) rfl rfl
  obtain ⟨h1, h2, k, hk, w1, w2, hcase⟩ := h
  have e0 : (run E (Conn.init (!b)) []).app.inbound ++ rs.drop (run E (Conn.init (!b)) []).nextReceiveNonce = rs := by
    simp [run, Conn.init, App.init]
  have hc : feed E (step E (run E (Conn.init (!b)) []) (.call [consumeAct false (some N) []])) cs = c := rfl
  have i1 : (run E (Conn.init (!b)) []).app.consumerWrites = [] := rfl
  have i2 : (run E (Conn.init (!b)) []).app.dones = [] := rfl
  have i3 : (run E (Conn.init (!b)) []).app.nextCid = 0 := rfl
  rw [e0] at hk w1 w2 hcase
  rw [hc] at h1 h2 w1 w2 hcase
  rw [i1] at w1
  rw [i2, i3] at hcase
  refine ⟨h1, h2, k, hk, by simpa using w1, w2, ?_⟩
  rcases hcase with ⟨f1, f2, f3, f4⟩ | ⟨f1, f2, f3, f4, f5⟩
  · refine .inl ⟨f1, f2, f3, ?_⟩
    rw [f4, f1]; simp [bytesOf]
  · exact .inr ⟨f1, f2, f3, by simpa [bytesOf] using f4, f5⟩

/-! ## the hypotheses are met, and the cases are all inhabited: concrete sessions -/

/-- the hypotheses of `consumer_threshold_exact` / `consumer_mode_same_bytes_anywhere` on a non-trivial history: an
    earlier consumer has finished, a read has been served, one record is queued, four bytes of the next frame wait in
    the buffer — no consumer attached, nobody waiting -/
example :
    let ops0 : List Op :=
      [.call [.consume (some 2) []], .data (exWire.take 60), .call [.read []], .data ((exWire.drop 60).take 80)]
    (dataOf ops0 ++ [exWire.drop 140]).flatten = exWire ∧
    (run exEnv (Conn.init false) ops0).app.consumer = none ∧ (run exEnv (Conn.init false) ops0).app.waiting = [] ∧
    (run exEnv (Conn.init false) ops0).app.inbound = [[9]] ∧ (run exEnv (Conn.init false) ops0).nextReceiveNonce = 3 ∧
    (run exEnv (Conn.init false) ops0).buf.length = 4 ∧
    seen (run exEnv (Conn.init false) ops0) = [.reg, .cwrite [1, 2, 3], .unreg, .cdone 3, .fired 0 []] := by
  decide +kernel

/-- … so the theorem applies to it: a consumer for 4 bytes attached there (backlog `[9]`, then `[4,4]`, `[7]` arrive)
    is given `[9]`, `[4,4]` and fires; `[7]` is queued -/
example :
    let ops0 : List Op :=
      [.call [.consume (some 2) []], .data (exWire.take 60), .call [.read []], .data ((exWire.drop 60).take 80)]
    let c := feed exEnv (step exEnv (run exEnv (Conn.init false) ops0) (.call [consumeAct false (some 4) []])) [exWire.drop 140]
    c.app.surfaced = exRs ∧
    ∃ k, k ≤ 3 ∧ c.app.consumerWrites = [[1, 2, 3]] ++ ([[9], [4, 4], [7]] : List Bytes).take k ∧
      c.app.inbound = ([[9], [4, 4], [7]] : List Bytes).drop k := by
  intro ops0 c
  have hsz : SizesOK exRs := by
    intro r hr; simp [exRs] at hr; rcases hr with rfl | rfl | rfl | rfl | rfl <;> simp
  have h := consumer_mode_same_bytes_anywhere exEnv true exRs (by decide) hsz (idealBox_ideal _ _) ops0 4 (by decide)
    false [exWire.drop 140] (by decide +kernel) (by decide +kernel) (by decide +kernel)
  have e1 : (run exEnv (Conn.init false) ops0).app.inbound = [[9]] := by decide +kernel
  have e2 : (run exEnv (Conn.init false) ops0).nextReceiveNonce = 3 := by decide +kernel
  have e3 : (run exEnv (Conn.init false) ops0).app.consumerWrites = [[1, 2, 3]] := by decide +kernel
  obtain ⟨_, h2, k, hk, w1, w2, _⟩ := h
  simp only [Bool.not_true] at hk w1 w2 h2
  rw [e1, e2] at hk w1 w2
  rw [e3] at w1
  exact ⟨h2, k, by simpa [exRs] using hk, by simpa [exRs] using w1, by simpa [exRs] using w2⟩

/-- attach over a backlog, count reached by a record that arrives later (backlog `[1,2,3]`, `[]`; `N = 4`):
    the consumer gets the two queued records, then `[9]`, fires with 4; `[4,4]` and `[7]` are queued -/
example :
    let c := run exEnv (Conn.init false)
      [.data (exWire.take 100), .call [.consume (some 4) []], .data (exWire.drop 100)]
    seen c = [.reg, .cwrite [1, 2, 3], .cwrite [], .cwrite [9], .unreg, .cdone 4] ∧ c.app.inbound = [[4, 4], [7]] ∧
    c.app.consumer = none := by decide +kernel

/-- count reached in the middle of the backlog (all five records queued, `N = 4`): the loop stops after the third
    record; the consumer that was just disconnected does not get the other two, a later read gets the next one -/
example :
    let c := run exEnv (Conn.init false) [.data exWire, .call [.consume (some 4) []], .call [.read []]]
    seen c = [.reg, .cwrite [1, 2, 3], .cwrite [], .cwrite [9], .unreg, .cdone 4, .fired 0 [4, 4]] ∧
    c.app.inbound = [[7]] := by decide +kernel

/-- exactly `N` (`>=`): `N = 3` is reached by the first record alone; with `N = 4` the empty record does not help -/
example :
    let c := run exEnv (Conn.init false) [.data exWire, .call [.consume (some 3) []]]
    seen c = [.reg, .cwrite [1, 2, 3], .unreg, .cdone 3] ∧ c.app.inbound = [[], [9], [4, 4], [7]] := by decide +kernel

/-- detached by the application, then re-attached: the new consumer counts from zero (it fires with 1, not with 4),
    and the old one gets nothing more -/
example :
    let c := run exEnv (Conn.init false)
      [.call [.consume none []], .data (exWire.take 91), .call [.detach], .call [.consume (some 1) []],
       .data (exWire.drop 91)]
    seen c = [.reg, .cwrite [1, 2, 3], .cwrite [], .unreg, .reg, .cwrite [9], .unreg, .cdone 1] ∧
    c.app.inbound = [[4, 4], [7]] := by decide +kernel

/-- the callback of the first consumer's Deferred attaches the next one, from inside the drain loop of the first
    `connectConsumer`: the backlog goes on to the second consumer in order -/
example :
    let c := run exEnv (Conn.init false) [.data exWire, .call [.consume (some 3) [.consume (some 2) []]]]
    seen c = [.reg, .cwrite [1, 2, 3], .unreg, .cdone 3, .reg, .cwrite [], .cwrite [9], .cwrite [4, 4], .unreg, .cdone 3] ∧
    c.app.inbound = [[7]] := by decide +kernel

/-- a second `connectConsumer` while one is attached: `RuntimeError`, the first consumer goes on undisturbed -/
example :
    let c := run exEnv (Conn.init false)
      [.call [.consume (some 4) []], .data (exWire.take 50), .call [.consume (some 1) [], .read []], .data (exWire.drop 50)]
    seen c = [.reg, .cwrite [1, 2, 3], .raised .runtimeError, .cwrite [], .cwrite [9], .unreg, .cdone 4] ∧
    c.app.inbound = [[4, 4], [7]] := by decide +kernel

/-- zero-length records with a small count: they are written, count nothing, and do not fire the Deferred -/
example :
    let rs : List Bytes := [[], [], [5], []]
    let E : Env := { box := idealBox exKey rs, hkdf := fun _ _ info => info, transitKey := [7] }
    let c := run E (Conn.init false)
      [.data (sendMany E (Conn.init true) rs).1.app.wire, .call [.consume (some 1) []]]
    seen c = [.reg, .cwrite [], .cwrite [], .cwrite [5], .unreg, .cdone 1] ∧ c.app.inbound = [[]] := by decide +kernel

end WV.Props.C06
