import WV.Proofs.C15

/-!
C15 — Dilation back-pressure pauses every producer and never loses a wake-up.

All theorems are about `WV.C15.step` / `WV.C15.istep`, the functions the driver executes
(`WV.C15.run` is iterated `step`, `run_is_reachable`).  `Reach c` ranges over *every*
configuration of the Python call stack: quiescent ones and every re-entrant point inside any
nest of producer turns, for every finite script of re-entrant operations, with no bound on the
number of producers, operations, nesting depth or history length.

Environment hypothesis (`opOK`, part of `Reach`): a producer object is registered on at most one
subchannel at a time; `use_connection`/`stop_using_connection` alternate.  Without the first one
the statement is false for the current code (`sets_partition_needs_distinct_producers`).
Further hypotheses: an application *push* producer's `resumeProducing()` does not raise (`opOK .failWrite`; a
*pull* producer's may — that is `PullToPush._pull`'s error path, `pull_failure_unregisters`); producers'
`pauseProducing()` does not call back into `Outbound`.  The model identifies producers with ids and ends the loop of
`Outbound.resumeProducing` exactly when nobody is paused; that the real loop tests `p is None` and not the truth
value of the producer object is pinned by `resume_loop_ends_only_on_none` (before fix 129b6a1 it was `if not p`,
and a registered producer whose truth value is False ended the loop without getting its turn — the witness is run on
the real code by the harness, case kind `falsy`).
-/
namespace WV.Props.C15
open WV WV.C15 WV.Proofs.C15

/-- `_check_invariants` holds in every reachable configuration — after every operation and at
    every re-entrant point — the three sets partition the deque, the deque has no duplicates and
    holds exactly the producers of `_subchannel_producers`; and none of the internal failures
    (`AssertionError` from `_check_invariants` / `assert p in self._paused_producers` /
    `assert not self._queued_unsent`, `IndexError` on the deque, `ValueError` from `deque.remove`,
    `AttributeError` on a missing connection) ever reaches a caller: the only exceptions are the two
    documented refusals, which leave the state untouched. -/
theorem sets_partition {c : Cfg} (h : Reach c) :
    checkInv c.o = true ∧
    (∀ x, x ∈ c.o.allp ↔ (x ∈ c.o.pausedSet ∨ x ∈ c.o.unpausedSet)) ∧
    (∀ x, x ∈ c.o.pausedSet → x ∉ c.o.unpausedSet) ∧
    c.o.allp.Nodup ∧
    (∀ x, x ∈ c.o.allp ↔ x ∈ c.o.scp.map Prod.snd) ∧
    (∀ e, Ev.exc e ∈ c.log → e = .dupRegister ∨ e = .noProducer) := by
  have hi := reach_inv h
  refine ⟨checkInv_of _ hi.o, hi.o.part, hi.o.disj, hi.o.nodup, hi.o.scpVals, ?_⟩
  intro e he
  have := hi.noerr e he
  cases e <;> simp [isInternal] at this ⊢

/-- whenever `_paused` holds (transport full, or no connection), at *every* reachable point,
    every registered producer is in the paused set and the last thing it was told is "pause" -/
theorem paused_means_all_paused {c : Cfg} (h : Reach c) (hp : c.o.paused = true) :
    ∃ m, mon c.log = some m ∧ ∀ x ∈ c.o.allp, x ∈ c.o.pausedSet ∧ m x = .paused := by
  have hi := reach_inv h
  obtain ⟨m, hm1, hm2⟩ := hi.mon
  refine ⟨m, hm1, fun x hx => ?_⟩
  have hxP : x ∈ c.o.pausedSet := by
    rcases (hi.o.part x).1 hx with h1 | h1
    · exact h1
    · exact absurd h1 (hi.o.allPaused hp x)
  exact ⟨hxP, by rw [hm2 x]; simp [stat, hxP]⟩

/-- … and no producer is resumed until `resumeProducing`: a `resumeProducing()` call on a producer
    is only ever made by the rotation loop while `_paused` is false (holds for every configuration,
    reachable or not) -/
theorem resumed_only_while_unpaused (c : Cfg) (p : Nat) (h : Ev.resume p ∈ (step c).log) :
    Ev.resume p ∈ c.log ∨ (c.o.paused = false ∧ ∃ k, c.stack = .loop :: k) :=
  step_resume c p h

/-- no lost wake-up, re-entrant form: while the transport is writable (`_paused` false) a producer
    can only be waiting in the paused set if some `resumeProducing` loop is still active below -/
theorem waiting_producer_has_active_loop {c : Cfg} (h : Reach c) (hp : c.o.paused = false)
    {x : Nat} (hx : x ∈ c.o.pausedSet) : Frame.loop ∈ c.stack :=
  (reach_inv h).wake hp (by intro h0; rw [h0] at hx; cases hx)

/-- no lost wake-up: when any top-level call has returned (empty stack) with the transport
    writable, every registered producer is unpaused and the last thing it was told is not "pause";
    together with `paused_means_all_paused` every call ends either "transport full, everybody
    paused" or "everybody producing" -/
theorem drain_resumes_all {c : Cfg} (h : Reach c) (hq : c.stack = []) (hp : c.o.paused = false) :
    ∃ m, mon c.log = some m ∧ ∀ x ∈ c.o.allp, x ∈ c.o.unpausedSet ∧ m x = .producing := by
  have hi := reach_inv h
  obtain ⟨m, hm1, hm2⟩ := hi.mon
  have hP : c.o.pausedSet = [] := by
    by_contra hne
    have := hi.wake hp hne
    rw [hq] at this; cases this
  refine ⟨m, hm1, fun x hx => ?_⟩
  have hxU : x ∈ c.o.unpausedSet := by
    rcases (hi.o.part x).1 hx with h1 | h1
    · rw [hP] at h1; cases h1
    · exact h1
  exact ⟨hxU, by rw [hm2 x]; simp [stat, hxU, hP]⟩

/-- the rotation: while anybody is still paused, the head of `_all_producers` is paused, so the
    next turn goes to the head (the code's `assert p in self._paused_producers` cannot fire) -/
theorem next_turn_is_head {c : Cfg} (h : Reach c) {p : Nat} {rest : List Nat}
    (ha : c.o.allp = p :: rest) (hne : c.o.pausedSet ≠ []) : p ∈ c.o.pausedSet :=
  head_paused c.o (reach_inv h).o p rest ha hne

/-- a turn: when the loop of `resumeProducing` finds the transport writable, nothing queued and
    somebody still paused, exactly the head of the rotation is resumed and moves to the back -/
theorem turn_goes_to_head {c : Cfg} (h : Reach c) {k : List Frame} (hk : c.stack = .loop :: k)
    (hp : c.o.paused = false) (hu : c.o.unsent = []) (hne : c.o.pausedSet ≠ []) :
    ∃ p rest, c.o.allp = p :: rest ∧ p ∈ c.o.pausedSet ∧ (step c).o.allp = rest ++ [p] ∧
      (step c).log = .resume p :: c.log ∧ p ∈ (step c).o.unpausedSet :=
  turn_step (reach_inv h) hk hp hu hne

/-- fair rotation: in any micro-step whatsoever (any operation, any re-entrancy) the place of a
    producer that stays registered never moves back, except by its own turn (it is the head and goes
    to the end); by `turn_goes_to_head` every turn goes to the head, so a turn of somebody else moves
    it one place forward: a producer at place `i` of `n` gets its turn after at most `i < n` turns
    of others -/
theorem fair_rotation {c : Cfg} (h : Reach c) {q : Nat} (hq : q ∈ c.o.allp) (hq' : q ∈ (step c).o.allp) :
    (step c).o.allp.idxOf q ≤ c.o.allp.idxOf q ∨
      (∃ rest, c.o.allp = q :: rest ∧ (step c).o.allp = rest ++ [q]) :=
  position_change (step_allp c) (reach_inv h).o.nodup hq hq'

/-- … and a turn of the head `p` moves every other registered producer exactly one place forward -/
theorem turn_advances_others {c : Cfg} (h : Reach c) {k : List Frame} (hk : c.stack = .loop :: k)
    (hp : c.o.paused = false) (hu : c.o.unsent = []) (hne : c.o.pausedSet ≠ [])
    {q : Nat} (hq : q ∈ c.o.allp) (hqh : c.o.allp.head? ≠ some q) :
    (step c).o.allp.idxOf q + 1 = c.o.allp.idxOf q := by
  obtain ⟨p, rest, ha, _, hb, _, _⟩ := turn_goes_to_head h hk hp hu hne
  have hne' : p ≠ q := by intro e; apply hqh; rw [ha, e]; rfl
  have hqr : q ∈ rest := by
    rw [ha] at hq
    rcases List.mem_cons.1 hq with h1 | h1
    · exact absurd h1.symm hne'
    · exact h1
  rw [hb, ha, List.idxOf_append_of_mem hqr, List.idxOf_cons_ne _ hne']

/-- the error path of `PullToPush._pull`: when a pull producer's `resumeProducing()` raises — e.g.
    `AlreadyClosedError`, because the application called `loseConnection()` on its subchannel without
    unregistering the producer — the adapter registered on that subchannel is unregistered in the same
    step: it leaves the rotation, both sets and the set of live adapters, so no later
    `pauseProducing`/`resumeProducing` of `Outbound` can reach its finished `CooperativeTask`; nothing is
    raised to the Cooperator, and (being a `Reach` step) all the invariants above keep holding.
    That `_pull` treats every exception this way is pinned by `skeleton_agrees_pull`. -/
theorem pull_failure_unregisters {c : Cfg} (h : Reach c) {sc p : Nat} {r : List Op} {k : List Frame}
    (hk : c.stack = .pull sc (.failWrite :: r) :: k) (hl : c.o.scp.lookup sc = some p) :
    (step c).stack = k ∧ p ∉ (step c).o.allp ∧ p ∉ (step c).o.pausedSet ∧ p ∉ (step c).o.unpausedSet ∧
    p ∉ (step c).o.pulls ∧ (step c).o.scp.lookup sc = none ∧ (step c).log.head? = some (.unreg p) := by
  have hi := reach_inv h
  have hik : Inv { c with stack := k } := by
    refine hi.frame rfl rfl rfl rfl rfl hi.o.connUnsent ?_ (Or.inl rfl)
    intro hx; rw [hk] at hx
    rcases List.mem_cons.1 hx with hx | hx
    · cases hx
    · exact hx
  have hs : step c = pullFailed c sc k := by rw [step, hk]
  rw [hs, pullFailed_spec c sc p k hik hl]
  have hnd := hi.o.nodup
  have hK := hi.o.scpK
  unfold unregDrop unregPop
  split
  · refine ⟨rfl, ?_, by simp, by simp, by simp, ?_, rfl⟩
    · simp only; rw [hnd.mem_erase_iff]; simp
    · simp only; rw [List.lookup_eq_none_iff]; intro x hx; simp at hx; simp; exact fun e => hx.2 (Eq.symm e)
  · refine ⟨rfl, ?_, by simp, by simp, ?_, ?_, rfl⟩
    · simp only; rw [hnd.mem_erase_iff]; simp
    · assumption
    · simp only; rw [List.lookup_eq_none_iff]; intro x hx; simp at hx; simp; exact fun e => hx.2 (Eq.symm e)

/-- the signal monitor accepts the whole history: a producer is never told `pauseProducing` twice
    in a row nor `resumeProducing` twice in a row, the first signal after a registration is never
    `resume`, nobody is signalled before registration or after removal — and the monitor's view
    coincides with Outbound's sets -/
theorem no_double_signal {c : Cfg} (h : Reach c) :
    ∃ m, mon c.log = some m ∧ ∀ p, m p = stat c.o p :=
  (reach_inv h).mon

/-- tie to the driver: what `run` returns for a top-level call is a quiescent reachable
    configuration, as long as every operation performed on the way met the environment hypothesis -/
theorem run_is_reachable {c : Cfg} (h : Reach c) (hs : c.stack = []) (op : Op) (scripts : List (List Op))
    (hok : ∀ n, stepOK (step^[n] (start c op scripts))) :
    Reach (run (start c op scripts)) ∧ (run (start c op scripts)).stack = [] :=
  reach_run (Reach.call op scripts h hs) hok

/-- Inbound: for every sequence of pause/resume/stop requests and connection changes, the TCP
    transport of the current connection has last been told "pause" iff `_paused_subchannels` is
    non-empty (in particular right after `use_connection` of a replacement connection), and no
    transport is ever told the same thing twice in a row.  Depends on
    `DilatedConnectionProtocol.pauseProducing/resumeProducing` forwarding to the transport, which is
    read from the generated call skeleton: if they stop doing so this theorem no longer compiles. -/
theorem inbound_pause_exact {s : Inb} (h : IReach s) :
    (∀ g, s.conn = some g → (lastPaused g s.log = true ↔ s.pausedSc ≠ [])) ∧ altOK s.log = true := by
  have hi := ireach_inv (by decide) (by decide) h
  exact ⟨hi.exact, hi.alt⟩

/-- Inbound, full statement.  For every sequence of: application pause/resume/stop requests (made through
    the real `SubChannel` methods, at top level or from inside `connectionMade`/`dataReceived` while a
    pre-listen backlog is handed over), local opens, the peer's OPEN / DATA / CLOSE (also before the
    application listens for the subprotocol: parked OPENs, queued DATA and CLOSE), `listen`, local
    `loseConnection()`/`loseWriteConnection()`, `subchannel_closed` and connection changes —
    the TCP transport of the current connection, also of a replacement connection, has last been told
    "pause" exactly while some application has an outstanding pause request: `(G s.log).w`, computed from
    what the applications did and were told only (asked, and neither resumed, stopped nor closed since);
    nobody in it is closed.  In particular the connection is never paused (or resumed) on the subchannel's
    own account, whatever backlog it holds.
    Environment (`EnvOK`): the application of a closed subchannel does not call `pauseProducing` again. -/
theorem inbound_open_exact {s : Inb} (h : IReach s) (henv : EnvOK s.log) :
    (∀ c, s.conn = some c → (lastPaused c s.log = true ↔ (G s.log).w ≠ [])) ∧
    (∀ sc, sc ∈ (G s.log).w → sc ∉ (G s.log).cl) ∧ altOK s.log = true := by
  have hi := ireach_inv (by decide) (by decide) h
  refine ⟨fun c hc => ?_, want_not_closed s.log henv, hi.alt⟩
  rw [hi.exact c hc]
  constructor
  · intro hne h0
    obtain ⟨sc, hsc⟩ := List.exists_mem_of_ne_nil _ hne
    have := (hi.want sc).2 hsc
    rw [h0] at this; cases this
  · intro hne h0
    obtain ⟨sc, hsc⟩ := List.exists_mem_of_ne_nil _ hne
    have := (hi.want sc).1 hsc
    rw [h0] at this; cases this

/-- a resume (or stop) request of the application is forwarded to `Inbound` in every state of its
    SubChannel machine — `unconnected`, `open_*`, `closing` (after a local `loseConnection()`),
    `write_closed`/`read_closed` (half-closed), even `closed`: the subchannel leaves
    `_paused_subchannels`, and if it was the last one the current connection is told to resume.
    (`SubChannel.resumeProducing` being an unguarded forwarder is pinned by `skeleton_agrees_subchannel`.) -/
theorem resume_forwarded_in_every_state (s : Inb) (sc : Nat) (st : Gen.SubChannel.State) (half : Bool) :
    let s0 := s.setSc sc (st, half)
    istep s0 (.resume sc) = s0.appResume sc ∧ istep s0 (.stopProducing sc) = s0.appResume sc ∧
    (istep s0 (.resume sc)).pausedSc = sDel sc s.pausedSc ∧
    (∀ c, s.conn = some c → s.pausedSc ≠ [] → sDel sc s.pausedSc = [] →
      (istep s0 (.resume sc)).log = .tResume c :: .unreq sc :: s.log) := by
  refine ⟨rfl, rfl, ?_, ?_⟩
  · simp only [istep, Inb.appResume]; rw [discard_pausedSc]; rfl
  · intro c hc hne hlast
    have hf : dcpForwardsResume = true := by decide
    have hne' : s.pausedSc.isEmpty = false := by simpa using hne
    simp [istep, Inb.appResume, Inb.discard, Inb.setSc, hc, hne', hlast, Inb.connResume, hf]

/-- the pre-listen backlog: DATA (and CLOSE) for a subchannel nobody listens for yet only grows the
    subchannel's own queue — `_paused_subchannels`, the transports and the applications' requests are
    untouched, however much is queued -/
theorem backlog_touches_nothing (s : Inb) (sc : Nat) (half : Bool)
    (hst : s.scState sc = (Gen.SubChannel.init, half)) (ho : sc ∈ s.openSc) :
    (istep s (.rdata sc)).pausedSc = s.pausedSc ∧ (istep s (.rdata sc)).log = s.log ∧
    (istep s (.rclose sc)).pausedSc = s.pausedSc ∧ (istep s (.rclose sc)).log = s.log := by
  have t1 : Gen.SubChannel.table Gen.SubChannel.init .remote_data = some (.unconnected, [.queue_remote_data]) := rfl
  have t2 : Gen.SubChannel.table Gen.SubChannel.init .remote_close = some (.unconnected, [.queue_remote_close]) := rfl
  simp only [istep, ho, if_true, scInput, hst, t1, t2, runOuts]
  exact ⟨rfl, rfl, rfl, rfl⟩

/-- the call skeletons of the anchored methods, as regenerated from the working tree on this run,
    are the ones the model's operations were written against (a dropped, added or re-ordered call
    in any of them breaks this theorem before any test has to notice) -/
theorem skeleton_agrees :
    Gen.Skel.skeleton "Outbound.pauseProducing" = [("for/if", "p.pauseProducing")] ∧
    Gen.Skel.skeleton "Outbound.resumeProducing" =
      [("while/if", "_connection.send_record"), ("while", "self._get_next_unpaused_producer"), ("while", "p.resumeProducing")] ∧
    Gen.Skel.skeleton "Outbound._get_next_unpaused_producer" = [("-", "self._check_invariants"), ("while", "_all_producers.rotate")] ∧
    Gen.Skel.skeleton "Outbound.stopProducing" = [("-", "self.pauseProducing")] ∧
    Gen.Skel.skeleton "Outbound.stop_using_connection" =
      [("-", "_connection.transport.unregisterProducer"), ("-", "_queued_unsent.clear"), ("-", "self.pauseProducing")] ∧
    Gen.Skel.skeleton "Outbound.use_connection" =
      [("-", "_queued_unsent.extend"), ("-", "c.transport.registerProducer"), ("-", "self.resumeProducing")] ∧
    Gen.Skel.skeleton "Outbound.subchannel_closed" = [("-", "self._check_invariants"), ("if", "self.subchannel_unregisterProducer")] ∧
    Gen.Skel.skeleton "Outbound.subchannel_registerProducer" =
      [("if", "ValueError"), ("if", "PullToPush"), ("-", "self._check_invariants"), ("if/if", "producer.pauseProducing"), ("else", "producer.startStreaming")] ∧
    Gen.Skel.skeleton "Outbound.subchannel_unregisterProducer" = [("if", "p.stopStreaming"), ("-", "self._check_invariants")] ∧
    Gen.Skel.skeleton "Outbound.queue_and_send_record" = [("if/else", "_connection.send_record")] ∧
    Gen.Skel.skeleton "Inbound.use_connection" = [("if", "_connection.pauseProducing")] ∧
    Gen.Skel.skeleton "Inbound.stop_using_connection" = [] ∧
    Gen.Skel.skeleton "Inbound.subchannel_closed" = [("-", "self.subchannel_stopProducing")] ∧
    Gen.Skel.skeleton "Inbound.subchannel_local_open" = [("-", "ISubChannel.providedBy")] ∧
    Gen.Skel.skeleton "Manager.subchannel_closed" = [("-", "_inbound.subchannel_closed"), ("-", "_outbound.subchannel_closed")] ∧
    Gen.Skel.skeleton "Inbound.subchannel_pauseProducing" = [("if", "_connection.pauseProducing")] ∧
    Gen.Skel.skeleton "Inbound.subchannel_resumeProducing" = [("if", "_connection.resumeProducing")] ∧
    Gen.Skel.skeleton "Inbound.subchannel_stopProducing" = [("if", "_connection.resumeProducing")] ∧
    dcpForwardsPause = true ∧ dcpForwardsResume = true := by
  decide +kernel

/-- … and of the SubChannel / Manager methods the Inbound world goes through: the three
    `*Producing` methods of `SubChannel` are unguarded single-statement forwarders
    (`Gen.Flags.subchannel_*_is_plain_forward`, computed from the AST of the working tree), whatever
    `loseConnection()` / `loseWriteConnection()` did before -/
theorem skeleton_agrees_subchannel :
    Gen.Skel.skeleton "Inbound.handle_close" = [("if", "CloseForMissingSubchannelError"), ("-", "sc.remote_close")] ∧
    Gen.Skel.skeleton "SubChannel.pauseProducing" = [("-", "_manager.subchannel_pauseProducing")] ∧
    Gen.Skel.skeleton "SubChannel.resumeProducing" = [("-", "_manager.subchannel_resumeProducing")] ∧
    Gen.Skel.skeleton "SubChannel.stopProducing" = [("-", "_manager.subchannel_stopProducing")] ∧
    Gen.Flags.subchannel_pause_is_plain_forward = true ∧
    Gen.Flags.subchannel_resume_is_plain_forward = true ∧
    Gen.Flags.subchannel_stop_is_plain_forward = true ∧
    Gen.Skel.skeleton "SubChannel.loseConnection" =
      [("-", "IHalfCloseableProtocol.providedBy"), ("if", "NormalCloseUsedOnHalfCloseable"), ("-", "self.local_close")] ∧
    Gen.Skel.skeleton "SubChannel.loseWriteConnection" =
      [("-", "IHalfCloseableProtocol.providedBy"), ("if", "HalfCloseUsedOnNonHalfCloseable"), ("-", "self.local_close")] ∧
    Gen.Skel.skeleton "SubChannel.close_subchannel" = [("-", "_manager.subchannel_closed")] ∧
    Gen.Skel.skeleton "Manager.subchannel_pauseProducing" = [("-", "_inbound.subchannel_pauseProducing")] ∧
    Gen.Skel.skeleton "Manager.subchannel_resumeProducing" = [("-", "_inbound.subchannel_resumeProducing")] ∧
    Gen.Skel.skeleton "Manager.subchannel_stopProducing" = [("-", "_inbound.subchannel_stopProducing")] := by
  decide

/-- the resume loop's only `break` is guarded by `p is None` on the result of `_get_next_unpaused_producer()`:
    no registered producer object, whatever its truth value, ends the loop -/
theorem resume_loop_ends_only_on_none : Gen.Flags.outbound_resume_loop_ends_only_on_none = true := by decide

/-- the exception policy of `PullToPush._pull`, from the working tree: the `try:` around the pull
    producer's `resumeProducing()` has exactly one handler, `except Exception:`, and that handler calls
    `self._unregister()` (no exception class is swallowed without unregistering the adapter) -/
theorem skeleton_agrees_pull :
    Gen.Flags.pull_to_push_unregisters_on_any_exception = true ∧
    Gen.Skel.skeleton "PullToPush.startStreaming" = [("-", "self._pull"), ("-", "_cooperator.cooperate"), ("if", "self.pauseProducing")] ∧
    Gen.Skel.skeleton "PullToPush._pull" =
      [("while/try", "_producer.resumeProducing"), ("while/except", "safe_str"), ("while/except/try", "self._unregister"),
       ("while/except/except", "safe_str")] ∧
    Gen.Skel.skeleton "PullToPush.stopStreaming" = [("-", "_coopTask.stop")] ∧
    Gen.Skel.skeleton "PullToPush.pauseProducing" = [("-", "_coopTask.pause")] ∧
    Gen.Skel.skeleton "PullToPush.resumeProducing" = [("-", "_coopTask.resume")] := by
  decide

/-- the pre-listen path, from the working tree: queueing DATA / CLOSE in a SubChannel that has no protocol yet
    makes no call at all (in particular none to the manager's pause/resume), handing the backlog over is the
    `for … remote_data` loop and the queued CLOSE and nothing else, and the demultiplexer connects a listener by
    `buildProtocol`, `_set_protocol`, `makeConnection`, `_deliver_queued_data` in that order -/
theorem skeleton_agrees_backlog :
    Gen.Skel.skeleton "SubChannel.queue_remote_data" = [] ∧
    Gen.Skel.skeleton "SubChannel.queue_remote_close" = [] ∧
    Gen.Skel.skeleton "SubChannel._deliver_queued_data" = [("for", "self.remote_data"), ("if", "self.remote_close")] ∧
    Gen.Skel.skeleton "SubChannel.signal_dataReceived" = [("-", "_protocol.dataReceived")] ∧
    Gen.Skel.skeleton "SubChannel._set_protocol" =
      [("-", "IHalfCloseableProtocol.providedBy"), ("if", "self.connect_protocol_half"), ("else", "self.connect_protocol_full")] ∧
    Gen.Skel.skeleton "SubchannelDemultiplex._connect" =
      [("-", "factory.buildProtocol"), ("-", "t._set_protocol"), ("-", "p.makeConnection"), ("-", "t._deliver_queued_data")] ∧
    Gen.Skel.skeleton "SubchannelDemultiplex._got_open" = [("if", "self._connect"), ("else/if", "UnexpectedSubprotocol")] ∧
    Gen.Skel.skeleton "SubchannelDemultiplex.register" = [("if", "ValueError"), ("except", "deque"), ("while", "self._connect")] ∧
    Gen.Skel.skeleton "Inbound.handle_data" = [("if", "DataForMissingSubchannelError"), ("-", "sc.remote_data")] ∧
    Gen.Skel.skeleton "Inbound.handle_open" =
      [("if", "DuplicateOpenError"), ("-", "SubchannelAddress"), ("-", "SubChannel"),
       ("try", "_manager._subprotocol_factories._got_open"), ("except", "_manager.send_close")] := by
  decide

/-! ## the environment hypothesis is needed (current code) -/

/-- one producer object on two subchannels, then unregister one: `_check_invariants` fails
    (`AssertionError` out of `subchannel_unregisterProducer`).  Outside the stated environment;
    replayed on the real code by the harness corpus (tag `env:shared-producer`). -/
theorem sets_partition_needs_distinct_producers :
    Ev.exc .assertion ∈ (callN (callN (callN {} (.reg 1 1 true) [] 2) (.reg 2 1 true) [] 2) (.unreg 1) [] 2).log := by
  decide

/-! ## non-vacuity -/

/-- two producers registered while there is no connection: paused, both told "pause" -/
def ex1 : Cfg := callN (callN {} (.reg 1 1 true) [] 2) (.reg 2 2 true) [] 2
theorem ex1_reach : Reach ex1 :=
  reach_callN (reach_callN Reach.init rfl _ _ 2 (by decide)) (by decide) _ _ 2 (by decide)
example : ex1.o.paused = true ∧ ex1.o.allp = [1, 2] ∧ ex1.stack = [] := by decide

/-- `use_connection`; producer 1's turn writes a record that fills the buffer (re-entrant pause),
    stopped in the middle of that turn: a re-entrant point with a live loop -/
def ex2 : Cfg := callN ex1 .use [[.write true]] 2
theorem ex2_reach : Reach ex2 := reach_callN ex1_reach (by decide) _ _ 2 (by decide)
example : ex2.stack = [.ops [.write true], .loop, .ops []] ∧ ex2.o.paused = false ∧ ex2.o.pausedSet = [2] := by decide

/-- … and run to the end: paused again, rotation advanced -/
def ex3 : Cfg := callN ex1 .use [[.write true]] 7
theorem ex3_reach : Reach ex3 := reach_callN ex1_reach (by decide) _ _ 7 (by decide)
example : ex3.stack = [] ∧ ex3.o.paused = true ∧ ex3.o.allp = [2, 1] ∧ ex3.o.pausedSet.length = 2 := by decide

/-- the transport drains and nobody writes: everybody resumed (hypotheses of `drain_resumes_all`) -/
def ex4 : Cfg := callN ex3 .resume [] 8
theorem ex4_reach : Reach ex4 := reach_callN ex3_reach (by decide) _ _ 8 (by decide)
example : ex4.stack = [] ∧ ex4.o.paused = false ∧ ex4.o.allp = [2, 1] ∧ ex4.o.unpausedSet.length = 2 := by decide

/-- hypotheses of `turn_goes_to_head` / `turn_advances_others`: one micro-step into `resumeProducing`
    with two paused producers -/
def ex5 : Cfg := callN ex3 .resume [] 1
theorem ex5_reach : Reach ex5 := reach_callN ex3_reach (by decide) _ _ 1 (by decide)
example : ex5.stack = [.loop, .ops []] ∧ ex5.o.paused = false ∧ ex5.o.unsent = [] ∧ ex5.o.pausedSet ≠ [] ∧
    1 ∈ ex5.o.allp ∧ ex5.o.allp.head? ≠ some 1 := by decide

/-- hypotheses of `pull_failure_unregisters`: a pull producer (adapter 10 on subchannel 1) and a push
    producer registered, connected; the Cooperator runs the adapter, whose write hits its locally closed
    subchannel -/
def ex6 : Cfg := callN (callN (callN (callN {} (.reg 1 10 false) [] 2) (.reg 2 2 true) [] 2) .use [] 9) (.pull 10) [[.failWrite, .write true]] 1
theorem ex6_reach : Reach ex6 :=
  reach_callN (reach_callN (reach_callN (reach_callN Reach.init rfl _ _ 2 (by decide)) (by decide) _ _ 2 (by decide))
    (by decide) _ _ 9 (by decide)) (by decide) _ _ 1 (by decide)
example : ex6.stack = [.pull 1 [.failWrite, .write true], .ops []] ∧ ex6.o.scp.lookup 1 = some 10 ∧
    ex6.o.allp = [10, 2] ∧ ex6.o.paused = false ∧
    (step ex6).o.allp = [2] ∧ (step ex6).o.pulls = [] ∧ (step ex6).stack = [.ops []] := by decide

/-- Inbound: a subchannel pauses, the connection is replaced, the new one is paused at once -/
def iex : Inb := istep (istep (istep (istep {} .use) (.pause 7)) .stop) .use
example : IReach iex := IReach.step _ (IReach.step _ (IReach.step _ (IReach.step _ IReach.init)))
example : iex.conn = some 2 ∧ iex.pausedSc = [7] ∧ sigs iex.log = [.tPause 2, .tPause 1] := by decide

/-- hypotheses of `inbound_open_exact`: two open subchannels paused, one of them closed, the
    connection replaced — the other one still holds the pause … -/
def iexW : Inb := istep (istep (istep (istep (istep (istep (istep (istep {} .use) (.opn 1)) (.opn 2)) (.pause 1)) (.pause 2)) (.close 1)) .stop) .use
example : IReach iexW := IReach.step _ (IReach.step _ (IReach.step _ (IReach.step _ (IReach.step _ (IReach.step _
    (IReach.step _ (IReach.step _ IReach.init)))))))
example : EnvOK iexW.log ∧ (G iexW.log).w = [2] ∧ (G iexW.log).cl = [1] ∧ iexW.conn = some 2 ∧ iexW.openSc = [2] ∧
    sigs iexW.log = [.tPause 2, .tPause 1] := by decide

/-- … and the only paused subchannel closed: the connection is resumed (the defect fixed by bec439a) -/
def iexC : Inb := istep (istep (istep (istep {} .use) (.opn 1)) (.pause 1)) (.close 1)
example : iexC.pausedSc = [] ∧ sigs iexC.log = [.tResume 1, .tPause 1] := by decide

/-- pause → loseConnection() (subchannel `closing`, still open) → resume: the resume is honoured;
    then the peer's CLOSE closes it -/
def iexL : Inb := istep (istep (istep (istep (istep {} .use) (.opn 1)) (.pause 1)) (.lose 1)) (.resume 1)
example : (istep (istep (istep (istep {} .use) (.opn 1)) (.pause 1)) (.lose 1)).scState 1 = (.closing, false) ∧
    iexL.openSc = [1] ∧ iexL.pausedSc = [] ∧ sigs iexL.log = [.tResume 1, .tPause 1] ∧
    (istep iexL (.rclose 1)).openSc = [] := by decide

/-- half-close: pause → loseWriteConnection() (`write_closed`) → peer's CLOSE closes it while paused: released -/
def iexH : Inb := istep (istep (istep (istep (istep {} .use) (.opnHalf 1)) (.pause 1)) (.loseW 1)) (.rclose 1)
example : iexH.openSc = [] ∧ iexH.pausedSc = [] ∧ iexH.scState 1 = (.closed, true) ∧
    sigs iexH.log = [.tResume 1, .tPause 1] := by decide

/-- the pre-listen backlog: the peer OPENs subchannel 1 and sends three DATA before anybody listens (nothing is
    paused, `backlog_touches_nothing`); the application then listens with a protocol that pauses at its first
    `dataReceived`: during the hand-over its pause is recorded and the connection paused, and it stays paused
    after the hand-over (the subchannel does not resume on its own account) -/
def iexB : Inb := istep (istep (istep (istep (istep (istep {} .use) (.ropen 1)) (.rdata 1)) (.rdata 1)) (.rdata 1)) (.listen 2)
example : (istep (istep (istep (istep (istep {} .use) (.ropen 1)) (.rdata 1)) (.rdata 1)) (.rdata 1)).pendOf 1 = (3, false) ∧
    sigs (istep (istep (istep (istep (istep {} .use) (.ropen 1)) (.rdata 1)) (.rdata 1)) (.rdata 1)).log = [] ∧
    iexB.pausedSc = [1] ∧ (G iexB.log).w = [1] ∧ EnvOK iexB.log ∧ sigs iexB.log = [.tPause 1] ∧
    iexB.scState 1 = (.open_full, false) ∧ iexB.pendOf 1 = (0, false) := by decide

end WV.Props.C15
