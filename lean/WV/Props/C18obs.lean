import WV.Proofs.Observer

/-!
# C18, component OBSERVER — the Deferred façade's observers

Theorems about `WV.Observer.run` — the function the `OBSERVER` driver executes line by line — for
ALL operation lists (`get_*()`/`close()` calls with re-entrant callbacks, `got_*`, `received`,
`closed`, eventual-queue turns), of any length.

Vocabulary (`WV.Proofs.Observer`): `sched w []` is everything ever handed to
`EventualQueue.eventually` in the order it was handed over (executed part `w.log` first, then the
queue); `outcomes w d` are the entries of `sched` for Deferred `d`; `msgIds w.regs` are the
`get_message()` Deferreds in the order they were returned; `firstGot e ops` / `receivedOf ops` read
the values given to `got_<e>` / `received` off the operation list.
-/
namespace WV.Props.C18obs
open WV.Observer

/-- the state after an operation list, from a fresh `_DeferredWormhole` -/
abbrev after (ops : List Op) : W := run W.init ops

/-! ## (2) each Deferred fires at most once -/

/-- For any history: no scheduled call ever hits an already-fired Deferred (`AlreadyCalledError`),
    the executed firings are of pairwise distinct Deferreds, and — counting queued calls too — every
    Deferred has at most one firing scheduled in its whole life. -/
theorem each_deferred_fires_at_most_once (ops : List Op) :
    (∀ f ∈ (after ops).log, f.dup = false) ∧
    ((after ops).log.map (fun f => f.call.d)).Nodup ∧
    ∀ d, (outcomes (after ops) d).length ≤ 1 := by
  refine ⟨no_dup_log ops W.init WF_init (by intro f hf; simp [W.init] at hf), ?_, ?_⟩
  · apply List.nodup_iff_count.mpr
    intro d
    have h : dcount (sched (after ops) []) d ≤ 1 := dcount_sched_le_one (WF_after ops) d
    simp only [sched, dcount_append] at h
    have e : dcount (after ops).logCalls d = List.count d (List.map (fun f => f.call.d) (after ops).log) := by
      simp [dcount, W.logCalls, List.map_map, Function.comp_def]
    omega
  · intro d; rw [length_outcomes]; exact dcount_sched_le_one (WF_after ops) d

/-- … and every Deferred ever handed out is in exactly one place: waiting in one observer, or
    scheduled/fired once.  None is lost. -/
theorem no_deferred_lost (ops : List Op) (d : Nat) :
    pendCnt (after ops) d + (outcomes (after ops) d).length = if d < (after ops).regs.length then 1 else 0 := by
  rw [length_outcomes]; exact (WF_after ops).once d

/-! ## (1) after closed, everything fails -/

/-- Let `closed(result)` (either form) be processed after any history `pre`, followed by any
    history `post`.  Every `get_*` Deferred that was waiting in an observer when `closed` arrived,
    and every `get_*` Deferred created later (by a direct call or from inside a callback), has
    exactly one firing scheduled, and it is an errback — including `get_message()` while results are
    still queued, and one-shot observers that had delivered a value before. -/
theorem after_closed_all_fail (pre post : List Op) (cl : BOp) (hcl : cl.isClosed = true) (d : Nat) (reg : Reg)
    (hreg : (after (pre ++ .b cl :: post)).regs[d]? = some reg) (hk : reg.kind ≠ .os .closed)
    (hd : PendingGet (after pre) d ∨ (after pre).regs.length ≤ d) :
    ∃ c, outcomes (after (pre ++ .b cl :: post)) d = [c] ∧ c.d = d ∧ c.res.isFailure = true := by
  have hrun : after (pre ++ .b cl :: post) = run (bstep (after pre) cl) post := by
    simp only [after]; rw [run_append]; rfl
  have hw0 : WF (after pre) [] := WF_after pre
  have hinv := Inv1_run post (Inv1_after_closed cl hcl hw0)
  rw [← hrun] at hinv
  have hwf := hinv.wf
  rcases hd with hp | hlate
  · obtain ⟨f, hf, hm⟩ := closed_schedules_pending (after pre) cl [] hcl d hp
    have hm' : (⟨d, f⟩ : Call) ∈ sched (after (pre ++ .b cl :: post)) [] := by
      rw [hrun]; exact (Ext_run post _).subset hm
    exact ⟨⟨d, f⟩, outcomes_of_mem hwf hm', rfl, hf⟩
  · have hn : (bstep (after pre) cl).regs.length ≤ d := by
      rcases bstep_regs_of_not_call (after pre) cl with ⟨k, react, rfl⟩ | hregs
      · simp [BOp.isClosed] at hcl
      · rw [hregs]; exact hlate
    obtain ⟨c, hc, hcd, hf⟩ := hinv.late d reg hn hreg hk
    subst hcd
    exact ⟨c, outcomes_of_mem hwf hc, rfl, hf⟩

/-- and nothing is left waiting in a `get_*` observer once `closed` has been processed -/
theorem after_closed_none_waiting (pre post : List Op) (cl : BOp) (hcl : cl.isClosed = true) (d : Nat) :
    ¬ PendingGet (after (pre ++ .b cl :: post)) d := by
  have hrun : after (pre ++ .b cl :: post) = run (bstep (after pre) cl) post := by
    simp only [after]; rw [run_append]; rfl
  have hinv := Inv1_run post (Inv1_after_closed cl hcl (WF_after pre))
  rw [← hrun] at hinv
  rintro (⟨o, ho, hm⟩ | hm)
  · obtain ⟨f, hf, _⟩ := hinv.failed.1 o ho
    rw [hinv.wf.osDrained o f hf] at hm; cases hm
  · obtain ⟨f, hf, _⟩ := hinv.failed.2
    rw [hinv.wf.seqErr f hf] at hm; cases hm

/-! ## (3) one-shot observers deliver the event's first value -/

/-- Before `closed`: the observer's result is latched by the first `got_*` (`fire_if_not_fired`
    keeps the first), whatever else happens. -/
theorem oneshot_result_is_first_value (ops : List Op) (hnc : ∀ o ∈ ops, o.isClosed = false) (e : Ev) :
    ((after ops).os e.os).result = (firstGot e ops).map Res.val := by
  have := result_run e ops W.init hnc
  have h0 : (W.init.os e.os).result = none := rfl
  rw [h0] at this
  exact this

/-- Before `closed`: a `get_<e>()` Deferred — issued before or after the event, directly or from a
    callback — has exactly one firing scheduled, with the FIRST value given to `got_<e>`; if the
    event has not happened it is waiting and nothing is scheduled for it. -/
theorem oneshot_first_value (ops : List Op) (hnc : ∀ o ∈ ops, o.isClosed = false) (e : Ev) (d : Nat) (reg : Reg)
    (hreg : (after ops).regs[d]? = some reg) (hk : reg.kind = .os e.os) :
    match firstGot e ops with
    | some v => outcomes (after ops) d = [⟨d, .val v⟩]
    | none => d ∈ ((after ops).os e.os).observers ∧ outcomes (after ops) d = [] := by
  have hrel := OneShotRel_run ops hnc OneShotRel_init d reg e.os hreg hk
  rw [oneshot_result_is_first_value ops hnc e] at hrel
  cases hf : firstGot e ops with
  | none =>
    rw [hf] at hrel
    exact ⟨hrel, outcomes_of_pending (WF_after ops) (pendCnt_pos_os hrel)⟩
  | some v =>
    rw [hf] at hrel
    exact outcomes_of_mem (WF_after ops) hrel

/-! ## (4) get_message() delivers the received values in order, each once -/

/-- Before `closed`, for all interleavings of `get_message()` calls (direct or from callbacks),
    `received(x)` and turns: the j-th `get_message()` Deferred has exactly one firing scheduled, with
    the j-th received value; the Deferreds beyond the received values wait with nothing scheduled;
    the values beyond the Deferreds stay queued in order. -/
theorem observer_fifo (ops : List Op) (hnc : ∀ o ∈ ops, o.isClosed = false) :
    (∀ p ∈ (msgIds (after ops).regs).zip (receivedOf ops), outcomes (after ops) p.1 = [⟨p.1, .val p.2⟩]) ∧
    (∀ d ∈ (msgIds (after ops).regs).drop (receivedOf ops).length,
        d ∈ (after ops).received.observers ∧ outcomes (after ops) d = []) ∧
    (after ops).received.results = (receivedOf ops).drop (msgIds (after ops).regs).length := by
  have h : Fifo (after ops) [] ([] ++ receivedOf ops) := Fifo_run ops hnc Fifo_init
  rw [List.nil_append] at h
  refine ⟨fun p hp => outcomes_of_mem (WF_after ops) (h.delivered p hp), ?_, h.results⟩
  intro d hd
  rw [← h.observers] at hd
  exact ⟨hd, outcomes_of_pending (WF_after ops) (pendCnt_pos_recv hd)⟩

/-- the `get_message()` Deferreds are exactly the registry entries of kind `message`, in order -/
theorem msgIds_spec (regs : List Reg) : (msgIds regs).Pairwise (· < ·) ∧
    ∀ d, d ∈ msgIds regs ↔ ∃ reg, regs[d]? = some reg ∧ reg.kind = .message := by
  have key : ∀ (rs : List Reg) (i : Nat),
      (msgIdsFrom i rs).Pairwise (· < ·) ∧
      ∀ d, d ∈ msgIdsFrom i rs ↔ ∃ j reg, rs[j]? = some reg ∧ reg.kind = .message ∧ d = i + j := by
    intro rs
    induction rs with
    | nil => intro i; simp [msgIdsFrom]
    | cons r rs ih =>
      intro i
      obtain ⟨hp, hm⟩ := ih (i + 1)
      constructor
      · simp only [msgIdsFrom]
        split
        · simp only [List.singleton_append, List.pairwise_cons]
          refine ⟨?_, hp⟩
          intro a ha
          obtain ⟨j, _, _, _, rfl⟩ := (hm a).mp ha
          omega
        · simpa using hp
      · intro d
        simp only [msgIdsFrom, List.mem_append, hm]
        constructor
        · rintro (h | ⟨j, reg, hj, hk, rfl⟩)
          · split at h
            · rename_i hk; simp at h; exact ⟨0, r, by simp, hk, by omega⟩
            · simp at h
          · exact ⟨j + 1, reg, by simpa using hj, hk, by omega⟩
        · rintro ⟨j, reg, hj, hk, rfl⟩
          cases j with
          | zero => simp at hj; subst hj; left; simp [hk]
          | succ j => right; exact ⟨j, reg, by simpa using hj, hk, by omega⟩
  obtain ⟨hp, hm⟩ := key regs 0
  refine ⟨hp, fun d => ?_⟩
  unfold msgIds
  rw [hm]
  constructor
  · rintro ⟨j, reg, hj, hk, rfl⟩; exact ⟨reg, by simpa using hj, hk⟩
  · rintro ⟨reg, hj, hk⟩; exact ⟨d, reg, hj, hk, by omega⟩

/-! ## (5) the eventual queue is FIFO and defers to a later turn -/

/-- Calls are executed in the order they were handed to `eventually`: the record of everything
    scheduled only ever grows at the end, and what has been executed is always an initial segment of it. -/
theorem eventual_fifo (pre post : List Op) :
    sched (after pre) [] <+: sched (after (pre ++ post)) [] ∧
    (after pre).logCalls <+: sched (after pre) [] := by
  constructor
  · simp only [after]; rw [run_append]; exact Ext_run post _
  · unfold sched; rw [List.append_nil]; exact List.prefix_append _ _

/-- One turn, in any reachable state with the timer outstanding: exactly the calls queued when the
    turn starts run, in queue order, each really firing its Deferred; whatever those callbacks
    schedule (re-entrant `get_*()`) is queued for a later turn and has not run. -/
theorem eventual_turn (ops : List Op) (ht : (after ops).eq.timer = true) :
    (after ops).turn.log = (after ops).log ++ (after ops).eq.calls.map (fun c => (⟨c, false⟩ : Fire)) ∧
    sched (after ops).turn [] = sched (after ops) [] ++ (after ops).turn.eq.calls ∧
    ∀ c ∈ (after ops).turn.eq.calls, (after ops).turn.fired c.d = false := by
  have hw := WF_after ops
  have hl := turn_log hw ht
  refine ⟨hl, ?_, ?_⟩
  · simp only [sched, W.logCalls, hl, List.map_append, List.map_map, List.append_nil, List.append_assoc]
    congr 2
    induction (after ops).eq.calls with
    | nil => rfl
    | cons c cs ih => simp [ih]
  · intro c hc
    have hwt : WF (after ops).turn [] := WF_turn hw
    have h1 := dcount_sched_le_one hwt c.d
    have h2 := dcount_pos_of_mem hc
    simp only [sched, dcount_append, dcount_nil] at h1
    exact any_false_of_count _ _ (by unfold W.logCalls at h1; omega)

/-- without an outstanding timer a reactor iteration does nothing; and the timer is outstanding
    exactly when calls are queued, so a scheduled call always gets its turn -/
theorem eventual_timer (ops : List Op) :
    ((after ops).eq.timer = true ↔ (after ops).eq.calls ≠ []) ∧
    ((after ops).eq.timer = false → (after ops).turn = after ops) :=
  ⟨TI_run ops TI_init, turn_idle _⟩

/-! ## non-vacuity: concrete histories -/

open Op BOp in
/-- `get_message()` after closed with two results still queued: an errback, not `v1` -/
example : (after [b (received 1), b (received 2), b (closedOk 0), b (call .message []), turn]).log
    = [⟨⟨0, .wclosed 0⟩, false⟩] := by decide

open Op BOp in
/-- the hypotheses of `after_closed_all_fail` are met with a waiting Deferred (d0), a later one (d1),
    and an observer that had delivered a value before closed (code: d2 got v7, d3 gets the error) -/
example :
    let pre := [b (call .message []), b (got .code 7), b (call (.os .code) []), turn]
    let post := [b (call .message []), b (call (.os .code) []), turn]
    PendingGet (after pre) 0 ∧ (after pre).regs.length ≤ 2 ∧
    (after (pre ++ b (closedOk 0) :: post)).log.map (fun f => (f.call.d, f.call.res)) =
      [(1, .val 7), (0, .wclosed 0), (2, .wclosed 0), (3, .wclosed 0)] := by
  refine ⟨Or.inr (by decide), by decide, by decide⟩

open Op BOp in
/-- `fire_if_not_fired` keeps the first value; a getter before and one after the event both get it -/
example :
    let ops := [b (call (.os .verifier) []), b (got .verifier 5), b (got .verifier 6), b (call (.os .verifier) []), turn]
    firstGot .verifier ops = some 5 ∧
    (after ops).log.map (fun f => (f.call.d, f.call.res)) = [(0, .val 5), (1, .val 5)] := by
  exact ⟨by decide, by decide⟩

open Op BOp in
/-- FIFO with getters before and after the values, and a re-entrant `get_message()` from a callback -/
example :
    let ops := [b (call .message [.message]), b (received 1), b (received 2), b (received 3), b (call .message []), turn, turn]
    msgIds (after ops).regs = [0, 1, 2] ∧ receivedOf ops = [1, 2, 3] ∧
    (after ops).log.map (fun f => (f.call.d, f.call.res)) = [(0, .val 1), (1, .val 2), (2, .val 3)] := by
  exact ⟨by decide, by decide, by decide⟩

open Op BOp in
/-- a call scheduled during a turn (by the callback of d0) runs in the next turn, not in this one -/
example :
    let ops := [b (got .code 4), b (call (.os .code) [.os .code])]
    (after ops).eq.timer = true ∧ (after ops).turn.log.map (fun f => f.call.d) = [0] ∧
    (after ops).turn.eq.calls = [⟨1, .val 4⟩] ∧ (after ops).turn.turn.log.map (fun f => f.call.d) = [0, 1] := by
  exact ⟨by decide, by decide, by decide, by decide⟩

end WV.Props.C18obs
