import WV.Model.C06
import WV.Gen.C06

/-!
C06 — `connectConsumer` registers the producer before it attaches the consumer.

The model's `attachConsumer` / `hstep … attachReady` run `consumer.registerProducer(self, True)` — and whatever the
consumer does from inside it, e.g. `producer.resumeProducing()` on a transport that then hands over held bytes —
*before* `_consumer` is set (`finishAttach`): records that arrive during the registration are queued behind the older
ones and the drain loop gives the consumer all of them in order (`holding_transport_prefix`).  The translator compares
the source positions of the `registerProducer` call and of the assignment to `self._consumer` on every run.
-/
namespace WV.Props.C06
open WV WV.C06

/-- **the producer is registered before `_consumer` is set** (as regenerated from /repo) -/
theorem connectConsumer_registers_first : Gen.C06.connectConsumer_registers_before_attach = true := by decide

end WV.Props.C06
