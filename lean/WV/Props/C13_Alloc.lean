import WV.Model.C13

/-!
C13 — the model's assumption about WHEN a subchannel id is allocated, checked against the working
tree on every run.  `WV.C13.Side.init` takes the first id from `chooseRole` (`choose_role` seeds
`_next_subchannel_id`: 1 for the Leader, 2 for the Follower) and `WV.C13.connect` allocates inside the
operation that runs after the main channel fired.  Both are facts about the source, extracted by
`tools/extract.py` (`ast`): if `SubchannelConnectorEndpoint.connect` reserved its id before
`yield …when_fired()` (while `_my_role` may still be `None`), or `allocate_subchannel_id` seeded the
counter itself, these proofs fail and the check falls back to the failing-input search.
-/
namespace WV.Props.C13
open WV.Gen

theorem ids_allocated_when_role_known :
    Flags.connect_allocates_after_main_channel = true ∧ Flags.choose_role_seeds_subchannel_id = true :=
  ⟨rfl, rfl⟩

end WV.Props.C13
