import WV.Proofs.PyIRDil2_Inb

/-!
Translation validation of method BODIES, C10 part 2 (Dilation L4 on the receiving side): `Inbound.handle_open`,
`handle_data`, `handle_close` — the bodies generated from the working tree (`WV.Gen.PyIRDil`) against `WV.C10.handleOpen`,
`handleData`, `handleClose` (the open-subchannel map `L4.subs`, delivery to the subchannel with that id).
The SubChannel machine itself is the generated table (`C10.subInput`); a body's `sc.remote_data(data)` is a recorded call,
read back as the machine input it is (`absL4`) and applied to the model (`applyL4`).
-/
set_option linter.unusedSimpArgs false

namespace WV.Props.PyIRDil2C10
open WV WV.PyIR WV.C10 WV.Gen.PyIRDil WV.Proofs.PyIRC03 WV.Proofs.PyIRDil WV.Proofs.PyIRDil2

theorem all_translated :
    ["Inbound.handle_open", "Inbound.handle_data", "Inbound.handle_close"].all
      (fun m => WV.Gen.PyIRDil.translated.contains m) = true := by decide

/-- `handle_data(scid, data)` = `handleData`: the map is only read; a missing subchannel is logged (`log.err`) and nothing
    is delivered; otherwise exactly one `remote_data(data)` goes to the object registered under `scid` -/
theorem inbound_handle_data (fuel : Nat) (h : Store) (t : L4) (R : RelOpen h t) (c : Nat) (d : Bytes) :
    let o := exec (fuel + 1) envI tbl_Inbound "handle_data" [.int c, .bytes d] h
    o.heap = h ∧ o.exc = none ∧ handleData t c d = applyL4 t (o.calls.filterMap absL4) ∧
      o.calls.map (·.meth) = ["msg", if (findSub c t.subs).isSome then "remote_data" else "err"] := by
  unfold RelOpen at R
  cases hf : findSub c t.subs with
  | none =>
    have hg := dget_none_of_findSub hf
    dil_eval15 [tbl_Inbound, m_Inbound_handle_data, envI, envD, noRe, R, dictGet_enc keyEnc_int, hg, handleData, hf, applyL4, absL4]
  | some s =>
    have hg := dget_some_of_findSub hf
    dil_eval15 [tbl_Inbound, m_Inbound_handle_data, envI, envD, noRe, R, dictGet_enc keyEnc_int, hg, handleData, hf, applyL4, absL4,
      encSc]

/-- `handle_close(scid)` = `handleClose`: a missing subchannel is logged; otherwise one `remote_close()` on that object -/
theorem inbound_handle_close (fuel : Nat) (h : Store) (t : L4) (R : RelOpen h t) (c : Nat) :
    let o := exec (fuel + 1) envI tbl_Inbound "handle_close" [.int c] h
    o.heap = h ∧ o.exc = none ∧ handleClose t c = applyL4 t (o.calls.filterMap absL4) ∧
      o.calls.map (·.meth) = ["msg", if (findSub c t.subs).isSome then "remote_close" else "err"] := by
  unfold RelOpen at R
  cases hf : findSub c t.subs with
  | none =>
    have hg := dget_none_of_findSub hf
    dil_eval15 [tbl_Inbound, m_Inbound_handle_close, envI, envD, noRe, R, dictGet_enc keyEnc_int, hg, handleClose, hf, applyL4, absL4]
  | some s =>
    have hg := dget_some_of_findSub hf
    dil_eval15 [tbl_Inbound, m_Inbound_handle_close, envI, envD, noRe, R, dictGet_enc keyEnc_int, hg, handleClose, hf, applyL4, absL4,
      encSc]

/-- the SubChannel object `handle_open` creates, as the model records it -/
def newSub (c : Nat) (name : Bytes) : Sub :=
  { scid := c, name := name, st := Gen.SubChannel.init, pendData := [], pendClose := false, shown := [] }

/-- `SubchannelDemultiplex._got_open(sc, peer_addr)` in the model: connect at once if somebody listens, else park -/
def gotOpen (t1 : L4) (c : Nat) (name : Bytes) : L4 :=
  if t1.factories.contains name then t1.upd c connectSub
  else { t1 with pendOpens := t1.pendOpens ++ [(name, c)] }

/-- the `_got_open` call as recorded -/
def isGotOpen (c : Nat) (name : Bytes) : Call → Bool
  | ⟨"_manager", "_subprotocol_factories._got_open", [.ref "SubChannel" c', .obj "SubchannelAddress" [.bytes n]]⟩ => c' == c && n == name
  | _ => false

/-- `handle_open(scid, subprotocol)` = `handleOpen`: a duplicate OPEN is logged and ignored (the map is untouched);
    otherwise a NEW SubChannel object enters `_open_subchannels` under `scid` BEFORE `_got_open(sc, peer_addr)` is called
    with that object and the address built from `subprotocol`; the model's `handleOpen` is `_got_open`'s model on that map -/
theorem inbound_handle_open (fuel : Nat) (h : Store) (t : L4) (R : RelOpen h t) (c : Nat) (name : Bytes) (i : Nat) (ha : Val)
    (hm : h.get "_manager" = some (.ref "Manager" i)) (hh : h.get "_host_addr" = some ha) :
    let o := exec (fuel + 1) envI tbl_Inbound "handle_open" [.int c, .bytes name] h
    o.exc = none ∧
    (match findSub c t.subs with
     | some _ => o.heap = h ∧ o.calls.map (·.meth) = ["msg", "err"] ∧ handleOpen t c name = t
     | none => RelOpen o.heap { t with subs := t.subs ++ [newSub c name] } ∧
        o.calls.map (·.meth) = ["msg", "_subprotocol_factories._got_open"] ∧ (o.calls.map (isGotOpen c name) = [false, true]) ∧
        handleOpen t c name = gotOpen { t with subs := t.subs ++ [newSub c name] } c name) := by
  unfold RelOpen at R
  cases hf : findSub c t.subs with
  | some s =>
    have hg := dget_some_of_findSub hf
    dil_eval15 [tbl_Inbound, m_Inbound_handle_open, envI, envD, noRe, R, dictGet_enc keyEnc_int, hg, handleOpen, hf]
  | none =>
    have hg := dget_none_of_findSub hf
    have hl : List.lookup c (t.subs.map fun s => (s.scid, s.scid)) = none := by rw [← dget_eq_lookup]; exact hg
    have hset := dictSet_enc keyEnc_int encSc (t.subs.map fun s => (s.scid, s.scid)) c c
    rw [dset_absent _ _ _ hl] at hset
    dil_eval15 [tbl_Inbound, m_Inbound_handle_open, envI, envD, noRe, R, dictGet_enc keyEnc_int, hg, handleOpen, hf, hm, hh,
      hset, RelOpen, newSub, gotOpen]
    simp [isGotOpen, encSc, get_set]

/-- `UnexpectedSubprotocol` out of `_got_open`: the peer is told `send_close(scid)` and the entry is removed again — the
    map is what it was -/
theorem inbound_handle_open_unexpected (fuel : Nat) (h : Store) (t : L4) (R : RelOpen h t) (c : Nat) (name : Bytes) (i : Nat)
    (ha : Val) (hm : h.get "_manager" = some (.ref "Manager" i)) (hh : h.get "_host_addr" = some ha)
    (hf : findSub c t.subs = none) :
    let o := exec (fuel + 1) { envI with raises := fun k => if k = 1 then some "UnexpectedSubprotocol" else none } tbl_Inbound
      "handle_open" [.int c, .bytes name] h
    o.exc = none ∧ RelOpen o.heap t ∧
      o.calls.map (fun x => (x.meth, x.args.length)) = [("msg", 3), ("_subprotocol_factories._got_open", 2), ("send_close", 1)] := by
  unfold RelOpen at R
  have hg := dget_none_of_findSub hf
  have hl : List.lookup c (t.subs.map fun s => (s.scid, s.scid)) = none := by rw [← dget_eq_lookup]; exact hg
  have hset := dictSet_enc keyEnc_int encSc (t.subs.map fun s => (s.scid, s.scid)) c c
  rw [dset_absent _ _ _ hl] at hset
  have hdel := dictDel_enc keyEnc_int encSc ((t.subs.map fun s => (s.scid, s.scid)) ++ [(c, c)]) c
  rw [dpop_appended hf] at hdel
  have hget := dictGet_enc keyEnc_int encSc ((t.subs.map fun s => (s.scid, s.scid)) ++ [(c, c)]) c
  have hda := dget_appended _ _ hg
  rw [hda] at hget
  dil_eval15 [tbl_Inbound, m_Inbound_handle_open, envI, envD, noRe, R, dictGet_enc keyEnc_int, hg, hm, hh, hset, hdel, hget, hda,
    RelOpen]

/-! ## non-vacuity -/

def demoL4 : L4 := { L4.init with subs := [newSub 1 [112]], factories := [[112]] }
def demoInbHeap : Store :=
  [("_open_subchannels", .dict [(.int 1, encSc 1)]), ("_manager", .ref "Manager" 0), ("_host_addr", .none)]

example : RelOpen demoInbHeap demoL4 := rfl

/-- DATA for the open subchannel 1 is delivered to its object; DATA / CLOSE for 2 is logged; OPEN 2 adds the entry and
    calls `_got_open`; a duplicate OPEN 1 does not -/
example : (exec 2 envI tbl_Inbound "handle_data" [.int 1, .bytes [7]] demoInbHeap).calls.map (·.meth) = ["msg", "remote_data"] := by
  decide
example : (exec 2 envI tbl_Inbound "handle_close" [.int 2] demoInbHeap).calls.map (·.meth) = ["msg", "err"] := by decide
example : (exec 2 envI tbl_Inbound "handle_open" [.int 2, .bytes [112]] demoInbHeap).calls.map (isGotOpen 2 [112]) = [false, true] := by
  decide
example : (exec 2 envI tbl_Inbound "handle_open" [.int 1, .bytes [112]] demoInbHeap).calls.map (·.meth) = ["msg", "err"] := by decide

#print axioms all_translated
#print axioms inbound_handle_data
#print axioms inbound_handle_close
#print axioms inbound_handle_open
#print axioms inbound_handle_open_unexpected

end WV.Props.PyIRDil2C10
